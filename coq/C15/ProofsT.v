(* C15 — a step budget computed from the script table and the plan suffices. *)
From Yv Require Import Common.Base C15.Model C15.Spec C15.ProofsA C15.ProofsB1 C15.ProofsB2
  C15.ProofsB3 C15.ProofsB4 C15.ProofsBR C15.ProofsB5.
From Coq Require Import Arith.

(* ---- Level A: finished tasks are recorded once ---- *)
Definition DonesInv (m : mach) : Prop :=
  NoDup (dones (mex m)) /\ forall t, In t (dones (mex m)) -> t < ntasks (mex m).

Lemma DonesInv_step m o : InvA m -> DonesInv m -> DonesInv (mstep m o).
Proof.
  intros I [D1 D2]. destruct o as [| t0 | | r]; cbn [mstep].
  - split; cbn; [exact D1 | intros t H; apply D2 in H; lia].
  - destruct (Nat.ltb t0 (ntasks (mex m))); [|split; assumption].
    unfold wake. destruct (mem t0 (queue (mex m))); split; cbn; assumption.
  - destruct (running m); [split; assumption|]. unfold pop. destruct (queue (mex m)) as [|t q]; [split; assumption|].
    destruct (is_done _ t); split; cbn; assumption.
  - destruct (running m) as [u|] eqn:Hr; [|split; assumption].
    destruct (ia_running m I u Hr) as [H1 H2]. unfold finish. destruct r; [|split; assumption].
    split; cbn.
    + constructor; assumption.
    + intros t [<-|H]; [exact H2 | apply D2; exact H].
Qed.

Lemma DonesInv_run ops : forall m, InvA m -> DonesInv m -> DonesInv (mrun m ops).
Proof.
  induction ops as [|o ops IH]; intros m I D; [exact D|]. cbn. apply IH; [apply InvA_step; exact I | apply DonesInv_step; assumption].
Qed.

Lemma nodup_range_length (l : list nat) n : NoDup l -> (forall x, In x l -> x < n) -> length l <= n.
Proof.
  intros Hnd Hr. rewrite <- (seq_length n 0). apply NoDup_incl_length; [exact Hnd|].
  intros x Hx. apply in_seq. specialize (Hr x Hx). lia.
Qed.

Lemma reach_bounds e : reach e ->
  length (queue e) <= ntasks e /\ length (dones e) <= ntasks e /\
  (forall t, ~ In t (dones e) -> t < ntasks e -> length (dones e) < ntasks e).
Proof.
  intros [ops [<- _]]. pose proof (InvA_reach ops) as I.
  assert (D : DonesInv (mrun mach0 ops)).
  { apply DonesInv_run; [apply InvA_init|]. split; cbn; [constructor | intros t []]. }
  destruct D as [D1 D2].
  split; [apply nodup_range_length; [apply (ia_nodup _ I) | apply (ia_range _ I)]|].
  split; [apply nodup_range_length; assumption|].
  intros t Ht Hn. assert (L : length (t :: dones (mex (mrun mach0 ops))) <= ntasks (mex (mrun mach0 ops))).
  { apply nodup_range_length; [constructor; assumption|]. intros x [<-|Hx]; [exact Hn | apply D2; exact Hx]. }
  cbn in L. lia.
Qed.

(* ---- costs ---- *)
Section Cost.
Variable W : nat -> nat.
Variable scripts : list script.
Hypothesis HW : cert scripts W.

Definition pcs (sh : shared) : list (list action) := map pc (tasks sh).
Definition wsum (sh : shared) : nat := list_sum (map (wc W) (pcs sh)).

Lemma map_pc_upd (f : task -> task) l : (forall k, pc (f k) = pc k) -> forall n, map pc (upd n f l) = map pc l.
Proof.
  intros Hf. induction l as [|x l IH]; intros [|n]; cbn; try reflexivity; [rewrite Hf; reflexivity | rewrite IH; reflexivity].
Qed.

Lemma pcs_set_rel r x sh : pcs (set_rel r x sh) = pcs sh.
Proof. unfold pcs, set_rel. cbn. apply map_pc_upd. reflexivity. Qed.
Lemma pcs_set_recvs t rv sh : pcs (set_recvs t rv sh) = pcs sh.
Proof. unfold pcs, set_recvs. cbn. apply map_pc_upd. reflexivity. Qed.
Lemma pcs_add_task p sh : pcs (add_task p sh) = pcs sh ++ [p].
Proof. unfold pcs, add_task. cbn. rewrite map_app. reflexivity. Qed.

Definition newcost (l : list (list action)) : nat := list_sum (map (fun p => 1 + wc W p) l).

Lemma newcost_app a b : newcost (a ++ b) = newcost a + newcost b.
Proof. unfold newcost. rewrite map_app, list_sum_app. reflexivity. Qed.

Lemma wc_cons a l : wc W (a :: l) = act_cost W a + wc W l.
Proof. reflexivity. Qed.

(* what one poll costs *)
Lemma poll_cost t : forall acts sh,
  let r := poll_loop scripts t sh acts in
  exists newpcs consumed,
    pcs (p_sh r) = pcs sh ++ newpcs /\ count_spawn (p_effs r) = length newpcs /\
    wc W (p_pc r) + newcost newpcs + consumed <= wc W acts /\
    (consumed = 0 -> p_out r = OPend -> p_effs r = [] /\ newpcs = []) /\
    (p_out r = OReady -> p_pc r = []).
Proof.
  induction acts as [|a rest IH]; intros sh r; subst r.
  - cbn [poll_loop]. exists [], 0. unfold complete.
    destruct (relay_send (rel (get_task sh t)) 0) as [[r' w] [|]]; cbn [p_sh p_effs p_pc p_out];
      rewrite ?pcs_set_rel, app_nil_r.
    + repeat split; try reflexivity; try lia; discriminate.
    + repeat split; try reflexivity; try (cbn; lia); try discriminate. destruct w; reflexivity.
  - cbn [poll_loop]. destruct (do_action scripts t sh a rest) as [sh' evs effs|r0] eqn:Ha.
    + (* the action is consumed *)
      destruct (IH sh') as [np [c [H1 [H2 [H3 [H4 H5]]]]]].
      set (r1 := poll_loop scripts t sh' rest) in *.
      assert (Hstep : exists np0, pcs sh' = pcs sh ++ np0 /\ count_spawn effs = length np0 /\
                 newcost np0 + 1 <= act_cost W a).
      { destruct a as [n|k|k|k|s| | |v]; cbn [do_action] in Ha.
        - discriminate.
        - destruct (mem k (flags sh)); [|discriminate]. inversion Ha; subst. exists []. rewrite app_nil_r. cbn. repeat split; lia.
        - inversion Ha; subst. exists []. rewrite app_nil_r, count_spawn_wakes. cbn. repeat split; lia.
        - inversion Ha; subst. exists []. rewrite app_nil_r, count_spawn_wakes. cbn. repeat split; lia.
        - inversion Ha; subst. exists [script_of scripts s]. rewrite pcs_set_recvs, pcs_add_task.
          split; [reflexivity|]. split; [reflexivity|]. unfold newcost. cbn. pose proof (HW s). lia.
        - destruct (my_recvs sh t) as [|x rv']; [inversion Ha; subst; exists []; rewrite app_nil_r; cbn; repeat split; lia|].
          destruct (relay_poll (rel (get_task sh x)) t) as [[r' [v|]] [|]]; inversion Ha; subst.
          exists []. rewrite pcs_set_recvs, pcs_set_rel, app_nil_r. cbn. repeat split; lia.
        - destruct (my_recvs sh t) as [|x rv']; [inversion Ha; subst; exists []; rewrite app_nil_r; cbn; repeat split; lia|].
          destruct (relay_try (rel (get_task sh x))) as [r' res]. destruct res; inversion Ha; subst;
            exists []; rewrite ?pcs_set_recvs, pcs_set_rel, app_nil_r; cbn; repeat split; lia.
        - discriminate. }
      destruct Hstep as [np0 [G1 [G2 G3]]].
      exists (np0 ++ np), (S c). cbn [emit p_sh p_pc p_effs p_out].
      split; [rewrite H1, G1, app_assoc; reflexivity|].
      split; [rewrite count_spawn_app, app_length, G2, H2; reflexivity|].
      split; [rewrite newcost_app, wc_cons; lia|]. split; [intros X; discriminate | exact H5].
    + (* the poll returns at this action *)
      destruct a as [n|k|k|k|s| | |v]; cbn [do_action] in Ha.
      * inversion Ha; subst. exists [], 1. cbn [p_sh p_pc p_effs p_out]. rewrite app_nil_r.
        split; [reflexivity|]. split; [clear; induction n as [|n IH]; [reflexivity | exact IH]|].
        split; [rewrite wc_cons; cbn; lia|]. split; [intros X; discriminate | discriminate].
      * destruct (mem k (flags sh)); [discriminate|]. inversion Ha; subst. exists [], 0.
        cbn [p_sh p_pc p_effs p_out]. rewrite app_nil_r.
        split; [reflexivity|]. split; [reflexivity|]. split; [cbn; lia|]. split; [intros _ _; split; reflexivity | discriminate].
      * discriminate.
      * discriminate.
      * discriminate.
      * destruct (my_recvs sh t) as [|x rv']; [discriminate|].
        destruct (relay_poll (rel (get_task sh x)) t) as [[r' [v|]] [|]]; inversion Ha; subst;
          exists [], 0; cbn [p_sh p_pc p_effs p_out]; rewrite ?pcs_set_rel, app_nil_r;
          (split; [reflexivity|]); (split; [reflexivity|]); (split; [cbn; lia|]);
          (split; [intros _ _; split; reflexivity | discriminate]).
      * destruct (my_recvs sh t) as [|x rv']; [discriminate|].
        destruct (relay_try (rel (get_task sh x))) as [r' res]. destruct res; discriminate.
      * inversion Ha; subst. exists [], 0. unfold complete.
        destruct (relay_send (rel (get_task sh t)) v) as [[r' w] [|]]; cbn [p_sh p_effs p_pc p_out];
          rewrite ?pcs_set_rel, app_nil_r.
        -- repeat split; try reflexivity; try (cbn; lia); discriminate.
        -- repeat split; try reflexivity; try (cbn; lia); try discriminate. destruct w; reflexivity.
Qed.
End Cost.

Section Measure.
Variable W : nat -> nat.
Variable scripts : list script.
Hypothesis HW : cert scripts W.

Definition Rm (st : sys) : nat := wsum W (ss st) + (ntasks (sx st) - length (dones (sx st))).
Definition Psi (st : sys) : nat := ntasks (sx st) + wsum W (ss st).
Definition Mm (K : nat) (st : sys) : nat := K * Rm st + length (queue (sx st)).

Lemma map_pc_set_pc t p l : map pc (upd t (fun k => mkTask p (recvs k) (rel k)) l) = upd t (fun _ => p) (map pc l).
Proof. revert t. induction l as [|x l IH]; intros [|t]; cbn; try reflexivity. rewrite IH. reflexivity. Qed.

Lemma list_sum_upd (f : list action -> nat) x : forall l t, t < length l ->
  list_sum (map f (upd t (fun _ => x) l)) + f (nth t l []) = list_sum (map f l) + f x.
Proof.
  induction l as [|y l IH]; intros [|t] Ht; cbn [length] in Ht; try lia.
  - cbn. lia.
  - assert (Ht' : t < length l) by lia. specialize (IH t Ht'). cbn [upd map nth]. unfold list_sum in *. cbn [fold_right]. lia.
Qed.

Lemma step_measure st st' res : InvB st -> sys_step scripts st = (st', res) -> res <> SIdle ->
  Psi st' <= Psi st /\ forall K, Psi st < K -> Mm K st' < Mm K st.
Proof.
  intros I Hs Hne. pose proof (InvB_step scripts st I) as I'. rewrite Hs in I'. cbn [fst] in I'.
  pose proof I as [Iwf Ilen Iq Id Ifin Ilive Inp Ire].
  destruct (reach_bounds _ Ire) as [Bq [Bd Bd']].
  destruct (reach_bounds _ (ib_reach st' I')) as [Bq' _].
  unfold sys_step, pop in Hs. destruct (queue (sx st)) as [|t q] eqn:Hq; [inversion Hs; subst; contradiction|].
  assert (Htn : t < ntasks (sx st)) by (apply Iq; left; reflexivity).
  unfold is_done in Hs. cbn [dones] in Hs. destruct (mem t (dones (sx st))) eqn:Hd.
  - inversion Hs; subst st' res. unfold Psi, Mm, Rm. cbn [sx ss ntasks dones queue]. split; [lia|].
    intros K _. rewrite Hq. cbn [length]. lia.
  - apply mem_false in Hd.
    set (e := mkExec q (ntasks (sx st)) (dones (sx st))) in *.
    unfold poll_task in Hs.
    destruct (poll_cost W scripts HW t (pc (get_task (ss st) t)) (ss st)) as [np [c [H1 [H2 [H3 [H4 H5]]]]]].
    set (r := poll_loop scripts t (ss st) (pc (get_task (ss st) t))) in *.
    cbn [p_sh p_pc p_evs p_effs p_out] in Hs.
    destruct (fold_eff (p_effs r) e) as [Fn [Fd _]]. cbn [e ntasks dones] in Fn, Fd.
    set (e' := fold_left apply_effect (p_effs r) e) in *.
    set (shf := set_pc t (p_pc r) (p_sh r)) in *.
    assert (Htl : t < length (pcs (ss st) ++ np)).
    { rewrite app_length. unfold pcs. rewrite map_length. fold (nt (ss st)). rewrite Ilen. lia. }
    assert (Hws : wsum W shf + wc W (pc (get_task (ss st) t)) =
                  wsum W (ss st) + list_sum (map (wc W) np) + wc W (p_pc r)).
    { unfold wsum at 1. unfold shf, pcs, set_pc. cbn [tasks]. rewrite map_pc_set_pc. fold (pcs (p_sh r)).
      rewrite H1. pose proof (list_sum_upd (wc W) (p_pc r) (pcs (ss st) ++ np) t Htl) as L.
      rewrite map_app, list_sum_app in L.
      assert (Hn : nth t (pcs (ss st) ++ np) [] = pc (get_task (ss st) t)).
      { rewrite app_nth1 by (unfold pcs; rewrite map_length; fold (nt (ss st)); rewrite Ilen; exact Htn).
        unfold pcs, get_task. change (@nil action) with (pc dummy_task). apply map_nth. }
      rewrite Hn in L. unfold wsum. lia. }
    assert (Hnc : newcost W np = length np + list_sum (map (wc W) np)).
    { unfold newcost. clear. induction np as [|x l IH]; [reflexivity|]. unfold list_sum in *. cbn [map fold_right length] in *. lia. }
    assert (Hkey : wsum W shf + length np + c <= wsum W (ss st)) by lia.
    assert (Hdl : length (dones (sx st)) < ntasks (sx st)) by (apply (Bd' t); assumption).
    destruct (p_out r) eqn:Ho; inversion Hs; subst st' res; clear Hs.
    + (* pending *)
      unfold Psi, Mm, Rm in *. cbn [sx ss finish] in *. fold shf e' in Bq' |- *. rewrite Fn, Fd, H2 in *.
      split; [lia|]. intros K HK. rewrite Hq. cbn [length].
      destruct c as [|c].
      * destruct (H4 eq_refl eq_refl) as [E1 E2]. subst np.
        assert (Eq : queue e' = q) by (unfold e'; rewrite E1; reflexivity). rewrite Eq. cbn [length] in *.
        assert (wsum W shf <= wsum W (ss st)) by lia. nia.
      * assert (L1 : wsum W shf + (ntasks (sx st) + length np - length (dones (sx st))) + 1 <=
                     wsum W (ss st) + (ntasks (sx st) - length (dones (sx st)))) by lia.
        assert (L2 : length (queue e') < K) by lia. nia.
    + (* ready *)
      unfold Psi, Mm, Rm in *. cbn [sx ss finish ntasks dones queue length] in *. fold shf e' in Bq' |- *.
      rewrite Fn, Fd, H2 in *. split; [lia|]. intros K HK. rewrite Hq. cbn [length].
      assert (L1 : wsum W shf + (ntasks (sx st) + length np - S (length (dones (sx st)))) + 1 <=
                   wsum W (ss st) + (ntasks (sx st) - length (dones (sx st)))) by lia.
      assert (L2 : length (queue e') < K) by lia. nia.
    + exfalso. pose proof (ib_nopanic _ I') as Np. cbn in Np. discriminate.
Qed.
End Measure.

Section Fuel.
Variable W : nat -> nat.
Variable scripts : list script.
Hypothesis HW : cert scripts W.

Lemma loop_fuel K stepmode : forall fuel st n,
  InvB st -> Psi W st < K -> Mm W K st < fuel ->
  ~ In LFuel (snd (run_loop fuel scripts stepmode st n)) /\
  Psi W (fst (run_loop fuel scripts stepmode st n)) <= Psi W st.
Proof.
  induction fuel as [|fuel IH]; intros st n I HK HM; [lia|].
  cbn [run_loop]. pose proof (InvB_step scripts st I) as I'.
  destruct (sys_step scripts st) as [st' res] eqn:Hs. cbn [fst] in I'.
  destruct res as [| |t evs r|t evs].
  - assert (E : st' = st).
    { unfold sys_step, pop in Hs. destruct (queue (sx st)) as [|t q]; [inversion Hs; reflexivity|].
      destruct (is_done _ t); [discriminate|]. destruct (p_out _); discriminate. }
    subst st'. cbn [fst snd]. split; [|lia]. intros [H|[]]. destruct stepmode; discriminate.
  - destruct (step_measure W scripts HW st st' SSkip I Hs ltac:(discriminate)) as [P1 P2].
    specialize (P2 K HK).
    destruct (IH st' (S n) I' ltac:(lia) ltac:(lia)) as [A B].
    destruct (run_loop fuel scripts stepmode st' (S n)) as [st2 l]. cbn [fst snd] in *.
    split; [|lia]. intros Hin. apply in_app_or in Hin. destruct Hin as [Hin|Hin]; [|exact (A Hin)].
    destruct stepmode; [destruct Hin as [Hin|[]]; discriminate | destruct Hin].
  - destruct (step_measure W scripts HW st st' (SPolled t evs r) I Hs ltac:(discriminate)) as [P1 P2].
    specialize (P2 K HK).
    destruct (IH st' (if r then S n else n) I' ltac:(lia) ltac:(lia)) as [A B].
    destruct (run_loop fuel scripts stepmode st' (if r then S n else n)) as [st2 l]. cbn [fst snd] in *.
    split; [|lia]. intros [Hin|Hin]; [discriminate|]. apply in_app_or in Hin. destruct Hin as [Hin|Hin]; [|exact (A Hin)].
    destruct stepmode; [destruct Hin as [Hin|[]]; discriminate | destruct Hin].
  - exfalso. pose proof (ib_nopanic st' I') as Np.
    unfold sys_step, pop in Hs. destruct (queue (sx st)) as [|t0 q]; [discriminate|].
    destruct (is_done _ t0); [discriminate|]. destruct (p_out _); inversion Hs; subst; cbn in Np; discriminate.
Qed.

Lemma Mm_bound K st : InvB st -> Psi W st < K -> Mm W K st < K * K.
Proof.
  intros I HK. destruct (reach_bounds _ (ib_reach st I)) as [Bq _]. unfold Mm, Rm, Psi in *.
  assert (wsum W (ss st) + (ntasks (sx st) - length (dones (sx st))) <= ntasks (sx st) + wsum W (ss st)) by lia.
  nia.
Qed.

Lemma x_fuel K fuel st x : InvB st -> K * K <= fuel ->
  Psi W st + plan_pot W [x] < K ->
  ~ In LFuel (snd (sys_x fuel scripts st x)) /\
  Psi W (fst (sys_x fuel scripts st x)) <= Psi W st + plan_pot W [x].
Proof.
  intros I HF HK. destruct x as [s|k|k| | |]; cbn [sys_x fst snd plan_pot] in *.
  - split; [intros [H|[]]; discriminate|]. unfold Psi, wsum, pcs, add_task. cbn [sx ss enqueue ntasks tasks].
    rewrite !map_app, list_sum_app.
    change (list_sum (map (wc W) (map pc [mkTask (script_of scripts s) [] RlPending])))
      with (wc W (script_of scripts s) + 0).
    pose proof (HW s). lia.
  - split; [intros [H|[]]; discriminate|]. unfold Psi, wsum, pcs. cbn [sx ss set_flag tasks].
    destruct (fold_wake (ext_wakes k st) (sx st)) as [A _]. rewrite A. lia.
  - split; [intros [H|[]]; discriminate|]. unfold Psi, wsum, pcs. cbn [sx ss].
    destruct (fold_wake (ext_wakes k st) (sx st)) as [A _]. rewrite A. lia.
  - destruct (sys_step scripts st) as [st' res] eqn:Hs.
    assert (P : Psi W st' <= Psi W st).
    { destruct res as [| |t evs r|t evs].
      - assert (E : st' = st).
        { unfold sys_step, pop in Hs. destruct (queue (sx st)) as [|t q]; [inversion Hs; reflexivity|].
          destruct (is_done _ t); [discriminate|]. destruct (p_out _); discriminate. }
        subst. lia.
      - apply (step_measure W scripts HW st st' SSkip I Hs). discriminate.
      - apply (step_measure W scripts HW st st' (SPolled t evs r) I Hs). discriminate.
      - apply (step_measure W scripts HW st st' (SPanicked t evs) I Hs). discriminate. }
    destruct res; cbn [fst snd]; (split; [|lia]).
    + intros [H|[]]; discriminate.
    + intros [H|[]]; discriminate.
    + intros [H|[H|[]]]; discriminate.
    + intros [H|[H|[]]]; discriminate.
  - assert (HK' : Psi W st < K) by lia.
    destruct (loop_fuel K true fuel st 0 I HK') as [A B]; [pose proof (Mm_bound K st I HK'); lia|].
    split; [exact A | lia].
  - assert (HK' : Psi W st < K) by lia.
    destruct (loop_fuel K false fuel st 0 I HK') as [A B]; [pose proof (Mm_bound K st I HK'); lia|].
    split; [exact A | lia].
Qed.

Lemma plan_pot_cons x plan : plan_pot W (x :: plan) = plan_pot W [x] + plan_pot W plan.
Proof. destruct x; cbn; lia. Qed.

Lemma plan_fuel K fuel : K * K <= fuel -> forall plan st, InvB st ->
  Psi W st + plan_pot W plan < K ->
  ~ In LFuel (snd (sys_plan fuel scripts st plan)).
Proof.
  intros HF. induction plan as [|x plan IH]; intros st I HK; [intros []|].
  cbn [sys_plan]. rewrite plan_pot_cons in HK.
  destruct (x_fuel K fuel st x I HF ltac:(lia)) as [A B].
  pose proof (InvB_x fuel scripts st x I) as I1.
  destruct (sys_x fuel scripts st x) as [st1 l1]. cbn [fst snd] in *.
  rewrite (ib_nopanic st1 I1).
  specialize (IH st1 I1 ltac:(lia)).
  destruct (sys_plan fuel scripts st1 plan) as [st2 l2]. cbn [snd] in *.
  intros Hin. apply in_app_or in Hin. destruct Hin as [Hin|Hin]; [exact (A Hin) | exact (IH Hin)].
Qed.
End Fuel.

Lemma fuel_suffices_l : forall scripts W plan fuel,
  cert scripts W -> fuel_bound W plan <= fuel ->
  ~ In LFuel (fst (model_run fuel scripts plan)).
Proof.
  intros scripts W plan fuel HW HF. unfold model_run.
  pose proof (plan_fuel W scripts HW (plan_pot W plan + 1) fuel HF plan sys0 InvB_init) as P.
  destruct (sys_plan fuel scripts sys0 plan) as [st log]. cbn [fst snd] in *. apply P.
  unfold Psi, wsum, pcs. cbn. lia.
Qed.

(* ---- the computed certificate ---- *)
Lemma wc_ext W1 W2 acts : (forall s, In (ASpawn s) acts -> W1 s = W2 s) -> wc W1 acts = wc W2 acts.
Proof.
  induction acts as [|a acts IH]; intros H; [reflexivity|]. unfold wc in *. cbn [map list_sum fold_right].
  unfold list_sum in IH. rewrite IH by (intros s Hs; apply H; right; exact Hs). f_equal.
  destruct a; try reflexivity. cbn. rewrite (H s); [reflexivity | left; reflexivity].
Qed.

Lemma script_of_overflow scripts s : length scripts <= s -> script_of scripts s = [].
Proof. intros H. unfold script_of. apply nth_overflow. exact H. Qed.

Lemma wdepth_stable scripts : spawns_up scripts -> forall d s,
  length scripts - s <= d -> wdepth (S d) scripts s = wdepth d scripts s.
Proof.
  intros Hup. induction d as [|d IH]; intros s Hs.
  - cbn [wdepth]. rewrite script_of_overflow by lia. reflexivity.
  - change (wdepth (S (S d)) scripts s) with (wc (wdepth (S d) scripts) (script_of scripts s)).
    change (wdepth (S d) scripts s) with (wc (wdepth d scripts) (script_of scripts s)).
    apply wc_ext. intros s' Hin. apply IH. specialize (Hup s s' Hin). lia.
Qed.

Lemma wtable_cert_l : forall scripts, spawns_up scripts -> cert scripts (wtable scripts).
Proof.
  intros scripts Hup s. unfold wtable.
  change (wdepth (S (length scripts)) scripts s) with (wc (wdepth (length scripts) scripts) (script_of scripts s)).
  rewrite (wc_ext (wdepth (S (length scripts)) scripts) (wdepth (length scripts) scripts)); [apply le_n|].
  intros s' Hin. apply wdepth_stable; [exact Hup | lia].
Qed.

Lemma fuel_suffices_table_l : forall scripts plan fuel,
  spawns_up scripts -> fuel_bound (wtable scripts) plan <= fuel ->
  ~ In LFuel (fst (model_run fuel scripts plan)).
Proof.
  intros scripts plan fuel Hup HF. apply (fuel_suffices_l scripts (wtable scripts)); [apply wtable_cert_l; exact Hup | exact HF].
Qed.

(* a script that spawns itself has no certificate, and its runs exhaust every budget *)
Lemma no_cert_self_spawn : forall W, ~ cert [[ASpawn 0]] W.
Proof. intros W H. specialize (H 0). unfold wc in H. cbn in H. lia. Qed.
