(* C15 — the property as a specification.

   Part 1: predicates on the ghost trace of the executor machine (Prop form,
   what the Level-A theorems are stated with).
   Part 2: the ORACLE: a checker of a *log* (what the instrumented futures and
   the driver reported while the real executor ran).  It never looks at a
   queue: it keeps, per task, the time of the first wake-up since the task was
   last taken for polling, and demands that the task polled next is the one
   with the smallest such time (oldest wake-up first: no loss, no duplicate,
   no starvation), that finished futures are not polled, that every result
   reaches its receiver once with the right value, and that at a stall every
   unfinished task waits for something that has not happened. *)
From Yv Require Import Common.Base C15.Model.

(* ---- Part 1: trace predicates --------------------------------------- *)

(* "t has been woken (or spawned) since the run loop last took it out of the
   queue" — traces are newest event first *)
Fixpoint pending_wake (t : tid) (tr : list gevent) : bool :=
  match tr with
  | [] => false
  | GEnq u :: tr | GWake u :: tr => if Nat.eqb u t then true else pending_wake t tr
  | GBegin u :: tr | GSkip u :: tr => if Nat.eqb u t then false else pending_wake t tr
  | _ :: tr => pending_wake t tr
  end.

(* the future of t is polled somewhere in tr *)
Definition polled_in (t : tid) (tr : list gevent) : Prop := In (GBegin t) tr.

(* the run loop takes some task (polls or skips) somewhere in tr *)
Definition loop_acts_in (tr : list gevent) : Prop :=
  exists u, In (GBegin u) tr \/ In (GSkip u) tr.

Definition poll_closed_in (t : tid) (tr : list gevent) : Prop :=
  exists r, In (GEnd t r) tr.

(* the next call of step takes task t (polls its future, or passes over it if
   it is finished) *)
Definition taken_next (m : mach) (t : tid) : Prop :=
  trace (mstep m OpBegin) = GBegin t :: trace m \/ trace (mstep m OpBegin) = GSkip t :: trace m.

(* Polls do not nest and the run loop takes no task while a poll is open:
   [bracket cur tr] reads a trace in chronological order, [cur] being the poll
   that is open; [None] = ill-formed, [Some c] = well-formed, [c] still open. *)
Fixpoint bracket (cur : option tid) (tr : list gevent) : option (option tid) :=
  match tr with
  | [] => Some cur
  | GBegin t :: tr => match cur with None => bracket (Some t) tr | Some _ => None end
  | GSkip _ :: tr | GIdle :: tr => match cur with None => bracket None tr | Some _ => None end
  | GEnd t _ :: tr =>
      match cur with
      | Some u => if Nat.eqb u t then bracket None tr else None
      | None => None
      end
  | _ :: tr => bracket cur tr
  end.

(* ---- Part 2: the oracle ---------------------------------------------- *)

Inductive block := BNone | BWait (k : nat) | BJoin (r : tid).

Record ost := mkO {
  o_clock : nat;
  o_pend : list (tid * nat);     (* woken since last taken, with the time of the first such wake *)
  o_done : list tid;             (* futures that returned Ready *)
  o_vals : list (tid * N);       (* the values they returned *)
  o_deliv : list tid;            (* results already handed to a receiver *)
  o_join : list (tid * tid);     (* (r, w), newest first: w polled the receiver of r and got Pending *)
  o_flags : list nat;
  o_block : list (tid * block);  (* newest first: how the last poll of a task ended *)
  o_next : nat;                  (* tasks spawned so far *)
  o_polls : list bool;           (* answers of the polls since the last LStep/LRun *)
  o_skips : nat                  (* finished tasks passed over since the last LStep/LRun *)
}.

Definition ost0 : ost := mkO 0 [] [] [] [] [] [] [] 0 [] 0.

Fixpoint oldest (l : list (tid * nat)) : option (tid * nat) :=
  match l with
  | [] => None
  | (t, c) :: l =>
      match oldest l with
      | None => Some (t, c)
      | Some (u, d) => if Nat.ltb c d then Some (t, c) else Some (u, d)
      end
  end.

Definition pend_mem (t : tid) (l : list (tid * nat)) : bool :=
  existsb (fun p => Nat.eqb (fst p) t) l.
Definition pend_del (t : tid) (l : list (tid * nat)) : list (tid * nat) :=
  filter (fun p => negb (Nat.eqb (fst p) t)) l.

Fixpoint alookup {B} (t : nat) (l : list (nat * B)) : option B :=
  match l with
  | [] => None
  | (u, b) :: l => if Nat.eqb u t then Some b else alookup t l
  end.

Definition o_wake (o : ost) (u : tid) : ost :=
  if pend_mem u (o_pend o) then o
  else mkO (S (o_clock o)) ((u, o_clock o) :: o_pend o) (o_done o) (o_vals o) (o_deliv o)
           (o_join o) (o_flags o) (o_block o) (o_next o) (o_polls o) (o_skips o).

Definition o_set_pend (o : ost) (p : list (tid * nat)) (sk : nat) : ost :=
  mkO (o_clock o) p (o_done o) (o_vals o) (o_deliv o) (o_join o) (o_flags o) (o_block o)
      (o_next o) (o_polls o) sk.

Definition o_set_block (o : ost) (t : tid) (b : block) : ost :=
  mkO (o_clock o) (o_pend o) (o_done o) (o_vals o) (o_deliv o) (o_join o) (o_flags o)
      ((t, b) :: o_block o) (o_next o) (o_polls o) (o_skips o).

Definition o_deliver (o : ost) (r : tid) : ost :=
  mkO (o_clock o) (o_pend o) (o_done o) (o_vals o) (r :: o_deliv o) (o_join o) (o_flags o)
      (o_block o) (o_next o) (o_polls o) (o_skips o).

(* result type: state, or the number of the clause that failed *)
Definition ores := (ost + N)%type.
Definition obind (r : ores) (f : ost -> ores) : ores :=
  match r with inl o => f o | inr k => inr k end.

Definition tryres_eqb (a b : tryres) : bool :=
  match a, b with
  | TNotSent, TNotSent | TAlready, TAlready | TDropped, TDropped => true
  | TOk x, TOk y => N.eqb x y
  | _, _ => false
  end.

(* what try_receive on the receiver of r has to answer now *)
Definition expected_try (o : ost) (r : tid) : tryres :=
  if mem r (o_deliv o) then TAlready
  else match alookup r (o_vals o) with Some v => TOk v | None => TNotSent end.

(* clause numbers *)
Definition cPanic : N := 0.      (* a panic was caught *)
Definition cNested : N := 1.     (* a future polled while a poll was open *)
Definition cFinished : N := 2.   (* a finished future polled again *)
Definition cSpurious : N := 3.   (* polled without a wake-up since it was last taken *)
Definition cFifo : N := 4.       (* an older woken, unfinished task was passed over *)
Definition cCount : N := 5.      (* wake_count() <> number of distinct woken tasks *)
Definition cRet : N := 6.        (* step()/run_until_stalled() answered wrongly *)
Definition cRelay : N := 7.      (* result lost, duplicated or altered on the way to the receiver *)
Definition cLost : N := 8.       (* the loop stalled although a woken task was not polled *)
Definition cStall : N := 9.      (* at a stall an unfinished task is not waiting for something still to happen *)
Definition cShape : N := 10.     (* malformed log (harness) *)

Definition oev (cur : option tid) (o : ost) (ev : pevent) : ores :=
  match ev with
  | PWake u => inl (o_wake o u)
  | PSpawn c _ =>
      if Nat.eqb c (o_next o) then
        let o1 := o_wake o c in
        inl (mkO (o_clock o1) (o_pend o1) (o_done o1) (o_vals o1) (o_deliv o1) (o_join o1)
                 (o_flags o1) (o_block o1) (S (o_next o1)) (o_polls o1) (o_skips o1))
      else inr cShape
  | PSet k =>
      inl (mkO (o_clock o) (o_pend o) (o_done o) (o_vals o) (o_deliv o) (o_join o)
               (k :: o_flags o) (o_block o) (o_next o) (o_polls o) (o_skips o))
  | PReg k =>
      match cur with
      | Some t => inl (o_set_block o t (BWait k))
      | None => inr cShape
      end
  | PJoinReg r =>
      match cur with
      | Some t =>
          match alookup r (o_vals o) with
          | Some _ => inr cRelay           (* value was sent, receiver says Pending *)
          | None =>
              let o1 := o_set_block o t (BJoin r) in
              inl (mkO (o_clock o1) (o_pend o1) (o_done o1) (o_vals o1) (o_deliv o1)
                       ((r, t) :: o_join o1) (o_flags o1) (o_block o1) (o_next o1)
                       (o_polls o1) (o_skips o1))
          end
      | None => inr cShape
      end
  | PGot r v =>
      if tryres_eqb (expected_try o r) (TOk v) then inl (o_deliver o r) else inr cRelay
  | PTry r res =>
      if tryres_eqb (expected_try o r) res then
        inl (match res with TOk _ => o_deliver o r | _ => o end)
      else inr cRelay
  | PComplete v =>
      match cur with
      | Some t =>
          let o1 := mkO (o_clock o) (o_pend o) (o_done o) ((t, v) :: o_vals o) (o_deliv o)
                        (o_join o) (o_flags o) (o_block o) (o_next o) (o_polls o) (o_skips o) in
          (* the relay has to wake the task that waits for this result *)
          inl (match alookup t (o_join o) with Some w => o_wake o1 w | None => o1 end)
      | None => inr cShape
      end
  end.

Fixpoint oevs (cur : option tid) (o : ost) (evs : list pevent) : ores :=
  match evs with
  | [] => inl o
  | ev :: evs => obind (oev cur o ev) (fun o1 => oevs cur o1 evs)
  end.

(* take t for polling: every older entry must be a finished task (passed over
   silently by run_until_stalled; counted) *)
Fixpoint take_upto (fuel : nat) (t : tid) (pend : list (tid * nat)) (done : list tid)
    (skips : nat) : option (list (tid * nat) * nat) :=
  match fuel with
  | O => None
  | S fuel =>
      match oldest pend with
      | None => None
      | Some (u, _) =>
          if Nat.eqb u t then Some (pend_del u pend, skips)
          else if mem u done then take_upto fuel t (pend_del u pend) done (S skips)
          else None
      end
  end.

Definition ends_with_complete (evs : list pevent) : bool :=
  match rev evs with PComplete _ :: _ => true | _ => false end.

Definition unfinished_waiting (o : ost) (u : tid) : bool :=
  mem u (o_done o) ||
  match alookup u (o_block o) with
  | Some (BWait k) => negb (mem k (o_flags o))
  | Some (BJoin r) => match alookup r (o_vals o) with None => true | Some _ => false end
  | _ => false
  end.

Definition stall_ok (o : ost) : bool :=
  forallb (unfinished_waiting o) (seq 0 (o_next o)).

Definition o_reset (o : ost) (p : list (tid * nat)) : ost :=
  mkO (o_clock o) p (o_done o) (o_vals o) (o_deliv o) (o_join o) (o_flags o) (o_block o)
      (o_next o) [] 0.

Definition count_true (l : list bool) : nat := length (filter (fun b => b) l).

Definition orec (o : ost) (r : rec) : ores :=
  match r with
  | LPanic => inr cPanic
  | LNested => inr cNested
  | LFuel => inl o
  | LExt evs => oevs None o evs
  | LPoll t evs ready =>
      if mem t (o_done o) then inr cFinished
      else if negb (pend_mem t (o_pend o)) then inr cSpurious
      else
        match take_upto (length (o_pend o)) t (o_pend o) (o_done o) (o_skips o) with
        | None => inr cFifo
        | Some (p, sk) =>
            let o1 := o_set_block (o_set_pend o p sk) t BNone in
            obind (oevs (Some t) o1 evs) (fun o2 =>
              if negb (Bool.eqb ready (ends_with_complete evs)) then inr cShape
              else
                inl (mkO (o_clock o2) (o_pend o2) (if ready then t :: o_done o2 else o_done o2)
                         (o_vals o2) (o_deliv o2) (o_join o2) (o_flags o2) (o_block o2)
                         (o_next o2) (ready :: o_polls o2) (o_skips o2)))
        end
  | LStep ret wc =>
      if negb (Nat.eqb (o_skips o) 0) then inr cFifo
      else
        let after (p : list (tid * nat)) : ores :=
          if negb (Nat.eqb wc (length p)) then inr cCount
          else
            let o1 := o_reset o p in
            match ret with
            | None => if stall_ok o1 then inl o1 else inr cStall
            | Some _ => inl o1
            end in
        match o_polls o with
        | [r] =>
            match ret with
            | Some b => if Bool.eqb b r then after (o_pend o) else inr cRet
            | None => inr cRet
            end
        | [] =>
            match oldest (o_pend o) with
            | None => match ret with None => after [] | Some _ => inr cRet end
            | Some (u, _) =>
                if mem u (o_done o) then
                  (* a finished task was woken again and is passed over; the
                     property does not say what step() answers then *)
                  match ret with
                  | Some _ => after (pend_del u (o_pend o))
                  | None => inr cRet
                  end
                else match ret with None => inr cLost | Some _ => inr cRet end
            end
        | _ => inr cShape
        end
  | LRun n wc =>
      if negb (forallb (fun p => mem (fst p) (o_done o)) (o_pend o)) then inr cLost
      (* finished tasks that were passed over may or may not be counted *)
      else if negb (Nat.leb (count_true (o_polls o)) n &&
                    Nat.leb n (count_true (o_polls o) + o_skips o + length (o_pend o))) then inr cRet
      else if negb (Nat.eqb wc 0) then inr cCount
      else
        let o1 := o_reset o [] in
        if stall_ok o1 then inl o1 else inr cStall
  end.

Fixpoint orecs (o : ost) (log : list rec) : ores :=
  match log with
  | [] => inl o
  | r :: log => obind (orec o r) (fun o1 => orecs o1 log)
  end.

(* the receivers the driver holds, asked twice at the end *)
Definition final_ok (o : ost) (roots : list tid) (obs : list (tid * (tryres * tryres))) : bool :=
  list_eqb Nat.eqb roots (map fst obs) &&
  forallb (fun p =>
             match alookup (fst p) (o_vals o) with
             | Some v => tryres_eqb (fst (snd p)) (TOk v) && tryres_eqb (snd (snd p)) TAlready
             | None => tryres_eqb (fst (snd p)) TNotSent && tryres_eqb (snd (snd p)) TNotSent
             end) obs.

Definition log_panicked (log : list rec) : bool :=
  existsb (fun r => match r with LPanic => true | _ => false end) log.

(* None = accepted; Some k = clause k failed *)
Definition oracle (log : list rec) (obs : list (tid * (tryres * tryres))) : option N :=
  match orecs ost0 log with
  | inr k => Some k
  | inl o => if final_ok o (roots_of log) obs then None else Some cRelay
  end.

(* ---- Part 3: the relay protocol (forwarder.rs) on its own ------------- *)

(* what can be done to one Sender/Receiver pair *)
Inductive rop :=
| RSend (v : N)        (* Sender::send (consumes the sender: at most once) *)
| RPoll (w : tid)      (* Receiver::poll with the waker of task w *)
| RTry.                (* Receiver::try_receive *)

Inductive rout :=
| RoSent (woken : option tid)   (* send done; the waker it invoked *)
| RoPending                     (* poll: Pending *)
| RoReady (v : N)               (* poll: Ready(v) *)
| RoTry (res : tryres)
| RoPanic.

Definition relay_op (r : relay) (o : rop) : relay * rout :=
  match o with
  | RSend v => match relay_send r v with
               | (r', w, false) => (r', RoSent w)
               | (r', _, true) => (r', RoPanic)
               end
  | RPoll w => match relay_poll r w with
               | (r', _, true) => (r', RoPanic)
               | (r', Some v, false) => (r', RoReady v)
               | (r', None, false) => (r', RoPending)
               end
  | RTry => let (r', res) := relay_try r in (r', RoTry res)
  end.

Fixpoint relay_run (r : relay) (ops : list rop) : list rout :=
  match ops with
  | [] => []
  | o :: ops => let (r', out) := relay_op r o in out :: relay_run r' ops
  end.

Definition is_send (o : rop) : bool := match o with RSend _ => true | _ => false end.

(* the values handed to the receiver *)
Fixpoint deliveries (outs : list rout) : list N :=
  match outs with
  | [] => []
  | RoReady v :: outs | RoTry (TOk v) :: outs => v :: deliveries outs
  | _ :: outs => deliveries outs
  end.

(* the task whose waker the relay holds after these (receiver) operations *)
Fixpoint last_poller (ops : list rop) (acc : option tid) : option tid :=
  match ops with
  | [] => acc
  | RPoll w :: ops => last_poller ops (Some w)
  | _ :: ops => last_poller ops acc
  end.


Definition no_send (ops : list rop) : Prop := forallb (fun o => negb (is_send o)) ops = true.
Definition is_receive (o : rop) : bool := match o with RSend _ => false | _ => true end.

(* ---- Part 4: script tasks: "genuinely waiting" -------------------------- *)

(* Task t waits for something that has not happened: its next action is a
   wait on a flag that is not set and its waker is registered there, or an
   await of a child whose relay holds its waker (so the child has not sent). *)
Definition is_blocked (sh : shared) (t : tid) : Prop :=
  match pc (get_task sh t) with
  | AWait k :: _ => ~ In k (flags sh) /\ In (k, t) (waiters sh)
  | AJoin :: _ => exists r rv', recvs (get_task sh t) = r :: rv' /\ rel (get_task sh r) = RlPolled t
  | _ => False
  end.

(* the executor state [e] can be produced by the Level-A machine, between two
   polls *)
Definition reach (e : exec) : Prop :=
  exists ops, mex (mrun mach0 ops) = e /\ running (mrun mach0 ops) = None.

(* ---- Part 5: results reaching receivers, read off the log ---------------- *)

(* values of task r handed to a receiver by these events *)
Fixpoint deliv_events (r : tid) (evs : list pevent) : list N :=
  match evs with
  | [] => []
  | PGot r' v :: evs | PTry r' (TOk v) :: evs =>
      if Nat.eqb r' r then v :: deliv_events r evs else deliv_events r evs
  | _ :: evs => deliv_events r evs
  end.

Fixpoint complete_events (evs : list pevent) : list N :=
  match evs with
  | [] => []
  | PComplete v :: evs => v :: complete_events evs
  | _ :: evs => complete_events evs
  end.

(* every value of task r received by a task, in the whole log *)
Fixpoint log_deliv (r : tid) (log : list rec) : list N :=
  match log with
  | [] => []
  | LPoll _ evs _ :: log => deliv_events r evs ++ log_deliv r log
  | _ :: log => log_deliv r log
  end.

(* every value task r completed with, in the whole log *)
Fixpoint log_complete (r : tid) (log : list rec) : list N :=
  match log with
  | [] => []
  | LPoll t evs _ :: log =>
      (if Nat.eqb t r then complete_events evs else []) ++ log_complete r log
  | _ :: log => log_complete r log
  end.

(* ---- Part 6: the scheduling rule of the oracle against the queue ----------- *)

(* Two small machines driven by the same operations: the declarative
   scheduler the oracle uses ("oldest wake-up first, each task at most once",
   with time stamps: [o_wake]-like insertion, [oldest], [pend_del]) and the
   implementation's queue (Task::wake, pop_front). *)
Inductive qop := QWake (t : tid) | QTake.

(* the declarative scheduler of the oracle: per woken task the time of its
   first wake-up since it was last taken *)
Definition sstate := (nat * list (tid * nat))%type.

Definition s_step (s : sstate) (o : qop) : sstate * option tid :=
  let (c, p) := s in
  match o with
  | QWake t => if pend_mem t p then (s, None) else ((S c, (t, c) :: p), None)
  | QTake => match oldest p with
             | None => (s, None)
             | Some (u, _) => ((c, pend_del u p), Some u)
             end
  end.

(* the implementation: Task::wake and pop_front on the wake queue *)
Definition q_step (q : list tid) (o : qop) : list tid * option tid :=
  match o with
  | QWake t => (if mem t q then q else q ++ [t], None)
  | QTake => match q with [] => ([], None) | t :: q => (q, Some t) end
  end.

Fixpoint s_run (s : sstate) (ops : list qop) : list (option tid) :=
  match ops with
  | [] => []
  | o :: ops => let (s', out) := s_step s o in out :: s_run s' ops
  end.

Fixpoint q_run (q : list tid) (ops : list qop) : list (option tid) :=
  match ops with
  | [] => []
  | o :: ops => let (q', out) := q_step q o in out :: q_run q' ops
  end.

(* ---- Part 7: a step budget that suffices ------------------------------------ *)

(* [W s] bounds the cost of running script s, children included.  A table has
   such a certificate exactly when no script (transitively) spawns itself. *)
Definition act_cost (W : nat -> nat) (a : action) : nat :=
  match a with ASpawn s => 2 + W s | _ => 1 end.
Definition wc (W : nat -> nat) (acts : list action) : nat := list_sum (map (act_cost W) acts).
Definition cert (scripts : list script) (W : nat -> nat) : Prop :=
  forall s, wc W (script_of scripts s) <= W s.

Fixpoint plan_pot (W : nat -> nat) (plan : list xact) : nat :=
  match plan with
  | [] => 0
  | XSpawn s :: plan => 1 + W s + plan_pot W plan
  | _ :: plan => plan_pot W plan
  end.

Definition fuel_bound (W : nat -> nat) (plan : list xact) : nat :=
  (plan_pot W plan + 1) * (plan_pot W plan + 1).

(* the certificate computed for tables in which every script only spawns
   scripts with a larger index (what the generator produces) *)
Fixpoint wdepth (d : nat) (scripts : list script) (s : nat) : nat :=
  match d with
  | O => 0
  | S d => wc (wdepth d scripts) (script_of scripts s)
  end.
Definition wtable (scripts : list script) : nat -> nat := wdepth (S (length scripts)) scripts.

Definition spawns_up (scripts : list script) : Prop :=
  forall i s, In (ASpawn s) (script_of scripts i) -> i < s.

(* ---- Part 8: oracles for the parts outside the script systems -------------- *)

(* one Sender/Receiver pair driven directly: a value is delivered at most
   once, after it was sent, unaltered; a refused send hands the value back *)
Fixpoint f_oracle (sent : option N) (delivered : bool) (l : list (fop * fout)) : bool :=
  match l with
  | [] => true
  | (FSend v, FoSent _) :: l => match sent with None => f_oracle (Some v) delivered l | Some _ => false end
  | (FSend v, FoSendErr v') :: l => N.eqb v v' && f_oracle sent delivered l
  | (_, FoReady v) :: l | (_, FoTry (TOk v)) :: l =>
      match sent with
      | Some v0 => N.eqb v v0 && negb delivered && f_oracle sent true l
      | None => false
      end
  | (FPoll _, FoPanic) :: l => delivered   (* documented: polled again after Ready *)
  | (_, FoPanic) :: l => false
  | _ :: l => f_oracle sent delivered l
  end.

(* after the executor was dropped: spawning must fail, waking must be silent,
   and a receiver says "value, then already received" if its task finished and
   twice the same "not sent"/"sender dropped" otherwise *)
Definition final_ok_dead (o : ost) (roots : list tid) (obs : list (tid * (tryres * tryres))) : bool :=
  list_eqb Nat.eqb roots (map fst obs) &&
  forallb (fun p =>
             match alookup (fst p) (o_vals o) with
             | Some v => tryres_eqb (fst (snd p)) (TOk v) && tryres_eqb (snd (snd p)) TAlready
             | None => tryres_eqb (fst (snd p)) (snd (snd p)) &&
                       (tryres_eqb (fst (snd p)) TNotSent || tryres_eqb (fst (snd p)) TDropped)
             end) obs.

Definition cDead : N := 11.    (* spawn on a dropped executor succeeded, or a wake/spawn panicked *)
Definition cPair : N := 12.    (* Sender/Receiver pair: value twice, altered, before the send, or a panic *)

Definition dead_ok (tail : list dact) (outs : list dout) : bool :=
  Nat.eqb (length tail) (length outs) &&
  forallb (fun p => match p with
                    | (DSpawn _, DoSpawnErr) | (DPulse _, DoQuiet) => true
                    | _ => false
                    end) (combine tail outs).

Definition oracle_dead (log : list rec) (tail : list dact) (outs : list dout)
    (obs : list (tid * (tryres * tryres))) : option N :=
  match orecs ost0 log with
  | inr k => Some k
  | inl o => if negb (dead_ok tail outs) then Some cDead
             else if final_ok_dead o (roots_of log) obs then None else Some cRelay
  end.
