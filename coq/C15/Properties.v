(* C15 — property theorems only.  Each is closed by [exact] of a lemma from
   the Proofs files; the driver pins the statements with [Check] and prints
   the assumptions on every run. *)
From Yv Require Import Common.Base C15.Model C15.Spec C15.Proofs.

(* ---- Level A: the executor, for every sequence of spawn / wake / step
   operations and whatever the polled futures do -------------------------- *)

(* a task is in the wake queue at most once, however often it is woken *)
Theorem queue_nodup : forall ops, NoDup (queue (mex (mrun mach0 ops))).
Proof. exact queue_nodup_l. Qed.

(* no wake-up is lost and none is invented: a task is queued exactly when it
   was woken (or spawned) since the loop last took it out of the queue; wakes
   issued while it is being polled, by itself or by others, count *)
Theorem woken_iff_queued : forall ops t,
  pending_wake t (trace (mrun mach0 ops)) = true <-> In t (queue (mex (mrun mach0 ops))).
Proof. exact no_lost_wakeup_l. Qed.

(* the future of a task is never polled after it returned Ready *)
Theorem completed_future_never_polled : forall ops t tr1 tr2,
  trace (mrun mach0 ops) = tr2 ++ GEnd t true :: tr1 -> ~ In (GBegin t) tr2.
Proof. exact completed_never_polled_l. Qed.

(* polls never nest: the trace is well bracketed, the open poll is [running] *)
Theorem no_reentrant_poll : forall ops,
  bracket None (rev (trace (mrun mach0 ops))) = Some (running (mrun mach0 ops)).
Proof. exact no_reentrant_l. Qed.

(* FIFO: the task at position k of the queue is taken by the (k+1)-th call of
   step, whatever the tasks polled before it do (re-wake themselves, wake
   others, spawn) *)
Theorem fifo_bounded_wait : forall behs m t,
  running m = None -> nth_error (queue (mex m)) (length behs) = Some t ->
  running (gsteps m behs) = None /\
  (exists q, queue (mex (gsteps m behs)) = t :: q) /\ taken_next (gsteps m behs) t.
Proof. exact fifo_l. Qed.

(* no starvation: a woken task is taken after fewer steps than the queue is long *)
Theorem no_starvation : forall ops t,
  let m := mrun mach0 ops in
  running m = None -> pending_wake t (trace m) = true ->
  exists k, k < length (queue (mex m)) /\
    forall behs, length behs = k -> taken_next (gsteps m behs) t.
Proof. exact no_starvation_l. Qed.

(* when the loop stalls no task has a wake-up that was not honoured *)
Theorem stall_no_pending_wake : forall ops,
  queue (mex (mrun mach0 ops)) = [] -> forall t, pending_wake t (trace (mrun mach0 ops)) = false.
Proof. exact stall_no_pending_l. Qed.

(* ---- the relay of forwarder.rs ------------------------------------------ *)

(* whatever the receiver does before and after the (single) send: nothing is
   delivered before it, the value is delivered exactly once after it (to the
   first receive operation), and the send wakes the last task that polled *)
Theorem relay_delivers_exactly_once : forall ops1 v ops2,
  no_send ops1 -> no_send ops2 ->
  let outs := relay_run RlPending (ops1 ++ RSend v :: ops2) in
  deliveries outs = (if existsb is_receive ops2 then [v] else []) /\
  nth_error outs (length ops1) = Some (RoSent (last_poller ops1 None)).
Proof. exact relay_exactly_once_l. Qed.

Theorem relay_nothing_without_send : forall ops, no_send ops ->
  deliveries (relay_run RlPending ops) = [] /\ ~ In RoPanic (relay_run RlPending ops).
Proof. exact relay_nothing_without_send_l. Qed.

(* ---- Level B: systems of script tasks (the instrumented futures of the
   harness) on the executor, for every script table and every driver plan ---- *)

(* the executor state of a script system is a state of the Level-A machine
   between two polls: all Level-A theorems apply to script systems *)
Theorem script_exec_refines : forall fuel scripts plan,
  reach (sx (fst (sys_plan fuel scripts sys0 plan))).
Proof. exact script_exec_refines_l. Qed.

(* the panic sites of forwarder.rs (send after send, poll after Ready) are
   never reached: every relay gets at most one send and is never polled after
   it delivered *)
Theorem script_no_panic : forall fuel scripts plan,
  spanic (fst (sys_plan fuel scripts sys0 plan)) = false.
Proof. exact script_no_panic_l. Qed.

(* when the run loop stalls every unfinished task is genuinely waiting: for a
   flag that is not set (its waker registered there), or for a child whose
   relay holds its waker *)
Theorem stall_means_all_waiting : forall fuel scripts plan,
  let st := fst (sys_plan fuel scripts sys0 plan) in
  queue (sx st) = [] ->
  forall t, t < ntasks (sx st) -> ~ In t (dones (sx st)) -> is_blocked (ss st) t.
Proof. exact stall_all_waiting_l. Qed.

(* ... and a relay that holds a waker belongs to a task that has not finished *)
Theorem polled_relay_unfinished : forall fuel scripts plan r w,
  let st := fst (sys_plan fuel scripts sys0 plan) in
  rel (get_task (ss st) r) = RlPolled w ->
  r < ntasks (sx st) /\ w < ntasks (sx st) /\ ~ In r (dones (sx st)).
Proof. exact polled_relay_unfinished_l. Qed.

(* in every run a task completes at most once, and its result is received by
   a task at most once, only after it completed, and unaltered *)
Theorem result_delivered_at_most_once : forall fuel scripts plan r,
  let log := snd (sys_plan fuel scripts sys0 plan) in
  (log_complete r log = [] /\ log_deliv r log = []) \/
  (exists v, log_complete r log = [v] /\ (log_deliv r log = [] \/ log_deliv r log = [v])).
Proof. exact result_once_l. Qed.

(* a receiver asked twice at the end by the driver: "not sent" twice if the
   task has not completed; the value then "already received" if it completed
   and no task received it; never the value twice *)
Theorem driver_receives_once : forall fuel scripts plan r a b,
  let st := fst (sys_plan fuel scripts sys0 plan) in
  let log := snd (sys_plan fuel scripts sys0 plan) in
  r < ntasks (sx st) ->
  In (r, (a, b)) (final_obs st [r]) ->
  (a = TNotSent /\ b = TNotSent /\ log_complete r log = []) \/
  (exists v, a = TOk v /\ b = TAlready /\ log_complete r log = [v] /\ log_deliv r log = []) \/
  (a = TAlready /\ b = TAlready).
Proof. exact final_obs_once_l. Qed.

(* ---- the specification's scheduling rule and the queue ----------------------- *)

(* "oldest wake-up first, each task at most once" (time stamps, as the oracle
   checks it) and the FIFO queue with duplicate suppression take the same task
   at every step, for every sequence of wake and take operations *)
Theorem oldest_first_is_fifo_queue : forall ops, s_run (0, []) ops = q_run [] ops.
Proof. exact oldest_first_is_queue_l. Qed.

(* ---- oracle soundness -------------------------------------------------------- *)

(* The run-time oracle accepts every log the script-system model produces, for
   every script table and every driver plan (provided the step budget was not
   exhausted, which run_case reports as code 99): when the real executor's log
   equals the model's log the oracle cannot raise a false alarm. *)
Theorem oracle_sound : forall fuel scripts plan,
  let r := model_run fuel scripts plan in
  ~ In LFuel (fst r) -> oracle (fst r) (snd r) = None.
Proof. exact oracle_sound_l. Qed.

(* the same for the runs after which the driver drops the Executor (spawning
   then fails, waking is silent, receivers of unfinished tasks answer "not
   sent" or "sender dropped") ... *)
Theorem oracle_dead_sound : forall fuel scripts plan tail,
  match model_run_dead fuel scripts plan tail with
  | (log, outs, obs) => ~ In LFuel log -> oracle_dead log tail outs obs = None
  end.
Proof. exact oracle_dead_sound_l. Qed.

(* ... and for one Sender/Receiver pair driven directly, with both halves
   dropped at any time: the model never delivers twice, before the send, or
   another value, and panics only when polled again after Ready *)
Theorem pair_oracle_sound : forall ops,
  f_oracle None false (combine ops (f_run fstate0 ops)) = true.
Proof. exact pair_oracle_sound_l. Qed.

(* ---- a step budget that suffices ------------------------------------------------ *)

(* If the script table has a cost certificate W (no script transitively spawns
   itself), a budget computed from W and the plan is never exhausted: every
   drain and every run_until_stalled of the model terminates within it. *)
Theorem fuel_suffices : forall scripts W plan fuel,
  cert scripts W -> fuel_bound W plan <= fuel ->
  ~ In LFuel (fst (model_run fuel scripts plan)).
Proof. exact fuel_suffices_l. Qed.

(* the certificate is computed for tables whose scripts only spawn scripts
   with a larger index (everything the generator produces) *)
Theorem wtable_cert : forall scripts, spawns_up scripts -> cert scripts (wtable scripts).
Proof. exact wtable_cert_l. Qed.

(* no budget can be computed for arbitrary tables: a script that spawns itself
   has no certificate (its run never stalls) *)
Theorem self_spawn_has_no_cert : forall W, ~ cert [[ASpawn 0]] W.
Proof. exact no_cert_self_spawn. Qed.

(* ---- assumptions (each must be: Closed under the global context) ---- *)
Print Assumptions queue_nodup.
Print Assumptions woken_iff_queued.
Print Assumptions completed_future_never_polled.
Print Assumptions no_reentrant_poll.
Print Assumptions fifo_bounded_wait.
Print Assumptions no_starvation.
Print Assumptions stall_no_pending_wake.
Print Assumptions relay_delivers_exactly_once.
Print Assumptions relay_nothing_without_send.
Print Assumptions script_exec_refines.
Print Assumptions script_no_panic.
Print Assumptions stall_means_all_waiting.
Print Assumptions polled_relay_unfinished.
Print Assumptions result_delivered_at_most_once.
Print Assumptions driver_receives_once.
Print Assumptions oldest_first_is_fifo_queue.
Print Assumptions oracle_sound.
Print Assumptions fuel_suffices.
Print Assumptions wtable_cert.
Print Assumptions self_spawn_has_no_cert.
Print Assumptions oracle_dead_sound.
Print Assumptions pair_oracle_sound.
