(* C15 — oracle soundness, part 2: one whole poll of a script task. *)
From Yv Require Import Common.Base C15.Model C15.Spec C15.ProofsA C15.ProofsB1 C15.ProofsB2
  C15.ProofsB3 C15.ProofsB4 C15.ProofsQ C15.ProofsO1.
From Coq Require Import Arith.

Definition is_complete_ev (ev : pevent) : bool :=
  match ev with PComplete _ => true | _ => false end.

Lemma ends_with_complete_snoc evs ev : ends_with_complete (evs ++ [ev]) = is_complete_ev ev.
Proof. unfold ends_with_complete. rewrite rev_app_distr. cbn. destruct ev; reflexivity. Qed.

Definition out_ready (x : outcome) : bool := match x with OReady => true | _ => false end.

(* what is known after the events of a poll (or of its last action) *)
Record PollO (t : tid) (e' : exec) (r : pres) (o o' : ost) : Prop := {
  po_sim : SimO e' (p_sh r) o' (Some t);
  po_polls : o_polls o' = o_polls o;
  po_skips : o_skips o' = o_skips o;
  po_done : o_done o' = o_done o;
  po_nopanic : p_out r <> OPanic;
  po_last : exists evs0 ev, p_evs r = evs0 ++ [ev] /\ is_complete_ev ev = out_ready (p_out r);
  po_pend : p_out r = OPend ->
              In t (queue e') \/ blockO o' (set_pc t (p_pc r) (p_sh r)) t
}.

Lemma relO_ext o o' x y :
  alookup x (o_vals o') = alookup x (o_vals o) -> mem x (o_deliv o') = mem x (o_deliv o) ->
  alookup x (o_join o') = alookup x (o_join o) -> relO o x y -> relO o' x y.
Proof. intros H1 H2 H3. unfold relO. rewrite H1, H2, H3. intros H; exact H. Qed.

Lemma alookup_cons_other {B} (t x : nat) (b : B) l : t <> x -> alookup x ((t, b) :: l) = alookup x l.
Proof. intros N. cbn. destruct (Nat.eqb_spec t x); [congruence | reflexivity]. Qed.

Lemma SimO_set_block e sh o t b : SimO e sh o (Some t) -> SimO e sh (o_set_block o t b) (Some t).
Proof.
  intros [A B C D E F G H I]. constructor; try assumption.
  intros u Hu Hc Hd. destruct (I u Hu Hc Hd) as [J|J]; [left; exact J|]. right.
  unfold blockO in *. cbn [o_set_block o_block alookup].
  assert (N : Nat.eqb t u = false) by (apply Nat.eqb_neq; intros ->; apply Hc; reflexivity).
  rewrite N. exact J.
Qed.

Lemma map_repeat' {A B} (f : A -> B) x n : map f (repeat x n) = repeat (f x) n.
Proof. induction n as [|n IH]; [reflexivity|]. cbn. rewrite IH. reflexivity. Qed.

Lemma stop_O t shl rl e o :
  WF shl -> t < nt shl -> waiting_rel (rel (get_task shl t)) -> SimO e shl o (Some t) ->
  Stop t shl rl ->
  exists o', oevs (Some t) o (p_evs rl) = inl o' /\
             PollO t (fold_left apply_effect (p_effs rl) e) rl o o'.
Proof.
  intros W Ht Hwt Sm Hs. destruct Hs as [v | n rest | k rest Hk | r rv' rest Hrv Hwr].
  - (* complete *)
    pose proof Sm as [A B C D E F G H I].
    pose proof (G t Ht) as Gt.
    set (o1 := mkO (o_clock o) (o_pend o) (o_done o) ((t, v) :: o_vals o) (o_deliv o)
                   (o_join o) (o_flags o) (o_block o) (o_next o) (o_polls o) (o_skips o)).
    assert (S1 : SimO e (set_rel t (RlComputed v) shl) o1 (Some t)).
    { constructor; cbn [o1 o_clock o_pend o_done o_vals o_deliv o_join o_flags o_block o_next]; try assumption.
      - rewrite nt_set_rel. exact D.
      - rewrite nt_set_rel. exact E.
      - intros r Hr. rewrite nt_set_rel in Hr. destruct (Nat.eq_dec r t) as [->|N].
        + rewrite rel_set_rel_same by exact Ht. cbn. rewrite Nat.eqb_refl. split; [reflexivity|].
          destruct Hwt as [Ew|[w Ew]]; rewrite Ew in Gt; cbn in Gt; apply Gt.
        + rewrite rel_set_rel_other by exact N. apply (relO_ext o); try reflexivity; [|apply G; exact Hr].
          unfold o1. cbn [o_vals]. apply alookup_cons_other. congruence.
      - intros r Hr. rewrite nt_set_rel in Hr. destruct (H r Hr) as [H1 [H2 H3]].
        rewrite alookup_cons_other by lia. repeat split; assumption.
      - intros u Hu Hc Hd. rewrite nt_set_rel in Hu. destruct (I u Hu Hc Hd) as [J|J]; [left; exact J|].
        right. unfold blockO in *. rewrite pc_set_rel, recvs_set_rel. exact J. }
    unfold complete. destruct Hwt as [Ew|[w Ew]]; rewrite Ew in *; cbn in Gt; destruct Gt as [G1 [G2 G3]];
      cbn [relay_send p_evs p_effs oevs oev obind]; rewrite G3; fold o1.
    + exists o1. split; [reflexivity|]. constructor; cbn [p_sh p_out p_evs p_effs p_pc fold_left]; try reflexivity.
      * exact S1.
      * discriminate.
      * exists [], (PComplete v). split; reflexivity.
      * discriminate.
    + assert (Hw : w < nt shl) by (eapply wf_polled; [exact W | exact Ew]).
      exists (o_wake o1 w). destruct (o_wake_fields o1 w) as [W1 [_ [_ [_ [_ [_ [_ [W8 W9]]]]]]]].
      split; [reflexivity|]. constructor; cbn [p_sh p_out p_evs p_effs p_pc fold_left apply_effect].
      * apply SimO_wake; [rewrite nt_set_rel; exact Hw | exact S1].
      * rewrite W8. reflexivity.
      * rewrite W9. reflexivity.
      * rewrite W1. reflexivity.
      * discriminate.
      * exists [], (PComplete v). split; reflexivity.
      * discriminate.
  - (* yield *)
    cbn [p_evs p_effs].
    assert (Hev : repeat (PWake t) (S n) = map PWake (repeat t (S n))) by (rewrite map_repeat'; reflexivity).
    assert (Hef : repeat (FWake t) (S n) = map FWake (repeat t (S n))) by (rewrite map_repeat'; reflexivity).
    rewrite Hev, Hef.
    destruct (SimO_wakes (Some t) shl (repeat t (S n)) e o) as [o' [H1 [H2 [H3 [H4 [H5 H6]]]]]].
    + intros u Hu. apply repeat_spec in Hu. subst u. exact Ht.
    + exact Sm.
    + exists o'. split; [exact H1|]. constructor; cbn [p_sh p_out p_evs p_pc]; try assumption.
      * discriminate.
      * exists (map PWake (repeat t n)), (PWake t). split; [|reflexivity].
        rewrite <- Hev. clear. induction n as [|n IH]; [reflexivity|].
        cbn [repeat map app] in *. rewrite <- IH. reflexivity.
      * intros _. left.
        destruct (fold_eff (map FWake (repeat t (S n))) e) as [_ [_ [_ [Fw _]]]].
        apply Fw. cbn. left. reflexivity.
  - (* wait *)
    cbn [p_evs p_effs oevs oev obind fold_left].
    exists (o_set_block o t (BWait k)). split; [reflexivity|].
    constructor; cbn [p_sh p_out p_evs p_pc]; try reflexivity.
    + apply SimO_set_block. revert Sm. apply SimO_sh_same; reflexivity.
    + discriminate.
    + exists [], (PReg k). split; reflexivity.
    + intros _. right. unfold blockO. rewrite pc_set_pc_same by exact Ht.
      cbn. rewrite Nat.eqb_refl. reflexivity.
  - (* join *)
    unfold my_recvs in Hrv.
    assert (Hr : t < r /\ r < nt shl /\ rel (get_task shl r) <> RlDone).
    { apply (wf_recv shl W t r). rewrite Hrv. left. reflexivity. }
    destruct Hr as [Htr [Hrn _]].
    pose proof Sm as [A B C D E F G H I].
    pose proof (G r Hrn) as Gr.
    assert (Hv : alookup r (o_vals o) = None /\ mem r (o_deliv o) = false).
    { destruct Hwr as [Ew|[w Ew]]; rewrite Ew in Gr; cbn in Gr; destruct Gr as [G1 [G2 _]]; split; assumption. }
    destruct Hv as [Hv1 Hv2].
    cbn [p_evs p_effs oevs oev obind fold_left]. rewrite Hv1.
    eexists. split; [reflexivity|].
    constructor; cbn [p_sh p_out p_evs p_pc o_polls o_skips o_done o_set_block]; try reflexivity.
    + constructor; cbn [o_clock o_pend o_done o_vals o_deliv o_join o_flags o_block o_next o_set_block]; try assumption.
      * rewrite nt_set_rel. exact D.
      * rewrite nt_set_rel. exact E.
      * intros x Hx. rewrite nt_set_rel in Hx. destruct (Nat.eq_dec x r) as [->|N].
        -- rewrite rel_set_rel_same by exact Hrn. cbn. rewrite Nat.eqb_refl. repeat split; assumption.
        -- rewrite rel_set_rel_other by exact N. eapply (relO_ext o); [| | |apply G; exact Hx]; try reflexivity.
           cbn [o_join]. apply alookup_cons_other. congruence.
      * intros x Hx. rewrite nt_set_rel in Hx. destruct (H x Hx) as [H1 [H2 H3]].
        rewrite alookup_cons_other by lia. repeat split; assumption.
      * intros u Hu Hc Hd. rewrite nt_set_rel in Hu. destruct (I u Hu Hc Hd) as [J|J]; [left; exact J|].
        right. unfold blockO in *. rewrite pc_set_rel, recvs_set_rel. cbn [o_block o_set_block alookup].
        assert (N : Nat.eqb t u = false) by (apply Nat.eqb_neq; intros ->; apply Hc; reflexivity).
        rewrite N. exact J.
    + discriminate.
    + exists [], (PJoinReg r). split; reflexivity.
    + intros _. right. unfold blockO. rewrite pc_set_pc_same by (rewrite nt_set_rel; exact Ht).
      exists r, rv'. rewrite recvs_set_pc, recvs_set_rel. split; [exact Hrv|].
      cbn. rewrite Nat.eqb_refl. reflexivity.
Qed.

Lemma emit_fields evs effs r :
  p_sh (emit evs effs r) = p_sh r /\ p_pc (emit evs effs r) = p_pc r /\
  p_evs (emit evs effs r) = evs ++ p_evs r /\ p_effs (emit evs effs r) = effs ++ p_effs r /\
  p_out (emit evs effs r) = p_out r.
Proof. repeat split; reflexivity. Qed.

Lemma poll_O scripts t : forall acts sh e o,
  WF sh -> t < nt sh -> waiting_rel (rel (get_task sh t)) -> SimO e sh o (Some t) ->
  let r := poll_loop scripts t sh acts in
  exists o', oevs (Some t) o (p_evs r) = inl o' /\
             PollO t (fold_left apply_effect (p_effs r) e) r o o'.
Proof.
  induction acts as [|a rest IH]; intros sh e o W Ht Hwt Sm r.
  - subst r. cbn [poll_loop]. apply (stop_O t sh (complete t 0%N sh) e o W Ht Hwt Sm). apply StComplete.
  - subst r. cbn [poll_loop]. destruct (do_action scripts t sh a rest) as [sh' evs effs|r0] eqn:Ha.
    + destruct (do_action_next_WF _ _ _ _ _ _ _ _ W Ht Ha) as [W' Hle].
      pose proof (do_action_next_Ext _ _ _ _ _ _ _ _ W Ht Ha) as X.
      destruct (act_next _ _ _ _ _ _ _ _ e o W Ht Sm Ha) as [o1 [H1 [S1 F1]]].
      assert (Hself : ~ In t (recvs (get_task sh t))).
      { intros Hin. apply (wf_recv _ W) in Hin. lia. }
      assert (Hwt' : waiting_rel (rel (get_task sh' t))).
      { rewrite (ex_rel _ _ _ _ X t Ht Hself). exact Hwt. }
      destruct (IH sh' (fold_left apply_effect effs e) o1 W' ltac:(lia) Hwt' S1) as [o' [H2 P]].
      set (r1 := poll_loop scripts t sh' rest) in *.
      exists o'. destruct (emit_fields evs effs r1) as [E1 [E2 [E3 [E4 E5]]]].
      split.
      * rewrite E3, oevs_app, H1. cbn [obind]. exact H2.
      * destruct P as [P1 P2 P3 P4 P5 P6 P7]. destruct F1 as [F1a [F1b [F1c F1d]]].
        constructor; rewrite ?E1, ?E2, ?E4, ?E5, ?fold_left_app; try assumption; try congruence.
        destruct P6 as [evs0 [ev [Q1 Q2]]]. exists (evs ++ evs0), ev. rewrite E3, Q1, app_assoc.
        split; [reflexivity | exact Q2].
    + apply (stop_O t sh r0 e o W Ht Hwt Sm). eapply do_action_stop; eassumption.
Qed.
