(* C15 — oracle soundness, part 3: one call of step, the run loops. *)
From Yv Require Import Common.Base C15.Model C15.Spec C15.ProofsA C15.ProofsB1 C15.ProofsB2
  C15.ProofsB3 C15.ProofsB4 C15.ProofsBR C15.ProofsB5 C15.ProofsQ C15.ProofsO1 C15.ProofsO2.
From Coq Require Import Arith.

Lemma Rep_take t q c p : Rep (t :: q) (c, p) ->
  exists d, oldest p = Some (t, d) /\ Rep q (c, pend_del t p).
Proof.
  intros R. pose proof (Rep_step (t :: q) _ QTake R) as [E R']. cbn [q_step s_step fst snd] in E, R'.
  destruct (oldest p) as [[u d]|]; cbn [fst snd] in E, R'; [|discriminate].
  inversion E; subst u. exists d. split; [reflexivity | exact R'].
Qed.

Lemma take_lag t q done : forall lag c p sk fuel,
  Rep (lag ++ t :: q) (c, p) -> (forall u, In u lag -> mem u done = true /\ u <> t) ->
  length lag < fuel ->
  exists p', take_upto fuel t p done sk = Some (p', sk + length lag) /\ Rep q (c, p').
Proof.
  induction lag as [|x lag IH]; intros c p sk fuel R Hl Hf; (destruct fuel as [|fuel]; [cbn in Hf; lia|]).
  - cbn [app] in R. destruct (Rep_take _ _ _ _ R) as [d [E R']]. cbn [take_upto]. rewrite E, Nat.eqb_refl.
    exists (pend_del t p). split; [cbn; rewrite Nat.add_0_r; reflexivity | exact R'].
  - cbn [app] in R. destruct (Rep_take _ _ _ _ R) as [d [E R']]. cbn [take_upto]. rewrite E.
    destruct (Hl x (or_introl eq_refl)) as [Hx1 Hx2].
    destruct (Nat.eqb_spec x t) as [Ex|Ex]; [contradiction|]. rewrite Hx1.
    destruct (IH c (pend_del x p) (S sk) fuel R') as [p' [T R'']].
    + intros u Hu. apply Hl. right. exact Hu.
    + cbn in Hf. lia.
    + exists p'. split; [|exact R'']. rewrite T. cbn [length]. f_equal. f_equal. lia.
Qed.

Definition with_lag (lag : list tid) (e : exec) : exec := mkExec (lag ++ queue e) (ntasks e) (dones e).

Definition SimL (st : sys) (o : ost) (lag : list tid) : Prop :=
  SimO (with_lag lag (sx st)) (ss st) o None /\ (forall u, In u lag -> mem u (dones (sx st)) = true).

Lemma SimL_nolag st o : SimL st o [] <-> SimO (sx st) (ss st) o None.
Proof.
  unfold SimL, with_lag. cbn [app]. destruct (sx st) as [q n d]. cbn. split.
  - intros [H _]. exact H.
  - intros H. split; [exact H | intros u []].
Qed.

(* the oracle on the record of one poll *)
Lemma step_poll scripts st o lag st' t evs ready :
  InvB st -> SimL st o lag -> sys_step scripts st = (st', SPolled t evs ready) ->
  exists o', orec o (LPoll t evs ready) = inl o' /\ SimL st' o' [] /\
             o_polls o' = ready :: o_polls o /\ o_skips o' = o_skips o + length lag.
Proof.
  intros I [Sm Hlag] Hs. pose proof I as [Iwf Ilen Iq Id Ifin Ilive Inp Ire].
  unfold sys_step, pop in Hs. destruct (queue (sx st)) as [|t0 q] eqn:Hq; [discriminate|].
  assert (Htn : t0 < ntasks (sx st)) by (apply Iq; left; reflexivity).
  unfold is_done in Hs. cbn [dones] in Hs. destruct (mem t0 (dones (sx st))) eqn:Hd; [discriminate|].
  set (e := mkExec q (ntasks (sx st)) (dones (sx st))) in *.
  assert (Htl : t0 < nt (ss st)) by (rewrite Ilen; exact Htn).
  assert (Hwt : waiting_rel (rel (get_task (ss st) t0))).
  { apply not_fin_waiting. destruct (fin_rel (rel (get_task (ss st) t0))) eqn:F; [|reflexivity].
    apply (Ifin t0 Htn) in F. apply mem_In in F. congruence. }
  (* the oracle takes t0 *)
  pose proof Sm as [A B C D E F G H J]. unfold with_lag in A. cbn [queue] in A. rewrite Hq in A.
  assert (Hlag' : forall u, In u lag -> mem u (o_done o) = true /\ u <> t0).
  { intros u Hu. specialize (Hlag u Hu). split; [rewrite C; exact Hlag | intros ->; congruence]. }
  destruct (take_lag t0 q (o_done o) lag (o_clock o) (o_pend o) (o_skips o) (length (o_pend o)) A Hlag')
    as [p' [T R']].
  { rewrite (RepQ_length _ _ A), app_length. cbn. lia. }
  set (o1 := o_set_block (o_set_pend o p' (o_skips o + length lag)) t0 BNone).
  assert (S1 : SimO e (ss st) o1 (Some t0)).
  { constructor; cbn [o1 o_set_block o_set_pend o_clock o_pend o_done o_vals o_deliv o_join o_flags o_block o_next e queue ntasks dones];
      try assumption.
    - intros u Hu. apply Iq. right. exact Hu.
    - intros u Hu Hc Hud. cbn [with_lag dones] in J.
      assert (Nu : u <> t0) by (intros ->; apply Hc; reflexivity).
      destruct (J u Hu ltac:(discriminate) Hud) as [K|K].
      + left. cbn [with_lag queue] in K. rewrite Hq in K. apply in_app_or in K. destruct K as [K|[K|K]].
        * apply Hlag in K. congruence.
        * congruence.
        * exact K.
      + right. unfold blockO in *. cbn [o1 o_set_block o_set_pend o_block alookup].
        assert (X : Nat.eqb t0 u = false) by (apply Nat.eqb_neq; congruence). rewrite X. exact K. }
  (* the poll itself *)
  unfold poll_task in Hs.
  destruct (poll_O scripts t0 (pc (get_task (ss st) t0)) (ss st) e o1 Iwf Htl Hwt S1) as [o2 [H2 P]].
  set (r := poll_loop scripts t0 (ss st) (pc (get_task (ss st) t0))) in *.
  cbn [p_sh p_pc p_evs p_effs p_out] in Hs.
  destruct P as [P1 P2 P3 P4 P5 P6 P7].
  set (e' := fold_left apply_effect (p_effs r) e) in *.
  destruct P6 as [evs0 [ev [Q1 Q2]]].
  assert (Hnt : nt (set_pc t0 (p_pc r) (p_sh r)) = nt (p_sh r)) by apply nt_set_pc.
  (* the state after the poll, whatever the answer *)
  assert (Sf : forall rd, rd = out_ready (p_out r) ->
            SimO (finish e' t0 rd) (set_pc t0 (p_pc r) (p_sh r))
                 (mkO (o_clock o2) (o_pend o2) (if rd then t0 :: o_done o2 else o_done o2)
                      (o_vals o2) (o_deliv o2) (o_join o2) (o_flags o2) (o_block o2)
                      (o_next o2) (rd :: o_polls o2) (o_skips o2)) None).
  { intros rd Hrd. pose proof P1 as [A2 B2 C2 D2 E2 F2 G2 H2' J2].
    assert (Hqf : queue (finish e' t0 rd) = queue e') by (unfold finish; destruct rd; reflexivity).
    assert (Hnf : ntasks (finish e' t0 rd) = ntasks e') by (unfold finish; destruct rd; reflexivity).
    constructor; cbn [o_clock o_pend o_done o_vals o_deliv o_join o_flags o_block o_next]; rewrite ?Hqf, ?Hnf, ?Hnt; try assumption.
    - intros u. unfold finish. destruct rd; cbn [dones]; [|apply C2].
      unfold mem. cbn [existsb]. fold (mem u (o_done o2)) (mem u (dones e')). rewrite C2. reflexivity.
    - intros x Hx. rewrite rel_set_pc. apply G2. exact Hx.
    - intros u Hu _ Hud.
      assert (Hud' : mem u (dones e') = false).
      { unfold finish in Hud. destruct rd; [|exact Hud]. cbn [dones] in Hud. unfold mem in Hud. cbn [existsb] in Hud.
        apply orb_false_iff in Hud. apply Hud. }
      destruct (Nat.eq_dec u t0) as [->|Nu].
      + (* t0 itself: pending (it is not among the finished) *)
        destruct (p_out r) eqn:Ho; cbn in Hrd; subst rd.
        * destruct (P7 eq_refl) as [K|K]; [left; exact K | right; exact K].
        * exfalso. unfold finish in Hud. cbn [dones] in Hud. unfold mem in Hud. cbn in Hud.
          rewrite Nat.eqb_refl in Hud. discriminate.
        * contradiction.
      + assert (Hc : Some u <> Some t0) by congruence.
        destruct (J2 u Hu Hc Hud') as [K|K]; [left; exact K|].
        right. unfold blockO in *. rewrite pc_set_pc_other, recvs_set_pc by exact Nu. exact K. }
  assert (Hready : ends_with_complete (p_evs r) = out_ready (p_out r)).
  { rewrite Q1, ends_with_complete_snoc. exact Q2. }
  assert (Horec : forall rd, rd = out_ready (p_out r) ->
            orec o (LPoll t0 (p_evs r) rd) =
            inl (mkO (o_clock o2) (o_pend o2) (if rd then t0 :: o_done o2 else o_done o2)
                      (o_vals o2) (o_deliv o2) (o_join o2) (o_flags o2) (o_block o2)
                      (o_next o2) (rd :: o_polls o2) (o_skips o2))).
  { intros rd Hrd. cbn [orec]. rewrite C. cbn [with_lag dones]. rewrite Hd.
    rewrite (RepQ_mem _ _ t0 A).
    assert (Hm : mem t0 (lag ++ t0 :: q) = true).
    { apply mem_In. apply in_or_app. right. left. reflexivity. }
    rewrite Hm. cbn [negb]. rewrite T. fold o1. unfold tid in *. rewrite H2. cbn [obind].
    rewrite Hready, Hrd, Bool.eqb_reflx. cbn [negb]. reflexivity. }
  destruct (p_out r) eqn:Ho; inversion Hs; subst st' t evs ready; clear Hs.
  - exists (mkO (o_clock o2) (o_pend o2) (o_done o2) (o_vals o2) (o_deliv o2) (o_join o2) (o_flags o2)
                (o_block o2) (o_next o2) (false :: o_polls o2) (o_skips o2)).
    split; [apply (Horec false); reflexivity|]. split; [|split].
    + apply SimL_nolag. cbn [sx ss]. apply (Sf false). reflexivity.
    + cbn. rewrite P2. reflexivity.
    + cbn. rewrite P3. reflexivity.
  - exists (mkO (o_clock o2) (o_pend o2) (t0 :: o_done o2) (o_vals o2) (o_deliv o2) (o_join o2) (o_flags o2)
                (o_block o2) (o_next o2) (true :: o_polls o2) (o_skips o2)).
    split; [apply (Horec true); reflexivity|]. split; [|split].
    + apply SimL_nolag. cbn [sx ss]. apply (Sf true). reflexivity.
    + cbn. rewrite P2. reflexivity.
    + cbn. rewrite P3. reflexivity.
Qed.

Lemma SimO_reset e sh o cur p : RepQ (queue e) (o_reset o p) -> SimO e sh o cur -> SimO e sh (o_reset o p) cur.
Proof. intros R [A B C D E F G H I]. constructor; try assumption. Qed.

Lemma RepQ_in q o x : RepQ q o -> In x (o_pend o) -> In (fst x) q.
Proof.
  intros [st [Hl [Hp _]]] Hx. cbn [snd] in Hp. rewrite Hp in Hx. apply in_rev in Hx.
  destruct x as [u d]. apply in_combine_l in Hx. exact Hx.
Qed.

Lemma RepQ_empty o p : p = [] -> RepQ [] (o_reset o p).
Proof. intros ->. exists []. cbn. repeat split; constructor. Qed.

(* at a stall the oracle's stall clause holds *)
Lemma stall_ok_sound st o lag :
  InvB st -> SimL st o lag -> queue (sx st) = [] -> stall_ok (o_reset o []) = true.
Proof.
  intros I [Sm Hlag] Hq. pose proof Sm as [A B C D E F G H J].
  unfold stall_ok. apply forallb_forall. intros u Hu. apply in_seq in Hu. cbn [o_reset o_next] in Hu.
  rewrite D in Hu. destruct Hu as [_ Hu]. cbn in Hu.
  unfold unfinished_waiting. cbn [o_reset o_done o_block o_flags o_vals].
  destruct (mem u (o_done o)) eqn:Hd; [reflexivity|]. cbn [orb].
  rewrite C in Hd. cbn [with_lag dones] in Hd.
  assert (Hun : u < ntasks (sx st)) by (rewrite <- (ib_len st I); exact Hu).
  assert (Hnd : ~ In u (dones (sx st))) by (apply mem_false; exact Hd).
  destruct (ib_live st I u Hun Hnd) as [K|K]; [rewrite Hq in K; destruct K|].
  destruct (J u Hu ltac:(discriminate) Hd) as [L|L].
  { cbn [with_lag queue] in L. rewrite Hq, app_nil_r in L. apply Hlag in L. congruence. }
  unfold is_blocked in K. unfold blockO in L.
  destruct (pc (get_task (ss st) u)) as [|a rest]; [destruct K|].
  destruct a as [n0|k|k0|k0|s0| | |v0]; try contradiction.
  - rewrite L. destruct K as [K1 _]. rewrite F. apply mem_false in K1. rewrite K1. reflexivity.
  - destruct L as [r [rv' [L1 L2]]]. destruct K as [r' [rv'' [K1 K2]]]. rewrite L1 in K1. inversion K1; subst r' rv''.
    rewrite L2.
    assert (Hr : r < nt (ss st)).
    { destruct (Nat.lt_ge_cases r (nt (ss st))) as [X|X]; [exact X|].
      rewrite get_dummy in K2 by exact X. discriminate. }
    pose proof (G r Hr) as Gr. rewrite K2 in Gr. cbn in Gr. destruct Gr as [G1 _]. rewrite G1. reflexivity.
Qed.

(* one observed call of step(): the records XStep writes *)
Definition step_recs (st' : sys) (res : stepres) : list rec :=
  match res with
  | SIdle => [LStep None (wake_count st')]
  | SSkip => [LStep (Some true) (wake_count st')]
  | SPolled t evs r => [LPoll t evs r; LStep (Some r) (wake_count st')]
  | SPanicked t evs => [LPoll t evs false; LPanic]
  end.

Lemma xstep_O scripts st o :
  InvB st -> SimL st o [] -> o_polls o = [] -> o_skips o = 0 ->
  let st' := fst (sys_step scripts st) in
  exists o', orecs o (step_recs st' (snd (sys_step scripts st))) = inl o' /\
             SimL st' o' [] /\ o_polls o' = [] /\ o_skips o' = 0.
Proof.
  intros I Sl Hp Hk st'. pose proof (InvB_step scripts st I) as I'. fold st' in I'.
  destruct (sys_step scripts st) as [st1 res] eqn:Hs. cbn [fst snd] in *. subst st'.
  destruct res as [| |t evs r|t evs]; cbn [step_recs orecs].
  - (* idle *)
    assert (Hq : queue (sx st) = [] /\ st1 = st).
    { unfold sys_step, pop in Hs. destruct (queue (sx st)) as [|t q]; [inversion Hs; split; reflexivity|].
      destruct (is_done _ t); [discriminate|]. destruct (p_out _); discriminate. }
    destruct Hq as [Hq ->]. pose proof Sl as [Sm _]. pose proof (so_rep _ _ _ _ Sm) as A.
    cbn [with_lag queue app] in A. rewrite Hq in A.
    cbn [orec]. rewrite Hk, Hp. cbn [Nat.eqb negb]. rewrite (RepQ_nil _ A). cbn [oldest].
    unfold wake_count. rewrite Hq. cbn [length Nat.eqb negb].
    rewrite (stall_ok_sound st o [] I Sl Hq). cbn [obind orecs].
    exists (o_reset o []). split; [reflexivity|]. split; [|split; reflexivity].
    destruct Sl as [Sm' Hl]. split; [|exact Hl]. apply SimO_reset; [|exact Sm'].
    cbn [with_lag queue app]. rewrite Hq. apply RepQ_empty. reflexivity.
  - (* a finished task is passed over *)
    unfold sys_step, pop in Hs. destruct (queue (sx st)) as [|t q] eqn:Hq; [discriminate|].
    unfold is_done in Hs. cbn [dones] in Hs. destruct (mem t (dones (sx st))) eqn:Hd; [|destruct (p_out _); discriminate].
    inversion Hs; subst st1. clear Hs.
    destruct Sl as [Sm _]. pose proof Sm as [A B C D E F G H J].
    cbn [with_lag queue app] in A. rewrite Hq in A.
    destruct (RepQ_take _ _ _ A) as [d [Eo R']].
    cbn [orec]. rewrite Hk, Hp. cbn [Nat.eqb negb]. rewrite Eo, C. cbn [with_lag dones]. rewrite Hd.
    assert (Hlen : length (pend_del t (o_pend o)) = length q).
    { apply (RepQ_length q (o_reset o (pend_del t (o_pend o)))). exact R'. }
    unfold wake_count. cbn [sx queue]. rewrite Hlen, Nat.eqb_refl. cbn [negb obind orecs].
    exists (o_reset o (pend_del t (o_pend o))). split; [reflexivity|]. split; [|split; reflexivity].
    apply SimL_nolag. cbn [sx ss].
    constructor; cbn [o_reset o_clock o_pend o_done o_vals o_deliv o_join o_flags o_block o_next queue ntasks dones];
      try assumption.
    + intros u Hu. apply B. cbn [with_lag queue app]. rewrite Hq. right. exact Hu.
    + intros u Hu Hc Hud. destruct (J u Hu Hc Hud) as [K|K]; [|right; exact K].
      cbn [with_lag queue app] in K. rewrite Hq in K. destruct K as [K|K]; [subst; cbn [with_lag dones] in Hud; congruence | left; exact K].
  - (* a future is polled *)
    destruct (step_poll scripts st o [] st1 t evs r I Sl Hs) as [o1 [H1 [S1 [P1 K1]]]].
    rewrite H1. cbn [obind orecs orec]. rewrite K1, Hk, P1, Hp. cbn [length Nat.add Nat.eqb negb].
    rewrite Bool.eqb_reflx.
    destruct S1 as [Sm1 Hl1]. pose proof (so_rep _ _ _ _ Sm1) as A1. cbn [with_lag queue app] in A1.
    unfold wake_count. rewrite (RepQ_length _ _ A1), Nat.eqb_refl. cbn [negb obind].
    exists (o_reset o1 (o_pend o1)). split; [reflexivity|]. split; [|split; reflexivity].
    split; [|exact Hl1]. apply SimO_reset; [exact A1 | exact Sm1].
  - exfalso. pose proof (ib_nopanic st1 I') as Np.
    unfold sys_step, pop in Hs. destruct (queue (sx st)) as [|t0 q]; [discriminate|].
    destruct (is_done _ t0); [discriminate|]. destruct (p_out _); inversion Hs; subst; cbn in Np; discriminate.
Qed.

Lemma orecs_app o a b : orecs o (a ++ b) = obind (orecs o a) (fun o1 => orecs o1 b).
Proof.
  revert o. induction a as [|x a IH]; intros o; [reflexivity|].
  cbn [app orecs]. destruct (orec o x) as [o1|k]; cbn [obind]; [apply IH | reflexivity].
Qed.

Definition settled (st : sys) (o : ost) : Prop :=
  SimL st o [] /\ o_polls o = [] /\ o_skips o = 0.

Lemma run_loop_step_recs fuel scripts st n :
  run_loop (S fuel) scripts true st n =
  match snd (sys_step scripts st) with
  | SIdle | SPanicked _ _ => (fst (sys_step scripts st), step_recs (fst (sys_step scripts st)) (snd (sys_step scripts st)))
  | SSkip => let (st2, l) := run_loop fuel scripts true (fst (sys_step scripts st)) (S n) in
             (st2, step_recs (fst (sys_step scripts st)) SSkip ++ l)
  | SPolled t evs r => let (st2, l) := run_loop fuel scripts true (fst (sys_step scripts st)) (if r then S n else n) in
             (st2, step_recs (fst (sys_step scripts st)) (SPolled t evs r) ++ l)
  end.
Proof.
  cbn [run_loop]. destruct (sys_step scripts st) as [st' res]. cbn [fst snd].
  destruct res; cbn [step_recs]; try reflexivity.
Qed.

Lemma loop_step_O scripts : forall fuel st n o,
  InvB st -> settled st o ->
  ~ In LFuel (snd (run_loop fuel scripts true st n)) ->
  exists o', orecs o (snd (run_loop fuel scripts true st n)) = inl o' /\
             settled (fst (run_loop fuel scripts true st n)) o'.
Proof.
  induction fuel as [|fuel IH]; intros st n o I [Sl [Hp Hk]] Hnf.
  - exfalso. apply Hnf. left. reflexivity.
  - rewrite run_loop_step_recs in *.
    pose proof (InvB_step scripts st I) as I'.
    destruct (xstep_O scripts st o I Sl Hp Hk) as [o1 [H1 [S1 [P1 K1]]]].
    destruct (sys_step scripts st) as [st' res]. cbn [fst snd] in *.
    destruct res as [| |t evs r|t evs].
    + cbn [fst snd]. exists o1. split; [exact H1 | exact (conj S1 (conj P1 K1))].
    + destruct (run_loop fuel scripts true st' (S n)) as [st2 l] eqn:Hr. cbn [fst snd] in *.
      destruct (IH st' (S n) o1 I' (conj S1 (conj P1 K1))) as [o2 [H2 S2]].
      * rewrite Hr. cbn [snd]. intros Hin. apply Hnf. apply in_or_app. right. exact Hin.
      * rewrite Hr in H2, S2. cbn [fst snd] in H2, S2. exists o2.
        split; [rewrite orecs_app, H1; exact H2 | exact S2].
    + destruct (run_loop fuel scripts true st' (if r then S n else n)) as [st2 l] eqn:Hr. cbn [fst snd] in *.
      destruct (IH st' (if r then S n else n) o1 I' (conj S1 (conj P1 K1))) as [o2 [H2 S2]].
      * rewrite Hr. cbn [snd]. intros Hin. apply Hnf. apply in_or_app. right. exact Hin.
      * rewrite Hr in H2, S2. cbn [fst snd] in H2, S2. exists o2.
        split; [rewrite orecs_app, H1; exact H2 | exact S2].
    + cbn [fst snd]. exists o1. split; [exact H1 | exact (conj S1 (conj P1 K1))].
Qed.

Lemma count_true_cons b l : count_true (b :: l) = (if b then 1 else 0) + count_true l.
Proof. unfold count_true. cbn. destruct b; reflexivity. Qed.

Lemma loop_run_O scripts : forall fuel st n o lag,
  InvB st -> SimL st o lag -> n = count_true (o_polls o) + o_skips o + length lag ->
  ~ In LFuel (snd (run_loop fuel scripts false st n)) ->
  exists o', orecs o (snd (run_loop fuel scripts false st n)) = inl o' /\
             settled (fst (run_loop fuel scripts false st n)) o'.
Proof.
  induction fuel as [|fuel IH]; intros st n o lag I Sl Hn Hnf.
  - exfalso. apply Hnf. left. reflexivity.
  - cbn [run_loop] in *. pose proof (InvB_step scripts st I) as I'.
    destruct (sys_step scripts st) as [st' res] eqn:Hs. cbn [fst snd] in *.
    destruct res as [| |t evs r|t evs].
    + (* stall: run_until_stalled returns *)
      assert (Hq : queue (sx st) = [] /\ st' = st).
      { unfold sys_step, pop in Hs. destruct (queue (sx st)) as [|t q]; [inversion Hs; split; reflexivity|].
        destruct (is_done _ t); [discriminate|]. destruct (p_out _); discriminate. }
      destruct Hq as [Hq ->]. cbn [fst snd orecs orec].
      destruct Sl as [Sm Hlag]. pose proof (so_rep _ _ _ _ Sm) as A. cbn [with_lag queue] in A.
      rewrite Hq, app_nil_r in A.
      assert (Hall : forallb (fun p => mem (fst p) (o_done o)) (o_pend o) = true).
      { apply forallb_forall. intros x Hx. apply (RepQ_in _ _ _ A) in Hx.
        rewrite (so_done _ _ _ _ Sm). cbn [with_lag dones]. apply Hlag. exact Hx. }
      rewrite Hall. cbn [negb]. rewrite (RepQ_length _ _ A).
      assert (L1 : Nat.leb (count_true (o_polls o)) n = true) by (apply Nat.leb_le; lia).
      assert (L2 : Nat.leb n (count_true (o_polls o) + o_skips o + length lag) = true) by (apply Nat.leb_le; lia).
      rewrite L1, L2. cbn [andb negb].
      unfold wake_count. rewrite Hq. cbn [length Nat.eqb negb].
      rewrite (stall_ok_sound st o lag I (conj Sm Hlag) Hq). cbn [obind].
      exists (o_reset o []). split; [reflexivity|]. split; [|split; reflexivity].
      apply SimL_nolag. pose proof Sm as [A0 B C D E F G H J].
      constructor; cbn [o_reset o_clock o_pend o_done o_vals o_deliv o_join o_flags o_block o_next]; try assumption.
      * rewrite Hq. apply RepQ_empty. reflexivity.
      * intros u Hu. rewrite Hq in Hu. destruct Hu.
      * intros u Hu Hc Hud. destruct (J u Hu Hc Hud) as [K|K]; [|right; exact K].
        cbn [with_lag queue] in K. rewrite Hq, app_nil_r in K. apply Hlag in K. cbn [with_lag dones] in Hud. congruence.
    + (* a finished task passed over silently *)
      destruct (run_loop fuel scripts false st' (S n)) as [st2 l] eqn:Hr. cbn [fst snd app] in *.
      unfold sys_step, pop in Hs. destruct (queue (sx st)) as [|t q] eqn:Hq; [discriminate|].
      unfold is_done in Hs. cbn [dones] in Hs.
      destruct (mem t (dones (sx st))) eqn:Hd; [|destruct (p_out _); discriminate].
      inversion Hs; subst st'. clear Hs.
      destruct (IH _ (S n) o (lag ++ [t]) I') as [o2 [H2 S2]].
      * destruct Sl as [Sm Hlag]. split.
        -- unfold with_lag in *. cbn [sx ss queue ntasks dones] in *. rewrite Hq in Sm.
           rewrite <- app_assoc. exact Sm.
        -- cbn [sx dones]. intros u Hu. apply in_app_or in Hu. destruct Hu as [Hu|[<-|[]]]; [apply Hlag; exact Hu | exact Hd].
      * rewrite app_length. cbn [length]. lia.
      * rewrite Hr. exact Hnf.
      * rewrite Hr in H2, S2. exists o2. split; assumption.
    + destruct (run_loop fuel scripts false st' (if r then S n else n)) as [st2 l] eqn:Hr. cbn [fst snd app] in *.
      destruct (step_poll scripts st o lag st' t evs r I Sl Hs) as [o1 [H1 [S1 [P1 K1]]]].
      destruct (IH st' (if r then S n else n) o1 [] I' S1) as [o2 [H2 S2]].
      * rewrite P1, K1, count_true_cons. cbn [length]. destruct r; lia.
      * rewrite Hr. cbn [snd]. intros Hin. apply Hnf. right. exact Hin.
      * rewrite Hr in H2, S2. cbn [fst snd] in H2, S2. exists o2. cbn [orecs]. rewrite H1. cbn [obind].
        split; assumption.
    + exfalso. pose proof (ib_nopanic st' I') as Np.
      unfold sys_step, pop in Hs. destruct (queue (sx st)) as [|t0 q]; [discriminate|].
      destruct (is_done _ t0); [discriminate|]. destruct (p_out _); inversion Hs; subst; cbn in Np; discriminate.
Qed.
