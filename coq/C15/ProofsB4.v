(* C15 — Level B, part 4: the invariant of the whole system and one step. *)
From Yv Require Import Common.Base C15.Model C15.Spec C15.ProofsA C15.ProofsB1 C15.ProofsB2 C15.ProofsB3.
From Coq Require Import Arith.

(* ---- effects applied to the executor ------------------------------------- *)

Lemma fold_eff (effs : list effect) : forall e,
  let e' := fold_left apply_effect effs e in
  ntasks e' = ntasks e + count_spawn effs /\ dones e' = dones e /\
  (forall u, In u (queue e) -> In u (queue e')) /\
  (forall u, In (FWake u) effs -> In u (queue e')) /\
  (forall u, ntasks e <= u -> u < ntasks e' -> In u (queue e')) /\
  (forall u, In u (queue e') -> In u (queue e) \/ In (FWake u) effs \/ (ntasks e <= u /\ u < ntasks e')).
Proof.
  induction effs as [|f effs IH]; intros e e'.
  - cbn in e'. subst e'. cbn. split; [lia|]. split; [reflexivity|]. split; [auto|].
    split; [intros u []|]. split; [intros u H1 H2; lia|]. intros u H. left. exact H.
  - cbn [fold_left] in e'. destruct (IH (apply_effect e f)) as [A [B [C [D [E F]]]]]. fold e' in A, B, C, D, E, F.
    destruct f as [w|]; cbn [apply_effect] in *.
    + (* wake *)
      assert (Hq : forall u, In u (queue (wake e w)) <-> In u (queue e) \/ u = w).
      { intros u. unfold wake. destruct (mem w (queue e)) eqn:Hm; cbn.
        - apply mem_In in Hm. split; [intros H; left; exact H | intros [H| ->]; assumption].
        - rewrite in_app_iff. cbn. split; [intros [H|[H|[]]]; auto | intros [H|H]; auto]. }
      assert (Hn : ntasks (wake e w) = ntasks e) by (unfold wake; destruct (mem w (queue e)); reflexivity).
      assert (Hd : dones (wake e w) = dones e) by (unfold wake; destruct (mem w (queue e)); reflexivity).
      rewrite Hn in *. rewrite Hd in *.
      replace (count_spawn (FWake w :: effs)) with (count_spawn effs) by reflexivity.
      split; [exact A|]. split; [exact B|]. split; [|split; [|split]].
      * intros u H. apply C. apply Hq. left. exact H.
      * intros u [H|H]; [inversion H; subst; apply C; apply Hq; right; reflexivity | apply D; exact H].
      * exact E.
      * intros u H. destruct (F u H) as [H1|[H1|H1]].
        -- apply Hq in H1. destruct H1 as [H1| ->]; [left; exact H1 | right; left; left; reflexivity].
        -- right. left. right. exact H1.
        -- right. right. exact H1.
    + (* spawn *)
      unfold enqueue in *. cbn [ntasks dones queue] in *.
      replace (count_spawn (FSpawn :: effs)) with (S (count_spawn effs)) by reflexivity.
      split; [lia|]. split; [exact B|]. split; [|split; [|split]].
      * intros u H. apply C. apply in_or_app. left. exact H.
      * intros u [H|H]; [discriminate | apply D; exact H].
      * intros u H1 H2. destruct (Nat.eq_dec u (ntasks e)) as [->|N].
        -- apply C. apply in_or_app. right. left. reflexivity.
        -- apply E; lia.
      * intros u H. destruct (F u H) as [H1|[H1|H1]].
        -- apply in_app_or in H1. destruct H1 as [H1|[<-|[]]]; [left; exact H1 | right; right; lia].
        -- right. left. right. exact H1.
        -- right. right. lia.
Qed.

(* ---- how a poll ends -------------------------------------------------------- *)

Lemma WF_add_waiter sh k t : WF sh -> t < nt sh -> WF (add_waiter k t sh).
Proof.
  intros [W1 W2 W3 W4 W5] Ht. constructor; try assumption.
  intros k' u H. cbn in H. apply in_app_or in H. destruct H as [H|[H|[]]].
  - eapply W5. exact H.
  - inversion H; subst. exact Ht.
Qed.

Lemma WF_set_computed sh t v : WF sh -> WF (set_rel t (RlComputed v) sh).
Proof.
  intros [W1 W2 W3 W4 W5]. constructor.
  - intros u x H. rewrite recvs_set_rel in H. rewrite nt_set_rel.
    destruct (W1 u x H) as [A [B C]]. split; [exact A|]. split; [exact B|].
    rewrite get_set_rel. destruct (Nat.eqb t x && Nat.ltb t (nt sh)); cbn; [discriminate | exact C].
  - intros u. rewrite recvs_set_rel. apply W2.
  - intros u1 u2 x H1 H2. rewrite recvs_set_rel in H1, H2. eapply W3; eassumption.
  - intros x w H. rewrite nt_set_rel. rewrite get_set_rel in H.
    destruct (Nat.eqb t x && Nat.ltb t (nt sh)); cbn in H; [discriminate | eapply W4; exact H].
  - intros k u H. rewrite nt_set_rel. eapply W5. exact H.
Qed.

Lemma WF_set_pc sh t p : WF sh -> WF (set_pc t p sh).
Proof.
  apply WF_same.
  - apply nt_set_pc.
  - intros u. apply recvs_set_pc.
  - intros u. apply rel_set_pc.
  - reflexivity.
Qed.

Lemma in_repeat {A} (x y : A) n : In y (repeat x n) -> y = x.
Proof. intros H. apply repeat_spec in H. exact H. Qed.

Record StopFacts (t : tid) (shl : shared) (rl : pres) : Prop := {
  sf_wf : WF (p_sh rl);
  sf_nt : nt (p_sh rl) = nt shl;
  sf_nospawn : count_spawn (p_effs rl) = 0;
  sf_nopanic : p_out rl <> OPanic;
  sf_pc : forall u, pc (get_task (p_sh rl) u) = pc (get_task shl u);
  sf_recvs : forall u, recvs (get_task (p_sh rl) u) = recvs (get_task shl u);
  sf_flags : flags (p_sh rl) = flags shl;
  sf_waiters : forall x, In x (waiters shl) -> In x (waiters (p_sh rl));
  sf_waiters_range : forall k u, In (k, u) (waiters (p_sh rl)) -> In (k, u) (waiters shl) \/ u = t;
  sf_fin : forall u, u <> t -> fin_rel (rel (get_task (p_sh rl) u)) = fin_rel (rel (get_task shl u));
  sf_polled : forall u w, rel (get_task shl u) = RlPolled w -> ~ In u (recvs (get_task shl t)) ->
                rel (get_task (p_sh rl) u) = RlPolled w \/ (u = t /\ In (FWake w) (p_effs rl));
  sf_ready : p_out rl = OReady ->
               fin_rel (rel (get_task (p_sh rl) t)) = true;
  sf_pend : p_out rl = OPend ->
               fin_rel (rel (get_task (p_sh rl) t)) = false /\
               (In (FWake t) (p_effs rl) \/ is_blocked (set_pc t (p_pc rl) (p_sh rl)) t);
  sf_wake_range : forall u, In (FWake u) (p_effs rl) -> u < nt shl
}.

Lemma stop_facts t shl rl :
  WF shl -> t < nt shl -> waiting_rel (rel (get_task shl t)) -> Stop t shl rl -> StopFacts t shl rl.
Proof.
  intros W Ht Hwt Hs. destruct Hs as [v | n rest | k rest Hk | r rv' rest Hrv Hwr].
  - (* complete *)
    assert (E : exists w, complete t v shl =
              mkPres (set_rel t (RlComputed v) shl) [] [PComplete v]
                     (match w with Some w => [FWake w] | None => [] end) OReady /\
              (forall w', rel (get_task shl t) = RlPolled w' -> w = Some w') /\
              (forall w', w = Some w' -> rel (get_task shl t) = RlPolled w')).
    { unfold complete. destruct Hwt as [E|[w0 E]]; rewrite E; cbn.
      - exists None. split; [reflexivity|]. split; intros w' H; discriminate.
      - exists (Some w0). split; [reflexivity|]. split; intros w' H; inversion H; reflexivity. }
    destruct E as [w [E [Ew1 Ew2]]]. rewrite E. constructor; cbn [p_sh p_effs p_out p_pc].
    + apply WF_set_computed. exact W.
    + apply nt_set_rel.
    + destruct w; reflexivity.
    + discriminate.
    + intros u. apply pc_set_rel.
    + intros u. apply recvs_set_rel.
    + reflexivity.
    + intros x H. exact H.
    + intros k u H. left. exact H.
    + intros u Hu. rewrite rel_set_rel_other by exact Hu. reflexivity.
    + intros u w' Hp _. destruct (Nat.eq_dec u t) as [->|N].
      * right. split; [reflexivity|]. rewrite (Ew1 w' Hp). left. reflexivity.
      * left. rewrite rel_set_rel_other by exact N. exact Hp.
    + intros _. rewrite rel_set_rel_same by exact Ht. reflexivity.
    + discriminate.
    + intros u H. destruct w as [w|]; [|destruct H]. destruct H as [H|[]]. inversion H; subst.
      eapply wf_polled; [exact W | apply Ew2; reflexivity].
  - (* yield *)
    constructor; cbn [p_sh p_effs p_out p_pc]; try reflexivity; try assumption.
    + clear. induction n as [|n IH]; [reflexivity | exact IH].
    + discriminate.
    + intros x H. exact H.
    + intros k u H. left. exact H.
    + intros u w H _. left. exact H.
    + discriminate.
    + intros _. split.
      * destruct Hwt as [E|[w E]]; rewrite E; reflexivity.
      * left. left. reflexivity.
    + intros u H. apply in_repeat in H. inversion H; subst. exact Ht.
  - (* wait *)
    constructor; cbn [p_sh p_effs p_out p_pc]; try reflexivity.
    + apply WF_add_waiter; assumption.
    + discriminate.
    + intros x H. cbn. apply in_or_app. left. exact H.
    + intros k' u H. cbn in H. apply in_app_or in H. destruct H as [H|[H|[]]]; [left; exact H|].
      inversion H; subst. right. reflexivity.
    + intros u w H _. left. exact H.
    + discriminate.
    + intros _. split.
      * unfold get_task, add_waiter. cbn. fold (get_task shl t).
        destruct Hwt as [E|[w E]]; rewrite E; reflexivity.
      * right. unfold is_blocked. rewrite pc_set_pc_same by exact Ht. cbn. split.
        -- apply mem_false. exact Hk.
        -- apply in_or_app. right. left. reflexivity.
    + intros u [].
  - (* join *)
    unfold my_recvs in Hrv.
    assert (Hr : t < r /\ r < nt shl /\ rel (get_task shl r) <> RlDone).
    { apply (wf_recv shl W t r). rewrite Hrv. left. reflexivity. }
    destruct Hr as [Htr [Hrn Hrd]].
    constructor; cbn [p_sh p_effs p_out p_pc]; try reflexivity.
    + apply WF_set_polled; assumption.
    + apply nt_set_rel.
    + discriminate.
    + intros u. apply pc_set_rel.
    + intros u. apply recvs_set_rel.
    + intros x H. exact H.
    + intros k u H. left. exact H.
    + intros u Hu. destruct (Nat.eq_dec u r) as [->|N].
      * rewrite rel_set_rel_same by exact Hrn. destruct Hwr as [E|[w E]]; rewrite E; reflexivity.
      * rewrite rel_set_rel_other by exact N. reflexivity.
    + intros u w H Hn. left. rewrite rel_set_rel_other; [exact H|].
      intros ->. apply Hn. rewrite Hrv. left. reflexivity.
    + discriminate.
    + intros _. split.
      * rewrite rel_set_rel_other by lia. destruct Hwt as [E|[w E]]; rewrite E; reflexivity.
      * right. unfold is_blocked. rewrite pc_set_pc_same by (rewrite nt_set_rel; exact Ht).
        exists r, rv'. split.
        -- rewrite recvs_set_pc, recvs_set_rel. exact Hrv.
        -- rewrite rel_set_pc. apply rel_set_rel_same. exact Hrn.
    + intros u [].
Qed.
