(* C15 — the executor component of the script systems is an instance of the
   Level-A machine. *)
From Yv Require Import Common.Base C15.Model C15.Spec C15.ProofsA.
From Coq Require Import Arith.

Lemma mrun_app m a b : mrun m (a ++ b) = mrun (mrun m a) b.
Proof. unfold mrun. apply fold_left_app. Qed.

Lemma wake_ntasks e w : ntasks (wake e w) = ntasks e.
Proof. unfold wake. destruct (mem w (queue e)); reflexivity. Qed.

Lemma mrun_effects (effs : list effect) : forall m,
  (forall u, In (FWake u) effs -> u < ntasks (mex m)) ->
  mex (mrun m (map op_of_effect effs)) = fold_left apply_effect effs (mex m) /\
  running (mrun m (map op_of_effect effs)) = running m.
Proof.
  induction effs as [|f effs IH]; intros m H; [split; reflexivity|].
  cbn [map mrun fold_left]. destruct f as [w|]; cbn [op_of_effect mstep apply_effect].
  - assert (Hw : w < ntasks (mex m)) by (apply H; left; reflexivity).
    apply Nat.ltb_lt in Hw. rewrite Hw.
    set (m1 := mkMach (wake (mex m) w) (running m) (GWake w :: trace m)).
    destruct (IH m1) as [A B].
    + intros u Hu. cbn. rewrite wake_ntasks. apply H. right. exact Hu.
    + split; [exact A | exact B].
  - set (m1 := mkMach (enqueue (mex m)) (running m) (GEnq (ntasks (mex m)) :: trace m)).
    destruct (IH m1) as [A B].
    + intros u Hu. cbn. assert (u < ntasks (mex m)) by (apply H; right; exact Hu). lia.
    + split; [exact A | exact B].
Qed.

Lemma reach_init : reach exec0.
Proof. exists []. split; reflexivity. Qed.

Lemma reach_enqueue e : reach e -> reach (enqueue e).
Proof.
  intros [ops [E R]]. exists (ops ++ [OpSpawn]). rewrite mrun_app. cbn. rewrite E. split; [reflexivity | exact R].
Qed.

Lemma reach_wakes (ws : list tid) : forall e, reach e -> (forall u, In u ws -> u < ntasks e) ->
  reach (fold_left wake ws e).
Proof.
  induction ws as [|w ws IH]; intros e He H; [exact He|].
  cbn [fold_left]. apply IH.
  - destruct He as [ops [E R]]. exists (ops ++ [OpWake w]). rewrite mrun_app. cbn [mrun fold_left mstep].
    rewrite E. assert (Hw : w < ntasks e) by (apply H; left; reflexivity).
    apply Nat.ltb_lt in Hw. rewrite Hw. cbn. split; [reflexivity | exact R].
  - intros u Hu. rewrite wake_ntasks. apply H. right. exact Hu.
Qed.

Lemma reach_skip e t q : reach e -> queue e = t :: q -> mem t (dones e) = true ->
  reach (mkExec q (ntasks e) (dones e)).
Proof.
  intros [ops [E R]] Hq Hd. exists (ops ++ [OpBegin]). rewrite mrun_app. cbn [mrun fold_left mstep].
  rewrite R, E. unfold pop. rewrite Hq. unfold is_done. cbn [dones]. rewrite Hd. split; reflexivity.
Qed.

Lemma reach_poll e t q effs ready : reach e -> queue e = t :: q -> mem t (dones e) = false ->
  (forall u, In (FWake u) effs -> u < ntasks e) ->
  reach (finish (fold_left apply_effect effs (mkExec q (ntasks e) (dones e))) t ready).
Proof.
  intros [ops [E R]] Hq Hd Hr.
  exists (ops ++ [OpBegin] ++ map op_of_effect effs ++ [OpEnd ready]).
  rewrite mrun_app, mrun_app.
  set (m0 := mrun mach0 ops) in *.
  assert (Hb : mstep m0 OpBegin = mkMach (mkExec q (ntasks e) (dones e)) (Some t) (GBegin t :: trace m0)).
  { cbn [mstep]. rewrite R, E. unfold pop. rewrite Hq. unfold is_done. cbn [dones]. rewrite Hd. reflexivity. }
  replace (mrun m0 [OpBegin]) with (mstep m0 OpBegin) by reflexivity. rewrite Hb.
  set (m1 := mkMach _ (Some t) _).
  destruct (mrun_effects effs m1) as [A B]; [intros u Hu; cbn; apply Hr; exact Hu|].
  rewrite mrun_app. cbn [mrun fold_left mstep]. fold (mrun m1 (map op_of_effect effs)).
  rewrite B. cbn [running m1]. cbn [mex]. rewrite A. split; reflexivity.
Qed.
