(* C15 — soundness of the oracles for the parts outside the script systems. *)
From Yv Require Import Common.Base C15.Model C15.Spec C15.ProofsA C15.ProofsB1 C15.ProofsB2
  C15.ProofsB5 C15.ProofsB6 C15.ProofsO1 C15.ProofsO3 C15.ProofsO4.
From Coq Require Import Arith.

(* ---- executor dropped ---- *)
Lemma dead_ok_model tail : dead_ok tail (map dead_out tail) = true.
Proof.
  unfold dead_ok. rewrite map_length, Nat.eqb_refl. cbn [andb].
  induction tail as [|a tail IH]; [reflexivity|]. cbn [map combine forallb]. rewrite IH.
  destruct a; reflexivity.
Qed.

Lemma oracle_dead_sound_l : forall fuel scripts plan tail,
  match model_run_dead fuel scripts plan tail with
  | (log, outs, obs) => ~ In LFuel log -> oracle_dead log tail outs obs = None
  end.
Proof.
  intros fuel scripts plan tail. unfold model_run_dead.
  pose proof (plan_O fuel scripts plan sys0 ost0 [] InvB_init settled_init) as P.
  destruct (sys_plan fuel scripts sys0 plan) as [st log]. cbn [fst snd] in *.
  intros Hnf. destruct P as [o [H1 [[Sl _] R]]]; [intros r [] | exact Hnf |].
  cbn [app] in R. unfold oracle_dead. rewrite H1, dead_ok_model. cbn [negb].
  apply SimL_nolag in Sl.
  assert (F : final_ok_dead o (roots_of log) (final_obs_dead st (roots_of log)) = true).
  { unfold final_ok_dead. apply andb_true_iff. split.
    - unfold final_obs_dead. rewrite map_map.
      assert (E : forall l, map (fun x => fst
          match rel (get_task (ss st) x) with
          | RlComputed v => (x, (TOk v, TAlready))
          | RlDone => (x, (TAlready, TAlready))
          | _ => if alive_after_drop (ss st) x then (x, (TNotSent, TNotSent)) else (x, (TDropped, TDropped))
          end) l = l).
      { induction l as [|x l IH]; [reflexivity|]. cbn [map]. rewrite IH. f_equal.
        destruct (rel (get_task (ss st) x)); try reflexivity; destruct (alive_after_drop (ss st) x); reflexivity. }
      rewrite E. apply list_eqb_refl.
    - apply forallb_forall. intros [r [a b]] Hin. unfold final_obs_dead in Hin. apply in_map_iff in Hin.
      destruct Hin as [x [E Hx]]. destruct (R x Hx) as [R1 [R2 _]].
      pose proof (so_rel _ _ _ _ Sl x R1) as G. cbn [fst snd].
      destruct (rel (get_task (ss st) x)) as [|w|v|]; cbn in G.
      + destruct G as [G1 _]. destruct (alive_after_drop (ss st) x); inversion E; subst; rewrite G1; reflexivity.
      + destruct G as [G1 _]. destruct (alive_after_drop (ss st) x); inversion E; subst; rewrite G1; reflexivity.
      + destruct G as [G1 _]. inversion E; subst. rewrite G1. cbn. rewrite N.eqb_refl. reflexivity.
      + exfalso. apply R2. reflexivity. }
  rewrite F. reflexivity.
Qed.

(* ---- one Sender/Receiver pair ---- *)
Definition PairInv (s : fstate) (sent : option N) (delivered : bool) : Prop :=
  match f_rel s with
  | RlPending | RlPolled _ => sent = None /\ delivered = false
  | RlComputed v => sent = Some v /\ delivered = false /\ f_sender s = false
  | RlDone => delivered = true /\ f_sender s = false
  end.

Lemma pair_oracle_sound_gen : forall ops s sent delivered,
  PairInv s sent delivered -> f_oracle sent delivered (combine ops (f_run s ops)) = true.
Proof.
  induction ops as [|o ops IH]; intros s sent delivered Hi; [reflexivity|].
  cbn [f_run]. destruct s as [r sa ra]. unfold PairInv in Hi. cbn [f_rel f_sender] in Hi.
  destruct o as [v|w| | |]; cbn [f_op f_sender f_receiver f_rel].
  - (* send *)
    destruct sa; cbn [negb].
    + destruct ra; cbn [negb].
      * destruct r as [|w0|v0|]; cbn [relay_send combine f_oracle].
        -- destruct Hi as [-> ->]. apply IH. cbn. repeat split; reflexivity.
        -- destruct Hi as [-> ->]. apply IH. cbn. repeat split; reflexivity.
        -- destruct Hi as [_ [_ X]]. discriminate.
        -- destruct Hi as [_ X]. discriminate.
      * cbn [combine f_oracle]. rewrite N.eqb_refl. cbn [andb]. apply IH.
        unfold PairInv. cbn [f_rel f_sender]. destruct r; try exact Hi.
        -- destruct Hi as [A [B _]]. repeat split; assumption.
        -- destruct Hi as [A _]. split; [exact A | reflexivity].
    + cbn [combine f_oracle]. apply IH. exact Hi.
  - (* poll *)
    destruct ra; cbn [negb]; [|cbn [combine f_oracle]; apply IH; exact Hi].
    destruct r as [|w0|v0|]; cbn [relay_poll combine f_oracle].
    + apply IH. exact Hi.
    + apply IH. exact Hi.
    + destruct Hi as [-> [-> Hs]]. rewrite N.eqb_refl. cbn [andb negb]. apply IH.
      unfold PairInv. cbn. split; [reflexivity | exact Hs].
    + destruct Hi as [-> _]. reflexivity.
  - (* try *)
    destruct ra; cbn [negb]; [|cbn [combine f_oracle]; apply IH; exact Hi].
    destruct r as [|w0|v0|]; cbn [combine f_oracle].
    + destruct sa; cbn [f_oracle]; apply IH; exact Hi.
    + destruct sa; cbn [f_oracle]; apply IH; exact Hi.
    + destruct Hi as [-> [-> Hs]]. rewrite N.eqb_refl. cbn [andb negb]. apply IH.
      unfold PairInv. cbn. split; [reflexivity | exact Hs].
    + apply IH. exact Hi.
  - destruct sa; cbn [combine f_oracle]; apply IH; [|exact Hi].
    unfold PairInv. cbn [f_rel f_sender]. destruct r; try exact Hi.
    + destruct Hi as [A [B _]]. repeat split; assumption.
    + destruct Hi as [A _]. split; [exact A | reflexivity].
  - destruct ra; cbn [combine f_oracle]; apply IH; exact Hi.
Qed.

Lemma pair_oracle_sound_l : forall ops, f_oracle None false (combine ops (f_run fstate0 ops)) = true.
Proof. intros ops. apply pair_oracle_sound_gen. cbn. split; reflexivity. Qed.
