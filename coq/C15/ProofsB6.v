(* C15 — Level B, part 6: each result reaches its receiver at most once, with
   the value the task completed with (read off the log). *)
From Yv Require Import Common.Base C15.Model C15.Spec C15.ProofsA C15.ProofsB1 C15.ProofsB2
  C15.ProofsB3 C15.ProofsB4 C15.ProofsBR C15.ProofsB5.
From Coq Require Import Arith.

Record StopD (t : tid) (shl : shared) (rl : pres) : Prop := {
  sd_deliv : forall r, deliv_events r (p_evs rl) = [];
  sd_ready : p_out rl = OReady ->
               exists v, complete_events (p_evs rl) = [v] /\ rel (get_task (p_sh rl) t) = RlComputed v;
  sd_pend : p_out rl = OPend ->
               complete_events (p_evs rl) = [] /\ waiting_rel (rel (get_task (p_sh rl) t));
  sd_other : forall r, r <> t ->
               rel (get_task (p_sh rl) r) = rel (get_task shl r) \/
               (waiting_rel (rel (get_task shl r)) /\ waiting_rel (rel (get_task (p_sh rl) r)))
}.

Lemma stop_d t shl rl :
  WF shl -> t < nt shl -> waiting_rel (rel (get_task shl t)) -> Stop t shl rl -> StopD t shl rl.
Proof.
  intros W Ht Hwt Hs. destruct Hs as [v | n rest | k rest Hk | r rv' rest Hrv Hwr].
  - assert (E : exists w, complete t v shl =
              mkPres (set_rel t (RlComputed v) shl) [] [PComplete v] w OReady).
    { unfold complete. destruct Hwt as [E|[w0 E]]; rewrite E; cbn; eexists; reflexivity. }
    destruct E as [w E]. rewrite E. constructor; cbn [p_sh p_evs p_out].
    + intros r. reflexivity.
    + intros _. exists v. split; [reflexivity | apply rel_set_rel_same; exact Ht].
    + discriminate.
    + intros r N. left. apply rel_set_rel_other. exact N.
  - constructor; cbn [p_sh p_evs p_out].
    + intros r. clear. induction n as [|n IH]; [reflexivity | exact IH].
    + discriminate.
    + intros _. split; [|exact Hwt]. clear. induction n as [|n IH]; [reflexivity | exact IH].
    + intros r _. left. reflexivity.
  - constructor; cbn [p_sh p_evs p_out].
    + intros r. reflexivity.
    + discriminate.
    + intros _. split; [reflexivity | exact Hwt].
    + intros r _. left. reflexivity.
  - unfold my_recvs in Hrv.
    assert (Hr : t < r /\ r < nt shl /\ rel (get_task shl r) <> RlDone).
    { apply (wf_recv shl W t r). rewrite Hrv. left. reflexivity. }
    destruct Hr as [Htr [Hrn _]].
    constructor; cbn [p_sh p_evs p_out].
    + intros x. reflexivity.
    + discriminate.
    + intros _. split; [reflexivity|]. rewrite rel_set_rel_other by lia. exact Hwt.
    + intros x N. destruct (Nat.eq_dec x r) as [->|N'].
      * right. split; [exact Hwr|]. rewrite rel_set_rel_same by exact Hrn. right. eexists. reflexivity.
      * left. apply rel_set_rel_other. exact N'.
Qed.

(* the log so far agrees with the relays *)
Record LogInv (st : sys) (log : list rec) : Prop := {
  li_waiting : forall r, r < ntasks (sx st) -> waiting_rel (rel (get_task (ss st) r)) ->
                 log_deliv r log = [] /\ log_complete r log = [];
  li_computed : forall r v, r < ntasks (sx st) -> rel (get_task (ss st) r) = RlComputed v ->
                 log_deliv r log = [] /\ log_complete r log = [v];
  li_done : forall r, r < ntasks (sx st) -> rel (get_task (ss st) r) = RlDone ->
                 exists v, log_deliv r log = [v] /\ log_complete r log = [v];
  li_future : forall r, ntasks (sx st) <= r -> log_deliv r log = [] /\ log_complete r log = []
}.

Lemma log_deliv_app r a b : log_deliv r (a ++ b) = log_deliv r a ++ log_deliv r b.
Proof.
  induction a as [|x a IH]; [reflexivity|]. destruct x; cbn; try exact IH.
  rewrite IH, app_assoc. reflexivity.
Qed.

Lemma log_complete_app r a b : log_complete r (a ++ b) = log_complete r a ++ log_complete r b.
Proof.
  induction a as [|x a IH]; [reflexivity|]. destruct x; cbn; try exact IH.
  rewrite IH, app_assoc. reflexivity.
Qed.

Lemma LogInv_init : LogInv sys0 [].
Proof.
  constructor; cbn.
  - intros r H. lia.
  - intros r v H. lia.
  - intros r H. lia.
  - intros r _. split; reflexivity.
Qed.

Lemma relay_cases (r : relay) :
  waiting_rel r \/ (exists v, r = RlComputed v) \/ r = RlDone.
Proof.
  destruct r; [left; left; reflexivity | left; right; eexists; reflexivity |
               right; left; eexists; reflexivity | right; right; reflexivity].
Qed.

Lemma waiting_not_computed r v : waiting_rel r -> r <> RlComputed v.
Proof. intros [->|[w ->]]; discriminate. Qed.
Lemma waiting_not_done r : waiting_rel r -> r <> RlDone.
Proof. intros [->|[w ->]]; discriminate. Qed.

(* the log entries that do not record a poll change nothing *)
Lemma LogInv_nopoll st log l :
  (forall r, log_deliv r l = []) -> (forall r, log_complete r l = []) ->
  LogInv st log -> LogInv st (log ++ l).
Proof.
  intros H1 H2 [A B C D]. constructor.
  - intros r Hr Hw. rewrite log_deliv_app, log_complete_app, H1, H2, !app_nil_r. apply A; assumption.
  - intros r v Hr Hc. rewrite log_deliv_app, log_complete_app, H1, H2, !app_nil_r. apply B; assumption.
  - intros r Hr Hd. rewrite log_deliv_app, log_complete_app, H1, H2, !app_nil_r. apply C; assumption.
  - intros r Hr. rewrite log_deliv_app, log_complete_app, H1, H2, !app_nil_r. apply D; assumption.
Qed.

(* one call of step *)
Lemma LogInv_step scripts st log : InvB st -> LogInv st log ->
  let st' := fst (sys_step scripts st) in
  match snd (sys_step scripts st) with
  | SIdle | SSkip => LogInv st' log
  | SPolled t evs ready => LogInv st' (log ++ [LPoll t evs ready])
  | SPanicked _ _ => False
  end.
Proof.
  intros I L. pose proof I as [Iwf Ilen Iq Id Ifin Ilive Inp Ire].
  pose proof L as [La Lb Lc Ld].
  unfold sys_step, pop. destruct (queue (sx st)) as [|t q] eqn:Hq; [exact L|].
  assert (Htn : t < ntasks (sx st)) by (apply Iq; left; reflexivity).
  unfold is_done. cbn [dones]. destruct (mem t (dones (sx st))) eqn:Hd.
  - cbn [fst snd]. constructor; cbn [sx ss ntasks]; assumption.
  - apply mem_false in Hd.
    assert (Htl : t < nt (ss st)) by (rewrite Ilen; exact Htn).
    assert (Hwt : waiting_rel (rel (get_task (ss st) t))).
    { apply not_fin_waiting. destruct (fin_rel (rel (get_task (ss st) t))) eqn:F; [|reflexivity].
      exfalso. apply Hd. apply Ifin; assumption. }
    assert (Hself : ~ In t (recvs (get_task (ss st) t))).
    { intros H. apply (wf_recv _ Iwf) in H. lia. }
    unfold poll_task.
    destruct (poll_loop_sum scripts t (pc (get_task (ss st) t)) (ss st) Iwf Htl)
      as [shl [effs1 [evs1 [rl [X [XD [Wl [Hp Hs]]]]]]]].
    rewrite Hp. cbn [emit p_sh p_pc p_evs p_effs p_out].
    assert (Hntl : nt shl = nt (ss st) + count_spawn effs1) by apply (ex_nt _ _ _ _ X).
    assert (Htl' : t < nt shl) by lia.
    assert (Hrelt : rel (get_task shl t) = rel (get_task (ss st) t)).
    { apply (ex_rel _ _ _ _ X); assumption. }
    assert (Hwt' : waiting_rel (rel (get_task shl t))) by (rewrite Hrelt; exact Hwt).
    pose proof (stop_facts t shl rl Wl Htl' Hwt' Hs) as SF.
    pose proof (stop_d t shl rl Wl Htl' Hwt' Hs) as SD.
    set (effs := effs1 ++ p_effs rl).
    set (e := mkExec q (ntasks (sx st)) (dones (sx st))).
    destruct (fold_eff effs e) as [Fn [Fd _]].
    set (e' := fold_left apply_effect effs e) in *. cbn [e ntasks] in Fn.
    assert (Hcs : count_spawn effs = count_spawn effs1).
    { unfold effs. rewrite count_spawn_app, (sf_nospawn _ _ _ SF). lia. }
    assert (Hn' : ntasks e' = nt shl) by (rewrite Fn, Hcs, Hntl, Ilen; reflexivity).
    set (shf := set_pc t (p_pc rl) (p_sh rl)).
    assert (Hrelf : forall r, rel (get_task shf r) = rel (get_task (p_sh rl) r))
      by (intros r; unfold shf; apply rel_set_pc).
    set (evs := evs1 ++ p_evs rl).
    assert (Hdv : forall r, deliv_events r evs = deliv_events r evs1).
    { intros r. unfold evs. rewrite deliv_events_app, (sd_deliv _ _ _ SD), app_nil_r. reflexivity. }
    assert (Hce : complete_events evs = complete_events (p_evs rl)).
    { unfold evs. rewrite complete_events_app, (ed_nocomplete _ _ _ XD). reflexivity. }
    (* the new log entry *)
    assert (Hld : forall r ready, log_deliv r (log ++ [LPoll t evs ready]) = log_deliv r log ++ deliv_events r evs1).
    { intros r ready. rewrite log_deliv_app. cbn. rewrite app_nil_r, Hdv. reflexivity. }
    assert (Hlc : forall r ready, log_complete r (log ++ [LPoll t evs ready]) =
                   log_complete r log ++ (if Nat.eqb t r then complete_events (p_evs rl) else [])).
    { intros r ready. rewrite log_complete_app. cbn. rewrite app_nil_r, Hce. reflexivity. }
    (* relays of the tasks other than t, old and new *)
    assert (Hother : forall r, r < nt shl -> r <> t ->
              let x := rel (get_task shf r) in
              (waiting_rel x -> log_deliv r log ++ deliv_events r evs1 = [] /\ log_complete r log = []) /\
              (forall v, x = RlComputed v -> log_deliv r log ++ deliv_events r evs1 = [] /\ log_complete r log = [v]) /\
              (x = RlDone -> exists v, log_deliv r log ++ deliv_events r evs1 = [v] /\ log_complete r log = [v])).
    { intros r Hr N x.
      destruct (Nat.lt_ge_cases r (nt (ss st))) as [Lr|Lr].
      - (* existed before *)
        assert (Lr' : r < ntasks (sx st)) by (rewrite <- Ilen; exact Lr).
        destruct (ed_old _ _ _ XD r Lr) as [[D1 D2]|[v0 [D1 [D2 D3]]]].
        + (* nothing taken: relay as before, or waiting -> waiting *)
          rewrite D1, app_nil_r.
          destruct (sd_other _ _ _ SD r N) as [S|[S1 S2]].
          * assert (Ex : x = rel (get_task (ss st) r)) by (unfold x; rewrite Hrelf, S, D2; reflexivity).
            rewrite Ex. split; [intros Hw; apply La; assumption|].
            split; [intros v Hv; apply Lb; assumption | intros Hd'; apply Lc; assumption].
          * rewrite D2 in S1. unfold x. rewrite Hrelf.
            split; [intros _; apply La; assumption|].
            split; [intros v Hv; exfalso; exact (waiting_not_computed _ v S2 Hv) |
                    intros Hd'; exfalso; exact (waiting_not_done _ S2 Hd')].
        + (* the value was taken in this poll *)
          destruct (Lb r v0 Lr' D2) as [B1 B2]. rewrite D1, B1, B2.
          assert (Ex : x = RlDone).
          { unfold x. rewrite Hrelf. destruct (sd_other _ _ _ SD r N) as [S|[S1 _]].
            - rewrite S. exact D3.
            - rewrite D3 in S1. exfalso. exact (waiting_not_done _ S1 eq_refl). }
          rewrite Ex. split; [intros Hw; exfalso; exact (waiting_not_done _ Hw eq_refl)|].
          split; [intros v Hv; discriminate | intros _; exists v0; split; reflexivity].
      - (* spawned in this poll: waiting, nothing in the log *)
        assert (Lr' : ntasks (sx st) <= r) by (rewrite <- Ilen; exact Lr).
        destruct (Ld r Lr') as [D1 D2]. rewrite D1, D2, (ed_new _ _ _ XD r Lr).
        assert (Hw : waiting_rel x).
        { unfold x. rewrite Hrelf. apply not_fin_waiting.
          rewrite (sf_fin _ _ _ SF r N). apply (ex_new _ _ _ _ X); assumption. }
        split; [intros _; split; reflexivity|].
        split; [intros v Hv; exfalso; exact (waiting_not_computed _ v Hw Hv) |
                intros Hd'; exfalso; exact (waiting_not_done _ Hw Hd')]. }
    (* t itself before this poll: waiting, nothing in the log, nothing taken *)
    destruct (La t Htn Hwt) as [Lt1 Lt2].
    assert (Hdt : deliv_events t evs1 = []).
    { destruct (ed_old _ _ _ XD t Htl) as [[D1 _]|[v0 [_ [D2 _]]]]; [exact D1|].
      exfalso. exact (waiting_not_computed _ v0 Hwt D2). }
    assert (Hfut : forall r ready, nt shl <= r ->
              log_deliv r (log ++ [LPoll t evs ready]) = [] /\ log_complete r (log ++ [LPoll t evs ready]) = []).
    { intros r ready Hr. assert (Lr : ntasks (sx st) <= r) by lia.
      destruct (Ld r Lr) as [D1 D2]. rewrite Hld, Hlc, D1, D2.
      rewrite (ed_new _ _ _ XD r) by (rewrite Ilen; exact Lr).
      destruct (Nat.eqb_spec t r) as [E|E]; [lia|]. split; reflexivity. }
    destruct (p_out rl) eqn:Hout; cbn [fst snd].
    + (* Pending *)
      destruct (sd_pend _ _ _ SD Hout) as [P1 P2].
      constructor; cbn [sx ss]; fold shf; fold e'; rewrite ?Hn'.
      * intros r Hr Hw. rewrite Hld, Hlc. destruct (Nat.eq_dec r t) as [->|N].
        -- rewrite Nat.eqb_refl, P1, Lt1, Lt2, Hdt. split; reflexivity.
        -- destruct (Hother r Hr N) as [O1 _]. destruct (O1 Hw) as [O2 O3].
           destruct (Nat.eqb_spec t r) as [E|E]; [congruence|]. rewrite O2, O3. split; reflexivity.
      * intros r v Hr Hc. rewrite Hld, Hlc. destruct (Nat.eq_dec r t) as [->|N].
        -- exfalso. rewrite Hrelf in Hc. exact (waiting_not_computed _ v P2 Hc).
        -- destruct (Hother r Hr N) as [_ [O1 _]]. destruct (O1 v Hc) as [O2 O3].
           destruct (Nat.eqb_spec t r) as [E|E]; [congruence|]. rewrite O2, O3. split; reflexivity.
      * intros r Hr Hd'. rewrite Hld, Hlc. destruct (Nat.eq_dec r t) as [->|N].
        -- exfalso. rewrite Hrelf in Hd'. exact (waiting_not_done _ P2 Hd').
        -- destruct (Hother r Hr N) as [_ [_ O1]]. destruct (O1 Hd') as [v [O2 O3]].
           destruct (Nat.eqb_spec t r) as [E|E]; [congruence|]. exists v. rewrite O2, O3, app_nil_r. split; reflexivity.
      * intros r Hr. apply Hfut. exact Hr.
    + (* Ready *)
      destruct (sd_ready _ _ _ SD Hout) as [v0 [P1 P2]].
      constructor; cbn [sx ss finish ntasks]; fold shf; fold e'; rewrite ?Hn'.
      * intros r Hr Hw. rewrite Hld, Hlc. destruct (Nat.eq_dec r t) as [->|N].
        -- exfalso. rewrite Hrelf, P2 in Hw. exact (waiting_not_computed _ v0 Hw eq_refl).
        -- destruct (Hother r Hr N) as [O1 _]. destruct (O1 Hw) as [O2 O3].
           destruct (Nat.eqb_spec t r) as [E|E]; [congruence|]. rewrite O2, O3. split; reflexivity.
      * intros r v Hr Hc. rewrite Hld, Hlc. destruct (Nat.eq_dec r t) as [->|N].
        -- rewrite Hrelf, P2 in Hc. inversion Hc; subst v.
           rewrite Nat.eqb_refl, P1, Lt1, Lt2, Hdt. split; reflexivity.
        -- destruct (Hother r Hr N) as [_ [O1 _]]. destruct (O1 v Hc) as [O2 O3].
           destruct (Nat.eqb_spec t r) as [E|E]; [congruence|]. rewrite O2, O3. split; reflexivity.
      * intros r Hr Hd'. rewrite Hld, Hlc. destruct (Nat.eq_dec r t) as [->|N].
        -- exfalso. rewrite Hrelf, P2 in Hd'. discriminate.
        -- destruct (Hother r Hr N) as [_ [_ O1]]. destruct (O1 Hd') as [v [O2 O3]].
           destruct (Nat.eqb_spec t r) as [E|E]; [congruence|]. exists v. rewrite O2, O3, app_nil_r. split; reflexivity.
      * intros r Hr. apply Hfut. exact Hr.
    + exact (sf_nopanic _ _ _ SF Hout).
Qed.

Lemma LogInv_snoc_nopoll st log x :
  (match x with LPoll _ _ _ => False | _ => True end) -> LogInv st log -> LogInv st (log ++ [x]).
Proof.
  intros Hx. apply LogInv_nopoll; intros r; destruct x; try reflexivity; destruct Hx.
Qed.

Lemma LogInv_loop scripts stepmode : forall fuel st n log, InvB st -> LogInv st log ->
  LogInv (fst (run_loop fuel scripts stepmode st n)) (log ++ snd (run_loop fuel scripts stepmode st n)).
Proof.
  induction fuel as [|fuel IH]; intros st n log I L.
  - cbn. apply LogInv_snoc_nopoll; [exact Logic.I | exact L].
  - cbn [run_loop]. pose proof (InvB_step scripts st I) as I'.
    pose proof (LogInv_step scripts st log I L) as L'. cbn zeta in L'.
    destruct (sys_step scripts st) as [st' res] eqn:Hs. cbn [fst snd] in I', L'.
    destruct res as [| |t evs r|t evs].
    + cbn [fst snd]. apply LogInv_snoc_nopoll; [destruct stepmode; exact Logic.I | exact L'].
    + specialize (IH st' (S n)). destruct (run_loop fuel scripts stepmode st' (S n)) as [st2 l] eqn:Hr.
      cbn [fst snd] in *. destruct stepmode.
      * cbn [app]. replace (log ++ LStep (Some true) (wake_count st') :: l)
          with ((log ++ [LStep (Some true) (wake_count st')]) ++ l) by (rewrite <- app_assoc; reflexivity).
        apply IH; [exact I'|]. apply LogInv_snoc_nopoll; [exact Logic.I | exact L'].
      * cbn [app]. apply IH; assumption.
    + specialize (IH st' (if r then S n else n)).
      destruct (run_loop fuel scripts stepmode st' (if r then S n else n)) as [st2 l] eqn:Hr.
      cbn [fst snd] in *. destruct stepmode.
      * replace (log ++ LPoll t evs r :: [LStep (Some r) (wake_count st')] ++ l)
          with (((log ++ [LPoll t evs r]) ++ [LStep (Some r) (wake_count st')]) ++ l)
          by (rewrite <- !app_assoc; reflexivity).
        apply IH; [exact I'|]. apply LogInv_snoc_nopoll; [exact Logic.I | exact L'].
      * replace (log ++ LPoll t evs r :: [] ++ l) with ((log ++ [LPoll t evs r]) ++ l)
          by (rewrite <- app_assoc; reflexivity).
        apply IH; assumption.
    + destruct L'.
Qed.

Lemma LogInv_same_tasks st st' log :
  ntasks (sx st') = ntasks (sx st) -> tasks (ss st') = tasks (ss st) ->
  LogInv st log -> LogInv st' log.
Proof.
  intros Hn Ht [A B C D].
  assert (Hg : forall r, get_task (ss st') r = get_task (ss st) r) by (intros r; unfold get_task; rewrite Ht; reflexivity).
  constructor; intros; rewrite ?Hn, ?Hg in *; auto.
Qed.

Lemma LogInv_x fuel scripts st x log : InvB st -> LogInv st log ->
  LogInv (fst (sys_x fuel scripts st x)) (log ++ snd (sys_x fuel scripts st x)).
Proof.
  intros I L. destruct x as [s|k|k| | |]; cbn [sys_x].
  - (* spawn from outside *)
    cbn [fst snd]. apply LogInv_snoc_nopoll; [exact Logic.I|].
    pose proof L as [A B C D]. pose proof (ib_len st I) as Ilen.
    assert (Hg : forall r, r < ntasks (sx st) ->
              get_task (add_task (script_of scripts s) (ss st)) r = get_task (ss st) r).
    { intros r Hr. apply get_add_task_old. rewrite Ilen. exact Hr. }
    assert (Hnew : forall r, r < S (ntasks (sx st)) -> ~ r < ntasks (sx st) ->
              rel (get_task (add_task (script_of scripts s) (ss st)) r) = RlPending).
    { intros r H1 H2. assert (r = nt (ss st)) by lia. subst r. rewrite get_add_task_new. reflexivity. }
    constructor; cbn [sx ss enqueue ntasks].
    + intros r Hr Hw. destruct (Nat.lt_ge_cases r (ntasks (sx st))) as [Lr|Lr].
      * rewrite Hg in Hw by exact Lr. apply A; assumption.
      * apply D. exact Lr.
    + intros r v Hr Hc. destruct (Nat.lt_ge_cases r (ntasks (sx st))) as [Lr|Lr].
      * rewrite Hg in Hc by exact Lr. apply B; assumption.
      * rewrite Hnew in Hc by lia. discriminate.
    + intros r Hr Hd. destruct (Nat.lt_ge_cases r (ntasks (sx st))) as [Lr|Lr].
      * rewrite Hg in Hd by exact Lr. apply C; assumption.
      * rewrite Hnew in Hd by lia. discriminate.
    + intros r Hr. apply D. lia.
  - cbn [fst snd]. apply LogInv_snoc_nopoll; [exact Logic.I|].
    revert L. apply LogInv_same_tasks; cbn [sx ss]; [|reflexivity].
    apply (fold_wake (ext_wakes k st) (sx st)).
  - cbn [fst snd]. apply LogInv_snoc_nopoll; [exact Logic.I|].
    revert L. apply LogInv_same_tasks; cbn [sx ss]; [|reflexivity].
    apply (fold_wake (ext_wakes k st) (sx st)).
  - pose proof (LogInv_step scripts st log I L) as L'. cbn zeta in L'.
    destruct (sys_step scripts st) as [st' res]. cbn [fst snd] in L'.
    destruct res as [| |t evs r|t evs]; cbn [fst snd].
    + apply LogInv_snoc_nopoll; [exact Logic.I | exact L'].
    + apply LogInv_snoc_nopoll; [exact Logic.I | exact L'].
    + replace (log ++ [LPoll t evs r; LStep (Some r) (wake_count st')])
        with ((log ++ [LPoll t evs r]) ++ [LStep (Some r) (wake_count st')])
        by (rewrite <- app_assoc; reflexivity).
      apply LogInv_snoc_nopoll; [exact Logic.I | exact L'].
    + destruct L'.
  - apply LogInv_loop; assumption.
  - apply LogInv_loop; assumption.
Qed.

Lemma LogInv_plan fuel scripts : forall plan st log, InvB st -> LogInv st log ->
  LogInv (fst (sys_plan fuel scripts st plan)) (log ++ snd (sys_plan fuel scripts st plan)).
Proof.
  induction plan as [|x plan IH]; intros st log I L.
  - cbn. rewrite app_nil_r. exact L.
  - cbn [sys_plan]. pose proof (InvB_x fuel scripts st x I) as I1.
    pose proof (LogInv_x fuel scripts st x log I L) as L1.
    destruct (sys_x fuel scripts st x) as [st1 l1]. cbn [fst snd] in I1, L1.
    destruct (spanic st1); [exact L1|].
    specialize (IH st1 (log ++ l1) I1 L1).
    destruct (sys_plan fuel scripts st1 plan) as [st2 l2]. cbn [fst snd] in *.
    rewrite app_assoc. exact IH.
Qed.

(* ---- theorems ------------------------------------------------------------------ *)

(* in every run: a task completes at most once; its result is received by a
   task at most once, only after it completed, and unaltered *)
Lemma result_once_l : forall fuel scripts plan r,
  let log := snd (sys_plan fuel scripts sys0 plan) in
  (log_complete r log = [] /\ log_deliv r log = []) \/
  (exists v, log_complete r log = [v] /\ (log_deliv r log = [] \/ log_deliv r log = [v])).
Proof.
  intros fuel scripts plan r log.
  pose proof (LogInv_plan fuel scripts plan sys0 [] InvB_init LogInv_init) as L. cbn [app] in L.
  fold log in L. set (st := fst (sys_plan fuel scripts sys0 plan)) in *.
  destruct (Nat.lt_ge_cases r (ntasks (sx st))) as [Lr|Lr].
  - destruct (relay_cases (rel (get_task (ss st) r))) as [Hw|[[v Hc]|Hd]].
    + left. destruct (li_waiting st log L r Lr Hw) as [A B]. split; assumption.
    + right. exists v. destruct (li_computed st log L r v Lr Hc) as [A B]. split; [exact B | left; exact A].
    + right. destruct (li_done st log L r Lr Hd) as [v [A B]]. exists v. split; [exact B | right; exact A].
  - left. destruct (li_future st log L r Lr) as [A B]. split; assumption.
Qed.

(* what the driver's receivers answer at the end, asked twice *)
Lemma final_obs_once_l : forall fuel scripts plan r a b,
  let st := fst (sys_plan fuel scripts sys0 plan) in
  let log := snd (sys_plan fuel scripts sys0 plan) in
  r < ntasks (sx st) ->
  In (r, (a, b)) (final_obs st [r]) ->
  (a = TNotSent /\ b = TNotSent /\ log_complete r log = []) \/
  (exists v, a = TOk v /\ b = TAlready /\ log_complete r log = [v] /\ log_deliv r log = []) \/
  (a = TAlready /\ b = TAlready).
Proof.
  intros fuel scripts plan r a b st log Lr Hin.
  pose proof (LogInv_plan fuel scripts plan sys0 [] InvB_init LogInv_init) as L. cbn [app] in L.
  fold log in L. fold st in L.
  cbn in Hin. destruct Hin as [Hin|[]].
  destruct (relay_cases (rel (get_task (ss st) r))) as [Hw|[[v Hc]|Hd]].
  - left. destruct (li_waiting st log L r Lr Hw) as [A B].
    destruct Hw as [E|[w E]]; rewrite E in Hin; cbn in Hin; inversion Hin; subst; auto.
  - right. left. exists v. destruct (li_computed st log L r v Lr Hc) as [A B].
    rewrite Hc in Hin. cbn in Hin. inversion Hin; subst. auto.
  - right. right. rewrite Hd in Hin. cbn in Hin. inversion Hin; subst. auto.
Qed.
