(* C15 — the oracle's scheduling rule (time stamps, oldest first) and the
   implementation's FIFO queue with duplicate suppression answer alike. *)
From Yv Require Import Common.Base C15.Model C15.Spec C15.ProofsA.
From Coq Require Import Arith Sorting.Sorted.

(* the stamped set [p] represents the queue [q] *)
Definition Rep (q : list tid) (s : sstate) : Prop :=
  exists st, length st = length q /\ snd s = rev (combine q st) /\
             StronglySorted lt st /\ Forall (fun x => x < fst s) st /\ NoDup q.

Lemma oldest_none p : oldest p = None -> p = [].
Proof.
  destruct p as [|[t c] p]; [reflexivity|]. cbn [oldest]. destruct (oldest p) as [[u d]|].
  - destruct (Nat.ltb c d); intros H; discriminate H.
  - intros H; discriminate H.
Qed.

Lemma oldest_min p : forall u d, oldest p = Some (u, d) ->
  In (u, d) p /\ Forall (fun x => d <= snd x) p.
Proof.
  induction p as [|[t c] p IH]; intros u d H; [discriminate|].
  cbn [oldest] in H. destruct (oldest p) as [[u' d']|] eqn:E.
  - destruct (IH u' d' eq_refl) as [I1 I2]. destruct (Nat.ltb_spec c d') as [L|L]; inversion H; subst.
    + split; [left; reflexivity|]. constructor; [cbn; lia|].
      eapply Forall_impl; [|exact I2]. cbn. intros x Hx. lia.
    + split; [right; exact I1|]. constructor; [cbn; lia | exact I2].
  - inversion H; subst. apply oldest_none in E. subst p. split; [left; reflexivity|].
    constructor; [cbn; lia | constructor].
Qed.

Lemma in_combine_stamp (q : list tid) (st : list nat) u d : In (u, d) (combine q st) -> In u q /\ In d st.
Proof. intros H. split; [eapply in_combine_l | eapply in_combine_r]; exact H. Qed.

Lemma map_fst_combine (q : list tid) (st : list nat) : length st = length q -> map fst (combine q st) = q.
Proof.
  revert st. induction q as [|x q IH]; intros [|s st] Hl; try discriminate; [reflexivity|].
  cbn. rewrite IH by (cbn in Hl; lia). reflexivity.
Qed.

Lemma pend_mem_In t p : pend_mem t p = true <-> In t (map fst p).
Proof.
  unfold pend_mem. rewrite existsb_exists, in_map_iff. split.
  - intros [x [H1 H2]]. apply Nat.eqb_eq in H2. exists x. split; assumption.
  - intros [x [H1 H2]]. exists x. split; [exact H2 | apply Nat.eqb_eq; exact H1].
Qed.

Lemma pend_mem_rep q st t : length st = length q ->
  pend_mem t (rev (combine q st)) = mem t q.
Proof.
  intros Hl. apply Bool.eq_true_iff_eq. rewrite pend_mem_In, mem_In, map_rev, map_fst_combine by exact Hl.
  symmetry. apply in_rev.
Qed.

Lemma pend_del_notin t (p : list (tid * nat)) : ~ In t (map fst p) -> pend_del t p = p.
Proof.
  unfold pend_del. induction p as [|[x c] p IH]; intros H; [reflexivity|].
  cbn [filter fst]. cbn [map fst In] in H.
  destruct (Nat.eqb_spec x t) as [E|E]; [exfalso; apply H; left; exact E|].
  cbn [negb]. rewrite IH; [reflexivity|]. intros H'. apply H. right. exact H'.
Qed.

Lemma combine_snoc (q : list tid) (st : list nat) t c : length st = length q ->
  combine (q ++ [t]) (st ++ [c]) = combine q st ++ [(t, c)].
Proof.
  revert st. induction q as [|x q IH]; intros [|s st] Hl; try discriminate; [reflexivity|].
  cbn. rewrite IH by (cbn in Hl; lia). reflexivity.
Qed.

Lemma Rep_step q s o : Rep q s ->
  snd (q_step q o) = snd (s_step s o) /\ Rep (fst (q_step q o)) (fst (s_step s o)).
Proof.
  intros [st [Hl [Hp [Hs [Hc Hnd]]]]]. destruct s as [c p]. cbn [fst snd] in *. subst p.
  destruct o as [t|]; cbn [q_step s_step].
  - rewrite pend_mem_rep by exact Hl. destruct (mem t q) eqn:Hm; cbn [fst snd].
    + split; [reflexivity|]. exists st. repeat split; assumption.
    + split; [reflexivity|]. exists (st ++ [c]). cbn [fst snd]. split; [rewrite !app_length; cbn; lia|].
      split.
      * rewrite combine_snoc by exact Hl. rewrite rev_app_distr. reflexivity.
      * split; [|split].
        -- clear Hl Hnd. induction st as [|x st IH]; cbn.
           ++ constructor; constructor.
           ++ inversion Hs; subst. inversion Hc; subst. constructor; [apply IH; assumption|].
              apply Forall_app. split; [assumption | constructor; [lia | constructor]].
        -- apply Forall_app. split.
           ++ eapply Forall_impl; [|exact Hc]. cbn. intros x Hx. lia.
           ++ constructor; [lia | constructor].
        -- apply NoDup_snoc; [exact Hnd | apply mem_false; exact Hm].
  - destruct q as [|t q]; destruct st as [|s0 st]; try discriminate.
    + cbn. split; [reflexivity|]. exists []. cbn. repeat split; try constructor.
    + cbn [combine rev].
      destruct (oldest (rev (combine q st) ++ [(t, s0)])) as [[u d]|] eqn:E.
      * destruct (oldest_min _ _ _ E) as [I1 I2].
        assert (Hu : (u, d) = (t, s0)).
        { apply in_app_or in I1. destruct I1 as [I1|[I1|[]]]; [|symmetry; exact I1].
          apply in_rev in I1. apply in_combine_stamp in I1. destruct I1 as [_ I1].
          inversion Hs; subst. rewrite Forall_forall in H2. specialize (H2 d I1).
          rewrite Forall_forall in I2. specialize (I2 (t, s0)). cbn in I2.
          assert (d <= s0) by (apply I2; apply in_or_app; right; left; reflexivity). lia. }
        inversion Hu; subst. cbn [fst snd]. split; [reflexivity|].
        inversion Hnd; subst. inversion Hs; subst. inversion Hc; subst.
        exists st. cbn [fst snd]. split; [cbn in Hl; lia|]. split; [|repeat split; assumption].
        unfold pend_del. rewrite filter_app. cbn. rewrite Nat.eqb_refl. cbn. rewrite app_nil_r.
        apply (pend_del_notin t). rewrite map_rev, map_fst_combine by (cbn in Hl; lia).
        intros H. apply in_rev in H. contradiction.
      * apply oldest_none in E. destruct (rev (combine q st)); discriminate.
Qed.

Lemma Rep_run ops : forall q s, Rep q s -> q_run q ops = s_run s ops.
Proof.
  induction ops as [|o ops IH]; intros q s R; [reflexivity|].
  cbn. destruct (Rep_step q s o R) as [E R']. destruct (q_step q o) as [q' out], (s_step s o) as [s' out'].
  cbn in E, R'. subst. f_equal. apply IH. exact R'.
Qed.

Lemma oldest_first_is_queue_l : forall ops, s_run (0, []) ops = q_run [] ops.
Proof.
  intros ops. symmetry. apply Rep_run. exists []. cbn. repeat split; constructor.
Qed.
