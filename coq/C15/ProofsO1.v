(* C15 — oracle soundness, part 1: the relation between the state of the
   script-system model and the state of the oracle, and the events of one
   script action. *)
From Yv Require Import Common.Base C15.Model C15.Spec C15.ProofsA C15.ProofsB1 C15.ProofsB2
  C15.ProofsB3 C15.ProofsB4 C15.ProofsQ.
From Coq Require Import Arith.

Definition RepQ (q : list tid) (o : ost) : Prop := Rep q (o_clock o, o_pend o).

Lemma RepQ_wake q o u : RepQ q o -> RepQ (if mem u q then q else q ++ [u]) (o_wake o u).
Proof.
  intros R. pose proof (Rep_step q _ (QWake u) R) as [_ R']. cbn [q_step s_step fst] in R'.
  unfold RepQ, o_wake. destruct (pend_mem u (o_pend o)); exact R'.
Qed.

Lemma RepQ_mem q o u : RepQ q o -> pend_mem u (o_pend o) = mem u q.
Proof.
  intros [st [Hl [Hp _]]]. cbn [snd] in Hp. rewrite Hp. apply pend_mem_rep. exact Hl.
Qed.

Lemma RepQ_length q o : RepQ q o -> length (o_pend o) = length q.
Proof.
  intros [st [Hl [Hp _]]]. cbn [snd] in Hp. rewrite Hp, rev_length, combine_length, Hl. apply Nat.min_id.
Qed.

Lemma RepQ_take t q o : RepQ (t :: q) o ->
  exists d, oldest (o_pend o) = Some (t, d) /\ Rep q (o_clock o, pend_del t (o_pend o)).
Proof.
  intros R. pose proof (Rep_step (t :: q) _ QTake R) as [E R']. cbn [q_step s_step fst snd] in E, R'.
  destruct (oldest (o_pend o)) as [[u d]|]; cbn [fst snd] in E, R'; [|discriminate].
  inversion E; subst u. exists d. split; [reflexivity | exact R'].
Qed.

Lemma RepQ_nil o : RepQ [] o -> o_pend o = [].
Proof.
  intros [st [Hl [Hp _]]]. cbn [snd] in Hp. destruct st; [|discriminate]. exact Hp.
Qed.

(* what the oracle knows about the relay of r *)
Definition relO (o : ost) (r : tid) (x : relay) : Prop :=
  match x with
  | RlPending => alookup r (o_vals o) = None /\ mem r (o_deliv o) = false /\ alookup r (o_join o) = None
  | RlPolled w => alookup r (o_vals o) = None /\ mem r (o_deliv o) = false /\ alookup r (o_join o) = Some w
  | RlComputed v => alookup r (o_vals o) = Some v /\ mem r (o_deliv o) = false
  | RlDone => exists v, alookup r (o_vals o) = Some v /\ mem r (o_deliv o) = true
  end.

(* the last poll of u ended blocked, and the oracle recorded how *)
Definition blockO (o : ost) (sh : shared) (u : tid) : Prop :=
  match pc (get_task sh u) with
  | AWait k :: _ => alookup u (o_block o) = Some (BWait k)
  | AJoin :: _ => exists r rv', recvs (get_task sh u) = r :: rv' /\ alookup u (o_block o) = Some (BJoin r)
  | _ => False
  end.

Record SimO (e : exec) (sh : shared) (o : ost) (cur : option tid) : Prop := {
  so_rep : RepQ (queue e) o;
  so_qrange : forall u, In u (queue e) -> u < ntasks e;
  so_done : forall u, mem u (o_done o) = mem u (dones e);
  so_next : o_next o = nt sh;
  so_nt : ntasks e = nt sh;
  so_flags : o_flags o = flags sh;
  so_rel : forall r, r < nt sh -> relO o r (rel (get_task sh r));
  so_fut : forall r, nt sh <= r ->
             alookup r (o_vals o) = None /\ mem r (o_deliv o) = false /\ alookup r (o_join o) = None;
  so_block : forall u, u < nt sh -> Some u <> cur -> mem u (dones e) = false ->
               In u (queue e) \/ blockO o sh u
}.

(* ---- waking ---- *)
Lemma o_wake_fields o u :
  o_done (o_wake o u) = o_done o /\ o_vals (o_wake o u) = o_vals o /\ o_deliv (o_wake o u) = o_deliv o /\
  o_join (o_wake o u) = o_join o /\ o_flags (o_wake o u) = o_flags o /\ o_block (o_wake o u) = o_block o /\
  o_next (o_wake o u) = o_next o /\ o_polls (o_wake o u) = o_polls o /\ o_skips (o_wake o u) = o_skips o.
Proof. unfold o_wake. destruct (pend_mem u (o_pend o)); cbn; repeat split; reflexivity. Qed.

Lemma wake_queue_in e u x : In x (queue e) -> In x (queue (wake e u)).
Proof.
  intros H. unfold wake. destruct (mem u (queue e)); [exact H|]. cbn. apply in_or_app. left. exact H.
Qed.

Lemma SimO_wake e sh o cur u : u < nt sh -> SimO e sh o cur -> SimO (wake e u) sh (o_wake o u) cur.
Proof.
  intros Hu [A B C D E F G H I].
  destruct (o_wake_fields o u) as [W1 [W2 [W3 [W4 [W5 [W6 [W7 _]]]]]]].
  assert (Hq : queue (wake e u) = if mem u (queue e) then queue e else queue e ++ [u])
    by (unfold wake; destruct (mem u (queue e)); reflexivity).
  assert (Hn : ntasks (wake e u) = ntasks e) by (unfold wake; destruct (mem u (queue e)); reflexivity).
  assert (Hd : dones (wake e u) = dones e) by (unfold wake; destruct (mem u (queue e)); reflexivity).
  constructor.
  - rewrite Hq. apply RepQ_wake. exact A.
  - intros x Hx. rewrite Hn. rewrite Hq in Hx. destruct (mem u (queue e)); [apply B; exact Hx|].
    apply in_app_or in Hx. destruct Hx as [Hx|[<-|[]]]; [apply B; exact Hx | rewrite E; exact Hu].
  - intros x. rewrite W1, Hd. apply C.
  - rewrite W7. exact D.
  - rewrite Hn. exact E.
  - rewrite W5. exact F.
  - intros r Hr. specialize (G r Hr). unfold relO in *. rewrite W2, W3, W4. exact G.
  - intros r Hr. rewrite W2, W3, W4. apply H. exact Hr.
  - intros x Hx Hc Hxd. rewrite Hd in Hxd. destruct (I x Hx Hc Hxd) as [J|J].
    + left. apply wake_queue_in. exact J.
    + right. unfold blockO in *. rewrite W6. exact J.
Qed.

Lemma oevs_app cur o a b :
  oevs cur o (a ++ b) = obind (oevs cur o a) (fun o1 => oevs cur o1 b).
Proof.
  revert o. induction a as [|x a IH]; intros o; [reflexivity|].
  cbn [app oevs]. destruct (oev cur o x) as [o1|k]; cbn [obind]; [apply IH | reflexivity].
Qed.

(* waking a list of registered tasks *)
Lemma SimO_wakes cur sh : forall ws e o, (forall u, In u ws -> u < nt sh) -> SimO e sh o cur ->
  exists o', oevs cur o (map PWake ws) = inl o' /\
             SimO (fold_left apply_effect (map FWake ws) e) sh o' cur /\
             o_polls o' = o_polls o /\ o_skips o' = o_skips o /\ o_block o' = o_block o /\ o_done o' = o_done o.
Proof.
  induction ws as [|w ws IH]; intros e o Hr S.
  - exists o. cbn. split; [reflexivity|]. split; [exact S|]. repeat split; reflexivity.
  - cbn [map oevs oev obind fold_left apply_effect].
    destruct (IH (wake e w) (o_wake o w)) as [o' [H1 [H2 [H3 [H4 [H5 H6]]]]]].
    + intros u Hu. apply Hr. right. exact Hu.
    + apply SimO_wake; [apply Hr; left; reflexivity | exact S].
    + exists o'. destruct (o_wake_fields o w) as [W1 [_ [_ [_ [_ [W6 [_ [W8 W9]]]]]]]].
      split; [exact H1|]. split; [exact H2|]. rewrite H3, H4, H5, H6, W8, W9, W6, W1. repeat split; reflexivity.
Qed.

(* a change of the shared state the oracle does not see *)
Lemma SimO_sh_same e sh sh' o cur :
  nt sh' = nt sh -> flags sh' = flags sh ->
  (forall u, pc (get_task sh' u) = pc (get_task sh u)) ->
  (forall u, recvs (get_task sh' u) = recvs (get_task sh u)) ->
  (forall u, rel (get_task sh' u) = rel (get_task sh u)) ->
  SimO e sh o cur -> SimO e sh' o cur.
Proof.
  intros Hn Hf Hp Hr Hl [A B C D E F G H I]. constructor; try assumption.
  - rewrite Hn. exact D.
  - rewrite Hn. exact E.
  - rewrite Hf. exact F.
  - intros r Hr'. rewrite Hl. apply G. rewrite <- Hn. exact Hr'.
  - intros r Hr'. apply H. rewrite <- Hn. exact Hr'.
  - intros u Hu Hc Hd. destruct (I u) as [J|J]; try assumption; [rewrite <- Hn; exact Hu | left; exact J|].
    right. unfold blockO in *. rewrite Hp, Hr. exact J.
Qed.

Definition o_frame (o o' : ost) : Prop :=
  o_polls o' = o_polls o /\ o_skips o' = o_skips o /\ o_block o' = o_block o /\ o_done o' = o_done o.

Lemma o_frame_refl o : o_frame o o.
Proof. repeat split; reflexivity. Qed.

Lemma o_frame_trans a b c : o_frame a b -> o_frame b c -> o_frame a c.
Proof. intros [A1 [A2 [A3 A4]]] [B1 [B2 [B3 B4]]]. repeat split; congruence. Qed.

Lemma relO_deliver_other o r x y : x <> r -> relO o x y -> relO (o_deliver o r) x y.
Proof.
  intros N. assert (Hm : mem x (r :: o_deliv o) = mem x (o_deliv o)).
  { unfold mem. cbn. destruct (Nat.eqb_spec x r); [congruence | reflexivity]. }
  unfold relO, o_deliver. cbn [o_vals o_deliv o_join]. rewrite Hm. intros H; exact H.
Qed.

(* t takes the value out of the relay of its oldest receiver *)
Lemma SimO_receive e sh o t r rv' v :
  WF sh -> t < nt sh -> my_recvs sh t = r :: rv' -> rel (get_task sh r) = RlComputed v ->
  SimO e sh o (Some t) ->
  expected_try o r = TOk v /\
  SimO e (set_recvs t rv' (set_rel r RlDone sh)) (o_deliver o r) (Some t).
Proof.
  intros W Ht Hrv Hc S. pose proof S as [A B C D E F G H I]. unfold my_recvs in Hrv.
  assert (Hrn : r < nt sh).
  { destruct (wf_recv sh W t r) as [_ [X _]]; [rewrite Hrv; left; reflexivity | exact X]. }
  pose proof (G r Hrn) as Gr. rewrite Hc in Gr. cbn in Gr. destruct Gr as [G1 G2].
  split; [unfold expected_try; rewrite G2, G1; reflexivity|].
  assert (Hn : nt (set_recvs t rv' (set_rel r RlDone sh)) = nt sh) by (rewrite nt_set_recvs, nt_set_rel; reflexivity).
  constructor; cbn [o_deliver o_clock o_pend o_done o_next o_flags o_vals o_deliv o_join o_block]; try assumption.
  - rewrite Hn. exact D.
  - rewrite Hn. exact E.
  - intros x Hx. rewrite Hn in Hx. rewrite rel_set_recvs. destruct (Nat.eq_dec x r) as [->|N].
    + rewrite rel_set_rel_same by exact Hrn. cbn. exists v. split; [exact G1|].
      unfold mem. cbn. rewrite Nat.eqb_refl. reflexivity.
    + rewrite rel_set_rel_other by exact N. apply relO_deliver_other; [exact N | apply G; exact Hx].
  - intros x Hx. rewrite Hn in Hx. destruct (H x Hx) as [H1 [H2 H3]]. split; [exact H1|]. split; [|exact H3].
    unfold mem. cbn. destruct (Nat.eqb_spec x r); [lia | exact H2].
  - intros u Hu Hcur Hd. rewrite Hn in Hu. destruct (I u Hu Hcur Hd) as [J|J]; [left; exact J|].
    right. unfold blockO in *. cbn [o_block].
    assert (Nu : u <> t) by (intros ->; apply Hcur; reflexivity).
    rewrite pc_set_recvs, pc_set_rel, recvs_set_recvs_other, recvs_set_rel by exact Nu. exact J.
Qed.

Lemma act_next scripts t sh a rest sh' evs effs e o :
  WF sh -> t < nt sh -> SimO e sh o (Some t) ->
  do_action scripts t sh a rest = CNext sh' evs effs ->
  exists o', oevs (Some t) o evs = inl o' /\
             SimO (fold_left apply_effect effs e) sh' o' (Some t) /\ o_frame o o'.
Proof.
  intros W Ht S H. destruct a as [n|k|k|k|s| | |v]; cbn [do_action] in H.
  - discriminate.
  - destruct (mem k (flags sh)); [|discriminate]. inversion H; subst.
    exists o. split; [reflexivity|]. split; [exact S | apply o_frame_refl].
  - (* signal *)
    inversion H; subst. clear H. cbn [oevs oev obind].
    set (o1 := mkO (o_clock o) (o_pend o) (o_done o) (o_vals o) (o_deliv o) (o_join o)
                   (k :: o_flags o) (o_block o) (o_next o) (o_polls o) (o_skips o)).
    assert (S1 : SimO e (set_flag k sh) o1 (Some t)).
    { destruct S as [A B C D E F G HH I]. constructor; try assumption. cbn. rewrite F. reflexivity. }
    destruct (SimO_wakes (Some t) (set_flag k sh) (waiters_of k sh) e o1) as [o' [H1 [H2 H3]]].
    + intros u Hu. apply in_waiters_of in Hu. apply (wf_waiters sh W k u Hu).
    + exact S1.
    + exists o'. split; [exact H1|]. split; [exact H2 | exact H3].
  - (* pulse *)
    inversion H; subst. clear H.
    destruct (SimO_wakes (Some t) sh' (waiters_of k sh') e o) as [o' [H1 [H2 H3]]].
    + intros u Hu. apply in_waiters_of in Hu. apply (wf_waiters sh' W k u Hu).
    + exact S.
    + exists o'. split; [exact H1|]. split; [exact H2 | exact H3].
  - (* spawn *)
    inversion H; subst. clear H. pose proof S as [A B C D E F G HH I].
    cbn [oevs oev obind]. fold (nt sh). rewrite D, Nat.eqb_refl. cbn [obind].
    set (c := nt sh).
    assert (Hcq : mem c (queue e) = false).
    { apply mem_false. intros Hin. apply B in Hin. unfold c in Hin. lia. }
    assert (Hpm : pend_mem c (o_pend o) = false) by (rewrite (RepQ_mem _ _ _ A); exact Hcq).
    destruct (o_wake_fields o c) as [W1 [W2 [W3 [W4 [W5 [W6 [W7 [W8 W9]]]]]]]].
    eexists. split; [reflexivity|].
    set (sh1 := add_task (script_of scripts s) sh).
    assert (Ht1 : t < nt sh1) by (unfold sh1; rewrite nt_add_task; lia).
    split.
    + cbn [fold_left apply_effect]. constructor; cbn [o_clock o_pend o_done o_vals o_deliv o_join o_flags o_block o_next];
        cbn [enqueue queue ntasks dones].
      * pose proof (RepQ_wake _ _ c A) as R. rewrite Hcq in R. rewrite E. exact R.
      * intros u Hu. apply in_app_or in Hu. destruct Hu as [Hu|[<-|[]]]; [apply B in Hu; lia | lia].
      * intros u. rewrite W1. apply C.
      * rewrite W7, nt_set_recvs. unfold sh1. rewrite nt_add_task, D. reflexivity.
      * rewrite nt_set_recvs. unfold sh1. rewrite nt_add_task, E. reflexivity.
      * rewrite W5. exact F.
      * intros r Hr. rewrite nt_set_recvs in Hr. unfold sh1 in Hr. rewrite nt_add_task in Hr.
        rewrite rel_set_recvs. unfold relO. rewrite W2, W3, W4. unfold sh1. rewrite get_add_task.
        destruct (Nat.ltb_spec r (nt sh)) as [L|L]; [apply G; exact L|].
        assert (r = nt sh) by lia. subst r. rewrite Nat.eqb_refl. cbn. apply HH. apply le_n.
      * intros r Hr. rewrite nt_set_recvs in Hr. unfold sh1 in Hr. rewrite nt_add_task in Hr.
        rewrite W2, W3, W4. apply HH. lia.
      * intros u Hu Hcur Hd. rewrite nt_set_recvs in Hu. unfold sh1 in Hu. rewrite nt_add_task in Hu.
        destruct (Nat.lt_ge_cases u (nt sh)) as [L|L].
        -- destruct (I u L Hcur Hd) as [J|J]; [left; apply in_or_app; left; exact J|].
           right. unfold blockO in *. rewrite W6.
           assert (Nu : u <> t) by (intros ->; apply Hcur; reflexivity).
           rewrite pc_set_recvs, recvs_set_recvs_other by exact Nu. unfold sh1.
           rewrite get_add_task_old by exact L. exact J.
        -- left. apply in_or_app. right. left. rewrite E. fold c. unfold c. lia.
    + unfold o_frame. cbn. rewrite W8, W9, W6, W1. repeat split; reflexivity.
  - (* join *)
    destruct (my_recvs sh t) as [|r rv'] eqn:Hrv.
    + inversion H; subst. exists o. split; [reflexivity|]. split; [exact S | apply o_frame_refl].
    + destruct (relay_poll_cases (rel (get_task sh r)) t) as [[_ E]|[[v [Ev E]]|[_ E]]];
        rewrite E in H; try discriminate.
      inversion H; subst. clear H.
      destruct (SimO_receive e sh o t r rv' v W Ht Hrv Ev S) as [X1 X2].
      cbn [oevs oev obind]. rewrite X1. cbn. rewrite N.eqb_refl. cbn.
      exists (o_deliver o r). split; [reflexivity|]. split; [exact X2 | repeat split; reflexivity].
  - (* try *)
    destruct (my_recvs sh t) as [|r rv'] eqn:Hrv.
    + inversion H; subst. exists o. split; [reflexivity|]. split; [exact S | apply o_frame_refl].
    + destruct (relay_try_cases (rel (get_task sh r))) as [[v [Ev E]]|[res [E Hres]]]; rewrite E in H.
      * inversion H; subst. clear H.
        destruct (SimO_receive e sh o t r rv' v W Ht Hrv Ev S) as [X1 X2].
        cbn [oevs oev obind]. rewrite X1. cbn. rewrite N.eqb_refl. cbn.
        exists (o_deliver o r). split; [reflexivity|]. split; [exact X2 | repeat split; reflexivity].
      * (* not there yet *)
        unfold my_recvs in Hrv.
        assert (Hr : t < r /\ r < nt sh /\ rel (get_task sh r) <> RlDone).
        { apply (wf_recv sh W t r). rewrite Hrv. left. reflexivity. }
        destruct Hr as [_ [Hrn Hnd]].
        assert (Hres' : res = TNotSent /\ expected_try o r = TNotSent).
        { pose proof (so_rel _ _ _ _ S r Hrn) as Gr. unfold expected_try.
          destruct (rel (get_task sh r)) as [|w|v|]; cbn in E; inversion E; subst; cbn in Gr.
          - destruct Gr as [G1 [G2 _]]. rewrite G2, G1. split; reflexivity.
          - destruct Gr as [G1 [G2 _]]. rewrite G2, G1. split; reflexivity.
          - exfalso. apply Hnd. reflexivity. }
        destruct Hres' as [-> Hex]. inversion H; subst. clear H.
        cbn [oevs oev obind]. rewrite Hex. cbn.
        exists o. split; [reflexivity|]. split; [|apply o_frame_refl].
        revert S. apply SimO_sh_same.
        -- apply nt_set_rel.
        -- reflexivity.
        -- intros u. apply pc_set_rel.
        -- intros u. apply recvs_set_rel.
        -- intros u. destruct (Nat.eq_dec u r) as [->|N].
           ++ rewrite get_set_rel, Nat.eqb_refl. destruct (Nat.ltb r (nt sh)); reflexivity.
           ++ apply rel_set_rel_other. exact N.
  - discriminate.
Qed.
