(* C15 — Level B, part 3: what one poll of a script task does to the shared
   state, as seen by the other tasks (relation [Ext]), and how it ends
   ([Stop]). *)
From Yv Require Import Common.Base C15.Model C15.Spec C15.ProofsA C15.ProofsB1 C15.ProofsB2.
From Coq Require Import Arith.

Definition is_spawn (f : effect) : bool := match f with FSpawn => true | _ => false end.
Definition count_spawn (effs : list effect) : nat := length (filter is_spawn effs).

Lemma count_spawn_app a b : count_spawn (a ++ b) = count_spawn a + count_spawn b.
Proof. unfold count_spawn. rewrite filter_app, app_length. reflexivity. Qed.

Lemma count_spawn_wakes ws : count_spawn (map FWake ws) = 0.
Proof. induction ws as [|w ws IH]; [reflexivity | exact IH]. Qed.

Lemma in_map_FWake u ws : In (FWake u) (map FWake ws) <-> In u ws.
Proof.
  rewrite in_map_iff. split.
  - intros [x [E H]]. inversion E; subst. exact H.
  - intros H. exists u. split; [reflexivity | exact H].
Qed.

Record Ext (t : tid) (sh sh' : shared) (effs : list effect) : Prop := {
  ex_nt : nt sh' = nt sh + count_spawn effs;
  ex_pc : forall u, u < nt sh -> pc (get_task sh' u) = pc (get_task sh u);
  ex_recvs : forall u, u < nt sh -> u <> t -> recvs (get_task sh' u) = recvs (get_task sh u);
  ex_myrecvs : forall r, In r (recvs (get_task sh' t)) -> In r (recvs (get_task sh t)) \/ nt sh <= r;
  ex_flags : incl (flags sh) (flags sh');
  ex_waiters : waiters sh' = waiters sh;
  ex_rel : forall u, u < nt sh -> ~ In u (recvs (get_task sh t)) ->
             rel (get_task sh' u) = rel (get_task sh u);
  ex_fin : forall u, u < nt sh -> fin_rel (rel (get_task sh' u)) = fin_rel (rel (get_task sh u));
  ex_new : forall u, nt sh <= u -> u < nt sh' -> fin_rel (rel (get_task sh' u)) = false;
  ex_wake_flag : forall k u, In k (flags sh') -> ~ In k (flags sh) -> In (k, u) (waiters sh) ->
                   In (FWake u) effs;
  ex_wake_src : forall u, In (FWake u) effs -> exists k, In (k, u) (waiters sh)
}.

Lemma Ext_refl t sh : Ext t sh sh [].
Proof.
  constructor; try reflexivity.
  - cbn. lia.
  - intros r H. left. exact H.
  - apply incl_refl.
  - intros u H1 H2. lia.
  - intros k u H1 H2. contradiction.
  - intros u [].
Qed.

Lemma Ext_trans t sh sh1 sh2 e1 e2 :
  Ext t sh sh1 e1 -> Ext t sh1 sh2 e2 -> Ext t sh sh2 (e1 ++ e2).
Proof.
  intros A B.
  assert (Hle : nt sh <= nt sh1) by (rewrite (ex_nt _ _ _ _ A); lia).
  constructor.
  - rewrite (ex_nt _ _ _ _ B), (ex_nt _ _ _ _ A), count_spawn_app. lia.
  - intros u H. rewrite (ex_pc _ _ _ _ B) by lia. apply (ex_pc _ _ _ _ A). exact H.
  - intros u H E. rewrite (ex_recvs _ _ _ _ B) by (lia || exact E). apply (ex_recvs _ _ _ _ A); assumption.
  - intros r H. destruct (ex_myrecvs _ _ _ _ B r H) as [H1|H1].
    + apply (ex_myrecvs _ _ _ _ A). exact H1.
    + right. lia.
  - eapply incl_tran; [apply (ex_flags _ _ _ _ A) | apply (ex_flags _ _ _ _ B)].
  - rewrite (ex_waiters _ _ _ _ B). apply (ex_waiters _ _ _ _ A).
  - intros u H Hn. rewrite (ex_rel _ _ _ _ B).
    + apply (ex_rel _ _ _ _ A); assumption.
    + lia.
    + intros Hin. destruct (ex_myrecvs _ _ _ _ A u Hin) as [H1|H1]; [exact (Hn H1) | lia].
  - intros u H. rewrite (ex_fin _ _ _ _ B) by lia. apply (ex_fin _ _ _ _ A). exact H.
  - intros u H1 H2. destruct (Nat.lt_ge_cases u (nt sh1)) as [L|L].
    + rewrite (ex_fin _ _ _ _ B) by exact L. apply (ex_new _ _ _ _ A); assumption.
    + apply (ex_new _ _ _ _ B); assumption.
  - intros k u H2 H0 Hw. apply in_or_app.
    destruct (in_dec Nat.eq_dec k (flags sh1)) as [H1|H1].
    + left. apply (ex_wake_flag _ _ _ _ A k u); assumption.
    + right. apply (ex_wake_flag _ _ _ _ B k u); [exact H2 | exact H1|].
      rewrite (ex_waiters _ _ _ _ A). exact Hw.
  - intros u H. apply in_app_or in H. destruct H as [H|H].
    + apply (ex_wake_src _ _ _ _ A). exact H.
    + destruct (ex_wake_src _ _ _ _ B u H) as [k Hk]. exists k.
      rewrite (ex_waiters _ _ _ _ A) in Hk. exact Hk.
Qed.

(* a change of relays of receivers of t that keeps their finished-ness, and
   possibly drops some of the receivers of t *)
Lemma Ext_relays t sh sh' :
  nt sh' = nt sh ->
  (forall u, pc (get_task sh' u) = pc (get_task sh u)) ->
  (forall u, u <> t -> recvs (get_task sh' u) = recvs (get_task sh u)) ->
  (forall r, In r (recvs (get_task sh' t)) -> In r (recvs (get_task sh t))) ->
  flags sh' = flags sh -> waiters sh' = waiters sh ->
  (forall u, ~ In u (recvs (get_task sh t)) -> rel (get_task sh' u) = rel (get_task sh u)) ->
  (forall u, fin_rel (rel (get_task sh' u)) = fin_rel (rel (get_task sh u))) ->
  Ext t sh sh' [].
Proof.
  intros H1 H2 H3 H4 H5 H6 H7 H8. constructor.
  - cbn. lia.
  - intros u _. apply H2.
  - intros u _ E. apply H3. exact E.
  - intros r H. left. apply H4. exact H.
  - rewrite H5. apply incl_refl.
  - exact H6.
  - intros u _ H. apply H7. exact H.
  - intros u _. apply H8.
  - intros u A B. lia.
  - intros k u A B. rewrite H5 in A. contradiction.
  - intros u [].
Qed.

Lemma Ext_receive t sh r rv' :
  WF sh -> t < nt sh -> my_recvs sh t = r :: rv' -> fin_rel (rel (get_task sh r)) = true ->
  Ext t sh (set_recvs t rv' (set_rel r RlDone sh)) [].
Proof.
  intros W Ht Hrv Hfin. unfold my_recvs in Hrv.
  assert (Ht' : t < nt (set_rel r RlDone sh)) by (rewrite nt_set_rel; exact Ht).
  apply Ext_relays.
  - rewrite nt_set_recvs, nt_set_rel. reflexivity.
  - intros u. rewrite pc_set_recvs, pc_set_rel. reflexivity.
  - intros u E. rewrite recvs_set_recvs_other, recvs_set_rel by exact E. reflexivity.
  - intros x H. rewrite recvs_set_recvs_same in H by exact Ht'. rewrite Hrv. right. exact H.
  - reflexivity.
  - reflexivity.
  - intros u H. rewrite rel_set_recvs. apply rel_set_rel_other. intros ->. apply H.
    rewrite Hrv. left. reflexivity.
  - intros u. rewrite rel_set_recvs. destruct (Nat.eq_dec u r) as [->|E].
    + rewrite get_set_rel, Nat.eqb_refl. destruct (Nat.ltb r (nt sh)); cbn; [symmetry; exact Hfin | reflexivity].
    + rewrite rel_set_rel_other by exact E. reflexivity.
Qed.

Lemma Ext_set_rel_id t sh r : Ext t sh (set_rel r (rel (get_task sh r)) sh) [].
Proof.
  assert (E : forall u, rel (get_task (set_rel r (rel (get_task sh r)) sh) u) = rel (get_task sh u)).
  { intros u. destruct (Nat.eq_dec u r) as [->|E].
    - rewrite get_set_rel, Nat.eqb_refl. destruct (Nat.ltb r (nt sh)); reflexivity.
    - apply rel_set_rel_other. exact E. }
  apply Ext_relays.
  - apply nt_set_rel.
  - intros u. apply pc_set_rel.
  - intros u _. apply recvs_set_rel.
  - intros x H. rewrite recvs_set_rel in H. exact H.
  - reflexivity.
  - reflexivity.
  - intros u _. apply E.
  - intros u. rewrite E. reflexivity.
Qed.

Lemma do_action_next_Ext scripts t sh a rest sh' evs effs :
  WF sh -> t < nt sh -> do_action scripts t sh a rest = CNext sh' evs effs ->
  Ext t sh sh' effs.
Proof.
  intros W Ht H. destruct a as [n|k|k|k|s| | |v]; cbn [do_action] in H.
  - discriminate.
  - destruct (mem k (flags sh)); [|discriminate]. inversion H; subst. apply Ext_refl.
  - (* signal *)
    inversion H; subst. constructor; try reflexivity.
    + rewrite count_spawn_wakes. unfold nt. cbn. lia.
    + intros r Hr. left. exact Hr.
    + cbn. intros x Hx. right. exact Hx.
    + intros u H1 H2. unfold nt in *. cbn in H2. lia.
    + intros k' u H1 H0 Hw. cbn in H1. destruct H1 as [<-|H1]; [|contradiction].
      apply in_map_FWake. apply in_waiters_of. exact Hw.
    + intros u Hu. apply in_map_FWake in Hu. apply in_waiters_of in Hu. exists k. exact Hu.
  - (* pulse *)
    inversion H; subst. constructor; try reflexivity.
    + rewrite count_spawn_wakes. lia.
    + intros r Hr. left. exact Hr.
    + apply incl_refl.
    + intros u H1 H2. lia.
    + intros k' u H1 H0. contradiction.
    + intros u Hu. apply in_map_FWake in Hu. apply in_waiters_of in Hu. exists k. exact Hu.
  - (* spawn *)
    inversion H; subst. clear H.
    assert (Ht1 : t < nt (add_task (script_of scripts s) sh)) by (rewrite nt_add_task; lia).
    constructor.
    + rewrite nt_set_recvs, nt_add_task. cbn. lia.
    + intros u Hu. rewrite pc_set_recvs, get_add_task_old by exact Hu. reflexivity.
    + intros u Hu E. rewrite recvs_set_recvs_other, get_add_task_old by assumption. reflexivity.
    + intros r Hr. rewrite recvs_set_recvs_same in Hr by exact Ht1. apply in_app_iff in Hr.
      destruct Hr as [Hr|[Hr|[]]]; [left; exact Hr | right; fold (nt sh) in Hr; lia].
    + apply incl_refl.
    + reflexivity.
    + intros u Hu _. rewrite rel_set_recvs, get_add_task_old by exact Hu. reflexivity.
    + intros u Hu. rewrite rel_set_recvs, get_add_task_old by exact Hu. reflexivity.
    + intros u H1 H2. rewrite nt_set_recvs, nt_add_task in H2. assert (u = nt sh) by lia. subst u.
      rewrite rel_set_recvs, get_add_task_new. reflexivity.
    + intros k u H1 H0. contradiction.
    + intros u [Hu|[]]. discriminate.
  - (* join *)
    destruct (my_recvs sh t) as [|r rv'] eqn:Hrv.
    + inversion H; subst. apply Ext_refl.
    + destruct (relay_poll_cases (rel (get_task sh r)) t) as [[_ E]|[[v [Ev E]]|[_ E]]];
        rewrite E in H; try discriminate.
      inversion H; subst. eapply Ext_receive; try eassumption. rewrite Ev. reflexivity.
  - (* try *)
    destruct (my_recvs sh t) as [|r rv'] eqn:Hrv.
    + inversion H; subst. apply Ext_refl.
    + destruct (relay_try_cases (rel (get_task sh r))) as [[v [Ev E]]|[res [E Hres]]]; rewrite E in H.
      * inversion H; subst. eapply Ext_receive; try eassumption. rewrite Ev. reflexivity.
      * destruct res; try (exfalso; eapply Hres; reflexivity);
          inversion H; subst; apply Ext_set_rel_id.
  - discriminate.
Qed.

(* the same actions, seen through the events they report: a value is taken
   out of a relay exactly when a delivery event is reported, and it is the
   value the relay held *)
Lemma deliv_events_app r a b : deliv_events r (a ++ b) = deliv_events r a ++ deliv_events r b.
Proof.
  induction a as [|e a IH]; [reflexivity|]. destruct e as [| | | | |r' v|r' res|]; cbn; try exact IH.
  - destruct (Nat.eqb r' r); cbn; rewrite IH; reflexivity.
  - destruct res; try exact IH. destruct (Nat.eqb r' r); cbn; rewrite IH; reflexivity.
Qed.

Lemma complete_events_app a b : complete_events (a ++ b) = complete_events a ++ complete_events b.
Proof.
  induction a as [|e a IH]; [reflexivity|]. destruct e; cbn; try exact IH. rewrite IH. reflexivity.
Qed.

Lemma deliv_events_wakes r ws : deliv_events r (map PWake ws) = [].
Proof. induction ws as [|w ws IH]; [reflexivity | exact IH]. Qed.

Lemma complete_events_wakes ws : complete_events (map PWake ws) = [].
Proof. induction ws as [|w ws IH]; [reflexivity | exact IH]. Qed.

Record ExtD (sh sh' : shared) (evs : list pevent) : Prop := {
  ed_old : forall r, r < nt sh ->
             (deliv_events r evs = [] /\ rel (get_task sh' r) = rel (get_task sh r)) \/
             (exists v, deliv_events r evs = [v] /\ rel (get_task sh r) = RlComputed v /\
                        rel (get_task sh' r) = RlDone);
  ed_new : forall r, nt sh <= r -> deliv_events r evs = [];
  ed_nocomplete : complete_events evs = []
}.

Lemma ExtD_refl sh : ExtD sh sh [].
Proof. constructor; [intros r _; left; split; reflexivity | reflexivity | reflexivity]. Qed.

Lemma ExtD_same sh sh' evs :
  (forall r, rel (get_task sh' r) = rel (get_task sh r)) ->
  (forall r, deliv_events r evs = []) -> complete_events evs = [] -> ExtD sh sh' evs.
Proof.
  intros H1 H2 H3. constructor; [intros r _; left; split; [apply H2 | apply H1] | intros r _; apply H2 | exact H3].
Qed.

Lemma ExtD_trans t sh sh1 sh2 e1 e2 f1 :
  Ext t sh sh1 f1 -> ExtD sh sh1 e1 -> ExtD sh1 sh2 e2 -> ExtD sh sh2 (e1 ++ e2).
Proof.
  intros X A B.
  assert (Hle : nt sh <= nt sh1) by (rewrite (ex_nt _ _ _ _ X); lia).
  constructor.
  - intros r Hr. rewrite deliv_events_app.
    destruct (ed_old _ _ _ A r Hr) as [[A1 A2]|[v [A1 [A2 A3]]]];
      (destruct (ed_old _ _ _ B r) as [[B1 B2]|[v' [B1 [B2 B3]]]]; [lia| |]).
    + left. rewrite A1, B1, B2, A2. split; reflexivity.
    + right. exists v'. rewrite A1, B1. split; [reflexivity|]. split; [rewrite <- A2; exact B2 | exact B3].
    + right. exists v. rewrite A1, B1, B2. split; [reflexivity|]. split; assumption.
    + rewrite A3 in B2. discriminate.
  - intros r Hr. rewrite deliv_events_app, (ed_new _ _ _ A r Hr). cbn.
    destruct (Nat.lt_ge_cases r (nt sh1)) as [L|L]; [|apply (ed_new _ _ _ B); exact L].
    destruct (ed_old _ _ _ B r L) as [[B1 _]|[v [_ [B2 _]]]]; [exact B1|].
    pose proof (ex_new _ _ _ _ X r Hr L) as F. rewrite B2 in F. discriminate.
  - rewrite complete_events_app, (ed_nocomplete _ _ _ A), (ed_nocomplete _ _ _ B). reflexivity.
Qed.

Lemma ExtD_receive t sh r rv' v evs :
  WF sh -> t < nt sh -> my_recvs sh t = r :: rv' -> rel (get_task sh r) = RlComputed v ->
  (forall x, deliv_events x evs = if Nat.eqb r x then [v] else []) -> complete_events evs = [] ->
  ExtD sh (set_recvs t rv' (set_rel r RlDone sh)) evs.
Proof.
  intros W Ht Hrv Hc Hev Hce. unfold my_recvs in Hrv.
  assert (Hrn : r < nt sh).
  { destruct (wf_recv sh W t r) as [_ [B _]]; [rewrite Hrv; left; reflexivity | exact B]. }
  constructor.
  - intros x Hx. rewrite Hev, rel_set_recvs. destruct (Nat.eqb_spec r x) as [<-|N].
    + right. exists v. split; [reflexivity|]. split; [exact Hc | apply rel_set_rel_same; exact Hrn].
    + left. split; [reflexivity|]. apply rel_set_rel_other. intros ->. apply N. reflexivity.
  - intros x Hx. rewrite Hev. destruct (Nat.eqb_spec r x) as [<-|N]; [lia | reflexivity].
  - exact Hce.
Qed.

Lemma do_action_next_ExtD scripts t sh a rest sh' evs effs :
  WF sh -> t < nt sh -> do_action scripts t sh a rest = CNext sh' evs effs -> ExtD sh sh' evs.
Proof.
  intros W Ht H. destruct a as [n|k|k|k|s| | |v]; cbn [do_action] in H.
  - discriminate.
  - destruct (mem k (flags sh)); [|discriminate]. inversion H; subst. apply ExtD_refl.
  - inversion H; subst. apply ExtD_same; [reflexivity | intros r; cbn; apply deliv_events_wakes |
      cbn; apply complete_events_wakes].
  - inversion H; subst. apply ExtD_same; [reflexivity | intros r; apply deliv_events_wakes |
      apply complete_events_wakes].
  - inversion H; subst. constructor.
    + intros r Hr. left. split; [reflexivity|]. rewrite rel_set_recvs, get_add_task_old by exact Hr. reflexivity.
    + intros r _. reflexivity.
    + reflexivity.
  - destruct (my_recvs sh t) as [|r rv'] eqn:Hrv.
    + inversion H; subst. apply ExtD_refl.
    + destruct (relay_poll_cases (rel (get_task sh r)) t) as [[_ E]|[[v [Ev E]]|[_ E]]];
        rewrite E in H; try discriminate.
      inversion H; subst. eapply ExtD_receive; try eassumption; [|reflexivity].
      intros x. cbn. destruct (Nat.eqb r x); reflexivity.
  - destruct (my_recvs sh t) as [|r rv'] eqn:Hrv.
    + inversion H; subst. apply ExtD_refl.
    + destruct (relay_try_cases (rel (get_task sh r))) as [[v [Ev E]]|[res [E Hres]]]; rewrite E in H.
      * inversion H; subst. eapply ExtD_receive; try eassumption; [|reflexivity].
        intros x. cbn. destruct (Nat.eqb r x); reflexivity.
      * assert (Hid : forall x, rel (get_task (set_rel r (rel (get_task sh r)) sh) x) = rel (get_task sh x)).
        { intros x. destruct (Nat.eq_dec x r) as [->|N].
          - rewrite get_set_rel, Nat.eqb_refl. destruct (Nat.ltb r (nt sh)); reflexivity.
          - apply rel_set_rel_other. exact N. }
        destruct res; try (exfalso; eapply Hres; reflexivity);
          inversion H; subst; (apply ExtD_same; [exact Hid | intros x; reflexivity | reflexivity]).
  - discriminate.
Qed.

(* how a poll ends, from the state [shl] reached by the actions before *)
Inductive Stop (t : tid) (shl : shared) : pres -> Prop :=
| StComplete v : Stop t shl (complete t v shl)
| StYield n rest :
    Stop t shl (mkPres shl rest (repeat (PWake t) (S n)) (repeat (FWake t) (S n)) OPend)
| StWait k rest :
    mem k (flags shl) = false ->
    Stop t shl (mkPres (add_waiter k t shl) (AWait k :: rest) [PReg k] [] OPend)
| StJoin r rv' rest :
    my_recvs shl t = r :: rv' -> waiting_rel (rel (get_task shl r)) ->
    Stop t shl (mkPres (set_rel r (RlPolled t) shl) (AJoin :: rest) [PJoinReg r] [] OPend).

Lemma emit_emit e1 f1 e2 f2 r : emit e1 f1 (emit e2 f2 r) = emit (e1 ++ e2) (f1 ++ f2) r.
Proof. unfold emit. cbn. rewrite !app_assoc. reflexivity. Qed.

Lemma emit_nil r : emit [] [] r = r.
Proof. destruct r; reflexivity. Qed.

Lemma do_action_stop scripts t sh a rest r :
  WF sh -> t < nt sh -> do_action scripts t sh a rest = CStop r -> Stop t sh r.
Proof.
  intros W Ht H. destruct a as [n|k|k|k|s| | |v]; cbn [do_action] in H.
  - inversion H; subst. apply StYield.
  - destruct (mem k (flags sh)) eqn:Hm; [discriminate|]. inversion H; subst. apply StWait. exact Hm.
  - discriminate.
  - discriminate.
  - discriminate.
  - destruct (my_recvs sh t) as [|x rv'] eqn:Hrv; [discriminate|].
    destruct (relay_poll_cases (rel (get_task sh x)) t) as [[Hw E]|[[v [_ E]]|[Hd E]]];
      rewrite E in H; try discriminate.
    + inversion H; subst. eapply StJoin; eassumption.
    + exfalso. unfold my_recvs in Hrv.
      destruct (wf_recv sh W t x) as [_ [_ Hnd]]; [rewrite Hrv; left; reflexivity|].
      exact (Hnd Hd).
  - destruct (my_recvs sh t) as [|x rv'] eqn:Hrv; [discriminate|].
    destruct (relay_try (rel (get_task sh x))) as [r' res]. destruct res; discriminate.
  - inversion H; subst. apply StComplete.
Qed.

Lemma poll_loop_sum scripts t : forall acts sh, WF sh -> t < nt sh ->
  exists shl effs1 evs1 rl,
    Ext t sh shl effs1 /\ ExtD sh shl evs1 /\ WF shl /\
    poll_loop scripts t sh acts = emit evs1 effs1 rl /\ Stop t shl rl.
Proof.
  induction acts as [|a rest IH]; intros sh W Ht.
  - exists sh, [], [], (complete t 0%N sh). split; [apply Ext_refl|]. split; [apply ExtD_refl|].
    split; [exact W|]. split; [cbn; rewrite emit_nil; reflexivity | apply StComplete].
  - cbn [poll_loop]. destruct (do_action scripts t sh a rest) as [sh' evs effs|r] eqn:Ha.
    + destruct (do_action_next_WF _ _ _ _ _ _ _ _ W Ht Ha) as [W' Hle].
      pose proof (do_action_next_Ext _ _ _ _ _ _ _ _ W Ht Ha) as E1.
      pose proof (do_action_next_ExtD _ _ _ _ _ _ _ _ W Ht Ha) as D1.
      destruct (IH sh' W') as [shl [effs1 [evs1 [rl [E2 [D2 [Wl [Hp Hs]]]]]]]]; [lia|].
      exists shl, (effs ++ effs1), (evs ++ evs1), rl.
      split; [eapply Ext_trans; eassumption|].
      split; [eapply ExtD_trans; eassumption|]. split; [exact Wl|].
      split; [rewrite Hp, emit_emit; reflexivity | exact Hs].
    + exists sh, [], [], r. split; [apply Ext_refl|]. split; [apply ExtD_refl|]. split; [exact W|].
      split; [rewrite emit_nil; reflexivity|]. eapply do_action_stop; eassumption.
Qed.
