(* C15 — proofs: collected. *)
From Yv Require Export C15.ProofsA C15.ProofsR C15.ProofsB5 C15.ProofsB6 C15.ProofsQ C15.ProofsO4 C15.ProofsO5 C15.ProofsT C15.Examples.
