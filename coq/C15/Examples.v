(* C15 — non-vacuity: concrete states that satisfy the hypotheses of the
   implication-shaped theorems. *)
From Yv Require Import Common.Base C15.Model C15.Spec.

(* three tasks queued; the first keeps re-waking itself and the second wakes
   everybody twice: the third is taken by the third step all the same *)
Definition ex_mach : mach := mrun mach0 [OpSpawn; OpSpawn; OpSpawn].
Definition ex_behs : list behaviour :=
  [fun t => ([FWake t; FWake t; FSpawn], false); fun _ => ([FWake 0; FWake 1; FWake 2; FWake 2], false)].

Example ex_fifo_hyp :
  running ex_mach = None /\ nth_error (queue (mex ex_mach)) (length ex_behs) = Some 2.
Proof. vm_compute. split; reflexivity. Qed.

Example ex_fifo_concl : queue (mex (gsteps ex_mach ex_behs)) = [2; 0; 3; 1].
Proof. vm_compute. reflexivity. Qed.

(* a task finished and was woken again afterwards: skipped, not polled *)
Definition ex_ops : list op :=
  [OpSpawn; OpSpawn; OpBegin; OpWake 0; OpWake 0; OpEnd true; OpBegin; OpWake 0; OpEnd false; OpBegin; OpBegin].

Example ex_trace : rev (trace (mrun mach0 ex_ops)) =
  [GEnq 0; GEnq 1; GBegin 0; GWake 0; GWake 0; GEnd 0 true; GBegin 1; GWake 0; GEnd 1 false;
   GSkip 0; GIdle].
Proof. vm_compute. reflexivity. Qed.

Example ex_pending_hyp :
  pending_wake 0 (trace (mrun mach0 [OpSpawn; OpSpawn; OpBegin; OpWake 0])) = true /\
  running (mrun mach0 [OpSpawn; OpSpawn; OpBegin; OpWake 0; OpEnd false]) = None.
Proof. vm_compute. split; reflexivity. Qed.

(* a stall with two unfinished tasks: #0 waits on a flag nobody sets, #1 awaits #0 *)
Definition ex_scripts : list script := [[AWait 0; ADone 1%N]; [ASpawn 0; AJoin; ADone 2%N]].
Definition ex_plan : list xact := [XSpawn 1; XDrain].
Definition ex_stalled : sys := fst (sys_plan 100 ex_scripts sys0 ex_plan).

Example ex_stall_hyp :
  queue (sx ex_stalled) = [] /\ ntasks (sx ex_stalled) = 2 /\ dones (sx ex_stalled) = [].
Proof. vm_compute. repeat split; reflexivity. Qed.

Example ex_stall_polled : rel (get_task (ss ex_stalled) 1) = RlPolled 0.
Proof. vm_compute. reflexivity. Qed.

(* relay protocol: polled twice, then the send, then three receive attempts *)
Example ex_relay :
  relay_run RlPending ([RPoll 3; RTry; RPoll 4] ++ RSend 7%N :: [RTry; RTry]) =
  [RoPending; RoTry TNotSent; RoPending; RoSent (Some 4); RoTry (TOk 7%N); RoTry TAlready].
Proof. vm_compute. reflexivity. Qed.

Example ex_relay_hyp : no_send [RPoll 3; RTry; RPoll 4] /\ no_send [RTry; RTry].
Proof. split; reflexivity. Qed.

(* a run in which a result is received (by join) and another one by the driver *)
Definition ex_join_scripts : list script := [[ASpawn 1; AJoin; ADone 5%N]; [AYield 0; ADone 7%N]].
Definition ex_join_log : list rec := snd (sys_plan 100 ex_join_scripts sys0 [XSpawn 0; XRun]).

Example ex_join_deliv :
  log_complete 1 ex_join_log = [7%N] /\ log_deliv 1 ex_join_log = [7%N] /\
  log_complete 0 ex_join_log = [5%N] /\ log_deliv 0 ex_join_log = [] /\
  final_obs (fst (sys_plan 100 ex_join_scripts sys0 [XSpawn 0; XRun])) [0] = [(0, (TOk 5%N, TAlready))].
Proof. vm_compute. repeat split; reflexivity. Qed.

(* the executor stalls with an unfinished task that nobody woke *)
Example ex_stallA_hyp :
  queue (mex (mrun mach0 [OpSpawn; OpBegin; OpEnd false])) = [] /\
  dones (mex (mrun mach0 [OpSpawn; OpBegin; OpEnd false])) = [].
Proof. vm_compute. split; reflexivity. Qed.

(* the two scheduler machines on a sequence with duplicate wakes *)
Example ex_sched :
  s_run (0, []) [QWake 2; QWake 5; QWake 2; QTake; QWake 2; QTake; QTake; QTake] =
  [None; None; None; Some 2; None; Some 5; Some 2; None].
Proof. vm_compute. reflexivity. Qed.

(* a certificate for a table whose scripts spawn downwards (not covered by
   [wtable], covered by [fuel_suffices]) *)
Example ex_cert : cert ex_scripts (fun s => match s with 0 => 2 | 1 => 7 | _ => 0 end).
Proof. intros [|[|s]]; vm_compute; try lia. destruct s; vm_compute; lia. Qed.

(* a script that spawns itself: the budget is exhausted *)
Example ex_self_spawn :
  existsb (fun r => match r with LFuel => true | _ => false end)
          (fst (model_run 60 [[ASpawn 0]] [XSpawn 0; XRun])) = true.
Proof. vm_compute. reflexivity. Qed.

Example ex_wtable : spawns_up ex_join_scripts /\ fuel_bound (wtable ex_join_scripts) [XSpawn 0; XRun] = 64.
Proof.
  split; [|vm_compute; reflexivity].
  intros [|[|i]] s H; cbn in H.
  - destruct H as [H|[H|[H|[]]]]; inversion H. lia.
  - destruct H as [H|[H|[]]]; inversion H.
  - destruct i; destruct H.
Qed.
