(* C15 — what the correspondence check evaluates on every case. *)
From Yv Require Export Common.Base C15.Model C15.Spec.

(* One case: (step budget, script table, what the driver does), and what the
   harness logged while the real executor ran: the records and the answers of
   the driver's receivers (each asked twice). *)
Definition case :=
  ((nat * list script * list xact) * (list rec * list (tid * (tryres * tryres))))%type.

Definition pevent_eqb (a b : pevent) : bool :=
  match a, b with
  | PWake x, PWake y => Nat.eqb x y
  | PSpawn c s, PSpawn d u => Nat.eqb c d && Nat.eqb s u
  | PSet x, PSet y => Nat.eqb x y
  | PReg x, PReg y => Nat.eqb x y
  | PJoinReg x, PJoinReg y => Nat.eqb x y
  | PGot r v, PGot q w => Nat.eqb r q && N.eqb v w
  | PTry r x, PTry q y => Nat.eqb r q && tryres_eqb x y
  | PComplete v, PComplete w => N.eqb v w
  | _, _ => false
  end.

Definition rec_eqb (a b : rec) : bool :=
  match a, b with
  | LExt x, LExt y => list_eqb pevent_eqb x y
  | LPoll t x r, LPoll u y q => Nat.eqb t u && list_eqb pevent_eqb x y && Bool.eqb r q
  | LStep r w, LStep q v => option_eqb Bool.eqb r q && Nat.eqb w v
  | LRun n w, LRun m v => Nat.eqb n m && Nat.eqb w v
  | LPanic, LPanic | LNested, LNested | LFuel, LFuel => true
  | _, _ => false
  end.

Definition obs_eqb (a b : list (tid * (tryres * tryres))) : bool :=
  list_eqb (pair_eqb Nat.eqb (pair_eqb tryres_eqb tryres_eqb)) a b.

Definition is_fuel (r : rec) : bool := match r with LFuel => true | _ => false end.

Definition run_case (c : case) : verdict :=
  let '((fuel, scripts, plan), (log, obs)) := c in
  (* oracle first, on the implementation's log only *)
  match oracle log obs with
  | Some k => (2 + k)%N
  | None =>
      let (mlog, mobs) := model_run fuel scripts plan in
      if existsb is_fuel mlog then 99%N
      else if list_eqb rec_eqb mlog log && obs_eqb mobs obs then 0%N
      else 1%N
  end.

Definition run_cases := run_cases_with run_case.
