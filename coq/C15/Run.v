(* C15 — what the correspondence check evaluates on every case. *)
From Yv Require Export Common.Base C15.Model C15.Spec.

(* A case is one of:
   - a script system: (step budget, script table, what the driver does), and
     what the harness logged while the real executor ran: the records and the
     answers of the driver's receivers (each asked twice);
   - the same, after which the driver dropped the Executor, tried to spawn and
     to wake ([tail] and what happened), and then asked its receivers;
   - one Sender/Receiver pair driven directly (forwarder.rs). *)
Inductive case :=
| CSys (inp : nat * list script * list xact)
       (out : list rec * list (tid * (tryres * tryres)))
| CDead (inp : nat * list script * list xact) (tail : list dact)
        (out : list rec * list dout * list (tid * (tryres * tryres)))
| CPair (ops : list fop) (outs : list fout).

Definition pevent_eqb (a b : pevent) : bool :=
  match a, b with
  | PWake x, PWake y => Nat.eqb x y
  | PSpawn c s, PSpawn d u => Nat.eqb c d && Nat.eqb s u
  | PSet x, PSet y => Nat.eqb x y
  | PReg x, PReg y => Nat.eqb x y
  | PJoinReg x, PJoinReg y => Nat.eqb x y
  | PGot r v, PGot q w => Nat.eqb r q && N.eqb v w
  | PTry r x, PTry q y => Nat.eqb r q && tryres_eqb x y
  | PComplete v, PComplete w => N.eqb v w
  | _, _ => false
  end.

Definition rec_eqb (a b : rec) : bool :=
  match a, b with
  | LExt x, LExt y => list_eqb pevent_eqb x y
  | LPoll t x r, LPoll u y q => Nat.eqb t u && list_eqb pevent_eqb x y && Bool.eqb r q
  | LStep r w, LStep q v => option_eqb Bool.eqb r q && Nat.eqb w v
  | LRun n w, LRun m v => Nat.eqb n m && Nat.eqb w v
  | LPanic, LPanic | LNested, LNested | LFuel, LFuel => true
  | _, _ => false
  end.

Definition obs_eqb (a b : list (tid * (tryres * tryres))) : bool :=
  list_eqb (pair_eqb Nat.eqb (pair_eqb tryres_eqb tryres_eqb)) a b.

Definition is_fuel (r : rec) : bool := match r with LFuel => true | _ => false end.

Definition dout_eqb (a b : dout) : bool :=
  match a, b with
  | DoSpawnErr, DoSpawnErr | DoSpawned, DoSpawned | DoQuiet, DoQuiet | DoPanic, DoPanic => true
  | _, _ => false
  end.

Definition fout_eqb (a b : fout) : bool :=
  match a, b with
  | FoSent x, FoSent y => option_eqb Nat.eqb x y
  | FoSendErr x, FoSendErr y => N.eqb x y
  | FoPending, FoPending | FoDropped, FoDropped | FoSkip, FoSkip | FoPanic, FoPanic => true
  | FoReady x, FoReady y => N.eqb x y
  | FoTry x, FoTry y => tryres_eqb x y
  | _, _ => false
  end.

Definition run_case (c : case) : verdict :=
  match c with
  | CSys (fuel, scripts, plan) (log, obs) =>
      (* oracle first, on the implementation's log only *)
      match oracle log obs with
      | Some k => (2 + k)%N
      | None =>
          let (mlog, mobs) := model_run fuel scripts plan in
          if existsb is_fuel mlog then 99%N
          else if list_eqb rec_eqb mlog log && obs_eqb mobs obs then 0%N
          else 1%N
      end
  | CDead (fuel, scripts, plan) tail (log, outs, obs) =>
      match oracle_dead log tail outs obs with
      | Some k => (2 + k)%N
      | None =>
          match model_run_dead fuel scripts plan tail with
          | (mlog, mouts, mobs) =>
              if existsb is_fuel mlog then 99%N
              else if list_eqb rec_eqb mlog log && list_eqb dout_eqb mouts outs && obs_eqb mobs obs
                   then 0%N else 1%N
          end
      end
  | CPair ops outs =>
      if negb (Nat.eqb (length ops) (length outs) || existsb (fun o => fout_eqb o FoPanic) outs)
      then 99%N
      else if negb (f_oracle None false (combine ops outs)) then (2 + cPair)%N
      else if list_eqb fout_eqb (f_run fstate0 ops) outs then 0%N else 1%N
  end.

Definition run_cases := run_cases_with run_case.
