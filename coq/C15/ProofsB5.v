(* C15 — Level B, part 5: the invariant of the whole system is kept by every
   step and every driver action; stall theorem; no panic. *)
From Yv Require Import Common.Base C15.Model C15.Spec C15.ProofsA C15.ProofsB1 C15.ProofsB2
  C15.ProofsB3 C15.ProofsB4 C15.ProofsBR.
From Coq Require Import Arith.

Record InvB (st : sys) : Prop := {
  ib_wf : WF (ss st);
  ib_len : nt (ss st) = ntasks (sx st);
  ib_qrange : forall t, In t (queue (sx st)) -> t < ntasks (sx st);
  ib_drange : forall t, In t (dones (sx st)) -> t < ntasks (sx st);
  ib_fin : forall t, t < ntasks (sx st) ->
             (In t (dones (sx st)) <-> fin_rel (rel (get_task (ss st) t)) = true);
  ib_live : forall t, t < ntasks (sx st) -> ~ In t (dones (sx st)) ->
             In t (queue (sx st)) \/ is_blocked (ss st) t;
  ib_nopanic : spanic st = false;
  ib_reach : reach (sx st)
}.

Lemma InvB_init : InvB sys0.
Proof.
  constructor; cbn; try reflexivity.
  - apply WF_init.
  - intros t [].
  - intros t [].
  - intros t H. lia.
  - intros t H. lia.
  - apply reach_init.
Qed.

Lemma not_fin_waiting r : fin_rel r = false -> waiting_rel r.
Proof.
  destruct r; cbn; intros H; try discriminate; [left; reflexivity | right; eexists; reflexivity].
Qed.

(* one call of Executor::step keeps the invariant *)
Lemma InvB_step scripts st : InvB st -> InvB (fst (sys_step scripts st)).
Proof.
  intros I. pose proof I as [Iwf Ilen Iq Id Ifin Ilive Inp Ire].
  unfold sys_step, pop. destruct (queue (sx st)) as [|t q] eqn:Hq; [exact I|].
  set (e := mkExec q (ntasks (sx st)) (dones (sx st))).
  assert (Htn : t < ntasks (sx st)) by (apply Iq; left; reflexivity).
  unfold is_done. cbn [dones e]. destruct (mem t (dones (sx st))) eqn:Hd.
  - (* finished task passed over *)
    apply mem_In in Hd. cbn [fst]. constructor; cbn [sx ss spanic e queue ntasks dones]; try assumption.
    + intros u H. apply Iq. right. exact H.
    + intros u Hu Hnd. destruct (Ilive u Hu Hnd) as [[H|H]|H]; [subst; contradiction | left; exact H | right; exact H].
    + eapply reach_skip; [exact Ire | exact Hq | apply mem_In; exact Hd].
  - (* the future of t is polled *)
    apply mem_false in Hd.
    assert (Htl : t < nt (ss st)) by (rewrite Ilen; exact Htn).
    assert (Hwt : waiting_rel (rel (get_task (ss st) t))).
    { apply not_fin_waiting. destruct (fin_rel (rel (get_task (ss st) t))) eqn:F; [|reflexivity].
      exfalso. apply Hd. apply Ifin; assumption. }
    assert (Hself : ~ In t (recvs (get_task (ss st) t))).
    { intros H. apply (wf_recv _ Iwf) in H. lia. }
    unfold poll_task.
    destruct (poll_loop_sum scripts t (pc (get_task (ss st) t)) (ss st) Iwf Htl)
      as [shl [effs1 [evs1 [rl [X [XD [Wl [Hp Hs]]]]]]]].
    rewrite Hp. cbn [emit p_sh p_pc p_evs p_effs p_out].
    assert (Hntl : nt shl = nt (ss st) + count_spawn effs1) by apply (ex_nt _ _ _ _ X).
    assert (Htl' : t < nt shl) by lia.
    assert (Hrelt : rel (get_task shl t) = rel (get_task (ss st) t)).
    { apply (ex_rel _ _ _ _ X); assumption. }
    assert (Hwt' : waiting_rel (rel (get_task shl t))) by (rewrite Hrelt; exact Hwt).
    pose proof (stop_facts t shl rl Wl Htl' Hwt' Hs) as SF.
    set (effs := effs1 ++ p_effs rl).
    destruct (fold_eff effs e) as [Fn [Fd [Fq [Fw [Fnew Fsrc]]]]].
    set (e' := fold_left apply_effect effs e) in *.
    cbn [e ntasks dones queue] in Fn, Fd, Fq, Fnew, Fsrc.
    assert (Hcs : count_spawn effs = count_spawn effs1).
    { unfold effs. rewrite count_spawn_app, (sf_nospawn _ _ _ SF). lia. }
    set (shf := set_pc t (p_pc rl) (p_sh rl)).
    assert (Hntf : nt shf = ntasks e').
    { unfold shf. rewrite nt_set_pc, (sf_nt _ _ _ SF), Hntl, Fn, Hcs, Ilen. reflexivity. }
    assert (Hle : ntasks (sx st) <= ntasks e') by lia.
    (* wake-ups only target existing tasks *)
    assert (Hwr : forall u, In (FWake u) effs -> u < ntasks (sx st)).
    { intros u H. unfold effs in H. apply in_app_or in H. destruct H as [H|H].
      - destruct (ex_wake_src _ _ _ _ X u H) as [k Hk]. rewrite <- Ilen. eapply wf_waiters; eassumption.
      - pose proof (sf_wake_range _ _ _ SF u H) as R.
        (* a joiner registered in the relay of t existed before this poll *)
        destruct Hs as [v | n rest | k rest Hk | r rv' rest Hrv Hwr]; cbn [p_effs] in H.
        + unfold complete in H. rewrite Hrelt in H. destruct Hwt as [E|[w E]]; rewrite E in H; cbn in H.
          * destruct H.
          * destruct H as [H|[]]. inversion H; subst. rewrite <- Ilen. eapply wf_polled; eassumption.
        + apply in_repeat in H. inversion H; subst. exact Htn.
        + destruct H.
        + destruct H. }
    assert (Hqr : forall u, In u (queue e') -> u < ntasks e').
    { intros u H. destruct (Fsrc u H) as [H1|[H1|H1]].
      - assert (u < ntasks (sx st)) by (apply Iq; right; exact H1). lia.
      - apply Hwr in H1. lia.
      - lia. }
    (* relays, flags, scripts of the tasks other than t: before vs after *)
    assert (Hpc : forall u, u < ntasks (sx st) -> u <> t ->
                   pc (get_task shf u) = pc (get_task (ss st) u)).
    { intros u Hu N. unfold shf. rewrite pc_set_pc_other by exact N.
      rewrite (sf_pc _ _ _ SF). apply (ex_pc _ _ _ _ X). lia. }
    assert (Hrv : forall u, u < ntasks (sx st) -> u <> t ->
                   recvs (get_task shf u) = recvs (get_task (ss st) u)).
    { intros u Hu N. unfold shf. rewrite recvs_set_pc, (sf_recvs _ _ _ SF).
      apply (ex_recvs _ _ _ _ X); [lia | exact N]. }
    assert (Hfin : forall u, u < ntasks (sx st) -> u <> t ->
                    fin_rel (rel (get_task shf u)) = fin_rel (rel (get_task (ss st) u))).
    { intros u Hu N. unfold shf. rewrite rel_set_pc, (sf_fin _ _ _ SF) by exact N.
      apply (ex_fin _ _ _ _ X). lia. }
    assert (Hnewfin : forall u, ntasks (sx st) <= u -> u < ntasks e' ->
                       fin_rel (rel (get_task shf u)) = false).
    { intros u H1 H2. unfold shf. rewrite rel_set_pc, (sf_fin _ _ _ SF) by lia.
      apply (ex_new _ _ _ _ X); lia. }
    assert (Hwf : WF shf) by (apply WF_set_pc; apply (sf_wf _ _ _ SF)).
    (* liveness of the other tasks *)
    assert (Hlive : forall u, u < ntasks e' -> u <> t -> ~ In u (dones (sx st)) ->
                      In u (queue e') \/ is_blocked shf u).
    { intros u Hu N Hnd. destruct (Nat.lt_ge_cases u (ntasks (sx st))) as [L|L];
        [|left; apply Fnew; assumption].
      destruct (Ilive u L Hnd) as [[H|H]|H]; [congruence | left; apply Fq; exact H|].
      (* u was blocked *)
      unfold is_blocked in H. destruct (pc (get_task (ss st) u)) as [|a rest] eqn:Epc; [destruct H|].
      destruct a as [n0|k|k0|k0|s0| | |v0]; try contradiction.
      - (* wait k *)
        destruct H as [H1 H2]. destruct (in_dec Nat.eq_dec k (flags shl)) as [Hk|Hk].
        + left. apply Fw. unfold effs. apply in_or_app. left.
          apply (ex_wake_flag _ _ _ _ X k u); assumption.
        + right. unfold is_blocked. rewrite Hpc, Epc by assumption. split.
          * unfold shf. cbn [flags set_pc]. rewrite (sf_flags _ _ _ SF). exact Hk.
          * unfold shf. cbn [waiters set_pc]. apply (sf_waiters _ _ _ SF).
            rewrite (ex_waiters _ _ _ _ X). exact H2.
      - (* join *)
        destruct H as [r [rv' [H1 H2]]].
        assert (Hr : u < r /\ r < nt (ss st) /\ rel (get_task (ss st) r) <> RlDone).
        { apply (wf_recv _ Iwf u r). rewrite H1. left. reflexivity. }
        destruct Hr as [_ [Hrn _]].
        assert (Hnr : ~ In r (recvs (get_task (ss st) t))).
        { intros Hin. apply N. apply (wf_uniq _ Iwf u t r); [rewrite H1; left; reflexivity | exact Hin]. }
        assert (H3 : rel (get_task shl r) = RlPolled u).
        { rewrite (ex_rel _ _ _ _ X) by assumption. exact H2. }
        assert (Hnr' : ~ In r (recvs (get_task shl t))).
        { intros Hin. destruct (ex_myrecvs _ _ _ _ X r Hin) as [A|A]; [exact (Hnr A) | lia]. }
        destruct (sf_polled _ _ _ SF r u H3 Hnr') as [H4|[_ H4]].
        + right. unfold is_blocked. rewrite Hpc, Epc by assumption. exists r, rv'.
          rewrite Hrv by assumption. split; [exact H1|]. unfold shf. rewrite rel_set_pc. exact H4.
        + left. apply Fw. unfold effs. apply in_or_app. right. exact H4. }
    destruct (p_out rl) eqn:Hout; cbn [fst].
    + (* Pending *)
      destruct (sf_pend _ _ _ SF Hout) as [Hft Hbt].
      constructor; cbn [sx ss spanic]; fold shf; fold e'.
      * exact Hwf.
      * exact Hntf.
      * exact Hqr.
      * intros u H. rewrite Fd in H. apply Id in H. lia.
      * intros u Hu. rewrite Fd. destruct (Nat.eq_dec u t) as [->|N].
        -- unfold shf. rewrite rel_set_pc, Hft. split; [intros H; contradiction | discriminate].
        -- destruct (Nat.lt_ge_cases u (ntasks (sx st))) as [L|L].
           ++ rewrite Hfin by assumption. apply Ifin. exact L.
           ++ rewrite Hnewfin by assumption. split; [intros H; apply Id in H; lia | discriminate].
      * intros u Hu Hnd. rewrite Fd in Hnd. destruct (Nat.eq_dec u t) as [->|N].
        -- destruct Hbt as [H|H]; [left; apply Fw; unfold effs; apply in_or_app; right; exact H | right; exact H].
        -- apply Hlive; assumption.
      * exact Inp.
      * exact (reach_poll (sx st) t q effs false Ire Hq (proj2 (mem_false _ _) Hd) Hwr).
    + (* Ready *)
      pose proof (sf_ready _ _ _ SF Hout) as Hft.
      constructor; cbn [sx ss spanic finish queue ntasks dones]; fold shf; fold e'.
      * exact Hwf.
      * exact Hntf.
      * exact Hqr.
      * intros u [H|H]; [subst; lia | rewrite Fd in H; apply Id in H; lia].
      * intros u Hu. rewrite Fd. destruct (Nat.eq_dec u t) as [->|N].
        -- unfold shf. rewrite rel_set_pc, Hft. split; [reflexivity | intros _; left; reflexivity].
        -- destruct (Nat.lt_ge_cases u (ntasks (sx st))) as [L|L].
           ++ rewrite Hfin by assumption. rewrite <- (Ifin u L).
              split; [intros [H|H]; [congruence | exact H] | intros H; right; exact H].
           ++ rewrite Hnewfin by assumption.
              split; [intros [H|H]; [congruence | apply Id in H; lia] | discriminate].
      * intros u Hu Hnd. rewrite Fd in Hnd. destruct (Nat.eq_dec u t) as [->|N].
        -- exfalso. apply Hnd. left. reflexivity.
        -- apply Hlive; [exact Hu | exact N|]. intros H. apply Hnd. right. exact H.
      * exact Inp.
      * exact (reach_poll (sx st) t q effs true Ire Hq (proj2 (mem_false _ _) Hd) Hwr).
    + exfalso. exact (sf_nopanic _ _ _ SF Hout).
Qed.

(* ---- driver actions ------------------------------------------------------------ *)

Lemma InvB_loop scripts stepmode : forall fuel st n, InvB st ->
  InvB (fst (run_loop fuel scripts stepmode st n)).
Proof.
  induction fuel as [|fuel IH]; intros st n I; [exact I|].
  cbn [run_loop]. pose proof (InvB_step scripts st I) as I'.
  destruct (sys_step scripts st) as [st' res] eqn:Hs. cbn [fst] in I'.
  destruct res as [| |t evs r|t evs].
  - exact I'.
  - specialize (IH st' (S n) I'). destruct (run_loop fuel scripts stepmode st' (S n)). exact IH.
  - specialize (IH st' (if r then S n else n) I').
    destruct (run_loop fuel scripts stepmode st' (if r then S n else n)). exact IH.
  - exact I'.
Qed.

Lemma fold_wake (ws : list tid) : forall e,
  let e' := fold_left wake ws e in
  ntasks e' = ntasks e /\ dones e' = dones e /\
  (forall u, In u (queue e) -> In u (queue e')) /\
  (forall u, In u ws -> In u (queue e')) /\
  (forall u, In u (queue e') -> In u (queue e) \/ In u ws).
Proof.
  induction ws as [|w ws IH]; intros e e'.
  - cbn in e'. subst e'. repeat split; auto. intros u [].
  - cbn [fold_left] in e'. destruct (IH (wake e w)) as [A [B [C [D E]]]]. fold e' in A, B, C, D, E.
    assert (Hq : forall u, In u (queue (wake e w)) <-> In u (queue e) \/ u = w).
    { intros u. unfold wake. destruct (mem w (queue e)) eqn:Hm; cbn.
      - apply mem_In in Hm. split; [intros H; left; exact H | intros [H| ->]; assumption].
      - rewrite in_app_iff. cbn. split; [intros [H|[H|[]]]; auto | intros [H|H]; auto]. }
    rewrite wake_ntasks in A.
    assert (Hd : dones (wake e w) = dones e) by (unfold wake; destruct (mem w (queue e)); reflexivity).
    rewrite Hd in B. split; [exact A|]. split; [exact B|]. split; [|split].
    + intros u H. apply C. apply Hq. left. exact H.
    + intros u [H|H]; [subst; apply C; apply Hq; right; reflexivity | apply D; exact H].
    + intros u H. destruct (E u H) as [H1|H1]; [|right; right; exact H1].
      apply Hq in H1. destruct H1 as [H1| ->]; [left; exact H1 | right; left; reflexivity].
Qed.

(* waking the wakers registered on k from outside, with or without setting the flag *)
Lemma InvB_ext_wake st k (setf : bool) : InvB st ->
  InvB (mkSys (fold_left wake (waiters_of k (ss st)) (sx st))
              (if setf then set_flag k (ss st) else ss st) (spanic st)).
Proof.
  intros I. pose proof I as [Iwf Ilen Iq Id Ifin Ilive Inp Ire].
  destruct (fold_wake (waiters_of k (ss st)) (sx st)) as [A [B [C [D E]]]].
  set (e' := fold_left wake (waiters_of k (ss st)) (sx st)) in *.
  assert (Hws : forall u, In u (waiters_of k (ss st)) -> u < ntasks (sx st)).
  { intros u H. apply in_waiters_of in H. rewrite <- Ilen. eapply wf_waiters; eassumption. }
  set (sh' := if setf then set_flag k (ss st) else ss st).
  assert (Ht : tasks sh' = tasks (ss st)) by (unfold sh'; destruct setf; reflexivity).
  assert (Hw : waiters sh' = waiters (ss st)) by (unfold sh'; destruct setf; reflexivity).
  assert (Hg : forall u, get_task sh' u = get_task (ss st) u) by (intros u; unfold get_task; rewrite Ht; reflexivity).
  constructor; cbn [sx ss spanic]; fold e'; fold sh'.
  - revert Iwf. apply WF_same.
    + unfold nt. rewrite Ht. reflexivity.
    + intros u. rewrite Hg. reflexivity.
    + intros u. rewrite Hg. reflexivity.
    + exact Hw.
  - unfold nt. rewrite Ht, A. exact Ilen.
  - intros u H. rewrite A. destruct (E u H) as [H1|H1]; [apply Iq; exact H1 | apply Hws; exact H1].
  - intros u H. rewrite A. rewrite B in H. apply Id. exact H.
  - intros u Hu. rewrite A in Hu. rewrite B, Hg. apply Ifin. exact Hu.
  - intros u Hu Hnd. rewrite A in Hu. rewrite B in Hnd.
    destruct (Ilive u Hu Hnd) as [H|H]; [left; apply C; exact H|].
    unfold is_blocked in *. rewrite Hg.
    destruct (pc (get_task (ss st) u)) as [|a rest]; [destruct H|].
    destruct a as [n0|k1|k0|k0|s0| | |v0]; try contradiction.
    + destruct H as [H1 H2]. rewrite Hw.
      destruct (in_dec Nat.eq_dec u (waiters_of k (ss st))) as [Hin|Hin]; [left; apply D; exact Hin|].
      right. split; [|exact H2]. unfold sh'. destruct setf; [|exact H1].
      cbn. intros [F|F]; [|exact (H1 F)]. subst k1. apply Hin. apply in_waiters_of. exact H2.
    + right. destruct H as [r [rv' [H1 H2]]]. exists r, rv'. rewrite !Hg. split; assumption.
  - exact Inp.
  - apply reach_wakes; [exact Ire | exact Hws].
Qed.

Lemma InvB_spawn st p : InvB st ->
  InvB (mkSys (enqueue (sx st)) (add_task p (ss st)) (spanic st)).
Proof.
  intros I. pose proof I as [Iwf Ilen Iq Id Ifin Ilive Inp Ire].
  pose proof Iwf as [W1 W2 W3 W4 W5].
  constructor; cbn [sx ss spanic enqueue queue ntasks dones].
  - constructor.
    + intros u r H. rewrite get_add_task in H. rewrite nt_add_task.
      destruct (Nat.ltb_spec u (nt (ss st))) as [L|L].
      * destruct (W1 u r H) as [A [B C]]. split; [exact A|]. split; [lia|].
        rewrite get_add_task_old by exact B. exact C.
      * destruct (Nat.eqb u (nt (ss st))); destruct H.
    + intros u. rewrite get_add_task. destruct (Nat.ltb u (nt (ss st))); [apply W2|].
      destruct (Nat.eqb u (nt (ss st))); constructor.
    + intros u1 u2 r H1 H2. rewrite get_add_task in H1, H2.
      destruct (Nat.ltb u1 (nt (ss st))); [|destruct (Nat.eqb u1 (nt (ss st))); destruct H1].
      destruct (Nat.ltb u2 (nt (ss st))); [|destruct (Nat.eqb u2 (nt (ss st))); destruct H2].
      eapply W3; eassumption.
    + intros r w H. rewrite nt_add_task. rewrite get_add_task in H.
      destruct (Nat.ltb r (nt (ss st))); [apply W4 in H; lia|].
      destruct (Nat.eqb r (nt (ss st))); discriminate.
    + intros k u H. rewrite nt_add_task. apply W5 in H. lia.
  - rewrite nt_add_task, Ilen. reflexivity.
  - intros u H. apply in_app_or in H. destruct H as [H|[<-|[]]]; [apply Iq in H; lia | lia].
  - intros u H. apply Id in H. lia.
  - intros u Hu. rewrite get_add_task, Ilen. destruct (Nat.ltb_spec u (ntasks (sx st))) as [L|L].
    + apply Ifin. exact L.
    + assert (u = ntasks (sx st)) by lia. subst u. rewrite Nat.eqb_refl. cbn.
      split; [intros H; apply Id in H; lia | discriminate].
  - intros u Hu Hnd. destruct (Nat.lt_ge_cases u (ntasks (sx st))) as [L|L].
    + destruct (Ilive u L Hnd) as [H|H]; [left; apply in_or_app; left; exact H|].
      right. unfold is_blocked in *. rewrite get_add_task_old by (rewrite Ilen; exact L).
      destruct (pc (get_task (ss st) u)) as [|a rest]; [destruct H|].
      destruct a as [n0|k1|k0|k0|s0| | |v0]; try contradiction.
      * exact H.
      * destruct H as [r [rv' [H1 H2]]]. exists r, rv'. split; [exact H1|].
        assert (r < nt (ss st)).
        { destruct (W1 u r) as [_ [B _]]; [rewrite H1; left; reflexivity | exact B]. }
        rewrite get_add_task_old by assumption. exact H2.
    + left. apply in_or_app. right. left. lia.
  - exact Inp.
  - apply reach_enqueue. exact Ire.
Qed.

Lemma InvB_x fuel scripts st x : InvB st -> InvB (fst (sys_x fuel scripts st x)).
Proof.
  intros I. destruct x as [s|k|k| | |]; cbn [sys_x].
  - cbn [fst]. apply InvB_spawn. exact I.
  - cbn [fst]. unfold ext_wakes. apply (InvB_ext_wake st k true I).
  - cbn [fst]. unfold ext_wakes. apply (InvB_ext_wake st k false I).
  - pose proof (InvB_step scripts st I) as I'.
    destruct (sys_step scripts st) as [st' res]. cbn [fst] in I'. destruct res; exact I'.
  - apply InvB_loop. exact I.
  - apply InvB_loop. exact I.
Qed.

Lemma InvB_plan fuel scripts : forall plan st, InvB st -> InvB (fst (sys_plan fuel scripts st plan)).
Proof.
  induction plan as [|x plan IH]; intros st I; [exact I|].
  cbn [sys_plan]. pose proof (InvB_x fuel scripts st x I) as I1.
  destruct (sys_x fuel scripts st x) as [st1 l1]. cbn [fst] in I1.
  destruct (spanic st1); [exact I1|].
  specialize (IH st1 I1). destruct (sys_plan fuel scripts st1 plan). exact IH.
Qed.

(* ---- theorems ---------------------------------------------------------------------- *)

Lemma script_no_panic_l : forall fuel scripts plan,
  spanic (fst (sys_plan fuel scripts sys0 plan)) = false.
Proof. intros. apply ib_nopanic. apply InvB_plan. apply InvB_init. Qed.

Lemma stall_all_waiting_l : forall fuel scripts plan,
  let st := fst (sys_plan fuel scripts sys0 plan) in
  queue (sx st) = [] ->
  forall t, t < ntasks (sx st) -> ~ In t (dones (sx st)) -> is_blocked (ss st) t.
Proof.
  intros fuel scripts plan st Hq t Ht Hd.
  destruct (ib_live st (InvB_plan fuel scripts plan sys0 InvB_init) t Ht Hd) as [H|H]; [|exact H].
  rewrite Hq in H. destruct H.
Qed.

Lemma polled_relay_unfinished_l : forall fuel scripts plan r w,
  let st := fst (sys_plan fuel scripts sys0 plan) in
  rel (get_task (ss st) r) = RlPolled w ->
  r < ntasks (sx st) /\ w < ntasks (sx st) /\ ~ In r (dones (sx st)).
Proof.
  intros fuel scripts plan r w st H.
  pose proof (InvB_plan fuel scripts plan sys0 InvB_init) as I. fold st in I.
  assert (Hr : r < ntasks (sx st)).
  { destruct (Nat.lt_ge_cases r (ntasks (sx st))) as [L|L]; [exact L|].
    rewrite get_dummy in H by (rewrite (ib_len st I); exact L). discriminate. }
  split; [exact Hr|]. split.
  - rewrite <- (ib_len st I). eapply wf_polled; [apply (ib_wf st I) | exact H].
  - intros Hd. apply (ib_fin st I r Hr) in Hd. rewrite H in Hd. discriminate.
Qed.

Lemma script_exec_refines_l : forall fuel scripts plan,
  reach (sx (fst (sys_plan fuel scripts sys0 plan))).
Proof. intros. apply ib_reach. apply InvB_plan. apply InvB_init. Qed.
