(* C05 — what the correspondence check evaluates on every case. *)
From Yv Require Export Common.Base C05.Model C05.Spec.

(* One case: the tree, the working directory, the noglob option, the field (attributed characters),
   and what the implementation's glob returned. *)
Definition case := (fs * str * bool * list achar * outcome)%type.

Definition outcome_eqb (a b : outcome) : bool :=
  match a, b with
  | GFields x, GFields y => strs_eqb x y
  | GPanic, GPanic => true
  | GOutOfDomain, GOutOfDomain => true
  | _, _ => false
  end.

Definition run_case (c : case) : verdict :=
  let '(t, cwd, noglob, field, out) := c in
  if negb (wf_fs t && wf_cwd cwd) then 99%N
  else if negb (field_supported field) then 99%N
  else
    (* oracle first: evaluated on the implementation's output only *)
    match fs_oracle t cwd noglob field out with
    | Some k => (2 + k)%N
    | None => if outcome_eqb (glob_model t cwd noglob field) out then 0%N else 1%N
    end.

Definition run_cases := run_cases_with run_case.
