(* C05 — what the correspondence check evaluates on every case. *)
From Yv Require Export Common.Base C05.Model C05.Spec.

(* One case of the expansion streams: the tree, the working directory, the
   noglob option, the field (attributed characters), and what the
   implementation's glob returned.
   One case of the context stream: a place of the shell language and whether
   the word `*` written there came out expanded ([None]: neither `*` nor a
   file name was seen). *)
Inductive case :=
| GlobCase (t : fs) (cwd : str) (noglob : bool) (field : list achar) (out : outcome)
| ContextCase (c : context) (observed : option bool).

Definition outcome_eqb (a b : outcome) : bool :=
  match a, b with
  | GFields x, GFields y => strs_eqb x y
  | GPanic, GPanic => true
  | _, _ => false
  end.

Definition run_case (c : case) : verdict :=
  match c with
  | GlobCase t cwd noglob field out =>
      if negb (wf_fs t && wf_cwd cwd) then 99%N
      else
        (* oracle first: evaluated on the implementation's output only *)
        match fs_oracle t cwd noglob field out with
        | Some k => (2 + k)%N
        | None => if outcome_eqb (glob_model t cwd noglob field) out then 0%N else 1%N
        end
  | ContextCase cx observed =>
      match observed with
      | None => 6%N
      | Some b => if Bool.eqb b (posix_expands cx) then 0%N else 7%N
      end
  end.

Definition run_cases := run_cases_with run_case.
