(* C05 — specification of pathname expansion and its boolean form (the oracle).

   The specification is pointwise and non-recursive: a pathname is expected iff
   it is the `/`-join of one name per component of the field such that every
   component is satisfied on its own (given the names before it), and the whole
   pathname exists.  Nothing here follows the control flow of glob.rs. *)
From Yv Require Import Common.Base C05.Model.

Local Open Scope N_scope.

(* ------------------------------------------------- what a pattern denotes *)
(* the character a range endpoint stands for *)
Definition Endpoint (a : batom) (c : N) : Prop :=
  match a with
  | BChar x => c = x
  | BColl v => exists r, v = c :: r
  | BClass _ => False
  end.

(* one character is a member of an item *)
Definition ItemHas (i : bitem) (x : N) : Prop :=
  match i with
  | IAtom (BChar c) => x = c
  | IAtom (BColl v) => v = [x]
  | IAtom (BClass name) => exists f, class_pred name = Some f /\ f x = true
  | IRange a b => exists lo hi, Endpoint a lo /\ Endpoint b hi /\ lo <= x /\ x <= hi
  end.

Definition BracketHas (compl : bool) (items : list bitem) (x : N) : Prop :=
  if compl then ~ (exists i, In i items /\ ItemHas i x)
  else exists i, In i items /\ ItemHas i x.

Inductive Matches : list atom -> str -> Prop :=
| M_nil : Matches [] []
| M_char : forall c p s, Matches p s -> Matches (AChar c :: p) (c :: s)
| M_any : forall x p s, Matches p s -> Matches (AAny :: p) (x :: s)
| M_bracket : forall compl items x p s,
    BracketHas compl items x -> Matches p s -> Matches (ABracket compl items :: p) (x :: s)
| M_coll : forall items v p s,
    (* a collating element of two or more characters in a matching list
       stands for that sequence of characters *)
    In (IAtom (BColl v)) items -> (2 <= length v)%nat -> Matches p s ->
    Matches (ABracket false items :: p) (v ++ s)
| M_star : forall p s1 s2, Matches p s2 -> Matches (AStar :: p) (s1 ++ s2).

(* a period at the beginning of a name is matched only by a period written as
   the first character of the pattern *)
Definition PeriodOk (p : list atom) (name : str) : Prop :=
  forall r, name = c_dot :: r -> exists p', p = AChar c_dot :: p'.

Definition PMatch (p : list atom) (name : str) : Prop := PeriodOk p name /\ Matches p name.

(* boolean form, by enumeration of the split points of `*` *)
Definition endpoint_of (a : batom) : option N :=
  match a with
  | BChar c => Some c
  | BColl v => hd_error v
  | BClass _ => None
  end.

Definition item_has (i : bitem) (x : N) : bool :=
  match i with
  | IAtom (BChar c) => N.eqb c x
  | IAtom (BColl v) => str_eqb v [x]
  | IAtom (BClass name) => match class_pred name with Some f => f x | None => false end
  | IRange a b =>
      match endpoint_of a, endpoint_of b with
      | Some lo, Some hi => negb (N.ltb x lo) && negb (N.ltb hi x)
      | _, _ => false
      end
  end.

Definition atom_has (a : atom) (x : N) : bool :=
  match a with
  | AChar c => N.eqb c x
  | AAny => true
  | ABracket compl items =>
      if compl then negb (existsb (fun i => item_has i x) items)
      else existsb (fun i => item_has i x) items
  | AStar => false
  end.

(* the multi-character elements of a matching list *)
Definition coll_strings (a : atom) : list str :=
  match a with
  | ABracket false items =>
      flat_map (fun i => match i with
                         | IAtom (BColl v) => if Nat.leb 2 (length v) then [v] else []
                         | _ => []
                         end) items
  | _ => []
  end.

Fixpoint omatch (p : list atom) (s : str) : bool :=
  match p with
  | [] => match s with [] => true | _ => false end
  | AStar :: p' => existsb (fun k => omatch p' (skipn k s)) (seq 0 (S (length s)))
  | a :: p' =>
      match s with x :: s' => atom_has a x && omatch p' s' | [] => false end
      || existsb (fun v => str_eqb (firstn (length v) s) v && omatch p' (skipn (length v) s))
                 (coll_strings a)
  end.

Definition pmatchb (p : list atom) (name : str) : bool :=
  (negb (starts_with_dot name) || starts_with_literal_dot p) && omatch p name.

(* ------------------------------------------------- pathnames *)
Fixpoint join (names : list str) : str :=
  match names with
  | [] => []
  | [n] => n
  | n :: ns => n ++ c_slash :: join ns
  end.

(* the text in front of the i-th name: all earlier names, each followed by `/` *)
Definition prefix_of (names : list str) (i : nat) : str :=
  concat (map (fun n => n ++ [c_slash]) (firstn i names)).

Section Spec.
  Variable opendir : str -> option (list str).
  Variable exists_ : str -> bool.      (* the pathname names an existing file *)

  (* one component [c] of the field, the text [prefix] in front of it, and the
     name chosen for it *)
  Definition comp_ok (prefix : str) (c : list achar) (name : str) : Prop :=
    match compile_comp c with
    | CLit l => name = l
        (* no unquoted special character (or not a valid pattern): the
           component stands for itself, quotes removed *)
    | CPat p =>
        (exists ents, opendir (dir_of prefix) = Some ents /\ In name ents)
        /\ name <> s_dot /\ name <> s_dotdot /\ PMatch p name
        (* a pattern: an entry of the directory before it, not `.` or `..`,
           that the pattern matches *)
    end.

  Definition last_is_pat (comps : list (list achar)) : bool :=
    is_pat (compile_comp (last comps [])).

  Definition Expected (field : list achar) (p : str) : Prop :=
    let comps := split_slash field in
    exists names : list str,
      length names = length comps /\
      p = join names /\
      (forall i, (i < length comps)%nat ->
                 comp_ok (prefix_of names i) (nth i comps []) (nth i names [])) /\
      (last_is_pat comps = false -> exists_ p = true).

  (* ---- boolean form *)
  Definition mem (x : str) (l : list str) : bool := existsb (str_eqb x) l.

  Definition comp_okb (prefix : str) (c : list achar) (name : str) : bool :=
    match compile_comp c with
    | CLit l => str_eqb name l
    | CPat p =>
        match opendir (dir_of prefix) with Some ents => mem name ents | None => false end
        && negb (str_eqb name s_dot) && negb (str_eqb name s_dotdot) && pmatchb p name
    end.

  Definition names_okb (comps : list (list achar)) (names : list str) : bool :=
    forallb (fun i => comp_okb (prefix_of names i) (nth i comps []) (nth i names []))
            (seq 0 (length comps))
    && (last_is_pat comps || exists_ (join names)).

  (* generate and test: every tuple of candidate names, one per component *)
  Variable universe : list str.        (* every name a directory can list *)

  Definition cands (c : list achar) : list str :=
    match compile_comp c with
    | CLit l => [l]
    | CPat p => filter (pmatchb p) universe
    end.

  Fixpoint product (ls : list (list str)) : list (list str) :=
    match ls with
    | [] => [[]]
    | l :: ls => flat_map (fun x => map (cons x) (product ls)) l
    end.

  Definition spec_paths (field : list achar) : list str :=
    let comps := split_slash field in
    map join (filter (names_okb comps) (product (map cands comps))).

  Fixpoint strictly_sorted (l : list str) : bool :=
    match l with
    | [] => true
    | x :: l' => match l' with [] => true | y :: _ => str_ltb x y && strictly_sorted l' end
    end.

  Definition strs_eqb : list str -> list str -> bool := list_eqb str_eqb.

  (* The oracle: [None] = accepted, [Some k] = clause k is violated.
       0 a returned pathname is not expected (it does not exist or does not match)
       1 an expected pathname is missing (or the field itself was returned although
         pathnames are expected)
       2 the result is not in strictly increasing order
       3 nothing is expected or noglob is on, but the result is not the field itself
       4 the implementation panicked / was interrupted *)
  Definition oracle (noglob : bool) (field : list achar) (out : outcome) : option N :=
    match out with
    | GPanic => Some 4
    | GFields r =>
        if noglob then (if strs_eqb r [unquote field] then None else Some 3)
        else
          match spec_paths field with
          | [] => if strs_eqb r [unquote field] then None else Some 3
          | e =>
              if strs_eqb r [unquote field] && negb (mem (unquote field) e) then Some 1
              else if negb (forallb (fun x => mem x e) r) then Some 0
              else if negb (forallb (fun x => mem x r) e) then Some 1
              else if negb (strictly_sorted r) then Some 2
              else None
          end
    end.
End Spec.

(* ------------------------------------------------- the concrete file system *)
Fixpoint dedup (l : list str) : list str :=
  match l with
  | [] => []
  | x :: l' => if existsb (str_eqb x) l' then dedup l' else x :: dedup l'
  end.

Definition fs_universe (t : fs) : list str :=
  dedup (s_dot :: s_dotdot :: map (fun kv => last (fst kv) []) t).

(* well-formed tables: the domain of the model *)
Definition name_ok (n : str) : bool :=
  negb (str_eqb n []) && negb (str_eqb n s_dot) && negb (str_eqb n s_dotdot)
  && negb (existsb (N.eqb c_slash) n) && negb (existsb (N.eqb 0) n).

Fixpoint keys_distinct (t : fs) : bool :=
  match t with
  | [] => true
  | (k, _) :: t' => negb (existsb (fun kv => key_eqb (fst kv) k) t') && keys_distinct t'
  end.

Definition parent_ok (t : fs) (k : list str) : bool :=
  match removelast k with
  | [] => true
  | pk => is_dir_kind (assoc_key t pk)
  end.

Definition wf_fs (t : fs) : bool :=
  forallb (fun kv => match fst kv with [] => false | _ => true end
                     && forallb name_ok (fst kv) && parent_ok t (fst kv)
                     && match snd kv with KLink tg => negb (str_eqb tg []) | _ => true end) t
  && keys_distinct t.

(* the working directory: empty (the default of the virtual system) or absolute *)
Definition wf_cwd (cwd : str) : bool :=
  match cwd with [] => true | _ => is_abs cwd end && negb (existsb (N.eqb 0) cwd).

(* existence of a pathname: the final symbolic link is not followed (a dangling
   link is an existing pathname) *)
Definition ExpectedL (t : fs) (cwd : str) := Expected (fs_opendir t cwd) (fs_lstat t cwd).

Definition fs_oracle (t : fs) (cwd : str) : bool -> list achar -> outcome -> option N :=
  oracle (fs_opendir t cwd) (fs_lstat t cwd) (fs_universe t).

(* a character that quoting (or its origin in a tilde expansion etc.) makes literal *)
Definition lit_char (c : achar) : Prop :=
  a_quoting c = true \/ a_quoted c = true \/ a_origin c = OHard.

(* an unquoted field, e.g. the result of an unquoted parameter expansion *)
Definition soft_field (s : str) : list achar := map (fun c => AC c OSoft false false) s.

(* a dangling link: sub/dl is a symbolic link to a file that does not exist; the
   field is */dl (before the repair 7d0a5f7 of glob.rs this pathname was missed) *)
Definition dangling_tree : fs :=
  [([[115; 117; 98]], KDir true); ([[115; 117; 98]; [100; 108]], KLink [122; 122])].
Definition dangling_field : list achar := soft_field [42; 47; 100; 108].
Definition dangling_path : str := [115; 117; 98; 47; 100; 108].

(* ------------------------------------------------- where pathname expansion happens *)
(* The places of the shell language where a word is expanded, and whether the
   result undergoes pathname expansion (POSIX.1-2024 XCU 2.6, 2.6.6 and the
   sections of the constructs: 2.7 redirection in a non-interactive shell,
   2.9.1 assignments and declaration utilities, 2.9.4 for / case). *)
Inductive context :=
| CxCommandWord          (* args *                         *)
| CxForList              (* for x in *                     *)
| CxSetArgs              (* set -- *                       *)
| CxEvalWord             (* eval 'args *'                  *)
| CxUnquotedParam        (* v='*'; args $v                 *)
| CxUnquotedPositional   (* set -- '*'; args $1 / $@ / $*  *)
| CxUnquotedDefault      (* args ${u:-*}                   *)
| CxCommandSubst         (* args $(echo '*')               *)
| CxFunctionArg          (* f() { args $1; }; f '*'        *)
| CxQuotedParam          (* args "$v"                      *)
| CxQuotedAt             (* set -- '*'; args "$@"          *)
| CxQuotedDefault        (* args "${u:-*}"                 *)
| CxCaseSubject          (* case * in                      *)
| CxRedirOperand         (* echo hi > *                    *)
| CxAssignValue          (* v=*                            *)
| CxAssignDefault        (* : ${d=*}  (the value assigned) *)
| CxDeclUtilAssign       (* export e=* / readonly r=*      *)
| CxNoglobCommandWord.   (* set -f; args *                 *)

Definition posix_expands (c : context) : bool :=
  match c with
  | CxCommandWord | CxForList | CxSetArgs | CxEvalWord | CxUnquotedParam
  | CxUnquotedPositional | CxUnquotedDefault | CxCommandSubst | CxFunctionArg => true
  | CxQuotedParam | CxQuotedAt | CxQuotedDefault | CxCaseSubject | CxRedirOperand
  | CxAssignValue | CxAssignDefault | CxDeclUtilAssign | CxNoglobCommandWord => false
  end.
