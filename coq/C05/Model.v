(* C05 — pathname expansion: executable model of
     yash-semantics/src/expansion/glob.rs   (to_pattern, search_dir, push_component,
                                             file_exists, glob)
     yash-fnmatch  (ast/parse.rs: Atom::parse, Bracket::parse, make_range;
                    ast.rs: to_literal, starts_with_literal_dot;
                    lib.rs: Pattern::is_match with literal_period, both anchors)
     yash-env/src/system/virtual/file_system.rs (FileSystem::get, VirtualDir) and
     virtual.rs (resolve_existing_file, fstatat, opendir)
   Characters are code points (N); strings are lists of code points. *)
From Yv Require Import Common.Base.

Local Open Scope N_scope.

(* ---------------------------------------------------------------- characters *)
Definition c_slash  : N := 47.
Definition c_dot    : N := 46.
Definition c_star   : N := 42.
Definition c_qm     : N := 63.
Definition c_lbr    : N := 91.
Definition c_rbr    : N := 93.
Definition c_bang   : N := 33.
Definition c_caret  : N := 94.
Definition c_hyphen : N := 45.
Definition c_bslash : N := 92.
Definition c_colon  : N := 58.
Definition c_equal  : N := 61.

Definition s_dot    : str := [c_dot].
Definition s_dotdot : str := [c_dot; c_dot].

(* ------------------------------------------------- attributed characters (attr.rs) *)
Inductive origin := OLiteral | OHard | OSoft.

Record achar := AC { a_val : N; a_origin : origin; a_quoted : bool; a_quoting : bool }.

Definition is_hard (o : origin) : bool := match o with OHard => true | _ => false end.

(* AttrField::remove_quotes_and_strip: skip_quotes, then strip *)
Definition unquote (l : list achar) : str :=
  map a_val (filter (fun c => negb (a_quoting c)) l).

(* ------------------------------------------------- pattern characters (char_iter.rs) *)
Inductive pchar := Normal (c : N) | Literal (c : N).

Definition pc_val (p : pchar) : N := match p with Normal c => c | Literal c => c end.

Definition is_normal (p : pchar) (c : N) : bool :=
  match p with Normal x => N.eqb x c | Literal _ => false end.

(* glob.rs to_pattern, the [Chars] iterator: [nq] is [next_quoted].  The flag is
   consumed by every character, quoting ones included. *)
Fixpoint to_pchars (nq : bool) (l : list achar) : list pchar :=
  match l with
  | [] => []
  | c :: l =>
      if a_quoting c then to_pchars false l
      else if nq || a_quoted c || is_hard (a_origin c)
      then Literal (a_val c) :: to_pchars false l
      else Normal (a_val c) :: to_pchars (N.eqb (a_val c) c_bslash) l
  end.

(* ------------------------------------------------- pattern syntax tree (ast.rs) *)
(* BracketAtom: a character, a collating symbol [.v.] or an equivalence class
   [=v=] (the code treats the two alike: [BColl]), a character class [:name:] *)
Inductive batom := BChar (c : N) | BColl (v : str) | BClass (name : str).

(* BracketItem *)
Inductive bitem := IAtom (a : batom) | IRange (a b : batom).

Notation IChar c := (IAtom (BChar c)).

Inductive atom :=
| AChar (c : N)
| AAny
| AStar
| ABracket (complement : bool) (items : list bitem).

(* ast/parse.rs make_range; [items] is the vector in reverse (head = last element) *)
Definition make_range (items : list bitem) : list bitem :=
  match items with
  | IAtom e :: IAtom (BChar h) :: IAtom s :: rest =>
      if N.eqb h c_hyphen then IRange s e :: rest else items
  | _ => items
  end.

(* BracketAtom::parse_inner: after the inner `[`, an unquoted `.`, `=` or `:`
   opens an element that ends at the first later occurrence of the same
   unquoted character followed by an unquoted `]`.  [find_close d l] is the
   index of that occurrence. *)
Fixpoint find_close (d : N) (l : list pchar) : option nat :=
  match l with
  | a :: ((b :: _) as l') =>
      if is_normal a d && is_normal b c_rbr then Some O else option_map S (find_close d l')
  | _ => None
  end.

(* the element and the number of pattern characters it takes after the `[` *)
Definition inner_parse (l : list pchar) : option (batom * nat) :=
  match l with
  | Normal d :: r =>
      if N.eqb d c_dot || N.eqb d c_equal || N.eqb d c_colon then
        match find_close d r with
        | Some i =>
            let v := map pc_val (firstn i r) in
            Some (if N.eqb d c_colon then BClass v else BColl v, (3 + i)%nat)
        | None => None
        end
      else None
  | _ => None
  end.

Inductive bres :=
| BOk (complement : bool) (items : list bitem) (consumed : nat)
| BNone.     (* no closing bracket: the `[` is an ordinary character *)

(* Bracket::parse; [n] counts the pattern characters consumed so far, [skip]
   those of them that belong to an element already parsed *)
Fixpoint bracket_loop (compl : bool) (items : list bitem) (ah : bool) (skip n : nat)
    (l : list pchar) : bres :=
  match l with
  | [] => BNone
  | pc :: l' =>
      match skip with
      | S k => bracket_loop compl items ah k (S n) l'
      | O =>
          if is_normal pc c_rbr && negb (match items with [] => true | _ => false end)
          then BOk compl (rev items) (S n)
          else if (is_normal pc c_bang || is_normal pc c_caret) && negb compl
                  && (match items with [] => true | _ => false end)
          then bracket_loop true (if ah then make_range items else items)
                            (is_normal pc c_hyphen) O (S n) l'
          else
            match (if is_normal pc c_lbr then inner_parse l' else None) with
            | Some (a, k) =>
                let items1 := IAtom a :: items in
                bracket_loop compl (if ah then make_range items1 else items1) false k (S n) l'
            | None =>
                let items1 := IChar (pc_val pc) :: items in
                bracket_loop compl (if ah then make_range items1 else items1)
                             (is_normal pc c_hyphen) O (S n) l'
            end
      end
  end.

(* Ast::new / Atom::parse.  [skip] pattern characters were already consumed by
   a bracket expression. *)
Fixpoint parse_atoms (skip : nat) (l : list pchar) : list atom :=
  match l with
  | [] => []
  | pc :: l' =>
      match skip with
      | S k => parse_atoms k l'
      | O =>
          if is_normal pc c_qm then AAny :: parse_atoms O l'
          else if is_normal pc c_star then AStar :: parse_atoms O l'
          else if is_normal pc c_lbr then
            match bracket_loop false [] false 0 0 l' with
            | BOk compl items n => ABracket compl items :: parse_atoms n l'
            | BNone => AChar c_lbr :: parse_atoms O l'
            end
          else AChar (pc_val pc) :: parse_atoms O l'
      end
  end.

(* Ast::to_literal *)
Fixpoint to_literal (p : list atom) : option str :=
  match p with
  | [] => Some []
  | AChar c :: p => option_map (cons c) (to_literal p)
  | _ => None
  end.

(* ------------------------------------------------- character classes *)
(* regex_syntax ClassAsciiKind::from_name and the ASCII ranges of each class
   (the regex crate's [[:name:]] is ASCII-only also in Unicode mode) *)
Definition in_rng (a b x : N) : bool := N.leb a x && N.leb x b.

Definition class_names : list (str * (N -> bool)) :=
  [ ([97;108;110;117;109], fun x => in_rng 48 57 x || in_rng 65 90 x || in_rng 97 122 x);   (* alnum *)
    ([97;108;112;104;97],  fun x => in_rng 65 90 x || in_rng 97 122 x);                      (* alpha *)
    ([97;115;99;105;105],  fun x => in_rng 0 127 x);                                          (* ascii *)
    ([98;108;97;110;107],  fun x => N.eqb x 32 || N.eqb x 9);                                 (* blank *)
    ([99;110;116;114;108], fun x => in_rng 0 31 x || N.eqb x 127);                            (* cntrl *)
    ([100;105;103;105;116], fun x => in_rng 48 57 x);                                         (* digit *)
    ([103;114;97;112;104], fun x => in_rng 33 126 x);                                         (* graph *)
    ([108;111;119;101;114], fun x => in_rng 97 122 x);                                        (* lower *)
    ([112;114;105;110;116], fun x => in_rng 32 126 x);                                        (* print *)
    ([112;117;110;99;116], fun x => in_rng 33 47 x || in_rng 58 64 x || in_rng 91 96 x || in_rng 123 126 x); (* punct *)
    ([115;112;97;99;101],  fun x => in_rng 9 13 x || N.eqb x 32);                             (* space *)
    ([117;112;112;101;114], fun x => in_rng 65 90 x);                                         (* upper *)
    ([119;111;114;100],    fun x => in_rng 48 57 x || in_rng 65 90 x || in_rng 97 122 x || N.eqb x 95); (* word *)
    ([120;100;105;103;105;116], fun x => in_rng 48 57 x || in_rng 65 70 x || in_rng 97 102 x) (* xdigit *)
  ].

Fixpoint class_lookup (l : list (str * (N -> bool))) (name : str) : option (N -> bool) :=
  match l with
  | [] => None
  | (n, f) :: l' => if str_eqb n name then Some f else class_lookup l' name
  end.

Definition class_pred (name : str) : option (N -> bool) := class_lookup class_names name.

(* ------------------------------------------------- validity (ast/regex.rs) *)
(* fmt_regex_single: the character a range endpoint stands for *)
Definition atom_first (a : batom) : option N :=
  match a with
  | BChar c => Some c
  | BColl (c :: _) => Some c
  | BColl [] => None            (* Error::EmptyCollatingSymbol *)
  | BClass _ => None            (* Error::CharClassInRange *)
  end.

(* matches_multi_character: a collating symbol / equivalence class of two or
   more characters *)
Definition atom_multi (a : batom) : bool :=
  match a with BColl (_ :: _ :: _) => true | _ => false end.

Definition item_multi (i : bitem) : bool :=
  match i with IAtom a => atom_multi a | IRange _ _ => false end.

(* to_regex fails (and to_pattern returns None) on an empty collating symbol, an
   undefined class, a class as range endpoint; the regex crate rejects a range
   whose start is greater than its end *)
Definition item_invalid (i : bitem) : bool :=
  match i with
  | IAtom (BChar _) => false
  | IAtom (BColl v) => match v with [] => true | _ => false end
  | IAtom (BClass name) => match class_pred name with Some _ => false | None => true end
  | IRange a b =>
      match atom_first a, atom_first b with
      | Some x, Some y => N.ltb y x
      | _, _ => true
      end
  end.

Definition atom_invalid (a : atom) : bool :=
  match a with
  | ABracket _ items => existsb item_invalid items
  | _ => false
  end.

(* ------------------------------------------------- matching (lib.rs is_match) *)
(* one character against one item; a multi-character element never matches a
   single character (in a complemented bracket it is dropped; if nothing else
   is left, any character matches: the regex `.`) *)
Definition item_match (x : N) (i : bitem) : bool :=
  match i with
  | IAtom (BChar c) => N.eqb x c
  | IAtom (BColl v) => match v with [c] => N.eqb x c | _ => false end
  | IAtom (BClass name) => match class_pred name with Some f => f x | None => false end
  | IRange a b =>
      match atom_first a, atom_first b with
      | Some lo, Some hi => N.leb lo x && N.leb x hi
      | _, _ => false
      end
  end.

Definition bracket_match (compl : bool) (items : list bitem) (x : N) : bool :=
  xorb compl (existsb (item_match x) items).

(* the multi-character elements of a bracket expression: (?:[..]|ch|..) *)
Definition item_string (i : bitem) : option str :=
  match i with
  | IAtom (BColl v) => if atom_multi (BColl v) then Some v else None
  | _ => None
  end.

Fixpoint strip_prefix (v s : str) : option str :=
  match v with
  | [] => Some s
  | c :: v' => match s with x :: s' => if N.eqb x c then strip_prefix v' s' else None | [] => None end
  end.

(* both ends anchored; backtracking over `*` like the regex engine's priority search *)
Fixpoint amatch (p : list atom) (s : str) : bool :=
  match p with
  | [] => match s with [] => true | _ => false end
  | AChar c :: p' => match s with x :: s' => N.eqb x c && amatch p' s' | [] => false end
  | AAny :: p' => match s with _ :: s' => amatch p' s' | [] => false end
  | ABracket compl items :: p' =>
      match s with x :: s' => bracket_match compl items x && amatch p' s' | [] => false end
      || (negb compl &&
          existsb (fun i => match item_string i with
                            | Some v => match strip_prefix v s with
                                        | Some s' => amatch p' s'
                                        | None => false
                                        end
                            | None => false
                            end) items)
  | AStar :: p' =>
      (fix star (s : str) : bool :=
         amatch p' s || match s with [] => false | _ :: s' => star s' end) s
  end.

(* Ast::starts_with_literal_dot *)
Definition starts_with_literal_dot (p : list atom) : bool :=
  match p with AChar c :: _ => N.eqb c c_dot | _ => false end.

Definition starts_with_dot (s : str) : bool :=
  match s with c :: _ => N.eqb c c_dot | [] => false end.

(* Pattern::is_match, Body::Regex, literal_period = true: a name starting with a
   period is searched from index 1, where \A cannot match. *)
Definition pat_is_match (p : list atom) (name : str) : bool :=
  if starts_with_dot name && negb (starts_with_literal_dot p) then false
  else amatch p name.

(* ------------------------------------------------- one component of the field *)
Inductive cres :=
| CLit (s : str)          (* no scan: Some(Ok(literal)) or None (invalid pattern) *)
| CPat (p : list atom).   (* Some(Err(pattern)): the directory is scanned *)

Definition compile_comp (c : list achar) : cres :=
  let p := parse_atoms 0 (to_pchars false c) in
  match to_literal p with
  | Some s => CLit s
  | None => if existsb atom_invalid p then CLit (unquote c) else CPat p
  end.

Definition is_pat (r : cres) : bool := match r with CPat _ => true | _ => false end.

(* search_dir splits the remaining field at the first character whose value is
   `/`, whatever its attributes; the list of all components: *)
Fixpoint split_slash (l : list achar) : list (list achar) :=
  match l with
  | [] => [[]]
  | c :: l' =>
      if N.eqb (a_val c) c_slash then [] :: split_slash l'
      else match split_slash l' with
           | cur :: rest => (c :: cur) :: rest
           | [] => [[c]]
           end
  end.

(* ------------------------------------------------- the directory search *)
Section Search.
  (* the two system calls pathname expansion makes, on path strings *)
  Variable opendir : str -> option (list str).   (* entries, `.` and `..` included *)
  Variable stat : str -> bool.                   (* fstatat(AT_FDCWD, path, no follow) is Ok *)

  Definition dir_of (prefix : str) : str :=
    match prefix with [] => s_dot | _ => prefix end.

  Definition scan_ok (p : list atom) (name : str) : bool :=
    negb (str_eqb name s_dot) && negb (str_eqb name s_dotdot) && pat_is_match p name.

  (* SearchEnv::search_dir + push_component; the results in the order found *)
  Fixpoint search (prefix : str) (comps : list (list achar)) : list str :=
    match comps with
    | [] => []
    | c :: rest =>
        let push (file_exists : bool) (name : str) : list str :=
          let p := prefix ++ name in
          match rest with
          | [] => if file_exists || stat p then [p] else []
          | _ :: _ => search (p ++ [c_slash]) rest
          end in
        match compile_comp c with
        | CLit l => push false l
        | CPat pat =>
            match opendir (dir_of prefix) with
            | Some entries =>
                flat_map (fun name => if scan_ok pat name then push true name else []) entries
            | None => []
            end
        end
    end.
End Search.

(* ------------------------------------------------- sorting (String::cmp) *)
Fixpoint str_ltb (a b : str) : bool :=
  match a, b with
  | [], [] => false
  | [], _ :: _ => true
  | _ :: _, [] => false
  | x :: a', y :: b' => N.ltb x y || (N.eqb x y && str_ltb a' b')
  end.

Fixpoint insert_sorted (x : str) (l : list str) : list str :=
  match l with
  | [] => [x]
  | y :: l' => if str_ltb y x then y :: insert_sorted x l' else x :: l
  end.

Definition sort_strs (l : list str) : list str := fold_right insert_sorted [] l.

(* ------------------------------------------------- the virtual file system *)
Inductive kind :=
| KFile
| KDir (searchable : bool)      (* Mode::USER_EXEC *)
| KLink (target : str).

(* A tree as a table from absolute name paths to nodes; the root [] is implicit
   (a directory with the default mode 0o755). *)
Definition fs := list (list str * kind).

Definition key_eqb : list str -> list str -> bool := list_eqb str_eqb.

Fixpoint assoc_key (t : fs) (k : list str) : option kind :=
  match t with
  | [] => None
  | (k', v) :: t' => if key_eqb k' k then Some v else assoc_key t' k
  end.

Definition lookup (t : fs) (k : list str) : option kind :=
  match k with [] => Some (KDir true) | _ => assoc_key t k end.

(* unix_path components as FileSystem::get uses them: RootDir and CurDir are
   skipped, so only `..` and names remain *)
Inductive comp := CUp | CName (n : str).

Fixpoint split_on (d : N) (s : str) : list str :=
  match s with
  | [] => [[]]
  | c :: s' =>
      if N.eqb c d then [] :: split_on d s'
      else match split_on d s' with
           | cur :: rest => (c :: cur) :: rest
           | [] => [[c]]
           end
  end.

Definition comp_of_piece (p : str) : list comp :=
  if str_eqb p [] || str_eqb p s_dot then []
  else if str_eqb p s_dotdot then [CUp] else [CName p].

Definition path_comps (s : str) : list comp := flat_map comp_of_piece (split_on c_slash s).

Definition is_abs (s : str) : bool :=
  match s with c :: _ => N.eqb c c_slash | [] => false end.

Fixpoint ends_with_slash (s : str) : bool :=
  match s with
  | [] => false
  | [c] => N.eqb c c_slash
  | _ :: s' => ends_with_slash s'
  end.

(* `Path::components` silently drops a trailing `/` and `/.`, which still
   require the file to be a directory (FileSystem::get checks the bytes) *)
Fixpoint ends_with_slashdot (s : str) : bool :=
  match s with
  | [] => false
  | [a; b] => N.eqb a c_slash && N.eqb b c_dot
  | _ :: s' => ends_with_slashdot s'
  end.

Definition needs_dir (s : str) : bool := ends_with_slash s || ends_with_slashdot s.

(* FileSystem::get: walk with a stack of nodes ([cur] = names of the stack).
   `..` can be resolved only in a directory (ENOTDIR otherwise); a leading `.`
   is resolved at the root, which is a directory. *)
Fixpoint walk (t : fs) (cur : list str) (cs : list comp) : option (list str) :=
  match cs with
  | [] => Some cur
  | CUp :: cs =>
      match lookup t cur with
      | Some (KDir _) => walk t (removelast cur) cs
      | _ => None                             (* ENOTDIR *)
      end
  | CName n :: cs =>
      match lookup t cur with
      | Some (KDir true) =>
          match lookup t (cur ++ [n]) with
          | Some _ => walk t (cur ++ [n]) cs
          | None => None                      (* ENOENT *)
          end
      | _ => None                             (* ENOTDIR / EACCES *)
      end
  end.

Definition is_dir_kind (k : option kind) : bool :=
  match k with Some (KDir _) => true | _ => false end.

(* every walk starts at the root *)
Definition fs_get (t : fs) (cs : list comp) (trailing : bool) : option (list str) :=
  match walk t [] cs with
  | Some k => if trailing && negb (is_dir_kind (lookup t k)) then None else Some k
  | None => None
  end.

(* resolve_relative_path: [cwd.join(path)] (PathBuf::push).  The working directory
   of a process of the virtual system is the empty path unless it was changed. *)
Definition resolve_rel (cwd path : str) : str :=
  if is_abs path then path
  else match cwd with
       | [] => path
       | _ => if ends_with_slash cwd then cwd ++ path else cwd ++ c_slash :: path
       end.

Definition get_path (t : fs) (cwd path : str) : option (list str) :=
  let r := resolve_rel cwd path in fs_get t (path_comps r) (needs_dir r).

(* fstatat without following the final symbolic link *)
Definition fs_lstat (t : fs) (cwd path : str) : bool :=
  match get_path t cwd path with Some _ => true | None => false end.

(* (Not used by glob since file_exists stopped following links; kept as the
   model of what following means, for the example that a dangling link is found.)
   resolve_existing_file with follow_symlinks: at most _POSIX_SYMLOOP_MAX = 8
   rounds; only the final component is ever followed (FileSystem::get does not
   look through a link in the middle of a path) *)
Fixpoint stat_loop (t : fs) (rounds : nat) (cs : list comp) (trailing : bool) : bool :=
  match rounds with
  | O => false                                   (* ELOOP *)
  | S r =>
      match fs_get t cs trailing with
      | None => false
      | Some k =>
          match lookup t k with
          | Some (KLink target) =>
              stat_loop t r
                (if is_abs target then path_comps target
                 else removelast cs ++ path_comps target)
                (needs_dir target || str_eqb target s_dot)
          | _ => true
          end
      end
  end.

Definition symloop_max : nat := 8.

Definition fs_stat (t : fs) (cwd path : str) : bool :=
  let r := resolve_rel cwd path in
  stat_loop t symloop_max (path_comps r) (needs_dir r).

(* names of the children of the node [k] *)
Fixpoint children (t : fs) (k : list str) : list str :=
  match t with
  | [] => []
  | (k', _) :: t' =>
      match k' with
      | [] => children t' k
      | _ :: _ => if key_eqb (removelast k') k then last k' [] :: children t' k
                  else children t' k
      end
  end.

(* opendir: no read-permission check in the virtual system, the path is not
   followed if it is a link; VirtualDir lists `.` and `..` too *)
Definition fs_opendir (t : fs) (cwd path : str) : option (list str) :=
  match get_path t cwd path with
  | Some k =>
      if is_dir_kind (lookup t k) then Some (s_dot :: s_dotdot :: children t k) else None
  | None => None
  end.

(* ------------------------------------------------- glob *)
Inductive outcome :=
| GFields (l : list str)
| GPanic.           (* only ever an implementation output *)

(* the pathnames found, sorted (empty = nothing found) *)
Definition glob_paths (t : fs) (cwd : str) (field : list achar) : list str :=
  sort_strs (search (fs_opendir t cwd) (fs_lstat t cwd) [] (split_slash field)).

Definition glob_model (t : fs) (cwd : str) (noglob : bool) (field : list achar) : outcome :=
  if noglob then GFields [unquote field]
  else match glob_paths t cwd field with
       | [] => GFields [unquote field]
       | l => GFields l
       end.
