(* C05 — pathname expansion: executable model of
     yash-semantics/src/expansion/glob.rs   (to_pattern, search_dir, push_component,
                                             file_exists, glob)
     yash-fnmatch  (ast/parse.rs: Atom::parse, Bracket::parse, make_range;
                    ast.rs: to_literal, starts_with_literal_dot;
                    lib.rs: Pattern::is_match with literal_period, both anchors)
     yash-env/src/system/virtual/file_system.rs (FileSystem::get, VirtualDir) and
     virtual.rs (resolve_existing_file, fstatat, opendir)
   Characters are code points (N); strings are lists of code points. *)
From Yv Require Import Common.Base.

Local Open Scope N_scope.

(* ---------------------------------------------------------------- characters *)
Definition c_slash  : N := 47.
Definition c_dot    : N := 46.
Definition c_star   : N := 42.
Definition c_qm     : N := 63.
Definition c_lbr    : N := 91.
Definition c_rbr    : N := 93.
Definition c_bang   : N := 33.
Definition c_caret  : N := 94.
Definition c_hyphen : N := 45.
Definition c_bslash : N := 92.
Definition c_colon  : N := 58.
Definition c_equal  : N := 61.

Definition s_dot    : str := [c_dot].
Definition s_dotdot : str := [c_dot; c_dot].

(* ------------------------------------------------- attributed characters (attr.rs) *)
Inductive origin := OLiteral | OHard | OSoft.

Record achar := AC { a_val : N; a_origin : origin; a_quoted : bool; a_quoting : bool }.

Definition is_hard (o : origin) : bool := match o with OHard => true | _ => false end.

(* AttrField::remove_quotes_and_strip: skip_quotes, then strip *)
Definition unquote (l : list achar) : str :=
  map a_val (filter (fun c => negb (a_quoting c)) l).

(* ------------------------------------------------- pattern characters (char_iter.rs) *)
Inductive pchar := Normal (c : N) | Literal (c : N).

Definition pc_val (p : pchar) : N := match p with Normal c => c | Literal c => c end.

Definition is_normal (p : pchar) (c : N) : bool :=
  match p with Normal x => N.eqb x c | Literal _ => false end.

(* glob.rs to_pattern, the [Chars] iterator: [nq] is [next_quoted].  The flag is
   consumed by every character, quoting ones included. *)
Fixpoint to_pchars (nq : bool) (l : list achar) : list pchar :=
  match l with
  | [] => []
  | c :: l =>
      if a_quoting c then to_pchars false l
      else if nq || a_quoted c || is_hard (a_origin c)
      then Literal (a_val c) :: to_pchars false l
      else Normal (a_val c) :: to_pchars (N.eqb (a_val c) c_bslash) l
  end.

(* ------------------------------------------------- pattern syntax tree (ast.rs) *)
(* Bracket items.  Collating symbols, equivalence classes and character classes
   are outside this model's domain (the parser answers [BUnsup]); they belong
   to property C04. *)
Inductive bitem := IChar (c : N) | IRange (a b : N).

Inductive atom :=
| AChar (c : N)
| AAny
| AStar
| ABracket (complement : bool) (items : list bitem).

(* ast/parse.rs make_range; [items] is the vector in reverse (head = last element) *)
Definition make_range (items : list bitem) : list bitem :=
  match items with
  | IChar e :: IChar h :: IChar s :: rest =>
      if N.eqb h c_hyphen then IRange s e :: rest else items
  | _ => items
  end.

(* BracketAtom::parse_inner succeeds iff the character after the inner `[` is an
   unquoted `.`, `=` or `:` and the same unquoted character followed by an
   unquoted `]` occurs later (not overlapping the opening one). *)
Fixpoint has_adjacent (d : N) (l : list pchar) : bool :=
  match l with
  | a :: ((b :: _) as l') => (is_normal a d && is_normal b c_rbr) || has_adjacent d l'
  | _ => false
  end.

Definition inner_opens (l : list pchar) : bool :=
  match l with
  | Normal d :: r =>
      (N.eqb d c_dot || N.eqb d c_equal || N.eqb d c_colon) && has_adjacent d r
  | _ => false
  end.

Inductive bres :=
| BOk (complement : bool) (items : list bitem) (consumed : nat)
| BNone      (* no closing bracket: the `[` is an ordinary character *)
| BUnsup.    (* contains [. .] [= =] or [: :] *)

(* Bracket::parse; [n] counts the pattern characters consumed so far *)
Fixpoint bracket_loop (compl : bool) (items : list bitem) (ah : bool) (n : nat)
    (l : list pchar) : bres :=
  match l with
  | [] => BNone
  | pc :: l' =>
      if is_normal pc c_rbr && negb (match items with [] => true | _ => false end)
      then BOk compl (rev items) (S n)
      else if (is_normal pc c_bang || is_normal pc c_caret) && negb compl
              && (match items with [] => true | _ => false end)
      then bracket_loop true (if ah then make_range items else items)
                        (is_normal pc c_hyphen) (S n) l'
      else if is_normal pc c_lbr && inner_opens l' then BUnsup
      else
        let items1 := IChar (pc_val pc) :: items in
        bracket_loop compl (if ah then make_range items1 else items1)
                     (is_normal pc c_hyphen) (S n) l'
  end.

(* Ast::new / Atom::parse.  [skip] pattern characters were already consumed by
   a bracket expression. *)
Fixpoint parse_atoms (skip : nat) (l : list pchar) : option (list atom) :=
  match l with
  | [] => Some []
  | pc :: l' =>
      match skip with
      | S k => parse_atoms k l'
      | O =>
          let cons_ a k := option_map (cons a) (parse_atoms k l') in
          if is_normal pc c_qm then cons_ AAny O
          else if is_normal pc c_star then cons_ AStar O
          else if is_normal pc c_lbr then
            match bracket_loop false [] false 0 l' with
            | BOk compl items n => cons_ (ABracket compl items) n
            | BNone => cons_ (AChar c_lbr) O
            | BUnsup => None
            end
          else cons_ (AChar (pc_val pc)) O
      end
  end.

(* Ast::to_literal *)
Fixpoint to_literal (p : list atom) : option str :=
  match p with
  | [] => Some []
  | AChar c :: p => option_map (cons c) (to_literal p)
  | _ => None
  end.

(* The regex crate rejects a class range whose start is greater than its end
   (Pattern::parse_with_config then fails and to_pattern returns None). *)
Definition item_invalid (i : bitem) : bool :=
  match i with IRange a b => N.ltb b a | _ => false end.

Definition atom_invalid (a : atom) : bool :=
  match a with ABracket _ items => existsb item_invalid items | _ => false end.

(* ------------------------------------------------- matching (lib.rs is_match) *)
Definition item_match (x : N) (i : bitem) : bool :=
  match i with
  | IChar c => N.eqb x c
  | IRange a b => N.leb a x && N.leb x b
  end.

Definition bracket_match (compl : bool) (items : list bitem) (x : N) : bool :=
  xorb compl (existsb (item_match x) items).

(* both ends anchored; backtracking over `*` like the regex engine's priority search *)
Fixpoint amatch (p : list atom) (s : str) : bool :=
  match p with
  | [] => match s with [] => true | _ => false end
  | AChar c :: p' => match s with x :: s' => N.eqb x c && amatch p' s' | [] => false end
  | AAny :: p' => match s with _ :: s' => amatch p' s' | [] => false end
  | ABracket compl items :: p' =>
      match s with x :: s' => bracket_match compl items x && amatch p' s' | [] => false end
  | AStar :: p' =>
      (fix star (s : str) : bool :=
         amatch p' s || match s with [] => false | _ :: s' => star s' end) s
  end.

(* Ast::starts_with_literal_dot *)
Definition starts_with_literal_dot (p : list atom) : bool :=
  match p with AChar c :: _ => N.eqb c c_dot | _ => false end.

Definition starts_with_dot (s : str) : bool :=
  match s with c :: _ => N.eqb c c_dot | [] => false end.

(* Pattern::is_match, Body::Regex, literal_period = true: a name starting with a
   period is searched from index 1, where \A cannot match. *)
Definition pat_is_match (p : list atom) (name : str) : bool :=
  if starts_with_dot name && negb (starts_with_literal_dot p) then false
  else amatch p name.

(* ------------------------------------------------- one component of the field *)
Inductive cres :=
| CLit (s : str)          (* no scan: Some(Ok(literal)) or None (invalid pattern) *)
| CPat (p : list atom)    (* Some(Err(pattern)): the directory is scanned *)
| CUnsup.                 (* outside the model's domain *)

Definition compile_comp (c : list achar) : cres :=
  match parse_atoms 0 (to_pchars false c) with
  | None => CUnsup
  | Some p =>
      match to_literal p with
      | Some s => CLit s
      | None => if existsb atom_invalid p then CLit (unquote c) else CPat p
      end
  end.

Definition is_pat (r : cres) : bool := match r with CPat _ => true | _ => false end.
Definition is_unsup (r : cres) : bool := match r with CUnsup => true | _ => false end.

(* search_dir splits the remaining field at the first character whose value is
   `/`, whatever its attributes; the list of all components: *)
Fixpoint split_slash (l : list achar) : list (list achar) :=
  match l with
  | [] => [[]]
  | c :: l' =>
      if N.eqb (a_val c) c_slash then [] :: split_slash l'
      else match split_slash l' with
           | cur :: rest => (c :: cur) :: rest
           | [] => [[c]]
           end
  end.

(* ------------------------------------------------- the directory search *)
Section Search.
  (* the two system calls pathname expansion makes, on path strings *)
  Variable opendir : str -> option (list str).   (* entries, `.` and `..` included *)
  Variable stat : str -> bool.                   (* fstatat(AT_FDCWD, path, no follow) is Ok *)

  Definition dir_of (prefix : str) : str :=
    match prefix with [] => s_dot | _ => prefix end.

  Definition scan_ok (p : list atom) (name : str) : bool :=
    negb (str_eqb name s_dot) && negb (str_eqb name s_dotdot) && pat_is_match p name.

  (* SearchEnv::search_dir + push_component; the results in the order found *)
  Fixpoint search (prefix : str) (comps : list (list achar)) : list str :=
    match comps with
    | [] => []
    | c :: rest =>
        let push (file_exists : bool) (name : str) : list str :=
          let p := prefix ++ name in
          match rest with
          | [] => if file_exists || stat p then [p] else []
          | _ :: _ => search (p ++ [c_slash]) rest
          end in
        match compile_comp c with
        | CLit l => push false l
        | CPat pat =>
            match opendir (dir_of prefix) with
            | Some entries =>
                flat_map (fun name => if scan_ok pat name then push true name else []) entries
            | None => []
            end
        | CUnsup => []
        end
    end.
End Search.

(* ------------------------------------------------- sorting (String::cmp) *)
Fixpoint str_ltb (a b : str) : bool :=
  match a, b with
  | [], [] => false
  | [], _ :: _ => true
  | _ :: _, [] => false
  | x :: a', y :: b' => N.ltb x y || (N.eqb x y && str_ltb a' b')
  end.

Fixpoint insert_sorted (x : str) (l : list str) : list str :=
  match l with
  | [] => [x]
  | y :: l' => if str_ltb y x then y :: insert_sorted x l' else x :: l
  end.

Definition sort_strs (l : list str) : list str := fold_right insert_sorted [] l.

(* ------------------------------------------------- the virtual file system *)
Inductive kind :=
| KFile
| KDir (searchable : bool)      (* Mode::USER_EXEC *)
| KLink (target : str).

(* A tree as a table from absolute name paths to nodes; the root [] is implicit
   (a directory with the default mode 0o755). *)
Definition fs := list (list str * kind).

Definition key_eqb : list str -> list str -> bool := list_eqb str_eqb.

Fixpoint assoc_key (t : fs) (k : list str) : option kind :=
  match t with
  | [] => None
  | (k', v) :: t' => if key_eqb k' k then Some v else assoc_key t' k
  end.

Definition lookup (t : fs) (k : list str) : option kind :=
  match k with [] => Some (KDir true) | _ => assoc_key t k end.

(* unix_path components as FileSystem::get uses them: RootDir and CurDir are
   skipped, so only `..` and names remain *)
Inductive comp := CUp | CName (n : str).

Fixpoint split_on (d : N) (s : str) : list str :=
  match s with
  | [] => [[]]
  | c :: s' =>
      if N.eqb c d then [] :: split_on d s'
      else match split_on d s' with
           | cur :: rest => (c :: cur) :: rest
           | [] => [[c]]
           end
  end.

Definition comp_of_piece (p : str) : list comp :=
  if str_eqb p [] || str_eqb p s_dot then []
  else if str_eqb p s_dotdot then [CUp] else [CName p].

Definition path_comps (s : str) : list comp := flat_map comp_of_piece (split_on c_slash s).

Definition is_abs (s : str) : bool :=
  match s with c :: _ => N.eqb c c_slash | [] => false end.

Fixpoint ends_with_slash (s : str) : bool :=
  match s with
  | [] => false
  | [c] => N.eqb c c_slash
  | _ :: s' => ends_with_slash s'
  end.

(* `Path::components` silently drops a trailing `/` and `/.`, which still
   require the file to be a directory (FileSystem::get checks the bytes) *)
Fixpoint ends_with_slashdot (s : str) : bool :=
  match s with
  | [] => false
  | [a; b] => N.eqb a c_slash && N.eqb b c_dot
  | _ :: s' => ends_with_slashdot s'
  end.

Definition needs_dir (s : str) : bool := ends_with_slash s || ends_with_slashdot s.

(* FileSystem::get: walk with a stack of nodes ([cur] = names of the stack).
   `..` can be resolved only in a directory (ENOTDIR otherwise); a leading `.`
   is resolved at the root, which is a directory. *)
Fixpoint walk (t : fs) (cur : list str) (cs : list comp) : option (list str) :=
  match cs with
  | [] => Some cur
  | CUp :: cs =>
      match lookup t cur with
      | Some (KDir _) => walk t (removelast cur) cs
      | _ => None                             (* ENOTDIR *)
      end
  | CName n :: cs =>
      match lookup t cur with
      | Some (KDir true) =>
          match lookup t (cur ++ [n]) with
          | Some _ => walk t (cur ++ [n]) cs
          | None => None                      (* ENOENT *)
          end
      | _ => None                             (* ENOTDIR / EACCES *)
      end
  end.

Definition is_dir_kind (k : option kind) : bool :=
  match k with Some (KDir _) => true | _ => false end.

(* every walk starts at the root *)
Definition fs_get (t : fs) (cs : list comp) (trailing : bool) : option (list str) :=
  match walk t [] cs with
  | Some k => if trailing && negb (is_dir_kind (lookup t k)) then None else Some k
  | None => None
  end.

(* resolve_relative_path: [cwd.join(path)] (PathBuf::push).  The working directory
   of a process of the virtual system is the empty path unless it was changed. *)
Definition resolve_rel (cwd path : str) : str :=
  if is_abs path then path
  else match cwd with
       | [] => path
       | _ => if ends_with_slash cwd then cwd ++ path else cwd ++ c_slash :: path
       end.

Definition get_path (t : fs) (cwd path : str) : option (list str) :=
  let r := resolve_rel cwd path in fs_get t (path_comps r) (needs_dir r).

(* fstatat without following the final symbolic link *)
Definition fs_lstat (t : fs) (cwd path : str) : bool :=
  match get_path t cwd path with Some _ => true | None => false end.

(* (Not used by glob since file_exists stopped following links; kept as the
   model of what following means, for the example that a dangling link is found.)
   resolve_existing_file with follow_symlinks: at most _POSIX_SYMLOOP_MAX = 8
   rounds; only the final component is ever followed (FileSystem::get does not
   look through a link in the middle of a path) *)
Fixpoint stat_loop (t : fs) (rounds : nat) (cs : list comp) (trailing : bool) : bool :=
  match rounds with
  | O => false                                   (* ELOOP *)
  | S r =>
      match fs_get t cs trailing with
      | None => false
      | Some k =>
          match lookup t k with
          | Some (KLink target) =>
              stat_loop t r
                (if is_abs target then path_comps target
                 else removelast cs ++ path_comps target)
                (needs_dir target || str_eqb target s_dot)
          | _ => true
          end
      end
  end.

Definition symloop_max : nat := 8.

Definition fs_stat (t : fs) (cwd path : str) : bool :=
  let r := resolve_rel cwd path in
  stat_loop t symloop_max (path_comps r) (needs_dir r).

(* names of the children of the node [k] *)
Fixpoint children (t : fs) (k : list str) : list str :=
  match t with
  | [] => []
  | (k', _) :: t' =>
      match k' with
      | [] => children t' k
      | _ :: _ => if key_eqb (removelast k') k then last k' [] :: children t' k
                  else children t' k
      end
  end.

(* opendir: no read-permission check in the virtual system, the path is not
   followed if it is a link; VirtualDir lists `.` and `..` too *)
Definition fs_opendir (t : fs) (cwd path : str) : option (list str) :=
  match get_path t cwd path with
  | Some k =>
      if is_dir_kind (lookup t k) then Some (s_dot :: s_dotdot :: children t k) else None
  | None => None
  end.

(* ------------------------------------------------- glob *)
Inductive outcome :=
| GFields (l : list str)
| GPanic            (* only ever an implementation output *)
| GOutOfDomain.

Definition field_supported (field : list achar) : bool :=
  forallb (fun c => negb (is_unsup (compile_comp c))) (split_slash field).

(* the pathnames found, sorted (empty = nothing found) *)
Definition glob_paths (t : fs) (cwd : str) (field : list achar) : list str :=
  sort_strs (search (fs_opendir t cwd) (fs_lstat t cwd) [] (split_slash field)).

Definition glob_model (t : fs) (cwd : str) (noglob : bool) (field : list achar) : outcome :=
  if noglob then GFields [unquote field]
  else if negb (field_supported field) then GOutOfDomain
  else match glob_paths t cwd field with
       | [] => GFields [unquote field]
       | l => GFields l
       end.
