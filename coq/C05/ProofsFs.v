(* C05 — facts about the model of the virtual file system. *)
From Yv Require Import Common.Base C05.Model C05.Spec C05.ProofsMatch C05.ProofsSearch.

Local Open Scope N_scope.

Lemma key_eqb_eq a b : key_eqb a b = true <-> a = b.
Proof. apply list_eqb_spec. intros; apply str_eqb_eq. Qed.

Lemma assoc_key_in t k v : assoc_key t k = Some v -> In (k, v) t.
Proof.
  induction t as [|[k' v'] t IH]; cbn [assoc_key]; [discriminate|].
  destruct (key_eqb k' k) eqn:E.
  - apply key_eqb_eq in E. subst. intros H. injection H as <-. left; reflexivity.
  - intros H. right. auto.
Qed.

(* ------------------------------------------------------------------ listings *)
Lemma children_in t k n :
  In n (children t k) <->
  exists k' v, In (k', v) t /\ k' <> [] /\ removelast k' = k /\ last k' [] = n.
Proof.
  induction t as [|[k' v] t IH]; cbn [children].
  - split; [intros [] | intros (? & ? & [] & _)].
  - destruct k' as [|x k''].
    + rewrite IH. split.
      * intros (k2 & v2 & H & R). exists k2, v2. split; [right; exact H | exact R].
      * intros (k2 & v2 & [H|H] & Hne & R); [injection H as <- <-; contradiction|].
        exists k2, v2. auto.
    + destruct (key_eqb (removelast (x :: k'')) k) eqn:E.
      * apply key_eqb_eq in E. split.
        -- intros [Hn|Hn].
           ++ exists (x :: k''), v. split; [left; reflexivity|]. split; [discriminate|].
              split; [exact E | exact Hn].
           ++ apply IH in Hn as (k2 & v2 & H & R). exists k2, v2. split; [right; exact H | exact R].
        -- intros (k2 & v2 & [H|H] & Hne & R1 & R2).
           ++ injection H as <- <-. left. exact R2.
           ++ right. apply IH. exists k2, v2. auto.
      * rewrite IH. split.
        -- intros (k2 & v2 & H & R). exists k2, v2. split; [right; exact H | exact R].
        -- intros (k2 & v2 & [H|H] & Hne & R1 & R2).
           ++ injection H as <- <-. exfalso. apply key_eqb_eq in R1. congruence.
           ++ exists k2, v2. auto.
Qed.

Lemma keys_distinct_head k v t :
  keys_distinct ((k, v) :: t) = true -> (forall v', ~ In (k, v') t) /\ keys_distinct t = true.
Proof.
  cbn [keys_distinct]. rewrite andb_true_iff, negb_true_iff. intros [H1 H2]. split; [|exact H2].
  intros v' Hin. assert (existsb (fun kv => key_eqb (fst kv) k) t = true) as E.
  { apply existsb_exists. exists (k, v'). split; [exact Hin|]. apply key_eqb_eq. reflexivity. }
  congruence.
Qed.

Lemma children_nodup t k : keys_distinct t = true -> NoDup (children t k).
Proof.
  induction t as [|[k' v] t IH]; intros Hd; cbn [children]; [constructor|].
  apply keys_distinct_head in Hd as [Hh Hd].
  destruct k' as [|x k'']; [auto|].
  destruct (key_eqb (removelast (x :: k'')) k) eqn:E; [|auto].
  apply key_eqb_eq in E. constructor; [|auto].
  intros Hin. apply children_in in Hin as (k2 & v2 & Hin & Hne & R1 & R2).
  assert (k2 = x :: k'') as ->.
  { transitivity (removelast k2 ++ [last k2 []]); [apply app_removelast_last; exact Hne|].
    rewrite R1, R2, <- E. symmetry. apply app_removelast_last. discriminate. }
  exact (Hh _ Hin).
Qed.

Lemma wf_fs_entry t k v :
  wf_fs t = true -> In (k, v) t -> k <> [] /\ forallb name_ok k = true.
Proof.
  unfold wf_fs. rewrite andb_true_iff. intros [H _] Hin.
  rewrite forallb_forall in H. specialize (H _ Hin). cbn [fst snd] in H.
  rewrite !andb_true_iff in H. destruct H as [[[H1 H2] _] _]. split; [|exact H2].
  intros ->. discriminate.
Qed.

Lemma wf_fs_distinct t : wf_fs t = true -> keys_distinct t = true.
Proof. unfold wf_fs. rewrite andb_true_iff. tauto. Qed.

Lemma name_ok_spec n :
  name_ok n = true -> n <> s_dot /\ n <> s_dotdot /\ ~ In c_slash n.
Proof.
  unfold name_ok. rewrite !andb_true_iff, !negb_true_iff, !str_eqb_neq.
  intros [[[[_ H1] H2] H3] _]. repeat split; auto.
  intros Hin. assert (existsb (N.eqb c_slash) n = true) as E.
  { apply existsb_exists. exists c_slash. split; [exact Hin | apply N.eqb_refl]. }
  congruence.
Qed.

Lemma children_name_ok t k n :
  wf_fs t = true -> In n (children t k) -> name_ok n = true.
Proof.
  intros Hwf Hin. apply children_in in Hin as (k' & v & Hin & Hne & _ & <-).
  destruct (wf_fs_entry _ _ _ Hwf Hin) as [_ Hn]. rewrite forallb_forall in Hn. apply Hn.
  rewrite (app_removelast_last [] Hne) at 2. apply in_or_app. right. left. reflexivity.
Qed.

Lemma fs_opendir_entries t cwd d ents :
  fs_opendir t cwd d = Some ents -> exists k, ents = s_dot :: s_dotdot :: children t k.
Proof.
  unfold fs_opendir. destruct (get_path t cwd d) as [k|]; [|discriminate].
  destruct (is_dir_kind (lookup t k)); [|discriminate]. intros H. injection H as <-. eauto.
Qed.

Theorem fs_listing_ok t cwd : wf_fs t = true -> listing_ok (fs_opendir t cwd).
Proof.
  intros Hwf d ents Ho. apply fs_opendir_entries in Ho as (k & ->). split.
  - constructor; [|constructor].
    + intros [H|H]; [discriminate|]. apply (children_name_ok _ _ _ Hwf), name_ok_spec in H. tauto.
    + intros H. apply (children_name_ok _ _ _ Hwf), name_ok_spec in H. tauto.
    + apply children_nodup, wf_fs_distinct, Hwf.
  - intros n [<-|[<-|H]].
    + cbn. intros [H|[]]. discriminate.
    + cbn. intros [H|[H|[]]]; discriminate.
    + apply (children_name_ok _ _ _ Hwf), name_ok_spec in H. tauto.
Qed.

Lemma in_dedup x l : In x (dedup l) <-> In x l.
Proof.
  induction l as [|y l IH]; cbn [dedup]; [tauto|].
  destruct (existsb (str_eqb y) l) eqn:E.
  - rewrite IH. split; [intros H; right; exact H|]. intros [<-|H]; [|exact H].
    apply existsb_exists in E as (z & Hz & Ez). apply str_eqb_eq in Ez. subst. exact Hz.
  - cbn [In]. rewrite IH. tauto.
Qed.

Theorem fs_universe_covers t cwd d ents :
  fs_opendir t cwd d = Some ents -> incl ents (fs_universe t).
Proof.
  intros Ho. apply fs_opendir_entries in Ho as (k & ->). unfold fs_universe.
  intros n Hin. apply in_dedup. destruct Hin as [<-|[<-|H]].
  - left; reflexivity.
  - right; left; reflexivity.
  - right; right. apply children_in in H as (k' & v & Hin & _ & _ & <-).
    apply in_map_iff. exists (k', v). auto.
Qed.
