(* C05 — the two matchers decide the declarative matching relation. *)
From Yv Require Import Common.Base C05.Model C05.Spec.

Local Open Scope N_scope.

Lemma item_match_spec x i : item_match x i = true <-> ItemHas i x.
Proof.
  destruct i as [c|a b]; cbn [item_match ItemHas].
  - apply N.eqb_eq.
  - rewrite andb_true_iff, !N.leb_le. tauto.
Qed.

Lemma item_has_spec x i : item_has i x = true <-> ItemHas i x.
Proof.
  destruct i as [c|a b]; cbn [item_has ItemHas].
  - rewrite N.eqb_eq. split; congruence.
  - rewrite andb_true_iff, !negb_true_iff, !N.ltb_ge. tauto.
Qed.

Lemma existsb_iff {A} (f : A -> bool) (P : A -> Prop) l :
  (forall a, f a = true <-> P a) ->
  (existsb f l = true <-> exists a, In a l /\ P a).
Proof.
  intros Hf. rewrite existsb_exists. split; intros (i & Hi & H); exists i; split; auto; apply Hf; auto.
Qed.

Lemma bracket_match_spec compl items x :
  bracket_match compl items x = true <-> BracketHas compl items x.
Proof.
  unfold bracket_match, BracketHas.
  pose proof (existsb_iff (item_match x) (fun i => ItemHas i x) items
                (fun i => item_match_spec x i)) as E.
  destruct (existsb (item_match x) items); destruct compl; cbn [xorb].
  - split; [discriminate | intros H; exfalso; apply H, E; reflexivity].
  - split; [intros _; apply E; reflexivity | reflexivity].
  - split; [intros _ H; apply E in H; discriminate | reflexivity].
  - split; [discriminate | intros H; apply E in H; discriminate].
Qed.

Lemma atom_has_bracket compl items x :
  atom_has (ABracket compl items) x = true <-> BracketHas compl items x.
Proof.
  cbn [atom_has]. unfold BracketHas.
  pose proof (existsb_iff (fun i => item_has i x) (fun i => ItemHas i x) items
                (fun i => item_has_spec x i)) as E.
  destruct (existsb (fun i => item_has i x) items); destruct compl; cbn [negb].
  - split; [discriminate | intros H; exfalso; apply H, E; reflexivity].
  - split; [intros _; apply E; reflexivity | reflexivity].
  - split; [intros _ H; apply E in H; discriminate | reflexivity].
  - split; [discriminate | intros H; apply E in H; discriminate].
Qed.

(* ---------------------------------------------------------------- amatch *)
Lemma amatch_star p s :
  amatch (AStar :: p) s =
  amatch p s || match s with [] => false | _ :: s' => amatch (AStar :: p) s' end.
Proof. destruct s; reflexivity. Qed.

Lemma amatch_star_app p s1 s2 : amatch p s2 = true -> amatch (AStar :: p) (s1 ++ s2) = true.
Proof.
  intros H. induction s1 as [|x s1 IH].
  - cbn [app]. rewrite amatch_star, H. reflexivity.
  - cbn [app]. rewrite amatch_star, IH. apply orb_true_r.
Qed.

Lemma amatch_complete p s : Matches p s -> amatch p s = true.
Proof.
  induction 1 as [|c p s _ IH|x p s _ IH|compl items x p s Hb _ IH|p s1 s2 _ IH].
  - reflexivity.
  - cbn [amatch]. rewrite N.eqb_refl, IH. reflexivity.
  - exact IH.
  - cbn [amatch]. apply bracket_match_spec in Hb. rewrite Hb, IH. reflexivity.
  - apply amatch_star_app, IH.
Qed.

Lemma amatch_sound p : forall s, amatch p s = true -> Matches p s.
Proof.
  induction p as [|a p IH]; intros s H.
  - destruct s; [constructor | discriminate].
  - destruct a as [c| | |compl items].
    + destruct s as [|x s]; [discriminate|]. cbn [amatch] in H.
      apply andb_true_iff in H as [E H]. apply N.eqb_eq in E. subst x. constructor; auto.
    + destruct s as [|x s]; [discriminate|]. constructor; auto.
    + induction s as [|x s IHs].
      * rewrite amatch_star, orb_false_r in H. apply (M_star p [] []). auto.
      * rewrite amatch_star in H. apply orb_true_iff in H as [H|H].
        -- apply (M_star p [] (x :: s)). auto.
        -- specialize (IHs H). inversion IHs as [| | | |p' s1 s2 Hm]; subst.
           apply (M_star p (x :: s1) s2). exact Hm.
    + destruct s as [|x s]; [discriminate|]. cbn [amatch] in H.
      apply andb_true_iff in H as [E H]. apply bracket_match_spec in E. constructor; auto.
Qed.

Theorem amatch_spec p s : amatch p s = true <-> Matches p s.
Proof. split; [apply amatch_sound | apply amatch_complete]. Qed.

(* ---------------------------------------------------------------- omatch *)
Lemma omatch_star p s :
  omatch (AStar :: p) s = existsb (fun k => omatch p (skipn k s)) (seq 0 (S (length s))).
Proof. reflexivity. Qed.

Lemma omatch_complete p s : Matches p s -> omatch p s = true.
Proof.
  induction 1 as [|c p s _ IH|x p s _ IH|compl items x p s Hb _ IH|p s1 s2 _ IH].
  - reflexivity.
  - cbn [omatch atom_has]. rewrite N.eqb_refl, IH. reflexivity.
  - cbn [omatch atom_has]. exact IH.
  - cbn [omatch]. apply atom_has_bracket in Hb. rewrite Hb, IH. reflexivity.
  - rewrite omatch_star. apply existsb_exists. exists (length s1). split.
    + apply in_seq. rewrite app_length. lia.
    + rewrite skipn_app, skipn_all, Nat.sub_diag. cbn. exact IH.
Qed.

Lemma omatch_sound p : forall s, omatch p s = true -> Matches p s.
Proof.
  induction p as [|a p IH]; intros s H.
  - destruct s; [constructor | discriminate].
  - destruct a as [c| | |compl items].
    + destruct s as [|x s]; [discriminate|]. cbn [omatch atom_has] in H.
      apply andb_true_iff in H as [E H]. apply N.eqb_eq in E. subst x. constructor; auto.
    + destruct s as [|x s]; [discriminate|]. cbn [omatch atom_has andb] in H. constructor; auto.
    + rewrite omatch_star in H. apply existsb_exists in H as (k & _ & H).
      rewrite <- (firstn_skipn k s). constructor. auto.
    + destruct s as [|x s]; [discriminate|]. cbn [omatch] in H.
      apply andb_true_iff in H as [E H]. apply atom_has_bracket in E. constructor; auto.
Qed.

Theorem omatch_spec p s : omatch p s = true <-> Matches p s.
Proof. split; [apply omatch_sound | apply omatch_complete]. Qed.

(* ---------------------------------------------------------------- the period rule *)
Lemma period_rule p name :
  (negb (starts_with_dot name) || starts_with_literal_dot p) = true <-> PeriodOk p name.
Proof.
  unfold PeriodOk. split.
  - intros H r ->. cbn [starts_with_dot] in H. rewrite N.eqb_refl in H. cbn in H.
    destruct p as [|[c| | |] p']; try discriminate.
    cbn [starts_with_literal_dot] in H. apply N.eqb_eq in H. subst. eauto.
  - intros H. destruct name as [|c r]; [reflexivity|].
    cbn [starts_with_dot]. destruct (N.eqb c c_dot) eqn:E; [|reflexivity].
    apply N.eqb_eq in E. subst c. destruct (H r eq_refl) as (p' & ->).
    cbn. reflexivity.
Qed.

Theorem pat_is_match_spec p name : pat_is_match p name = true <-> PMatch p name.
Proof.
  unfold pat_is_match, PMatch. rewrite <- period_rule, <- amatch_spec.
  destruct (starts_with_dot name), (starts_with_literal_dot p); cbn; intuition congruence.
Qed.

Theorem pmatchb_spec p name : pmatchb p name = true <-> PMatch p name.
Proof.
  unfold pmatchb, PMatch. rewrite andb_true_iff, period_rule, omatch_spec. tauto.
Qed.

Lemma pmatchb_pat_is_match p name : pmatchb p name = pat_is_match p name.
Proof.
  apply eq_true_iff_eq. rewrite pmatchb_spec, pat_is_match_spec. tauto.
Qed.
