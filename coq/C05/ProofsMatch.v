(* C05 — the two matchers decide the declarative matching relation. *)
From Yv Require Import Common.Base C05.Model C05.Spec.

Local Open Scope N_scope.

Lemma existsb_iff {A} (f : A -> bool) (P : A -> Prop) l :
  (forall a, f a = true <-> P a) ->
  (existsb f l = true <-> exists a, In a l /\ P a).
Proof.
  intros Hf. rewrite existsb_exists. split; intros (i & Hi & H); exists i; split; auto; apply Hf; auto.
Qed.

(* ---------------------------------------------------------------- items *)
Lemma endpoint_first a c : atom_first a = Some c <-> Endpoint a c.
Proof.
  destruct a as [x|v|n]; cbn [atom_first Endpoint].
  - split; [intros H; injection H; auto | intros ->; reflexivity].
  - destruct v as [|h t].
    + split; [discriminate | intros (r & H); discriminate].
    + split; [intros H; injection H as ->; eauto | intros (r & H); injection H as -> _; reflexivity].
  - split; [discriminate | intros []].
Qed.

Lemma endpoint_of_first a : endpoint_of a = atom_first a.
Proof. destruct a as [x|[|h t]|n]; reflexivity. Qed.

Lemma range_spec a b x :
  match atom_first a, atom_first b with
  | Some lo, Some hi => N.leb lo x && N.leb x hi
  | _, _ => false
  end = true <->
  exists lo hi, Endpoint a lo /\ Endpoint b hi /\ lo <= x /\ x <= hi.
Proof.
  destruct (atom_first a) as [lo|] eqn:Ea.
  - destruct (atom_first b) as [hi|] eqn:Eb.
    + rewrite andb_true_iff, !N.leb_le. split.
      * intros [H1 H2]. exists lo, hi. repeat split; auto; apply endpoint_first; auto.
      * intros (lo' & hi' & H1 & H2 & H3 & H4). apply endpoint_first in H1, H2.
        rewrite Ea in H1. rewrite Eb in H2. injection H1 as <-. injection H2 as <-. auto.
    + split; [discriminate|]. intros (lo' & hi' & _ & H2 & _). apply endpoint_first in H2. congruence.
  - split; [discriminate|]. intros (lo' & hi' & H1 & _). apply endpoint_first in H1. congruence.
Qed.

Lemma class_spec name x :
  match class_pred name with Some f => f x | None => false end = true <->
  exists f, class_pred name = Some f /\ f x = true.
Proof.
  destruct (class_pred name) as [f|].
  - split; [eauto | intros (f' & E & H); injection E as <-; exact H].
  - split; [discriminate | intros (f' & E & _); discriminate].
Qed.

Lemma item_match_spec x i : item_match x i = true <-> ItemHas i x.
Proof.
  destruct i as [[c|v|name]|a b]; cbn [item_match ItemHas].
  - apply N.eqb_eq.
  - destruct v as [|c [|d t]].
    + split; discriminate.
    + rewrite N.eqb_eq. split; [intros ->; reflexivity | intros H; injection H; auto].
    + split; discriminate.
  - apply class_spec.
  - apply range_spec.
Qed.

Lemma item_has_spec x i : item_has i x = true <-> ItemHas i x.
Proof.
  destruct i as [[c|v|name]|a b]; cbn [item_has ItemHas].
  - rewrite N.eqb_eq. split; congruence.
  - apply str_eqb_eq.
  - apply class_spec.
  - rewrite (endpoint_of_first a), (endpoint_of_first b), <- range_spec.
    destruct (atom_first a) as [lo|]; [|reflexivity]. destruct (atom_first b) as [hi|]; [|reflexivity].
    rewrite !andb_true_iff, !negb_true_iff, !N.ltb_ge, !N.leb_le. tauto.
Qed.

Lemma bracket_match_spec compl items x :
  bracket_match compl items x = true <-> BracketHas compl items x.
Proof.
  unfold bracket_match, BracketHas.
  pose proof (existsb_iff (item_match x) (fun i => ItemHas i x) items
                (fun i => item_match_spec x i)) as E.
  destruct (existsb (item_match x) items); destruct compl; cbn [xorb].
  - split; [discriminate | intros H; exfalso; apply H, E; reflexivity].
  - split; [intros _; apply E; reflexivity | reflexivity].
  - split; [intros _ H; apply E in H; discriminate | reflexivity].
  - split; [discriminate | intros H; apply E in H; discriminate].
Qed.

Lemma atom_has_bracket compl items x :
  atom_has (ABracket compl items) x = true <-> BracketHas compl items x.
Proof.
  cbn [atom_has]. unfold BracketHas.
  pose proof (existsb_iff (fun i => item_has i x) (fun i => ItemHas i x) items
                (fun i => item_has_spec x i)) as E.
  destruct (existsb (fun i => item_has i x) items); destruct compl; cbn [negb].
  - split; [discriminate | intros H; exfalso; apply H, E; reflexivity].
  - split; [intros _; apply E; reflexivity | reflexivity].
  - split; [intros _ H; apply E in H; discriminate | reflexivity].
  - split; [discriminate | intros H; apply E in H; discriminate].
Qed.

(* ---------------------------------------------------------------- multi-character elements *)
Lemma atom_multi_spec v : atom_multi (BColl v) = true <-> (2 <= length v)%nat.
Proof.
  destruct v as [|a [|b t]]; cbn [atom_multi length]; split; try discriminate; try lia; reflexivity.
Qed.

Lemma item_string_spec i v :
  item_string i = Some v <-> i = IAtom (BColl v) /\ (2 <= length v)%nat.
Proof.
  destruct i as [[c|w|name]|a b]; cbn [item_string]; try (split; [discriminate | intros [H _]; discriminate]).
  destruct (atom_multi (BColl w)) eqn:E.
  - apply atom_multi_spec in E. split.
    + intros H. injection H as <-. auto.
    + intros [H _]. injection H as <-. reflexivity.
  - split; [discriminate|]. intros [H L]. injection H as <-. apply atom_multi_spec in L. congruence.
Qed.

Lemma strip_prefix_app v s : strip_prefix v (v ++ s) = Some s.
Proof. induction v as [|c v IH]; cbn [strip_prefix app]; [reflexivity|]. rewrite N.eqb_refl. exact IH. Qed.

Lemma strip_prefix_spec v : forall s s', strip_prefix v s = Some s' -> s = v ++ s'.
Proof.
  induction v as [|c v IH]; intros s s' H; cbn [strip_prefix] in H.
  - injection H as <-. reflexivity.
  - destruct s as [|x s]; [discriminate|]. destruct (N.eqb x c) eqn:E; [|discriminate].
    apply N.eqb_eq in E. subst. cbn [app]. f_equal. auto.
Qed.

Lemma firstn_length_app (v s : str) : firstn (length v) (v ++ s) = v.
Proof. induction v as [|c v IH]; cbn [length firstn app]; [reflexivity|]. f_equal. exact IH. Qed.

Lemma skipn_length_app (v s : str) : skipn (length v) (v ++ s) = s.
Proof. induction v as [|c v IH]; cbn [length skipn app]; [reflexivity|]. exact IH. Qed.

(* ---------------------------------------------------------------- amatch *)
Lemma amatch_star p s :
  amatch (AStar :: p) s =
  amatch p s || match s with [] => false | _ :: s' => amatch (AStar :: p) s' end.
Proof. destruct s; reflexivity. Qed.

Lemma amatch_bracket compl items p s :
  amatch (ABracket compl items :: p) s =
  match s with x :: s' => bracket_match compl items x && amatch p s' | [] => false end
  || (negb compl &&
      existsb (fun i => match item_string i with
                        | Some v => match strip_prefix v s with
                                    | Some s' => amatch p s'
                                    | None => false
                                    end
                        | None => false
                        end) items).
Proof. reflexivity. Qed.

Lemma amatch_star_app p s1 s2 : amatch p s2 = true -> amatch (AStar :: p) (s1 ++ s2) = true.
Proof.
  intros H. induction s1 as [|x s1 IH].
  - cbn [app]. rewrite amatch_star, H. reflexivity.
  - cbn [app]. rewrite amatch_star, IH. apply orb_true_r.
Qed.

Lemma amatch_complete p s : Matches p s -> amatch p s = true.
Proof.
  induction 1 as [|c p s _ IH|x p s _ IH|compl items x p s Hb _ IH|items v p s Hin Hl _ IH|p s1 s2 _ IH].
  - reflexivity.
  - cbn [amatch]. rewrite N.eqb_refl, IH. reflexivity.
  - exact IH.
  - rewrite amatch_bracket. apply bracket_match_spec in Hb. rewrite Hb, IH. reflexivity.
  - rewrite amatch_bracket. apply orb_true_iff. right. cbn [negb andb].
    apply existsb_exists. exists (IAtom (BColl v)). split; [exact Hin|].
    assert (item_string (IAtom (BColl v)) = Some v) as -> by (apply item_string_spec; auto).
    rewrite strip_prefix_app. exact IH.
  - apply amatch_star_app, IH.
Qed.

Lemma amatch_sound p : forall s, amatch p s = true -> Matches p s.
Proof.
  induction p as [|a p IH]; intros s H.
  - destruct s; [constructor | discriminate].
  - destruct a as [c| | |compl items].
    + destruct s as [|x s]; [discriminate|]. cbn [amatch] in H.
      apply andb_true_iff in H as [E H]. apply N.eqb_eq in E. subst x. constructor; auto.
    + destruct s as [|x s]; [discriminate|]. constructor; auto.
    + induction s as [|x s IHs].
      * rewrite amatch_star, orb_false_r in H. apply (M_star p [] []). auto.
      * rewrite amatch_star in H. apply orb_true_iff in H as [H|H].
        -- apply (M_star p [] (x :: s)). auto.
        -- specialize (IHs H). inversion IHs as [| | | | |p' s1 s2 Hm]; subst.
           apply (M_star p (x :: s1) s2). exact Hm.
    + rewrite amatch_bracket in H. apply orb_true_iff in H as [H|H].
      * destruct s as [|x s]; [discriminate|].
        apply andb_true_iff in H as [E H]. apply bracket_match_spec in E. constructor; auto.
      * apply andb_true_iff in H as [Ec H]. destruct compl; [discriminate|].
        apply existsb_exists in H as (i & Hin & H).
        destruct (item_string i) as [v|] eqn:Ei; [|discriminate].
        destruct (strip_prefix v s) as [s'|] eqn:Es; [|discriminate].
        apply item_string_spec in Ei as [-> Hl]. apply strip_prefix_spec in Es. subst s.
        apply M_coll; auto.
Qed.

Theorem amatch_spec p s : amatch p s = true <-> Matches p s.
Proof. split; [apply amatch_sound | apply amatch_complete]. Qed.

(* ---------------------------------------------------------------- omatch *)
Lemma omatch_star p s :
  omatch (AStar :: p) s = existsb (fun k => omatch p (skipn k s)) (seq 0 (S (length s))).
Proof. reflexivity. Qed.

Lemma omatch_step a p s :
  a <> AStar ->
  omatch (a :: p) s =
  match s with x :: s' => atom_has a x && omatch p s' | [] => false end
  || existsb (fun v => str_eqb (firstn (length v) s) v && omatch p (skipn (length v) s))
             (coll_strings a).
Proof. destruct a; try reflexivity. contradiction. Qed.

Lemma in_coll_strings a v :
  In v (coll_strings a) <->
  exists items, a = ABracket false items /\ In (IAtom (BColl v)) items /\ (2 <= length v)%nat.
Proof.
  destruct a as [c| | |compl items]; cbn [coll_strings];
    try (split; [intros [] | intros (it & E & _); discriminate]).
  destruct compl; [split; [intros [] | intros (it & E & _); discriminate]|].
  rewrite in_flat_map. split.
  - intros (i & Hin & H). destruct i as [[c|w|n]|x y]; try destruct H.
    destruct (Nat.leb 2 (length w)) eqn:E; [|destruct H]. destruct H as [<-|[]].
    apply Nat.leb_le in E. exists items. auto.
  - intros (it & E & Hin & Hl). injection E as <-. exists (IAtom (BColl v)). split; [exact Hin|].
    apply Nat.leb_le in Hl. rewrite Hl. left; reflexivity.
Qed.

Lemma omatch_complete p s : Matches p s -> omatch p s = true.
Proof.
  induction 1 as [|c p s _ IH|x p s _ IH|compl items x p s Hb _ IH|items v p s Hin Hl _ IH|p s1 s2 _ IH].
  - reflexivity.
  - rewrite omatch_step by discriminate. cbn [atom_has]. rewrite N.eqb_refl, IH. reflexivity.
  - rewrite omatch_step by discriminate. cbn [atom_has]. rewrite IH. reflexivity.
  - rewrite omatch_step by discriminate. apply atom_has_bracket in Hb. rewrite Hb, IH. reflexivity.
  - rewrite omatch_step by discriminate. apply orb_true_iff. right.
    apply existsb_exists. exists v. split.
    + apply in_coll_strings. exists items. auto.
    + rewrite firstn_length_app, skipn_length_app, IH, andb_true_r. apply str_eqb_eq. reflexivity.
  - rewrite omatch_star. apply existsb_exists. exists (length s1). split.
    + apply in_seq. rewrite app_length. lia.
    + rewrite skipn_length_app. exact IH.
Qed.

Lemma omatch_sound p : forall s, omatch p s = true -> Matches p s.
Proof.
  induction p as [|a p IH]; intros s H.
  - destruct s; [constructor | discriminate].
  - destruct a as [c| | |compl items].
    + rewrite omatch_step in H by discriminate. cbn [coll_strings existsb] in H.
      rewrite orb_false_r in H. destruct s as [|x s]; [discriminate|]. cbn [atom_has] in H.
      apply andb_true_iff in H as [E H]. apply N.eqb_eq in E. subst x. constructor; auto.
    + rewrite omatch_step in H by discriminate. cbn [coll_strings existsb] in H.
      rewrite orb_false_r in H. destruct s as [|x s]; [discriminate|]. cbn [atom_has andb] in H.
      constructor; auto.
    + rewrite omatch_star in H. apply existsb_exists in H as (k & _ & H).
      rewrite <- (firstn_skipn k s). constructor. auto.
    + rewrite omatch_step in H by discriminate. apply orb_true_iff in H as [H|H].
      * destruct s as [|x s]; [discriminate|].
        apply andb_true_iff in H as [E H]. apply atom_has_bracket in E. constructor; auto.
      * apply existsb_exists in H as (v & Hv & H). apply andb_true_iff in H as [E H].
        apply str_eqb_eq in E. apply in_coll_strings in Hv as (it & Eit & Hin & Hl).
        injection Eit as -> <-. rewrite <- (firstn_skipn (length v) s), E.
        apply M_coll; auto.
Qed.

Theorem omatch_spec p s : omatch p s = true <-> Matches p s.
Proof. split; [apply omatch_sound | apply omatch_complete]. Qed.

(* ---------------------------------------------------------------- the period rule *)
Lemma period_rule p name :
  (negb (starts_with_dot name) || starts_with_literal_dot p) = true <-> PeriodOk p name.
Proof.
  unfold PeriodOk. split.
  - intros H r ->. cbn [starts_with_dot] in H. rewrite N.eqb_refl in H. cbn in H.
    destruct p as [|[c| | |] p']; try discriminate.
    cbn [starts_with_literal_dot] in H. apply N.eqb_eq in H. subst. eauto.
  - intros H. destruct name as [|c r]; [reflexivity|].
    cbn [starts_with_dot]. destruct (N.eqb c c_dot) eqn:E; [|reflexivity].
    apply N.eqb_eq in E. subst c. destruct (H r eq_refl) as (p' & ->).
    cbn. reflexivity.
Qed.

Theorem pat_is_match_spec p name : pat_is_match p name = true <-> PMatch p name.
Proof.
  unfold pat_is_match, PMatch. rewrite <- period_rule, <- amatch_spec.
  destruct (starts_with_dot name), (starts_with_literal_dot p); cbn; intuition congruence.
Qed.

Theorem pmatchb_spec p name : pmatchb p name = true <-> PMatch p name.
Proof.
  unfold pmatchb, PMatch. rewrite andb_true_iff, period_rule, omatch_spec. tauto.
Qed.

Lemma pmatchb_pat_is_match p name : pmatchb p name = pat_is_match p name.
Proof.
  apply eq_true_iff_eq. rewrite pmatchb_spec, pat_is_match_spec. tauto.
Qed.
