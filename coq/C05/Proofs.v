(* C05 — the property theorems (stated again, pinned, in Properties.v). *)
From Yv Require Import Common.Base C05.Model C05.Spec C05.ProofsMatch C05.ProofsSearch C05.ProofsFs.
From Coq Require Import Sorting.Sorted.

Local Open Scope N_scope.

(* ------------------------------------------------------------------ exactness *)
Lemma glob_exact_l t cwd field p : In p (glob_paths t cwd field) <-> ExpectedL t cwd field p.
Proof. unfold glob_paths, ExpectedL. rewrite in_sort_strs. apply search_expected. Qed.

Lemma glob_sound_l t cwd field p : In p (glob_paths t cwd field) -> ExpectedL t cwd field p.
Proof. apply glob_exact_l. Qed.

Lemma glob_complete_l t cwd field p : ExpectedL t cwd field p -> In p (glob_paths t cwd field).
Proof. apply glob_exact_l. Qed.

(* ------------------------------------------------------------------ order *)
Lemma glob_sorted_nodup_l t cwd field :
  wf_fs t = true ->
  Sorted (fun a b => str_ltb a b = true) (glob_paths t cwd field) /\ NoDup (glob_paths t cwd field).
Proof.
  intros Hwf. pose proof (search_nodup _ (fs_lstat t cwd) (fs_listing_ok t cwd Hwf) (split_slash field) []) as H.
  unfold glob_paths. split; [apply sort_strs_sorted | apply sort_strs_nodup]; exact H.
Qed.

(* ------------------------------------------------------------------ names of a pathname *)
Lemma split_on_noslash d s : ~ In d s -> split_on d s = [s].
Proof.
  induction s as [|c s IH]; intros H; cbn [split_on]; [reflexivity|].
  destruct (N.eqb c d) eqn:E.
  - apply N.eqb_eq in E. subst. exfalso. apply H. left; reflexivity.
  - rewrite IH; [reflexivity|]. intros Hin. apply H. right; exact Hin.
Qed.

Lemma split_on_app d a b : ~ In d a -> split_on d (a ++ d :: b) = a :: split_on d b.
Proof.
  induction a as [|c a IH]; intros H; cbn [app split_on].
  - rewrite N.eqb_refl. reflexivity.
  - destruct (N.eqb c d) eqn:E.
    + apply N.eqb_eq in E. subst. exfalso. apply H. left; reflexivity.
    + rewrite IH; [reflexivity|]. intros Hin. apply H. right; exact Hin.
Qed.

Lemma split_join names :
  names <> [] -> Forall (fun n => ~ In c_slash n) names -> split_on c_slash (join names) = names.
Proof.
  induction names as [|n ns IH]; intros Hne Hf; [contradiction|].
  inversion Hf as [|? ? Hn Hns]; subst. destruct ns as [|n2 ns].
  - cbn [join]. apply split_on_noslash. exact Hn.
  - rewrite join_cons, split_on_app by exact Hn. f_equal. apply IH; [discriminate | exact Hns].
Qed.

Lemma Forall_of_nth {A} (P : A -> Prop) (l : list A) d :
  (forall i, (i < length l)%nat -> P (nth i l d)) -> Forall P l.
Proof.
  induction l as [|x l IH]; intros H; constructor.
  - apply (H 0%nat). cbn; lia.
  - apply IH. intros i Hi. apply (H (S i)). cbn; lia.
Qed.

Lemma nth_of_Forall {A} (P : A -> Prop) (l : list A) d i :
  Forall P l -> (i < length l)%nat -> P (nth i l d).
Proof.
  intros H. revert i. induction H as [|x l Hx _ IH]; intros i Hi; [cbn in Hi; lia|].
  destruct i; [exact Hx|]. apply IH. cbn in Hi. lia.
Qed.

Lemma expected_names_noslash od field names :
  listing_ok od ->
  length names = length (split_slash field) ->
  (forall i, (i < length (split_slash field))%nat ->
             comp_ok od (prefix_of names i) (nth i (split_slash field) []) (nth i names [])) ->
  Forall (fun n => ~ In c_slash n) names.
Proof.
  intros Hok L A. apply (@Forall_of_nth str (fun n => ~ In c_slash n) names []). intros i Hi.
  rewrite L in Hi.
  specialize (A i Hi). unfold comp_ok in A.
  pose proof (nth_of_Forall _ _ [] i (split_slash_no_slash field) Hi) as Hc. cbn beta in Hc.
  destruct (compile_comp (nth i (split_slash field) [])) as [l|pat] eqn:Ec.
  - rewrite A. apply literal_is_text in Ec. subst l. apply unquote_no_slash. exact Hc.
  - destruct A as ((ents & Ho & Hin) & _). destruct (Hok _ _ Ho) as [_ Hs]. apply Hs. exact Hin.
Qed.

Lemma glob_no_dot_dotdot_l t cwd field p i :
  wf_fs t = true -> In p (glob_paths t cwd field) ->
  is_pat (compile_comp (nth i (split_slash field) [])) = true ->
  nth i (split_on c_slash p) [] <> s_dot /\ nth i (split_on c_slash p) [] <> s_dotdot.
Proof.
  intros Hwf Hin Hp. apply glob_exact_l in Hin as (names & L & -> & A & _).
  assert (i < length (split_slash field))%nat as Hi.
  { destruct (Nat.lt_ge_cases i (length (split_slash field))) as [H|H]; [exact H|].
    rewrite nth_overflow in Hp by exact H. discriminate. }
  rewrite split_join.
  - specialize (A i Hi). unfold comp_ok in A.
    destruct (compile_comp (nth i (split_slash field) [])); try discriminate. tauto.
  - intros ->. cbn in L. pose proof (split_slash_nonempty field). destruct (split_slash field); [contradiction|discriminate].
  - eapply expected_names_noslash; eauto. apply fs_listing_ok. exact Hwf.
Qed.

(* ------------------------------------------------------------------ quoted text *)
Lemma to_pchars_lit nq c :
  (forall x, In x c -> lit_char x) -> to_pchars nq c = map Literal (unquote c).
Proof.
  unfold unquote. revert nq. induction c as [|x c IH]; intros nq H; cbn [to_pchars filter map]; [reflexivity|].
  assert (forall y, In y c -> lit_char y) as H' by (intros y Hy; apply H; right; exact Hy).
  destruct (a_quoting x) eqn:Eq; cbn [negb]; [apply IH; exact H'|].
  destruct (H x (or_introl eq_refl)) as [Hq|[Hq|Hq]]; [congruence| |].
  - rewrite Hq, orb_true_r. cbn [orb map]. rewrite IH by exact H'. reflexivity.
  - rewrite Hq. cbn [is_hard]. rewrite orb_true_r. cbn [map]. rewrite IH by exact H'. reflexivity.
Qed.

Lemma parse_literal_head c l :
  parse_atoms 0 (Literal c :: l) = AChar c :: parse_atoms 0 l.
Proof. reflexivity. Qed.

Lemma parse_literals s : parse_atoms 0 (map Literal s) = map AChar s.
Proof.
  induction s as [|c s IH]; [reflexivity|]. cbn [map]. rewrite parse_literal_head, IH. reflexivity.
Qed.

Lemma to_literal_chars s : to_literal (map AChar s) = Some s.
Proof. induction s as [|c s IH]; [reflexivity|]. cbn [map to_literal]. rewrite IH. reflexivity. Qed.

Lemma quoted_comp_literal c :
  (forall x, In x c -> lit_char x) -> compile_comp c = CLit (unquote c).
Proof.
  intros H. unfold compile_comp. rewrite (to_pchars_lit false c H), parse_literals, to_literal_chars.
  reflexivity.
Qed.

Lemma split_slash_in field comp x : In comp (split_slash field) -> In x comp -> In x field.
Proof.
  revert comp. induction field as [|c l IH]; intros comp Hc Hx; cbn [split_slash] in Hc.
  - destruct Hc as [<-|[]]. destruct Hx.
  - destruct (N.eqb (a_val c) c_slash).
    + destruct Hc as [<-|Hc]; [destruct Hx|]. right. eapply IH; eauto.
    + destruct (split_slash l) as [|cur rest] eqn:E.
      * destruct Hc as [<-|[]]. destruct Hx as [<-|[]]. left; reflexivity.
      * destruct Hc as [<-|Hc].
        -- destruct Hx as [<-|Hx]; [left; reflexivity|]. right. apply (IH cur); [left; reflexivity | exact Hx].
        -- right. apply (IH comp); [right; exact Hc | exact Hx].
Qed.

Lemma join_app_head x y r : join ((x ++ y) :: r) = x ++ join (y :: r).
Proof.
  destruct r as [|z r]; cbn [join]; [reflexivity|]. rewrite <- app_assoc. reflexivity.
Qed.

Lemma join_unquote_split field :
  (forall c, In c field -> a_quoting c = true -> a_val c <> c_slash) ->
  join (map unquote (split_slash field)) = unquote field.
Proof.
  induction field as [|c l IH]; intros H; [reflexivity|].
  assert (forall y, In y l -> a_quoting y = true -> a_val y <> c_slash) as H'
      by (intros y Hy; apply H; right; exact Hy).
  specialize (IH H'). cbn [split_slash].
  destruct (N.eqb (a_val c) c_slash) eqn:E.
  - apply N.eqb_eq in E. destruct (a_quoting c) eqn:Eq.
    { exfalso. exact (H c (or_introl eq_refl) Eq E). }
    pose proof (split_slash_nonempty l) as Hne.
    destruct (split_slash l) as [|cur rest]; [contradiction|].
    cbn [map] in *. rewrite join_cons.
    transitivity (c_slash :: unquote l).
    + change (unquote []) with (@nil N). cbn [app]. f_equal. exact IH.
    + unfold unquote. cbn [filter]. rewrite Eq. cbn [negb map]. rewrite E. reflexivity.
  - pose proof (split_slash_nonempty l) as Hne.
    destruct (split_slash l) as [|cur rest]; [contradiction|]. cbn [map] in *.
    destruct (a_quoting c) eqn:Eq.
    + transitivity (unquote l); [|unfold unquote; cbn [filter]; rewrite Eq; reflexivity].
      rewrite <- IH. f_equal. f_equal. unfold unquote. cbn [filter]. rewrite Eq. reflexivity.
    + transitivity (a_val c :: unquote l); [|unfold unquote; cbn [filter]; rewrite Eq; reflexivity].
      rewrite <- IH.
      replace (unquote (c :: cur)) with ([a_val c] ++ unquote cur)
        by (unfold unquote; cbn [filter]; rewrite Eq; reflexivity).
      exact (join_app_head [a_val c] (unquote cur) (map unquote rest)).
Qed.

Lemma search_all_literal od ex : forall comps prefix,
  (forall c, In c comps -> compile_comp c = CLit (unquote c)) ->
  search od ex prefix comps = [] \/
  search od ex prefix comps = [prefix ++ join (map unquote comps)].
Proof.
  induction comps as [|c rest IH]; intros prefix H; [left; reflexivity|].
  cbn [search]. rewrite (H c (or_introl eq_refl)).
  destruct rest as [|c2 rest].
  - cbn [map join]. destruct (false || ex (prefix ++ unquote c)); [right | left]; reflexivity.
  - destruct (IH ((prefix ++ unquote c) ++ [c_slash]) (fun x Hx => H x (or_intror Hx))) as [E|E];
      rewrite E; [left; reflexivity|right].
    cbn [map]. rewrite join_cons. rewrite <- !app_assoc. reflexivity.
Qed.

Lemma glob_quoted_literal_l t cwd noglob field :
  (forall c, In c field -> lit_char c) ->
  (forall c, In c field -> a_quoting c = true -> a_val c <> c_slash) ->
  glob_model t cwd noglob field = GFields [unquote field].
Proof.
  intros Hq Hs. unfold glob_model. destruct noglob; [reflexivity|].
  assert (forall c, In c (split_slash field) -> compile_comp c = CLit (unquote c)) as Hl.
  { intros c Hc. apply quoted_comp_literal. intros x Hx. apply Hq. eapply split_slash_in; eauto. }
  unfold glob_paths.
  destruct (search_all_literal (fs_opendir t cwd) (fs_lstat t cwd) (split_slash field) [] Hl) as [E|E]; rewrite E.
  - reflexivity.
  - cbn [app]. rewrite join_unquote_split by exact Hs. reflexivity.
Qed.

(* ------------------------------------------------------------------ fallback *)
Lemma glob_fallback_l t cwd field :
  glob_model t cwd true field = GFields [unquote field] /\
  ((forall p, ~ ExpectedL t cwd field p) -> glob_model t cwd false field = GFields [unquote field]) /\
  (forall p, ExpectedL t cwd field p ->
             glob_model t cwd false field = GFields (glob_paths t cwd field) /\
             In p (glob_paths t cwd field)).
Proof.
  split; [reflexivity|]. split.
  - intros Hn. unfold glob_model.
    destruct (glob_paths t cwd field) as [|x l] eqn:E; [reflexivity|].
    exfalso. apply (Hn x), glob_exact_l. rewrite E. left; reflexivity.
  - intros p Hp. apply glob_exact_l in Hp. split; [|exact Hp].
    unfold glob_model. destruct (glob_paths t cwd field); [destruct Hp | reflexivity].
Qed.

(* ------------------------------------------------------------------ the oracle's enumeration *)
Lemma mem_spec x l : mem x l = true <-> In x l.
Proof.
  unfold mem. rewrite existsb_exists. split.
  - intros (y & Hy & E). apply str_eqb_eq in E. subst. exact Hy.
  - intros H. exists x. split; [exact H | apply str_eqb_refl].
Qed.

Lemma comp_okb_spec od prefix c n : comp_okb od prefix c n = true <-> comp_ok od prefix c n.
Proof.
  unfold comp_okb, comp_ok. destruct (compile_comp c) as [l|pat].
  - apply str_eqb_eq.
  - rewrite !andb_true_iff, !negb_true_iff, !str_eqb_neq, pmatchb_spec.
    destruct (od (dir_of prefix)) as [ents|].
    + rewrite mem_spec. split.
      * intros [[[H1 H2] H3] H4].
        split; [exists ents; split; [reflexivity | exact H1] | split; [exact H2 | split; [exact H3 | exact H4]]].
      * intros ((ents' & E & Hin) & H2 & H3 & H4). injection E as <-.
        split; [split; [split; [exact Hin | exact H2] | exact H3] | exact H4].
    + split; [intros [[[H _] _] _]; discriminate | intros ((ents' & E & _) & _); discriminate].
Qed.

Lemma names_okb_spec od ex comps names :
  names_okb od ex comps names = true <->
  (forall i, (i < length comps)%nat ->
             comp_ok od (prefix_of names i) (nth i comps []) (nth i names [])) /\
  (last_is_pat comps = false -> ex (join names) = true).
Proof.
  unfold names_okb. rewrite andb_true_iff, forallb_forall. split.
  - intros [H1 H2]. split.
    + intros i Hi. apply comp_okb_spec, H1, in_seq. lia.
    + intros Hl. rewrite Hl in H2. exact H2.
  - intros [H1 H2]. split.
    + intros i Hi. apply in_seq in Hi. apply comp_okb_spec, H1. lia.
    + destruct (last_is_pat comps); [reflexivity | apply H2; reflexivity].
Qed.

Lemma in_product : forall ls names,
  In names (product ls) <-> Forall2 (fun l x => In x l) ls names.
Proof.
  induction ls as [|l ls IH]; intros names; cbn [product].
  - split.
    + intros [<-|[]]. constructor.
    + intros H. inversion H. left; reflexivity.
  - rewrite in_flat_map. split.
    + intros (x & Hx & H). apply in_map_iff in H as (ns & <- & Hns). constructor; [exact Hx|].
      apply IH. exact Hns.
    + intros H. inversion H as [|? x ? ns Hx Hns]; subst. exists x. split; [exact Hx|].
      apply in_map_iff. exists ns. split; [reflexivity|]. apply IH. exact Hns.
Qed.

Lemma Forall2_of_nth {A B} (R : A -> B -> Prop) da db : forall (l1 : list A) (l2 : list B),
  length l1 = length l2 ->
  (forall i, (i < length l1)%nat -> R (nth i l1 da) (nth i l2 db)) -> Forall2 R l1 l2.
Proof.
  induction l1 as [|a l1 IH]; intros [|b l2] L H; try discriminate; constructor.
  - apply (H 0%nat). cbn; lia.
  - apply IH; [cbn in L; lia|]. intros i Hi. apply (H (S i)). cbn; lia.
Qed.

Lemma Forall2_len {A B} (R : A -> B -> Prop) l1 l2 : Forall2 R l1 l2 -> length l1 = length l2.
Proof. induction 1; cbn; congruence. Qed.

Section Enumeration.
  Variable od : str -> option (list str).
  Variable ex : str -> bool.
  Variable universe : list str.
  Hypothesis covers : forall d ents, od d = Some ents -> incl ents universe.

  Lemma comp_ok_cands prefix c n : comp_ok od prefix c n -> In n (cands universe c).
  Proof.
    unfold comp_ok, cands. destruct (compile_comp c) as [l|pat].
    - intros ->. left; reflexivity.
    - intros ((ents & Ho & Hin) & _ & _ & Hm). apply filter_In. split.
      + eapply covers; eauto.
      + apply pmatchb_spec. exact Hm.
  Qed.

  Theorem spec_paths_correct_g field p :
    In p (spec_paths od ex universe field) <-> Expected od ex field p.
  Proof.
    unfold spec_paths, Expected. rewrite in_map_iff. split.
    - intros (names & <- & H). apply filter_In in H as [Hp Hok].
      apply in_product, Forall2_len in Hp. rewrite map_length in Hp.
      apply names_okb_spec in Hok as [H1 H2]. exists names. repeat split; auto.
    - intros (names & L & -> & A & E). exists names. split; [reflexivity|].
      apply filter_In. split.
      + apply in_product. apply (Forall2_of_nth _ [] []).
        * rewrite map_length. auto.
        * rewrite map_length. intros i Hi.
          rewrite (nth_indep _ [] (cands universe []))
            by (rewrite map_length; exact Hi).
          rewrite map_nth. eapply comp_ok_cands. apply (A i Hi).
      + apply names_okb_spec. auto.
  Qed.
End Enumeration.

Lemma spec_paths_correct_l t cwd field p :
  In p (spec_paths (fs_opendir t cwd) (fs_lstat t cwd) (fs_universe t) field) <-> ExpectedL t cwd field p.
Proof. apply spec_paths_correct_g. apply fs_universe_covers. Qed.

(* ------------------------------------------------------------------ the oracle accepts the model *)
Lemma strs_eqb_refl l : strs_eqb l l = true.
Proof. apply (list_eqb_spec str_eqb str_eqb_eq). reflexivity. Qed.

Lemma oracle_accepts_model_l t cwd noglob field :
  wf_fs t = true ->
  fs_oracle t cwd noglob field (glob_model t cwd noglob field) = None.
Proof.
  intros Hwf. unfold fs_oracle, oracle, glob_model.
  destruct noglob; [rewrite strs_eqb_refl; reflexivity|].
  assert (forall p, In p (glob_paths t cwd field) <->
                    In p (spec_paths (fs_opendir t cwd) (fs_lstat t cwd) (fs_universe t) field)) as Heq.
  { intros p. rewrite spec_paths_correct_l, glob_exact_l. tauto. }
  destruct (glob_sorted_nodup_l t cwd field Hwf) as [Hsorted _].
  destruct (glob_paths t cwd field) as [|g gs] eqn:Eg;
    destruct (spec_paths (fs_opendir t cwd) (fs_lstat t cwd) (fs_universe t) field) as [|e es] eqn:Ee.
  - rewrite strs_eqb_refl. reflexivity.
  - exfalso. apply (proj2 (Heq e)). left; reflexivity.
  - exfalso. apply (proj1 (Heq g)). left; reflexivity.
  - assert (strs_eqb (g :: gs) [unquote field] && negb (mem (unquote field) (e :: es)) = false) as ->.
    { destruct (strs_eqb (g :: gs) [unquote field]) eqn:Es; [|reflexivity]. cbn [andb].
      apply (list_eqb_spec str_eqb str_eqb_eq) in Es.
      assert (mem (unquote field) (e :: es) = true) as ->; [|reflexivity].
      apply mem_spec, Heq. rewrite Es. left; reflexivity. }
    assert (forallb (fun x => mem x (e :: es)) (g :: gs) = true) as ->.
    { apply forallb_forall. intros x Hx. apply mem_spec, Heq. exact Hx. }
    assert (forallb (fun x => mem x (g :: gs)) (e :: es) = true) as ->.
    { apply forallb_forall. intros x Hx. apply mem_spec, Heq. exact Hx. }
    cbn [negb]. apply strictly_sorted_spec in Hsorted. rewrite Hsorted. reflexivity.
Qed.

(* ------------------------------------------------------------------ dangling links *)
(* sub/dl -> zz cannot be followed, yet it is an existing pathname: it is found
   whether its name is written out (*/dl) or matched (sub/d*) *)
Lemma dangling_found_both_ways_l :
  fs_stat dangling_tree [] dangling_path = false /\
  ExpectedL dangling_tree [] dangling_field dangling_path /\
  glob_paths dangling_tree [] dangling_field = [dangling_path] /\
  glob_paths dangling_tree [] (soft_field [115; 117; 98; 47; 100; 42]) = [dangling_path].
Proof.
  split; [vm_compute; reflexivity|]. split; [|split; vm_compute; reflexivity].
  apply spec_paths_correct_l. vm_compute. left; reflexivity.
Qed.

(* ------------------------------------------------------------------ strong sortedness *)
Lemma glob_strongly_sorted_l t cwd field :
  wf_fs t = true ->
  StronglySorted (fun a b => str_ltb a b = true) (glob_paths t cwd field) /\ NoDup (glob_paths t cwd field).
Proof.
  intros Hwf. destruct (glob_sorted_nodup_l t cwd field Hwf) as [Hs Hn]. split; [|exact Hn].
  apply Sorted_StronglySorted; [|exact Hs]. intros a b c. apply str_ltb_trans.
Qed.

Lemma quoted_chars_literal_l nq c l :
  a_quoting c = false -> a_quoted c = true \/ a_origin c = OHard ->
  to_pchars nq (c :: l) = Literal (a_val c) :: to_pchars false l.
Proof.
  intros Hq H. cbn [to_pchars]. rewrite Hq.
  destruct H as [H|H]; rewrite H; cbn [is_hard]; rewrite ?orb_true_r; reflexivity.
Qed.

(* ------------------------------------------------------------------ elements of bracket expressions *)
Lemma bracket_elements_examples_l :
  (let pat s := compile_comp (soft_field s) in
   let m s n := match pat s with CPat p => Some (pat_is_match p n) | CLit _ => None end in
   m [91; 91; 58; 100; 105; 103; 105; 116; 58; 93; 93] [55] = Some true /\
   m [91; 91; 58; 100; 105; 103; 105; 116; 58; 93; 93] [97] = Some false /\
   m [91; 91; 46; 97; 98; 46; 93; 120; 93] [97; 98] = Some true /\
   m [91; 91; 46; 97; 98; 46; 93; 120; 93] [120] = Some true /\
   m [91; 91; 46; 97; 98; 46; 93; 120; 93] [97] = Some false /\
   m [91; 33; 91; 46; 97; 98; 46; 93; 120; 93] [97] = Some true /\
   m [91; 33; 91; 46; 97; 98; 46; 93; 93] [97] = Some true /\
   m [91; 91; 58; 102; 111; 111; 58; 93; 93] [97] = None /\
   m [91; 91; 46; 46; 93; 93] [97] = None /\
   m [91; 97; 45; 91; 58; 97; 108; 112; 104; 97; 58; 93; 93] [97] = None /\
   m [91; 91; 61; 97; 61; 93; 45; 99; 93] [98] = Some true /\
   m [91; 91; 61; 97; 61; 93; 45; 99; 93] [100] = Some false)%N.
Proof. vm_compute. repeat split. Qed.
