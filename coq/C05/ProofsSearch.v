(* C05 — the directory search finds exactly the expected pathnames; for any
   behaviour of the two system calls. *)
From Yv Require Import Common.Base C05.Model C05.Spec C05.ProofsMatch.
From Coq Require Import Sorting.Sorted.

Local Open Scope N_scope.

(* ------------------------------------------------------------------ small facts *)
Lemma str_eqb_refl s : str_eqb s s = true.
Proof. apply str_eqb_eq. reflexivity. Qed.

Lemma str_eqb_neq a b : str_eqb a b = false <-> a <> b.
Proof.
  split.
  - intros H E. apply str_eqb_eq in E. congruence.
  - intros H. destruct (str_eqb a b) eqn:E; [|reflexivity]. apply str_eqb_eq in E. contradiction.
Qed.

Lemma split_slash_nonempty l : split_slash l <> [].
Proof.
  destruct l as [|c l]; cbn [split_slash]; [discriminate|].
  destruct (N.eqb (a_val c) c_slash); [discriminate|].
  destruct (split_slash l); discriminate.
Qed.

Lemma split_slash_no_slash l :
  Forall (fun comp => Forall (fun c => a_val c <> c_slash) comp) (split_slash l).
Proof.
  induction l as [|c l IH]; cbn [split_slash].
  - repeat constructor.
  - destruct (N.eqb (a_val c) c_slash) eqn:E.
    + constructor; [constructor | exact IH].
    + apply N.eqb_neq in E. destruct (split_slash l) as [|cur rest].
      * repeat constructor; auto.
      * inversion IH as [|? ? Hc Hr]; subst. constructor; auto.
Qed.

(* ------------------------------------------------------------------ literal components *)
Lemma to_pchars_vals nq l : map pc_val (to_pchars nq l) = unquote l.
Proof.
  unfold unquote. revert nq. induction l as [|c l IH]; intros nq; cbn [to_pchars filter map].
  - reflexivity.
  - destruct (a_quoting c); cbn [negb].
    + apply IH.
    + destruct (nq || a_quoted c || is_hard (a_origin c)); cbn [map pc_val]; rewrite IH; reflexivity.
Qed.

Lemma is_normal_eq pc c : is_normal pc c = true -> pc = Normal c.
Proof. destruct pc; cbn; [intros H; apply N.eqb_eq in H; subst; reflexivity | discriminate]. Qed.

Lemma parse_literal_text : forall l s,
  to_literal (parse_atoms 0 l) = Some s -> s = map pc_val l.
Proof.
  induction l as [|pc l IH]; intros s Hl; cbn [parse_atoms] in Hl.
  - cbn in Hl. injection Hl as <-. reflexivity.
  - destruct (is_normal pc c_qm); [discriminate|].
    destruct (is_normal pc c_star); [discriminate|].
    destruct (is_normal pc c_lbr) eqn:El.
    + apply is_normal_eq in El. subst pc.
      destruct (bracket_loop false [] false 0 0 l) as [compl items n|]; [discriminate|].
      cbn [to_literal] in Hl.
      destruct (to_literal (parse_atoms 0 l)) as [s'|] eqn:Es; cbn in Hl; [|discriminate].
      injection Hl as <-. cbn [map pc_val]. f_equal. apply IH. reflexivity.
    + cbn [to_literal] in Hl.
      destruct (to_literal (parse_atoms 0 l)) as [s'|] eqn:Es; cbn in Hl; [|discriminate].
      injection Hl as <-. cbn [map]. f_equal. apply IH. reflexivity.
Qed.

(* a component that is not scanned stands for its text with the quotes removed *)
Lemma literal_is_text c l : compile_comp c = CLit l -> l = unquote c.
Proof.
  unfold compile_comp.
  destruct (to_literal (parse_atoms 0 (to_pchars false c))) as [s|] eqn:Es.
  - intros H. injection H as <-. rewrite <- (to_pchars_vals false c). apply parse_literal_text. exact Es.
  - destruct (existsb atom_invalid _); [intros H; injection H as <-; reflexivity | discriminate].
Qed.

Lemma unquote_no_slash c :
  Forall (fun x => a_val x <> c_slash) c -> ~ In c_slash (unquote c).
Proof.
  unfold unquote. intros H Hin. apply in_map_iff in Hin as (x & Hx & Hin).
  apply filter_In in Hin as [Hin _]. rewrite Forall_forall in H. exact (H x Hin Hx).
Qed.

(* ------------------------------------------------------------------ one level of the search *)
Section Search.
  Variable opendir : str -> option (list str).
  Variable ex : str -> bool.

  Notation search := (search opendir ex).
  Notation comp_ok := (comp_ok opendir).

  Lemma scan_ok_spec pat name :
    scan_ok pat name = true <-> name <> s_dot /\ name <> s_dotdot /\ PMatch pat name.
  Proof.
    unfold scan_ok. rewrite !andb_true_iff, !negb_true_iff, !str_eqb_neq, pat_is_match_spec. tauto.
  Qed.

  (* what push_component does with a name *)
  Definition push (prefix : str) (c : list achar) (rest : list (list achar)) (name : str)
    : list str :=
    match rest with
    | [] => if is_pat (compile_comp c) || ex (prefix ++ name) then [prefix ++ name] else []
    | _ :: _ => search ((prefix ++ name) ++ [c_slash]) rest
    end.

  Lemma search_step prefix c rest p :
    In p (search prefix (c :: rest)) <->
    exists name, comp_ok prefix c name /\ In p (push prefix c rest name).
  Proof.
    unfold push, Spec.comp_ok. cbn [Model.search].
    destruct (compile_comp c) as [l|pat] eqn:Ec; cbn [is_pat orb].
    - split.
      + intros H. exists l. split; [reflexivity|]. destruct rest; exact H.
      + intros (name & -> & H). destruct rest; exact H.
    - destruct (opendir (dir_of prefix)) as [ents|] eqn:Eo.
      + rewrite in_flat_map. split.
        * intros (name & Hin & H). destruct (scan_ok pat name) eqn:Es; [|destruct H].
          apply scan_ok_spec in Es. exists name. split.
          -- split; [exists ents; auto | exact Es].
          -- destruct rest; exact H.
        * intros (name & ((ents' & Ee & Hin) & Hs) & H).
          injection Ee as <-. exists name. split; [exact Hin|].
          apply scan_ok_spec in Hs. rewrite Hs. destruct rest; exact H.
      + split; [intros [] | intros (name & ((ents' & Ee & _) & _) & _); discriminate].
  Qed.

  (* ---------------------------------------------------------------- the whole search, recursively *)
  Fixpoint path_ok (prefix : str) (c : list achar) (rest : list (list achar))
      (names : list str) (p : str) : Prop :=
    match names with
    | [] => False
    | n :: ns =>
        comp_ok prefix c n /\
        match rest with
        | [] => ns = [] /\ p = prefix ++ n /\ (is_pat (compile_comp c) = false -> ex p = true)
        | c2 :: rest' => path_ok ((prefix ++ n) ++ [c_slash]) c2 rest' ns p
        end
    end.

  Lemma search_path_ok : forall rest c prefix p,
    In p (search prefix (c :: rest)) <-> exists names, path_ok prefix c rest names p.
  Proof.
    induction rest as [|c2 rest IH]; intros c prefix p; rewrite search_step.
    - unfold push. split.
      + intros (n & Hc & H). exists [n]. cbn [path_ok]. split; [exact Hc|].
        destruct (is_pat (compile_comp c) || ex (prefix ++ n)) eqn:E; [|destruct H].
        destruct H as [<-|[]]. repeat split. intros Hp. rewrite Hp in E. exact E.
      + intros ([|n ns] & H); [destruct H|]. cbn [path_ok] in H.
        destruct H as (Hc & -> & -> & Hex). exists n. split; [exact Hc|].
        destruct (is_pat (compile_comp c)) eqn:Ep; cbn [orb].
        * left; reflexivity.
        * rewrite (Hex eq_refl). left; reflexivity.
    - unfold push. split.
      + intros (n & Hc & H). apply IH in H as (ns & H). exists (n :: ns). cbn [path_ok]. auto.
      + intros ([|n ns] & H); [destruct H|]. cbn [path_ok] in H. destruct H as (Hc & H).
        exists n. split; [exact Hc|]. apply IH. exists ns. exact H.
  Qed.

  (* ---------------------------------------------------------------- ... and pointwise *)
  Lemma prefix_of_0 names : prefix_of names 0 = [].
  Proof. reflexivity. Qed.

  Lemma prefix_of_S n ns i : prefix_of (n :: ns) (S i) = (n ++ [c_slash]) ++ prefix_of ns i.
  Proof. reflexivity. Qed.

  Lemma join_cons n n2 ns : join (n :: n2 :: ns) = n ++ c_slash :: join (n2 :: ns).
  Proof. reflexivity. Qed.

  Definition pointwise (prefix : str) (comps : list (list achar)) (names : list str) (p : str)
    : Prop :=
    length names = length comps /\
    p = prefix ++ join names /\
    (forall i, (i < length comps)%nat ->
               comp_ok (prefix ++ prefix_of names i) (nth i comps []) (nth i names [])) /\
    (last_is_pat comps = false -> ex p = true).

  Lemma path_ok_pointwise : forall rest c prefix names p,
    path_ok prefix c rest names p <-> pointwise prefix (c :: rest) names p.
  Proof.
    unfold pointwise.
    induction rest as [|c2 rest IH]; intros c prefix names p.
    - destruct names as [|n ns]; cbn [path_ok].
      + split; [intros [] | intros (H & _); discriminate].
      + split.
        * intros (Hc & -> & -> & Hex). cbn [join length]. repeat split.
          -- intros i Hi. assert (i = 0)%nat as -> by (cbn in Hi; lia).
             rewrite prefix_of_0, app_nil_r. exact Hc.
          -- exact Hex.
        * intros (Hlen & Hp & Hall & Hex).
          destruct ns; [|discriminate]. cbn [join] in Hp.
          split; [|repeat split; auto].
          specialize (Hall 0%nat ltac:(cbn; lia)). rewrite prefix_of_0, app_nil_r in Hall. exact Hall.
    - destruct names as [|n ns]; cbn [path_ok].
      + split; [intros [] | intros (H & _); discriminate].
      + rewrite IH. split.
        * intros (Hc & Hlen & Hp & Hall & Hex). repeat split.
          -- cbn [length] in *. lia.
          -- destruct ns as [|n2 ns]; [discriminate|]. rewrite join_cons, Hp.
             rewrite <- !app_assoc. reflexivity.
          -- intros [|i] Hi.
             ++ rewrite prefix_of_0, app_nil_r. exact Hc.
             ++ rewrite prefix_of_S.
                replace (prefix ++ (n ++ [c_slash]) ++ prefix_of ns i)
                  with (((prefix ++ n) ++ [c_slash]) ++ prefix_of ns i)
                  by (rewrite <- !app_assoc; reflexivity).
                apply (Hall i). cbn [length] in *. lia.
          -- exact Hex.
        * intros (Hlen & Hp & Hall & Hex). split; [|repeat split].
          -- specialize (Hall 0%nat ltac:(cbn; lia)). rewrite prefix_of_0, app_nil_r in Hall. exact Hall.
          -- cbn [length] in *. lia.
          -- destruct ns as [|n2 ns]; [discriminate|]. rewrite join_cons in Hp. rewrite Hp.
             rewrite <- !app_assoc. reflexivity.
          -- intros i Hi. specialize (Hall (S i) ltac:(cbn [length] in *; lia)).
             rewrite prefix_of_S in Hall.
             replace (prefix ++ (n ++ [c_slash]) ++ prefix_of ns i)
               with (((prefix ++ n) ++ [c_slash]) ++ prefix_of ns i) in Hall
               by (rewrite <- !app_assoc; reflexivity).
             exact Hall.
          -- exact Hex.
  Qed.

  (* the search, started like glob does, finds exactly the expected pathnames *)
  Theorem search_expected field p :
    In p (search [] (split_slash field)) <-> Expected opendir ex field p.
  Proof.
    unfold Expected. destruct (split_slash field) as [|c rest] eqn:E.
    - exfalso. exact (split_slash_nonempty field E).
    - rewrite search_path_ok. split.
      + intros (names & H). apply path_ok_pointwise in H. exists names. exact H.
      + intros (names & H). exists names. apply path_ok_pointwise. exact H.
  Qed.

  (* ---------------------------------------------------------------- no duplicates *)
  Definition listing_ok : Prop :=
    forall d ents, opendir d = Some ents ->
                   NoDup ents /\ (forall n, In n ents -> ~ In c_slash n).

  Lemma search_has_prefix : forall comps prefix p,
    In p (search prefix comps) -> exists q, p = prefix ++ q.
  Proof.
    induction comps as [|c rest IH]; intros prefix p H; [destruct H|].
    apply search_step in H as (name & _ & H). unfold push in H. destruct rest.
    - destruct (_ || _); [|destruct H]. destruct H as [<-|[]]. eauto.
    - apply IH in H as (q & ->). exists (name ++ [c_slash] ++ q). rewrite <- !app_assoc. reflexivity.
  Qed.

  Lemma app_slash_inj : forall (a b x y : str),
    ~ In c_slash a -> ~ In c_slash b -> a ++ c_slash :: x = b ++ c_slash :: y -> a = b.
  Proof.
    induction a as [|h a IH]; intros [|k b] x y Ha Hb E; cbn in E.
    - reflexivity.
    - injection E as E _. exfalso. apply Hb. left. auto.
    - injection E as E _. exfalso. apply Ha. left. auto.
    - injection E as -> E. f_equal. eapply IH; eauto; intros H; [apply Ha | apply Hb]; right; exact H.
  Qed.

  Lemma NoDup_app_disjoint {A} (l1 l2 : list A) :
    NoDup l1 -> NoDup l2 -> (forall x, In x l1 -> ~ In x l2) -> NoDup (l1 ++ l2).
  Proof.
    induction l1 as [|a l1 IH]; intros H1 H2 Hd; cbn [app]; [exact H2|].
    inversion H1 as [|? ? Hna H1']; subst. constructor.
    - rewrite in_app_iff. intros [H|H]; [contradiction | exact (Hd a (or_introl eq_refl) H)].
    - apply IH; auto. intros x Hx. apply Hd. right. exact Hx.
  Qed.

  Lemma NoDup_flat_map {A B} (f : A -> list B) (l : list A) :
    NoDup l -> (forall x, In x l -> NoDup (f x)) ->
    (forall x y, In x l -> In y l -> x <> y -> forall z, In z (f x) -> ~ In z (f y)) ->
    NoDup (flat_map f l).
  Proof.
    induction l as [|a l IH]; intros Hl Hf Hd; cbn [flat_map]; [constructor|].
    inversion Hl as [|? ? Hna Hl']; subst.
    apply NoDup_app_disjoint.
    - apply Hf. left; reflexivity.
    - apply IH; auto.
      + intros x Hx. apply Hf. right; exact Hx.
      + intros x y Hx Hy. apply Hd; right; assumption.
    - intros z Hz Hin. apply in_flat_map in Hin as (y & Hy & Hzy).
      apply (Hd a y (or_introl eq_refl) (or_intror Hy)) with (z := z); auto.
      intros ->. contradiction.
  Qed.

  Lemma search_nodup : listing_ok -> forall comps prefix, NoDup (search prefix comps).
  Proof.
    intros Hok. induction comps as [|c rest IH]; intros prefix; [constructor|].
    cbn [Model.search]. destruct (compile_comp c) as [l|pat].
    - destruct rest; [|apply IH]. destruct (false || ex (prefix ++ l)); repeat constructor. intros [].
    - destruct (opendir (dir_of prefix)) as [ents|] eqn:Eo; [|constructor].
      destruct (Hok _ _ Eo) as [Hnd Hsl].
      apply NoDup_flat_map; [exact Hnd| |].
      + intros name _. destruct (scan_ok pat name); [|constructor].
        destruct rest; [repeat constructor; intros [] | apply IH].
      + intros x y Hx Hy Hne z Hzx Hzy.
        destruct (scan_ok pat x); [|destruct Hzx]. destruct (scan_ok pat y); [|destruct Hzy].
        destruct rest.
        * cbn [orb] in Hzx, Hzy. destruct Hzx as [<-|[]]. destruct Hzy as [E|[]].
          apply app_inv_head in E. congruence.
        * apply search_has_prefix in Hzx as (q1 & ->). apply search_has_prefix in Hzy as (q2 & E).
          rewrite <- !app_assoc in E. apply app_inv_head in E. cbn [app] in E.
          apply app_slash_inj in E; [congruence | apply Hsl; exact Hx | apply Hsl; exact Hy].
  Qed.
End Search.

(* ------------------------------------------------------------------ the order *)
Definition slt (a b : str) : Prop := str_ltb a b = true.

Lemma str_ltb_irrefl a : str_ltb a a = false.
Proof.
  induction a as [|x a IH]; cbn [str_ltb]; [reflexivity|].
  rewrite N.ltb_irrefl, N.eqb_refl, IH. reflexivity.
Qed.

Lemma str_ltb_trans : forall a b c, str_ltb a b = true -> str_ltb b c = true -> str_ltb a c = true.
Proof.
  induction a as [|x a IH]; intros [|y b] [|z c] H1 H2; cbn [str_ltb] in *; try discriminate; auto.
  apply orb_true_iff in H1. apply orb_true_iff in H2. apply orb_true_iff.
  destruct H1 as [H1|H1]; destruct H2 as [H2|H2].
  - left. apply N.ltb_lt in H1, H2. apply N.ltb_lt. lia.
  - apply andb_true_iff in H2 as [E _]. apply N.eqb_eq in E. subst. auto.
  - apply andb_true_iff in H1 as [E _]. apply N.eqb_eq in E. subst. auto.
  - apply andb_true_iff in H1 as [E1 H1]. apply andb_true_iff in H2 as [E2 H2].
    apply N.eqb_eq in E1, E2. subst. right. rewrite N.eqb_refl. cbn. eapply IH; eauto.
Qed.

Lemma str_ltb_total : forall a b, str_ltb a b = false -> str_ltb b a = false -> a = b.
Proof.
  induction a as [|x a IH]; intros [|y b] H1 H2; cbn [str_ltb] in *; try discriminate; auto.
  apply orb_false_iff in H1 as [L1 A1]. apply orb_false_iff in H2 as [L2 A2].
  apply N.ltb_ge in L1, L2. assert (x = y) by lia. subst y.
  rewrite N.eqb_refl in A1, A2. cbn in A1, A2. f_equal. auto.
Qed.

Lemma in_insert_sorted x y l : In y (insert_sorted x l) <-> y = x \/ In y l.
Proof.
  induction l as [|z l IH]; cbn [insert_sorted].
  - cbn. intuition.
  - destruct (str_ltb z x); cbn [In]; [rewrite IH|]; intuition.
Qed.

Lemma in_sort_strs y l : In y (sort_strs l) <-> In y l.
Proof.
  induction l as [|x l IH]; cbn [sort_strs fold_right]; [tauto|].
  fold (sort_strs l). rewrite in_insert_sorted, IH. cbn. intuition.
Qed.

Lemma insert_sorted_hd a x l :
  slt a x -> HdRel slt a l -> HdRel slt a (insert_sorted x l).
Proof.
  intros Hax Hl. destruct l as [|z l]; cbn [insert_sorted]; [constructor; auto|].
  inversion Hl; subst. destruct (str_ltb z x); constructor; auto.
Qed.

Lemma insert_sorted_sorted x l :
  Sorted slt l -> ~ In x l -> Sorted slt (insert_sorted x l).
Proof.
  induction l as [|z l IH]; intros Hs Hn; cbn [insert_sorted].
  - repeat constructor.
  - inversion Hs as [|? ? Hs' Hh]; subst. destruct (str_ltb z x) eqn:E.
    + constructor.
      * apply IH; auto. intros H. apply Hn. right. exact H.
      * apply insert_sorted_hd; auto.
    + constructor; [exact Hs|]. constructor. unfold slt.
      destruct (str_ltb x z) eqn:E2; [reflexivity|]. exfalso. apply Hn. left.
      symmetry. apply str_ltb_total; auto.
  Qed.

Lemma sort_strs_sorted l : NoDup l -> Sorted slt (sort_strs l).
Proof.
  induction 1 as [|x l Hn _ IH]; cbn [sort_strs fold_right]; [constructor|].
  fold (sort_strs l). apply insert_sorted_sorted; auto. rewrite in_sort_strs. exact Hn.
Qed.

Lemma insert_sorted_nodup x l : NoDup l -> ~ In x l -> NoDup (insert_sorted x l).
Proof.
  induction l as [|z l IH]; intros Hl Hn; cbn [insert_sorted].
  - repeat constructor. intros [].
  - destruct (str_ltb z x).
    + inversion Hl as [|? ? Hz Hl']; subst. constructor.
      * rewrite in_insert_sorted. intros [->|H]; [apply Hn; left; reflexivity | contradiction].
      * apply IH; auto. intros H. apply Hn. right. exact H.
    + constructor; auto.
Qed.

Lemma sort_strs_nodup l : NoDup l -> NoDup (sort_strs l).
Proof.
  induction 1 as [|x l Hn _ IH]; cbn [sort_strs fold_right]; [constructor|].
  fold (sort_strs l). apply insert_sorted_nodup; auto. rewrite in_sort_strs. exact Hn.
Qed.

Lemma strictly_sorted_spec l : strictly_sorted l = true <-> Sorted slt l.
Proof.
  induction l as [|x l IH]; cbn [strictly_sorted].
  - split; [constructor | reflexivity].
  - destruct l as [|y l].
    + split; [repeat constructor | reflexivity].
    + rewrite andb_true_iff, IH. split.
      * intros [H1 H2]. constructor; auto.
      * intros H. inversion H as [|? ? Hs Hh]; subst. inversion Hh; subst. auto.
Qed.

Lemma sort_strs_nil l : sort_strs l = [] <-> l = [].
Proof.
  split; [|intros ->; reflexivity].
  destruct l as [|x l]; [reflexivity|]. intros H. exfalso.
  assert (In x (sort_strs (x :: l))) as Hin by (apply in_sort_strs; left; reflexivity).
  rewrite H in Hin. destruct Hin.
Qed.
