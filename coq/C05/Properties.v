(* C05 — property theorems only.  Each is closed by [exact] of a lemma from the
   proof files; the driver pins the statements with [Check] and prints the
   assumptions on every run. *)
From Yv Require Import Common.Base C05.Model C05.Spec C05.ProofsMatch C05.ProofsSearch C05.ProofsFs C05.Proofs.
From Coq Require Import Sorting.Sorted.

(* the pathnames glob finds are exactly the expected ones: one name per component (a literal component stands for its quote-removed text; a pattern component is an entry, other than . and .., of the directory named by the text before it, matched with the leading-period rule), and, when the last component is not a pattern, a pathname that exists (fstatat without following the final link, so a dangling link exists) *)
Theorem glob_exact : forall (t : fs) (cwd : str) (field : list achar) (p : str), In p (glob_paths t cwd field) <-> ExpectedL t cwd field p.
Proof. exact glob_exact_l. Qed.

(* never a nonexistent or non-matching pathname: every result exists (final link not followed) and matches the field component by component *)
Theorem glob_sound : forall (t : fs) (cwd : str) (field : list achar) (p : str), In p (glob_paths t cwd field) -> ExpectedL t cwd field p.
Proof. exact glob_sound_l. Qed.

(* never omits an existing matching pathname *)
Theorem glob_complete : forall (t : fs) (cwd : str) (field : list achar) (p : str), ExpectedL t cwd field p -> In p (glob_paths t cwd field).
Proof. exact glob_complete_l. Qed.

(* a dangling symbolic link exists: it is found both when its name is written out and when it is matched (repaired in /repo by 7d0a5f7) *)
Theorem dangling_found_both_ways : fs_stat dangling_tree [] dangling_path = false /\ ExpectedL dangling_tree [] dangling_field dangling_path /\ glob_paths dangling_tree [] dangling_field = [dangling_path] /\ glob_paths dangling_tree [] (soft_field [115; 117; 98; 47; 100; 42]%N) = [dangling_path].
Proof. exact dangling_found_both_ways_l. Qed.

(* the result is in strictly increasing code-point (= UTF-8 byte) order, without duplicates *)
Theorem glob_sorted_nodup : forall (t : fs) (cwd : str) (field : list achar), wf_fs t = true -> StronglySorted (fun a b : str => str_ltb a b = true) (glob_paths t cwd field) /\ NoDup (glob_paths t cwd field).
Proof. exact glob_strongly_sorted_l. Qed.

(* the i-th name of a result is never . or .. when the i-th component of the field is a pattern (the model's directory listings do contain . and ..) *)
Theorem glob_no_dot_dotdot_from_wildcard : forall (t : fs) (cwd : str) (field : list achar) (p : str) (i : nat), wf_fs t = true -> In p (glob_paths t cwd field) -> is_pat (compile_comp (nth i (split_slash field) [])) = true -> nth i (split_on c_slash p) [] <> s_dot /\ nth i (split_on c_slash p) [] <> s_dotdot.
Proof. exact glob_no_dot_dotdot_l. Qed.

(* a field all of whose characters are quoting, quoted or from a hard expansion expands to itself with the quotes removed, whatever the tree contains *)
Theorem glob_quoted_literal : forall (t : fs) (cwd : str) (noglob : bool) (field : list achar), (forall c : achar, In c field -> lit_char c) -> (forall c : achar, In c field -> a_quoting c = true -> a_val c <> c_slash) -> glob_model t cwd noglob field = GFields [unquote field].
Proof. exact glob_quoted_literal_l. Qed.

(* a quoted or hard-expansion character is handed to the pattern parser as a literal pattern character *)
Theorem quoted_chars_are_literal : forall (nq : bool) (c : achar) (l : list achar), a_quoting c = false -> a_quoted c = true \/ a_origin c = OHard -> to_pchars nq (c :: l) = Literal (a_val c) :: to_pchars false l.
Proof. exact quoted_chars_literal_l. Qed.

(* ... and a literal pattern character at the top level of a component is an ordinary character whatever it is *)
Theorem literal_char_is_literal_atom : forall (c : N) (l : list pchar), parse_atoms 0 (Literal c :: l) = AChar c :: parse_atoms 0 l.
Proof. exact parse_literal_head. Qed.

(* a component that is not scanned (no pattern, or an invalid one) stands for its own text with the quotes removed *)
Theorem literal_component_is_text : forall (c : list achar) (l : str), compile_comp c = CLit l -> l = unquote c.
Proof. exact literal_is_text. Qed.

(* with noglob, or when nothing is expected, the result is the field itself with quotes removed; otherwise it is the non-empty list of pathnames *)
Theorem glob_fallback_iff_empty_or_noglob : forall (t : fs) (cwd : str) (field : list achar), glob_model t cwd true field = GFields [unquote field] /\ ((forall p : str, ~ ExpectedL t cwd field p) -> glob_model t cwd false field = GFields [unquote field]) /\ (forall p : str, ExpectedL t cwd field p -> glob_model t cwd false field = GFields (glob_paths t cwd field) /\ In p (glob_paths t cwd field)).
Proof. exact glob_fallback_l. Qed.

(* the model's matcher (backtracking, leading-period test of Pattern::is_match) decides the declarative matching relation *)
Theorem pattern_matcher_decides : forall (p : list atom) (name : str), pat_is_match p name = true <-> PMatch p name.
Proof. exact pat_is_match_spec. Qed.

(* so does the oracle's matcher (enumeration of split points) *)
Theorem oracle_matcher_decides : forall (p : list atom) (name : str), pmatchb p name = true <-> PMatch p name.
Proof. exact pmatchb_spec. Qed.

(* character classes, collating symbols and equivalence classes in bracket expressions: [[:digit:]] matches 7 and not a; [[.ab.]x] matches the two characters ab, and x, but not a alone; in a complemented list the element ab is dropped (a list of nothing else matches any character); an undefined class, an empty symbol, a class as range endpoint are not patterns (the component is literal); [[=a=]-c] is the range a-c *)
Theorem bracket_elements_examples : (let pat s := compile_comp (soft_field s) in let m s n := match pat s with CPat p => Some (pat_is_match p n) | CLit _ => None end in m [91; 91; 58; 100; 105; 103; 105; 116; 58; 93; 93] [55] = Some true /\ m [91; 91; 58; 100; 105; 103; 105; 116; 58; 93; 93] [97] = Some false /\ m [91; 91; 46; 97; 98; 46; 93; 120; 93] [97; 98] = Some true /\ m [91; 91; 46; 97; 98; 46; 93; 120; 93] [120] = Some true /\ m [91; 91; 46; 97; 98; 46; 93; 120; 93] [97] = Some false /\ m [91; 33; 91; 46; 97; 98; 46; 93; 120; 93] [97] = Some true /\ m [91; 33; 91; 46; 97; 98; 46; 93; 93] [97] = Some true /\ m [91; 91; 58; 102; 111; 111; 58; 93; 93] [97] = None /\ m [91; 91; 46; 46; 93; 93] [97] = None /\ m [91; 97; 45; 91; 58; 97; 108; 112; 104; 97; 58; 93; 93] [97] = None /\ m [91; 91; 61; 97; 61; 93; 45; 99; 93] [98] = Some true /\ m [91; 91; 61; 97; 61; 93; 45; 99; 93] [100] = Some false)%N.
Proof. exact bracket_elements_examples_l. Qed.

(* the oracle's generate-and-test enumeration yields exactly the expected pathnames *)
Theorem oracle_enumeration_exact : forall (t : fs) (cwd : str) (field : list achar) (p : str), In p (spec_paths (fs_opendir t cwd) (fs_lstat t cwd) (fs_universe t) field) <-> ExpectedL t cwd field p.
Proof. exact spec_paths_correct_l. Qed.

(* oracle soundness: the run-time oracle accepts the model's output on every well-formed tree and every field (it asks no more than the theorems give) *)
Theorem oracle_accepts_model : forall (t : fs) (cwd : str) (noglob : bool) (field : list achar), wf_fs t = true -> fs_oracle t cwd noglob field (glob_model t cwd noglob field) = None.
Proof. exact oracle_accepts_model_l. Qed.

(* ---- non-vacuity: concrete, non-trivial instances of the hypotheses ---- *)
Definition ex_tree : fs :=
  [([[115; 117; 98]%N], KDir true); ([[115; 117; 98]%N; [97]%N], KFile);
   ([[115; 117; 98]%N; [46; 97]%N], KFile); ([[97]%N], KFile)].

Example ex_tree_wf : wf_fs ex_tree = true /\ wf_fs dangling_tree = true.
Proof. split; vm_compute; reflexivity. Qed.

(* glob_complete / glob_fallback / oracle_accepts_model: an expected pathname, last component literal *)
Example ex_expected :
  ExpectedL ex_tree [] (soft_field [42; 47; 97]%N) [115; 117; 98; 47; 97]%N
  /\ fs_lstat ex_tree [] [115; 117; 98; 47; 97]%N = true.
Proof.
  split; [apply oracle_enumeration_exact; vm_compute; left; reflexivity | vm_compute; reflexivity].
Qed.

(* glob_no_dot_dotdot_from_wildcard: `.*` is a pattern that matches the entries . and .. of the listing *)
Example ex_dot_pattern :
  is_pat (compile_comp (nth 1 (split_slash (soft_field [115; 117; 98; 47; 46; 42]%N)) [])) = true
  /\ pat_is_match [AChar c_dot; AStar] s_dotdot = true
  /\ glob_paths ex_tree [] (soft_field [115; 117; 98; 47; 46; 42]%N) = [[115; 117; 98; 47; 46; 97]%N].
Proof. repeat split; vm_compute; reflexivity. Qed.

(* glob_quoted_literal: '*/a' with a tree in which */a would match sub/a *)
Example ex_quoted :
  let f := [AC 39 OLiteral false true; AC 42 OLiteral true false; AC 47 OLiteral true false;
            AC 97 OLiteral true false; AC 39 OLiteral false true]%N in
  (forall c, In c f -> lit_char c) /\ (forall c, In c f -> a_quoting c = true -> a_val c <> c_slash)
  /\ glob_paths ex_tree [] (soft_field [42; 47; 97]%N) = [[115; 117; 98; 47; 97]%N]
  /\ glob_model ex_tree [] false f = GFields [[42; 47; 97]%N].
Proof.
  cbn zeta. split; [|split; [|split; vm_compute; reflexivity]].
  - intros c [<-|[<-|[<-|[<-|[<-|[]]]]]]; unfold lit_char; cbn; auto.
  - intros c [<-|[<-|[<-|[<-|[<-|[]]]]]]; cbn; intros; try discriminate.
Qed.

Print Assumptions glob_exact.
Print Assumptions glob_sound.
Print Assumptions glob_complete.
Print Assumptions dangling_found_both_ways.
Print Assumptions glob_sorted_nodup.
Print Assumptions glob_no_dot_dotdot_from_wildcard.
Print Assumptions glob_quoted_literal.
Print Assumptions quoted_chars_are_literal.
Print Assumptions literal_char_is_literal_atom.
Print Assumptions literal_component_is_text.
Print Assumptions glob_fallback_iff_empty_or_noglob.
Print Assumptions pattern_matcher_decides.
Print Assumptions oracle_matcher_decides.
Print Assumptions bracket_elements_examples.
Print Assumptions oracle_enumeration_exact.
Print Assumptions oracle_accepts_model.
