(* Common definitions shared by all property developments. *)
From Coq Require Export List NArith ZArith Bool Lia.
Export ListNotations.

(* Verdict codes of [run_case]:
     0  model output = implementation output, and the oracle accepts it
     1  model output <> implementation output, the oracle accepts the
        implementation's output (correspondence broken, property not refuted)
   >=2  the oracle (boolean form of the specification) rejects what the
        implementation produced: a concrete violation; 2+k names the clause. *)
Definition verdict := N.

Definition run_cases_with {case : Type} (run_case : case -> verdict)
    (cases : list (N * case)) : N * list (N * verdict) :=
  (N.of_nat (length cases),
   filter (fun p => negb (N.eqb (snd p) 0))
          (map (fun p => (fst p, run_case (snd p))) cases)).

(* Equality tests on the data the harness sends. *)
Fixpoint list_eqb {A} (eqb : A -> A -> bool) (l1 l2 : list A) : bool :=
  match l1, l2 with
  | [], [] => true
  | x :: l1, y :: l2 => eqb x y && list_eqb eqb l1 l2
  | _, _ => false
  end.

Definition option_eqb {A} (eqb : A -> A -> bool) (o1 o2 : option A) : bool :=
  match o1, o2 with
  | None, None => true
  | Some x, Some y => eqb x y
  | _, _ => false
  end.

Definition pair_eqb {A B} (ea : A -> A -> bool) (eb : B -> B -> bool)
    (p q : A * B) : bool := ea (fst p) (fst q) && eb (snd p) (snd q).

Definition str := list N.
Definition str_eqb : str -> str -> bool := list_eqb N.eqb.

Lemma list_eqb_spec {A} (eqb : A -> A -> bool) :
  (forall x y, eqb x y = true <-> x = y) ->
  forall l1 l2, list_eqb eqb l1 l2 = true <-> l1 = l2.
Proof.
  intros H l1; induction l1 as [|x l1 IH]; intros [|y l2]; cbn; try (split; congruence).
  rewrite andb_true_iff, H, IH. split; [intros [-> ->]; reflexivity | intros E; inversion E; auto].
Qed.

Lemma str_eqb_eq (a b : str) : str_eqb a b = true <-> a = b.
Proof. apply list_eqb_spec. intros; apply N.eqb_eq. Qed.

Lemma option_eqb_spec {A} (eqb : A -> A -> bool) :
  (forall x y, eqb x y = true <-> x = y) ->
  forall o1 o2, option_eqb eqb o1 o2 = true <-> o1 = o2.
Proof.
  intros H [x|] [y|]; cbn; try (split; congruence).
  rewrite H. split; congruence.
Qed.
