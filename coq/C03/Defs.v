(* C03 — vocabulary shared by MODEL and SPEC: 64-bit range, code points and
   their UTF-8 length, character classes, operator names, decimal rendering of
   integers (i64 Display) and the variable environment (a finite map from
   names to strings, the harness uses HashMap<String,String>).
   Nothing here describes the algorithm of yash-arith. *)
From Yv Require Export Common.Base.
From Coq Require String Ascii.

(* ---- signed 64-bit range ------------------------------------------------ *)

Definition i64_min : Z := (-9223372036854775808)%Z.
Definition i64_max : Z := 9223372036854775807%Z.
Definition in_i64 (z : Z) : bool := (i64_min <=? z)%Z && (z <=? i64_max)%Z.

Definition b2z (b : bool) : Z := if b then 1%Z else 0%Z.

(* ---- characters --------------------------------------------------------- *)


(* Byte offsets into the UTF-8 text: every location is a half-open range. *)
Definition range := (N * N)%type.
Definition range_eqb (a b : range) : bool := pair_eqb N.eqb N.eqb a b.

Definition utf8_len (c : N) : N :=
  if (c <? 128)%N then 1%N else if (c <? 2048)%N then 2%N
  else if (c <? 65536)%N then 3%N else 4%N.

Fixpoint utf8_bytes (s : str) : N :=
  match s with [] => 0%N | c :: r => (utf8_len c + utf8_bytes r)%N end.

(* Character classes.  [cls] classifies the non-ASCII code points:
   1 = char::is_whitespace, 2 = char::is_alphanumeric, anything else = neither.
   The ASCII part is fixed here (and compared with Rust's by the harness on
   every run); theorems hold for every [cls]. *)
Definition ascii_ws (c : N) : bool := ((9 <=? c) && (c <=? 13) || (c =? 32))%N.
Definition ascii_digit (c : N) : bool := ((48 <=? c) && (c <=? 57))%N.
Definition ascii_upper (c : N) : bool := ((65 <=? c) && (c <=? 90))%N.
Definition ascii_lower (c : N) : bool := ((97 <=? c) && (c <=? 122))%N.
Definition ascii_alnum (c : N) : bool := ascii_digit c || ascii_upper c || ascii_lower c.

Definition is_ws (cls : N -> N) (c : N) : bool :=
  if (c <? 128)%N then ascii_ws c else (cls c =? 1)%N.
Definition is_alnum (cls : N -> N) (c : N) : bool :=
  if (c <? 128)%N then ascii_alnum c else (cls c =? 2)%N.
(* a character of a term token: alphanumeric or underscore *)
Definition is_word (cls : N -> N) (c : N) : bool := is_alnum cls c || (c =? 95)%N.

(* ---- operator tokens and operator kinds (names only) ----------------------- *)

Inductive oper :=
| OQuestion | OColon | OBar | OBarBar | OBarEqual | OCaret | OCaretEqual
| OAnd | OAndAnd | OAndEqual | OEqual | OEqualEqual | OBang | OBangEqual
| OLess | OLessEqual | OLessLess | OLessLessEqual
| OGreater | OGreaterEqual | OGreaterGreater | OGreaterGreaterEqual
| OPlus | OPlusPlus | OPlusEqual | OMinus | OMinusMinus | OMinusEqual
| OAsterisk | OAsteriskEqual | OSlash | OSlashEqual | OPercent | OPercentEqual
| OTilde | OOpenParen | OCloseParen.

(* The spelling of the operator tokens.  [L]: a string literal as a list of
   code points (ASCII only). *)
Module LDef.
  Import String Ascii.
  Definition L (s : string) : str := map N_of_ascii (list_ascii_of_string s).
  Arguments L s%string.
  Definition lexeme (o : oper) : str :=
    match o with
    | OQuestion => L "?" | OColon => L ":"
    | OBar => L "|" | OBarBar => L "||" | OBarEqual => L "|="
    | OCaret => L "^" | OCaretEqual => L "^="
    | OAnd => L "&" | OAndAnd => L "&&" | OAndEqual => L "&="
    | OEqual => L "=" | OEqualEqual => L "=="
    | OBang => L "!" | OBangEqual => L "!="
    | OLess => L "<" | OLessEqual => L "<=" | OLessLess => L "<<" | OLessLessEqual => L "<<="
    | OGreater => L ">" | OGreaterEqual => L ">=" | OGreaterGreater => L ">>"
    | OGreaterGreaterEqual => L ">>="
    | OPlus => L "+" | OPlusPlus => L "++" | OPlusEqual => L "+="
    | OMinus => L "-" | OMinusMinus => L "--" | OMinusEqual => L "-="
    | OAsterisk => L "*" | OAsteriskEqual => L "*="
    | OSlash => L "/" | OSlashEqual => L "/="
    | OPercent => L "%" | OPercentEqual => L "%="
    | OTilde => L "~" | OOpenParen => L "(" | OCloseParen => L ")"
    end.
End LDef.
Export LDef.

Definition all_opers : list oper :=
  [ OQuestion; OColon; OBar; OBarBar; OBarEqual; OCaret; OCaretEqual;
    OAnd; OAndAnd; OAndEqual; OEqual; OEqualEqual; OBang; OBangEqual;
    OLess; OLessEqual; OLessLess; OLessLessEqual;
    OGreater; OGreaterEqual; OGreaterGreater; OGreaterGreaterEqual;
    OPlus; OPlusPlus; OPlusEqual; OMinus; OMinusMinus; OMinusEqual;
    OAsterisk; OAsteriskEqual; OSlash; OSlashEqual; OPercent; OPercentEqual;
    OTilde; OOpenParen; OCloseParen ].

Definition oper_eq_dec (a b : oper) : {a = b} + {a <> b}.
Proof. decide equality. Defined.
Definition oper_eqb (a b : oper) : bool := if oper_eq_dec a b then true else false.

Inductive preop := PreInc | PreDec | PrePlus | PreNeg | PreNot | PreBitNot.
Inductive postop := PostInc | PostDec.

(* arithmetic / comparison / bitwise operations on two values *)
Inductive aop :=
| AOr | AXor | AAnd | AEq | ANe | ALt | AGt | ALe | AGe | AShl | AShr
| AAdd | ASub | AMul | ADiv | ARem.

(* binary operator of the expression language *)
Inductive binop :=
| BLogOr | BLogAnd
| BArith (a : aop)             (* a op b *)
| BAssign                      (* a = b *)
| BCompound (a : aop).         (* a op= b;  only | ^ & << >> + - * / % occur *)

Definition aop_eq_dec (a b : aop) : {a = b} + {a <> b}.
Proof. decide equality. Defined.
Definition binop_eq_dec (a b : binop) : {a = b} + {a <> b}.
Proof. decide equality; apply aop_eq_dec. Defined.
Definition preop_eq_dec (a b : preop) : {a = b} + {a <> b}.
Proof. decide equality. Defined.
Definition postop_eq_dec (a b : postop) : {a = b} + {a <> b}.
Proof. decide equality. Defined.

(* ---- decimal rendering (i64 Display / ToString) ---------------------------- *)

(* least significant digit first; [fuel] digits are enough for n < 10^fuel *)
Fixpoint dec_digits_rev (fuel : nat) (n : N) : list N :=
  match fuel with
  | O => []
  | S f => if (n <? 10)%N then [(48 + n)%N]
           else (48 + n mod 10)%N :: dec_digits_rev f (n / 10)%N
  end.

Definition dec_of_N (n : N) : str := rev (dec_digits_rev 20 n).

Definition dec_of_Z (z : Z) : str :=
  if (z <? 0)%Z then 45%N :: dec_of_N (Z.to_N (- z)) else dec_of_N (Z.to_N z).

(* ---- variable environment ---------------------------------------------------- *)

Definition env := list (str * str).

Fixpoint lookup (x : str) (e : env) : option str :=
  match e with
  | [] => None
  | (y, v) :: r => if str_eqb x y then Some v else lookup x r
  end.

Fixpoint set_var (x v : str) (e : env) : env :=
  match e with
  | [] => [(x, v)]
  | (y, w) :: r => if str_eqb x y then (y, v) :: r else (y, w) :: set_var x v r
  end.

(* same finite map (whatever the order of the bindings) *)
Definition env_sub (a b : env) : bool :=
  forallb (fun p => option_eqb str_eqb (lookup (fst p) a) (lookup (fst p) b)) a.
Definition env_equiv (a b : env) : bool := env_sub a b && env_sub b a.
