(* C03 — SPEC: what an arithmetic expansion has to yield, written from ISO C
   (C11 6.4.4.1 integer constants, 6.5 expressions) and XCU 2.6.4, not from the
   code:

     lexical level   maximal munch over the *set* of operator lexemes; integer
                     constants by the C grammar (decimal / octal / hexadecimal),
                     value by positional notation in Z;
     syntax          recursive descent through the C grammar, one level per
                     section of 6.5 (multiplicative ... assignment), producing
                     an expression *tree*;
     semantics       denotational, in unbounded Z, every operator defined by
                     its mathematical meaning; a result that is not
                     representable in 64 bits, or that C leaves undefined, is
                     an error; the bitwise operators act on the two's
                     complement representation;
     variables       a variable whose value is an optionally signed integer
                     constant denotes that number; an unset variable denotes 0;
                     assignment stores the decimal representation.

   Deliberate choices where ISO C gives no meaning (see props/C03.json):
   * the left operand of an assignment is parsed as a conditional-expression and
     must *evaluate* to a variable (C: a unary-expression that is an lvalue), so
     `(x) = 1` and `(c ? x : y) = 1` assign (as in GNU C / C++), while `1 = 2`
     and `a + b = 2` are errors;
   * operands are evaluated left to right and a variable operand is read when
     its operator is applied (`x + x++` is undefined in C);
   * `>>` of a negative number is the arithmetic shift (floor division);
   * `%` is an error whenever the quotient is not representable (C11 6.5.5p6).

   The boolean ORACLE [oracle] compares what the implementation returned with
   [spec_run]. *)
From Yv Require Import Common.Base C03.Defs.
Local Open Scope Z_scope.

(* ====================================================================== *)
(* Lexical level                                                          *)
(* ====================================================================== *)

Inductive stok := SNum (z : Z) | SVar (x : str) | SOp (o : oper).

Fixpoint is_prefix (p s : str) : bool :=
  match p, s with
  | [], _ => true
  | a :: p', b :: s' => (a =? b)%N && is_prefix p' s'
  | _ :: _, [] => false
  end.

(* maximal munch: among the operators whose lexeme is a prefix of the text,
   the one with the longest lexeme *)
Definition longer (s : str) (best : option oper) (o : oper) : option oper :=
  if is_prefix (lexeme o) s then
    match best with
    | Some b => if Nat.ltb (length (lexeme b)) (length (lexeme o)) then Some o else best
    | None => Some o
    end
  else best.

Definition longest_operator (s : str) : option oper :=
  fold_left (longer s) all_opers None.

Fixpoint drop_while (p : N -> bool) (s : str) : str :=
  match s with
  | c :: r => if p c then drop_while p r else s
  | [] => []
  end.

Fixpoint take_while (p : N -> bool) (s : str) : str :=
  match s with
  | c :: r => if p c then c :: take_while p r else []
  | [] => []
  end.

(* digits of C integer constants *)
Definition dec_digit (c : N) : option Z :=
  if ((48 <=? c) && (c <=? 57))%N then Some (Z.of_N c - 48) else None.
Definition oct_digit (c : N) : option Z :=
  if ((48 <=? c) && (c <=? 55))%N then Some (Z.of_N c - 48) else None.
Definition hex_digit (c : N) : option Z :=
  if ((48 <=? c) && (c <=? 57))%N then Some (Z.of_N c - 48)
  else if ((97 <=? c) && (c <=? 102))%N then Some (Z.of_N c - 87)
  else if ((65 <=? c) && (c <=? 70))%N then Some (Z.of_N c - 55)
  else None.

(* positional notation, most significant digit first: sum of d_i * base^(n-1-i);
   None if a character is not a digit of the base *)
Fixpoint positional (digit : N -> option Z) (base : Z) (s : str) : option Z :=
  match s with
  | [] => Some 0
  | c :: r =>
      match digit c, positional digit base r with
      | Some d, Some v => Some (d * base ^ Z.of_nat (length r) + v)
      | _, _ => None
      end
  end.

(* C11 6.4.4.1 without suffixes:
     hexadecimal-constant: 0x or 0X followed by one or more hexadecimal digits
     octal-constant:       0 followed by octal digits
     decimal-constant:     a nonzero digit followed by digits
   The value (unbounded). *)
Definition constant_magnitude (w : str) : option Z :=
  match w with
  | [] => None
  | c :: r =>
      if (c =? 48)%N then                                   (* 0 ... *)
        match r with
        | x :: ds =>
            if ((x =? 120) || (x =? 88))%N then             (* 0x / 0X *)
              match ds with [] => None | _ => positional hex_digit 16 ds end
            else positional oct_digit 8 r
        | [] => Some 0
        end
      else positional dec_digit 10 w
  end.

(* an integer constant of the expression: representable in 64 bits *)
Definition constant_value (w : str) : option Z :=
  match constant_magnitude w with
  | Some m => if m <=? i64_max then Some m else None
  | None => None
  end.

(* The tokens of the text, or None if the text is not a sequence of tokens.
   [fuel] > length of the text. *)
Fixpoint slex (fuel : nat) (cls : N -> N) (s : str) : option (list stok) :=
  match fuel with
  | O => None
  | S f =>
      match drop_while (is_ws cls) s with
      | [] => Some []
      | (c :: _) as s1 =>
          match longest_operator s1 with
          | Some o =>
              option_map (cons (SOp o)) (slex f cls (skipn (length (lexeme o)) s1))
          | None =>
              let w := take_while (is_word cls) s1 in
              let rest := drop_while (is_word cls) s1 in
              match w with
              | [] => None
              | _ =>
                  if ascii_digit c then
                    match constant_value w with
                    | Some z => option_map (cons (SNum z)) (slex f cls rest)
                    | None => None
                    end
                  else option_map (cons (SVar w)) (slex f cls rest)
              end
          end
      end
  end.

Definition spec_lex (cls : N -> N) (s : str) : option (list stok) :=
  slex (S (length s)) cls s.

(* ====================================================================== *)
(* Syntax: the C expression grammar                                       *)
(* ====================================================================== *)

Inductive expr :=
| ENum (z : Z)
| EVar (x : str)
| EPre (o : preop) (e : expr)
| EPost (o : postop) (e : expr)
| EBin (o : binop) (l r : expr)
| ECond (c t f : expr).

(* 6.5.3 unary operators (and prefix increment / decrement) *)
Definition prefix_operator (o : oper) : option preop :=
  match o with
  | OPlusPlus => Some PreInc | OMinusMinus => Some PreDec
  | OPlus => Some PrePlus | OMinus => Some PreNeg
  | OTilde => Some PreBitNot | OBang => Some PreNot
  | _ => None
  end.

(* 6.5.2.4 postfix increment / decrement *)
Definition postfix_operator (o : oper) : option postop :=
  match o with
  | OPlusPlus => Some PostInc | OMinusMinus => Some PostDec
  | _ => None
  end.

(* The left-associative binary levels, numbered from the tightest:
   1 multiplicative (6.5.5), 2 additive (6.5.6), 3 shift (6.5.7),
   4 relational (6.5.8), 5 equality (6.5.9), 6 AND (6.5.10), 7 exclusive OR
   (6.5.11), 8 inclusive OR (6.5.12), 9 logical AND (6.5.13), 10 logical OR
   (6.5.14); 11 is the conditional (6.5.15) and 12 the assignment (6.5.16)
   expression; 0 is the unary-expression. *)
Definition binary_level (lvl : nat) : list (oper * binop) :=
  match lvl with
  | 1%nat => [(OAsterisk, BArith AMul); (OSlash, BArith ADiv); (OPercent, BArith ARem)]
  | 2%nat => [(OPlus, BArith AAdd); (OMinus, BArith ASub)]
  | 3%nat => [(OLessLess, BArith AShl); (OGreaterGreater, BArith AShr)]
  | 4%nat => [(OLess, BArith ALt); (OGreater, BArith AGt);
              (OLessEqual, BArith ALe); (OGreaterEqual, BArith AGe)]
  | 5%nat => [(OEqualEqual, BArith AEq); (OBangEqual, BArith ANe)]
  | 6%nat => [(OAnd, BArith AAnd)]
  | 7%nat => [(OCaret, BArith AXor)]
  | 8%nat => [(OBar, BArith AOr)]
  | 9%nat => [(OAndAnd, BLogAnd)]
  | 10%nat => [(OBarBar, BLogOr)]
  | _ => []
  end.

(* 6.5.16 assignment-operator *)
Definition assignment_operators : list (oper * binop) :=
  [ (OEqual, BAssign); (OAsteriskEqual, BCompound AMul); (OSlashEqual, BCompound ADiv);
    (OPercentEqual, BCompound ARem); (OPlusEqual, BCompound AAdd);
    (OMinusEqual, BCompound ASub); (OLessLessEqual, BCompound AShl);
    (OGreaterGreaterEqual, BCompound AShr); (OAndEqual, BCompound AAnd);
    (OCaretEqual, BCompound AXor); (OBarEqual, BCompound AOr) ].

Fixpoint op_assoc (o : oper) (l : list (oper * binop)) : option binop :=
  match l with
  | [] => None
  | (o', b) :: r => if oper_eqb o o' then Some b else op_assoc o r
  end.

Definition conditional_level : nat := 11.
Definition assignment_level : nat := 12.

(* postfix-expression: a primary expression followed by ++ / -- *)
Fixpoint postfix_ops (e : expr) (ts : list stok) : expr * list stok :=
  match ts with
  | SOp o :: r =>
      match postfix_operator o with
      | Some p => postfix_ops (EPost p e) r
      | None => (e, ts)
      end
  | _ => (e, ts)
  end.

Definition parser := list stok -> option (expr * list stok).

(* unary-expression:
     postfix-expression | ++ unary | -- unary | unary-operator unary
   primary-expression: constant | identifier | ( expression )          *)
Definition unary (expression unary_expression : parser) : parser :=
  fun ts =>
    match ts with
    | SNum z :: r => Some (postfix_ops (ENum z) r)
    | SVar x :: r => Some (postfix_ops (EVar x) r)
    | SOp OOpenParen :: r =>
        match expression r with
        | Some (e, SOp OCloseParen :: r') => Some (postfix_ops e r')
        | _ => None
        end
    | SOp o :: r =>
        match prefix_operator o with
        | Some p =>
            match unary_expression r with
            | Some (e, r') => Some (EPre p e, r')
            | None => None
            end
        | None => None
        end
    | [] => None
    end.

(* What may follow an operand [a] of level [lvl - 1] to make an expression of
   level [lvl]:
     1..10  { op operand }            (left associative; [chain])
     11     [ ? expression : conditional-expression ]
     12     [ assignment-operator assignment-expression ]              *)
Definition tail (expression conditional assignment : parser)
    (chain : nat -> expr -> parser) (lvl : nat) (a : expr) : parser :=
  fun ts =>
    if Nat.eqb lvl conditional_level then
      match ts with
      | SOp OQuestion :: r =>
          match expression r with
          | Some (t, SOp OColon :: r') =>
              match conditional r' with
              | Some (f, r'') => Some (ECond a t f, r'')
              | None => None
              end
          | _ => None
          end
      | _ => Some (a, ts)
      end
    else if Nat.eqb lvl assignment_level then
      match ts with
      | SOp o :: r =>
          match op_assoc o assignment_operators with
          | Some b =>
              match assignment r with
              | Some (v, r') => Some (EBin b a v, r')
              | None => None
              end
          | None => Some (a, ts)
          end
      | _ => Some (a, ts)
      end
    else chain lvl a ts.

(* [sp g lvl ts]: an expression of level [lvl] at the start of [ts], and the
   remaining tokens.  [g] > length ts; it decreases only where a token has been
   consumed, the levels are structural. *)
Fixpoint sp (g : nat) (lvl : nat) (ts : list stok) {struct g} : option (expr * list stok) :=
  match g with
  | O => None
  | S g' =>
      (fix level (lvl : nat) : option (expr * list stok) :=
         match lvl with
         | O => unary (sp g' assignment_level) (sp g' O) ts
         | S l =>
             match level l with
             | Some (a, r) =>
                 tail (sp g' assignment_level) (sp g' conditional_level)
                      (sp g' assignment_level) (chain g') (S l) a r
             | None => None
             end
         end) lvl
  end
with chain (g : nat) (lvl : nat) (a : expr) (ts : list stok) {struct g}
    : option (expr * list stok) :=
  match g with
  | O => None
  | S g' =>
      match ts with
      | SOp o :: r =>
          match op_assoc o (binary_level lvl) with
          | Some b =>
              match sp g' (pred lvl) r with
              | Some (c, r') => chain g' lvl (EBin b a c) r'
              | None => None
              end
          | None => Some (a, ts)
          end
      | _ => Some (a, ts)
      end
  end.

(* the whole token list is one expression *)
Definition spec_parse (ts : list stok) : option expr :=
  match sp (S (length ts)) assignment_level ts with
  | Some (e, []) => Some e
  | _ => None
  end.

(* ====================================================================== *)
(* Semantics                                                              *)
(* ====================================================================== *)

(* two's complement representation in 64 bits: the number z is represented by
   the natural number z mod 2^64, whose binary digits are the 64 bits *)
Definition two64 : Z := 2 ^ 64.
Definition to_bits (z : Z) : Z := z mod two64.
Definition of_bits (u : Z) : Z := if u <? 2 ^ 63 then u else u - two64.

(* truncating division: the algebraic quotient with any fractional part
   discarded (C11 6.5.5p6) *)
Definition trunc_div (a b : Z) : Z := Z.sgn a * Z.sgn b * (Z.abs a / Z.abs b).

Definition representable (z : Z) : option Z := if in_i64 z then Some z else None.

(* the value of  a op b,  None = unrepresentable or undefined *)
Definition arith (o : aop) (a b : Z) : option Z :=
  match o with
  | AAdd => representable (a + b)
  | ASub => representable (a - b)
  | AMul => representable (a * b)
  | ADiv => if b =? 0 then None else representable (trunc_div a b)
  | ARem => if b =? 0 then None
            else match representable (trunc_div a b) with
                 | Some q => Some (a - q * b)
                 | None => None
                 end
  | AShl => if (0 <=? a) && (0 <=? b) && (b <? 64) then representable (a * 2 ^ b) else None
  | AShr => if (0 <=? b) && (b <? 64) then Some (a / 2 ^ b) else None
  | ALt => Some (b2z (a <? b))
  | AGt => Some (b2z (a >? b))
  | ALe => Some (b2z (a <=? b))
  | AGe => Some (b2z (a >=? b))
  | AEq => Some (b2z (a =? b))
  | ANe => Some (b2z (negb (a =? b)))
  | AAnd => Some (of_bits (Z.land (to_bits a) (to_bits b)))
  | AXor => Some (of_bits (Z.lxor (to_bits a) (to_bits b)))
  | AOr => Some (of_bits (Z.lor (to_bits a) (to_bits b)))
  end.

(* The number a variable's value denotes: an integer constant, optionally
   preceded by one sign, that is representable. *)
Definition variable_value (v : str) : option Z :=
  let signed :=
    match v with
    | c :: m =>
        if (c =? 45)%N then option_map Z.opp (constant_magnitude m)      (* - *)
        else if (c =? 43)%N then constant_magnitude m                    (* + *)
        else constant_magnitude v
    | [] => None
    end in
  match signed with
  | Some z => representable z
  | None => None
  end.

(* what an expression evaluates to: a number, or a variable (an lvalue) *)
Inductive sterm := SNumT (z : Z) | SVarT (x : str).

(* lvalue conversion *)
Definition rvalue (t : sterm) (e : env) : option Z :=
  match t with
  | SNumT z => Some z
  | SVarT x => match lookup x e with
               | None => Some 0
               | Some v => variable_value v
               end
  end.

Definition lvalue (t : sterm) : option str :=
  match t with SVarT x => Some x | SNumT _ => None end.

Definition store (x : str) (z : Z) (e : env) : env := set_var x (dec_of_Z z) e.

Definition obind {A B} (m : option A) (k : A -> option B) : option B :=
  match m with Some a => k a | None => None end.
Notation "'let*' p ':=' m 'in' k" := (obind m (fun p => k))
  (at level 200, p pattern, m at level 100, k at level 200, right associativity).

(* unary operators (6.5.3.3), prefix increment and decrement (6.5.3.1), applied
   to what the operand evaluated to;  None = no (representable, defined) value *)
Definition den_prefix (o : preop) (t : sterm) (e : env) : option (sterm * env) :=
  match o with
  | PreInc => let* v := lvalue t in let* n := rvalue t e in
              let* r := representable (n + 1) in Some (SNumT r, store v r e)
  | PreDec => let* v := lvalue t in let* n := rvalue t e in
              let* r := representable (n - 1) in Some (SNumT r, store v r e)
  | PrePlus => let* n := rvalue t e in Some (SNumT n, e)
  | PreNeg => let* n := rvalue t e in let* r := representable (- n) in Some (SNumT r, e)
  | PreNot => let* n := rvalue t e in Some (SNumT (b2z (n =? 0)), e)
  | PreBitNot => let* n := rvalue t e in
                 Some (SNumT (of_bits (Z.lxor (to_bits n) (two64 - 1))), e)
  end.

(* postfix increment and decrement (6.5.2.4): the value is the old value *)
Definition den_postfix (o : postop) (t : sterm) (e : env) : option (sterm * env) :=
  let* v := lvalue t in let* n := rvalue t e in
  let* r := representable (match o with PostInc => n + 1 | PostDec => n - 1 end) in
  Some (SNumT n, store v r e).

(* binary operators whose operands are both evaluated (6.5.5 - 6.5.12, 6.5.16) *)
Definition den_binary (o : binop) (ta tb : sterm) (e : env) : option (sterm * env) :=
  match o with
  | BArith a =>
      let* na := rvalue ta e in let* nb := rvalue tb e in
      let* r := arith a na nb in Some (SNumT r, e)
  | BAssign =>
      let* v := lvalue ta in let* nb := rvalue tb e in
      Some (SNumT nb, store v nb e)
  | BCompound a =>
      let* v := lvalue ta in let* na := rvalue ta e in let* nb := rvalue tb e in
      let* r := arith a na nb in Some (SNumT r, store v r e)
  | BLogOr | BLogAnd => None
  end.

(* None = the expression has no (representable, defined) value *)
Fixpoint den (x : expr) (e : env) : option (sterm * env) :=
  match x with
  | ENum z => Some (SNumT z, e)
  | EVar v => Some (SVarT v, e)
  | EPre o a => let* (t, e) := den a e in den_prefix o t e
  | EPost o a => let* (t, e) := den a e in den_postfix o t e
  | EBin BLogOr a b =>                       (* 6.5.14: b is evaluated only if a = 0 *)
      let* (ta, e) := den a e in let* na := rvalue ta e in
      if negb (na =? 0) then Some (SNumT 1, e)
      else let* (tb, e) := den b e in let* nb := rvalue tb e in
           Some (SNumT (b2z (negb (nb =? 0))), e)
  | EBin BLogAnd a b =>                      (* 6.5.13: b is evaluated only if a <> 0 *)
      let* (ta, e) := den a e in let* na := rvalue ta e in
      if na =? 0 then Some (SNumT 0, e)
      else let* (tb, e) := den b e in let* nb := rvalue tb e in
           Some (SNumT (b2z (negb (nb =? 0))), e)
  | EBin o a b =>
      let* (ta, e) := den a e in let* (tb, e) := den b e in den_binary o ta tb e
  | ECond c a b =>                           (* 6.5.15: only one of a, b is evaluated *)
      let* (tc, e) := den c e in let* nc := rvalue tc e in
      if negb (nc =? 0) then den a e else den b e
  end.

Inductive sres := SVal (z : Z) (e : env) | SErr.

Definition spec_eval (x : expr) (e : env) : sres :=
  match den x e with
  | Some (t, e') => match rvalue t e' with Some z => SVal z e' | None => SErr end
  | None => SErr
  end.

(* The arithmetic expansion of the text [s] in the environment [e]. *)
Definition spec_run (cls : N -> N) (s : str) (e : env) : sres :=
  match spec_lex cls s with
  | None => SErr
  | Some ts => match spec_parse ts with
               | None => SErr
               | Some x => spec_eval x e
               end
  end.

(* Portable mode (the shell's `portable` option): XCU 2.6.4 does not require the
   increment and decrement operators, so a text in which `++` or `--` occurs is
   rejected - wherever the operator stands, also in an operand that would not
   be evaluated. *)
Definition is_incdec (t : stok) : bool :=
  match t with
  | SOp OPlusPlus | SOp OMinusMinus => true
  | _ => false
  end.

Definition spec_run_portable (cls : N -> N) (s : str) (e : env) : sres :=
  match spec_lex cls s with
  | None => SErr
  | Some ts => match spec_parse ts with
               | None => SErr
               | Some x => if existsb is_incdec ts then SErr else spec_eval x e
               end
  end.

(* ====================================================================== *)
(* ORACLE                                                                 *)
(* ====================================================================== *)

(* what the implementation answered, as far as the property speaks about it *)
Inductive answer :=
| AnsValue (z : Z) (final : env)
| AnsError
| AnsPanic
| AnsOther.        (* neither a number nor an error (only through the whole shell) *)

(* 0 = accepted; otherwise the number of the violated clause *)
Definition oracle_for (spec : sres) (a : answer) : N :=
  match a with
  | AnsPanic => 6%N
  | AnsOther => 7%N
  | AnsError => match spec with SErr => 0%N | SVal _ _ => 5%N end
  | AnsValue z e' =>
      match spec with
      | SErr => 2%N
      | SVal z' e'' =>
          if negb (z =? z') then 3%N
          else if negb (env_equiv e' e'') then 4%N
          else 0%N
      end
  end.

Definition oracle (cls : N -> N) (s : str) (e : env) (a : answer) : N :=
  oracle_for (spec_run cls s e) a.

Definition oracle_portable (cls : N -> N) (s : str) (e : env) (a : answer) : N :=
  oracle_for (spec_run_portable cls s e) a.
