(* C03 — proofs, part 5: the precedence-climbing parser of ast.rs against the
   recursive-descent parser through the levels of the C grammar. *)
From Yv Require Import Common.Base C03.Defs C03.Model C03.Spec C03.ProofsArith C03.ProofsNum C03.ProofsLex C03.ProofsEval.
From Coq Require Import ZArith NArith Lia ZifyBool.

(* ---- unfolding the specification parser --------------------------------------- *)

Definition stail (g : nat) : nat -> expr -> parser :=
  tail (sp g assignment_level) (sp g conditional_level) (sp g assignment_level) (chain g).

Lemma sp_0 g ts : sp (S g) 0 ts = unary (sp g assignment_level) (sp g 0) ts.
Proof. reflexivity. Qed.

Lemma sp_S g l ts :
  sp (S g) (S l) ts =
  match sp (S g) l ts with
  | Some (a, r) => stail g (S l) a r
  | None => None
  end.
Proof. reflexivity. Qed.

Lemma sp_O lvl ts : sp 0 lvl ts = None.
Proof. reflexivity. Qed.

Lemma chain_S g lvl a ts :
  chain (S g) lvl a ts =
  match ts with
  | SOp o :: r =>
      match op_assoc o (binary_level lvl) with
      | Some b =>
          match sp g (pred lvl) r with
          | Some (c, r') => chain g lvl (EBin b a c) r'
          | None => None
          end
      | None => Some (a, ts)
      end
  | _ => Some (a, ts)
  end.
Proof. reflexivity. Qed.

(* levels lo+1 .. lo+n applied in turn *)
Fixpoint tails (g : nat) (lo n : nat) (a : expr) (ts : list stok) : option (expr * list stok) :=
  match n with
  | O => Some (a, ts)
  | S n' =>
      match tails g lo n' a ts with
      | Some (a', r) => stail g (lo + n) a' r
      | None => None
      end
  end.

Lemma sp_tails g lvl ts :
  sp (S g) lvl ts =
  match sp (S g) 0 ts with
  | Some (a, r) => tails g 0 lvl a r
  | None => None
  end.
Proof.
  induction lvl as [|l IH].
  - cbn [tails]. destruct (sp (S g) 0 ts) as [[a r]|]; reflexivity.
  - rewrite sp_S, IH. cbn [tails]. destruct (sp (S g) 0 ts) as [[a r]|]; reflexivity.
Qed.

Lemma tails_split g lo n1 n2 a ts :
  tails g lo (n1 + n2) a ts =
  match tails g lo n1 a ts with
  | Some (a', r) => tails g (lo + n1) n2 a' r
  | None => None
  end.
Proof.
  induction n2 as [|n2 IH].
  - rewrite Nat.add_0_r. cbn [tails]. destruct (tails g lo n1 a ts) as [[a' r]|]; reflexivity.
  - rewrite Nat.add_succ_r. cbn [tails]. rewrite IH.
    destruct (tails g lo n1 a ts) as [[a' r]|]; [|reflexivity].
    replace (lo + S (n1 + n2))%nat with (lo + n1 + S n2)%nat by lia. reflexivity.
Qed.

(* ---- the level at which an operator token acts as an infix operator --------------- *)

Definition op_level (o : oper) : option nat :=
  match find (fun j => match op_assoc o (binary_level j) with Some _ => true | None => false end)
             (seq 1 10) with
  | Some j => Some j
  | None =>
      if oper_eqb o OQuestion then Some 11%nat
      else match op_assoc o assignment_operators with Some _ => Some 12%nat | None => None end
  end.

(* Operator::precedence and as_binary against the C grammar levels *)
Lemma precedence_level o :
  match op_level o with
  | Some j => precedence o = N.of_nat (13 - j) /\ (1 <= j <= 12)%nat
  | None => precedence o = 0%N \/ precedence o = 13%N
  end.
Proof. destruct o; vm_compute; auto; split; (reflexivity || lia). Qed.

Lemma as_binary_level o :
  as_binary o =
  match op_level o with
  | Some j =>
      if Nat.leb j 10 then option_map (fun b => (b, Left)) (op_assoc o (binary_level j))
      else if Nat.eqb j 12 then option_map (fun b => (b, Right)) (op_assoc o assignment_operators)
      else None
  | None => None
  end.
Proof. destruct o; reflexivity. Qed.

Lemma op_level_binary o j :
  (1 <= j <= 10)%nat ->
  (op_level o = Some j <-> op_assoc o (binary_level j) <> None).
Proof.
  intros Hj. do 11 (destruct j as [|j]; [destruct o; vm_compute; split; (congruence || lia)|]). lia.
Qed.

Lemma op_level_question o : op_level o = Some 11%nat <-> o = OQuestion.
Proof. destruct o; vm_compute; split; congruence. Qed.

Lemma op_level_assign o : op_level o = Some 12%nat <-> op_assoc o assignment_operators <> None.
Proof. destruct o; vm_compute; split; congruence. Qed.

Lemma binary_level_out j : (j = 0 \/ 11 <= j)%nat -> binary_level j = [].
Proof. intros H. do 11 (destruct j as [|j]; [try reflexivity; lia|]). reflexivity. Qed.

Lemma prefix_tables o : as_prefix o = prefix_operator o /\ as_postfix o = postfix_operator o.
Proof. destruct o; split; reflexivity. Qed.

(* a level does nothing when the next token is not one of its operators *)
Lemma stail_noop_op g j a o r :
  (1 <= g)%nat -> (1 <= j)%nat -> op_level o <> Some j ->
  stail g j a (SOp o :: r) = Some (a, SOp o :: r).
Proof.
  intros Hg Hj Hl. unfold stail, tail.
  destruct (Nat.eqb_spec j conditional_level) as [->|H11].
  - destruct o; try reflexivity. exfalso. apply Hl. reflexivity.
  - destruct (Nat.eqb_spec j assignment_level) as [->|H12].
    + destruct (op_assoc o assignment_operators) eqn:E; [|reflexivity].
      exfalso. apply Hl. apply op_level_assign. congruence.
    + destruct g as [|g]; [lia|]. rewrite chain_S.
      destruct (op_assoc o (binary_level j)) eqn:E; [|reflexivity].
      exfalso. unfold conditional_level, assignment_level in *.
      destruct (Nat.le_gt_cases j 10).
      * apply Hl. apply op_level_binary; [lia|congruence].
      * rewrite binary_level_out in E by lia. discriminate.
Qed.

Definition nonop (ts : list stok) : Prop :=
  match ts with SOp _ :: _ => False | _ => True end.

Lemma stail_noop_nonop g j a ts :
  (1 <= g)%nat -> nonop ts -> stail g j a ts = Some (a, ts).
Proof.
  intros Hg Hn. unfold stail, tail. destruct g as [|g]; [lia|].
  destruct ts as [|[z|x|o] r]; try contradiction;
    destruct (Nat.eqb j conditional_level); try reflexivity;
    destruct (Nat.eqb j assignment_level); reflexivity.
Qed.

(* the next token is not an infix operator of the levels lo+1 .. lo+n *)
Definition not_in_levels (lo n : nat) (ts : list stok) : Prop :=
  match ts with
  | SOp o :: _ => forall j, op_level o = Some j -> (j <= lo \/ lo + n < j)%nat
  | _ => True
  end.

Lemma tails_noop g lo n a ts :
  (1 <= g)%nat -> not_in_levels lo n ts -> tails g lo n a ts = Some (a, ts).
Proof.
  intros Hg. induction n as [|n IH]; intros Hn; [reflexivity|].
  cbn [tails]. rewrite IH.
  - destruct ts as [|[z|x|o] r]; try (apply stail_noop_nonop; [assumption|exact I]).
    apply stail_noop_op; [assumption|lia|]. intros E. cbn in Hn. specialize (Hn _ E). lia.
  - destruct ts as [|[z|x|o] r]; try exact I. cbn in *. intros j E. specialize (Hn j E). lia.
Qed.

(* ---- more fuel does not change a successful parse ------------------------------------ *)

Definition pmono (p q : parser) : Prop := forall ts x, p ts = Some x -> q ts = Some x.

Lemma unary_mono e1 e2 u1 u2 :
  pmono e1 e2 -> pmono u1 u2 -> pmono (unary e1 u1) (unary e2 u2).
Proof.
  intros He Hu ts x. unfold unary. destruct ts as [|[z|v|o] r]; auto.
  destruct o; auto;
    try (destruct (u1 r) as [[e r']|] eqn:E; [|discriminate]; rewrite (Hu _ _ E); auto).
  destruct (e1 r) as [[e r']|] eqn:E; [|discriminate]. rewrite (He _ _ E). auto.
Qed.

Lemma tail_mono e1 e2 c1 c2 a1 a2 (ch1 ch2 : nat -> expr -> parser) :
  pmono e1 e2 -> pmono c1 c2 -> pmono a1 a2 ->
  (forall l x, pmono (ch1 l x) (ch2 l x)) ->
  forall lvl x, pmono (tail e1 c1 a1 ch1 lvl x) (tail e2 c2 a2 ch2 lvl x).
Proof.
  intros He Hc Ha Hch lvl x ts y. unfold tail.
  destruct (Nat.eqb lvl conditional_level).
  - destruct ts as [|[z|v|o] r]; auto. destruct o; auto.
    destruct (e1 r) as [[t r']|] eqn:E; [|discriminate]. rewrite (He _ _ E).
    destruct r' as [|[z|v|o] r'']; auto. destruct o; auto.
    destruct (c1 r'') as [[f r3]|] eqn:E2; [|discriminate]. rewrite (Hc _ _ E2). auto.
  - destruct (Nat.eqb lvl assignment_level).
    + destruct ts as [|[z|v|o] r]; auto.
      destruct (op_assoc o assignment_operators); auto.
      destruct (a1 r) as [[v r']|] eqn:E; [|discriminate]. rewrite (Ha _ _ E). auto.
    + apply Hch.
Qed.

Lemma sp_chain_mono g :
  (forall lvl, pmono (sp g lvl) (sp (S g) lvl)) /\
  (forall lvl a, pmono (chain g lvl a) (chain (S g) lvl a)).
Proof.
  induction g as [|g [IHs IHc]].
  - split; intros; intros ts x H; discriminate H.
  - assert (Hs : forall lvl, pmono (sp (S g) lvl) (sp (S (S g)) lvl)).
    { induction lvl as [|l IHl].
      - intros ts x. rewrite !sp_0. apply unary_mono; apply IHs.
      - intros ts x. rewrite !sp_S.
        destruct (sp (S g) l ts) as [[a r]|] eqn:E; [|discriminate].
        rewrite (IHl _ _ E). unfold stail. apply tail_mono; auto. }
    split; [exact Hs|].
    intros lvl a ts x. rewrite (chain_S (S g)), (chain_S g).
    destruct ts as [|[z|v|o] r]; auto.
    destruct (op_assoc o (binary_level lvl)); auto.
    destruct (sp g (pred lvl) r) as [[c r']|] eqn:E; [|discriminate].
    rewrite (IHs _ _ _ E). apply IHc.
Qed.

Lemma stail_mono g lvl a : pmono (stail g lvl a) (stail (S g) lvl a).
Proof.
  destruct (sp_chain_mono g) as [Hs Hc]. unfold stail. apply tail_mono; auto.
Qed.

Lemma tails_mono g lo n a ts x : tails g lo n a ts = Some x -> tails (S g) lo n a ts = Some x.
Proof.
  revert x. induction n as [|n IH]; intros x; cbn [tails]; [auto|].
  destruct (tails g lo n a ts) as [[a' r]|]; [|discriminate].
  rewrite (IH _ eq_refl). apply stail_mono.
Qed.

Lemma chain_mono g lvl a ts x : chain g lvl a ts = Some x -> chain (S g) lvl a ts = Some x.
Proof. apply sp_chain_mono. Qed.

(* ---- the model parser: shape of successful results ------------------------------------ *)

Definition nohigh (m : N) (st : stream) : Prop :=
  match peek_op st with
  | Some (o, _, _) => (precedence o < m)%N
  | None => True
  end.

Definition slen (st : stream) : nat := length (fst st).

Lemma parse_postfix_l_shape ts :
  let '(ns, r) := parse_postfix_l ts in (length r <= length ts)%nat.
Proof.
  induction ts as [|[[t|o] loc] ts IH]; cbn [parse_postfix_l]; try (cbn; lia).
  destruct (as_postfix o); [|cbn; lia].
  destruct (parse_postfix_l ts) as [ns r]. cbn [length]. lia.
Qed.

Lemma parse_postfix_shape st :
  let '(ns, st') := parse_postfix st in snd st' = snd st /\ (slen st' <= slen st)%nat.
Proof.
  unfold parse_postfix, slen. pose proof (parse_postfix_l_shape (fst st)) as H.
  destruct (parse_postfix_l (fst st)) as [ns r]. cbn. auto.
Qed.

Lemma parse_close_paren_shape st op st' :
  parse_close_paren st op = inl st' -> snd st' = snd st /\ (slen st' < slen st)%nat.
Proof.
  unfold parse_close_paren, slen. destruct st as [[|[[t|o] loc] ts] fi]; cbn.
  - destruct fi; discriminate.
  - discriminate.
  - destruct o; try discriminate. intros [= <-]. cbn. auto.
Qed.

Lemma parse_shape f :
  (forall st ns st', parse_leaf f st = POk ns st' ->
     snd st' = snd st /\ (slen st' < slen st)%nat) /\
  (forall m st ns st', parse_tree f m st = POk ns st' ->
     snd st' = snd st /\ (slen st' < slen st)%nat /\ nohigh m st') /\
  (forall m acc st ns st', parse_loop f m acc st = POk ns st' ->
     snd st' = snd st /\ (slen st' <= slen st)%nat /\ nohigh m st').
Proof.
  induction f as [|f [IHleaf [IHtree IHloop]]].
  - repeat split; discriminate.
  - assert (Hleaf : forall st ns st', parse_leaf (S f) st = POk ns st' ->
                      snd st' = snd st /\ (slen st' < slen st)%nat).
    { intros st ns st'. cbn [parse_leaf].
      destruct st as [[|[[t|o] loc] ts] fi]; cbn [next].
      - destruct fi; discriminate.
      - pose proof (parse_postfix_shape (ts, fi)) as H.
        destruct (parse_postfix (ts, fi)) as [ps st2]. intros [= <- <-].
        unfold slen in *. cbn in *. destruct H. split; [auto|lia].
      - assert (Hpre : forall p,
            match parse_leaf f (ts, fi) with
            | POk ns0 st2 => POk (ns0 ++ [APrefix p loc]) st2
            | r => r
            end = POk ns st' -> snd st' = fi /\ (slen st' < S (length ts))%nat).
        { intros p. destruct (parse_leaf f (ts, fi)) as [ns0 st2| |] eqn:E; try discriminate.
          intros [= <- <-]. apply IHleaf in E. unfold slen in *. cbn in *. destruct E. split; [auto|lia]. }
        unfold slen. cbn [fst snd length].
        destruct o; cbn [as_prefix]; try discriminate; try apply Hpre.
        destruct (parse_tree f 1 (ts, fi)) as [ns0 st2| |] eqn:E; try discriminate.
        apply IHtree in E. destruct E as [E1 [E2 _]].
        destruct (parse_close_paren st2 loc) as [st3|[e l]] eqn:Ec; try discriminate.
        apply parse_close_paren_shape in Ec. destruct Ec as [Ec1 Ec2].
        pose proof (parse_postfix_shape st3) as H.
        destruct (parse_postfix st3) as [ps st4]. intros [= <- <-].
        unfold slen in *. cbn in *. destruct H. split; [congruence|lia]. }
    assert (Hloop : forall m acc st ns st', parse_loop (S f) m acc st = POk ns st' ->
                      snd st' = snd st /\ (slen st' <= slen st)%nat /\ nohigh m st').
    { intros m acc st ns st'. cbn [parse_loop].
      destruct (peek_op st) as [[[o loc] st1]|] eqn:Ep.
      2:{ intros [= <- <-]. unfold nohigh. rewrite Ep. auto. }
      assert (Hst1 : snd st1 = snd st /\ S (slen st1) = slen st).
      { destruct st as [[|[[t|o'] loc'] ts] fi]; try discriminate. cbn in Ep.
        injection Ep as <- <- <-. unfold slen. cbn. auto. }
      destruct Hst1 as [Hfin Hlen].
      destruct (precedence o <? m)%N eqn:Eprec.
      { intros [= <- <-]. unfold nohigh. rewrite Ep. repeat split; auto. lia. }
      assert (Hbin : forall b a0,
          match parse_tree f (match a0 with Left => precedence o + 1 | Right => precedence o end) st1 with
          | POk nr st2 => parse_loop f m (acc ++ nr ++ [ABinary b (length nr) loc]) st2
          | r => r
          end = POk ns st' ->
          snd st' = snd st /\ (slen st' <= slen st)%nat /\ nohigh m st').
      { intros b a0. destruct (parse_tree f _ st1) as [nr st2| |] eqn:E; try discriminate.
        intros H. apply IHtree in E. apply IHloop in H.
        destruct E as [E1 [E2 _]], H as [H1 [H2 H3]].
        split; [congruence|]. split; [lia|exact H3]. }
      destruct o; cbn [as_binary]; try discriminate;
        try apply (Hbin _ Left); try apply (Hbin _ Right).
      (* ? *)
      destruct (parse_tree f 1 st1) as [nt st2| |] eqn:E; try discriminate.
      apply IHtree in E. destruct E as [E1 [E2 _]].
      destruct (next st2) as [[k cl] st3] eqn:En.
      assert (Hst3 : k = KOp OColon -> snd st3 = snd st2 /\ (slen st3 < slen st2)%nat).
      { intros ->. destruct st2 as [[|[[t|o'] loc'] ts] fi]; cbn in En.
        - destruct fi; discriminate.
        - discriminate.
        - injection En as Ho Hl Hs. subst. unfold slen. cbn. auto. }
      destruct k as [t|o'| |e]; try discriminate. destruct o'; try discriminate.
      destruct (Hst3 eq_refl) as [H31 H32].
      destruct (parse_tree f (precedence OQuestion) st3) as [ne st4| |] eqn:E4; try discriminate.
      intros H. apply IHtree in E4. apply IHloop in H.
      destruct E4 as [E41 [E42 _]], H as [H1 [H2 H3]].
      split; [congruence|]. split; [lia|exact H3]. }
    split; [exact Hleaf|]. split; [|exact Hloop].
    intros m st ns st'. cbn [parse_tree].
    destruct (parse_leaf f st) as [ns0 st1| |] eqn:E; try discriminate.
    intros H. apply IHleaf in E. apply IHloop in H.
    destruct E as [E1 E2], H as [H1 [H2 H3]].
    split; [congruence|]. split; [lia|exact H3].
Qed.

(* ---- auxiliary forms --------------------------------------------------------------------- *)

Lemma tails_from_level g L j a ts :
  (1 <= g)%nat -> (1 <= j <= L)%nat -> not_in_levels 0 (j - 1) ts ->
  tails g 0 L a ts =
  match stail g j a ts with
  | Some (a2, r3) => tails g j (L - j) a2 r3
  | None => None
  end.
Proof.
  intros Hg Hj Hn.
  replace L with ((j - 1) + (1 + (L - j)))%nat at 1 by lia.
  rewrite tails_split, tails_noop by assumption.
  rewrite tails_split. cbn [tails]. replace (0 + (j - 1) + 1)%nat with j by lia.
  destruct (stail g j a ts) as [[a2 r3]|]; [|reflexivity].
  replace (0 + (j - 1) + 1)%nat with j by lia. reflexivity.
Qed.

Lemma stail_chain g j a ts : (j <= 10)%nat -> stail g j a ts = chain g j a ts.
Proof.
  intros Hj. unfold stail, tail, conditional_level, assignment_level.
  replace (Nat.eqb j 11) with false by (symmetry; apply Nat.eqb_neq; lia).
  replace (Nat.eqb j 12) with false by (symmetry; apply Nat.eqb_neq; lia). reflexivity.
Qed.

Lemma stail_cond g a r :
  stail g 11 a (SOp OQuestion :: r) =
  match sp g 12 r with
  | Some (t, SOp OColon :: r') =>
      match sp g 11 r' with
      | Some (f, r'') => Some (ECond a t f, r'')
      | None => None
      end
  | _ => None
  end.
Proof. reflexivity. Qed.

Lemma stail_assign g a o r :
  stail g 12 a (SOp o :: r) =
  match op_assoc o assignment_operators with
  | Some b => match sp g 12 r with
              | Some (v, r') => Some (EBin b a v, r')
              | None => None
              end
  | None => Some (a, SOp o :: r)
  end.
Proof. reflexivity. Qed.

Lemma parse_loop_S f m acc st :
  parse_loop (S f) m acc st =
  match peek_op st with
  | None => POk acc st
  | Some (o, loc, st1) =>
      let p := precedence o in
      if (p <? m)%N then POk acc st
      else if oper_eqb o OQuestion then
        match parse_tree f 1 st1 with
        | POk nt st2 =>
            let '(k, cl, st3) := next st2 in
            match k with
            | KErr e => PErr (SETok e) cl
            | KOp OColon =>
                match parse_tree f p st3 with
                | POk ne st4 =>
                    parse_loop f m (acc ++ nt ++ ne ++ [ACond (length nt) (length ne)]) st4
                | r => r
                end
            | _ => PErr (QuestionWithoutColon loc) cl
            end
        | r => r
        end
      else
        match as_binary o with
        | None => PErr InvalidOperator loc
        | Some (b, a) =>
            match parse_tree f (match a with Left => p + 1 | Right => p end) st1 with
            | POk nr st2 => parse_loop f m (acc ++ nr ++ [ABinary b (length nr) loc]) st2
            | r => r
            end
        end
  end.
Proof.
  cbn [parse_loop]. destruct (peek_op st) as [[[o loc] st1]|]; [|reflexivity].
  destruct o; reflexivity.
Qed.

Lemma peek_op_some st o loc st1 :
  peek_op st = Some (o, loc, st1) ->
  st = ((TkOp o, loc) :: fst st1, snd st1).
Proof.
  destruct st as [[|[[t|o'] loc'] ts] fi]; cbn; try discriminate. now intros [= <- <- <-].
Qed.

Lemma peek_op_none st : peek_op st = None -> nonop (erase (fst st)).
Proof. destruct st as [[|[[[z|x l]|o'] loc'] ts] fi]; cbn; try discriminate; auto. Qed.

Lemma nohigh_levels m st j :
  nohigh m st -> (1 <= m <= 13)%N -> (j <= 13 - N.to_nat m)%nat ->
  not_in_levels 0 j (erase (fst st)).
Proof.
  intros Hn Hm Hj. unfold nohigh in Hn.
  destruct st as [[|[[[z|x l]|o] loc] ts] fi];
    cbn [peek_op erase map fst erase_tok not_in_levels] in *; auto.
  intros j2 E. pose proof (precedence_level o) as Hp. rewrite E in Hp. lia.
Qed.

Lemma parse_postfix_spec ts fi :
  forall e ns, Repr e ns ->
  let '(ps, st2) := parse_postfix (ts, fi) in
  exists e', postfix_ops e (erase ts) = (e', erase (fst st2)) /\ Repr e' (ns ++ ps).
Proof.
  unfold parse_postfix. cbn [fst snd].
  induction ts as [|[[[z|x l]|o] loc] ts IH]; intros e ns HR; cbn [parse_postfix_l erase map erase_tok fst postfix_ops].
  - exists e. rewrite app_nil_r. auto.
  - exists e. rewrite app_nil_r. auto.
  - exists e. rewrite app_nil_r. auto.
  - destruct (prefix_tables o) as [_ Hpo]. rewrite <- Hpo.
    destruct (as_postfix o) as [p|].
    + specialize (IH (EPost p e) (ns ++ [APostfix p loc]) (RPost p loc e ns HR)).
      destruct (parse_postfix_l ts) as [ps r]. cbn [fst] in *.
      destruct IH as [e' [H1 H2]]. exists e'. split; [exact H1|].
      now rewrite <- app_assoc in H2.
    + exists e. rewrite app_nil_r. auto.
Qed.

(* ---- (i) what the model parser accepts, the grammar derives, with the same tree --------- *)

Lemma erase_cons t ts : erase (t :: ts) = erase_tok t :: erase ts.
Proof. reflexivity. Qed.

Definition lvl_of (m : N) : nat := 13 - N.to_nat m.

Definition ets (st : stream) : list stok := erase (fst st).

Lemma parse_sound f :
  (forall st ns st', parse_leaf f st = POk ns st' ->
     forall g, (slen st < g)%nat ->
     exists e, sp g 0 (ets st) = Some (e, ets st') /\ Repr e ns) /\
  (forall m st ns st', parse_tree f m st = POk ns st' -> (1 <= m <= 13)%N ->
     forall g, (slen st < g)%nat ->
     exists e, sp g (lvl_of m) (ets st) = Some (e, ets st') /\ Repr e ns) /\
  (forall m acc st ns st', parse_loop f m acc st = POk ns st' -> (1 <= m <= 13)%N ->
     forall a g, Repr a acc -> (slen st < g)%nat ->
     exists e, tails g 0 (lvl_of m) a (ets st) = Some (e, ets st') /\ Repr e ns).
Proof.
  induction f as [|f [IHleaf [IHtree IHloop]]].
  - repeat split; discriminate.
  - destruct (parse_shape f) as [SHleaf [SHtree SHloop]].
    assert (Hleaf : forall st ns st', parse_leaf (S f) st = POk ns st' ->
              forall g, (slen st < g)%nat ->
              exists e, sp g 0 (ets st) = Some (e, ets st') /\ Repr e ns).
    { intros st ns st' H g Hg. destruct g as [|g]; [lia|]. rewrite sp_0.
      cbn [parse_leaf] in H. unfold ets, slen in *.
      destruct st as [[|[[[z|x l]|o] loc] ts] fi]; cbn [next fst snd length] in *;
        rewrite ?erase_cons; cbn [erase_tok fst].
      - destruct fi; discriminate.
      - pose proof (parse_postfix_spec ts fi (ENum z) _ (RNum z)) as HP.
        destruct (parse_postfix (ts, fi)) as [ps st2]. injection H as <- <-.
        destruct HP as [e' [HP1 HP2]]. exists e'. cbn [unary]. rewrite HP1. auto.
      - pose proof (parse_postfix_spec ts fi (EVar x) _ (RVar x l)) as HP.
        destruct (parse_postfix (ts, fi)) as [ps st2]. injection H as <- <-.
        destruct HP as [e' [HP1 HP2]]. exists e'. cbn [unary]. rewrite HP1. auto.
      - assert (Hpre : forall p, prefix_operator o = Some p -> o <> OOpenParen ->
            match parse_leaf f (ts, fi) with
            | POk ns0 st2 => POk (ns0 ++ [APrefix p loc]) st2
            | r => r
            end = POk ns st' ->
            exists e, unary (sp g assignment_level) (sp g 0) (SOp o :: erase ts)
                      = Some (e, erase (fst st')) /\ Repr e ns).
        { intros p Hp Hno H'. destruct (parse_leaf f (ts, fi)) as [ns0 st2| |] eqn:E; try discriminate.
          injection H' as <- <-.
          destruct (IHleaf _ _ _ E g ltac:(unfold slen; cbn; lia)) as [e [He HR]].
          exists (EPre p e). split; [|now constructor].
          unfold ets in He. cbn [fst] in He.
          destruct o; cbn in Hp; try discriminate Hp; injection Hp as <-; cbn [unary]; now rewrite He. }
        destruct o; cbn [as_prefix] in H; try discriminate;
          try (apply (Hpre _ eq_refl); [discriminate|exact H]).
        (* ( *)
        destruct (parse_tree f 1 (ts, fi)) as [ns0 st2| |] eqn:E; try discriminate.
        destruct (SHtree _ _ _ _ E) as [_ [Hlt _]].
        destruct (IHtree _ _ _ _ E ltac:(lia) g ltac:(unfold slen in *; cbn in *; lia)) as [e [He HR]].
        unfold ets in He. cbn [fst] in He. change (lvl_of 1) with assignment_level in He.
        unfold parse_close_paren in H.
        destruct st2 as [[|[[[z|x l]|o] loc2] ts2] fi2]; cbn [next] in H.
        + destruct fi2; discriminate.
        + discriminate.
        + discriminate.
        + destruct o; try discriminate.
          pose proof (parse_postfix_spec ts2 fi2 e _ HR) as HP.
          destruct (parse_postfix (ts2, fi2)) as [ps st4]. injection H as <- <-.
          destruct HP as [e' [HP1 HP2]]. exists e'. cbn [unary]. rewrite He.
          cbn [fst]. rewrite erase_cons. cbn [erase_tok fst]. rewrite HP1. auto. }
    assert (Hloop : forall m acc st ns st', parse_loop (S f) m acc st = POk ns st' ->
              (1 <= m <= 13)%N ->
              forall a g, Repr a acc -> (slen st < g)%nat ->
              exists e, tails g 0 (lvl_of m) a (ets st) = Some (e, ets st') /\ Repr e ns).
    { intros m acc st ns st' H Hm a g HR Hg. rewrite parse_loop_S in H.
      destruct (peek_op st) as [[[o loc] st1]|] eqn:Ep.
      2:{ injection H as <- <-. exists a. split; [|exact HR].
          apply tails_noop; [lia|]. apply peek_op_none in Ep. unfold ets.
          destruct (erase (fst st)) as [|[]]; try exact I. contradiction. }
      pose proof (peek_op_some _ _ _ _ Ep) as Est. 
      assert (Hets : ets st = SOp o :: ets st1) by (rewrite Est; reflexivity).
      assert (Hlen : slen st = S (slen st1)) by (rewrite Est; reflexivity).
      pose proof (precedence_level o) as Hprec.
      cbv zeta in H.
      destruct (precedence o <? m)%N eqn:Elt.
      { injection H as <- <-. exists a. split; [|exact HR].
        apply tails_noop; [lia|]. rewrite Hets. cbn [not_in_levels]. intros j E.
        rewrite E in Hprec. unfold lvl_of. lia. }
      destruct (oper_eqb o OQuestion) eqn:Eq.
      { (* ? : *)
        assert (o = OQuestion) by (unfold oper_eqb in Eq; now destruct (oper_eq_dec o OQuestion)).
        subst o. clear Hprec Eq.
        destruct (parse_tree f 1 st1) as [nt st2| |] eqn:E1; try discriminate.
        destruct (SHtree _ _ _ _ E1) as [_ [Hlt2 _]].
        destruct (next st2) as [[k cl] st3] eqn:En.
        destruct k as [t|o'| |e0]; try discriminate. destruct o'; try discriminate.
        assert (Est2 : ets st2 = SOp OColon :: ets st3 /\ S (slen st3) = slen st2).
        { destruct st2 as [[|[[[z|x l]|o'] loc2] ts2] fi2]; cbn [next] in En.
          - destruct fi2; discriminate.
          - discriminate.
          - discriminate.
          - injection En as Ho Hl Hs. subst. auto. }
        destruct Est2 as [Est2 Hlen3].
        destruct (parse_tree f (precedence OQuestion) st3) as [ne st4| |] eqn:E4; try discriminate.
        destruct (SHtree _ _ _ _ E4) as [_ [Hlt4 Hnh4]].
        destruct (IHtree _ _ _ _ E1 ltac:(lia) g ltac:(lia)) as [t [Ht HRt]].
        destruct (IHtree _ _ _ _ E4 ltac:(change (precedence OQuestion) with 2%N; lia) g ltac:(lia)) as [fe [Hfe HRf]].
        change (lvl_of 1) with 12%nat in Ht. change (lvl_of (precedence OQuestion)) with 11%nat in Hfe.
        destruct (IHloop _ _ _ _ _ H Hm (ECond a t fe) g
                   (RCond _ _ _ _ _ _ HR HRt HRf) ltac:(lia)) as [e [He HRe]].
        exists e. split; [|exact HRe].
        assert (HL : (11 <= lvl_of m)%nat) by (unfold lvl_of; change (precedence OQuestion) with 2%N in Elt; lia).
        rewrite Hets.
        rewrite (tails_from_level g (lvl_of m) 11) by
          (try lia; cbn [not_in_levels]; intros j E; vm_compute in E; injection E as <-; lia).
        rewrite stail_cond, Ht, Est2, Hfe.
        rewrite (tails_from_level g (lvl_of m) 11) in He; try lia.
        2:{ apply (nohigh_levels (precedence OQuestion)); [exact Hnh4| |];
            change (precedence OQuestion) with 2%N; lia. }
        assert (Hskip : stail g 11 (ECond a t fe) (ets st4) = Some (ECond a t fe, ets st4)).
        { unfold ets. unfold nohigh in Hnh4.
          destruct st4 as [[|[[[z|x l]|o'] loc4] ts4] fi4]; cbn [peek_op erase map fst erase_tok] in *;
            try (apply stail_noop_nonop; [lia|exact I]).
          apply stail_noop_op; [lia|lia|]. intros E. apply op_level_question in E. subst o'.
          change (precedence OQuestion) with 2%N in Hnh4. lia. }
        rewrite Hskip in He. exact He. }
      destruct (as_binary o) as [[b assoc]|] eqn:Eb; try discriminate.
      rewrite as_binary_level in Eb.
      destruct (op_level o) as [j|] eqn:Ej; try discriminate.
      destruct Hprec as [Hp Hj].
      destruct (parse_tree f _ st1) as [nr st2| |] eqn:E1; try discriminate.
      destruct (SHtree _ _ _ _ E1) as [_ [Hlt2 Hnh2]].
      assert (HL : (j <= lvl_of m)%nat) by (unfold lvl_of; lia).
      rewrite Hets.
      rewrite (tails_from_level g (lvl_of m) j) by
          (try lia; cbn [not_in_levels]; intros j' E; rewrite Ej in E; injection E as <-; lia).
      destruct (Nat.leb j 10) eqn:Ej10.
      - (* left-associative level j *)
        apply Nat.leb_le in Ej10.
        destruct (op_assoc o (binary_level j)) as [b'|] eqn:Eo; try discriminate.
        cbn [option_map] in Eb. injection Eb as -> <-.
        destruct g as [|g]; [lia|].
        destruct (IHtree _ _ _ _ E1 ltac:(lia) g ltac:(lia)) as [c [Hc HRc]].
        replace (lvl_of (precedence o + 1)) with (pred j) in Hc by (unfold lvl_of; lia).
        destruct (IHloop _ _ _ _ _ H Hm (EBin b a c) g
                   (RBin _ loc _ _ _ _ HR HRc) ltac:(lia)) as [e [He HRe]].
        exists e. split; [|exact HRe].
        rewrite stail_chain by assumption. rewrite chain_S, Eo, Hc.
        rewrite (tails_from_level g (lvl_of m) j) in He; try lia.
        2:{ apply (nohigh_levels (precedence o + 1)); [exact Hnh2|lia|lia]. }
        rewrite stail_chain in He by assumption.
        destruct (chain g j (EBin b a c) (ets st2)) as [[a2 r3]|]; [|discriminate].
        now apply tails_mono.
      - (* assignment *)
        apply Nat.leb_gt in Ej10.
        destruct (Nat.eqb j 12) eqn:Ej12; try discriminate. apply Nat.eqb_eq in Ej12. subst j.
        destruct (op_assoc o assignment_operators) as [b'|] eqn:Eo; try discriminate.
        cbn [option_map] in Eb. injection Eb as -> <-.
        destruct (IHtree _ _ _ _ E1 ltac:(lia) g ltac:(lia)) as [v [Hv HRv]].
        replace (lvl_of (precedence o)) with 12%nat in Hv by (unfold lvl_of; lia).
        destruct (IHloop _ _ _ _ _ H Hm (EBin b a v) g
                   (RBin _ loc _ _ _ _ HR HRv) ltac:(lia)) as [e [He HRe]].
        exists e. split; [|exact HRe].
        rewrite stail_assign, Eo, Hv.
        replace (lvl_of m - 12)%nat with 0%nat by (unfold lvl_of in *; lia). cbn [tails].
        rewrite tails_noop in He; [exact He|lia|].
        apply (nohigh_levels (precedence o)); [exact Hnh2|lia|unfold lvl_of; lia]. }
    split; [exact Hleaf|]. split; [|exact Hloop].
    intros m st ns st' H Hm g Hg. cbn [parse_tree] in H.
    destruct (parse_leaf f st) as [ns0 st1| |] eqn:E; try discriminate.
    destruct (SHleaf _ _ _ E) as [_ Hlt].
    destruct g as [|g]; [lia|].
    destruct (IHleaf _ _ _ E (S g) Hg) as [e0 [He0 HR0]].
    destruct (IHloop _ _ _ _ _ H Hm e0 g HR0 ltac:(lia)) as [e [He HRe]].
    exists e. split; [|exact HRe]. rewrite sp_tails, He0. exact He.
Qed.
