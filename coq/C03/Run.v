(* C03 — what the correspondence check evaluates on every case. *)
From Yv Require Export Common.Base C03.Defs C03.Model C03.Spec C03.ModelShell C03.SpecShell.

(* A case is either
   - Rust's classification of the 128 ASCII code points (1 = is_whitespace,
     2 = is_alphanumeric, 0 = neither), compared with the fixed ASCII part of
     [is_ws] / [is_alnum]; or
   - an evaluation: the classification of the non-ASCII code points that occur
     in the expression, the expression text, the variables before, and what
     yash_arith::eval returned together with the variables afterwards
     (the model's [outcome] type is reused; RFuel is never sent). *)
(* what the child process did *)
Inductive deep_out :=
| DOut (o : outcome)        (* it returned: value or error *)
| DCrash (signal : N)       (* it was killed by a signal (0 = other abnormal exit) *)
| DTimeout.

(* what the shell did with `args "$(( ... ))"`: the field (and the variables read by
   the EXIT trap), or an expansion error (and the variables read by the EXIT trap) *)
Inductive sans :=
| SaText (field : str) (final : env)
| SaError (final : env)
| SaPanic
| SaOther.

Inductive case :=
| KAscii (tbl : list (N * N))
| KEval (ucls : list (N * N)) (expression : str) (vars : env) (out : outcome)
(* the same with Config { portable: true } *)
| KPortable (ucls : list (N * N)) (expression : str) (vars : env) (out : outcome)
(* the same through the whole shell: `args "$((expression))"` after assigning the
   variables, then the variables read back; only value / error is observable *)
| KShell (ucls : list (N * N)) (expression : str) (vars : env) (ans : answer)
(* deep nesting, evaluated in a child process with the inherited (bounded) stack:
   kind 0 = n nested parentheses around 1, kind 1 = n chained `!` before 1,
   kind 2 = n nested `?:` in the then-branch; no variables *)
| KDeep (kind n : N) (out : deep_out)
(* the arithmetic expansion of the shell with the nounset option on/off, read-only
   variables, `$name` / `${name}` and nested `$(( ))` inside the text *)
| KShellX (ucls : list (N * N)) (nounset_on : bool) (ro : list str) (text : list tunit)
          (vars : env) (ans : sans).

Fixpoint assoc_N (c : N) (tbl : list (N * N)) : option N :=
  match tbl with
  | [] => None
  | (k, v) :: r => if N.eqb c k then Some v else assoc_N c r
  end.

Definition cls_of (tbl : list (N * N)) (c : N) : N :=
  match assoc_N c tbl with Some k => k | None => 0%N end.

Definition ascii_class (c : N) : N :=
  if ascii_ws c then 1%N else if ascii_alnum c then 2%N else 0%N.

Definition tokerr_eqb (a b : tokerr) : bool :=
  match a, b with
  | InvalidNumericConstant, InvalidNumericConstant | InvalidCharacter, InvalidCharacter => true
  | _, _ => false
  end.

Definition synerr_eqb (a b : synerr) : bool :=
  match a, b with
  | SETok x, SETok y => tokerr_eqb x y
  | IncompleteExpression, IncompleteExpression
  | MissingOperator, MissingOperator
  | ColonWithoutQuestion, ColonWithoutQuestion
  | InvalidOperator, InvalidOperator => true
  | UnclosedParenthesis x, UnclosedParenthesis y => range_eqb x y
  | QuestionWithoutColon x, QuestionWithoutColon y => range_eqb x y
  | _, _ => false
  end.

Definition everr_eqb (a b : everr) : bool :=
  match a, b with
  | InvalidVariableValue x, InvalidVariableValue y => str_eqb x y
  | UnsetVariable x, UnsetVariable y | AssignReadOnly x, AssignReadOnly y => str_eqb x y
  | Overflow, Overflow | DivisionByZero, DivisionByZero
  | LeftShiftingNegative, LeftShiftingNegative | ReverseShifting, ReverseShifting
  | AssignmentToValue, AssignmentToValue => true
  | _, _ => false
  end.

Definition cause_eqb (a b : cause) : bool :=
  match a, b with
  | CSyntax x, CSyntax y => synerr_eqb x y
  | CEval x, CEval y => everr_eqb x y
  | CPortability, CPortability => true
  | _, _ => false
  end.

Definition outcome_eqb (a b : outcome) : bool :=
  match a, b with
  | RVal x e, RVal y e' => Z.eqb x y && env_equiv e e'
  | RErr c l e, RErr c' l' e' => cause_eqb c c' && range_eqb l l' && env_equiv e e'
  | RPanic, RPanic => true
  | _, _ => false
  end.

Definition answer_of (o : outcome) : answer :=
  match o with
  | RVal z e => AnsValue z e
  | RErr _ _ _ => AnsError
  | RPanic | RFuel => AnsPanic
  end.

Definition answer_eqb (a b : answer) : bool :=
  match a, b with
  | AnsValue x e, AnsValue y e' => Z.eqb x y && env_equiv e e'
  | AnsError, AnsError | AnsPanic, AnsPanic | AnsOther, AnsOther => true
  | _, _ => false
  end.

Definition classified (ucls : list (N * N)) (s : str) : bool :=
  forallb (fun c => (c <? 128)%N
                    || match assoc_N c ucls with Some _ => true | None => false end) s.

Definition deep_text (kind : N) (n : nat) : str :=
  match kind with
  | 0%N => repeat 40%N n ++ [49%N] ++ repeat 41%N n                   (* (((1))) *)
  | 1%N => repeat 33%N n ++ [49%N]                                    (* !!!1 *)
  | _ => concat (repeat [49; 63]%N n) ++ [49%N] ++ concat (repeat [58; 48]%N n)  (* 1?1?1:0:0 *)
  end.

(* the value of [deep_text kind n] *)
Definition deep_expected (kind n : N) : Z :=
  match kind with
  | 1%N => if N.even n then 1%Z else 0%Z
  | _ => 1%Z
  end.

(* up to this depth the text is built and handed to the oracle and the model;
   beyond it only the closed form of its value is used (the evaluation of the
   model inside Coq has a stack of its own) *)
Definition deep_model_limit : N := 1000.

Fixpoint unit_chars (u : tunit) : str :=
  match u with
  | ULit c => [c]
  | UParam _ => []
  | UArith us => flat_map unit_chars us
  end.

Definition shellx_verdict (m : mode) (cls : N -> N) (us : list tunit) (vars : env) (a : sans) : verdict :=
  let oracle :=
    match a, spec_shell_arith m cls us vars with
    | SaPanic, _ => 6%N
    | SaOther, _ => 7%N
    | SaText s e, YOk s' e' =>
        if negb (str_eqb s s') then 3%N else if negb (env_equiv e e') then 4%N else 0%N
    | SaText _ _, YErr _ => 2%N
    | SaError _, YOk _ _ => 5%N
    | SaError e, YErr e' => if env_equiv e e' then 0%N else 4%N
    end in
  match oracle with
  | 0%N =>
      match a, shell_arith m cls us vars with
      | SaText s e, XOk s' e' => if str_eqb s s' && env_equiv e e' then 0%N else 1%N
      | SaError e, XErr e' => if env_equiv e e' then 0%N else 1%N
      | _, _ => 1%N
      end
  | k => k
  end.

Definition run_case (c : case) : verdict :=
  match c with
  | KAscii tbl =>
      if forallb (fun c => option_eqb N.eqb (assoc_N c tbl) (Some (ascii_class c)))
                 (map N.of_nat (seq 0 128))
      then 0%N else 1%N
  | KEval ucls s vars out =>
      if negb (classified ucls s)
      then 99%N
      else
        let cls := cls_of ucls in
        (* oracle first, on the implementation's answer only *)
        match oracle cls s vars (answer_of out) with
        | 0%N => if outcome_eqb (run cls s vars) out then 0%N else 1%N
        | k => k
        end
  | KPortable ucls s vars out =>
      if negb (classified ucls s) then 99%N
      else
        let cls := cls_of ucls in
        match oracle_portable cls s vars (answer_of out) with
        | 0%N => if outcome_eqb (run_portable cls s vars) out then 0%N else 1%N
        | k => k
        end
  | KShell ucls s vars ans =>
      if negb (classified ucls s) then 99%N
      else
        let cls := cls_of ucls in
        match oracle cls s vars ans with
        | 0%N => if answer_eqb (answer_of (run cls s vars)) ans then 0%N else 1%N
        | k => k
        end
  | KShellX ucls nu ro us vars a =>
      if negb (classified ucls (flat_map unit_chars us)) then 99%N
      else shellx_verdict (Mode nu ro) (cls_of ucls) us vars a
  | KDeep kind n out =>
      if (2 <? kind)%N then 99%N
      else
        match out with
        | DCrash _ => 8%N
        | DTimeout => 9%N
        | DOut o =>
            if (n <=? deep_model_limit)%N then
              let s := deep_text kind (N.to_nat n) in
              let cls := cls_of [] in
              match oracle cls s [] (answer_of o) with
              | 0%N => if outcome_eqb (run cls s []) o then 0%N else 1%N
              | k => k
              end
            else
              match o with
              | RVal v e => if (v =? deep_expected kind n)%Z && env_equiv e [] then 0%N else 3%N
              | RErr _ _ _ => 5%N
              | RPanic | RFuel => 6%N
              end
        end
  end.

Definition run_cases := run_cases_with run_case.
