(* C03 — proofs, part 3: the evaluator on the reverse-Polish vector (eval.rs eval,
   apply_prefix / apply_postfix / apply_binary) computes the denotation of the
   expression tree the vector represents. *)
From Yv Require Import Common.Base C03.Defs C03.Model C03.Spec C03.ProofsArith C03.ProofsNum.
From Coq Require Import ZArith NArith Lia ZifyBool.
Local Open Scope Z_scope.

(* the reverse-Polish vector of an expression tree (locations are arbitrary) *)
Inductive Repr : expr -> list ast -> Prop :=
| RNum z : Repr (ENum z) [ATerm (TValue z)]
| RVar x loc : Repr (EVar x) [ATerm (TVariable x loc)]
| RPre o loc e ns : Repr e ns -> Repr (EPre o e) (ns ++ [APrefix o loc])
| RPost o loc e ns : Repr e ns -> Repr (EPost o e) (ns ++ [APostfix o loc])
| RBin o loc l r nl nr :
    Repr l nl -> Repr r nr -> Repr (EBin o l r) (nl ++ nr ++ [ABinary o (length nr) loc])
| RCond c t f nc nt nf :
    Repr c nc -> Repr t nt -> Repr f nf ->
    Repr (ECond c t f) (nc ++ nt ++ nf ++ [ACond (length nt) (length nf)]).

Definition tmatch (t : sterm) (m : term) : Prop :=
  match t, m with
  | SNumT z, TValue z' => z = z'
  | SVarT x, TVariable x' _ => x = x'
  | _, _ => False
  end.

Definition term_ok (m : term) : Prop :=
  match m with TValue z => I64 z | TVariable _ _ => True end.

Fixpoint expr_ok (e : expr) : Prop :=
  match e with
  | ENum z => I64 z
  | EVar _ => True
  | EPre _ a | EPost _ a => expr_ok a
  | EBin _ a b => expr_ok a /\ expr_ok b
  | ECond c a b => expr_ok c /\ expr_ok a /\ expr_ok b
  end.

Lemma representable_I64 x y : representable x = Some y -> x = y /\ I64 y.
Proof.
  unfold representable. destruct (in_i64 x) eqn:E; [|discriminate].
  intros [= <-]. split; [reflexivity|now apply in_i64_iff].
Qed.

Lemma variable_value_I64 v z : variable_value v = Some z -> I64 z.
Proof.
  unfold variable_value. destruct (match v with [] => None | _ => _ end); [|discriminate].
  intros H. now apply representable_I64 in H.
Qed.

Lemma into_value_rvalue t m e :
  tmatch t m -> term_ok m ->
  match rvalue t e with
  | Some z => into_value m e = EOk z e /\ I64 z
  | None => exists c l, into_value m e = EErr c l e
  end.
Proof.
  destruct t as [z|x], m as [z'|x' loc]; cbn [tmatch term_ok]; try contradiction.
  - intros <- H. cbn. auto.
  - intros <- _. cbn [rvalue into_value]. unfold expand_variable.
    destruct (lookup x e) as [v|].
    + rewrite parse_integer_spec. destruct (variable_value v) eqn:E.
      * split; [reflexivity|]. eapply variable_value_I64; eassumption.
      * eauto.
    + split; [reflexivity|]. unfold I64. lia.
Qed.

Lemma require_variable_lvalue t m loc e :
  tmatch t m ->
  match lvalue t with
  | Some x => exists l, require_variable m loc e = EOk (x, l) e /\ m = TVariable x l
  | None => require_variable m loc e = EErr AssignmentToValue loc e
  end.
Proof.
  destruct t, m; cbn [tmatch]; try contradiction; intros <-; cbn; eauto.
Qed.

Lemma expand_variable_rvalue x l e :
  match rvalue (SVarT x) e with
  | Some z => expand_variable x l e = EOk z e /\ I64 z
  | None => exists c l', expand_variable x l e = EErr c l' e
  end.
Proof.
  exact (into_value_rvalue (SVarT x) (TVariable x l) e eq_refl I).
Qed.

Definition agrees_v (d : option (sterm * env)) (r : eres Z) : Prop :=
  match d with
  | Some (t, e') => exists z, t = SNumT z /\ r = EOk z e' /\ I64 z
  | None => exists c l e', r = EErr c l e'
  end.

Lemma I64_b2z b : I64 (b2z b).
Proof. destruct b; unfold I64; cbn; lia. Qed.

Lemma lvalue_some t x : lvalue t = Some x -> t = SVarT x.
Proof. destruct t; cbn; congruence. Qed.

Lemma incdec_spec x l loc e d :
  agrees_v (let* n := rvalue (SVarT x) e in let* r := representable (n + d) in
            Some (SNumT r, store x r e))
           (do value, e <- expand_variable x l e;
            do nv, e <- unwrap_or_overflow (checked (value + d)) loc e;
            assign x nv e).
Proof.
  pose proof (expand_variable_rvalue x l e) as H.
  destruct (rvalue (SVarT x) e) as [n|]; cbn [obind].
  - destruct H as [-> Hn]. cbn [ebind]. change checked with representable.
    destruct (representable (n + d)) as [r|] eqn:E; cbn [obind unwrap_or_overflow ebind].
    + apply representable_I64 in E. destruct E as [_ E]. exists r. unfold assign, store. auto.
    + cbn. eauto.
  - destruct H as [c [l' ->]]. cbn. eauto.
Qed.

Lemma apply_prefix_spec o t m loc e :
  tmatch t m -> term_ok m -> agrees_v (den_prefix o t e) (apply_prefix m o loc e).
Proof.
  intros Ht Hm.
  pose proof (require_variable_lvalue t m loc e Ht) as Hl.
  pose proof (into_value_rvalue t m e Ht Hm) as Hr.
  destruct o; cbn [den_prefix apply_prefix].
  - destruct (lvalue t) as [x|] eqn:El; cbn [obind].
    + destruct Hl as [l [-> ->]]. cbn [ebind fst snd]. apply lvalue_some in El. subst t.
      exact (incdec_spec x l loc e 1).
    + rewrite Hl. cbn. eauto.
  - destruct (lvalue t) as [x|] eqn:El; cbn [obind].
    + destruct Hl as [l [-> ->]]. cbn [ebind fst snd]. apply lvalue_some in El. subst t.
      exact (incdec_spec x l loc e (-1)).
    + rewrite Hl. cbn. eauto.
  - destruct (rvalue t e) as [n|]; cbn [obind].
    + destruct Hr as [-> Hn]. cbn. eauto.
    + destruct Hr as [c [l ->]]. cbn. eauto.
  - destruct (rvalue t e) as [n|]; cbn [obind].
    + destruct Hr as [-> Hn]. cbn [ebind]. change checked with representable.
      destruct (representable (- n)) as [r|] eqn:E; cbn [obind unwrap_or_overflow].
      * apply representable_I64 in E. destruct E as [_ E]. cbn. eauto.
      * cbn. eauto.
    + destruct Hr as [c [l ->]]. cbn. eauto.
  - destruct (rvalue t e) as [n|]; cbn [obind].
    + destruct Hr as [-> Hn]. cbn [ebind]. eexists. split; [reflexivity|]. split; [reflexivity|apply I64_b2z].
    + destruct Hr as [c [l ->]]. cbn. eauto.
  - destruct (rvalue t e) as [n|]; cbn [obind].
    + destruct Hr as [-> Hn]. cbn [ebind]. rewrite bits_lnot by assumption.
      eexists. split; [reflexivity|]. split; [reflexivity|now apply I64_lnot].
    + destruct Hr as [c [l ->]]. cbn. eauto.
Qed.

Lemma apply_postfix_spec o t m loc e :
  tmatch t m -> term_ok m -> agrees_v (den_postfix o t e) (apply_postfix m o loc e).
Proof.
  intros Ht Hm.
  pose proof (require_variable_lvalue t m loc e Ht) as Hl.
  unfold den_postfix, apply_postfix.
  destruct (lvalue t) as [x|] eqn:El; cbn [obind].
  - destruct Hl as [l [-> ->]]. cbn [ebind fst snd]. apply lvalue_some in El. subst t.
    pose proof (expand_variable_rvalue x l e) as H.
    destruct (rvalue (SVarT x) e) as [n|]; cbn [obind].
    + destruct H as [-> Hn]. cbn [ebind]. 
      replace (match o with PostInc => checked (n + 1) | PostDec => checked (n - 1) end)
        with (representable (match o with PostInc => n + 1 | PostDec => n - 1 end))
        by (destruct o; reflexivity).
      destruct (representable _) as [r|] eqn:E; cbn [obind unwrap_or_overflow ebind assign].
      * exists n. unfold store. auto.
      * cbn. eauto.
    + destruct H as [c [l' ->]]. cbn. eauto.
  - rewrite Hl. cbn. eauto.
Qed.

Lemma binary_result_arith a l r loc e :
  I64 l -> I64 r ->
  agrees_v (let* z := arith a l r in Some (SNumT z, e)) (binary_result l r (BArith a) loc e)
  /\ binary_result l r (BCompound a) loc e = binary_result l r (BArith a) loc e.
Proof.
  intros Hl Hr. split; [|reflexivity]. unfold binary_result.
  pose proof (arith_result_exact a l r Hl Hr) as H.
  destruct (arith_result a l r) as [z|c].
  - rewrite H. cbn. exists z. split; [reflexivity|]. split; [reflexivity|].
    exact (arith_I64 a l r z Hl Hr H).
  - rewrite H. cbn. eauto.
Qed.

Lemma apply_binary_spec o ta ma tb mb loc e :
  tmatch ta ma -> term_ok ma -> tmatch tb mb -> term_ok mb ->
  o <> BLogOr -> o <> BLogAnd ->
  agrees_v (den_binary o ta tb e) (apply_binary ma mb o loc e).
Proof.
  intros Hta Hma Htb Hmb Ho1 Ho2.
  pose proof (require_variable_lvalue ta ma loc e Hta) as Hl.
  pose proof (into_value_rvalue ta ma e Hta Hma) as Hra.
  pose proof (into_value_rvalue tb mb e Htb Hmb) as Hrb.
  destruct o as [| |a| |a]; try congruence; cbn [den_binary apply_binary].
  - (* a op b *)
    destruct (rvalue ta e) as [na|]; cbn [obind].
    + destruct Hra as [-> Hna]. cbn [ebind].
      destruct (rvalue tb e) as [nb|]; cbn [obind].
      * destruct Hrb as [-> Hnb]. cbn [ebind]. apply binary_result_arith; assumption.
      * destruct Hrb as [c [l ->]]. cbn. eauto.
    + destruct Hra as [c [l ->]]. cbn. eauto.
  - (* a = b *)
    destruct (lvalue ta) as [x|] eqn:El; cbn [obind].
    + destruct Hl as [l [-> ->]]. cbn [ebind fst snd].
      destruct (rvalue tb e) as [nb|]; cbn [obind].
      * destruct Hrb as [-> Hnb]. cbn. unfold store. eauto.
      * destruct Hrb as [c [l' ->]]. cbn. eauto.
    + rewrite Hl. cbn. eauto.
  - (* a op= b *)
    destruct (lvalue ta) as [x|] eqn:El; cbn [obind].
    + destruct Hl as [l [-> ->]]. cbn [ebind fst snd]. apply lvalue_some in El. subst ta.
      pose proof (expand_variable_rvalue x l e) as Hx.
      destruct (rvalue (SVarT x) e) as [na|]; cbn [obind].
      * destruct Hx as [-> Hna]. cbn [ebind].
        destruct (rvalue tb e) as [nb|]; cbn [obind].
        -- destruct Hrb as [-> Hnb]. cbn [ebind].
           destruct (binary_result_arith a na nb loc e Hna Hnb) as [H ->].
           destruct (arith a na nb) as [r|]; cbn [obind] in *.
           ++ destruct H as [z [[= <-] [-> Hz]]]. cbn. unfold store. eauto.
           ++ destruct H as [c [l' [e' ->]]]. cbn. eauto.
        -- destruct Hrb as [c [l' ->]]. cbn. eauto.
      * destruct Hx as [c [l' ->]]. cbn. eauto.
    + rewrite Hl. cbn. eauto.
Qed.

Lemma split_last_app {A} (l : list A) (x : A) : split_last (l ++ [x]) = Some (x, l).
Proof.
  induction l as [|y l IH]; [reflexivity|].
  cbn [app split_last]. rewrite IH. destruct (l ++ [x]) eqn:E; [destruct l; discriminate|reflexivity].
Qed.

Lemma split_off_app {A} (l1 l2 : list A) : split_off (l1 ++ l2) (length l2) = Some (l1, l2).
Proof.
  unfold split_off. rewrite app_length.
  replace (Nat.ltb (length l1 + length l2) (length l2)) with false
    by (symmetry; apply Nat.ltb_ge; lia).
  replace (length l1 + length l2 - length l2)%nat with (length l1) by lia.
  f_equal. f_equal.
  - induction l1; cbn; [now destruct l2|now f_equal].
  - induction l1; cbn; auto.
Qed.

Definition agrees (d : option (sterm * env)) (r : eres term) : Prop :=
  match d with
  | Some (t, e') => exists m, r = EOk m e' /\ tmatch t m /\ term_ok m
  | None => exists c l e', r = EErr c l e'
  end.

Lemma agrees_value d r :
  agrees_v d r -> agrees d (do v, e <- r; evalue v e).
Proof.
  destruct d as [[t e']|]; cbn.
  - intros [z [-> [-> Hz]]]. cbn. exists (TValue z). auto.
  - intros [c [l [e' ->]]]. cbn. eauto.
Qed.

(* the evaluator on the reverse-Polish vector = the denotation of the tree *)
Lemma eval_repr e ns :
  Repr e ns -> expr_ok e ->
  forall f env, (length ns <= f)%nat -> agrees (den e env) (eval f ns env).
Proof.
  induction 1 as [z|x loc|o loc e ns HR IH|o loc e ns HR IH
                  |o loc l r nl nr HRl IHl HRr IHr|c t fe nc nt nf HRc IHc HRt IHt HRf IHf];
    intros Hok f env Hf.
  - destruct f; [cbn in Hf; lia|]. cbn. exists (TValue z). auto.
  - destruct f; [cbn in Hf; lia|]. cbn. exists (TVariable x loc). cbn. auto.
  - rewrite app_length in Hf. cbn [length] in Hf. destruct f as [|f]; [lia|].
    cbn [eval]. rewrite split_last_app. cbn [den].
    specialize (IH Hok f env ltac:(lia)).
    destruct (den e env) as [[t e']|]; cbn [obind].
    + destruct IH as [m [-> [Ht Hm]]]. cbn [ebind].
      apply agrees_value, apply_prefix_spec; assumption.
    + destruct IH as [c [l [e' ->]]]. cbn. eauto.
  - rewrite app_length in Hf. cbn [length] in Hf. destruct f as [|f]; [lia|].
    cbn [eval]. rewrite split_last_app. cbn [den].
    specialize (IH Hok f env ltac:(lia)).
    destruct (den e env) as [[t e']|]; cbn [obind].
    + destruct IH as [m [-> [Ht Hm]]]. cbn [ebind].
      apply agrees_value, apply_postfix_spec; assumption.
    + destruct IH as [c [l' [e' ->]]]. cbn. eauto.
  - destruct Hok as [Hokl Hokr].
    rewrite app_assoc, app_length in Hf. cbn [length] in Hf. rewrite app_length in Hf.
    destruct f as [|f]; [lia|].
    rewrite app_assoc. cbn [eval]. rewrite split_last_app.
    specialize (IHl Hokl f env ltac:(lia)).
    assert (IHr' := fun env => IHr Hokr f env ltac:(lia)). clear IHr.
    assert (Hgen : o <> BLogOr -> o <> BLogAnd ->
      agrees (let* (ta, e) := den l env in let* (tb, e) := den r e in den_binary o ta tb e)
        (match split_off (nl ++ nr) (length nr) with
         | Some (lhs_ast, rhs_ast) =>
             do lhs, e <- eval f lhs_ast env;
             do rhs, e <- eval f rhs_ast e;
             do v, e <- apply_binary lhs rhs o loc e; evalue v e
         | None => EPanic
         end)).
    { intros Ho1 Ho2. rewrite split_off_app.
      destruct (den l env) as [[ta e1]|]; cbn [obind].
      - destruct IHl as [ma [-> [Hta Hma]]]. cbn [ebind].
        specialize (IHr' e1).
        destruct (den r e1) as [[tb e2]|]; cbn [obind].
        + destruct IHr' as [mb [-> [Htb Hmb]]]. cbn [ebind].
          apply agrees_value, apply_binary_spec; assumption.
        + destruct IHr' as [c [l' [e' ->]]]. cbn. eauto.
      - destruct IHl as [c [l' [e' ->]]]. cbn. eauto. }
    destruct o as [| |a| |a]; try (apply Hgen; discriminate).
    + (* || *)
      cbn [den]. rewrite split_off_app.
      destruct (den l env) as [[ta e1]|]; cbn [obind].
      * destruct IHl as [ma [-> [Hta Hma]]]. cbn [ebind].
        pose proof (into_value_rvalue ta ma e1 Hta Hma) as Hra.
        destruct (rvalue ta e1) as [na|]; cbn [obind].
        -- destruct Hra as [-> Hna]. cbn [ebind].
           destruct (negb (na =? 0)) eqn:Ena.
           ++ cbn. exists (TValue 1). repeat split; unfold I64; lia.
           ++ specialize (IHr' e1).
              destruct (den r e1) as [[tb e2]|]; cbn [obind].
              ** destruct IHr' as [mb [-> [Htb Hmb]]]. cbn [ebind].
                 pose proof (into_value_rvalue tb mb e2 Htb Hmb) as Hrb.
                 destruct (rvalue tb e2) as [nb|]; cbn [obind].
                 --- destruct Hrb as [-> Hnb]. cbn [ebind binary_result]. rewrite Ena. cbn [orb].
                     cbn. eexists. split; [reflexivity|]. split; [reflexivity|apply I64_b2z].
                 --- destruct Hrb as [c [l' ->]]. cbn. eauto.
              ** destruct IHr' as [c [l' [e' ->]]]. cbn. eauto.
        -- destruct Hra as [c [l' ->]]. cbn. eauto.
      * destruct IHl as [c [l' [e' ->]]]. cbn. eauto.
    + (* && *)
      cbn [den]. rewrite split_off_app.
      destruct (den l env) as [[ta e1]|]; cbn [obind].
      * destruct IHl as [ma [-> [Hta Hma]]]. cbn [ebind].
        pose proof (into_value_rvalue ta ma e1 Hta Hma) as Hra.
        destruct (rvalue ta e1) as [na|]; cbn [obind].
        -- destruct Hra as [-> Hna]. cbn [ebind].
           destruct (na =? 0) eqn:Ena.
           ++ cbn. exists (TValue 0). repeat split; unfold I64; lia.
           ++ specialize (IHr' e1).
              destruct (den r e1) as [[tb e2]|]; cbn [obind].
              ** destruct IHr' as [mb [-> [Htb Hmb]]]. cbn [ebind].
                 pose proof (into_value_rvalue tb mb e2 Htb Hmb) as Hrb.
                 destruct (rvalue tb e2) as [nb|]; cbn [obind].
                 --- destruct Hrb as [-> Hnb]. cbn [ebind binary_result]. rewrite Ena. cbn [negb andb].
                     cbn. eexists. split; [reflexivity|]. split; [reflexivity|apply I64_b2z].
                 --- destruct Hrb as [c [l' ->]]. cbn. eauto.
              ** destruct IHr' as [c [l' [e' ->]]]. cbn. eauto.
        -- destruct Hra as [c [l' ->]]. cbn. eauto.
      * destruct IHl as [c [l' [e' ->]]]. cbn. eauto.
  - destruct Hok as [Hokc [Hokt Hokf]].
    replace (nc ++ nt ++ nf ++ [ACond (length nt) (length nf)])
      with (((nc ++ nt) ++ nf) ++ [ACond (length nt) (length nf)]) in *
      by (now rewrite <- !app_assoc).
    rewrite !app_length in Hf. cbn [length] in Hf.
    destruct f as [|f]; [lia|].
    cbn [eval]. rewrite split_last_app, split_off_app, split_off_app. cbn [den].
    specialize (IHc Hokc f env ltac:(lia)).
    destruct (den c env) as [[tc e1]|]; cbn [obind].
    + destruct IHc as [mc [-> [Htc Hmc]]]. cbn [ebind].
      pose proof (into_value_rvalue tc mc e1 Htc Hmc) as Hrc.
      destruct (rvalue tc e1) as [nc'|]; cbn [obind].
      * destruct Hrc as [-> Hnc]. cbn [ebind].
        destruct (negb (nc' =? 0)).
        -- apply IHt; [assumption|lia].
        -- apply IHf; [assumption|lia].
      * destruct Hrc as [c' [l' ->]]. cbn. eauto.
    + destruct IHc as [c' [l' [e' ->]]]. cbn. eauto.
Qed.

(* the whole evaluation of eval_with_config after parsing *)
Lemma eval_top e ns env :
  Repr e ns -> expr_ok e ->
  match spec_eval e env with
  | SVal z env' => (do t, e <- eval (length ns) ns env; into_value t e) = EOk z env'
  | SErr => exists c l e', (do t, e <- eval (length ns) ns env; into_value t e) = EErr c l e'
  end.
Proof.
  intros HR Hok. pose proof (eval_repr e ns HR Hok (length ns) env (le_n _)) as H.
  unfold spec_eval. destruct (den e env) as [[t e']|].
  - destruct H as [m [-> [Ht Hm]]]. cbn [ebind].
    pose proof (into_value_rvalue t m e' Ht Hm) as Hr.
    destruct (rvalue t e') as [z|].
    + now destruct Hr as [-> _].
    + destruct Hr as [c [l ->]]. eauto.
  - destruct H as [c [l [e' ->]]]. cbn. eauto.
Qed.
