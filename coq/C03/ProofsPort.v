(* C03 — proofs, part 11: Config::portable / ast/portability.rs. *)
From Yv Require Import Common.Base C03.Defs C03.Model C03.Spec C03.ProofsArith C03.ProofsNum
  C03.ProofsLex C03.ProofsEval C03.ProofsParse C03.ProofsParse2 C03.Proofs.
From Coq Require Import ZArith NArith Lia ZifyBool.

(* ---- ast/portability.rs ------------------------------------------------------------------ *)

Definition tok_incdec (t : tokval * range) : option range :=
  match fst t with
  | TkOp OPlusPlus | TkOp OMinusMinus => Some (snd t)
  | _ => None
  end.

Definition nlocs (ns : list ast) : list range := filter_map incdec_location ns.
Definition tlocs (ts : list (tokval * range)) : list range := filter_map tok_incdec ts.

Lemma filter_map_app {A B} (f : A -> option B) l1 l2 :
  filter_map f (l1 ++ l2) = filter_map f l1 ++ filter_map f l2.
Proof.
  induction l1 as [|a l1 IH]; [reflexivity|]. cbn [app filter_map].
  destruct (f a); [cbn [app]; now rewrite IH|exact IH].
Qed.

Lemma nlocs_app a b : nlocs (a ++ b) = nlocs a ++ nlocs b.
Proof. apply filter_map_app. Qed.
Lemma tlocs_app a b : tlocs (a ++ b) = tlocs a ++ tlocs b.
Proof. apply filter_map_app. Qed.

(* the tokens a successful parsing function consumed, and their ++ / -- *)
Definition consumed_ok (st st' : stream) (ns_locs : list range -> Prop) : Prop :=
  exists used, fst st = used ++ fst st' /\ ns_locs (tlocs used).

Definition same (a b : list range) : Prop := forall l, In l a <-> In l b.

Lemma parse_postfix_l_locs ts :
  let '(ns, r) := parse_postfix_l ts in
  exists used, ts = used ++ r /\ nlocs ns = tlocs used.
Proof.
  induction ts as [|[[t|o] loc] ts IH]; cbn [parse_postfix_l].
  - exists []. auto.
  - exists []. auto.
  - destruct (as_postfix o) as [p|] eqn:Ep; [|exists []; auto].
    destruct (parse_postfix_l ts) as [ns r]. destruct IH as [used [-> H]].
    exists ((TkOp o, loc) :: used). split; [reflexivity|].
    unfold nlocs, tlocs in *.
    destruct o; try discriminate; injection Ep as <-;
      cbn [filter_map incdec_location tok_incdec fst snd app]; now rewrite H.
Qed.

Lemma parse_postfix_locs st :
  let '(ns, st') := parse_postfix st in
  exists used, fst st = used ++ fst st' /\ nlocs ns = tlocs used.
Proof.
  unfold parse_postfix. pose proof (parse_postfix_l_locs (fst st)) as H.
  destruct (parse_postfix_l (fst st)) as [ns r]. exact H.
Qed.

Lemma next_used st k loc st1 :
  next st = (k, loc, st1) ->
  (exists t, fst st = t :: fst st1 /\ snd t = loc /\
             match k with KTerm x => fst t = TkTerm x | KOp o => fst t = TkOp o | _ => False end)
  \/ ((k = KEnd \/ exists e, k = KErr e) /\ st1 = st).
Proof.
  destruct st as [[|[[t|o] l] ts] fi]; cbn [next].
  - destruct fi; intros [= <- <- <-]; right; eauto.
  - intros [= <- <- <-]. left. eexists. cbn. eauto.
  - intros [= <- <- <-]. left. eexists. cbn. eauto.
Qed.

Lemma parse_locs f :
  (forall st ns st', parse_leaf f st = POk ns st' ->
     exists used, fst st = used ++ fst st' /\ same (nlocs ns) (tlocs used)) /\
  (forall m st ns st', parse_tree f m st = POk ns st' ->
     exists used, fst st = used ++ fst st' /\ same (nlocs ns) (tlocs used)) /\
  (forall m acc st ns st', parse_loop f m acc st = POk ns st' ->
     exists used, fst st = used ++ fst st' /\ same (nlocs ns) (nlocs acc ++ tlocs used)).
Proof.
  induction f as [|f [IHleaf [IHtree IHloop]]].
  - repeat split; discriminate.
  - assert (Hleaf : forall st ns st', parse_leaf (S f) st = POk ns st' ->
              exists used, fst st = used ++ fst st' /\ same (nlocs ns) (tlocs used)).
    { intros st ns st' H. cbn [parse_leaf] in H.
      destruct (next st) as [[k loc] st1] eqn:En.
      destruct (next_used _ _ _ _ En) as [[t [Est [Hloc Hk]]]|[Hk ->]].
      2:{ destruct Hk as [->|[e ->]]; discriminate. }
      destruct t as [tv tl]. cbn [fst snd] in Hloc, Hk. subst tl.
      destruct k as [x|o| |e]; try contradiction; subst tv.
      - pose proof (parse_postfix_locs st1) as HP.
        destruct (parse_postfix st1) as [ps st2]. injection H as <- <-.
        destruct HP as [used [E2 HL]]. exists ((TkTerm x, loc) :: used).
        split; [rewrite Est, E2; reflexivity|].
        intros l. unfold nlocs, tlocs in *.
        cbn [filter_map incdec_location tok_incdec fst snd]. now rewrite HL.
      - assert (Hpre : forall p, as_prefix o = Some p ->
            match parse_leaf f st1 with
            | POk ns0 st2 => POk (ns0 ++ [APrefix p loc]) st2 | r => r end = POk ns st' ->
            exists used, fst st = used ++ fst st' /\ same (nlocs ns) (tlocs used)).
        { intros p Hp H'. destruct (parse_leaf f st1) as [ns0 st2| |] eqn:E; try discriminate.
          injection H' as <- <-. destruct (IHleaf _ _ _ E) as [used [E2 HL]].
          exists ((TkOp o, loc) :: used). split; [rewrite Est, E2; reflexivity|].
          intros l. rewrite nlocs_app, in_app_iff, (HL l). unfold nlocs, tlocs.
          destruct o; cbn in Hp; try discriminate; injection Hp as <-;
            cbn [filter_map incdec_location tok_incdec fst snd In]; tauto. }
        destruct o; cbn [as_prefix] in H; try discriminate; try (apply (Hpre _ eq_refl); exact H).
        destruct (parse_tree f 1 st1) as [ns0 st2| |] eqn:E; try discriminate.
        destruct (IHtree _ _ _ _ E) as [u1 [E1 H1]].
        unfold parse_close_paren in H. destruct (next st2) as [[k2 l2] st3] eqn:En2.
        destruct (next_used _ _ _ _ En2) as [[[tv2 tl2] [Est2 [_ Hk2]]]|[Hk2 ->]].
        2:{ destruct Hk2 as [->|[e ->]]; discriminate. }
        cbn [fst] in Hk2.
        destruct k2 as [x|o2| |e]; try discriminate. destruct o2; try discriminate. subst tv2.
        pose proof (parse_postfix_locs st3) as HP.
        destruct (parse_postfix st3) as [ps st4]. injection H as <- <-.
        destruct HP as [u3 [E3 H3]].
        exists ((TkOp OOpenParen, loc) :: u1 ++ (TkOp OCloseParen, tl2) :: u3). split.
        { rewrite Est, E1, Est2, E3. cbn [app]. now rewrite <- app_assoc. }
        intros l. rewrite nlocs_app.
        change ((TkOp OOpenParen, loc) :: u1 ++ (TkOp OCloseParen, tl2) :: u3)
          with ([(TkOp OOpenParen, loc)] ++ u1 ++ [(TkOp OCloseParen, tl2)] ++ u3).
        rewrite !tlocs_app, !in_app_iff, (H1 l), H3.
        change (tlocs [(TkOp OOpenParen, loc)]) with (@nil range).
        change (tlocs [(TkOp OCloseParen, tl2)]) with (@nil range). cbn [In]. tauto. }
    assert (Hloop : forall m acc st ns st', parse_loop (S f) m acc st = POk ns st' ->
              exists used, fst st = used ++ fst st' /\ same (nlocs ns) (nlocs acc ++ tlocs used)).
    { intros m acc st ns st' H. rewrite parse_loop_S in H.
      destruct (peek_op st) as [[[o loc] st1]|] eqn:Ep.
      2:{ injection H as <- <-. exists []. split; [reflexivity|]. intros l. cbn. now rewrite app_nil_r. }
      pose proof (peek_op_some _ _ _ _ Ep) as Est. cbv zeta in H.
      destruct (precedence o <? m)%N.
      { injection H as <- <-. exists []. split; [reflexivity|]. intros l. cbn. now rewrite app_nil_r. }
      assert (Est' : fst st = (TkOp o, loc) :: fst st1) by (rewrite Est; reflexivity).
      destruct (oper_eqb o OQuestion) eqn:Eq.
      - assert (o = OQuestion) by (unfold oper_eqb in Eq; now destruct (oper_eq_dec o OQuestion)).
        subst o.
        destruct (parse_tree f 1 st1) as [nt st2| |] eqn:E1; try discriminate.
        destruct (IHtree _ _ _ _ E1) as [u1 [Eu1 H1]].
        destruct (next st2) as [[k cl] st3] eqn:En.
        destruct (next_used _ _ _ _ En) as [[[tv2 tl2] [Est2 [_ Hk2]]]|[Hk2 ->]].
        2:{ destruct Hk2 as [->|[e ->]]; discriminate. }
        cbn [fst] in Hk2.
        destruct k as [x|o'| |e]; try discriminate. destruct o'; try discriminate. subst tv2.
        destruct (parse_tree f (precedence OQuestion) st3) as [ne st4| |] eqn:E4; try discriminate.
        destruct (IHtree _ _ _ _ E4) as [u4 [Eu4 H4]].
        destruct (IHloop _ _ _ _ _ H) as [u5 [Eu5 H5]].
        exists ((TkOp OQuestion, loc) :: u1 ++ (TkOp OColon, tl2) :: u4 ++ u5). split.
        { rewrite Est', Eu1, Est2, Eu4, Eu5. cbn [app]. rewrite <- !app_assoc. cbn [app].
          rewrite <- !app_assoc. reflexivity. }
        intros l. rewrite (H5 l).
        change ((TkOp OQuestion, loc) :: u1 ++ (TkOp OColon, tl2) :: u4 ++ u5)
          with ([(TkOp OQuestion, loc)] ++ u1 ++ [(TkOp OColon, tl2)] ++ u4 ++ u5).
        rewrite !nlocs_app, !tlocs_app, !in_app_iff, (H1 l), (H4 l).
        change (tlocs [(TkOp OQuestion, loc)]) with (@nil range).
        change (tlocs [(TkOp OColon, tl2)]) with (@nil range).
        change (nlocs [ACond (length nt) (length ne)]) with (@nil range). cbn [In]. tauto.
      - destruct (as_binary o) as [[b a]|] eqn:Eb; try discriminate.
        destruct (parse_tree f _ st1) as [nr st2| |] eqn:E1; try discriminate.
        destruct (IHtree _ _ _ _ E1) as [u1 [Eu1 H1]].
        destruct (IHloop _ _ _ _ _ H) as [u5 [Eu5 H5]].
        exists ((TkOp o, loc) :: u1 ++ u5). split.
        { rewrite Est', Eu1, Eu5. cbn. now rewrite <- app_assoc. }
        intros l. rewrite (H5 l).
        change ((TkOp o, loc) :: u1 ++ u5) with ([(TkOp o, loc)] ++ u1 ++ u5).
        rewrite !nlocs_app, !tlocs_app, !in_app_iff, (H1 l).
        assert (Ho : tlocs [(TkOp o, loc)] = []).
        { destruct o; try reflexivity; discriminate Eb. }
        rewrite Ho. change (nlocs [ABinary b (length nr) loc]) with (@nil range). cbn [In]. tauto. }
    split; [exact Hleaf|]. split; [|exact Hloop].
    intros m st ns st' H. cbn [parse_tree] in H.
    destruct (parse_leaf f st) as [ns0 st1| |] eqn:E; try discriminate.
    destruct (IHleaf _ _ _ E) as [u1 [Eu1 H1]].
    destruct (IHloop _ _ _ _ _ H) as [u2 [Eu2 H2]].
    exists (u1 ++ u2). split; [rewrite Eu1, Eu2; now rewrite app_assoc|].
    intros l. rewrite (H2 l), tlocs_app, !in_app_iff, (H1 l). tauto.
Qed.

Lemma min_by_start_spec l :
  match min_by_start l with
  | None => l = []
  | Some x => In x l /\ forall y, In y l -> (fst x <= fst y)%N
  end.
Proof.
  induction l as [|a l IH]; [reflexivity|]. cbn [min_by_start].
  destruct (min_by_start l) as [y|].
  - destruct IH as [Hy Hmin]. destruct (N.ltb_spec (fst y) (fst a)).
    + split; [now right|]. intros z [<-|Hz]; [lia|now apply Hmin].
    + split; [now left|]. intros z [<-|Hz]; [lia|]. specialize (Hmin z Hz). lia.
  - subst l. split; [now left|]. intros z [<-|[]]. lia.
Qed.

Lemma parse_end_empty st1 : parse_end_of_input st1 = None -> fst st1 = [].
Proof.
  unfold parse_end_of_input. destruct st1 as [[|[[t|o] l] ts] fi]; cbn [next]; [reflexivity| |].
  - discriminate.
  - destruct o; discriminate.
Qed.

(* portability::check on what ast::parse returned: it reports a `++` / `--` token of
   the text with the least start offset (the first in source order), whether or not
   the operand would be evaluated, and succeeds iff the text has no such token *)
Theorem portability_check_lemma st ns st' :
  parse st = POk ns st' ->
  match portability_check ns with
  | None => tlocs (fst st) = []
  | Some loc => In loc (tlocs (fst st)) /\ forall l, In l (tlocs (fst st)) -> (fst loc <= fst l)%N
  end.
Proof.
  unfold parse. destruct (parse_tree (parse_fuel st) 1 st) as [ns0 st1| |] eqn:E; try discriminate.
  destruct (parse_end_of_input st1) as [[e l]|] eqn:Ee; [discriminate|]. intros [= <- <-].
  apply parse_end_empty in Ee.
  destruct (proj1 (proj2 (parse_locs _)) _ _ _ _ E) as [used [Hu Hs]].
  rewrite Ee, app_nil_r in Hu. subst used.
  unfold portability_check. fold (nlocs ns0).
  pose proof (min_by_start_spec (nlocs ns0)) as Hm.
  destruct (min_by_start (nlocs ns0)) as [x|].
  - destruct Hm as [Hin Hmin]. split; [now apply Hs|]. intros l Hl. apply Hmin. now apply Hs.
  - destruct (tlocs (fst st)) as [|y r]; [reflexivity|].
    exfalso. assert (In y (nlocs ns0)) by (apply Hs; now left). rewrite Hm in H. exact H.
Qed.

Lemma tlocs_incdec ts : tlocs ts = [] <-> existsb is_incdec (erase ts) = false.
Proof.
  induction ts as [|[[[z|x l]|o] loc] ts IH]; [split; reflexivity| | |];
    unfold tlocs in *; cbn [filter_map tok_incdec fst erase map erase_tok existsb is_incdec orb];
    try exact IH.
  destruct o; cbn [orb]; try exact IH; split; discriminate.
Qed.

Theorem run_portable_correct cls s env :
  match run_portable cls s env with
  | RVal z env' => spec_run_portable cls s env = SVal z env'
  | RErr _ _ _ => spec_run_portable cls s env = SErr
  | RPanic | RFuel => False
  end.
Proof.
  unfold run_portable, spec_run_portable.
  pose proof (lex_equiv cls s) as HL.
  destruct (tokens_of cls s) as [ts fi] eqn:Et.
  pose proof (parse_equiv_lemma (ts, fi)) as HP.
  pose proof (portability_check_lemma (ts, fi)) as HC.
  destruct fi as [loc|te loc|]; [| |contradiction].
  - destruct HL as [-> Hok]. specialize (HP I).
    destruct (parse (ts, FEnd loc)) as [ns st1|se l|]; [| |contradiction].
    + destruct HP as [e [loc' [_ [Hsp HR]]]]. unfold ets in Hsp. cbn [fst] in Hsp. rewrite Hsp.
      specialize (HC ns st1 eq_refl). cbn [fst] in HC.
      destruct (portability_check ns) as [pl|].
      * destruct (existsb is_incdec (erase ts)) eqn:Ex; [reflexivity|].
        apply tlocs_incdec in Ex. rewrite Ex in HC. destruct HC as [[] _].
      * apply tlocs_incdec in HC. rewrite HC.
        pose proof (spec_parse_ok _ _ Hsp (erase_ok _ Hok)) as Heok.
        pose proof (eval_top e ns env HR Heok) as HE.
        destruct (spec_eval e env) as [z env'|].
        -- rewrite HE. reflexivity.
        -- destruct HE as [c [l [e' ->]]]. reflexivity.
    + destruct HP as [[e [loc' HP]]|HP]; [discriminate|].
      unfold ets in HP. cbn [fst] in HP. now rewrite HP.
  - rewrite HL. specialize (HP I).
    destruct (parse (ts, FErr te loc)) as [ns st1|se l|]; [| |contradiction].
    + destruct HP as [e [loc' [HP _]]]. discriminate.
    + reflexivity.
Qed.
