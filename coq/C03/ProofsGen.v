(* C03 — proofs, part 9: the tables read from the Rust source by
   translator/c03_tables.py (coq/Gen/Gen_Arith.v, regenerated on every run) are
   the tables of the model. *)
From Yv Require Import Common.Base C03.Defs C03.Model C03.Spec C03.ProofsLex C03.ProofsParse.
From Yv Require Import Gen.Gen_Arith.
From Coq Require String.

Module GenNames.
  Import String.
  Local Open Scope string_scope.

  (* the Rust names of the variants *)
  Definition oper_name (o : oper) : string :=
    match o with
    | OQuestion => "Question" | OColon => "Colon" | OBar => "Bar" | OBarBar => "BarBar"
    | OBarEqual => "BarEqual" | OCaret => "Caret" | OCaretEqual => "CaretEqual"
    | OAnd => "And" | OAndAnd => "AndAnd" | OAndEqual => "AndEqual" | OEqual => "Equal"
    | OEqualEqual => "EqualEqual" | OBang => "Bang" | OBangEqual => "BangEqual"
    | OLess => "Less" | OLessEqual => "LessEqual" | OLessLess => "LessLess"
    | OLessLessEqual => "LessLessEqual" | OGreater => "Greater"
    | OGreaterEqual => "GreaterEqual" | OGreaterGreater => "GreaterGreater"
    | OGreaterGreaterEqual => "GreaterGreaterEqual" | OPlus => "Plus" | OPlusPlus => "PlusPlus"
    | OPlusEqual => "PlusEqual" | OMinus => "Minus" | OMinusMinus => "MinusMinus"
    | OMinusEqual => "MinusEqual" | OAsterisk => "Asterisk" | OAsteriskEqual => "AsteriskEqual"
    | OSlash => "Slash" | OSlashEqual => "SlashEqual" | OPercent => "Percent"
    | OPercentEqual => "PercentEqual" | OTilde => "Tilde" | OOpenParen => "OpenParen"
    | OCloseParen => "CloseParen"
    end.

  Definition aop_name (a : aop) : string :=
    match a with
    | AOr => "BitwiseOr" | AXor => "BitwiseXor" | AAnd => "BitwiseAnd"
    | AEq => "EqualTo" | ANe => "NotEqualTo" | ALt => "LessThan" | AGt => "GreaterThan"
    | ALe => "LessThanOrEqualTo" | AGe => "GreaterThanOrEqualTo"
    | AShl => "ShiftLeft" | AShr => "ShiftRight" | AAdd => "Add" | ASub => "Subtract"
    | AMul => "Multiply" | ADiv => "Divide" | ARem => "Remainder"
    end.

  Definition binop_name (b : binop) : string :=
    match b with
    | BLogOr => "LogicalOr" | BLogAnd => "LogicalAnd"
    | BArith a => aop_name a
    | BAssign => "Assign"
    | BCompound a => aop_name a ++ "Assign"
    end.

  Definition assoc_name (a : assoc) : string :=
    match a with Left => "Left" | Right => "Right" end.

  Definition preop_name (p : preop) : string :=
    match p with
    | PreInc => "Increment" | PreDec => "Decrement" | PrePlus => "NumericCoercion"
    | PreNeg => "NumericNegation" | PreNot => "LogicalNegation" | PreBitNot => "BitwiseNegation"
    end.

  Definition postop_name (p : postop) : string :=
    match p with PostInc => "Increment" | PostDec => "Decrement" end.
End GenNames.
Import GenNames.

Definition some_list {A B} (f : A -> option B) (l : list A) : list B :=
  flat_map (fun a => match f a with Some b => [b] | None => [] end) l.

(* what the translator read = the model's tables *)
Definition gen_tables_are_model : Prop :=
  gen_operator_names = map oper_name all_opers /\
  map (fun p => (L (fst p), snd p)) gen_operators
    = map (fun p => (fst p, oper_name (snd p))) operators /\
  gen_precedence = map (fun o => (oper_name o, precedence o)) all_opers /\
  gen_as_binary =
    some_list (fun o => match as_binary o with
                        | Some (b, a) => Some (oper_name o, (binop_name b, assoc_name a))
                        | None => None end) all_opers /\
  gen_as_prefix =
    some_list (fun o => match as_prefix o with
                        | Some p => Some (oper_name o, preop_name p) | None => None end) all_opers /\
  gen_as_postfix =
    some_list (fun o => match as_postfix o with
                        | Some p => Some (oper_name o, postop_name p) | None => None end) all_opers.

Lemma gen_tables_are_model_holds : gen_tables_are_model.
Proof. unfold gen_tables_are_model. repeat split; vm_compute; reflexivity. Qed.
