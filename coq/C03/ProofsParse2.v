(* C03 — proofs, part 6: completeness of the precedence-climbing parser with respect to
   the grammar, fuel of the model parser, and ast::parse = the grammar. *)
From Yv Require Import Common.Base C03.Defs C03.Model C03.Spec C03.ProofsArith C03.ProofsNum C03.ProofsLex C03.ProofsEval C03.ProofsParse.
From Coq Require Import ZArith NArith Lia ZifyBool.

(* ---- the specification parser consumes tokens -------------------------------------------- *)

Lemma postfix_ops_length e ts : (length (snd (postfix_ops e ts)) <= length ts)%nat.
Proof.
  revert e. induction ts as [|[z|x|o] ts IH]; intros e; cbn [postfix_ops]; try (cbn; lia).
  destruct (postfix_operator o); [|cbn; lia]. specialize (IH (EPost p e)). cbn [length]. lia.
Qed.

Lemma sp_chain_length g :
  (forall lvl ts e r, sp g lvl ts = Some (e, r) -> (length r < length ts)%nat) /\
  (forall lvl a ts e r, chain g lvl a ts = Some (e, r) -> (length r <= length ts)%nat).
Proof.
  induction g as [|g [IHs IHc]].
  - split; intros; discriminate.
  - assert (Hs : forall lvl ts e r, sp (S g) lvl ts = Some (e, r) -> (length r < length ts)%nat).
    { induction lvl as [|l IHl]; intros ts e r.
      - rewrite sp_0. unfold unary.
        destruct ts as [|[z|x|o] ts]; try discriminate.
        + pose proof (postfix_ops_length (ENum z) ts). intros [= E]. rewrite E in H. cbn in *. lia.
        + pose proof (postfix_ops_length (EVar x) ts). intros [= E]. rewrite E in H. cbn in *. lia.
        + assert (Hpre : forall p, match sp g 0 ts with
                          | Some (e0, r') => Some (EPre p e0, r') | None => None end = Some (e, r) ->
                          (length r < length (SOp o :: ts))%nat).
          { intros p. destruct (sp g 0 ts) as [[e0 r']|] eqn:E; [|discriminate].
            intros [= <- <-]. apply IHs in E. cbn. lia. }
          destruct o; cbn [prefix_operator]; try discriminate; try apply Hpre.
          destruct (sp g assignment_level ts) as [[e0 r0]|] eqn:E; [|discriminate].
          apply IHs in E. destruct r0 as [|[z|x|o] r0]; try discriminate.
          destruct o; try discriminate.
          pose proof (postfix_ops_length e0 r0). intros [= E']. rewrite E' in H. cbn in *. lia.
      - rewrite sp_S. destruct (sp (S g) l ts) as [[a r0]|] eqn:E; [|discriminate].
        apply IHl in E. unfold stail, tail.
        destruct (Nat.eqb (S l) conditional_level).
        + destruct r0 as [|[z|x|o] r0]; try (intros [= <- <-]; exact E).
          destruct o; try (intros [= <- <-]; exact E).
          destruct (sp g assignment_level r0) as [[t r1]|] eqn:E1; [|discriminate].
          apply IHs in E1. destruct r1 as [|[z|x|o] r1]; try discriminate.
          destruct o; try discriminate.
          destruct (sp g conditional_level r1) as [[f r2]|] eqn:E2; [|discriminate].
          apply IHs in E2. intros [= <- <-]. cbn in *. lia.
        + destruct (Nat.eqb (S l) assignment_level).
          * destruct r0 as [|[z|x|o] r0]; try (intros [= <- <-]; exact E).
            destruct (op_assoc o assignment_operators); [|intros [= <- <-]; exact E].
            destruct (sp g assignment_level r0) as [[v r1]|] eqn:E1; [|discriminate].
            apply IHs in E1. intros [= <- <-]. cbn in *. lia.
          * intros H. apply IHc in H. lia. }
    split; [exact Hs|].
    intros lvl a ts e r. rewrite chain_S.
    destruct ts as [|[z|x|o] ts]; try (intros [= <- <-]; lia).
    destruct (op_assoc o (binary_level lvl)); [|intros [= <- <-]; lia].
    destruct (sp g (pred lvl) ts) as [[c r1]|] eqn:E; [|discriminate].
    apply IHs in E. intros H. apply IHc in H. cbn. lia.
Qed.

Lemma sp_length g lvl ts e r : sp g lvl ts = Some (e, r) -> (length r < length ts)%nat.
Proof. apply sp_chain_length. Qed.

(* ---- what can follow an expression of a level ----------------------------------------------- *)

Lemma op_level_bound o j : op_level o = Some j -> (1 <= j <= 12)%nat.
Proof. intros E. pose proof (precedence_level o) as H. rewrite E in H. tauto. Qed.

Lemma not_in_levels_step l ts :
  not_in_levels 0 l ts ->
  (forall o r, ts = SOp o :: r -> op_level o <> Some (S l)) ->
  not_in_levels 0 (S l) ts.
Proof.
  intros H1 H2. destruct ts as [|[z|x|o] r]; try exact I. cbn in *.
  intros j E. specialize (H1 j E). specialize (H2 o r eq_refl).
  destruct (Nat.eq_dec j (S l)); [congruence|lia].
Qed.

Lemma sp_chain_follow g :
  (forall lvl ts e r, sp g lvl ts = Some (e, r) -> not_in_levels 0 lvl r) /\
  (forall lvl a ts e r, chain g lvl a ts = Some (e, r) ->
     (1 <= lvl)%nat -> (lvl <= 10 \/ 13 <= lvl)%nat ->
     not_in_levels 0 (lvl - 1) ts -> not_in_levels 0 lvl r).
Proof.
  induction g as [|g [IHs IHc]].
  - split; intros; discriminate.
  - assert (Hs : forall lvl ts e r, sp (S g) lvl ts = Some (e, r) -> not_in_levels 0 lvl r).
    { induction lvl as [|l IHl]; intros ts e r.
      - intros _. destruct r as [|[z|x|o] r]; try exact I. cbn. intros j E.
        apply op_level_bound in E. lia.
      - rewrite sp_S. destruct (sp (S g) l ts) as [[a r0]|] eqn:E; [|discriminate].
        apply IHl in E. unfold stail, tail.
        destruct (Nat.eqb_spec (S l) conditional_level) as [E11|N11].
        + assert (Hkeep : forall o r1, r0 = SOp o :: r1 -> o <> OQuestion -> not_in_levels 0 (S l) r0).
          { intros o r1 -> Ho. apply not_in_levels_step; [exact E|].
            intros o' r' [= <- <-]. rewrite E11. intros H. now apply op_level_question in H. }
          destruct r0 as [|[z|x|o] r0]; try (intros [= <- <-]; exact I).
          destruct o; try (intros [= <- <-]; eapply Hkeep; [reflexivity|discriminate]).
          destruct (sp g assignment_level r0) as [[t r1]|] eqn:E1; [|discriminate].
          destruct r1 as [|[z|x|o] r1]; try discriminate.
          destruct o; try discriminate.
          destruct (sp g conditional_level r1) as [[f r2]|] eqn:E2; [|discriminate].
          apply IHs in E2. intros [= <- <-]. rewrite E11. exact E2.
        + destruct (Nat.eqb_spec (S l) assignment_level) as [E12|N12].
          * destruct r0 as [|[z|x|o] r0]; try (intros [= <- <-]; exact I).
            destruct (op_assoc o assignment_operators) eqn:Eo.
            -- destruct (sp g assignment_level r0) as [[v r1]|] eqn:E1; [|discriminate].
               apply IHs in E1. intros [= <- <-]. rewrite E12. exact E1.
            -- intros [= <- <-]. apply not_in_levels_step; [exact E|].
               intros o' r' [= <- <-]. rewrite E12. intros H. apply op_level_assign in H. congruence.
          * intros H. unfold conditional_level, assignment_level in *.
            apply IHc in H; [exact H|lia|lia|].
            replace (S l - 1)%nat with l by lia. exact E. }
    split; [exact Hs|].
    intros lvl a ts e r. rewrite chain_S. intros H Hl1 Hl2 Hpre.
    assert (Hstop : not_in_levels 0 (lvl - 1) ts ->
              (forall o r', ts = SOp o :: r' -> op_assoc o (binary_level lvl) = None) ->
              not_in_levels 0 lvl ts).
    { intros H1 H2. replace lvl with (S (lvl - 1)) at 1 by lia.
      apply not_in_levels_step; [exact H1|]. intros o r' -> E.
      replace (S (lvl - 1)) with lvl in E by lia. specialize (H2 o r' eq_refl).
      destruct Hl2 as [Hl2|Hl2].
      - apply (op_level_binary o lvl) in E; [congruence|lia].
      - apply op_level_bound in E. lia. }
    destruct ts as [|[z|x|o] ts]; try (injection H as <- <-; exact I).
    destruct (op_assoc o (binary_level lvl)) eqn:Eo.
    + destruct (sp g (pred lvl) ts) as [[c r1]|] eqn:E; [|discriminate].
      apply IHs in E. apply IHc in H; auto.
      replace (lvl - 1)%nat with (pred lvl) by lia. exact E.
    + injection H as <- <-. apply Hstop; [exact Hpre|]. intros o' r' [= <- <-]. exact Eo.
Qed.

Lemma sp_follow g lvl ts e r : sp g lvl ts = Some (e, r) -> not_in_levels 0 lvl r.
Proof. apply sp_chain_follow. Qed.

(* ---- (ii) what the grammar derives, the model parser accepts ----------------------------------- *)

Definition nohigh_s (m : N) (r : list stok) : Prop :=
  match r with SOp o :: _ => (precedence o < m)%N | _ => True end.

Lemma ets_op st o r :
  ets st = SOp o :: r ->
  exists loc st1, peek_op st = Some (o, loc, st1) /\ next st = (KOp o, loc, st1) /\
                  ets st1 = r /\ slen st = S (slen st1).
Proof.
  unfold ets, slen. destruct st as [[|[[[z|x l]|o'] loc] ts] fi]; cbn [fst];
    rewrite ?erase_cons; cbn [erase_tok fst]; try discriminate.
  intros [= <- <-]. exists loc, (ts, fi). auto.
Qed.

Lemma ets_nonop st : nonop (ets st) -> peek_op st = None.
Proof.
  unfold ets. destruct st as [[|[[[z|x l]|o'] loc] ts] fi]; cbn [fst];
    rewrite ?erase_cons; cbn [erase_tok fst nonop]; try reflexivity. contradiction.
Qed.

Lemma loop_stop f m acc st : nohigh_s m (ets st) -> parse_loop (S f) m acc st = POk acc st.
Proof.
  intros H. rewrite parse_loop_S.
  destruct (ets st) as [|[z|x|o] r] eqn:E.
  - rewrite ets_nonop; [reflexivity|now rewrite E].
  - rewrite ets_nonop; [reflexivity|now rewrite E].
  - rewrite ets_nonop; [reflexivity|now rewrite E].
  - destruct (ets_op _ _ _ E) as [loc [st1 [-> _]]]. cbn [nohigh_s] in H. cbv zeta.
    replace (precedence o <? m)%N with true by lia. reflexivity.
Qed.

Lemma tails_fuel0 lo L a ts : (lo + 1 <= 10)%nat -> tails 0 lo (S L) a ts = None.
Proof.
  intros Hlo. replace (S L) with (1 + L)%nat by lia. rewrite tails_split. cbn [tails].
  rewrite stail_chain by lia. reflexivity.
Qed.

Lemma tails_stuck g lo n a o ts e r :
  (1 <= g)%nat -> op_level o = None ->
  tails g lo n a (SOp o :: ts) = Some (e, r) -> e = a /\ r = SOp o :: ts.
Proof.
  intros Hg Ho H. rewrite tails_noop in H; [now injection H as <- <-|assumption|].
  cbn. intros j E. congruence.
Qed.

Lemma chain_stuck g j a o ts e r :
  (1 <= j <= 10)%nat -> op_level o = None ->
  chain g j a (SOp o :: ts) = Some (e, r) -> e = a /\ r = SOp o :: ts.
Proof.
  intros Hj Ho H. destruct g as [|g]; [discriminate|].
  rewrite <- stail_chain in H by lia. rewrite stail_noop_op in H; [now injection H as <- <-|lia|lia|congruence].
Qed.

Lemma prec13_not_nohigh o m : (1 <= m <= 13)%N -> op_level o = None ->
  (precedence o < m)%N -> precedence o = 0%N.
Proof. intros Hm Ho H. pose proof (precedence_level o) as P. rewrite Ho in P. lia. Qed.

Definition accepts {A} (run : nat -> A) (res : A) : Prop :=
  exists f0, forall f, (f0 <= f)%nat -> run f = res.

Lemma accepts_S {A} (run : nat -> A) res :
  (exists f0, forall f, (f0 <= f)%nat -> run (S f) = res) -> accepts run res.
Proof.
  intros [f0 H]. exists (S f0). intros f Hf. destruct f as [|f]; [lia|]. apply H. lia.
Qed.

Definition C_leaf (g : nat) : Prop :=
  forall st e r, sp g 0 (ets st) = Some (e, r) ->
  exists ns st', ets st' = r /\ Repr e ns /\ accepts (fun f => parse_leaf f st) (POk ns st').

Definition C_tree (g : nat) : Prop :=
  forall m st e r, (1 <= m <= 13)%N ->
  sp g (lvl_of m) (ets st) = Some (e, r) -> nohigh_s m r ->
  exists ns st', ets st' = r /\ Repr e ns /\ accepts (fun f => parse_tree f m st) (POk ns st').

Definition C_loop (g : nat) : Prop :=
  forall n m acc st a e r, (slen st <= n)%nat -> (1 <= m <= 13)%N -> Repr a acc ->
  tails g 0 (lvl_of m) a (ets st) = Some (e, r) -> nohigh_s m r ->
  exists ns st', ets st' = r /\ Repr e ns /\
                 accepts (fun f => parse_loop f m acc st) (POk ns st').

Lemma slen_ets st : length (ets st) = slen st.
Proof. unfold ets, erase, slen. apply map_length. Qed.

Lemma loop_stops m acc st :
  nohigh_s m (ets st) ->
  exists ns st', ets st' = ets st /\ ns = acc /\
                 accepts (fun f => parse_loop f m acc st) (POk ns st').
Proof.
  intros H. exists acc, st. repeat split. apply accepts_S. exists 0%nat. intros f _.
  now apply loop_stop.
Qed.

Lemma tails_noop_inv g lo n a ts e r :
  (lo + 1 <= 10)%nat -> not_in_levels lo n ts ->
  tails g lo n a ts = Some (e, r) -> e = a /\ r = ts.
Proof.
  intros Hlo Hn H. destruct g as [|g].
  - destruct n as [|n]; [cbn in H; now injection H as <- <-|].
    rewrite tails_fuel0 in H by assumption. discriminate.
  - rewrite tails_noop in H; [now injection H as <- <-|lia|assumption].
Qed.

Lemma oper_eqb_false o j : op_level o = Some j -> j <> 11%nat -> oper_eqb o OQuestion = false.
Proof.
  intros E Hj. unfold oper_eqb. destruct (oper_eq_dec o OQuestion) as [->|]; [|reflexivity].
  vm_compute in E. congruence.
Qed.

Lemma stail_noop_level g j a ts :
  (1 <= g)%nat -> (1 <= j)%nat -> not_in_levels 0 j ts -> stail g j a ts = Some (a, ts).
Proof.
  intros Hg Hj Hn. destruct ts as [|[z|x|o] r]; try (apply stail_noop_nonop; [assumption|exact I]).
  apply stail_noop_op; try assumption. intros E. cbn in Hn. specialize (Hn _ E). lia.
Qed.

Lemma not_in_levels_weaken lo n n' ts : (n' <= n)%nat -> not_in_levels lo n ts -> not_in_levels lo n' ts.
Proof.
  intros Hn H. destruct ts as [|[z|x|o] r]; try exact I. cbn in *. intros j E. specialize (H j E). lia.
Qed.

Lemma C_loop_of g : (forall g1, (g1 <= g)%nat -> C_leaf g1 /\ C_tree g1) -> C_loop g.
Proof.
  intros IH n. induction n as [n IHn] using lt_wf_ind.
  intros m acc st a e r Hn Hm HR H Hnh.
  assert (Hstop : e = a /\ r = ets st ->
            exists ns st', ets st' = r /\ Repr e ns /\
                           accepts (fun f => parse_loop f m acc st) (POk ns st')).
  { intros [-> ->]. destruct (loop_stops m acc st Hnh) as [ns [st' [E1 [-> Hacc]]]].
    exists acc, st'. auto. }
  destruct (ets st) as [|[z|x|o] ts] eqn:Ets.
  1-3: (apply Hstop; eapply tails_noop_inv; [| |exact H]; [lia|exact I]).
  destruct (ets_op _ _ _ Ets) as [loc [st1 [Hpeek [Hnext [Ets1 Hslen]]]]].
  pose proof (precedence_level o) as Hprec.
  destruct (op_level o) as [j|] eqn:Ej.
  2:{ apply Hstop. eapply tails_noop_inv; [| |exact H]; [lia|]. cbn [not_in_levels]. intros j E. congruence. }
  destruct Hprec as [Hp Hj].
  destruct (Nat.le_gt_cases j (lvl_of m)) as [HjL|HjL].
  2:{ apply Hstop. eapply tails_noop_inv; [| |exact H]; [lia|].
      cbn [not_in_levels]. intros j' E. rewrite Ej in E. injection E as <-. lia. }
  destruct g as [|g].
  { replace (lvl_of m) with (S (lvl_of m - 1)) in H by lia.
    rewrite tails_fuel0 in H by lia. discriminate. }
  rewrite (tails_from_level (S g) (lvl_of m) j) in H by
    (try lia; cbn [not_in_levels]; intros j' E; rewrite Ej in E; injection E as <-; lia).
  destruct (stail (S g) j a (SOp o :: ts)) as [[a2 r3]|] eqn:Est; [|discriminate].
  assert (Hge : (precedence o <? m)%N = false) by (unfold lvl_of in HjL; lia).
  (* an operator that is no infix operator cannot be left in place by a successful parse
     unless the enclosing context accepts it *)
  assert (Hstuck : forall o2 ts2 e', 
            tails (S g) j (lvl_of m - j) e' (SOp o2 :: ts2) = Some (e, r) ->
            op_level o2 = None -> (precedence o2 < m)%N).
  { intros o2 ts2 e' Ht Ho2. eapply tails_stuck in Ht; [|lia|exact Ho2].
    destruct Ht as [_ ->]. exact Hnh. }
  destruct (Nat.leb j 10) eqn:Ej10.
  - (* a left-associative level *)
    apply Nat.leb_le in Ej10.
    rewrite stail_chain, chain_S in Est by assumption.
    destruct (op_assoc o (binary_level j)) as [b|] eqn:Eo.
    2:{ exfalso. apply (op_level_binary o j) in Ej; [congruence|lia]. }
    destruct (sp g (pred j) ts) as [[c r1]|] eqn:Ec; [|discriminate].
    pose proof (sp_follow _ _ _ _ _ Ec) as Hfol.
    pose proof (sp_length _ _ _ _ _ Ec) as Hlen1.
    assert (Hnh1 : nohigh_s (precedence o + 1) r1).
    { destruct r1 as [|[z|x|o2] ts2]; try exact I. cbn [nohigh_s not_in_levels] in *.
      pose proof (precedence_level o2) as P. destruct (op_level o2) as [j2|] eqn:E2.
      - specialize (Hfol j2 eq_refl). lia.
      - enough (precedence o2 < m)%N by lia.
        eapply chain_stuck in Est; [|lia|exact E2]. destruct Est as [-> ->].
        eapply Hstuck; eauto. }
    destruct (IH g ltac:(lia)) as [_ IHtree].
    rewrite <- Ets1 in Ec.
    replace (pred j) with (lvl_of (precedence o + 1)) in Ec by (unfold lvl_of; lia).
    destruct (IHtree (precedence o + 1)%N st1 c r1 ltac:(lia) Ec Hnh1)
      as [nr [st2 [Hets2 [HRc [f1 Hf1]]]]].
    destruct (IHn (slen st2) ltac:(pose proof (slen_ets st2); pose proof (slen_ets st1);
                                   rewrite Hets2, Ets1 in *; lia)
                  m (acc ++ nr ++ [ABinary b (length nr) loc]) st2 (EBin b a c) e r
                  (le_n _) Hm (RBin _ loc _ _ _ _ HR HRc))
      as [ns [st' [Hets' [HRe [f2 Hf2]]]]]; [|exact Hnh|].
    { rewrite Hets2. rewrite (tails_from_level (S g) (lvl_of m) j); try lia.
      - rewrite stail_chain by assumption. rewrite (chain_mono _ _ _ _ _ Est). exact H.
      - replace (j - 1)%nat with (pred j) by lia. exact Hfol. }
    exists ns, st'. split; [exact Hets'|]. split; [exact HRe|].
    apply accepts_S. exists (Nat.max f1 f2). intros f Hf.
    rewrite parse_loop_S, Hpeek. cbv zeta. rewrite Hge.
    rewrite (oper_eqb_false o j Ej ltac:(lia)).
    rewrite as_binary_level, Ej. replace (Nat.leb j 10) with true by (symmetry; now apply Nat.leb_le).
    rewrite Eo. cbn [option_map]. rewrite Hf1 by lia. apply Hf2. lia.
  - apply Nat.leb_gt in Ej10.
    destruct (Nat.eq_dec j 11) as [->|Hj11].
    + (* conditional *)
      apply op_level_question in Ej. subst o.
      rewrite stail_cond in Est.
      destruct (sp (S g) 12 ts) as [[t r1]|] eqn:Et; [|discriminate].
      destruct r1 as [|[z|x|o2] r1]; try discriminate. destruct o2; try discriminate.
      destruct (sp (S g) 11 r1) as [[fe r2]|] eqn:Ef; [|discriminate].
      injection Est as <- <-.
      pose proof (sp_follow _ _ _ _ _ Ef) as Hfol.
      pose proof (sp_length _ _ _ _ _ Et) as Hlen1.
      pose proof (sp_length _ _ _ _ _ Ef) as Hlen2.
      destruct (IH (S g) (le_n _)) as [_ IHtree].
      rewrite <- Ets1 in Et. change 12%nat with (lvl_of 1) in Et.
      destruct (IHtree 1%N st1 t _ ltac:(lia) Et ltac:(cbn; lia))
        as [nt [st2 [Hets2 [HRt [f1 Hf1]]]]].
      destruct (ets_op _ _ _ Hets2) as [cl [st3 [_ [Hnext2 [Ets3 Hslen3]]]]].
      assert (Hnh2 : nohigh_s 2 r2).
      { destruct r2 as [|[z|x|o2] ts2]; try exact I. cbn [nohigh_s not_in_levels] in *.
        pose proof (precedence_level o2) as P. destruct (op_level o2) as [j2|] eqn:E2.
        - specialize (Hfol j2 eq_refl). lia.
        - enough (precedence o2 < m)%N by (unfold lvl_of in HjL; lia).
          eapply Hstuck; eauto. }
      rewrite <- Ets3 in Ef. change 11%nat with (lvl_of 2) in Ef.
      destruct (IHtree 2%N st3 fe r2 ltac:(lia) Ef Hnh2)
        as [ne [st4 [Hets4 [HRf [f2 Hf2]]]]].
      destruct (IHn (slen st4) ltac:(pose proof (slen_ets st4); pose proof (slen_ets st3);
                                     pose proof (slen_ets st2); pose proof (slen_ets st1);
                                     rewrite Hets4, Ets3, Hets2, Ets1 in *; cbn [length] in *; lia)
                    m (acc ++ nt ++ ne ++ [ACond (length nt) (length ne)]) st4 (ECond a t fe) e r
                    (le_n _) Hm (RCond _ _ _ _ _ _ HR HRt HRf))
        as [ns [st' [Hets' [HRe [f3 Hf3]]]]]; [|exact Hnh|].
      { rewrite Hets4. rewrite (tails_from_level (S g) (lvl_of m) 11); try lia.
        - rewrite stail_noop_level; [exact H|lia|lia|exact Hfol].
        - eapply not_in_levels_weaken; [|exact Hfol]. lia. }
      exists ns, st'. split; [exact Hets'|]. split; [exact HRe|].
      apply accepts_S. exists (Nat.max f1 (Nat.max f2 f3)). intros f Hf.
      rewrite parse_loop_S, Hpeek. cbv zeta. rewrite Hge.
      change (oper_eqb OQuestion OQuestion) with true. cbv iota.
      rewrite Hf1 by lia. rewrite Hnext2. change (precedence OQuestion) with 2%N.
      rewrite Hf2 by lia. apply Hf3. lia.
    + (* assignment *)
      assert (j = 12%nat) by lia. subst j.
      assert (Hm1 : m = 1%N) by (unfold lvl_of in HjL; lia). subst m.
      rewrite stail_assign in Est.
      destruct (op_assoc o assignment_operators) as [b|] eqn:Eo.
      2:{ exfalso. apply op_level_assign in Ej. congruence. }
      destruct (sp (S g) 12 ts) as [[v r2]|] eqn:Ev; [|discriminate].
      injection Est as <- <-.
      change (lvl_of 1 - 12)%nat with 0%nat in H. cbn [tails] in H. injection H as <- <-.
      destruct (IH (S g) (le_n _)) as [_ IHtree].
      rewrite <- Ets1 in Ev. change 12%nat with (lvl_of 1) in Ev.
      destruct (IHtree 1%N st1 v r2 ltac:(lia) Ev Hnh)
        as [nr [st2 [Hets2 [HRv [f1 Hf1]]]]].
      rewrite <- Hets2 in Hnh.
      destruct (loop_stops 1%N (acc ++ nr ++ [ABinary b (length nr) loc]) st2 Hnh)
        as [ns [st' [Hets' [-> [f2 Hf2]]]]].
      exists (acc ++ nr ++ [ABinary b (length nr) loc]), st'.
      split; [congruence|]. split; [now constructor|].
      apply accepts_S. exists (Nat.max f1 f2). intros f Hf.
      rewrite parse_loop_S, Hpeek. cbv zeta. rewrite Hge.
      rewrite (oper_eqb_false o 12 Ej ltac:(lia)).
      rewrite as_binary_level, Ej. change (Nat.leb 12 10) with false. change (Nat.eqb 12 12) with true.
      cbv iota. rewrite Eo. cbn [option_map]. replace (precedence o) with 1%N by lia.
      rewrite Hf1 by lia. apply Hf2. lia.
Qed.

Lemma ets_num st z r :
  ets st = SNum z :: r ->
  exists loc ts fi, st = ((TkTerm (TValue z), loc) :: ts, fi) /\ erase ts = r.
Proof.
  unfold ets. destruct st as [[|[[[z'|x l]|o'] loc] ts] fi]; cbn [fst];
    rewrite ?erase_cons; cbn [erase_tok fst]; try discriminate.
  intros [= <- <-]. exists loc, ts, fi. auto.
Qed.

Lemma ets_var st x r :
  ets st = SVar x :: r ->
  exists l loc ts fi, st = ((TkTerm (TVariable x l), loc) :: ts, fi) /\ erase ts = r.
Proof.
  unfold ets. destruct st as [[|[[[z'|x' l]|o'] loc] ts] fi]; cbn [fst];
    rewrite ?erase_cons; cbn [erase_tok fst]; try discriminate.
  intros [= <- <-]. exists l, loc, ts, fi. auto.
Qed.

Lemma C_leaf_S g : C_leaf g -> C_tree g -> C_leaf (S g).
Proof.
  intros IHleaf IHtree st e r H. rewrite sp_0 in H. unfold unary in H.
  destruct (ets st) as [|[z|x|o] ts] eqn:Ets; try discriminate.
  - destruct (ets_num _ _ _ Ets) as [loc [toks [fi [-> Er]]]].
    pose proof (parse_postfix_spec toks fi (ENum z) _ (RNum z)) as HP.
    destruct (parse_postfix (toks, fi)) as [ps st2] eqn:Epp.
    destruct HP as [e' [HP1 HP2]]. rewrite Er in HP1. rewrite HP1 in H. injection H as <- <-.
    exists ([ATerm (TValue z)] ++ ps), st2. split; [reflexivity|]. split; [exact HP2|].
    apply accepts_S. exists 0%nat. intros f _. cbn [parse_leaf next]. now rewrite Epp.
  - destruct (ets_var _ _ _ Ets) as [l [loc [toks [fi [-> Er]]]]].
    pose proof (parse_postfix_spec toks fi (EVar x) _ (RVar x l)) as HP.
    destruct (parse_postfix (toks, fi)) as [ps st2] eqn:Epp.
    destruct HP as [e' [HP1 HP2]]. rewrite Er in HP1. rewrite HP1 in H. injection H as <- <-.
    exists ([ATerm (TVariable x l)] ++ ps), st2. split; [reflexivity|]. split; [exact HP2|].
    apply accepts_S. exists 0%nat. intros f _. cbn [parse_leaf next]. now rewrite Epp.
  - destruct (ets_op _ _ _ Ets) as [loc [st1 [_ [Hnext [Ets1 _]]]]].
    assert (Hpre : forall p, as_prefix o = Some p -> o <> OOpenParen ->
              match sp g 0 ts with Some (e0, r') => Some (EPre p e0, r') | None => None end
                = Some (e, r) ->
              exists ns st', ets st' = r /\ Repr e ns /\
                             accepts (fun f => parse_leaf f st) (POk ns st')).
    { intros p Hp Hno H'. destruct (sp g 0 ts) as [[e0 r']|] eqn:E0; [|discriminate].
      injection H' as <- <-. rewrite <- Ets1 in E0.
      destruct (IHleaf _ _ _ E0) as [ns [st' [Hets' [HR0 [f0 Hf0]]]]].
      exists (ns ++ [APrefix p loc]), st'. split; [exact Hets'|]. split; [now constructor|].
      apply accepts_S. exists f0. intros f Hf. cbn [parse_leaf]. rewrite Hnext.
      destruct o; try congruence; cbn in Hp; try discriminate Hp; injection Hp as <-;
        cbn [as_prefix]; now rewrite Hf0 by lia. }
    destruct o; cbn [prefix_operator] in H; try discriminate;
      try (apply (Hpre _ eq_refl); [discriminate|exact H]).
    (* ( *)
    destruct (sp g assignment_level ts) as [[e0 r0]|] eqn:E0; [|discriminate].
    destruct r0 as [|[z|x|o] r0]; try discriminate. destruct o; try discriminate.
    rewrite <- Ets1 in E0. change assignment_level with (lvl_of 1) in E0.
    destruct (IHtree 1%N st1 e0 _ ltac:(lia) E0 ltac:(cbn; lia)) as [ns0 [st2 [Hets2 [HR0 [f0 Hf0]]]]].
    destruct (ets_op _ _ _ Hets2) as [cl [st3 [_ [Hnext2 [Ets3 _]]]]].
    destruct st3 as [toks3 fi3].
    pose proof (parse_postfix_spec toks3 fi3 e0 _ HR0) as HP.
    destruct (parse_postfix (toks3, fi3)) as [ps st4] eqn:Epp.
    destruct HP as [e' [HP1 HP2]]. unfold ets in Ets3. cbn [fst] in Ets3. rewrite Ets3 in HP1.
    rewrite HP1 in H. injection H as <- <-.
    exists (ns0 ++ ps), st4. split; [reflexivity|]. split; [exact HP2|].
    apply accepts_S. exists f0. intros f Hf. cbn [parse_leaf]. rewrite Hnext.
    rewrite Hf0 by lia. unfold parse_close_paren. rewrite Hnext2. now rewrite Epp.
Qed.

Lemma C_tree_S g : C_leaf (S g) -> C_loop g -> C_tree (S g).
Proof.
  intros Hleaf Hloop m st e r Hm H Hnh. rewrite sp_tails in H.
  destruct (sp (S g) 0 (ets st)) as [[a r0]|] eqn:E0; [|discriminate].
  destruct (Hleaf _ _ _ E0) as [ns0 [st1 [Hets1 [HR0 [f0 Hf0]]]]].
  rewrite <- Hets1 in H.
  destruct (Hloop (slen st1) m ns0 st1 a e r (le_n _) Hm HR0 H Hnh)
    as [ns [st' [Hets' [HRe [f1 Hf1]]]]].
  exists ns, st'. split; [exact Hets'|]. split; [exact HRe|].
  apply accepts_S. exists (Nat.max f0 f1). intros f Hf. cbn [parse_tree].
  rewrite Hf0 by lia. apply Hf1. lia.
Qed.

Lemma C_all g : forall g1, (g1 <= g)%nat -> C_leaf g1 /\ C_tree g1.
Proof.
  induction g as [|g IH]; intros g1 Hg1.
  - assert (g1 = 0)%nat by lia. subst. split.
    + intros st e r H. discriminate.
    + intros m st e r _ H. discriminate.
  - destruct (Nat.eq_dec g1 (S g)) as [->|]; [|apply IH; lia].
    destruct (IH g (le_n _)) as [Hl Ht].
    pose proof (C_leaf_S g Hl Ht) as Hl'.
    split; [exact Hl'|]. apply C_tree_S; [exact Hl'|]. apply C_loop_of. exact IH.
Qed.

(* ---- fuel of the model parser ------------------------------------------------------------------ *)

Lemma parse_mono f :
  (forall st r, parse_leaf f st = r -> r <> PFuel -> parse_leaf (S f) st = r) /\
  (forall m st r, parse_tree f m st = r -> r <> PFuel -> parse_tree (S f) m st = r) /\
  (forall m acc st r, parse_loop f m acc st = r -> r <> PFuel -> parse_loop (S f) m acc st = r).
Proof.
  induction f as [|f [IHleaf [IHtree IHloop]]].
  - repeat split; intros; subst; cbn in *; congruence.
  - assert (Hleaf : forall st r, parse_leaf (S f) st = r -> r <> PFuel -> parse_leaf (S (S f)) st = r).
    { intros st r H Hr. rewrite <- H in *. clear H.
      change (parse_leaf (S (S f)) st) with
        (let '(k, loc, st1) := next st in
         match k with
         | KErr e => PErr (SETok e) loc
         | KTerm t => let '(ps, st2) := parse_postfix st1 in POk (ATerm t :: ps) st2
         | KOp OOpenParen =>
             match parse_tree (S f) 1 st1 with
             | POk ns st2 =>
                 match parse_close_paren st2 loc with
                 | inl st3 => let '(ps, st4) := parse_postfix st3 in POk (ns ++ ps) st4
                 | inr (e, l) => PErr e l
                 end
             | r => r
             end
         | KOp o =>
             match as_prefix o with
             | None => PErr InvalidOperator loc
             | Some p =>
                 match parse_leaf (S f) st1 with
                 | POk ns st2 => POk (ns ++ [APrefix p loc]) st2
                 | r => r
                 end
             end
         | KEnd => PErr IncompleteExpression loc
         end).
      cbn [parse_leaf] in *. destruct (next st) as [[k loc] st1].
      destruct k as [t|o| |e]; try reflexivity.
      destruct o; cbn [as_prefix] in *; try reflexivity;
        try (destruct (parse_leaf f st1) eqn:E;
             [rewrite (IHleaf _ _ E) by discriminate|rewrite (IHleaf _ _ E) by discriminate|congruence];
             reflexivity).
      destruct (parse_tree f 1 st1) eqn:E;
        [rewrite (IHtree _ _ _ E) by discriminate|rewrite (IHtree _ _ _ E) by discriminate|congruence];
        reflexivity. }
    assert (Hloop : forall m acc st r, parse_loop (S f) m acc st = r -> r <> PFuel ->
                      parse_loop (S (S f)) m acc st = r).
    { intros m acc st r H Hr. rewrite <- H in *. clear H.
      rewrite (parse_loop_S (S f)). rewrite (parse_loop_S f) in *.
      destruct (peek_op st) as [[[o loc] st1]|]; [|reflexivity]. cbv zeta in *.
      destruct (precedence o <? m)%N; [reflexivity|].
      destruct (oper_eqb o OQuestion).
      - destruct (parse_tree f 1 st1) eqn:E1;
          [rewrite (IHtree _ _ _ E1) by discriminate|rewrite (IHtree _ _ _ E1) by discriminate|congruence];
          [|reflexivity].
        destruct (next rest) as [[k cl] st3].
        destruct k as [t|o'| |e]; try reflexivity. destruct o'; try reflexivity.
        destruct (parse_tree f (precedence o) st3) eqn:E2;
          [rewrite (IHtree _ _ _ E2) by discriminate|rewrite (IHtree _ _ _ E2) by discriminate|congruence];
          [|reflexivity].
        apply IHloop; [reflexivity|exact Hr].
      - destruct (as_binary o) as [[b a]|]; [|reflexivity].
        destruct (parse_tree f _ st1) eqn:E1;
          [rewrite (IHtree _ _ _ E1) by discriminate|rewrite (IHtree _ _ _ E1) by discriminate|congruence];
          [|reflexivity].
        apply IHloop; [reflexivity|exact Hr]. }
    split; [exact Hleaf|]. split; [|exact Hloop].
    intros m st r H Hr. rewrite <- H in *. clear H.
    change (parse_tree (S (S f)) m st) with
      (match parse_leaf (S f) st with
       | POk ns st1 => parse_loop (S f) m ns st1
       | r => r
       end).
    cbn [parse_tree] in *.
    destruct (parse_leaf f st) eqn:E;
      [rewrite (IHleaf _ _ E) by discriminate|rewrite (IHleaf _ _ E) by discriminate|congruence];
      [|reflexivity].
    apply IHloop; [reflexivity|exact Hr].
Qed.

Lemma parse_tree_mono_le f f' m st r :
  (f <= f')%nat -> parse_tree f m st = r -> r <> PFuel -> parse_tree f' m st = r.
Proof.
  intros Hle. induction Hle as [|f' _ IH]; [auto|].
  intros H Hr. apply (proj1 (proj2 (parse_mono f'))); auto.
Qed.

Lemma next_slen st k loc st1 : next st = (k, loc, st1) ->
  (slen st1 = slen st - 1)%nat /\ (slen st = 0%nat -> (k = KEnd \/ exists e, k = KErr e)).
Proof.
  unfold slen. destruct st as [[|[[t|o] l] ts] fi]; cbn [next fst length].
  - destruct fi; intros [= <- <- <-]; cbn; split; auto; intros _; eauto.
  - intros [= <- <- <-]. cbn. split; [lia|discriminate].
  - intros [= <- <- <-]. cbn. split; [lia|discriminate].
Qed.

Lemma parse_fuel_enough f :
  (forall st, (2 * slen st + 1 <= f)%nat -> parse_leaf f st <> PFuel) /\
  (forall m st, (2 * slen st + 2 <= f)%nat -> parse_tree f m st <> PFuel) /\
  (forall m acc st, (2 * slen st + 1 <= f)%nat -> parse_loop f m acc st <> PFuel).
Proof.
  induction f as [|f [IHleaf [IHtree IHloop]]].
  - repeat split; intros; lia.
  - destruct (parse_shape f) as [SHleaf [SHtree SHloop]].
    split; [|split].
    + intros st Hf. cbn [parse_leaf]. destruct (next st) as [[k loc] st1] eqn:En.
      destruct (next_slen _ _ _ _ En) as [Hs1 Hs0].
      destruct k as [t|o| |e]; try discriminate.
      * destruct (parse_postfix st1). discriminate.
      * assert (Hpos : (1 <= slen st)%nat).
        { destruct (slen st); [|lia]. destruct (Hs0 eq_refl) as [|[e ?]]; discriminate. }
        assert (Hpre : forall p, match parse_leaf f st1 with
                         | POk ns st2 => POk (ns ++ [APrefix p loc]) st2 | r => r end <> PFuel).
        { intros p. specialize (IHleaf st1 ltac:(lia)). destruct (parse_leaf f st1); congruence. }
        destruct o; cbn [as_prefix]; try discriminate; try apply Hpre.
        specialize (IHtree 1%N st1 ltac:(lia)).
        destruct (parse_tree f 1 st1); try congruence.
        destruct (parse_close_paren rest loc) as [st3|[e l]]; [|discriminate].
        destruct (parse_postfix st3). discriminate.
    + intros m st Hf. cbn [parse_tree].
      specialize (IHleaf st ltac:(lia)).
      destruct (parse_leaf f st) as [ns st1| |] eqn:E; try congruence.
      apply SHleaf in E. apply IHloop. lia.
    + intros m acc st Hf. rewrite parse_loop_S.
      destruct (peek_op st) as [[[o loc] st1]|] eqn:Ep; [|discriminate].
      pose proof (peek_op_some _ _ _ _ Ep) as Est.
      assert (Hlen : slen st = S (slen st1)) by (rewrite Est; reflexivity).
      cbv zeta. destruct (precedence o <? m)%N; [discriminate|].
      destruct (oper_eqb o OQuestion).
      * pose proof (IHtree 1%N st1 ltac:(lia)) as Hn1.
        destruct (parse_tree f 1 st1) as [nt st2| |] eqn:E1; try congruence.
        apply SHtree in E1. destruct E1 as [_ [Hl2 _]].
        destruct (next st2) as [[k cl] st3] eqn:En.
        destruct (next_slen _ _ _ _ En) as [Hs3 _].
        destruct k as [t|o'| |e]; try discriminate. destruct o'; try discriminate.
        pose proof (IHtree (precedence o) st3 ltac:(lia)) as Hn2.
        destruct (parse_tree f (precedence o) st3) as [ne st4| |] eqn:E2; try congruence.
        apply SHtree in E2. destruct E2 as [_ [Hl4 _]].
        apply IHloop. lia.
      * destruct (as_binary o) as [[b a]|]; [|discriminate].
        match goal with |- context [parse_tree f ?mm st1] =>
          pose proof (IHtree mm st1 ltac:(lia)) as Hn1; destruct (parse_tree f mm st1) as [nr st2| |] eqn:E1
        end; try congruence.
        apply SHtree in E1. destruct E1 as [_ [Hl2 _]]. apply IHloop. lia.
Qed.

(* ---- ast::parse against the grammar ---------------------------------------------------------------- *)

Definition fin_ok (st : stream) : Prop := match snd st with FFuel => False | _ => True end.

Theorem parse_equiv_lemma st :
  fin_ok st ->
  match parse st with
  | POk ns _ =>
      exists e loc, snd st = FEnd loc /\ spec_parse (ets st) = Some e /\ Repr e ns
  | PErr _ _ => (exists e loc, snd st = FErr e loc) \/ spec_parse (ets st) = None
  | PFuel => False
  end.
Proof.
  intros Hfin. unfold parse.
  pose proof (proj1 (proj2 (parse_fuel_enough (parse_fuel st))) 1%N st
                ltac:(unfold parse_fuel, slen; lia)) as Hnf.
  destruct (parse_tree (parse_fuel st) 1 st) as [ns st1| |] eqn:E; [| |congruence].
  - (* the tree parser accepted *)
    destruct (proj1 (proj2 (parse_sound _)) _ _ _ _ E ltac:(lia) (S (slen st)) ltac:(lia))
      as [e [He HR]].
    destruct (proj1 (proj2 (parse_shape _)) _ _ _ _ E) as [Hsnd _].
    change (lvl_of 1) with assignment_level in He.
    unfold parse_end_of_input.
    destruct st1 as [[|[[t|o] l] ts1] fi1]; cbn [next].
    + unfold fin_ok in Hfin. cbn [snd] in Hsnd. rewrite <- Hsnd in Hfin.
      destruct fi1 as [loc|e0 loc|]; [|left; rewrite <- Hsnd; eauto|contradiction].
      exists e, loc. split; [now rewrite <- Hsnd|]. split; [|exact HR].
      unfold spec_parse. rewrite slen_ets. rewrite He. reflexivity.
    + right. unfold spec_parse. rewrite slen_ets, He. reflexivity.
    + assert (spec_parse (ets st) = None) by (unfold spec_parse; rewrite slen_ets, He; reflexivity).
      destruct o; right; assumption.
  - (* the tree parser rejected: so does the grammar *)
    right. unfold spec_parse.
    destruct (sp (S (length (ets st))) assignment_level (ets st)) as [[e0 r0]|] eqn:Es; [|reflexivity].
    destruct r0; [|reflexivity]. exfalso.
    destruct (C_all (S (length (ets st))) _ (le_n _)) as [_ Ct].
    destruct (Ct 1%N st e0 [] ltac:(lia) Es I) as [ns [st' [_ [_ [f0 Hf0]]]]].
    pose proof (parse_tree_mono_le _ (Nat.max (parse_fuel st) f0) _ _ _ (Nat.le_max_l _ _) E
                  ltac:(discriminate)) as H1.
    rewrite Hf0 in H1 by apply Nat.le_max_r. discriminate.
Qed.
