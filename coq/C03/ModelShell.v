(* C03 — MODEL, part 2: the evaluator of eval.rs over an environment that can
   refuse (the `Env` trait as implemented by the shell, yash-semantics
   expansion/initial/arith.rs `VarEnv`), and the arithmetic expansion of the shell
   built on it.

   [mode]: `nounset` = the shell option (get_variable of an unset variable is
   Err(UnsetVariable) instead of Ok(None)); `readonly` = the read-only variables
   (assign_variable is Err(AssignReadOnlyError), the variable keeps its value).
   The functions are those of Model.v with get_variable / assign_variable made
   fallible; with [mode0] they are the same functions. *)
From Yv Require Import Common.Base C03.Defs C03.Model.
Local Open Scope Z_scope.

Record mode := Mode { nounset : bool; readonly : list str }.
Definition mode0 : mode := Mode false [].

Notation "'do' x , e <- m ; k" := (ebind m (fun x e => k))
  (at level 200, x pattern, e name, m at level 100, k at level 200).

Definition expand_variable_m (m : mode) (name : str) (loc : range) (e : env) : eres Z :=
  match lookup name e with
  | None => if nounset m then EErr (UnsetVariable name) loc e else EOk 0 e
  | Some v =>
      match parse_integer v with
      | Some n => EOk n e
      | None => EErr (InvalidVariableValue v) loc e
      end
  end.

Definition into_value_m (m : mode) (t : term) (e : env) : eres Z :=
  match t with
  | TValue z => EOk z e
  | TVariable name loc => expand_variable_m m name loc e
  end.

(* env.assign_variable(name, value.to_string(), ..) on the HashMap: cannot fail *)
(* env.assign_variable(name, value.to_string(), location): fails on a read-only
   variable, which keeps its value; the error is reported at the variable *)
Definition assign_m (m : mode) (name : str) (value : Z) (loc : range) (e : env) : eres Z :=
  if existsb (str_eqb name) (readonly m) then EErr (AssignReadOnly name) loc e
  else EOk value (set_var name (dec_of_Z value) e).

Definition apply_prefix_m (m : mode) (t : term) (o : preop) (op_loc : range) (e : env) : eres Z :=
  match o with
  | PreInc =>
      do nl, e <- require_variable t op_loc e;
      do value, e <- expand_variable_m m (fst nl) (snd nl) e;
      do nv, e <- unwrap_or_overflow (checked (value + 1)) op_loc e;
      assign_m m (fst nl) nv (snd nl) e
  | PreDec =>
      do nl, e <- require_variable t op_loc e;
      do value, e <- expand_variable_m m (fst nl) (snd nl) e;
      do nv, e <- unwrap_or_overflow (checked (value - 1)) op_loc e;
      assign_m m (fst nl) nv (snd nl) e
  | PrePlus => into_value_m m t e
  | PreNeg =>
      do value, e <- into_value_m m t e;
      unwrap_or_overflow (checked (- value)) op_loc e
  | PreNot =>
      do value, e <- into_value_m m t e;
      EOk (b2z (value =? 0)) e
  | PreBitNot =>
      do value, e <- into_value_m m t e;
      EOk (Z.lnot value) e
  end.

Definition apply_postfix_m (m : mode) (t : term) (o : postop) (op_loc : range) (e : env) : eres Z :=
  do nl, e <- require_variable t op_loc e;
  do value, e <- expand_variable_m m (fst nl) (snd nl) e;
  let result := match o with
                | PostInc => checked (value + 1)
                | PostDec => checked (value - 1)
                end in
  do nv, e <- unwrap_or_overflow result op_loc e;
  do _, e <- assign_m m (fst nl) nv (snd nl) e;
  EOk value e.

Definition apply_binary_m (m : mode) (lhs rhs : term) (o : binop) (op_loc : range) (e : env) : eres Z :=
  match o with
  | BLogOr | BLogAnd | BArith _ =>
      do l, e <- into_value_m m lhs e;
      do r, e <- into_value_m m rhs e;
      binary_result l r o op_loc e
  | BAssign =>
      do nl, e <- require_variable lhs op_loc e;
      do value, e <- into_value_m m rhs e;
      assign_m m (fst nl) value (snd nl) e
  | BCompound _ =>
      do nl, e <- require_variable lhs op_loc e;
      do l, e <- expand_variable_m m (fst nl) (snd nl) e;
      do r, e <- into_value_m m rhs e;
      do result, e <- binary_result l r o op_loc e;
      assign_m m (fst nl) result (snd nl) e
  end.

Fixpoint eval_m (m : mode) (f : nat) (a : list ast) (e : env) : eres term :=
  match f with
  | O => EFuel
  | S f =>
      match split_last a with
      | None => EPanic                (* expect("the expression should not be empty") *)
      | Some (root, children) =>
          match root with
          | ATerm t => EOk t e
          | APrefix o loc =>
              do t, e <- eval_m m f children e;
              do v, e <- apply_prefix_m m t o loc e;
              evalue v e
          | APostfix o loc =>
              do t, e <- eval_m m f children e;
              do v, e <- apply_postfix_m m t o loc e;
              evalue v e
          | ABinary BLogOr rhs_len loc =>
              match split_off children rhs_len with
              | None => EPanic
              | Some (lhs_ast, rhs_ast) =>
                  do lt, e <- eval_m m f lhs_ast e;
                  do lhs, e <- into_value_m m lt e;
                  if negb (lhs =? 0) then evalue 1 e
                  else
                    do rt, e <- eval_m m f rhs_ast e;
                    do rhs, e <- into_value_m m rt e;
                    do v, e <- binary_result lhs rhs BLogOr loc e;
                    evalue v e
              end
          | ABinary BLogAnd rhs_len loc =>
              match split_off children rhs_len with
              | None => EPanic
              | Some (lhs_ast, rhs_ast) =>
                  do lt, e <- eval_m m f lhs_ast e;
                  do lhs, e <- into_value_m m lt e;
                  if lhs =? 0 then evalue 0 e
                  else
                    do rt, e <- eval_m m f rhs_ast e;
                    do rhs, e <- into_value_m m rt e;
                    do v, e <- binary_result lhs rhs BLogAnd loc e;
                    evalue v e
              end
          | ABinary o rhs_len loc =>
              match split_off children rhs_len with
              | None => EPanic
              | Some (lhs_ast, rhs_ast) =>
                  do lhs, e <- eval_m m f lhs_ast e;
                  do rhs, e <- eval_m m f rhs_ast e;
                  do v, e <- apply_binary_m m lhs rhs o loc e;
                  evalue v e
              end
          | ACond then_len else_len =>
              match split_off children else_len with
              | None => EPanic
              | Some (children_2, else_ast) =>
                  match split_off children_2 then_len with
                  | None => EPanic
                  | Some (condition_ast, then_ast) =>
                      do ct, e <- eval_m m f condition_ast e;
                      do condition, e <- into_value_m m ct e;
                      if negb (condition =? 0) then eval_m m f then_ast e
                      else eval_m m f else_ast e
                  end
              end
          end
      end
  end.


(* yash_arith::eval(expression, &mut env) over such an environment *)
Definition run_mode (m : mode) (cls : N -> N) (expression : str) (e : env) : outcome :=
  match parse (tokens_of cls expression) with
  | PFuel => RFuel
  | PErr c loc => RErr (CSyntax c) loc e
  | POk a _ =>
      match (do t, e <- eval_m m (length a) a e; into_value_m m t e) with
      | EOk z e' => RVal z e'
      | EErr c loc e' => RErr (CEval c) loc e'
      | EPanic => RPanic
      | EFuel => RFuel
      end
  end.

(* ====================================================================== *)
(* yash-semantics expansion/initial/arith.rs: expand                       *)
(* ====================================================================== *)

(* The text of `$(( ))` as the shell's parser delivers it, restricted to literal
   characters, simple parameter expansions `$name` / `${name}` and nested
   arithmetic expansions. *)
Inductive tunit :=
| ULit (c : N)
| UParam (name : str)
| UArith (content : list tunit).

Inductive xres :=
| XOk (text : str) (e : env)      (* the expansion and the variables afterwards *)
| XErr (e : env)                  (* expansion error (the command is not run) *)
| XPanic.

(* expand_text, then eval_with_config on the result with VarEnv, then to_string *)
Definition arith_of_text (m : mode) (cls : N -> N) (r : xres) : xres :=
  match r with
  | XOk text e1 =>
      match run_mode m cls text e1 with
      | RVal z e2 => XOk (dec_of_Z z) e2
      | RErr _ _ e2 => XErr e2
      | RPanic | RFuel => XPanic
      end
  | r => r
  end.

Definition xappend (a : xres) (k : env -> xres) : xres :=
  match a with
  | XOk s e1 => match k e1 with XOk s' e2 => XOk (s ++ s') e2 | r => r end
  | r => r
  end.

Fixpoint expand_unit (m : mode) (cls : N -> N) (u : tunit) (e : env) : xres :=
  match u with
  | ULit c => XOk [c] e
  | UParam x =>
      match lookup x e with
      | Some v => XOk v e
      | None => if nounset m then XErr e else XOk [] e
      end
  | UArith us =>
      arith_of_text m cls
        ((fix go (us : list tunit) (e : env) : xres :=
            match us with
            | [] => XOk [] e
            | u :: r => xappend (expand_unit m cls u e) (go r)
            end) us e)
  end.

Fixpoint expand_units (m : mode) (cls : N -> N) (us : list tunit) (e : env) : xres :=
  match us with
  | [] => XOk [] e
  | u :: r => xappend (expand_unit m cls u e) (expand_units m cls r)
  end.

(* the arithmetic expansion `$(( us ))` *)
Definition shell_arith (m : mode) (cls : N -> N) (us : list tunit) (e : env) : xres :=
  arith_of_text m cls (expand_units m cls us e).
