(* C03 — proofs, part 10: reading a variable operand early or late (about the
   specification only). *)
From Yv Require Import Common.Base C03.Defs C03.Spec.
From Coq Require Import ZArith NArith Lia.
Local Open Scope Z_scope.

(* ---- reading a variable operand early or late ----------------------------------------------

   The specification reads a variable operand of a binary operator when the
   operator is applied (after both operands have been evaluated).  ISO C leaves
   `x + x++`, `(x = 1) + x`, `x += x++` undefined: the read of x and the side
   effect on x are unsequenced.  On every expression without such a conflict the
   late read is unobservable: the specification agrees with the semantics that
   converts each operand to its value as soon as it has been evaluated. *)

(* the variables an expression may evaluate to (as an lvalue) *)
Fixpoint lvals (x : expr) : list str :=
  match x with
  | EVar v => [v]
  | ECond _ a b => lvals a ++ lvals b
  | _ => []
  end.

(* the variables an expression may assign *)
Fixpoint writes (x : expr) : list str :=
  match x with
  | ENum _ | EVar _ => []
  | EPre o a => match o with PreInc | PreDec => lvals a | _ => [] end ++ writes a
  | EPost _ a => lvals a ++ writes a
  | EBin o a b =>
      match o with BAssign | BCompound _ => lvals a | _ => [] end ++ writes a ++ writes b
  | ECond c a b => writes c ++ writes a ++ writes b
  end.

Definition disjoint (l1 l2 : list str) : Prop := forall v, In v l1 -> In v l2 -> False.

(* no variable is read as the left operand of a strict binary operator and
   assigned by the right operand *)
Fixpoint sequenced (x : expr) : Prop :=
  match x with
  | ENum _ | EVar _ => True
  | EPre _ a | EPost _ a => sequenced a
  | EBin o a b =>
      sequenced a /\ sequenced b /\
      match o with
      | BArith _ | BCompound _ => disjoint (lvals a) (writes b)
      | _ => True
      end
  | ECond c a b => sequenced c /\ sequenced a /\ sequenced b
  end.

(* each operand is converted to its value as soon as it has been evaluated *)
Fixpoint den_eager (x : expr) (e : env) : option (sterm * env) :=
  match x with
  | ENum z => Some (SNumT z, e)
  | EVar v => Some (SVarT v, e)
  | EPre o a => let* (t, e) := den_eager a e in den_prefix o t e
  | EPost o a => let* (t, e) := den_eager a e in den_postfix o t e
  | EBin BLogOr a b =>
      let* (ta, e) := den_eager a e in let* na := rvalue ta e in
      if negb (na =? 0) then Some (SNumT 1, e)
      else let* (tb, e) := den_eager b e in let* nb := rvalue tb e in
           Some (SNumT (b2z (negb (nb =? 0))), e)
  | EBin BLogAnd a b =>
      let* (ta, e) := den_eager a e in let* na := rvalue ta e in
      if na =? 0 then Some (SNumT 0, e)
      else let* (tb, e) := den_eager b e in let* nb := rvalue tb e in
           Some (SNumT (b2z (negb (nb =? 0))), e)
  | EBin (BArith o) a b =>
      let* (ta, e) := den_eager a e in let* na := rvalue ta e in
      let* (tb, e) := den_eager b e in let* nb := rvalue tb e in
      let* r := arith o na nb in Some (SNumT r, e)
  | EBin BAssign a b =>
      let* (ta, e) := den_eager a e in let* (tb, e) := den_eager b e in
      den_binary BAssign ta tb e
  | EBin (BCompound o) a b =>
      let* (ta, e) := den_eager a e in let* v := lvalue ta in let* na := rvalue ta e in
      let* (tb, e) := den_eager b e in let* nb := rvalue tb e in
      let* r := arith o na nb in Some (SNumT r, store v r e)
  | ECond c a b =>
      let* (tc, e) := den_eager c e in let* nc := rvalue tc e in
      if negb (nc =? 0) then den_eager a e else den_eager b e
  end.

Lemma lookup_set_other x y v e : x <> y -> lookup y (set_var x v e) = lookup y e.
Proof.
  intros Hxy. induction e as [|[k w] e IH]; cbn [set_var lookup].
  - destruct (str_eqb y x) eqn:E; [apply str_eqb_eq in E; congruence|reflexivity].
  - destruct (str_eqb x k) eqn:E1; cbn [lookup].
    + apply str_eqb_eq in E1. subst k.
      destruct (str_eqb y x) eqn:E2; [apply str_eqb_eq in E2; congruence|reflexivity].
    + destruct (str_eqb y k); [reflexivity|exact IH].
Qed.

(* what an expression evaluates to is one of its lvals *)
Lemma den_lvals x e t e' v : den x e = Some (t, e') -> lvalue t = Some v -> In v (lvals x).
Proof.
  revert e t e'. induction x as [z|w|o a IHa|o a IHa|o a IHa b IHb|c IHc a IHa b IHb]; intros e t e' H Hl.
  - injection H as <- <-. discriminate.
  - injection H as <- <-. injection Hl as <-. now left.
  - cbn [den] in H. destruct (den a e) as [[ta e1]|]; [|discriminate]. cbn [obind] in H.
    exfalso. destruct o; cbn [den_prefix] in H;
      repeat match type of H with
             | obind ?m _ = _ => destruct m; cbn [obind] in H; [|discriminate]
             end; injection H as <- <-; discriminate.
  - cbn [den] in H. destruct (den a e) as [[ta e1]|]; [|discriminate]. cbn [obind] in H.
    exfalso. unfold den_postfix in H.
    repeat match type of H with
           | obind ?m _ = _ => destruct m; cbn [obind] in H; [|discriminate]
           end. injection H as <- <-. discriminate.
  - exfalso. destruct o as [| |o| |o]; cbn [den] in H;
      repeat match type of H with
             | obind ?m _ = _ => destruct m as [[? ?]|] eqn:?; cbn [obind] in H; [|discriminate]
             | obind ?m _ = _ => destruct m eqn:?; cbn [obind] in H; [|discriminate]
             | (if ?c then _ else _) = _ => destruct c
             | den_binary _ _ _ _ = _ => unfold den_binary in H
             end; try (injection H as <- <-; discriminate).
  - cbn [den] in H. destruct (den c e) as [[tc e1]|]; [|discriminate]. cbn [obind] in H.
    destruct (rvalue tc e1); [|discriminate]. cbn [obind] in H. cbn [lvals]. apply in_or_app.
    destruct (negb (z =? 0)); [left; eapply IHa; eauto|right; eapply IHb; eauto].
Qed.

Lemma store_other v y r e : v <> y -> lookup y (store v r e) = lookup y e.
Proof. apply lookup_set_other. Qed.

(* an evaluation changes only variables the expression may assign *)
Lemma den_frame x : forall e t e' y,
  den x e = Some (t, e') -> ~ In y (writes x) -> lookup y e' = lookup y e.
Proof.
  induction x as [z|w|o a IHa|o a IHa|o a IHa b IHb|c IHc a IHa b IHb]; intros e t e' y H Hy.
  - now injection H as <- <-.
  - now injection H as <- <-.
  - cbn [den] in H. destruct (den a e) as [[ta e1]|] eqn:Ea; [|discriminate]. cbn [obind] in H.
    cbn [writes] in Hy. rewrite in_app_iff in Hy.
    assert (H1 : lookup y e1 = lookup y e) by (eapply IHa; eauto).
    destruct o; cbn [den_prefix] in H;
      repeat match type of H with
             | obind ?m _ = _ => destruct m eqn:?; cbn [obind] in H; [|discriminate]
             end; injection H as <- <-; try exact H1;
      (rewrite store_other; [exact H1|]; intros ->; apply Hy; left; eapply den_lvals; eauto).
  - cbn [den] in H. destruct (den a e) as [[ta e1]|] eqn:Ea; [|discriminate]. cbn [obind] in H.
    cbn [writes] in Hy. rewrite in_app_iff in Hy.
    assert (H1 : lookup y e1 = lookup y e) by (eapply IHa; eauto).
    unfold den_postfix in H.
    repeat match type of H with
           | obind ?m _ = _ => destruct m eqn:?; cbn [obind] in H; [|discriminate]
           end. injection H as <- <-.
    rewrite store_other; [exact H1|]. intros ->. apply Hy. left. eapply den_lvals; eauto.
  - cbn [writes] in Hy. rewrite !in_app_iff in Hy.
    destruct o as [| |o| |o]; cbn [den] in H.
    + destruct (den a e) as [[ta e1]|] eqn:Ea; [|discriminate]. cbn [obind] in H.
      assert (H1 : lookup y e1 = lookup y e) by (eapply IHa; eauto).
      destruct (rvalue ta e1); [|discriminate]. cbn [obind] in H.
      destruct (negb (z =? 0)); [now injection H as <- <-|].
      destruct (den b e1) as [[tb e2]|] eqn:Eb; [|discriminate]. cbn [obind] in H.
      destruct (rvalue tb e2); [|discriminate]. cbn [obind] in H. injection H as <- <-.
      rewrite <- H1. eapply IHb; eauto.
    + destruct (den a e) as [[ta e1]|] eqn:Ea; [|discriminate]. cbn [obind] in H.
      assert (H1 : lookup y e1 = lookup y e) by (eapply IHa; eauto).
      destruct (rvalue ta e1); [|discriminate]. cbn [obind] in H.
      destruct (z =? 0); [now injection H as <- <-|].
      destruct (den b e1) as [[tb e2]|] eqn:Eb; [|discriminate]. cbn [obind] in H.
      destruct (rvalue tb e2); [|discriminate]. cbn [obind] in H. injection H as <- <-.
      rewrite <- H1. eapply IHb; eauto.
    + destruct (den a e) as [[ta e1]|] eqn:Ea; [|discriminate]. cbn [obind] in H.
      destruct (den b e1) as [[tb e2]|] eqn:Eb; [|discriminate]. cbn [obind den_binary] in H.
      repeat match type of H with
             | obind ?m _ = _ => destruct m eqn:?; cbn [obind] in H; [|discriminate]
             end. injection H as <- <-.
      transitivity (lookup y e1); [eapply IHb; eauto|eapply IHa; eauto].
    + destruct (den a e) as [[ta e1]|] eqn:Ea; [|discriminate]. cbn [obind] in H.
      destruct (den b e1) as [[tb e2]|] eqn:Eb; [|discriminate]. cbn [obind den_binary] in H.
      repeat match type of H with
             | obind ?m _ = _ => destruct m eqn:?; cbn [obind] in H; [|discriminate]
             end. injection H as <- <-.
      rewrite store_other.
      * transitivity (lookup y e1); [eapply IHb; eauto|eapply IHa; eauto].
      * intros ->. apply Hy. left. eapply den_lvals; eauto.
    + destruct (den a e) as [[ta e1]|] eqn:Ea; [|discriminate]. cbn [obind] in H.
      destruct (den b e1) as [[tb e2]|] eqn:Eb; [|discriminate]. cbn [obind den_binary] in H.
      repeat match type of H with
             | obind ?m _ = _ => destruct m eqn:?; cbn [obind] in H; [|discriminate]
             end. injection H as <- <-.
      rewrite store_other.
      * transitivity (lookup y e1); [eapply IHb; eauto|eapply IHa; eauto].
      * intros ->. apply Hy. left. eapply den_lvals; eauto.
  - cbn [writes] in Hy. rewrite !in_app_iff in Hy. cbn [den] in H.
    destruct (den c e) as [[tc e1]|] eqn:Ec; [|discriminate]. cbn [obind] in H.
    assert (H1 : lookup y e1 = lookup y e) by (eapply IHc; eauto).
    destruct (rvalue tc e1); [|discriminate]. cbn [obind] in H.
    rewrite <- H1. destruct (negb (z =? 0)); [eapply IHa|eapply IHb]; eauto.
Qed.

Lemma rvalue_frame t e e' :
  (forall v, lvalue t = Some v -> lookup v e' = lookup v e) -> rvalue t e' = rvalue t e.
Proof.
  destruct t as [z|v]; [reflexivity|]. intros H. cbn [rvalue]. now rewrite (H v eq_refl).
Qed.

(* on expressions without an unsequenced read/write conflict the time at which a
   variable operand is read does not matter *)
Theorem late_read_unobservable x : sequenced x -> forall e, den_eager x e = den x e.
Proof.
  induction x as [z|w|o a IHa|o a IHa|o a IHa b IHb|c IHc a IHa b IHb]; intros Hs e.
  - reflexivity.
  - reflexivity.
  - cbn [den_eager den]. now rewrite IHa.
  - cbn [den_eager den]. now rewrite IHa.
  - destruct Hs as [Hsa [Hsb Hd]].
    destruct o as [| |o| |o]; cbn [den_eager den]; rewrite IHa by assumption.
    + destruct (den a e) as [[ta e1]|]; [|reflexivity]. cbn [obind].
      destruct (rvalue ta e1); [|reflexivity]. cbn [obind].
      destruct (negb (z =? 0)); [reflexivity|]. now rewrite IHb.
    + destruct (den a e) as [[ta e1]|]; [|reflexivity]. cbn [obind].
      destruct (rvalue ta e1); [|reflexivity]. cbn [obind].
      destruct (z =? 0); [reflexivity|]. now rewrite IHb.
    + destruct (den a e) as [[ta e1]|] eqn:Ea; [|reflexivity]. cbn [obind].
      rewrite IHb by assumption.
      destruct (den b e1) as [[tb e2]|] eqn:Eb; cbn [obind den_binary].
      * assert (Hr : rvalue ta e2 = rvalue ta e1).
        { apply rvalue_frame. intros v Hv. eapply den_frame; [exact Eb|].
          intros Hin. eapply Hd; [eapply den_lvals; eauto|exact Hin]. }
        rewrite Hr. destruct (rvalue ta e1); reflexivity.
      * destruct (rvalue ta e1); reflexivity.
    + destruct (den a e) as [[ta e1]|]; [|reflexivity]. cbn [obind]. now rewrite IHb.
    + destruct (den a e) as [[ta e1]|] eqn:Ea; [|reflexivity]. cbn [obind].
      rewrite IHb by assumption.
      destruct (den b e1) as [[tb e2]|] eqn:Eb; cbn [obind den_binary].
      * assert (Hr : rvalue ta e2 = rvalue ta e1).
        { apply rvalue_frame. intros v Hv. eapply den_frame; [exact Eb|].
          intros Hin. eapply Hd; [eapply den_lvals; eauto|exact Hin]. }
        rewrite Hr. destruct (lvalue ta); cbn [obind]; [|reflexivity].
        destruct (rvalue ta e1); reflexivity.
      * destruct (lvalue ta); cbn [obind]; [|reflexivity]. destruct (rvalue ta e1); reflexivity.
  - destruct Hs as [Hsc [Hsa Hsb]]. cbn [den_eager den]. rewrite IHc by assumption.
    destruct (den c e) as [[tc e1]|]; [|reflexivity]. cbn [obind].
    destruct (rvalue tc e1); [|reflexivity]. cbn [obind].
    destruct (negb (z =? 0)); [now apply IHa|now apply IHb].
Qed.

(* the condition is not vacuous, and it is needed *)
Example sequenced_example :
  let x := [120%N] in
  sequenced (EBin (BArith AAdd) (EVar x) (EBin BAssign (EVar [121%N]) (ENum 3))) /\
  ~ sequenced (EBin (BArith AAdd) (EVar x) (EPost PostInc (EVar x))) /\
  den_eager (EBin (BArith AAdd) (EVar x) (EPost PostInc (EVar x))) [] <>
  den (EBin (BArith AAdd) (EVar x) (EPost PostInc (EVar x))) [].
Proof.
  cbv zeta. split; [|split].
  - cbn. repeat split; auto. intros v [<-|[]] [E|[]]. discriminate.
  - cbn. intros [_ [_ H]]. apply (H [120%N]); now left.
  - vm_compute. discriminate.
Qed.
