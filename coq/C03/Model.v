(* C03 — MODEL: executable re-statement of yash-arith
     token.rs  (Tokens::next_token, OPERATORS)
     ast.rs    (parse_leaf / parse_postfix / parse_close_paren / parse_tree /
                parse_binary_rhs / parse_end_of_input / parse, Operator::precedence,
                as_prefix / as_postfix / as_binary)
     eval.rs   (parse_integer, expand_variable, into_value, apply_prefix,
                apply_postfix, binary_result, apply_binary, eval)
     lib.rs    (eval = eval_with_config with the default Config)
   Same case splits, same order of effects, same error causes and locations.
   Values of type i64 are integers in Z that are always inside the 64-bit
   range; Rust's checked_* operations are "compute in Z, then range check",
   except where the code itself plays with the representation ([<<]). *)
From Yv Require Import Common.Base C03.Defs.
Local Open Scope N_scope.

(* ====================================================================== *)
(* token.rs                                                               *)
(* ====================================================================== *)

Inductive term :=
| TValue (z : Z)
| TVariable (name : str) (loc : range).

Inductive tokval := TkTerm (t : term) | TkOp (o : oper).

Inductive tokerr := InvalidNumericConstant | InvalidCharacter.

(* const OPERATORS, in table order *)
Definition operators : list (str * oper) :=
  map (fun o => (lexeme o, o))
    [ OQuestion; OColon; OBarEqual; OBarBar; OBar; OCaretEqual; OCaret;
      OAndEqual; OAndAnd; OAnd; OEqualEqual; OEqual; OBangEqual;
      OLessEqual; OLessLessEqual; OLessLess; OLess;
      OGreaterEqual; OGreaterGreaterEqual; OGreaterGreater; OGreater;
      OPlusEqual; OPlusPlus; OPlus; OMinusEqual; OMinusMinus; OMinus;
      OAsteriskEqual; OAsterisk; OSlashEqual; OSlash; OPercentEqual; OPercent;
      OTilde; OBang; OOpenParen; OCloseParen ].

(* "0X", "0x", "0", "-", "+" *)
Definition lit_0X : str := [48; 88].
Definition lit_0x : str := [48; 120].
Definition lit_0 : str := [48].
Definition lit_minus : str := [45].
Definition lit_plus : str := [43].

(* str::starts_with / strip_prefix *)
Fixpoint strip_prefix (p s : str) : option str :=
  match p, s with
  | [], _ => Some s
  | a :: p', b :: s' => if a =? b then strip_prefix p' s' else None
  | _ :: _, [] => None
  end.

Definition starts_with (p s : str) : bool :=
  match strip_prefix p s with Some _ => true | None => false end.

(* OPERATORS.iter().find(|(lexeme, _)| source.starts_with(lexeme)) *)
Fixpoint find_operator (tbl : list (str * oper)) (s : str) : option (str * oper * str) :=
  match tbl with
  | [] => None
  | (lx, o) :: tbl' =>
      match strip_prefix lx s with
      | Some rest => Some (lx, o, rest)
      | None => find_operator tbl' s
      end
  end.

(* str::trim_start: returns the rest and the number of bytes dropped *)
Fixpoint trim_start (cls : N -> N) (s : str) : str * N :=
  match s with
  | c :: r => if is_ws cls c then let '(s', n) := trim_start cls r in (s', utf8_len c + n)
              else (s, 0)
  | [] => ([], 0)
  end.

(* the maximal prefix whose characters satisfy p, and the rest *)
Fixpoint span (p : N -> bool) (s : str) : str * str :=
  match s with
  | c :: r => if p c then let '(a, b) := span p r in (c :: a, b) else ([], s)
  | [] => ([], [])
  end.

(* char::to_digit(radix) *)
Definition to_digit (radix c : N) : option N :=
  let d := if ascii_digit c then Some (c - 48)
           else if ascii_lower c then Some (c - 97 + 10)
           else if ascii_upper c then Some (c - 65 + 10)
           else None in
  match d with
  | Some d => if d <? radix then Some d else None
  | None => None
  end.

Fixpoint digits_value (radix : N) (acc : N) (s : str) : option N :=
  match s with
  | [] => Some acc
  | c :: r => match to_digit radix c with
              | Some d => digits_value radix (acc * radix + d) r
              | None => None
              end
  end.

(* i64::from_str_radix: optional sign, at least one digit, no overflow *)
Definition from_str_radix (s : str) (radix : N) : option Z :=
  match s with
  | [] => None
  | c :: r =>
      let '(neg, ds) := if c =? 45 then (true, r) else if c =? 43 then (false, r)
                        else (false, s) in
      match ds with
      | [] => None
      | _ => match digits_value radix 0 ds with
             | None => None
             | Some m => let v := if neg then (- Z.of_N m)%Z else Z.of_N m in
                         if in_i64 v then Some v else None
             end
      end
  end.

(* the radix rule of an integer constant token *)
Definition parse_constant (tok : str) : option Z :=
  match strip_prefix lit_0X tok with
  | Some ds => from_str_radix ds 16
  | None =>
      match strip_prefix lit_0x tok with
      | Some ds => from_str_radix ds 16
      | None => if starts_with lit_0 tok then from_str_radix tok 8
                else from_str_radix tok 10
      end
  end.

Inductive tokres :=
| TRok (v : tokval) (loc : range) (rest : str) (idx : N)
| TRend (loc : range)
| TRerr (e : tokerr) (loc : range).

(* Tokens::next_token on the state (remaining text, byte index of its start) *)
Definition next_token (cls : N -> N) (src : str) (idx : N) : tokres :=
  let '(source, dropped) := trim_start cls src in
  let start := idx + dropped in
  match source with
  | [] => TRend (start, start)
  | first_char :: _ =>
      match find_operator operators source with
      | Some (lx, o, rest) =>
          let e := start + utf8_bytes lx in
          TRok (TkOp o) (start, e) rest e
      | None =>
          let '(token, remainder) := span (is_word cls) source in
          let token_len := utf8_bytes token in
          if token_len =? 0 then TRerr InvalidCharacter (start, start + 1)
          else
            let e := start + token_len in
            if ascii_digit first_char then
              match parse_constant token with
              | Some z => TRok (TkTerm (TValue z)) (start, e) remainder e
              | None => TRerr InvalidNumericConstant (start, e)
              end
            else TRok (TkTerm (TVariable token (start, e))) (start, e) remainder e
      end
  end.

(* The token stream the parser pulls from: the tokens up to the end of input
   or the first tokenizer error, which is returned again on every later call
   (the tokenizer does not advance on either). *)
Inductive fin :=
| FEnd (loc : range)
| FErr (e : tokerr) (loc : range)
| FFuel.

Definition stream := (list (tokval * range) * fin)%type.

Fixpoint tokenize (fuel : nat) (cls : N -> N) (src : str) (idx : N) : stream :=
  match fuel with
  | O => ([], FFuel)
  | S f =>
      match next_token cls src idx with
      | TRok v loc rest idx' =>
          let '(ts, fi) := tokenize f cls rest idx' in ((v, loc) :: ts, fi)
      | TRend loc => ([], FEnd loc)
      | TRerr e loc => ([], FErr e loc)
      end
  end.

Definition tokens_of (cls : N -> N) (s : str) : stream :=
  tokenize (S (length s)) cls s 0.

(* ====================================================================== *)
(* ast.rs                                                                 *)
(* ====================================================================== *)

Definition as_prefix (o : oper) : option preop :=
  match o with
  | OPlusPlus => Some PreInc
  | OMinusMinus => Some PreDec
  | OPlus => Some PrePlus
  | OMinus => Some PreNeg
  | OBang => Some PreNot
  | OTilde => Some PreBitNot
  | _ => None
  end.

Definition as_postfix (o : oper) : option postop :=
  match o with
  | OPlusPlus => Some PostInc
  | OMinusMinus => Some PostDec
  | _ => None
  end.

Inductive assoc := Left | Right.

Definition as_binary (o : oper) : option (binop * assoc) :=
  match o with
  | OEqual => Some (BAssign, Right)
  | OBarEqual => Some (BCompound AOr, Right)
  | OCaretEqual => Some (BCompound AXor, Right)
  | OAndEqual => Some (BCompound AAnd, Right)
  | OLessLessEqual => Some (BCompound AShl, Right)
  | OGreaterGreaterEqual => Some (BCompound AShr, Right)
  | OPlusEqual => Some (BCompound AAdd, Right)
  | OMinusEqual => Some (BCompound ASub, Right)
  | OAsteriskEqual => Some (BCompound AMul, Right)
  | OSlashEqual => Some (BCompound ADiv, Right)
  | OPercentEqual => Some (BCompound ARem, Right)
  | OBarBar => Some (BLogOr, Left)
  | OAndAnd => Some (BLogAnd, Left)
  | OBar => Some (BArith AOr, Left)
  | OCaret => Some (BArith AXor, Left)
  | OAnd => Some (BArith AAnd, Left)
  | OEqualEqual => Some (BArith AEq, Left)
  | OBangEqual => Some (BArith ANe, Left)
  | OLess => Some (BArith ALt, Left)
  | OLessEqual => Some (BArith ALe, Left)
  | OGreater => Some (BArith AGt, Left)
  | OGreaterEqual => Some (BArith AGe, Left)
  | OLessLess => Some (BArith AShl, Left)
  | OGreaterGreater => Some (BArith AShr, Left)
  | OPlus => Some (BArith AAdd, Left)
  | OMinus => Some (BArith ASub, Left)
  | OAsterisk => Some (BArith AMul, Left)
  | OSlash => Some (BArith ADiv, Left)
  | OPercent => Some (BArith ARem, Left)
  | _ => None
  end.

Definition precedence (o : oper) : N :=
  match o with
  | OCloseParen | OColon => 0
  | OEqual | OBarEqual | OCaretEqual | OAndEqual | OLessLessEqual | OGreaterGreaterEqual
  | OPlusEqual | OMinusEqual | OAsteriskEqual | OSlashEqual | OPercentEqual => 1
  | OQuestion => 2
  | OBarBar => 3
  | OAndAnd => 4
  | OBar => 5
  | OCaret => 6
  | OAnd => 7
  | OEqualEqual | OBangEqual => 8
  | OLess | OLessEqual | OGreater | OGreaterEqual => 9
  | OLessLess | OGreaterGreater => 10
  | OPlus | OMinus => 11
  | OAsterisk | OSlash | OPercent => 12
  | OTilde | OBang | OPlusPlus | OMinusMinus | OOpenParen => 13
  end.

(* Node of the reverse-Polish vector *)
Inductive ast :=
| ATerm (t : term)
| APrefix (o : preop) (loc : range)
| APostfix (o : postop) (loc : range)
| ABinary (o : binop) (rhs_len : nat) (loc : range)
| ACond (then_len else_len : nat).

Inductive synerr :=
| SETok (e : tokerr)
| IncompleteExpression
| MissingOperator
| UnclosedParenthesis (opening : range)
| QuestionWithoutColon (question : range)
| ColonWithoutQuestion
| InvalidOperator.

(* what PeekableTokens::next / peek return *)
Inductive tk := KTerm (t : term) | KOp (o : oper) | KEnd | KErr (e : tokerr).

Definition next (st : stream) : tk * range * stream :=
  match st with
  | ((TkTerm t, loc) :: r, fi) => (KTerm t, loc, (r, fi))
  | ((TkOp o, loc) :: r, fi) => (KOp o, loc, (r, fi))
  | ([], FEnd loc) => (KEnd, loc, st)
  | ([], FErr e loc) => (KErr e, loc, st)
  | ([], FFuel) => (KEnd, (0, 0), st)
  end.

(* `while let &Ok(Token { value: Operator(operator), .. }) = tokens.peek()` *)
Definition peek_op (st : stream) : option (oper * range * stream) :=
  match st with
  | ((TkOp o, loc) :: r, fi) => Some (o, loc, (r, fi))
  | _ => None
  end.

(* parse_postfix: nodes pushed, remaining tokens *)
Fixpoint parse_postfix_l (ts : list (tokval * range)) : list ast * list (tokval * range) :=
  match ts with
  | (TkOp o, loc) :: r =>
      match as_postfix o with
      | Some p => let '(ns, r') := parse_postfix_l r in (APostfix p loc :: ns, r')
      | None => ([], ts)
      end
  | _ => ([], ts)
  end.

Definition parse_postfix (st : stream) : list ast * stream :=
  let '(ns, r) := parse_postfix_l (fst st) in (ns, (r, snd st)).

Definition parse_close_paren (st : stream) (opening : range) : stream + synerr * range :=
  let '(k, loc, st') := next st in
  match k with
  | KErr e => inr (SETok e, loc)
  | KOp OCloseParen => inl st'
  | KOp OColon => inr (ColonWithoutQuestion, loc)
  | _ => inr (UnclosedParenthesis opening, loc)
  end.

(* Result of a parsing function: the nodes it pushed onto `result` and the
   remaining tokens, or the error. *)
Inductive pres :=
| POk (nodes : list ast) (rest : stream)
| PErr (e : synerr) (loc : range)
| PFuel.

(* parse_leaf, parse_tree and the `while let` loop of parse_tree ([acc] = the
   nodes pushed since parse_tree was entered; parse_binary_rhs is inlined:
   rhs_len = result.len() - old_len = number of nodes pushed by the operand). *)
Fixpoint parse_leaf (f : nat) (st : stream) : pres :=
  match f with
  | O => PFuel
  | S f =>
      let '(k, loc, st1) := next st in
      match k with
      | KErr e => PErr (SETok e) loc
      | KTerm t => let '(ps, st2) := parse_postfix st1 in POk (ATerm t :: ps) st2
      | KOp OOpenParen =>
          match parse_tree f 1 st1 with
          | POk ns st2 =>
              match parse_close_paren st2 loc with
              | inl st3 => let '(ps, st4) := parse_postfix st3 in POk (ns ++ ps) st4
              | inr (e, l) => PErr e l
              end
          | r => r
          end
      | KOp o =>
          match as_prefix o with
          | None => PErr InvalidOperator loc
          | Some p =>
              match parse_leaf f st1 with
              | POk ns st2 => POk (ns ++ [APrefix p loc]) st2
              | r => r
              end
          end
      | KEnd => PErr IncompleteExpression loc
      end
  end
with parse_tree (f : nat) (min_precedence : N) (st : stream) : pres :=
  match f with
  | O => PFuel
  | S f =>
      match parse_leaf f st with
      | POk ns st1 => parse_loop f min_precedence ns st1
      | r => r
      end
  end
with parse_loop (f : nat) (min_precedence : N) (acc : list ast) (st : stream) : pres :=
  match f with
  | O => PFuel
  | S f =>
      match peek_op st with
      | None => POk acc st
      | Some (o, loc, st1) =>
          let p := precedence o in
          if p <? min_precedence then POk acc st
          else
            match o with
            | OQuestion =>
                match parse_tree f 1 st1 with
                | POk nt st2 =>
                    let '(k, cl, st3) := next st2 in
                    match k with
                    | KErr e => PErr (SETok e) cl
                    | KOp OColon =>
                        match parse_tree f p st3 with
                        | POk ne st4 =>
                            parse_loop f min_precedence
                              (acc ++ nt ++ ne ++ [ACond (length nt) (length ne)]) st4
                        | r => r
                        end
                    | _ => PErr (QuestionWithoutColon loc) cl
                    end
                | r => r
                end
            | _ =>
                match as_binary o with
                | None => PErr InvalidOperator loc
                | Some (b, a) =>
                    let rhs_precedence := match a with Left => p + 1 | Right => p end in
                    match parse_tree f rhs_precedence st1 with
                    | POk nr st2 =>
                        parse_loop f min_precedence
                          (acc ++ nr ++ [ABinary b (length nr) loc]) st2
                    | r => r
                    end
                end
            end
      end
  end.

Definition parse_end_of_input (st : stream) : option (synerr * range) :=
  let '(k, loc, _) := next st in
  match k with
  | KErr e => Some (SETok e, loc)
  | KEnd => None
  | KOp OColon => Some (ColonWithoutQuestion, loc)
  | _ => Some (MissingOperator, loc)
  end.

Definition parse_fuel (st : stream) : nat := 2 * length (fst st) + 4.

(* ast::parse *)
Definition parse (st : stream) : pres :=
  match parse_tree (parse_fuel st) 1 st with
  | POk ns st1 =>
      match parse_end_of_input st1 with
      | None => POk ns st1
      | Some (e, loc) => PErr e loc
      end
  | r => r
  end.

(* ====================================================================== *)
(* eval.rs                                                                *)
(* ====================================================================== *)

Local Open Scope Z_scope.

Inductive everr :=
| InvalidVariableValue (v : str)
| Overflow
| DivisionByZero
| LeftShiftingNegative
| ReverseShifting
| AssignmentToValue
| UnsetVariable (name : str)        (* GetVariableError of the shell's environment *)
| AssignReadOnly (name : str).      (* AssignVariableError of the shell's environment *)

(* fn parse_integer(value: &str) -> Option<i64> *)
Definition parse_integer (value : str) : option Z :=
  let '(neg, magnitude) :=
    match strip_prefix lit_minus value with
    | Some m => (true, m)
    | None => (false, match strip_prefix lit_plus value with Some m => m | None => value end)
    end in
  let '(digits, radix) :=
    match strip_prefix lit_0x magnitude with
    | Some d => (d, 16%N)
    | None =>
        match strip_prefix lit_0X magnitude with
        | Some d => (d, 16%N)
        | None => if starts_with lit_0 magnitude then (magnitude, 8%N) else (magnitude, 10%N)
        end
    end in
  if starts_with lit_plus digits || starts_with lit_minus digits then None
  else from_str_radix ((if neg then lit_minus else []) ++ digits) radix.

(* Outcome of an evaluation step: the variables are a `&mut` map, so they
   keep the assignments made before an error. *)
Inductive eres (A : Type) :=
| EOk (a : A) (e : env)
| EErr (c : everr) (loc : range) (e : env)
| EPanic
| EFuel.
Arguments EOk {A}. Arguments EErr {A}. Arguments EPanic {A}. Arguments EFuel {A}.

Definition ebind {A B} (m : eres A) (k : A -> env -> eres B) : eres B :=
  match m with
  | EOk a e => k a e
  | EErr c l e => EErr c l e
  | EPanic => EPanic
  | EFuel => EFuel
  end.

Notation "'do' x , e <- m ; k" := (ebind m (fun x e => k))
  (at level 200, x pattern, e name, m at level 100, k at level 200).

Definition expand_variable (name : str) (loc : range) (e : env) : eres Z :=
  match lookup name e with
  | None => EOk 0 e
  | Some v =>
      match parse_integer v with
      | Some n => EOk n e
      | None => EErr (InvalidVariableValue v) loc e
      end
  end.

Definition into_value (t : term) (e : env) : eres Z :=
  match t with
  | TValue z => EOk z e
  | TVariable name loc => expand_variable name loc e
  end.

Definition require_variable (t : term) (op_loc : range) (e : env) : eres (str * range) :=
  match t with
  | TVariable name loc => EOk (name, loc) e
  | TValue _ => EErr AssignmentToValue op_loc e
  end.

(* Option<i64> of a checked_* operation, then unwrap_or_overflow *)
Definition checked (z : Z) : option Z := if in_i64 z then Some z else None.

Definition unwrap_or_overflow (r : option Z) (loc : range) (e : env) : eres Z :=
  match r with
  | Some z => EOk z e
  | None => EErr Overflow loc e
  end.

(* env.assign_variable(name, value.to_string(), ..) on the HashMap: cannot fail *)
Definition assign (name : str) (value : Z) (e : env) : eres Z :=
  EOk value (set_var name (dec_of_Z value) e).

Definition apply_prefix (t : term) (o : preop) (op_loc : range) (e : env) : eres Z :=
  match o with
  | PreInc =>
      do nl, e <- require_variable t op_loc e;
      do value, e <- expand_variable (fst nl) (snd nl) e;
      do nv, e <- unwrap_or_overflow (checked (value + 1)) op_loc e;
      assign (fst nl) nv e
  | PreDec =>
      do nl, e <- require_variable t op_loc e;
      do value, e <- expand_variable (fst nl) (snd nl) e;
      do nv, e <- unwrap_or_overflow (checked (value - 1)) op_loc e;
      assign (fst nl) nv e
  | PrePlus => into_value t e
  | PreNeg =>
      do value, e <- into_value t e;
      unwrap_or_overflow (checked (- value)) op_loc e
  | PreNot =>
      do value, e <- into_value t e;
      EOk (b2z (value =? 0)) e
  | PreBitNot =>
      do value, e <- into_value t e;
      EOk (Z.lnot value) e
  end.

Definition apply_postfix (t : term) (o : postop) (op_loc : range) (e : env) : eres Z :=
  do nl, e <- require_variable t op_loc e;
  do value, e <- expand_variable (fst nl) (snd nl) e;
  let result := match o with
                | PostInc => checked (value + 1)
                | PostDec => checked (value - 1)
                end in
  do nv, e <- unwrap_or_overflow result op_loc e;
  do _, e <- assign (fst nl) nv e;
  EOk value e.

(* the value of the i64 whose 64 bits are those of z (wrapping) *)
Definition wrap64 (z : Z) : Z := (z + 2 ^ 63) mod 2 ^ 64 - 2 ^ 63.

(* result of a binary operation on two values, or the error cause *)
Definition arith_result (a : aop) (lhs rhs : Z) : Z + everr :=
  let of_opt (r : option Z) : Z + everr :=
    match r with Some z => inl z | None => inr Overflow end in
  (* require_non_negative: v.try_into::<u32>() *)
  let require_non_negative (v : Z) : Z + everr :=
    if v <? 0 then inr ReverseShifting
    else if 4294967295 <? v then inr Overflow else inl v in
  match a with
  | AOr => inl (Z.lor lhs rhs)
  | AXor => inl (Z.lxor lhs rhs)
  | AAnd => inl (Z.land lhs rhs)
  | AEq => inl (b2z (lhs =? rhs))
  | ANe => inl (b2z (negb (lhs =? rhs)))
  | ALt => inl (b2z (lhs <? rhs))
  | AGt => inl (b2z (rhs <? lhs))
  | ALe => inl (b2z (lhs <=? rhs))
  | AGe => inl (b2z (rhs <=? lhs))
  | AShl =>
      if lhs <? 0 then inr LeftShiftingNegative
      else
        match require_non_negative rhs with
        | inr c => inr c
        | inl rhs =>
            (* lhs.checked_shl(rhs).filter(|&r| r >= 0 && r >> rhs == lhs) *)
            if 64 <=? rhs then inr Overflow
            else
              let result := wrap64 (Z.shiftl lhs rhs) in
              if (0 <=? result) && (Z.shiftr result rhs =? lhs) then inl result
              else inr Overflow
        end
  | AShr =>
      match require_non_negative rhs with
      | inr c => inr c
      | inl rhs => if 64 <=? rhs then inr Overflow else inl (Z.shiftr lhs rhs)
      end
  | AAdd => of_opt (checked (lhs + rhs))
  | ASub => of_opt (checked (lhs - rhs))
  | AMul => of_opt (checked (lhs * rhs))
  | ADiv =>
      if rhs =? 0 then inr DivisionByZero
      else if (lhs =? i64_min) && (rhs =? -1) then inr Overflow   (* checked_div *)
      else inl (Z.quot lhs rhs)
  | ARem =>
      if rhs =? 0 then inr DivisionByZero
      else if (lhs =? i64_min) && (rhs =? -1) then inr Overflow   (* checked_rem *)
      else inl (Z.rem lhs rhs)
  end.

Definition binary_result (lhs rhs : Z) (o : binop) (op_loc : range) (e : env) : eres Z :=
  let r := match o with
           | BLogOr => inl (b2z (negb (lhs =? 0) || negb (rhs =? 0)))
           | BLogAnd => inl (b2z (negb (lhs =? 0) && negb (rhs =? 0)))
           | BArith a | BCompound a => arith_result a lhs rhs
           | BAssign => inl rhs
           end in
  match r with
  | inl z => EOk z e
  | inr c => EErr c op_loc e
  end.

Definition apply_binary (lhs rhs : term) (o : binop) (op_loc : range) (e : env) : eres Z :=
  match o with
  | BLogOr | BLogAnd | BArith _ =>
      do l, e <- into_value lhs e;
      do r, e <- into_value rhs e;
      binary_result l r o op_loc e
  | BAssign =>
      do nl, e <- require_variable lhs op_loc e;
      do value, e <- into_value rhs e;
      assign (fst nl) value e
  | BCompound _ =>
      do nl, e <- require_variable lhs op_loc e;
      do l, e <- expand_variable (fst nl) (snd nl) e;
      do r, e <- into_value rhs e;
      do result, e <- binary_result l r o op_loc e;
      assign (fst nl) result e
  end.

(* slice::split_last *)
Fixpoint split_last {A} (l : list A) : option (A * list A) :=
  match l with
  | [] => None
  | [x] => Some (x, [])
  | x :: r => match split_last r with
              | Some (y, r') => Some (y, x :: r')
              | None => None
              end
  end.

(* children.split_at(children.len() - n): the subtraction and split_at panic
   when n > children.len() *)
Definition split_off {A} (l : list A) (n : nat) : option (list A * list A) :=
  if Nat.ltb (length l) n then None
  else Some (firstn (length l - n) l, skipn (length l - n) l).

Definition evalue (z : Z) (e : env) : eres term := EOk (TValue z) e.

Fixpoint eval (f : nat) (a : list ast) (e : env) : eres term :=
  match f with
  | O => EFuel
  | S f =>
      match split_last a with
      | None => EPanic                (* expect("the expression should not be empty") *)
      | Some (root, children) =>
          match root with
          | ATerm t => EOk t e
          | APrefix o loc =>
              do t, e <- eval f children e;
              do v, e <- apply_prefix t o loc e;
              evalue v e
          | APostfix o loc =>
              do t, e <- eval f children e;
              do v, e <- apply_postfix t o loc e;
              evalue v e
          | ABinary BLogOr rhs_len loc =>
              match split_off children rhs_len with
              | None => EPanic
              | Some (lhs_ast, rhs_ast) =>
                  do lt, e <- eval f lhs_ast e;
                  do lhs, e <- into_value lt e;
                  if negb (lhs =? 0) then evalue 1 e
                  else
                    do rt, e <- eval f rhs_ast e;
                    do rhs, e <- into_value rt e;
                    do v, e <- binary_result lhs rhs BLogOr loc e;
                    evalue v e
              end
          | ABinary BLogAnd rhs_len loc =>
              match split_off children rhs_len with
              | None => EPanic
              | Some (lhs_ast, rhs_ast) =>
                  do lt, e <- eval f lhs_ast e;
                  do lhs, e <- into_value lt e;
                  if lhs =? 0 then evalue 0 e
                  else
                    do rt, e <- eval f rhs_ast e;
                    do rhs, e <- into_value rt e;
                    do v, e <- binary_result lhs rhs BLogAnd loc e;
                    evalue v e
              end
          | ABinary o rhs_len loc =>
              match split_off children rhs_len with
              | None => EPanic
              | Some (lhs_ast, rhs_ast) =>
                  do lhs, e <- eval f lhs_ast e;
                  do rhs, e <- eval f rhs_ast e;
                  do v, e <- apply_binary lhs rhs o loc e;
                  evalue v e
              end
          | ACond then_len else_len =>
              match split_off children else_len with
              | None => EPanic
              | Some (children_2, else_ast) =>
                  match split_off children_2 then_len with
                  | None => EPanic
                  | Some (condition_ast, then_ast) =>
                      do ct, e <- eval f condition_ast e;
                      do condition, e <- into_value ct e;
                      if negb (condition =? 0) then eval f then_ast e
                      else eval f else_ast e
                  end
              end
          end
      end
  end.

(* ====================================================================== *)
(* lib.rs                                                                 *)
(* ====================================================================== *)

Inductive cause :=
| CSyntax (e : synerr)
| CPortability                 (* PortabilityError::IncrementDecrement *)
| CEval (e : everr).

Inductive outcome :=
| RVal (z : Z) (e : env)
| RErr (c : cause) (loc : range) (e : env)
| RPanic
| RFuel.

(* yash_arith::eval(expression, &mut env) *)
Definition run (cls : N -> N) (expression : str) (e : env) : outcome :=
  match parse (tokens_of cls expression) with
  | PFuel => RFuel
  | PErr c loc => RErr (CSyntax c) loc e
  | POk a _ =>
      match (do t, e <- eval (length a) a e; into_value t e) with
      | EOk z e' => RVal z e'
      | EErr c loc e' => RErr (CEval c) loc e'
      | EPanic => RPanic
      | EFuel => RFuel
      end
  end.

(* ====================================================================== *)
(* ast/portability.rs and eval_with_config with Config { portable: true }  *)
(* ====================================================================== *)

(* the nodes `check` looks for: prefix and postfix increment / decrement *)
Definition incdec_location (n : ast) : option range :=
  match n with
  | APrefix PreInc loc | APrefix PreDec loc => Some loc
  | APostfix PostInc loc | APostfix PostDec loc => Some loc
  | _ => None
  end.

(* Iterator::min_by_key(|location| location.start): the first of the minimal ones *)
Fixpoint min_by_start (l : list range) : option range :=
  match l with
  | [] => None
  | x :: r =>
      match min_by_start r with
      | None => Some x
      | Some y => if (fst y <? fst x)%N then Some y else Some x
      end
  end.

Fixpoint filter_map {A B} (f : A -> option B) (l : list A) : list B :=
  match l with
  | [] => []
  | a :: r => match f a with Some b => b :: filter_map f r | None => filter_map f r end
  end.

(* portability::check: None = Ok(()) *)
Definition portability_check (a : list ast) : option range :=
  min_by_start (filter_map incdec_location a).

(* yash_arith::eval_with_config(expression, &mut env, Config { portable: true }) *)
Definition run_portable (cls : N -> N) (expression : str) (e : env) : outcome :=
  match parse (tokens_of cls expression) with
  | PFuel => RFuel
  | PErr c loc => RErr (CSyntax c) loc e
  | POk a _ =>
      match portability_check a with
      | Some loc => RErr CPortability loc e
      | None =>
          match (do t, e <- eval (length a) a e; into_value t e) with
          | EOk z e' => RVal z e'
          | EErr c loc e' => RErr (CEval c) loc e'
          | EPanic => RPanic
          | EFuel => RFuel
          end
      end
  end.
