(* C03 — proofs, part 1: the arithmetic of eval.rs (checked operations, the
   shift filter, bit operations on the representation) against the
   mathematical definitions of Spec.v. *)
From Yv Require Import Common.Base C03.Defs C03.Model C03.Spec.
From Coq Require Import ZArith Lia ZifyBool.
Local Open Scope Z_scope.

Definition I64 (z : Z) : Prop := -9223372036854775808 <= z <= 9223372036854775807.

Lemma in_i64_iff z : in_i64 z = true <-> I64 z.
Proof. unfold in_i64, I64, i64_min, i64_max. lia. Qed.

Lemma in_i64_false z : in_i64 z = false <-> ~ I64 z.
Proof. rewrite <- in_i64_iff. destruct (in_i64 z); split; congruence. Qed.

Lemma two63 : 2 ^ 63 = 9223372036854775808. Proof. reflexivity. Qed.
Lemma two64_eq : 2 ^ 64 = 18446744073709551616. Proof. reflexivity. Qed.

Lemma checked_representable z : checked z = representable z.
Proof. reflexivity. Qed.

(* ---- division ----------------------------------------------------------- *)

Lemma trunc_div_quot a b : b <> 0 -> trunc_div a b = Z.quot a b.
Proof. intros H. unfold trunc_div. symmetry. apply Z.quot_div, H. Qed.

Lemma quot_abs_le a b : b <> 0 -> Z.abs (Z.quot a b) <= Z.abs a.
Proof.
  intros Hb. rewrite Z.quot_div by exact Hb.
  assert (0 <= Z.abs a / Z.abs b <= Z.abs a).
  { split; [apply Z.div_pos; lia|].
    apply Z.div_le_upper_bound; [lia|]. nia. }
  destruct (Z.sgn_spec a) as [[? ->]|[[? ->]|[? ->]]],
           (Z.sgn_spec b) as [[? ->]|[[? ->]|[? ->]]]; lia.
Qed.

Lemma quot_m1 a : Z.quot a (-1) = - a.
Proof.
  change (-1) with (- (1)). rewrite Z.quot_opp_r by lia. now rewrite Z.quot_1_r.
Qed.

Lemma quot_abs_half a b : 2 <= Z.abs b -> 2 * Z.abs (Z.quot a b) <= Z.abs a.
Proof.
  intros Hb. assert (b <> 0) by lia. rewrite Z.quot_div by assumption.
  assert (0 <= Z.abs a / Z.abs b /\ 2 * (Z.abs a / Z.abs b) <= Z.abs a).
  { split; [apply Z.div_pos; lia|].
    pose proof (Z.mul_div_le (Z.abs a) (Z.abs b) ltac:(lia)).
    assert (0 <= Z.abs a / Z.abs b) by (apply Z.div_pos; lia). nia. }
  destruct (Z.sgn_spec a) as [[? ->]|[[? ->]|[? ->]]],
           (Z.sgn_spec b) as [[? ->]|[[? ->]|[? ->]]]; lia.
Qed.

(* checked_div / checked_rem overflow exactly for MIN / -1 *)
Lemma quot_overflow_iff a b :
  I64 a -> I64 b -> b <> 0 ->
  (in_i64 (Z.quot a b) = false <-> a = i64_min /\ b = -1).
Proof.
  intros Ha Hb Hz. rewrite in_i64_false. unfold I64, i64_min in *.
  destruct (Z.eq_dec b (-1)) as [->|Hm1].
  - rewrite quot_m1. lia.
  - destruct (Z.eq_dec b 1) as [->|H1].
    + rewrite Z.quot_1_r. lia.
    + pose proof (quot_abs_half a b ltac:(lia)). lia.
Qed.

(* ---- shifts ------------------------------------------------------------- *)

Lemma wrap64_small z : - 2 ^ 63 <= z < 2 ^ 63 -> wrap64 z = z.
Proof.
  intros H. unfold wrap64. rewrite Z.mod_small; lia.
Qed.

Lemma wrap64_range z : - 2 ^ 63 <= wrap64 z < 2 ^ 63.
Proof.
  unfold wrap64. pose proof (Z.mod_pos_bound (z + 2 ^ 63) (2 ^ 64) ltac:(lia)). lia.
Qed.

Lemma wrap64_congr z : exists k, wrap64 z = z + k * 2 ^ 64.
Proof.
  unfold wrap64. exists (- ((z + 2 ^ 63) / 2 ^ 64)).
  pose proof (Z.div_mod (z + 2 ^ 63) (2 ^ 64) ltac:(lia)). lia.
Qed.

(* the bit trick of ShiftLeft: `checked_shl` then
   `.filter(|&result| result >= 0 && result >> rhs == lhs)`
   accepts exactly when lhs * 2^rhs is representable, and then yields it *)
Lemma shl_filter_exact_lemma l r :
  0 <= l -> I64 l -> 0 <= r < 64 ->
  let result := wrap64 (Z.shiftl l r) in
  ((0 <=? result) && (Z.shiftr result r =? l) = true <-> I64 (l * 2 ^ r))
  /\ (I64 (l * 2 ^ r) -> result = l * 2 ^ r).
Proof.
  intros Hl Hl' Hr result. subst result.
  rewrite Z.shiftl_mul_pow2 by lia.
  assert (Hp : 0 < 2 ^ r) by (apply Z.pow_pos_nonneg; lia).
  assert (Hx : 0 <= l * 2 ^ r) by nia.
  split; [split|].
  - intros H. apply andb_prop in H. destruct H as [H0 H1].
    rewrite Z.shiftr_div_pow2 in H1 by lia.
    set (R := wrap64 (l * 2 ^ r)) in *.
    assert (HR : R / 2 ^ r = l) by lia.
    pose proof (wrap64_range (l * 2 ^ r)) as Hrng. fold R in Hrng.
    pose proof (Z.mul_div_le R (2 ^ r) Hp) as Hle. rewrite HR in Hle.
    unfold I64. rewrite two63 in Hrng. lia.
  - intros H. unfold I64 in H. rewrite wrap64_small by (rewrite two63; lia).
    rewrite Z.shiftr_div_pow2 by lia. rewrite Z.div_mul by lia. lia.
  - intros H. unfold I64 in H. apply wrap64_small. rewrite two63. lia.
Qed.

(* ---- bit operations on the two's complement representation ------------------ *)

Lemma of_to_bits z : I64 z -> of_bits (to_bits z) = z.
Proof.
  unfold I64, of_bits, to_bits, two64. intros H. rewrite two64_eq, two63.
  destruct (Z.ltb_spec z 0).
  - replace (z mod 18446744073709551616) with (z + 18446744073709551616).
    + destruct (Z.ltb_spec (z + 18446744073709551616) 9223372036854775808); lia.
    + apply Z.mod_unique with (q := -1); lia.
  - rewrite Z.mod_small by lia.
    destruct (Z.ltb_spec z 9223372036854775808); lia.
Qed.

Lemma I64_shiftr z : I64 z <-> (Z.shiftr z 63 = 0 \/ Z.shiftr z 63 = -1).
Proof.
  rewrite Z.shiftr_div_pow2 by lia. rewrite two63. unfold I64.
  pose proof (Z.div_mod z 9223372036854775808 ltac:(lia)).
  pose proof (Z.mod_pos_bound z 9223372036854775808 ltac:(lia)). lia.
Qed.

Lemma I64_lor a b : I64 a -> I64 b -> I64 (Z.lor a b).
Proof.
  rewrite !I64_shiftr, Z.shiftr_lor. intros [->| ->] [->| ->]; cbn; auto.
Qed.
Lemma I64_land a b : I64 a -> I64 b -> I64 (Z.land a b).
Proof.
  rewrite !I64_shiftr, Z.shiftr_land. intros [->| ->] [->| ->]; cbn; auto.
Qed.
Lemma I64_lxor a b : I64 a -> I64 b -> I64 (Z.lxor a b).
Proof.
  rewrite !I64_shiftr, Z.shiftr_lxor. intros [->| ->] [->| ->]; cbn; auto.
Qed.

Lemma to_bits_land_ones z : to_bits z = Z.land z (Z.ones 64).
Proof. unfold to_bits, two64. now rewrite Z.land_ones by lia. Qed.

Lemma bits_lor a b : I64 a -> I64 b ->
  of_bits (Z.lor (to_bits a) (to_bits b)) = Z.lor a b.
Proof.
  intros Ha Hb. rewrite !to_bits_land_ones, <- Z.land_lor_distr_l, <- to_bits_land_ones.
  apply of_to_bits, I64_lor; assumption.
Qed.

Lemma bits_land a b : I64 a -> I64 b ->
  of_bits (Z.land (to_bits a) (to_bits b)) = Z.land a b.
Proof.
  intros Ha Hb. rewrite !to_bits_land_ones.
  replace (Z.land (Z.land a (Z.ones 64)) (Z.land b (Z.ones 64)))
    with (Z.land (Z.land a b) (Z.ones 64)).
  - rewrite <- to_bits_land_ones. apply of_to_bits, I64_land; assumption.
  - apply Z.bits_inj'. intros n Hn. rewrite !Z.land_spec.
    destruct (Z.testbit a n), (Z.testbit b n), (Z.testbit (Z.ones 64) n); reflexivity.
Qed.

Lemma bits_lxor a b : I64 a -> I64 b ->
  of_bits (Z.lxor (to_bits a) (to_bits b)) = Z.lxor a b.
Proof.
  intros Ha Hb. rewrite !to_bits_land_ones.
  replace (Z.lxor (Z.land a (Z.ones 64)) (Z.land b (Z.ones 64)))
    with (Z.land (Z.lxor a b) (Z.ones 64)).
  - rewrite <- to_bits_land_ones. apply of_to_bits, I64_lxor; assumption.
  - apply Z.bits_inj'. intros n Hn. rewrite !Z.land_spec, !Z.lxor_spec, !Z.land_spec.
    destruct (Z.testbit a n), (Z.testbit b n), (Z.testbit (Z.ones 64) n); reflexivity.
Qed.

Lemma bits_lnot a : I64 a -> of_bits (Z.lxor (to_bits a) (two64 - 1)) = Z.lnot a.
Proof.
  intros Ha. change (two64 - 1) with (to_bits (-1)).
  rewrite bits_lxor by (assumption || (unfold I64; lia)).
  apply Z.lxor_m1_r.
Qed.

Lemma I64_lnot a : I64 a -> I64 (Z.lnot a).
Proof. unfold Z.lnot, I64. lia. Qed.

(* ---- the operations ------------------------------------------------------------ *)

(* binary_result computes the mathematically exact value, and reports an error
   exactly when the specification gives no value *)
Lemma arith_result_exact o a b :
  I64 a -> I64 b ->
  match arith_result o a b with
  | inl z => arith o a b = Some z
  | inr _ => arith o a b = None
  end.
Proof.
  intros Ha Hb. pose proof Ha as Ha'. pose proof Hb as Hb'. unfold I64 in Ha', Hb'.
  destruct o; cbn [arith_result arith].
  - now rewrite bits_lor.
  - now rewrite bits_lxor.
  - now rewrite bits_land.
  - reflexivity.
  - reflexivity.
  - reflexivity.
  - rewrite Z.gtb_ltb. reflexivity.
  - reflexivity.
  - rewrite Z.geb_leb. reflexivity.
  - (* << *)
    destruct (Z.ltb_spec a 0) as [Hneg|Hnn].
    + replace (0 <=? a) with false by lia. reflexivity.
    + replace (0 <=? a) with true by lia. cbn [andb].
      destruct (Z.ltb_spec b 0) as [Hbn|Hbn].
      * replace (0 <=? b) with false by lia. reflexivity.
      * replace (0 <=? b) with true by lia. cbn [andb].
        destruct (Z.ltb_spec 4294967295 b) as [Hbig|Hsm].
        { replace (b <? 64) with false by lia. reflexivity. }
        destruct (Z.leb_spec 64 b) as [H64|H64].
        { replace (b <? 64) with false by lia. reflexivity. }
        replace (b <? 64) with true by lia.
        destruct (shl_filter_exact_lemma a b Hnn Ha ltac:(lia)) as [Hiff Hval].
        unfold representable.
        destruct ((0 <=? wrap64 (Z.shiftl a b)) && (Z.shiftr (wrap64 (Z.shiftl a b)) b =? a)).
        -- pose proof (proj1 Hiff eq_refl) as E. pose proof E as E'.
           apply in_i64_iff in E'. rewrite E'. now rewrite Hval.
        -- destruct (in_i64 (a * 2 ^ b)) eqn:E'; [|reflexivity].
           apply in_i64_iff, Hiff in E'. discriminate.
  - (* >> *)
    destruct (Z.ltb_spec b 0) as [Hbn|Hbn].
    + replace (0 <=? b) with false by lia. reflexivity.
    + replace (0 <=? b) with true by lia. cbn [andb].
      destruct (Z.ltb_spec 4294967295 b) as [Hbig|Hsm].
      { replace (b <? 64) with false by lia. reflexivity. }
      destruct (Z.leb_spec 64 b) as [H64|H64].
      { replace (b <? 64) with false by lia. reflexivity. }
      replace (b <? 64) with true by lia.
      now rewrite Z.shiftr_div_pow2 by lia.
  - unfold checked, representable. destruct (in_i64 (a + b)); reflexivity.
  - unfold checked, representable. destruct (in_i64 (a - b)); reflexivity.
  - unfold checked, representable. destruct (in_i64 (a * b)); reflexivity.
  - (* / *)
    destruct (Z.eqb_spec b 0) as [Hz|Hz]; [reflexivity|].
    rewrite trunc_div_quot by assumption. unfold representable.
    pose proof (quot_overflow_iff a b Ha Hb Hz) as Hov.
    destruct ((a =? i64_min) && (b =? -1)) eqn:E.
    + replace (in_i64 (Z.quot a b)) with false; [reflexivity|]. symmetry. apply Hov. lia.
    + destruct (in_i64 (Z.quot a b)); [reflexivity|].
      pose proof (proj1 Hov eq_refl). lia.
  - (* % *)
    destruct (Z.eqb_spec b 0) as [Hz|Hz]; [reflexivity|].
    rewrite trunc_div_quot by assumption. unfold representable.
    pose proof (quot_overflow_iff a b Ha Hb Hz) as Hov.
    destruct ((a =? i64_min) && (b =? -1)) eqn:E.
    + replace (in_i64 (Z.quot a b)) with false; [reflexivity|]. symmetry. apply Hov. lia.
    + destruct (in_i64 (Z.quot a b)).
      * rewrite Z.rem_eq by assumption. f_equal. lia.
      * pose proof (proj1 Hov eq_refl). lia.
Qed.

(* every value the specification gives is representable *)
Lemma arith_I64 o a b z : I64 a -> I64 b -> arith o a b = Some z -> I64 z.
Proof.
  intros Ha Hb. unfold I64 in Ha, Hb.
  assert (Hrep : forall x y, representable x = Some y -> I64 y).
  { unfold representable. intros x y. destruct (in_i64 x) eqn:E; [|discriminate].
    intros [= <-]. now apply in_i64_iff. }
  assert (Hb2 : forall c, I64 (b2z c)) by (intros []; unfold I64; cbn; lia).
  destruct o; cbn [arith]; intros H.
  - injection H as <-. rewrite bits_lor by assumption. now apply I64_lor.
  - injection H as <-. rewrite bits_lxor by assumption. now apply I64_lxor.
  - injection H as <-. rewrite bits_land by assumption. now apply I64_land.
  - injection H as <-. apply Hb2.
  - injection H as <-. apply Hb2.
  - injection H as <-. apply Hb2.
  - injection H as <-. apply Hb2.
  - injection H as <-. apply Hb2.
  - injection H as <-. apply Hb2.
  - destruct ((0 <=? a) && (0 <=? b) && (b <? 64)); [eauto|discriminate].
  - destruct ((0 <=? b) && (b <? 64)) eqn:E; [|discriminate]. injection H as <-.
    assert (0 < 2 ^ b) by (apply Z.pow_pos_nonneg; lia).
    assert (1 <= 2 ^ b) by lia.
    unfold I64. split.
    + apply Z.div_le_lower_bound; [lia|]. nia.
    + destruct (Z.le_gt_cases 0 a).
      * apply Z.le_trans with a; [|lia]. apply Z.div_le_upper_bound; [lia|]. nia.
      * apply Z.le_trans with 0; [|lia].
        enough (a / 2 ^ b < 1) by lia. apply Z.div_lt_upper_bound; lia.
  - eauto.
  - eauto.
  - eauto.
  - destruct (b =? 0); [discriminate|eauto].
  - destruct (b =? 0) eqn:Eb; [discriminate|].
    destruct (representable (trunc_div a b)) eqn:E; [|discriminate]. injection H as <-.
    assert (Hz : b <> 0) by lia.
    rewrite trunc_div_quot in E by assumption.
    unfold representable in E. destruct (in_i64 (Z.quot a b)); [|discriminate].
    injection E as <-. replace (a - Z.quot a b * b) with (Z.rem a b) by (rewrite Z.rem_eq; lia).
    pose proof (Z.rem_bound_abs a b Hz). unfold I64. lia.
Qed.
