(* C03 — proofs, part 8: variable values against constants ($((x)) / $(($x))),
   decimal rendering read back, short-circuit operands in the specification. *)
From Yv Require Import Common.Base C03.Defs C03.Model C03.Spec C03.ProofsArith C03.ProofsNum
  C03.ProofsLex C03.ProofsEval C03.ProofsParse C03.ProofsParse2 C03.Proofs.
From Coq Require Import ZArith NArith Lia ZifyBool.

(* ---- `$((x))` and `$(($x))` ----------------------------------------------------------------- *)

(* The tokenizer's reading of a constant token and expand_variable's reading of
   the same text as a variable value agree. *)
Lemma var_const_core w z :
  plain w -> parse_constant w = Some z -> parse_integer w = Some z.
Proof.
  intros Hp H. pose proof (parse_constant_I64 _ _ H) as HI.
  rewrite parse_constant_spec in H by assumption.
  rewrite parse_integer_spec. unfold constant_value in H. unfold variable_value.
  destruct w as [|c r]; [discriminate|].
  inversion Hp as [|? ? [H45 H43] _]; subst.
  replace (c =? 45)%N with false by lia. replace (c =? 43)%N with false by lia.
  destruct (constant_magnitude (c :: r)) as [m|]; [|discriminate].
  destruct (m <=? i64_max)%Z; [|discriminate]. injection H as ->.
  unfold representable. apply in_i64_iff in HI. now rewrite HI.
Qed.

(* with a sign: the value of the variable is the negated / the plain constant *)
Lemma var_signed_const w z :
  plain w -> parse_constant w = Some z ->
  parse_integer (45%N :: w) = Some (- z)%Z /\ parse_integer (43%N :: w) = Some z.
Proof.
  intros Hp H. pose proof (parse_constant_I64 _ _ H) as HI.
  rewrite parse_constant_spec in H by assumption.
  rewrite !parse_integer_spec. unfold constant_value in H. unfold variable_value.
  change (45 =? 45)%N with true. change (43 =? 45)%N with false. change (43 =? 43)%N with true.
  cbv iota.
  destruct (constant_magnitude w) as [m|] eqn:Em; [|discriminate].
  destruct (Z.leb_spec m i64_max); [|discriminate]. injection H as ->.
  cbn [option_map]. unfold representable.
  assert (0 <= z)%Z.
  { unfold constant_magnitude in Em. destruct w as [|c r]; [discriminate|].
    destruct (c =? 48)%N.
    - destruct r as [|x ds]; [injection Em as <-; lia|].
      destruct ((x =? 120) || (x =? 88))%N.
      + destruct ds; [discriminate|]. eapply positional_nonneg; [| |exact Em]; [lia|exact hex_nonneg].
      + eapply positional_nonneg; [| |exact Em]; [lia|exact oct_nonneg].
    - eapply positional_nonneg; [| |exact Em]; [lia|exact dec_nonneg]. }
  unfold I64 in HI. unfold i64_max in *.
  replace (in_i64 (- z)) with true by (unfold in_i64, i64_min, i64_max; lia).
  replace (in_i64 z) with true by (unfold in_i64, i64_min, i64_max; lia). auto.
Qed.

(* ---- assignment stores a text that reads back as the value ---------------------------------------- *)

Lemma dec_digits_rev_spec fuel n :
  (n < 10 ^ N.of_nat fuel)%N -> (0 < fuel)%nat ->
  let ds := rev (dec_digits_rev fuel n) in
  positional dec_digit 10 ds = Some (Z.of_N n) /\
  ds <> [] /\
  (hd 0%N ds = 48%N -> n = 0%N) /\
  Forall (fun c => (48 <= c <= 57)%N) ds.
Proof.
  revert n. induction fuel as [|f IH]; intros n Hn Hf; [lia|].
  cbn [dec_digits_rev]. destruct (N.ltb_spec n 10) as [Hlt|Hge].
  - cbn [rev app positional length hd]. unfold dec_digit.
    replace ((48 <=? 48 + n) && (48 + n <=? 57))%N with true by lia.
    split; [f_equal; lia|]. split; [discriminate|]. split; [lia|].
    constructor; [lia|constructor].
  - destruct f as [|f].
    { exfalso. change (10 ^ N.of_nat 1)%N with 10%N in Hn. lia. }
    assert (Hq : (n / 10 < 10 ^ N.of_nat (S f))%N).
    { apply N.div_lt_upper_bound; [lia|].
      rewrite Nat2N.inj_succ, N.pow_succ_r' in Hn. exact Hn. }
    specialize (IH (n / 10)%N Hq ltac:(lia)). cbv zeta in IH.
    destruct IH as [IHv [IHne [IHhd IHall]]].
    set (hi := rev (dec_digits_rev (S f) (n / 10))) in *.
    cbn [rev]. fold hi.
    assert (Hd : (n mod 10 < 10)%N) by (apply N.mod_lt; lia).
    assert (Hpos : forall a b va, positional dec_digit 10 a = Some va ->
              (48 <= b <= 57)%N ->
              positional dec_digit 10 (a ++ [b]) = Some (va * 10 + (Z.of_N b - 48))%Z).
    { induction a as [|x a IHa]; intros b va Ha Hb.
      - injection Ha as <-. cbn [app positional length]. unfold dec_digit.
        replace ((48 <=? b) && (b <=? 57))%N with true by lia. f_equal. cbn. lia.
      - cbn [app positional] in *. destruct (dec_digit x) as [dx|]; [|discriminate].
        destruct (positional dec_digit 10 a) as [v|] eqn:Ev; [|discriminate].
        injection Ha as <-. rewrite (IHa b v eq_refl Hb).
        f_equal. rewrite app_length. cbn [length]. rewrite Nat.add_1_r, Nat2Z.inj_succ, Z.pow_succ_r by lia.
        lia. }
    assert (Hb : (48 <= 48 + n mod 10 <= 57)%N).
    { clear - Hd. set (d := (n mod 10)%N) in *. clearbody d. lia. }
    split.
    { rewrite (Hpos hi (48 + n mod 10)%N _ IHv Hb). f_equal.
      pose proof (N.div_mod n 10 ltac:(lia)) as Hdm. clear - Hdm Hd.
      set (d := (n mod 10)%N) in *. set (q := (n / 10)%N) in *. clearbody d q. lia. }
    split; [destruct hi; discriminate|]. split.
    { destruct hi as [|h hi']; [congruence|]. cbn [app hd] in *. intros H48.
      specialize (IHhd H48). apply N.div_small_iff in IHhd; lia. }
    apply Forall_app. split; [exact IHall|]. constructor; [exact Hb|constructor].
Qed.

Lemma dec_of_N_value n :
  (n < 10 ^ 20)%N ->
  constant_magnitude (dec_of_N n) = Some (Z.of_N n) /\
  (forall c r, dec_of_N n = c :: r -> c <> 45%N /\ c <> 43%N).
Proof.
  intros Hn. pose proof (dec_digits_rev_spec 20 n Hn ltac:(lia)) as H. cbv zeta in H.
  fold (dec_of_N n) in H. destruct H as [Hv [Hne [Hhd Hall]]].
  destruct (dec_of_N n) as [|c r] eqn:E; [congruence|].
  split.
  - unfold constant_magnitude. destruct (N.eqb_spec c 48) as [->|Hc]; [|exact Hv].
    cbn [hd] in Hhd. specialize (Hhd eq_refl). subst n.
    vm_compute in E. injection E as <-. reflexivity.
  - intros c' r' [= <- <-]. inversion Hall; subst. lia.
Qed.

(* i64::to_string followed by parse_integer is the identity *)
Lemma assign_read_lemma z : I64 z -> parse_integer (dec_of_Z z) = Some z.
Proof.
  intros Hz. rewrite parse_integer_spec. unfold dec_of_Z, variable_value. unfold I64 in Hz.
  destruct (Z.ltb_spec z 0) as [Hneg|Hpos].
  - change (45 =? 45)%N with true. cbv iota.
    destruct (dec_of_N_value (Z.to_N (- z)) ltac:(lia)) as [-> _]. cbn [option_map].
    rewrite Z2N.id by lia. rewrite Z.opp_involutive. unfold representable.
    replace (in_i64 z) with true by (unfold in_i64, i64_min, i64_max; lia). reflexivity.
  - destruct (dec_of_N_value (Z.to_N z) ltac:(lia)) as [Hv Hc].
    destruct (dec_of_N (Z.to_N z)) as [|c r] eqn:E; [discriminate|].
    destruct (Hc c r eq_refl) as [H45 H43].
    replace (c =? 45)%N with false by lia. replace (c =? 43)%N with false by lia.
    rewrite Hv. rewrite Z2N.id by lia. unfold representable.
    replace (in_i64 z) with true by (unfold in_i64, i64_min, i64_max; lia). reflexivity.
Qed.

(* ---- texts that are a single word token ----------------------------------------------------------- *)

Lemma word_not_ws cls c : is_word cls c = true -> is_ws cls c = false.
Proof.
  unfold is_word, is_alnum, is_ws, ascii_alnum, ascii_digit, ascii_upper, ascii_lower, ascii_ws.
  destruct (c <? 128)%N eqn:E; lia.
Qed.

Lemma op_first_not_word cls o c r : is_prefix (lexeme o) (c :: r) = true -> is_word cls c = false.
Proof.
  destruct o; cbn [lexeme L map String.list_ascii_of_string is_prefix];
    intros H; apply andb_prop in H; destruct H as [H _]; apply N.eqb_eq in H; subst c; reflexivity.
Qed.

Lemma longest_operator_word cls c r : is_word cls c = true -> longest_operator (c :: r) = None.
Proof.
  intros Hw. pose proof (longest_operator_spec (c :: r)) as H.
  destruct (longest_operator (c :: r)) as [b|]; [|reflexivity].
  destruct H as [H _]. apply (op_first_not_word cls) in H. congruence.
Qed.

Lemma take_while_all_id p s : Forall (fun c => p c = true) s -> take_while p s = s /\ drop_while p s = [].
Proof.
  induction 1 as [|c s Hc _ [IH1 IH2]]; [auto|]. cbn. rewrite Hc, IH1, IH2. auto.
Qed.

Lemma slex_word cls f c r :
  Forall (fun c => is_word cls c = true) (c :: r) -> (2 <= f)%nat ->
  slex f cls (c :: r) =
  if ascii_digit c then option_map (fun z => [SNum z]) (constant_value (c :: r))
  else Some [SVar (c :: r)].
Proof.
  intros Hall Hf. destruct f as [|[|f]]; try lia.
  inversion Hall as [|? ? Hc Hr]; subst.
  assert (Hd : drop_while (is_ws cls) (c :: r) = c :: r)
    by (cbn [drop_while]; now rewrite (word_not_ws cls c Hc)).
  cbn [slex]. rewrite Hd.
  rewrite (longest_operator_word cls c r Hc).
  destruct (take_while_all_id (is_word cls) (c :: r) Hall) as [-> ->].
  destruct (ascii_digit c).
  - destruct (constant_value (c :: r)); reflexivity.
  - reflexivity.
Qed.

Lemma constant_first_digit c r m : constant_magnitude (c :: r) = Some m -> ascii_digit c = true.
Proof.
  unfold constant_magnitude, ascii_digit. destruct (N.eqb_spec c 48) as [->|H]; [reflexivity|].
  cbn [positional]. unfold dec_digit. destruct ((48 <=? c) && (c <=? 57))%N; [reflexivity|discriminate].
Qed.

(* `$((x))` and `$(($x))`: if the value of the variable x is an integer
   constant, both evaluate to that constant and change nothing *)
Theorem var_const_agree_lemma cls x w z env :
  Forall (fun c => is_word cls c = true) x ->
  (exists c r, x = c :: r /\ ascii_digit c = false) ->
  Forall (fun c => is_word cls c = true) w ->
  constant_value w = Some z ->
  lookup x env = Some w ->
  run cls x env = RVal z env /\ run cls w env = RVal z env.
Proof.
  intros Hx [c [r [-> Hc]]] Hw Hz Hl.
  assert (Hvv : variable_value w = Some z).
  { rewrite <- parse_integer_spec. apply var_const_core; [eapply word_plain; eassumption|].
    rewrite parse_constant_spec; [exact Hz|eapply word_plain; eassumption]. }
  assert (S1 : spec_run cls (c :: r) env = SVal z env).
  { unfold spec_run, spec_lex. rewrite slex_word by (assumption || (cbn [length]; lia)).
    rewrite Hc. cbn. rewrite Hl, Hvv. reflexivity. }
  assert (S2 : spec_run cls w env = SVal z env).
  { destruct w as [|c' r']; [discriminate|].
    unfold spec_run, spec_lex. rewrite slex_word by (assumption || (cbn [length]; lia)).
    unfold constant_value in Hz. destruct (constant_magnitude (c' :: r')) as [m|] eqn:Em; [|discriminate].
    rewrite (constant_first_digit _ _ _ Em). unfold constant_value. rewrite Em.
    destruct (m <=? i64_max)%Z; [|discriminate]. injection Hz as ->. reflexivity. }
  split.
  - pose proof (run_correct cls (c :: r) env) as H. rewrite S1 in H.
    destruct (run cls (c :: r) env); try discriminate; try contradiction. now injection H as -> ->.
  - pose proof (run_correct cls w env) as H. rewrite S2 in H.
    destruct (run cls w env); try discriminate; try contradiction. now injection H as -> ->.
Qed.

(* the one remaining difference when a sign is allowed in the value: the most
   negative number is a value a variable can hold (and that assignment stores),
   but its text is not an expression with a value *)
Example min_value_differs :
  let v := dec_of_Z i64_min in
  run (fun _ => 0%N) [120%N] [([120%N], v)] = RVal i64_min [([120%N], v)] /\
  run (fun _ => 0%N) v [] = RErr (CSyntax (SETok InvalidNumericConstant)) (1%N, 20%N) [].
Proof. vm_compute. split; reflexivity. Qed.

(* non-vacuity of var_const_agree_lemma: x = "x", value "0x1F" *)
Example var_const_agree_nonvacuous :
  let cls := fun _ : N => 0%N in
  let x := [120%N] in let w := [48; 120; 49; 70]%N in
  Forall (fun c => is_word cls c = true) x /\
  (exists c r, x = c :: r /\ ascii_digit c = false) /\
  Forall (fun c => is_word cls c = true) w /\
  constant_value w = Some 31%Z /\
  lookup x [(x, w)] = Some w /\
  run cls x [(x, w)] = RVal 31 [(x, w)] /\ run cls w [(x, w)] = RVal 31 [(x, w)].
Proof.
  cbv zeta. repeat split; try reflexivity.
  - repeat constructor.
  - exists 120%N, []. split; reflexivity.
  - repeat constructor.
Qed.

(* ---- the specification does not look at an operand that C says is not evaluated ------------- *)

Lemma spec_short_circuit_lemma a b c env t e1 :
  den a env = Some (t, e1) ->
  (rvalue t e1 = Some 0%Z -> den (EBin BLogAnd a b) env = Some (SNumT 0, e1) /\
                             den (ECond a b c) env = den c e1) /\
  (forall n, rvalue t e1 = Some n -> n <> 0%Z ->
             den (EBin BLogOr a b) env = Some (SNumT 1, e1) /\
             den (ECond a b c) env = den b e1).
Proof.
  intros Ha. split.
  - intros Hr. cbn [den]. rewrite Ha. cbn [obind]. rewrite Hr. cbn [obind]. auto.
  - intros n Hr Hn. cbn [den]. rewrite Ha. cbn [obind]. rewrite Hr. cbn [obind].
    replace (n =? 0)%Z with false by lia. auto.
Qed.
