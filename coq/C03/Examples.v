(* C03 — non-vacuity: concrete, non-trivial instances of the hypotheses of the
   implication-shaped property theorems (and of their conclusions), by computation. *)
From Yv Require Import Common.Base C03.Defs C03.Model C03.Spec.
From Yv Require Import C03.ProofsArith C03.ProofsNum C03.ProofsLex C03.ProofsEval
  C03.ProofsParse C03.ProofsParse2 C03.Proofs C03.ProofsVar C03.ProofsSeq.
From Coq Require Import ZArith Lia.
Local Open Scope Z_scope.

Definition cls0 (c : N) : N := 0%N.
(* "1+2*x++" *)
Definition text1 : str := [49; 43; 50; 42; 120; 43; 43]%N.
Definition x_ : str := [120%N].

(* shl_filter_exact: 1 << 62 is accepted, 2 << 62 and 1 << 63 are not *)
Example shl_filter_instances :
  (0 <= 1 /\ I64 1 /\ 0 <= 62 < 64) /\
  arith_result AShl 1 62 = inl 4611686018427387904 /\
  arith_result AShl 2 62 = inr Overflow /\
  arith_result AShl 1 63 = inr Overflow /\
  arith AShl 2 62 = None.
Proof. unfold I64. repeat split; try lia; reflexivity. Qed.

(* binary_result_exact_or_error / arith_in_range: boundary operands *)
Example binary_result_instances :
  I64 i64_min /\ I64 (-1) /\
  arith_result ADiv i64_min (-1) = inr Overflow /\ arith ADiv i64_min (-1) = None /\
  arith_result ARem i64_min (-1) = inr Overflow /\ arith ARem i64_min (-1) = None /\
  arith_result ADiv (-7) 2 = inl (-3) /\ arith ARem (-7) 2 = Some (-1) /\
  arith_result AShr (-7) 1 = inl (-4) /\ arith AXor (-6) (-7) = Some 3.
Proof. unfold I64, i64_min. repeat split; try lia; reflexivity. Qed.

(* lex_equiv / parse_equiv / eval_flatten on "1+2*x++" with x = 010 *)
Example pipeline_instance :
  let st := tokens_of cls0 text1 in
  fin_ok st /\
  (exists ns st', parse st = POk ns st' /\
     exists e, spec_parse (ets st) = Some e /\ expr_ok e /\
               e = EBin (BArith AAdd) (ENum 1)
                     (EBin (BArith AMul) (ENum 2) (EPost PostInc (EVar x_))) /\
               length ns = 6%nat) /\
  run cls0 text1 [(x_, [48; 49; 48]%N)] = RVal 17 [(x_, [57%N])].
Proof.
  cbv zeta. split; [exact I|]. split; [|vm_compute; reflexivity].
  eexists. eexists. split; [vm_compute; reflexivity|].
  eexists. split; [vm_compute; reflexivity|]. split; [|split; reflexivity].
  cbn. unfold I64. lia.
Qed.

(* spec_short_circuit: `0 && (x = 1)` and `1 || (x = 1)` leave x alone *)
Example short_circuit_instance :
  den (ENum 0) [] = Some (SNumT 0, []) /\
  den (EBin BLogAnd (ENum 0) (EBin BAssign (EVar x_) (ENum 1))) [] = Some (SNumT 0, []) /\
  den (EBin BLogOr (ENum 1) (EBin BAssign (EVar x_) (ENum 1))) [] = Some (SNumT 1, []) /\
  den (EBin BLogAnd (ENum 1) (EBin BAssign (EVar x_) (ENum 1))) []
    = Some (SNumT 1, [(x_, [49%N])]) /\
  den (EBin BLogAnd (ENum 0) (EBin (BArith ADiv) (ENum 1) (ENum 0))) [] = Some (SNumT 0, []).
Proof. repeat split; reflexivity. Qed.

(* var_signed_const_agree / assign_then_read *)
Example var_instances :
  plain [48; 49; 48]%N /\ parse_constant [48; 49; 48]%N = Some 8 /\
  parse_integer [45; 48; 49; 48]%N = Some (-8) /\
  I64 i64_min /\ parse_integer (dec_of_Z i64_min) = Some i64_min /\
  parse_integer [32; 53]%N = None /\ parse_integer [] = None.
Proof.
  unfold plain, I64, i64_min. repeat split; try lia; try reflexivity.
  repeat constructor; lia.
Qed.
