(* C03 — proofs, part 2: numerals.  Rust's from_str_radix (Horner) against positional
   notation; the radix rule of constant tokens against the C grammar of integer
   constants; parse_integer against the specified value of a variable. *)
From Yv Require Import Common.Base C03.Defs C03.Model C03.Spec C03.ProofsArith.
From Coq Require Import ZArith NArith Lia ZifyBool.

Definition digit_corr (radix : N) (dig : N -> option Z) : Prop :=
  forall c, match to_digit radix c with
            | Some d => dig c = Some (Z.of_N d)
            | None => dig c = None end.

Ltac dig_tac :=
  intros c; unfold to_digit, hex_digit, oct_digit, dec_digit, ascii_digit, ascii_lower, ascii_upper;
  repeat match goal with |- context [if ?b then _ else _] => destruct b eqn:? end;
  try reflexivity; try (f_equal; lia); try lia.

Lemma digit_corr_16 : digit_corr 16 hex_digit.
Proof. dig_tac. Qed.
Lemma digit_corr_8 : digit_corr 8 oct_digit.
Proof. dig_tac. Qed.
Lemma digit_corr_10 : digit_corr 10 dec_digit.
Proof. dig_tac. Qed.

Local Open Scope Z_scope.

Lemma positional_nonneg dig base s v :
  0 <= base -> (forall c d, dig c = Some d -> 0 <= d) ->
  positional dig base s = Some v -> 0 <= v.
Proof.
  intros Hb Hd. revert v. induction s as [|c r IH]; cbn [positional]; intros v H.
  - injection H as <-. lia.
  - destruct (dig c) as [d|] eqn:Ed; [|discriminate].
    destruct (positional dig base r) as [w|]; [|discriminate].
    injection H as <-. specialize (IH _ eq_refl). specialize (Hd _ _ Ed).
    assert (0 <= base ^ Z.of_nat (length r)) by (apply Z.pow_nonneg; lia). nia.
Qed.

Lemma digits_value_positional radix dig :
  digit_corr radix dig ->
  forall s acc,
    match positional dig (Z.of_N radix) s with
    | Some v => exists m, digits_value radix acc s = Some m /\
                          Z.of_N m = Z.of_N acc * Z.of_N radix ^ Z.of_nat (length s) + v
    | None => digits_value radix acc s = None
    end.
Proof.
  intros Hc. induction s as [|c r IH]; intros acc; cbn [positional digits_value].
  - exists acc. split; [reflexivity|]. cbn. lia.
  - specialize (Hc c). destruct (to_digit radix c) as [d|]; rewrite Hc; [|reflexivity].
    specialize (IH (acc * radix + d)%N).
    destruct (positional dig (Z.of_N radix) r) as [v|]; [|exact IH].
    destruct IH as [m [Hm Hv]]. exists m. split; [exact Hm|].
    rewrite Hv. cbn [length]. rewrite Nat2Z.inj_succ, Z.pow_succ_r by lia. lia.
Qed.

(* from_str_radix on a text without sign *)
Definition no_sign (s : str) : Prop :=
  match s with c :: _ => c <> 45%N /\ c <> 43%N | [] => True end.

Lemma from_str_radix_unsigned radix dig s :
  digit_corr radix dig -> no_sign s -> s <> [] ->
  from_str_radix s radix =
    match positional dig (Z.of_N radix) s with
    | Some v => if v <=? i64_max then Some v else None
    | None => None
    end.
Proof.
  intros Hc Hs Hne. destruct s as [|c r]; [congruence|]. clear Hne.
  cbn [no_sign] in Hs. destruct Hs as [H45 H43].
  unfold from_str_radix.
  replace (c =? 45)%N with false by lia. replace (c =? 43)%N with false by lia.
  pose proof (digits_value_positional radix dig Hc (c :: r) 0%N) as H.
  destruct (positional dig (Z.of_N radix) (c :: r)) as [v|] eqn:Ep.
  - destruct H as [m [-> Hv]]. change (Z.of_N 0) with 0 in Hv. rewrite Z.mul_0_l, Z.add_0_l in Hv.
    rewrite Hv. unfold in_i64.
    assert (0 <= v) by lia.
    replace (i64_min <=? v) with true by (unfold i64_min; lia). reflexivity.
  - rewrite H. reflexivity.
Qed.

Lemma hex_nonneg c d : hex_digit c = Some d -> 0 <= d.
Proof. unfold hex_digit. repeat match goal with |- context [if ?b then _ else _] => destruct b eqn:? end; intros [= <-]; lia. Qed.
Lemma oct_nonneg c d : oct_digit c = Some d -> 0 <= d.
Proof. unfold oct_digit. repeat match goal with |- context [if ?b then _ else _] => destruct b eqn:? end; intros [= <-]; lia. Qed.
Lemma dec_nonneg c d : dec_digit c = Some d -> 0 <= d.
Proof. unfold dec_digit. repeat match goal with |- context [if ?b then _ else _] => destruct b eqn:? end; intros [= <-]; lia. Qed.

Lemma representable_nonneg v : 0 <= v -> (if v <=? i64_max then Some v else None) = representable v.
Proof.
  intros H. unfold representable, in_i64. replace (i64_min <=? v) with true by (unfold i64_min; lia).
  reflexivity.
Qed.

Lemma from_str_radix_pos radix dig s :
  digit_corr radix dig -> (forall c d, dig c = Some d -> 0 <= d) -> no_sign s ->
  from_str_radix s radix =
    match s with
    | [] => None
    | _ => match positional dig (Z.of_N radix) s with
           | Some v => representable v
           | None => None
           end
    end.
Proof.
  intros Hc Hd Hs. destruct s as [|c r]; [reflexivity|].
  rewrite (from_str_radix_unsigned radix dig) by (assumption || discriminate).
  destruct (positional dig (Z.of_N radix) (c :: r)) as [v|] eqn:E; [|reflexivity].
  apply representable_nonneg. eapply positional_nonneg; [| |exact E]; [lia|exact Hd].
Qed.

Lemma from_str_radix_neg radix dig s :
  digit_corr radix dig ->
  from_str_radix (45%N :: s) radix =
    match s with
    | [] => None
    | _ => match positional dig (Z.of_N radix) s with
           | Some v => representable (- v)
           | None => None
           end
    end.
Proof.
  intros Hc. unfold from_str_radix. change (45 =? 45)%N with true. cbv iota.
  destruct s as [|c r]; [reflexivity|].
  pose proof (digits_value_positional radix dig Hc (c :: r) 0%N) as H.
  destruct (positional dig (Z.of_N radix) (c :: r)) as [v|].
  - destruct H as [m [-> Hv]]. change (Z.of_N 0) with 0 in Hv. rewrite Z.mul_0_l, Z.add_0_l in Hv.
    rewrite Hv. reflexivity.
  - rewrite H. reflexivity.
Qed.

Lemma positional_bad dig base c r : dig c = None -> positional dig base (c :: r) = None.
Proof. intros H. cbn [positional]. now rewrite H. Qed.

Lemma positional_oct_0 r : positional oct_digit 8 (48%N :: r) = positional oct_digit 8 r.
Proof.
  cbn [positional]. change (oct_digit 48) with (Some 0).
  destruct (positional oct_digit 8 r); [|reflexivity]. f_equal; lia.
Qed.

Definition plain (s : str) : Prop := Forall (fun c => c <> 45%N /\ c <> 43%N) s.

Lemma plain_no_sign s : plain s -> no_sign s.
Proof. intros H. destruct s; [exact I|]. now inversion H. Qed.

(* the radix rule of constant tokens = the C grammar of integer constants *)
Lemma parse_constant_spec tok : plain tok -> parse_constant tok = constant_value tok.
Proof.
  intros Hp. unfold parse_constant, constant_value, constant_magnitude, lit_0X, lit_0x, lit_0, starts_with.
  destruct tok as [|c r].
  - reflexivity.
  - cbn [strip_prefix]. rewrite (N.eqb_sym 48 c).
    destruct (N.eqb_spec c 48) as [->|Hc].
    + destruct r as [|x ds].
      * reflexivity.
      * cbn [strip_prefix]. rewrite (N.eqb_sym 88 x), (N.eqb_sym 120 x).
        assert (Hds : plain ds) by (inversion Hp as [|? ? ? H2]; now inversion H2).
        destruct (N.eqb_spec x 88) as [->|H88].
        { cbn [orb]. rewrite (from_str_radix_pos 16 hex_digit) by
            (apply digit_corr_16 || apply hex_nonneg || now apply plain_no_sign).
          replace (120 =? 88)%N with false by reflexivity. cbn [orb].
          change (Z.of_N 16) with 16.
          destruct ds; [reflexivity|].
          destruct (positional hex_digit 16 (n :: ds)) as [v|] eqn:E; [|reflexivity].
          symmetry. apply representable_nonneg.
          eapply positional_nonneg; [| |exact E]; [lia|exact hex_nonneg]. }
        destruct (N.eqb_spec x 120) as [->|H120].
        { cbn [orb]. rewrite (from_str_radix_pos 16 hex_digit) by
            (apply digit_corr_16 || apply hex_nonneg || now apply plain_no_sign).
          change (Z.of_N 16) with 16.
          destruct ds; [reflexivity|].
          destruct (positional hex_digit 16 (n :: ds)) as [v|] eqn:E; [|reflexivity].
          symmetry. apply representable_nonneg.
          eapply positional_nonneg; [| |exact E]; [lia|exact hex_nonneg]. }
        cbn [orb].
        rewrite (from_str_radix_pos 8 oct_digit) by
            (apply digit_corr_8 || apply oct_nonneg || now apply plain_no_sign).
        change (Z.of_N 8) with 8. rewrite positional_oct_0.
        destruct (positional oct_digit 8 (x :: ds)) as [v|] eqn:E; [|reflexivity].
        symmetry. apply representable_nonneg.
        eapply positional_nonneg; [| |exact E]; [lia|exact oct_nonneg].
    + rewrite (from_str_radix_pos 10 dec_digit) by
            (apply digit_corr_10 || apply dec_nonneg || now apply plain_no_sign).
      change (Z.of_N 10) with 10.
      destruct (positional dec_digit 10 (c :: r)) as [v|] eqn:E; [|reflexivity].
      symmetry. apply representable_nonneg.
      eapply positional_nonneg; [| |exact E]; [lia|exact dec_nonneg].
Qed.

(* the part of parse_integer after the sign has been split off *)
Definition pi_tail (neg : bool) (magnitude : str) : option Z :=
  let '(digits, radix) :=
    match strip_prefix lit_0x magnitude with
    | Some d => (d, 16%N)
    | None =>
        match strip_prefix lit_0X magnitude with
        | Some d => (d, 16%N)
        | None => if starts_with lit_0 magnitude then (magnitude, 8%N) else (magnitude, 10%N)
        end
    end in
  if starts_with lit_plus digits || starts_with lit_minus digits then None
  else from_str_radix ((if neg then lit_minus else []) ++ digits) radix.

Lemma sign_first_dec (digits : str) (radix : N) (dig : N -> option Z) (neg : bool) :
  digit_corr radix dig -> (forall c d, dig c = Some d -> 0 <= d) ->
  dig 43%N = None -> dig 45%N = None ->
  (if starts_with lit_plus digits || starts_with lit_minus digits then None
   else from_str_radix ((if neg then lit_minus else []) ++ digits) radix) =
  match digits with
  | [] => None
  | _ => match positional dig (Z.of_N radix) digits with
         | Some v => representable (if neg then - v else v)
         | None => None
         end
  end.
Proof.
  intros Hc Hd H43 H45. unfold starts_with, lit_plus, lit_minus.
  destruct digits as [|c r].
  - destruct neg; reflexivity.
  - cbn [strip_prefix]. rewrite (N.eqb_sym 43 c), (N.eqb_sym 45 c).
    destruct (N.eqb_spec c 43) as [->|N43].
    { cbn [orb]. now rewrite positional_bad. }
    destruct (N.eqb_spec c 45) as [->|N45].
    { cbn [orb]. now rewrite positional_bad. }
    cbn [orb]. destruct neg.
    + cbn [app]. now rewrite (from_str_radix_neg radix dig).
    + cbn [app]. rewrite (from_str_radix_pos radix dig); [reflexivity|assumption|assumption|].
      cbn. split; assumption.
Qed.

Lemma pi_tail_spec neg magnitude :
  pi_tail neg magnitude =
  match constant_magnitude magnitude with
  | Some z => representable (if neg then - z else z)
  | None => None
  end.
Proof.
  unfold pi_tail, constant_magnitude, lit_0x, lit_0X, lit_0, starts_with at 1.
  destruct magnitude as [|c r].
  - cbn. destruct neg; reflexivity.
  - cbn [strip_prefix]. rewrite (N.eqb_sym 48 c).
    destruct (N.eqb_spec c 48) as [->|Hc].
    + destruct r as [|x ds].
      * cbn. destruct neg; reflexivity.
      * cbn [strip_prefix]. rewrite (N.eqb_sym 88 x), (N.eqb_sym 120 x).
        destruct (N.eqb_spec x 120) as [->|H120].
        { cbn [orb]. rewrite (sign_first_dec ds 16 hex_digit neg) by
            (apply digit_corr_16 || apply hex_nonneg || reflexivity).
          destruct ds; reflexivity. }
        destruct (N.eqb_spec x 88) as [->|H88].
        { cbn [orb]. rewrite (sign_first_dec ds 16 hex_digit neg) by
            (apply digit_corr_16 || apply hex_nonneg || reflexivity).
          destruct ds; reflexivity. }
        cbn [orb].
        rewrite (sign_first_dec (48%N :: x :: ds) 8 oct_digit neg) by
            (apply digit_corr_8 || apply oct_nonneg || reflexivity).
        change (Z.of_N 8) with 8. now rewrite positional_oct_0.
    + rewrite (sign_first_dec (c :: r) 10 dec_digit neg) by
            (apply digit_corr_10 || apply dec_nonneg || reflexivity).
      reflexivity.
Qed.

(* expand_variable reads a value as the specification says *)
Lemma parse_integer_spec v : parse_integer v = variable_value v.
Proof.
  unfold parse_integer, variable_value. fold (pi_tail).
  destruct v as [|c m].
  - reflexivity.
  - unfold lit_minus at 1, lit_plus at 1. cbn [strip_prefix].
    rewrite (N.eqb_sym 45 c), (N.eqb_sym 43 c).
    destruct (N.eqb_spec c 45) as [->|N45].
    + change (pi_tail true m = match option_map Z.opp (constant_magnitude m) with
                               | Some z => representable z | None => None end).
      rewrite pi_tail_spec. destruct (constant_magnitude m); reflexivity.
    + destruct (N.eqb_spec c 43) as [->|N43].
      * change (pi_tail false m = match constant_magnitude m with
                                  | Some z => representable z | None => None end).
        now rewrite pi_tail_spec.
      * change (pi_tail false (c :: m) = match constant_magnitude (c :: m) with
                                  | Some z => representable z | None => None end).
        now rewrite pi_tail_spec.
Qed.
