(* C03 — proofs, part 4: the tokenizer.  First match in the order of OPERATORS is
   maximal munch; Tokens::next_token iterated yields the specified tokens. *)
From Yv Require Import Common.Base C03.Defs C03.Model C03.Spec C03.ProofsArith C03.ProofsNum.
From Coq Require Import ZArith NArith Lia ZifyBool.

(* ---- prefixes ----------------------------------------------------------- *)

Lemma strip_prefix_spec p s :
  strip_prefix p s = if is_prefix p s then Some (skipn (length p) s) else None.
Proof.
  revert s. induction p as [|a p IH]; intros s; [reflexivity|].
  destruct s as [|b s]; [reflexivity|]. cbn [strip_prefix is_prefix length skipn].
  destruct (a =? b)%N; [apply IH|reflexivity].
Qed.

Lemma is_prefix_length p s : is_prefix p s = true -> (length p <= length s)%nat.
Proof.
  revert s. induction p as [|a p IH]; intros [|b s]; cbn; try lia; try discriminate.
  intros H. apply andb_prop in H. destruct H as [_ H]. apply IH in H. lia.
Qed.

(* two prefixes of the same text are comparable *)
Lemma is_prefix_comparable p q s :
  is_prefix p s = true -> is_prefix q s = true -> (length p <= length q)%nat ->
  is_prefix p q = true.
Proof.
  revert q s. induction p as [|a p IH]; intros q s Hp Hq Hl; [reflexivity|].
  destruct s as [|c s]; [discriminate|]. destruct q as [|b q]; [cbn in Hl; lia|].
  cbn in *. apply andb_prop in Hp. apply andb_prop in Hq.
  destruct Hp as [Hac Hp], Hq as [Hbc Hq].
  apply N.eqb_eq in Hac, Hbc. subst. rewrite N.eqb_refl. cbn.
  eapply IH; eauto. lia.
Qed.

Lemma is_prefix_same_length p q :
  is_prefix p q = true -> length p = length q -> p = q.
Proof.
  revert q. induction p as [|a p IH]; intros [|b q]; cbn; try discriminate; auto.
  intros H Hl. apply andb_prop in H. destruct H as [Hab H]. apply N.eqb_eq in Hab.
  subst. f_equal. apply IH; [assumption|lia].
Qed.

(* ---- the table: first match in table order --------------------------------- *)

Definition op_order : list oper := map snd operators.

Lemma operators_map : operators = map (fun o => (lexeme o, o)) op_order.
Proof. reflexivity. Qed.

Lemma find_operator_first l s :
  find_operator (map (fun o => (lexeme o, o)) l) s =
  match find (fun o => is_prefix (lexeme o) s) l with
  | Some o => Some (lexeme o, o, skipn (length (lexeme o)) s)
  | None => None
  end.
Proof.
  induction l as [|o l IH]; [reflexivity|].
  cbn [map find_operator find]. rewrite strip_prefix_spec.
  destruct (is_prefix (lexeme o) s); [reflexivity|apply IH].
Qed.

Lemma find_split {A} (p : A -> bool) l x :
  find p l = Some x ->
  exists l1 l2, l = l1 ++ x :: l2 /\ p x = true /\ forall y, In y l1 -> p y = false.
Proof.
  induction l as [|a l IH]; [discriminate|]. cbn. destruct (p a) eqn:E.
  - intros [= <-]. exists [], l. repeat split; auto. intros y [].
  - intros H. destruct (IH H) as [l1 [l2 [-> [Hx Hl1]]]].
    exists (a :: l1), l2. repeat split; auto. intros y [<-|Hy]; auto.
Qed.

Lemma find_none {A} (p : A -> bool) l : find p l = None -> forall y, In y l -> p y = false.
Proof.
  induction l as [|a l IH]; [intros _ y []|]. cbn. destruct (p a) eqn:E; [discriminate|].
  intros H y [<-|Hy]; auto.
Qed.

(* ---- maximal munch ------------------------------------------------------------- *)

Definition matches (s : str) (o : oper) : Prop := is_prefix (lexeme o) s = true.
Definition len (o : oper) : nat := length (lexeme o).

Lemma longer_fold s l init :
  (match init with Some b => matches s b | None => True end) ->
  match fold_left (longer s) l init with
  | Some b => matches s b /\ (In b l \/ init = Some b) /\
              (forall o, In o l \/ init = Some o -> matches s o -> (len o <= len b)%nat)
  | None => init = None /\ forall o, In o l -> ~ matches s o
  end.
Proof.
  revert init. induction l as [|x l IH]; intros init Hinit.
  - cbn. destruct init as [b|].
    + repeat split; auto. intros o [[]|[= <-]] _. lia.
    + split; auto.
  - cbn [fold_left].
    assert (Hnext : match longer s init x with Some b => matches s b | None => True end).
    { unfold longer. destruct (is_prefix (lexeme x) s) eqn:E; [|exact Hinit].
      destruct init as [b|]; [|exact E]. destruct (Nat.ltb _ _); [exact E|exact Hinit]. }
    specialize (IH _ Hnext).
    destruct (fold_left (longer s) l (longer s init x)) as [b|].
    + destruct IH as [Hb [Hin Hmax]]. split; [exact Hb|]. split.
      * destruct Hin as [Hin|Hin]; [left; now right|].
        unfold longer in Hin. destruct (is_prefix (lexeme x) s).
        -- destruct init as [b0|].
           ++ destruct (Nat.ltb _ _); [injection Hin as <-; left; now left|now right].
           ++ injection Hin as <-. left; now left.
        -- now right.
      * intros o Ho Hm.
        assert (Hcase : In o l \/ longer s init x = Some o \/
                        (exists b0, longer s init x = Some b0 /\ (len o <= len b0)%nat)).
        { destruct Ho as [[<-|Ho]|Ho]; auto.
          - right. unfold longer. unfold matches in Hm. rewrite Hm.
            destruct init as [b0|]; [|now left].
            destruct (Nat.ltb (length (lexeme b0)) (length (lexeme x))) eqn:E; [now left|].
            right. exists b0. split; [reflexivity|]. apply Nat.ltb_ge in E. exact E.
          - subst init. right. unfold longer.
            destruct (is_prefix (lexeme x) s); [|now left].
            destruct (Nat.ltb (length (lexeme o)) (length (lexeme x))) eqn:E; [|now left].
            right. exists x. split; [reflexivity|]. apply Nat.ltb_lt in E. unfold len. lia. }
        destruct Hcase as [H|[H|[b0 [H Hle]]]].
        -- apply Hmax; auto.
        -- apply Hmax; auto.
        -- assert (len b0 <= len b)%nat; [|lia]. apply Hmax; [now right|].
           rewrite H in Hnext. exact Hnext.
    + destruct IH as [Hn Hno]. unfold longer in Hn.
      destruct (is_prefix (lexeme x) s) eqn:E.
      * destruct init as [b0|]; [destruct (Nat.ltb _ _)|]; discriminate.
      * split; [exact Hn|]. intros o [<-|Ho]; [unfold matches; congruence|now apply Hno].
Qed.

(* ---- facts about the two tables, by computation ---------------------------------- *)

Definition proper_prefix_b (p q : str) : bool :=
  is_prefix p q && Nat.ltb (length p) (length q).

Fixpoint ordered_b (l : list oper) : bool :=
  match l with
  | [] => true
  | x :: r => forallb (fun y => negb (proper_prefix_b (lexeme x) (lexeme y))) r && ordered_b r
  end.

Lemma ordered_b_spec l :
  ordered_b l = true ->
  forall l1 x l2 y, l = l1 ++ x :: l2 -> In y l2 ->
    proper_prefix_b (lexeme x) (lexeme y) = false.
Proof.
  induction l as [|a l IH]; intros H l1 x l2 y E Hy.
  - destruct l1; discriminate.
  - cbn [ordered_b] in H. apply andb_prop in H. destruct H as [Ha Hl].
    destruct l1 as [|b l1]; cbn [app] in E; injection E as -> ->.
    + rewrite forallb_forall in Ha. specialize (Ha y Hy). now apply negb_true_iff in Ha.
    + eapply IH; eauto.
Qed.

Lemma op_order_ordered : ordered_b op_order = true.
Proof. vm_compute. reflexivity. Qed.

Lemma in_by_eqb o l : existsb (oper_eqb o) l = true -> In o l.
Proof.
  intros H. apply existsb_exists in H. destruct H as [x [Hx E]].
  unfold oper_eqb in E. destruct (oper_eq_dec o x); [now subst|discriminate].
Qed.

Lemma op_order_complete o : In o op_order.
Proof. apply in_by_eqb. destruct o; vm_compute; reflexivity. Qed.

Lemma all_opers_complete o : In o all_opers.
Proof. apply in_by_eqb. destruct o; vm_compute; reflexivity. Qed.

Definition lexeme_inj_b : bool :=
  forallb (fun a => forallb (fun b => oper_eqb a b || negb (str_eqb (lexeme a) (lexeme b)))
                            all_opers) all_opers.

Lemma lexeme_inj a b : lexeme a = lexeme b -> a = b.
Proof.
  intros H. assert (Hb : lexeme_inj_b = true) by (vm_compute; reflexivity).
  unfold lexeme_inj_b in Hb. rewrite forallb_forall in Hb.
  specialize (Hb a (all_opers_complete a)). rewrite forallb_forall in Hb.
  specialize (Hb b (all_opers_complete b)).
  apply orb_prop in Hb. destruct Hb as [Hb|Hb].
  - unfold oper_eqb in Hb. now destruct (oper_eq_dec a b).
  - apply negb_true_iff in Hb. assert (str_eqb (lexeme a) (lexeme b) = true) by (now apply str_eqb_eq).
    congruence.
Qed.

Lemma longest_operator_spec s :
  match longest_operator s with
  | Some b => matches s b /\ forall o, matches s o -> (len o <= len b)%nat
  | None => forall o, ~ matches s o
  end.
Proof.
  unfold longest_operator.
  pose proof (longer_fold s all_opers None I) as HL.
  destruct (fold_left (longer s) all_opers None) as [b|].
  - destruct HL as [Hb [_ Hmax]]. split; [exact Hb|].
    intros o Ho. apply Hmax; [left; apply all_opers_complete|exact Ho].
  - destruct HL as [_ Hno]. intros o. apply Hno, all_opers_complete.
Qed.

(* The first lexeme of OPERATORS (in table order) that is a prefix of the text
   is the longest operator lexeme that is a prefix of the text. *)
Lemma first_match_is_longest s :
  match find_operator operators s with
  | Some (lx, o, rest) =>
      longest_operator s = Some o /\ lx = lexeme o /\ rest = skipn (length (lexeme o)) s
  | None => longest_operator s = None
  end.
Proof.
  rewrite operators_map, find_operator_first.
  pose proof (longest_operator_spec s) as HL.
  destruct (find (fun o => is_prefix (lexeme o) s) op_order) as [o|] eqn:Ef.
  - split; [|split; reflexivity].
    destruct (find_split _ _ _ Ef) as [l1 [l2 [Eorder [Ho Hl1]]]].
    destruct (longest_operator s) as [b|].
    + destruct HL as [Hb Hmax]. f_equal.
      assert (Hle : (len o <= len b)%nat) by (apply Hmax; exact Ho).
      assert (Hpre : is_prefix (lexeme o) (lexeme b) = true)
        by (eapply is_prefix_comparable; eauto).
      pose proof (op_order_complete b) as Hin. rewrite Eorder in Hin.
      apply in_app_or in Hin. destruct Hin as [Hin|[Hin|Hin]].
      * apply Hl1 in Hin. unfold matches in Hb. congruence.
      * symmetry. exact Hin.
      * pose proof (ordered_b_spec _ op_order_ordered l1 o l2 b Eorder Hin) as Hnp.
        unfold proper_prefix_b in Hnp. rewrite Hpre in Hnp. cbn [andb] in Hnp.
        apply Nat.ltb_ge in Hnp. unfold len in Hle.
        apply lexeme_inj. symmetry. apply is_prefix_same_length; [exact Hpre|lia].
    + exfalso. apply (HL o). exact Ho.
  - destruct (longest_operator s) as [b|]; [|reflexivity].
    destruct HL as [Hb _]. pose proof (find_none _ _ Ef b (op_order_complete b)) as H.
    unfold matches in Hb. cbn beta in H. congruence.
Qed.

(* ---- the tokenizer --------------------------------------------------------------- *)

Definition erase_tok (t : tokval * range) : stok :=
  match fst t with
  | TkTerm (TValue z) => SNum z
  | TkTerm (TVariable x _) => SVar x
  | TkOp o => SOp o
  end.

Definition erase (ts : list (tokval * range)) : list stok := map erase_tok ts.

Lemma trim_start_drop cls s : fst (trim_start cls s) = drop_while (is_ws cls) s.
Proof.
  induction s as [|c r IH]; [reflexivity|]. cbn [trim_start drop_while].
  destruct (is_ws cls c); [|reflexivity]. destruct (trim_start cls r). exact IH.
Qed.

Lemma drop_while_length p s : (length (drop_while p s) <= length s)%nat.
Proof. induction s as [|c r IH]; cbn; [lia|]. destruct (p c); cbn; lia. Qed.

Lemma span_take_drop p s : span p s = (take_while p s, drop_while p s).
Proof.
  induction s as [|c r IH]; [reflexivity|]. cbn [span take_while drop_while].
  destruct (p c); [|reflexivity]. now rewrite IH.
Qed.

Lemma take_while_all p s : Forall (fun c => p c = true) (take_while p s).
Proof.
  induction s as [|c r IH]; cbn; [constructor|]. destruct (p c) eqn:E; constructor; auto.
Qed.

Lemma take_drop_length p s : (length (take_while p s) + length (drop_while p s) = length s)%nat.
Proof. induction s as [|c r IH]; cbn; [lia|]. destruct (p c); cbn; lia. Qed.

Lemma utf8_len_pos c : (1 <= utf8_len c)%N.
Proof. unfold utf8_len. repeat destruct (_ <? _)%N; lia. Qed.

Lemma utf8_bytes_zero s : (utf8_bytes s =? 0)%N = true <-> s = [].
Proof.
  destruct s as [|c r]; cbn [utf8_bytes]; [split; auto|].
  pose proof (utf8_len_pos c). split; [lia|discriminate].
Qed.

Lemma word_plain cls w : Forall (fun c => is_word cls c = true) w -> plain w.
Proof.
  unfold plain. apply Forall_impl. intros c H. split; intros ->; discriminate H.
Qed.

Lemma from_str_radix_I64 s r z : from_str_radix s r = Some z -> I64 z.
Proof.
  unfold from_str_radix. destruct s as [|c s']; [discriminate|].
  destruct (if (c =? 45)%N then _ else _) as [neg ds]. destruct ds; [discriminate|].
  destruct (digits_value r 0 (n :: ds)); [|discriminate].
  destruct (in_i64 _) eqn:E; [|discriminate]. intros [= <-]. now apply in_i64_iff.
Qed.

Lemma parse_constant_I64 w z : parse_constant w = Some z -> I64 z.
Proof.
  unfold parse_constant. destruct (strip_prefix lit_0X w); [apply from_str_radix_I64|].
  destruct (strip_prefix lit_0x w); [apply from_str_radix_I64|].
  destruct (starts_with lit_0 w); apply from_str_radix_I64.
Qed.

Definition tok_ok (t : tokval * range) : Prop :=
  match fst t with TkTerm (TValue z) => I64 z | _ => True end.

Lemma skipn_length_lt {A} n (l : list A) : (0 < n <= length l)%nat -> (length (skipn n l) < length l)%nat.
Proof. intros H. rewrite skipn_length. lia. Qed.

Lemma lexeme_nonempty o : (0 < length (lexeme o))%nat.
Proof. destruct o; cbn; lia. Qed.

(* tokenize and the specified token sequence agree, for every amount of fuel
   that exceeds the length of the text *)
Lemma tokenize_slex cls f : forall s idx,
  (length s < f)%nat ->
  match tokenize f cls s idx with
  | (ts, FEnd _) => slex f cls s = Some (erase ts) /\ Forall tok_ok ts
  | (ts, FErr _ _) => slex f cls s = None
  | (_, FFuel) => False
  end.
Proof.
  induction f as [|f IH]; intros s idx Hf; [lia|].
  cbn [tokenize slex]. unfold next_token.
  pose proof (trim_start_drop cls s) as Htrim.
  pose proof (drop_while_length (is_ws cls) s) as Hlen.
  destruct (trim_start cls s) as [source dropped]. cbn [fst] in Htrim. rewrite <- Htrim in *.
  clear Htrim.
  destruct source as [|c rest0] eqn:Esrc.
  - split; [reflexivity|constructor].
  - rewrite <- Esrc in *.
    pose proof (first_match_is_longest source) as Hop.
    destruct (find_operator operators source) as [[[lx o] rest]|].
    + destruct Hop as [Hlo [-> ->]].
      assert (Hpre : is_prefix (lexeme o) source = true).
      { pose proof (longest_operator_spec source) as H. rewrite Hlo in H.
        destruct H as [H _]. exact H. }
      rewrite Hlo.
      assert (Hl2 : (length (skipn (length (lexeme o)) source) < f)%nat).
      { pose proof (is_prefix_length _ _ Hpre). pose proof (lexeme_nonempty o).
        pose proof (skipn_length_lt (length (lexeme o)) source ltac:(lia)). lia. }
      specialize (IH (skipn (length (lexeme o)) source)
                     (idx + dropped + utf8_bytes (lexeme o))%N Hl2).
      rewrite Esrc in *.
      destruct (tokenize f cls _ _) as [ts fi]. destruct fi.
      * destruct IH as [-> Hok]. split; [reflexivity|]. constructor; [exact I|exact Hok].
      * rewrite IH. reflexivity.
      * exact IH.
    + rewrite Hop. rewrite span_take_drop.
      pose proof (take_while_all (is_word cls) source) as Hall.
      pose proof (take_drop_length (is_word cls) source) as Htd.
      rewrite Esrc in *.
      destruct (utf8_bytes (take_while (is_word cls) (c :: rest0)) =? 0)%N eqn:Ez.
      * apply utf8_bytes_zero in Ez. rewrite Ez. reflexivity.
      * destruct (take_while (is_word cls) (c :: rest0)) as [|w0 w] eqn:Ew.
        { exfalso. assert (utf8_bytes (@nil N) =? 0 = true)%N by reflexivity. congruence. }
        rewrite <- Ew in *.
        assert (Hl2 : (length (drop_while (is_word cls) (c :: rest0)) < f)%nat).
        { rewrite Ew in Htd. cbn [length] in Htd, Hlen. lia. }
        specialize (IH (drop_while (is_word cls) (c :: rest0))
                       (idx + dropped + utf8_bytes (take_while (is_word cls) (c :: rest0)))%N Hl2).
        destruct (ascii_digit c).
        -- rewrite (parse_constant_spec _ (word_plain cls _ Hall)).
           pose proof (parse_constant_I64 (take_while (is_word cls) (c :: rest0))) as HI.
           rewrite (parse_constant_spec _ (word_plain cls _ Hall)) in HI.
           rewrite Ew in *.
           destruct (constant_value (w0 :: w)) as [z|]; [|reflexivity].
           destruct (tokenize f cls _ _) as [ts fi]. destruct fi.
           ++ destruct IH as [-> Hok]. split; [reflexivity|].
              constructor; [exact (HI z eq_refl)|exact Hok].
           ++ rewrite IH. reflexivity.
           ++ exact IH.
        -- rewrite Ew in *.
           destruct (tokenize f cls _ _) as [ts fi]. destruct fi.
           ++ destruct IH as [-> Hok]. split; [reflexivity|]. constructor; [exact I|exact Hok].
           ++ rewrite IH. reflexivity.
           ++ exact IH.
Qed.

Lemma lex_equiv cls s :
  match tokens_of cls s with
  | (ts, FEnd _) => spec_lex cls s = Some (erase ts) /\ Forall tok_ok ts
  | (ts, FErr _ _) => spec_lex cls s = None
  | (_, FFuel) => False
  end.
Proof. apply tokenize_slex. lia. Qed.
