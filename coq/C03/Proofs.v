(* C03 — proofs, part 7: yash_arith::eval (model) against the specification. *)
From Yv Require Import Common.Base C03.Defs C03.Model C03.Spec C03.ProofsArith C03.ProofsNum
  C03.ProofsLex C03.ProofsEval C03.ProofsParse C03.ProofsParse2.
From Coq Require Import ZArith NArith Lia ZifyBool.

(* ---- constants of a parsed expression are the constants of its tokens ------------------ *)

Definition stok_ok (t : stok) : Prop := match t with SNum z => I64 z | _ => True end.

Lemma postfix_ops_ok e ts :
  expr_ok e -> Forall stok_ok ts ->
  expr_ok (fst (postfix_ops e ts)) /\ Forall stok_ok (snd (postfix_ops e ts)).
Proof.
  revert e. induction ts as [|[z|x|o] ts IH]; intros e He Hts; cbn [postfix_ops]; try (split; assumption).
  destruct (postfix_operator o); [|split; assumption]. apply IH; [exact He|now inversion Hts].
Qed.

Lemma sp_chain_ok g :
  (forall lvl ts e r, sp g lvl ts = Some (e, r) -> Forall stok_ok ts ->
     expr_ok e /\ Forall stok_ok r) /\
  (forall lvl a ts e r, chain g lvl a ts = Some (e, r) -> expr_ok a -> Forall stok_ok ts ->
     expr_ok e /\ Forall stok_ok r).
Proof.
  induction g as [|g [IHs IHc]].
  - split; intros; discriminate.
  - assert (Hs : forall lvl ts e r, sp (S g) lvl ts = Some (e, r) -> Forall stok_ok ts ->
                   expr_ok e /\ Forall stok_ok r).
    { induction lvl as [|l IHl]; intros ts e r.
      - rewrite sp_0. unfold unary.
        destruct ts as [|[z|x|o] ts]; try discriminate; intros H Hts; inversion Hts as [|? ? Hh Ht]; subst.
        + pose proof (postfix_ops_ok (ENum z) ts Hh Ht) as P. injection H as H. rewrite H in P. exact P.
        + pose proof (postfix_ops_ok (EVar x) ts I Ht) as P. injection H as H. rewrite H in P. exact P.
        + assert (Hpre : forall p, match sp g 0 ts with
                          | Some (e0, r') => Some (EPre p e0, r') | None => None end = Some (e, r) ->
                          expr_ok e /\ Forall stok_ok r).
          { intros p. destruct (sp g 0 ts) as [[e0 r']|] eqn:E; [|discriminate].
            intros [= <- <-]. apply IHs in E; auto. }
          destruct o; cbn [prefix_operator] in H; try discriminate; try (eapply Hpre; exact H).
          destruct (sp g assignment_level ts) as [[e0 r0]|] eqn:E; [|discriminate].
          apply IHs in E; auto. destruct E as [E1 E2].
          destruct r0 as [|[z|x|o] r0]; try discriminate. destruct o; try discriminate.
          inversion E2; subst.
          pose proof (postfix_ops_ok e0 r0 E1 ltac:(assumption)) as P.
          injection H as H. rewrite H in P. exact P.
      - rewrite sp_S. destruct (sp (S g) l ts) as [[a r0]|] eqn:E; [|discriminate].
        intros H Hts. apply IHl in E; auto. destruct E as [Ea Er0]. unfold stail, tail in H.
        destruct (Nat.eqb (S l) conditional_level).
        + destruct r0 as [|[z|x|o] r0]; try (injection H as <- <-; auto).
          destruct o; try (injection H as <- <-; auto).
          inversion Er0; subst.
          destruct (sp g assignment_level r0) as [[t r1]|] eqn:E1; [|discriminate].
          apply IHs in E1; auto. destruct E1 as [Et Er1].
          destruct r1 as [|[z|x|o] r1]; try discriminate. destruct o; try discriminate.
          inversion Er1; subst.
          destruct (sp g conditional_level r1) as [[f r2]|] eqn:E2; [|discriminate].
          apply IHs in E2; auto. destruct E2 as [Ef Er2].
          injection H as <- <-. cbn. auto.
        + destruct (Nat.eqb (S l) assignment_level).
          * destruct r0 as [|[z|x|o] r0]; try (injection H as <- <-; auto).
            destruct (op_assoc o assignment_operators); [|injection H as <- <-; auto].
            inversion Er0; subst.
            destruct (sp g assignment_level r0) as [[v r1]|] eqn:E1; [|discriminate].
            apply IHs in E1; auto. destruct E1 as [Ev Er1].
            injection H as <- <-. cbn. auto.
          * eapply IHc; eauto. }
    split; [exact Hs|].
    intros lvl a ts e r. rewrite chain_S. intros H Ha Hts.
    destruct ts as [|[z|x|o] ts]; try (injection H as <- <-; auto).
    destruct (op_assoc o (binary_level lvl)); [|injection H as <- <-; auto].
    inversion Hts; subst.
    destruct (sp g (pred lvl) ts) as [[c r1]|] eqn:E; [|discriminate].
    apply IHs in E; auto. destruct E as [Ec Er1].
    eapply IHc; eauto. cbn. auto.
Qed.

Lemma spec_parse_ok ts e : spec_parse ts = Some e -> Forall stok_ok ts -> expr_ok e.
Proof.
  unfold spec_parse. destruct (sp (S (length ts)) assignment_level ts) as [[e0 r]|] eqn:E; [|discriminate].
  destruct r; [|discriminate]. intros [= <-] Hts.
  apply (proj1 (sp_chain_ok _)) in E; tauto.
Qed.

Lemma erase_ok ts : Forall tok_ok ts -> Forall stok_ok (erase ts).
Proof.
  induction 1 as [|[[[z|x l]|o] loc] ts H _ IH]; cbn; constructor; auto.
Qed.

(* ---- yash_arith::eval against the specification ------------------------------------------ *)

Theorem run_correct cls s env :
  match run cls s env with
  | RVal z env' => spec_run cls s env = SVal z env'
  | RErr _ _ _ => spec_run cls s env = SErr
  | RPanic | RFuel => False
  end.
Proof.
  unfold run, spec_run.
  pose proof (lex_equiv cls s) as HL.
  destruct (tokens_of cls s) as [ts fi] eqn:Et.
  pose proof (parse_equiv_lemma (ts, fi)) as HP.
  destruct fi as [loc|te loc|]; [| |contradiction].
  - destruct HL as [-> Hok]. specialize (HP I).
    destruct (parse (ts, FEnd loc)) as [ns st1|se l|]; [| |contradiction].
    + destruct HP as [e [loc' [_ [Hsp HR]]]]. unfold ets in Hsp. cbn [fst] in Hsp. rewrite Hsp.
      pose proof (spec_parse_ok _ _ Hsp (erase_ok _ Hok)) as Heok.
      pose proof (eval_top e ns env HR Heok) as HE.
      destruct (spec_eval e env) as [z env'|].
      * rewrite HE. reflexivity.
      * destruct HE as [c [l [e' ->]]]. reflexivity.
    + destruct HP as [[e [loc' HP]]|HP]; [discriminate|].
      unfold ets in HP. cbn [fst] in HP. now rewrite HP.
  - rewrite HL. specialize (HP I).
    destruct (parse (ts, FErr te loc)) as [ns st1|se l|]; [| |contradiction].
    + destruct HP as [e [loc' [HP _]]]. discriminate.
    + reflexivity.
Qed.

(* ---- corollaries --------------------------------------------------------------------------- *)

Definition answer_of_outcome (o : outcome) : answer :=
  match o with
  | RVal z e => AnsValue z e
  | RErr _ _ _ => AnsError
  | RPanic | RFuel => AnsPanic
  end.

Lemma env_sub_refl_aux (a b : env) :
  (forall x, lookup x a = lookup x b) -> env_sub a b = true.
Proof.
  intros H. unfold env_sub. apply forallb_forall. intros p _. rewrite H.
  destruct (lookup (fst p) b) as [v|]; cbn; [|reflexivity]. now apply str_eqb_eq.
Qed.

Lemma env_equiv_refl e : env_equiv e e = true.
Proof. unfold env_equiv. now rewrite env_sub_refl_aux. Qed.

Theorem oracle_sound_lemma cls s env : oracle cls s env (answer_of_outcome (run cls s env)) = 0%N.
Proof.
  pose proof (run_correct cls s env) as H. unfold oracle, oracle_for.
  destruct (run cls s env) as [z e'|c l e'| |]; cbn [answer_of_outcome]; try contradiction.
  - rewrite H. rewrite Z.eqb_refl, env_equiv_refl. reflexivity.
  - rewrite H. reflexivity.
Qed.

Theorem no_panic_lemma cls s env : run cls s env <> RPanic /\ run cls s env <> RFuel.
Proof.
  pose proof (run_correct cls s env) as H.
  destruct (run cls s env); split; try discriminate; contradiction.
Qed.

(* the vector ast::parse returns is the reverse-Polish form of a tree: the
   slicing of eval (split_last, split_at) never fails on it *)
Lemma parse_wf_lemma st ns st' :
  fin_ok st -> parse st = POk ns st' -> exists e, Repr e ns.
Proof.
  intros Hf H. pose proof (parse_equiv_lemma st Hf) as P. rewrite H in P.
  destruct P as [e [loc [_ [_ HR]]]]. eauto.
Qed.
