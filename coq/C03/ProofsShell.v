(* C03 — proofs, part 12: the evaluator over the shell's environment (nounset,
   read-only variables) against SpecShell.v, including the variables after an error. *)
From Yv Require Import Common.Base C03.Defs C03.Model C03.Spec C03.ProofsArith C03.ProofsNum
  C03.ProofsLex C03.ProofsEval C03.ProofsParse C03.ProofsParse2 C03.Proofs C03.ModelShell C03.SpecShell.
From Coq Require Import ZArith NArith Lia ZifyBool.
Local Open Scope Z_scope.

Definition agrees_vm (d : dres sterm) (r : eres Z) : Prop :=
  match d with
  | DOk t e' => exists z, t = SNumT z /\ r = EOk z e' /\ I64 z
  | DFail e' => exists c l, r = EErr c l e'
  end.

Definition agrees_m (d : dres sterm) (r : eres term) : Prop :=
  match d with
  | DOk t e' => exists mm, r = EOk mm e' /\ tmatch t mm /\ term_ok mm
  | DFail e' => exists c l, r = EErr c l e'
  end.

Lemma into_value_rvalue_m m t mm e :
  tmatch t mm -> term_ok mm ->
  match rvalue_m m t e with
  | Some z => into_value_m m mm e = EOk z e /\ I64 z
  | None => exists c l, into_value_m m mm e = EErr c l e
  end.
Proof.
  destruct t as [z|x], mm as [z'|x' loc]; cbn [tmatch term_ok]; try contradiction.
  - intros <- H. cbn. auto.
  - intros <- _. cbn [rvalue_m into_value_m]. unfold expand_variable_m.
    destruct (lookup x e) as [v|].
    + rewrite parse_integer_spec. destruct (variable_value v) eqn:E.
      * split; [reflexivity|]. eapply variable_value_I64; eassumption.
      * eauto.
    + destruct (nounset m); [eauto|]. split; [reflexivity|]. unfold I64. lia.
Qed.

Lemma expand_variable_rvalue_m m x l e :
  match rvalue_m m (SVarT x) e with
  | Some z => expand_variable_m m x l e = EOk z e /\ I64 z
  | None => exists c l', expand_variable_m m x l e = EErr c l' e
  end.
Proof. exact (into_value_rvalue_m m (SVarT x) (TVariable x l) e eq_refl I). Qed.

Lemma assign_store_m m x z loc e :
  match store_m m x z e with
  | DOk z' e' => z' = z /\ assign_m m x z loc e = EOk z e'
  | DFail e' => exists c l, assign_m m x z loc e = EErr c l e'
  end.
Proof.
  unfold store_m, assign_m. destruct (existsb (str_eqb x) (readonly m)); eauto.
Qed.

Lemma incdec_spec_m m x l loc e d (keep : bool) :
  agrees_vm (incdec_m m (SVarT x) d keep e)
    (do value, e <- expand_variable_m m x l e;
     do nv, e <- unwrap_or_overflow (checked (value + d)) loc e;
     do r, e <- assign_m m x nv l e;
     EOk (if keep then value else r) e).
Proof.
  unfold incdec_m. cbn [lvalue lift dbind].
  pose proof (expand_variable_rvalue_m m x l e) as H.
  destruct (rvalue_m m (SVarT x) e) as [n|]; cbn [lift dbind].
  - destruct H as [-> Hn]. cbn [ebind]. change checked with representable.
    destruct (representable (n + d)) as [r|] eqn:E; cbn [lift dbind unwrap_or_overflow ebind].
    + apply representable_I64 in E. destruct E as [_ E].
      pose proof (assign_store_m m x r l e) as HA.
      destruct (store_m m x r e) as [r' e'|e']; cbn [dbind].
      * destruct HA as [-> ->]. cbn [ebind]. destruct keep; cbn; eauto.
      * destruct HA as [c [l' ->]]. cbn. eauto.
    + cbn. eauto.
  - destruct H as [c [l' ->]]. cbn. eauto.
Qed.

Lemma apply_prefix_spec_m m o t mm loc e :
  tmatch t mm -> term_ok mm -> agrees_vm (den_prefix_m m o t e) (apply_prefix_m m mm o loc e).
Proof.
  intros Ht Hm.
  pose proof (require_variable_lvalue t mm loc e Ht) as Hl.
  pose proof (into_value_rvalue_m m t mm e Ht Hm) as Hr.
  destruct o; cbn [den_prefix_m apply_prefix_m].
  - destruct (lvalue t) as [x|] eqn:El.
    + destruct Hl as [l [-> ->]]. cbn [ebind fst snd]. apply lvalue_some in El. subst t.
      pose proof (incdec_spec_m m x l loc e 1 false) as H.
      cbn [ebind] in H |- *.
      destruct (expand_variable_m m x l e); cbn [ebind] in *; try exact H.
      destruct (unwrap_or_overflow (checked (a + 1)) loc e0); cbn [ebind] in *; try exact H.
      destruct (assign_m m x a0 l e1); exact H.
    + unfold incdec_m. rewrite El. rewrite Hl. cbn. eauto.
  - destruct (lvalue t) as [x|] eqn:El.
    + destruct Hl as [l [-> ->]]. cbn [ebind fst snd]. apply lvalue_some in El. subst t.
      pose proof (incdec_spec_m m x l loc e (-1) false) as H.
      cbn [ebind] in H |- *.
      destruct (expand_variable_m m x l e); cbn [ebind] in *; try exact H.
      change (a - 1) with (a + -1).
      destruct (unwrap_or_overflow (checked (a + -1)) loc e0); cbn [ebind] in *; try exact H.
      destruct (assign_m m x a0 l e1); exact H.
    + unfold incdec_m. rewrite El. rewrite Hl. cbn. eauto.
  - destruct (rvalue_m m t e) as [n|]; cbn [lift dbind].
    + destruct Hr as [-> Hn]. cbn. eauto.
    + destruct Hr as [c [l ->]]. cbn. eauto.
  - destruct (rvalue_m m t e) as [n|]; cbn [lift dbind].
    + destruct Hr as [-> Hn]. cbn [ebind]. change checked with representable.
      destruct (representable (- n)) as [r|] eqn:E; cbn [lift dbind unwrap_or_overflow].
      * apply representable_I64 in E. destruct E as [_ E]. cbn. eauto.
      * cbn. eauto.
    + destruct Hr as [c [l ->]]. cbn. eauto.
  - destruct (rvalue_m m t e) as [n|]; cbn [lift dbind].
    + destruct Hr as [-> Hn]. cbn [ebind]. eexists. split; [reflexivity|]. split; [reflexivity|apply I64_b2z].
    + destruct Hr as [c [l ->]]. cbn. eauto.
  - destruct (rvalue_m m t e) as [n|]; cbn [lift dbind].
    + destruct Hr as [-> Hn]. cbn [ebind]. rewrite bits_lnot by assumption.
      eexists. split; [reflexivity|]. split; [reflexivity|now apply I64_lnot].
    + destruct Hr as [c [l ->]]. cbn. eauto.
Qed.

Lemma apply_postfix_spec_m m o t mm loc e :
  tmatch t mm -> term_ok mm -> agrees_vm (den_postfix_m m o t e) (apply_postfix_m m mm o loc e).
Proof.
  intros Ht Hm.
  pose proof (require_variable_lvalue t mm loc e Ht) as Hl.
  unfold den_postfix_m, apply_postfix_m.
  destruct (lvalue t) as [x|] eqn:El.
  - destruct Hl as [l [-> ->]]. cbn [ebind fst snd]. apply lvalue_some in El. subst t.
    pose proof (incdec_spec_m m x l loc e (match o with PostInc => 1 | PostDec => -1 end) true) as H.
    cbn [ebind] in H |- *.
    destruct o; destruct (expand_variable_m m x l e); cbn [ebind] in *; exact H.
  - unfold incdec_m. rewrite El, Hl. cbn. eauto.
Qed.

Lemma binary_result_arith_m a l r loc e :
  I64 l -> I64 r ->
  agrees_vm (try z, e <- lift (arith a l r) e; DOk (SNumT z) e) (binary_result l r (BArith a) loc e).
Proof.
  intros Hl Hr. unfold binary_result.
  pose proof (arith_result_exact a l r Hl Hr) as H.
  destruct (arith_result a l r) as [z|c]; rewrite H; cbn.
  - exists z. split; [reflexivity|]. split; [reflexivity|]. exact (arith_I64 a l r z Hl Hr H).
  - eauto.
Qed.

Lemma apply_binary_spec_m m o ta ma tb mb loc e :
  tmatch ta ma -> term_ok ma -> tmatch tb mb -> term_ok mb ->
  o <> BLogOr -> o <> BLogAnd ->
  agrees_vm (den_binary_m m o ta tb e) (apply_binary_m m ma mb o loc e).
Proof.
  intros Hta Hma Htb Hmb Ho1 Ho2.
  pose proof (require_variable_lvalue ta ma loc e Hta) as Hl.
  pose proof (into_value_rvalue_m m ta ma e Hta Hma) as Hra.
  pose proof (into_value_rvalue_m m tb mb e Htb Hmb) as Hrb.
  destruct o as [| |a| |a]; try congruence; cbn [den_binary_m apply_binary_m].
  - destruct (rvalue_m m ta e) as [na|]; cbn [lift dbind].
    + destruct Hra as [-> Hna]. cbn [ebind].
      destruct (rvalue_m m tb e) as [nb|]; cbn [lift dbind].
      * destruct Hrb as [-> Hnb]. cbn [ebind]. apply binary_result_arith_m; assumption.
      * destruct Hrb as [c [l ->]]. cbn. eauto.
    + destruct Hra as [c [l ->]]. cbn. eauto.
  - destruct (lvalue ta) as [x|] eqn:El; cbn [lift dbind].
    + destruct Hl as [l [-> ->]]. cbn [ebind fst snd].
      destruct (rvalue_m m tb e) as [nb|]; cbn [lift dbind].
      * destruct Hrb as [-> Hnb]. cbn [ebind].
        pose proof (assign_store_m m x nb l e) as HA.
        destruct (store_m m x nb e) as [r' e'|e']; cbn [dbind].
        -- destruct HA as [-> ->]. cbn. eauto.
        -- destruct HA as [c [l' ->]]. cbn. eauto.
      * destruct Hrb as [c [l' ->]]. cbn. eauto.
    + rewrite Hl. cbn. eauto.
  - destruct (lvalue ta) as [x|] eqn:El; cbn [lift dbind].
    + destruct Hl as [l [-> ->]]. cbn [ebind fst snd]. apply lvalue_some in El. subst ta.
      pose proof (expand_variable_rvalue_m m x l e) as Hx.
      destruct (rvalue_m m (SVarT x) e) as [na|]; cbn [lift dbind].
      * destruct Hx as [-> Hna]. cbn [ebind].
        destruct (rvalue_m m tb e) as [nb|]; cbn [lift dbind].
        -- destruct Hrb as [-> Hnb]. cbn [ebind].
           pose proof (binary_result_arith_m a na nb loc e Hna Hnb) as H.
           change (binary_result na nb (BCompound a) loc e) with (binary_result na nb (BArith a) loc e).
           destruct (arith a na nb) as [r|]; cbn [lift dbind] in *.
           ++ destruct H as [z [[= <-] [-> Hz]]]. cbn [ebind].
              pose proof (assign_store_m m x r l e) as HA.
              destruct (store_m m x r e) as [r' e'|e']; cbn [dbind].
              ** destruct HA as [-> ->]. cbn. eauto.
              ** destruct HA as [c [l' ->]]. cbn. eauto.
           ++ destruct H as [c [l' ->]]. cbn. eauto.
        -- destruct Hrb as [c [l' ->]]. cbn. eauto.
      * destruct Hx as [c [l' ->]]. cbn. eauto.
    + rewrite Hl. cbn. eauto.
Qed.

Lemma agrees_value_m d r :
  agrees_vm d r -> agrees_m d (do v, e <- r; evalue v e).
Proof.
  destruct d as [t e'|e']; cbn.
  - intros [z [-> [-> Hz]]]. cbn. exists (TValue z). auto.
  - intros [c [l ->]]. cbn. eauto.
Qed.

Lemma eval_repr_m m e ns :
  Repr e ns -> expr_ok e ->
  forall f env, (length ns <= f)%nat -> agrees_m (den_m m e env) (eval_m m f ns env).
Proof.
  induction 1 as [z|x loc|o loc e ns HR IH|o loc e ns HR IH
                  |o loc l r nl nr HRl IHl HRr IHr|c t fe nc nt nf HRc IHc HRt IHt HRf IHf];
    intros Hok f env Hf.
  - destruct f; [cbn in Hf; lia|]. cbn. exists (TValue z). auto.
  - destruct f; [cbn in Hf; lia|]. cbn. exists (TVariable x loc). cbn. auto.
  - rewrite app_length in Hf. cbn [length] in Hf. destruct f as [|f]; [lia|].
    cbn [eval_m]. rewrite split_last_app. cbn [den_m].
    specialize (IH Hok f env ltac:(lia)).
    destruct (den_m m e env) as [t e'|e']; cbn [dbind].
    + destruct IH as [mm [-> [Ht Hm]]]. cbn [ebind].
      apply agrees_value_m, apply_prefix_spec_m; assumption.
    + destruct IH as [c [l ->]]. cbn. eauto.
  - rewrite app_length in Hf. cbn [length] in Hf. destruct f as [|f]; [lia|].
    cbn [eval_m]. rewrite split_last_app. cbn [den_m].
    specialize (IH Hok f env ltac:(lia)).
    destruct (den_m m e env) as [t e'|e']; cbn [dbind].
    + destruct IH as [mm [-> [Ht Hm]]]. cbn [ebind].
      apply agrees_value_m, apply_postfix_spec_m; assumption.
    + destruct IH as [c [l' ->]]. cbn. eauto.
  - destruct Hok as [Hokl Hokr].
    rewrite app_assoc, app_length in Hf. cbn [length] in Hf. rewrite app_length in Hf.
    destruct f as [|f]; [lia|].
    rewrite app_assoc. cbn [eval_m]. rewrite split_last_app.
    specialize (IHl Hokl f env ltac:(lia)).
    assert (IHr' := fun env => IHr Hokr f env ltac:(lia)). clear IHr.
    assert (Hgen : o <> BLogOr -> o <> BLogAnd ->
      agrees_m (try ta, e <- den_m m l env; try tb, e <- den_m m r e; den_binary_m m o ta tb e)
        (match split_off (nl ++ nr) (length nr) with
         | Some (lhs_ast, rhs_ast) =>
             do lhs, e <- eval_m m f lhs_ast env;
             do rhs, e <- eval_m m f rhs_ast e;
             do v, e <- apply_binary_m m lhs rhs o loc e; evalue v e
         | None => EPanic
         end)).
    { intros Ho1 Ho2. rewrite split_off_app.
      destruct (den_m m l env) as [ta e1|e1]; cbn [dbind].
      - destruct IHl as [ma [-> [Hta Hma]]]. cbn [ebind].
        specialize (IHr' e1).
        destruct (den_m m r e1) as [tb e2|e2]; cbn [dbind].
        + destruct IHr' as [mb [-> [Htb Hmb]]]. cbn [ebind].
          apply agrees_value_m, apply_binary_spec_m; assumption.
        + destruct IHr' as [c [l' ->]]. cbn. eauto.
      - destruct IHl as [c [l' ->]]. cbn. eauto. }
    destruct o as [| |a| |a]; try (apply Hgen; discriminate).
    + cbn [den_m]. rewrite split_off_app.
      destruct (den_m m l env) as [ta e1|e1]; cbn [dbind].
      * destruct IHl as [ma [-> [Hta Hma]]]. cbn [ebind].
        pose proof (into_value_rvalue_m m ta ma e1 Hta Hma) as Hra.
        destruct (rvalue_m m ta e1) as [na|]; cbn [lift dbind].
        -- destruct Hra as [-> Hna]. cbn [ebind].
           destruct (negb (na =? 0)) eqn:Ena.
           ++ cbn. exists (TValue 1). repeat split; unfold I64; lia.
           ++ specialize (IHr' e1).
              destruct (den_m m r e1) as [tb e2|e2]; cbn [dbind].
              ** destruct IHr' as [mb [-> [Htb Hmb]]]. cbn [ebind].
                 pose proof (into_value_rvalue_m m tb mb e2 Htb Hmb) as Hrb.
                 destruct (rvalue_m m tb e2) as [nb|]; cbn [lift dbind].
                 --- destruct Hrb as [-> Hnb]. cbn [ebind binary_result]. rewrite Ena. cbn [orb].
                     cbn. eexists. split; [reflexivity|]. split; [reflexivity|apply I64_b2z].
                 --- destruct Hrb as [c [l' ->]]. cbn. eauto.
              ** destruct IHr' as [c [l' ->]]. cbn. eauto.
        -- destruct Hra as [c [l' ->]]. cbn. eauto.
      * destruct IHl as [c [l' ->]]. cbn. eauto.
    + cbn [den_m]. rewrite split_off_app.
      destruct (den_m m l env) as [ta e1|e1]; cbn [dbind].
      * destruct IHl as [ma [-> [Hta Hma]]]. cbn [ebind].
        pose proof (into_value_rvalue_m m ta ma e1 Hta Hma) as Hra.
        destruct (rvalue_m m ta e1) as [na|]; cbn [lift dbind].
        -- destruct Hra as [-> Hna]. cbn [ebind].
           destruct (na =? 0) eqn:Ena.
           ++ cbn. exists (TValue 0). repeat split; unfold I64; lia.
           ++ specialize (IHr' e1).
              destruct (den_m m r e1) as [tb e2|e2]; cbn [dbind].
              ** destruct IHr' as [mb [-> [Htb Hmb]]]. cbn [ebind].
                 pose proof (into_value_rvalue_m m tb mb e2 Htb Hmb) as Hrb.
                 destruct (rvalue_m m tb e2) as [nb|]; cbn [lift dbind].
                 --- destruct Hrb as [-> Hnb]. cbn [ebind binary_result]. rewrite Ena. cbn [negb andb].
                     cbn. eexists. split; [reflexivity|]. split; [reflexivity|apply I64_b2z].
                 --- destruct Hrb as [c [l' ->]]. cbn. eauto.
              ** destruct IHr' as [c [l' ->]]. cbn. eauto.
        -- destruct Hra as [c [l' ->]]. cbn. eauto.
      * destruct IHl as [c [l' ->]]. cbn. eauto.
  - destruct Hok as [Hokc [Hokt Hokf]].
    replace (nc ++ nt ++ nf ++ [ACond (length nt) (length nf)])
      with (((nc ++ nt) ++ nf) ++ [ACond (length nt) (length nf)]) in *
      by (now rewrite <- !app_assoc).
    rewrite !app_length in Hf. cbn [length] in Hf.
    destruct f as [|f]; [lia|].
    cbn [eval_m]. rewrite split_last_app, split_off_app, split_off_app. cbn [den_m].
    specialize (IHc Hokc f env ltac:(lia)).
    destruct (den_m m c env) as [tc e1|e1]; cbn [dbind].
    + destruct IHc as [mc [-> [Htc Hmc]]]. cbn [ebind].
      pose proof (into_value_rvalue_m m tc mc e1 Htc Hmc) as Hrc.
      destruct (rvalue_m m tc e1) as [nc'|]; cbn [lift dbind].
      * destruct Hrc as [-> Hnc]. cbn [ebind].
        destruct (negb (nc' =? 0)).
        -- apply IHt; [assumption|lia].
        -- apply IHf; [assumption|lia].
      * destruct Hrc as [c' [l' ->]]. cbn. eauto.
    + destruct IHc as [c' [l' ->]]. cbn. eauto.
Qed.

Lemma eval_top_m m e ns env :
  Repr e ns -> expr_ok e ->
  match spec_eval_m m e env with
  | MVal z env' => (do t, e <- eval_m m (length ns) ns env; into_value_m m t e) = EOk z env'
  | MErr env' => exists c l, (do t, e <- eval_m m (length ns) ns env; into_value_m m t e) = EErr c l env'
  end.
Proof.
  intros HR Hok. pose proof (eval_repr_m m e ns HR Hok (length ns) env (le_n _)) as H.
  unfold spec_eval_m. destruct (den_m m e env) as [t e'|e'].
  - destruct H as [mm [-> [Ht Hm]]]. cbn [ebind].
    pose proof (into_value_rvalue_m m t mm e' Ht Hm) as Hr.
    destruct (rvalue_m m t e') as [z|].
    + now destruct Hr as [-> _].
    + destruct Hr as [c [l ->]]. eauto.
  - destruct H as [c [l ->]]. cbn. eauto.
Qed.

(* yash_arith::eval over an environment with nounset / read-only variables: value and
   variables as specified; an error exactly when the specification fails, and then
   with exactly the variables the specification has at the point of failure *)
Theorem run_mode_correct m cls s env :
  match run_mode m cls s env with
  | RVal z env' => spec_run_mode m cls s env = MVal z env'
  | RErr _ _ env' => spec_run_mode m cls s env = MErr env'
  | RPanic | RFuel => False
  end.
Proof.
  unfold run_mode, spec_run_mode.
  pose proof (ProofsLex.lex_equiv cls s) as HL.
  destruct (tokens_of cls s) as [ts fi] eqn:Et.
  pose proof (ProofsParse2.parse_equiv_lemma (ts, fi)) as HP.
  destruct fi as [loc|te loc|]; [| |contradiction].
  - destruct HL as [-> Hok]. specialize (HP I).
    destruct (parse (ts, FEnd loc)) as [ns st1|se l|]; [| |contradiction].
    + destruct HP as [e [loc' [_ [Hsp HR]]]]. unfold ProofsParse.ets in Hsp. cbn [fst] in Hsp. rewrite Hsp.
      pose proof (Proofs.spec_parse_ok _ _ Hsp (Proofs.erase_ok _ Hok)) as Heok.
      pose proof (eval_top_m m e ns env HR Heok) as HE.
      destruct (spec_eval_m m e env) as [z env'|env'].
      * rewrite HE. reflexivity.
      * destruct HE as [c [l ->]]. reflexivity.
    + destruct HP as [[e [loc' HP]]|HP]; [discriminate|].
      unfold ProofsParse.ets in HP. cbn [fst] in HP. now rewrite HP.
  - rewrite HL. specialize (HP I).
    destruct (parse (ts, FErr te loc)) as [ns st1|se l|]; [| |contradiction].
    + destruct HP as [e [loc' [HP _]]]. discriminate.
    + reflexivity.
Qed.

(* ---- the arithmetic expansion of the shell ---------------------------------------------- *)

Definition xy (x : xres) (y : yres) : Prop :=
  match x, y with
  | XOk s e, YOk s' e' => s = s' /\ e = e'
  | XErr e, YErr e' => e = e'
  | _, _ => False
  end.

Lemma arith_of_text_xy m cls x y : xy x y -> xy (arith_of_text m cls x) (spec_arith_of_text m cls y).
Proof.
  destruct x as [s e|e|], y as [s' e'|e']; cbn [xy]; try contradiction.
  - intros [<- <-]. cbn [arith_of_text spec_arith_of_text].
    pose proof (run_mode_correct m cls s e) as H.
    destruct (run_mode m cls s e) as [z e2|c l e2| |]; try contradiction; rewrite H; cbn; auto.
  - intros <-. exact eq_refl.
Qed.

Lemma xappend_xy a b k k' :
  xy a b -> (forall e, xy (k e) (k' e)) -> xy (xappend a k) (yappend b k').
Proof.
  destruct a as [s e|e|], b as [s' e'|e']; cbn [xy]; try contradiction.
  - intros [<- <-] Hk. cbn [xappend yappend]. specialize (Hk e).
    destruct (k e) as [s2 e2|e2|], (k' e) as [s2' e2'|e2']; cbn [xy] in *; try contradiction.
    + destruct Hk as [<- <-]. auto.
    + exact Hk.
  - intros <- _. exact eq_refl.
Qed.

Fixpoint expand_unit_xy m cls (u : tunit) {struct u} :
  forall e, xy (expand_unit m cls u e) (spec_expand_unit m cls u e).
Proof.
  destruct u as [c|x|us]; intros e.
  - cbn. auto.
  - cbn [expand_unit spec_expand_unit]. destruct (lookup x e); [cbn; auto|].
    destruct (nounset m); cbn; auto.
  - cbn [expand_unit spec_expand_unit]. apply arith_of_text_xy.
    revert e. induction us as [|u r IH]; intros e; [cbn; auto|].
    apply xappend_xy; [apply expand_unit_xy|exact IH].
Qed.

Lemma expand_units_xy m cls us : forall e, xy (expand_units m cls us e) (spec_expand_units m cls us e).
Proof.
  induction us as [|u r IH]; intros e; [cbn; auto|].
  cbn [expand_units spec_expand_units]. apply xappend_xy; [apply expand_unit_xy|exact IH].
Qed.

(* `$(( ))` in the shell: the expansion is the decimal representation of the specified
   value of the expanded text and the variables are as specified; it is an error
   exactly when the specification fails, with exactly the variables at that point *)
Theorem shell_arith_correct m cls us e :
  match shell_arith m cls us e with
  | XOk s e' => spec_shell_arith m cls us e = YOk s e'
  | XErr e' => spec_shell_arith m cls us e = YErr e'
  | XPanic => False
  end.
Proof.
  pose proof (arith_of_text_xy m cls _ _ (expand_units_xy m cls us e)) as H.
  fold (shell_arith m cls us e) in H. fold (spec_shell_arith m cls us e) in H.
  destruct (shell_arith m cls us e), (spec_shell_arith m cls us e); cbn [xy] in H;
    try contradiction; try (destruct H; subst); try subst; reflexivity.
Qed.
