(* C03 — SPEC, part 2: arithmetic expansion in the shell (XCU 2.6.4, 2.5.3 / set -u,
   2.9.1 / readonly).

   * Reading an unset variable is an error when the nounset option is on, and 0
     otherwise.  Assigning a read-only variable is an error; the variable keeps
     its value.
   * An error stops the evaluation.  POSIX does not say which side effects of an
     expansion that fails have happened.  Here: exactly the assignments of the
     operands evaluated before the error (left to right, unevaluated operands of
     && || ?: never), are in effect - the failure carries the variables at that
     point ([DFail]).  In particular an operator that fails (overflow, division by
     zero, read-only or non-variable target) has assigned nothing itself.
   * The text of `$(( ))` is first expanded: `$name` / `${name}` is replaced by the
     variable's value (nothing if unset; an error with nounset), a nested
     `$(( ))` by the decimal representation of its value; then the resulting text
     is evaluated.  The expansion is the decimal representation of the value. *)
From Yv Require Import Common.Base C03.Defs C03.Spec C03.ModelShell.
Local Open Scope Z_scope.

Inductive dres (A : Type) :=
| DOk (a : A) (e : env)
| DFail (e : env).
Arguments DOk {A}. Arguments DFail {A}.

Definition dbind {A B} (r : dres A) (k : A -> env -> dres B) : dres B :=
  match r with DOk a e => k a e | DFail e => DFail e end.

(* a step that can fail without changing the variables *)
Definition lift {A} (o : option A) (e : env) : dres A :=
  match o with Some a => DOk a e | None => DFail e end.

Notation "'try' x , e <- r ; k" := (dbind r (fun x e => k))
  (at level 200, x pattern, e name, r at level 100, k at level 200).

Definition rvalue_m (m : mode) (t : sterm) (e : env) : option Z :=
  match t with
  | SNumT z => Some z
  | SVarT x => match lookup x e with
               | None => if nounset m then None else Some 0
               | Some v => variable_value v
               end
  end.

Definition store_m (m : mode) (x : str) (z : Z) (e : env) : dres Z :=
  if existsb (str_eqb x) (readonly m) then DFail e else DOk z (set_var x (dec_of_Z z) e).

Definition incdec_m (m : mode) (t : sterm) (d : Z) (keep_old : bool) (e : env) : dres sterm :=
  try v, e <- lift (lvalue t) e;
  try n, e <- lift (rvalue_m m t e) e;
  try r, e <- lift (representable (n + d)) e;
  try r, e <- store_m m v r e;
  DOk (SNumT (if keep_old then n else r)) e.

Definition den_prefix_m (m : mode) (o : preop) (t : sterm) (e : env) : dres sterm :=
  match o with
  | PreInc => incdec_m m t 1 false e
  | PreDec => incdec_m m t (-1) false e
  | PrePlus => try n, e <- lift (rvalue_m m t e) e; DOk (SNumT n) e
  | PreNeg => try n, e <- lift (rvalue_m m t e) e;
              try r, e <- lift (representable (- n)) e; DOk (SNumT r) e
  | PreNot => try n, e <- lift (rvalue_m m t e) e; DOk (SNumT (b2z (n =? 0))) e
  | PreBitNot => try n, e <- lift (rvalue_m m t e) e;
                 DOk (SNumT (of_bits (Z.lxor (to_bits n) (two64 - 1)))) e
  end.

Definition den_postfix_m (m : mode) (o : postop) (t : sterm) (e : env) : dres sterm :=
  incdec_m m t (match o with PostInc => 1 | PostDec => -1 end) true e.

Definition den_binary_m (m : mode) (o : binop) (ta tb : sterm) (e : env) : dres sterm :=
  match o with
  | BArith a =>
      try na, e <- lift (rvalue_m m ta e) e; try nb, e <- lift (rvalue_m m tb e) e;
      try r, e <- lift (arith a na nb) e; DOk (SNumT r) e
  | BAssign =>
      try v, e <- lift (lvalue ta) e; try nb, e <- lift (rvalue_m m tb e) e;
      try r, e <- store_m m v nb e; DOk (SNumT r) e
  | BCompound a =>
      try v, e <- lift (lvalue ta) e;
      try na, e <- lift (rvalue_m m ta e) e; try nb, e <- lift (rvalue_m m tb e) e;
      try r, e <- lift (arith a na nb) e;
      try r, e <- store_m m v r e; DOk (SNumT r) e
  | BLogOr | BLogAnd => DFail e
  end.

Fixpoint den_m (m : mode) (x : expr) (e : env) : dres sterm :=
  match x with
  | ENum z => DOk (SNumT z) e
  | EVar v => DOk (SVarT v) e
  | EPre o a => try t, e <- den_m m a e; den_prefix_m m o t e
  | EPost o a => try t, e <- den_m m a e; den_postfix_m m o t e
  | EBin BLogOr a b =>
      try ta, e <- den_m m a e; try na, e <- lift (rvalue_m m ta e) e;
      if negb (na =? 0) then DOk (SNumT 1) e
      else try tb, e <- den_m m b e; try nb, e <- lift (rvalue_m m tb e) e;
           DOk (SNumT (b2z (negb (nb =? 0)))) e
  | EBin BLogAnd a b =>
      try ta, e <- den_m m a e; try na, e <- lift (rvalue_m m ta e) e;
      if na =? 0 then DOk (SNumT 0) e
      else try tb, e <- den_m m b e; try nb, e <- lift (rvalue_m m tb e) e;
           DOk (SNumT (b2z (negb (nb =? 0)))) e
  | EBin o a b =>
      try ta, e <- den_m m a e; try tb, e <- den_m m b e; den_binary_m m o ta tb e
  | ECond c a b =>
      try tc, e <- den_m m c e; try nc, e <- lift (rvalue_m m tc e) e;
      if negb (nc =? 0) then den_m m a e else den_m m b e
  end.

(* value and variables, or the variables at the point of failure *)
Inductive mres := MVal (z : Z) (e : env) | MErr (e : env).

Definition spec_eval_m (m : mode) (x : expr) (e : env) : mres :=
  match den_m m x e with
  | DOk t e' => match rvalue_m m t e' with Some z => MVal z e' | None => MErr e' end
  | DFail e' => MErr e'
  end.

(* a text that is not an expression is an error and changes nothing *)
Definition spec_run_mode (m : mode) (cls : N -> N) (s : str) (e : env) : mres :=
  match spec_lex cls s with
  | None => MErr e
  | Some ts => match spec_parse ts with
               | None => MErr e
               | Some x => spec_eval_m m x e
               end
  end.

(* ---- the expansion `$(( text ))` --------------------------------------------------- *)

Inductive yres :=
| YOk (text : str) (e : env)
| YErr (e : env).

Definition spec_arith_of_text (m : mode) (cls : N -> N) (r : yres) : yres :=
  match r with
  | YOk text e1 =>
      match spec_run_mode m cls text e1 with
      | MVal z e2 => YOk (dec_of_Z z) e2
      | MErr e2 => YErr e2
      end
  | r => r
  end.

Definition yappend (a : yres) (k : env -> yres) : yres :=
  match a with
  | YOk s e1 => match k e1 with YOk s' e2 => YOk (s ++ s') e2 | r => r end
  | r => r
  end.

Fixpoint spec_expand_unit (m : mode) (cls : N -> N) (u : tunit) (e : env) : yres :=
  match u with
  | ULit c => YOk [c] e
  | UParam x =>
      match lookup x e with
      | Some v => YOk v e
      | None => if nounset m then YErr e else YOk [] e
      end
  | UArith us =>
      spec_arith_of_text m cls
        ((fix go (us : list tunit) (e : env) : yres :=
            match us with
            | [] => YOk [] e
            | u :: r => yappend (spec_expand_unit m cls u e) (go r)
            end) us e)
  end.

Fixpoint spec_expand_units (m : mode) (cls : N -> N) (us : list tunit) (e : env) : yres :=
  match us with
  | [] => YOk [] e
  | u :: r => yappend (spec_expand_unit m cls u e) (spec_expand_units m cls r)
  end.

Definition spec_shell_arith (m : mode) (cls : N -> N) (us : list tunit) (e : env) : yres :=
  spec_arith_of_text m cls (spec_expand_units m cls us e).
