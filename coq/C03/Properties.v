(* C03 — property theorems only.  Each is closed by [exact] of a lemma from the
   Proofs*.v files; the driver pins the statements with [Check] and prints the
   assumptions on every run.

   MODEL  = Model.v  (run = yash_arith::eval; tokens_of, parse, eval, ...)
   SPEC   = Spec.v   (spec_run = spec_lex ; spec_parse ; spec_eval, oracle) *)
From Yv Require Import Common.Base C03.Defs C03.Model C03.Spec C03.ModelShell C03.SpecShell.
From Yv Require Import C03.ProofsArith C03.ProofsNum C03.ProofsLex C03.ProofsEval
  C03.ProofsParse C03.ProofsParse2 C03.Proofs C03.ProofsVar C03.ProofsGen C03.ProofsSeq C03.ProofsPort C03.ProofsShell.
From Yv Require Import Gen.Gen_Arith.
Import GenNames.
(* non-vacuity examples for the implication-shaped theorems: Examples.v,
   var_const_agree_nonvacuous (ProofsVar.v), sequenced_example (ProofsSeq.v) *)
From Yv Require C03.Examples.

(* ---- the property as a whole ------------------------------------------------- *)

(* For every character classification, text and variable environment:
   yash_arith::eval returns exactly the value and the variable assignments the
   specification gives (maximal-munch lexer, C grammar, denotational semantics
   in Z with short-circuit operands), reports an error exactly when the
   specification gives no value (not an expression / unrepresentable /
   undefined), and neither panics nor runs out of fuel. *)
Theorem arith_exact_or_error :
  forall cls s env,
    match run cls s env with
    | RVal z env' => spec_run cls s env = SVal z env'
    | RErr _ _ _ => spec_run cls s env = SErr
    | RPanic | RFuel => False
    end.
Proof. exact run_correct. Qed.

(* the oracle never demands more than the theorem gives *)
Theorem oracle_sound :
  forall cls s env, oracle cls s env (answer_of_outcome (run cls s env)) = 0%N.
Proof. exact oracle_sound_lemma. Qed.

(* no text, however malformed, makes the evaluator panic; the fuel computed from
   the input is never exhausted *)
Theorem eval_total :
  forall cls s env, run cls s env <> RPanic /\ run cls s env <> RFuel.
Proof. exact no_panic_lemma. Qed.

(* ---- tokenizer ------------------------------------------------------------------ *)

(* first match in the order of OPERATORS = longest operator lexeme (maximal munch) *)
Theorem operator_table_is_longest_match :
  forall s,
    match find_operator operators s with
    | Some (lx, o, rest) =>
        longest_operator s = Some o /\ lx = lexeme o /\ rest = skipn (length (lexeme o)) s
    | None => longest_operator s = None
    end.
Proof. exact first_match_is_longest. Qed.

(* Tokens::next_token iterated = the specified token sequence; constants are in range *)
Theorem lex_equiv :
  forall cls s,
    match tokens_of cls s with
    | (ts, FEnd _) => spec_lex cls s = Some (erase ts) /\ Forall tok_ok ts
    | (ts, FErr _ _) => spec_lex cls s = None
    | (_, FFuel) => False
    end.
Proof. exact ProofsLex.lex_equiv. Qed.

(* ---- parser ------------------------------------------------------------------------ *)

(* Operator::precedence and as_binary are the levels and associativity of the C
   grammar: level j of the grammar (1 multiplicative ... 10 logical OR,
   11 conditional, 12 assignment) has precedence 13 - j; levels 1..10 associate
   to the left, assignment to the right; the other tokens are no infix operators *)
Theorem precedence_is_C :
  forall o,
    match op_level o with
    | Some j => precedence o = N.of_nat (13 - j) /\ (1 <= j <= 12)%nat
    | None => precedence o = 0%N \/ precedence o = 13%N
    end /\
    as_binary o =
    match op_level o with
    | Some j =>
        if Nat.leb j 10 then option_map (fun b => (b, Left)) (op_assoc o (binary_level j))
        else if Nat.eqb j 12 then option_map (fun b => (b, Right)) (op_assoc o assignment_operators)
        else None
    | None => None
    end /\
    as_prefix o = prefix_operator o /\ as_postfix o = postfix_operator o.
Proof.
  exact (fun o => conj (precedence_level o) (conj (as_binary_level o) (prefix_tables o))).
Qed.

(* ast::parse = recursive descent through the C grammar: it accepts exactly the
   token sequences the grammar derives, and its reverse-Polish vector represents
   the derived tree (so C precedence and associativity) *)
Theorem parse_equiv :
  forall st, fin_ok st ->
    match parse st with
    | POk ns _ => exists e loc, snd st = FEnd loc /\ spec_parse (ets st) = Some e /\ Repr e ns
    | PErr _ _ => (exists e loc, snd st = FErr e loc) \/ spec_parse (ets st) = None
    | PFuel => False
    end.
Proof. exact parse_equiv_lemma. Qed.

(* the vector ast::parse returns is the reverse-Polish form of a tree, so the
   slicing of eval (split_last, split_at, expect) never panics on it *)
Theorem parse_wf :
  forall st ns st', fin_ok st -> parse st = POk ns st' -> exists e, Repr e ns.
Proof. exact parse_wf_lemma. Qed.

(* ---- the shell side (yash-semantics expansion/initial/arith.rs) ------------------------- *)

(* yash_arith::eval over the shell's environment (VarEnv): with the nounset option an
   unset variable that is read is an error instead of 0; assigning a read-only
   variable is an error and leaves it unchanged.  The value and the variables are
   exactly the specified ones; an error is reported exactly when the specification
   fails, and then the variables are exactly those the specification has at the point
   of failure: the assignments of the operands evaluated before the error (left to
   right; never those of unevaluated operands of && || ?:), and none by the failing
   operator itself. *)
Theorem env_arith_exact_or_error :
  forall m cls s env,
    match run_mode m cls s env with
    | RVal z env' => spec_run_mode m cls s env = MVal z env'
    | RErr _ _ env' => spec_run_mode m cls s env = MErr env'
    | RPanic | RFuel => False
    end.
Proof. exact run_mode_correct. Qed.

(* `$(( text ))` in the shell: the text is expanded first (`$name` / `${name}` by the
   value, nothing if unset, an error with nounset; a nested `$(( ))` by the decimal
   representation of its value, its assignments staying in effect), then evaluated;
   the expansion is the decimal representation of the specified value, and errors and
   variables are as in env_arith_exact_or_error *)
Theorem shell_arith_exact_or_error :
  forall m cls us e,
    match shell_arith m cls us e with
    | XOk s e' => spec_shell_arith m cls us e = YOk s e'
    | XErr e' => spec_shell_arith m cls us e = YErr e'
    | XPanic => False
    end.
Proof. exact shell_arith_correct. Qed.

(* ---- portable mode (Config { portable: true }, ast/portability.rs) ---------------------- *)

(* portability::check on what ast::parse returned reports a `++` / `--` token of the
   text with the least start offset (the first in source order) - whether or not its
   operand would be evaluated - and succeeds iff the text contains no such token *)
Theorem portability_check_spec :
  forall st ns st', parse st = POk ns st' ->
    match portability_check ns with
    | None => tlocs (fst st) = []
    | Some loc => In loc (tlocs (fst st)) /\
                  forall l, In l (tlocs (fst st)) -> (fst loc <= fst l)%N
    end.
Proof. exact portability_check_lemma. Qed.

(* eval_with_config in portable mode: an expression without `++` / `--` has exactly
   its value and assignments; every other text is an error; no panic *)
Theorem portable_exact_or_error :
  forall cls s env,
    match run_portable cls s env with
    | RVal z env' => spec_run_portable cls s env = SVal z env'
    | RErr _ _ _ => spec_run_portable cls s env = SErr
    | RPanic | RFuel => False
    end.
Proof. exact run_portable_correct. Qed.

(* ---- evaluator ------------------------------------------------------------------------ *)

(* the bit trick of `<<`: checked_shl + `result >= 0 && result >> rhs == lhs`
   accepts exactly when lhs * 2^rhs is representable, and then yields it *)
Theorem shl_filter_exact :
  forall l r, (0 <= l)%Z -> I64 l -> (0 <= r < 64)%Z ->
    let result := wrap64 (Z.shiftl l r) in
    (((0 <=? result)%Z && (Z.shiftr result r =? l)%Z = true <-> I64 (l * 2 ^ r)) /\
     (I64 (l * 2 ^ r) -> result = (l * 2 ^ r)%Z)).
Proof. exact shl_filter_exact_lemma. Qed.

(* every binary operation: a value is the mathematically exact result, an error
   is reported exactly when the result is unrepresentable or undefined *)
Theorem binary_result_exact_or_error :
  forall o a b, I64 a -> I64 b ->
    match arith_result o a b with
    | inl z => arith o a b = Some z
    | inr _ => arith o a b = None
    end.
Proof. exact arith_result_exact. Qed.

Theorem arith_in_range :
  forall o a b z, I64 a -> I64 b -> arith o a b = Some z -> I64 z.
Proof. exact arith_I64. Qed.

(* the evaluator on the reverse-Polish vector (split_last / split_at slicing,
   lazy || && ?:) computes the denotation of the tree the vector represents;
   unevaluated operands cause neither an assignment nor an error *)
Theorem eval_flatten :
  forall e ns, Repr e ns -> expr_ok e ->
    forall f env, (length ns <= f)%nat -> agrees (den e env) (eval f ns env).
Proof. exact eval_repr. Qed.

(* in the specification an operand that C does not evaluate has no influence *)
Theorem spec_short_circuit :
  forall a b c env t e1,
    den a env = Some (t, e1) ->
    (rvalue t e1 = Some 0%Z -> den (EBin BLogAnd a b) env = Some (SNumT 0, e1) /\
                               den (ECond a b c) env = den c e1) /\
    (forall n, rvalue t e1 = Some n -> n <> 0%Z ->
               den (EBin BLogOr a b) env = Some (SNumT 1, e1) /\
               den (ECond a b c) env = den b e1).
Proof. exact spec_short_circuit_lemma. Qed.

(* The specification reads a variable operand when its operator is applied.  On
   every expression without an unsequenced read/write conflict (the expressions
   to which ISO C gives a meaning: not `x + x++`, `x += x++`) this is
   unobservable: the specification agrees with the semantics that converts each
   operand to its value as soon as it has been evaluated. *)
Theorem spec_late_read_unobservable :
  forall x, sequenced x -> forall e, den_eager x e = den x e.
Proof. exact late_read_unobservable. Qed.

(* ---- variables -------------------------------------------------------------------------- *)

(* expand_variable reads a value exactly as the specification says: an
   optionally signed C integer constant that is representable *)
Theorem variable_value_exact : forall v, parse_integer v = variable_value v.
Proof. exact parse_integer_spec. Qed.

(* `$((x))` and `$(($x))` agree when the value of x is an integer constant *)
Theorem var_const_agree :
  forall cls x w z env,
    Forall (fun c => is_word cls c = true) x ->
    (exists c r, x = c :: r /\ ascii_digit c = false) ->
    Forall (fun c => is_word cls c = true) w ->
    constant_value w = Some z ->
    lookup x env = Some w ->
    run cls x env = RVal z env /\ run cls w env = RVal z env.
Proof. exact var_const_agree_lemma. Qed.

(* with one sign in front of the constant the variable denotes the signed number *)
Theorem var_signed_const_agree :
  forall w z, plain w -> parse_constant w = Some z ->
    parse_integer (45%N :: w) = Some (- z)%Z /\ parse_integer (43%N :: w) = Some z.
Proof. exact var_signed_const. Qed.

(* what an assignment stores reads back as the assigned value *)
Theorem assign_then_read :
  forall z, I64 z -> parse_integer (dec_of_Z z) = Some z.
Proof. exact assign_read_lemma. Qed.

(* ---- the tables as the source states them now (coq/Gen/Gen_Arith.v is regenerated
        from token.rs and ast.rs on every run) ------------------------------------------- *)

Theorem gen_tables_match_model : gen_tables_are_model.
Proof. exact gen_tables_are_model_holds. Qed.

(* the OPERATORS table of the source, scanned in its order, is maximal munch *)
Theorem gen_operator_table_is_longest_match :
  map (fun p => (L (fst p), snd p)) gen_operators
    = map (fun p => (fst p, oper_name (snd p))) operators /\
  forall s,
    match find_operator operators s with
    | Some (lx, o, rest) =>
        longest_operator s = Some o /\ lx = lexeme o /\ rest = skipn (length (lexeme o)) s
    | None => longest_operator s = None
    end.
Proof.
  exact (conj (proj1 (proj2 gen_tables_are_model_holds)) first_match_is_longest).
Qed.

(* the precedence table of the source is the table of the C grammar levels *)
Theorem gen_precedence_is_C :
  gen_precedence = map (fun o => (oper_name o, precedence o)) all_opers /\
  forall o,
    match op_level o with
    | Some j => precedence o = N.of_nat (13 - j) /\ (1 <= j <= 12)%nat
    | None => precedence o = 0%N \/ precedence o = 13%N
    end.
Proof.
  exact (conj (proj1 (proj2 (proj2 gen_tables_are_model_holds))) precedence_level).
Qed.

(* ---- assumptions (each must be: Closed under the global context) ------------------------ *)
Print Assumptions arith_exact_or_error.
Print Assumptions oracle_sound.
Print Assumptions eval_total.
Print Assumptions operator_table_is_longest_match.
Print Assumptions lex_equiv.
Print Assumptions precedence_is_C.
Print Assumptions parse_equiv.
Print Assumptions parse_wf.
Print Assumptions env_arith_exact_or_error.
Print Assumptions shell_arith_exact_or_error.
Print Assumptions portability_check_spec.
Print Assumptions portable_exact_or_error.
Print Assumptions shl_filter_exact.
Print Assumptions binary_result_exact_or_error.
Print Assumptions arith_in_range.
Print Assumptions eval_flatten.
Print Assumptions spec_short_circuit.
Print Assumptions spec_late_read_unobservable.
Print Assumptions variable_value_exact.
Print Assumptions var_const_agree.
Print Assumptions var_signed_const_agree.
Print Assumptions assign_then_read.
Print Assumptions gen_tables_match_model.
Print Assumptions gen_operator_table_is_longest_match.
Print Assumptions gen_precedence_is_C.
