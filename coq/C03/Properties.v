(* C03 — property theorems only.  Each is closed by [exact] of a lemma from the
   Proofs*.v files; the driver pins the statements with [Check] and prints the
   assumptions on every run. *)
From Yv Require Import Common.Base C03.Defs C03.Model C03.Spec.
From Yv Require Import C03.ProofsArith C03.ProofsNum C03.ProofsLex C03.ProofsEval
  C03.ProofsParse C03.ProofsParse2 C03.Proofs.

(* The whole property: for every character classification, text and variable
   environment, yash_arith::eval (the model [run]) returns exactly the value
   and the variable assignments the specification gives (lexer by maximal munch,
   C grammar, denotational semantics in Z), reports an error exactly when the
   specification gives no value, and neither panics nor runs out of fuel. *)
Theorem arith_exact_or_error :
  forall cls s env,
    match run cls s env with
    | RVal z env' => spec_run cls s env = SVal z env'
    | RErr _ _ _ => spec_run cls s env = SErr
    | RPanic | RFuel => False
    end.
Proof. exact run_correct. Qed.

(* the oracle never demands more than the theorem gives *)
Theorem oracle_sound :
  forall cls s env, oracle cls s env (answer_of_outcome (run cls s env)) = 0%N.
Proof. exact oracle_sound_lemma. Qed.

Theorem eval_total :
  forall cls s env, run cls s env <> RPanic /\ run cls s env <> RFuel.
Proof. exact no_panic_lemma. Qed.
