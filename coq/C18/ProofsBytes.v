(* C18 — byte-at-a-time readers over chunked descriptors = line operations. *)
From Yv Require Import Common.Base C18.Model C18.Spec.
Local Open Scope N_scope.

(* ------------------------------------------------------------------ *)
(* Chunking is invisible to a byte-at-a-time reader.                   *)

Section ScanFacts.
  Context {S : Type} (step : S -> N -> S * bool).

  Lemma scan_chunk_app (s : S) (c r : list N) :
    scan_chunk step s (c ++ r) =
    match scan_chunk step s c with
    | (s', Some rest) => (s', Some (rest ++ r))
    | (s', None) => scan_chunk step s' r
    end.
  Proof.
    revert s; induction c as [|b c IH]; intros s; cbn [app scan_chunk]; [reflexivity|].
    destruct (step s b) as [s' stop]; destruct stop; [reflexivity | apply IH].
  Qed.

  (* [scan] on a descriptor = [scan_chunk] on its concatenated contents *)
  Lemma scan_flat (s : S) (d : dev) :
    match scan_chunk step s (concat d) with
    | (s', Some rest) => exists d', scan step s d = (s', true, d') /\ concat d' = rest
    | (s', None) => exists d', scan step s d = (s', false, d') /\ concat d' = []
    end.
  Proof.
    revert s; induction d as [|c d IH]; intros s; cbn [concat scan].
    - cbn. exists []. split; reflexivity.
    - rewrite scan_chunk_app. destruct (scan_chunk step s c) as [s1 [rest|]].
      + exists (rest :: d). split; reflexivity.
      + apply IH.
  Qed.
End ScanFacts.

Lemma read_byte_flat (d : dev) :
  match concat d with
  | [] => exists d', read_byte d = (None, d') /\ concat d' = []
  | b :: r => exists d', read_byte d = (Some b, d') /\ concat d' = r
  end.
Proof.
  induction d as [|c d IH]; cbn [concat read_byte].
  - exists []. split; reflexivity.
  - destruct c as [|b c]; cbn [app].
    + exact IH.
    + exists (c :: d). split; reflexivity.
Qed.

(* ------------------------------------------------------------------ *)
(* Lines.                                                              *)

(* the first line of a byte string, the rest, whether a newline ended it *)
Fixpoint first_line (x : list N) : line * list N * bool :=
  match x with
  | [] => ([], [], false)
  | b :: r =>
      if N.eqb b NL then ([b], r, true)
      else let '(l, r', f) := first_line r in (b :: l, r', f)
  end.

Lemma first_line_app (x : list N) :
  let '(l, r, _) := first_line x in x = l ++ r.
Proof.
  induction x as [|b x IH]; cbn [first_line]; [reflexivity|].
  destruct (N.eqb b NL); [reflexivity|].
  destruct (first_line x) as [[l r] f]. cbn. now rewrite IH.
Qed.

Lemma first_line_not_found (x : list N) :
  let '(_, r, f) := first_line x in f = false -> r = [].
Proof.
  induction x as [|b x IH]; cbn [first_line]; [reflexivity|].
  destruct (N.eqb b NL); [discriminate|].
  destruct (first_line x) as [[l r] f]. exact IH.
Qed.

Lemma split_lines_first (x : list N) :
  split_lines x =
  match x with
  | [] => []
  | _ => let '(l, r, _) := first_line x in l :: split_lines r
  end.
Proof.
  induction x as [|b x IH]; [reflexivity|].
  cbn [split_lines first_line]. destruct (N.eqb b NL); [reflexivity|].
  rewrite IH. destruct x as [|c x]; [reflexivity|].
  destruct (first_line (c :: x)) as [[l r] f]. reflexivity.
Qed.

Lemma concat_split_lines (x : list N) : concat (split_lines x) = x.
Proof.
  induction x as [|b x IH]; [reflexivity|].
  cbn [split_lines]. destruct (N.eqb b NL).
  - cbn. now rewrite IH.
  - destruct (split_lines x) as [|l ls]; cbn in *; now rewrite <- IH.
Qed.

Lemma split_lines_nil (x : list N) : split_lines x = [] -> x = [].
Proof. intros H. rewrite <- (concat_split_lines x), H. reflexivity. Qed.

Lemma split_lines_inj (x y : list N) : split_lines x = split_lines y -> x = y.
Proof. intros H. rewrite <- (concat_split_lines x), <- (concat_split_lines y), H. reflexivity. Qed.

Lemma nlen_app {A} (a b : list A) : nlen (a ++ b) = nlen a + nlen b.
Proof. unfold nlen. rewrite app_length. lia. Qed.

Lemma nlen_cons {A} (a : A) (b : list A) : nlen (a :: b) = 1 + nlen b.
Proof. unfold nlen. cbn [length]. lia. Qed.

(* ------------------------------------------------------------------ *)
(* FdReader2::next_line pops one line.                                 *)

Lemma nl_flat (x : list N) (acc : list N) :
  scan_chunk nl_step acc x =
  let '(l, r, f) := first_line x in (acc ++ l, if f then Some r else None).
Proof.
  revert acc; induction x as [|b x IH]; intros acc; cbn [scan_chunk first_line].
  - now rewrite app_nil_r.
  - unfold nl_step at 1. destruct (N.eqb b NL); [reflexivity|].
    rewrite IH. destruct (first_line x) as [[l r] f]. now rewrite <- app_assoc.
Qed.

Lemma next_line_flat (d : dev) :
  let '(l, r, _) := first_line (concat d) in
  exists d', next_line d = (l, d') /\ concat d' = r.
Proof.
  unfold next_line. pose proof (scan_flat nl_step [] d) as H.
  rewrite nl_flat in H. pose proof (first_line_not_found (concat d)) as Hnf.
  destruct (first_line (concat d)) as [[l r] f]. cbn [app] in H.
  destruct f.
  - destruct H as [d' [-> <-]]. exists d'. split; reflexivity.
  - destruct H as [d' [-> Hc]]. exists d'. split; [reflexivity|]. now rewrite Hnf.
Qed.

Lemma next_line_lines (d : dev) :
  match split_lines (concat d) with
  | [] => exists d', next_line d = ([], d') /\ split_lines (concat d') = []
  | l :: ls => exists d', next_line d = (l, d') /\ split_lines (concat d') = ls
  end.
Proof.
  pose proof (next_line_flat d) as H. rewrite split_lines_first.
  destruct (concat d) as [|b x] eqn:E.
  - cbn in H. destruct H as [d' [H1 H2]]. exists d'. now rewrite H2.
  - destruct (first_line (b :: x)) as [[l r] f]. destruct H as [d' [H1 H2]].
    exists d'. now rewrite H2.
Qed.

(* ------------------------------------------------------------------ *)
(* The read built-in takes whole lines.                                *)

Lemma line_read_at_nl (raw : bool) (r : list N) :
  line_read_nl raw (split_lines (NL :: r)) = ([], true, split_lines r, 1).
Proof. reflexivity. Qed.

Lemma line_read_plain (raw : bool) (b : N) (r : list N) :
  N.eqb b NL = false -> negb raw && N.eqb b BSL = false ->
  line_read_nl raw (split_lines (b :: r)) =
  let '(cs, f, ls, m) := line_read_nl raw (split_lines r) in ((b, false) :: cs, f, ls, 1 + m).
Proof.
  intros Hnl Hbs. cbn [split_lines]. rewrite Hnl.
  destruct (split_lines r) as [|l ls].
  - cbn [line_read_nl scan_line]. rewrite Hnl, Hbs. reflexivity.
  - cbn [line_read_nl]. cbn [scan_line]. rewrite Hnl, Hbs.
    destruct (scan_line raw l) as [cs e]. rewrite nlen_cons.
    destruct e; try reflexivity.
    destruct (line_read_nl raw ls) as [[[cs' f] r'] m]. cbn [app]. f_equal. lia.
Qed.

Lemma line_read_bs_end (r : list N) :
  line_read_nl false (split_lines [BSL]) = ([], false, [], 1).
Proof. reflexivity. Qed.

Lemma line_read_bs_nl (r : list N) :
  line_read_nl false (split_lines (BSL :: NL :: r)) =
  let '(cs, f, ls, m) := line_read_nl false (split_lines r) in (cs, f, ls, 2 + m).
Proof.
  change (split_lines (BSL :: NL :: r)) with ([BSL; NL] :: split_lines r).
  cbn [line_read_nl]. change (scan_line false [BSL; NL]) with (@nil (N * bool), LCont).
  destruct (line_read_nl false (split_lines r)) as [[[cs f] ls] m]. reflexivity.
Qed.

Lemma line_read_bs_char (c : N) (r : list N) :
  N.eqb c NL = false ->
  line_read_nl false (split_lines (BSL :: c :: r)) =
  let '(cs, f, ls, m) := line_read_nl false (split_lines r) in ((c, true) :: cs, f, ls, 2 + m).
Proof.
  intros Hc.
  assert (E : split_lines (BSL :: c :: r) =
              match split_lines r with
              | [] => [[BSL; c]]
              | l :: ls => (BSL :: c :: l) :: ls
              end).
  { cbn [split_lines]. change (N.eqb BSL NL) with false. cbv iota. rewrite Hc.
    destruct (split_lines r); reflexivity. }
  rewrite E. destruct (split_lines r) as [|l ls].
  - cbn [line_read_nl scan_line]. change (N.eqb BSL NL) with false. cbn [negb andb].
    change (N.eqb BSL BSL) with true. cbv iota. rewrite Hc. reflexivity.
  - cbn [line_read_nl]. cbn [scan_line]. change (N.eqb BSL NL) with false.
    change (negb false && N.eqb BSL BSL) with true. cbv iota. rewrite Hc.
    destruct (scan_line false l) as [cs e]. rewrite !nlen_cons.
    destruct e; try (f_equal; lia).
    destruct (line_read_nl false ls) as [[[cs' f] r'] m]. cbn [app]. f_equal. lia.
Qed.

(* what [read_text] observes of a final scanner state *)
Definition read_view (res : (list (N * bool) * bool * N) * option (list N))
  : list (N * bool) * bool * list line * N :=
  let '((acc, _, n), o) := res in
  match o with
  | Some rest => (acc, true, split_lines rest, n)
  | None => (acc, false, [], n)
  end.

Lemma read_flat_aux (raw : bool) (len : nat) :
  forall (x : list N) acc n, (length x <= len)%nat ->
  read_view (scan_chunk (read_step raw NL) (acc, false, n) x) =
  let '(cs, f, ls, m) := line_read_nl raw (split_lines x) in (acc ++ cs, f, ls, n + m).
Proof.
  induction len as [|len IH]; intros x acc n Hlen.
  - destruct x; [|cbn in Hlen; lia]. cbn. now rewrite app_nil_r, N.add_0_r.
  - destruct x as [|b r].
    { cbn. now rewrite app_nil_r, N.add_0_r. }
    cbn [length] in Hlen. cbn [scan_chunk]. unfold read_step at 1.
    destruct (N.eqb b NL) eqn:Hnl.
    { apply N.eqb_eq in Hnl. subst b. rewrite line_read_at_nl. cbn.
      now rewrite app_nil_r. }
    destruct (negb raw && N.eqb b BSL) eqn:Hbs.
    + (* backslash in non-raw mode *)
      apply andb_true_iff in Hbs. destruct Hbs as [Hraw Hb].
      apply negb_true_iff in Hraw. subst raw. apply N.eqb_eq in Hb. subst b.
      destruct r as [|c r2].
      * cbn. now rewrite app_nil_r.
      * cbn [scan_chunk]. unfold read_step at 1. destruct (N.eqb c NL) eqn:Hc.
        -- apply N.eqb_eq in Hc. subst c. rewrite line_read_bs_nl.
           rewrite IH by (cbn [length] in Hlen; lia).
           destruct (line_read_nl false (split_lines r2)) as [[[cs f] ls] m]. f_equal. lia.
        -- rewrite line_read_bs_char by exact Hc.
           rewrite IH by (cbn [length] in Hlen; lia).
           destruct (line_read_nl false (split_lines r2)) as [[[cs f] ls] m].
           rewrite <- app_assoc. cbn [app]. f_equal. lia.
    + rewrite line_read_plain by assumption.
      rewrite IH by lia.
      destruct (line_read_nl raw (split_lines r)) as [[[cs f] ls] m].
      rewrite <- app_assoc. cbn [app]. f_equal. lia.
Qed.

(* any delimiter: the scanner computes [flat_read] *)
Definition read_view2 (res : (list (N * bool) * bool * N) * option (list N))
  : list (N * bool) * option (list N) * N :=
  let '((acc, _, n), o) := res in (acc, o, n).

Lemma read_flat_d (raw : bool) (d : N) : forall (x : list N) acc esc n,
  read_view2 (scan_chunk (read_step raw d) (acc, esc, n) x) =
  let '(cs, f, rest, m) := flat_read raw d esc x in
  (acc ++ cs, if f then Some rest else None, n + m).
Proof.
  induction x as [|b r IH]; intros acc esc n; cbn [scan_chunk flat_read].
  - cbn. now rewrite app_nil_r, N.add_0_r.
  - unfold read_step at 1. destruct esc.
    + destruct (N.eqb b NL).
      * rewrite IH. destruct (flat_read raw d false r) as [[[cs f] rest] m]. f_equal. lia.
      * rewrite IH. destruct (flat_read raw d false r) as [[[cs f] rest] m].
        rewrite <- app_assoc. cbn [app]. f_equal. lia.
    + destruct (N.eqb b d).
      * cbn. now rewrite app_nil_r.
      * destruct (negb raw && N.eqb b BSL).
        -- rewrite IH. destruct (flat_read raw d true r) as [[[cs f] rest] m]. f_equal. lia.
        -- rewrite IH. destruct (flat_read raw d false r) as [[[cs f] rest] m].
           rewrite <- app_assoc. cbn [app]. f_equal. lia.
Qed.

Lemma flat_read_not_found (raw : bool) (d : N) : forall x esc,
  let '(_, f, rest, _) := flat_read raw d esc x in f = false -> rest = [].
Proof.
  induction x as [|b r IH]; intros esc; cbn [flat_read]; [reflexivity|].
  destruct esc.
  - specialize (IH false). destruct (flat_read raw d false r) as [[[cs f] rest] m].
    destruct (N.eqb b NL); exact IH.
  - destruct (N.eqb b d); [discriminate|]. destruct (negb raw && N.eqb b BSL).
    + specialize (IH true). destruct (flat_read raw d true r) as [[[cs f] rest] m]. exact IH.
    + specialize (IH false). destruct (flat_read raw d false r) as [[[cs f] rest] m]. exact IH.
Qed.

Lemma read_text_lines (raw : bool) (d : N) (dv : dev) :
  let '(cs, f, ls, m) := line_read raw d (split_lines (concat dv)) in
  exists d', read_text raw d dv = (cs, f, d', m) /\ split_lines (concat d') = ls.
Proof.
  unfold read_text, line_read.
  pose proof (scan_flat (read_step raw d) ([], false, 0) dv) as H.
  destruct (N.eqb d NL) eqn:Ed.
  - apply N.eqb_eq in Ed. subst d.
    pose proof (read_flat_aux raw (length (concat dv)) (concat dv) [] 0 (le_n _)) as Hv.
    destruct (line_read_nl raw (split_lines (concat dv))) as [[[cs f] ls] m].
    cbn [app] in Hv. rewrite N.add_0_l in Hv.
    destruct (scan_chunk (read_step raw NL) ([], false, 0) (concat dv)) as [[[acc esc] n] [rest|]];
      cbn [read_view] in Hv; inversion Hv; subst; destruct H as [d' [-> Hc]]; exists d'.
    + split; [reflexivity | now rewrite Hc].
    + split; [reflexivity | now rewrite Hc].
  - rewrite concat_split_lines.
    pose proof (read_flat_d raw d (concat dv) [] false 0) as Hv.
    pose proof (flat_read_not_found raw d (concat dv) false) as Hnf.
    destruct (flat_read raw d false (concat dv)) as [[[cs f] rest] m].
    cbn [app] in Hv. rewrite N.add_0_l in Hv.
    destruct (scan_chunk (read_step raw d) ([], false, 0) (concat dv)) as [[[acc esc] n] o].
    cbn [read_view2] in Hv. inversion Hv; subst. destruct f.
    + destruct H as [d' [-> Hc]]. exists d'. split; [reflexivity | now rewrite Hc].
    + destruct H as [d' [-> Hc]]. exists d'. split; [reflexivity|]. now rewrite Hc, Hnf.
Qed.

(* ------------------------------------------------------------------ *)
(* slurp takes everything.                                             *)

Lemma slurp_flat (x acc : list N) :
  scan_chunk slurp_step acc x = (acc ++ x, None).
Proof.
  revert acc; induction x as [|b x IH]; intros acc; cbn [scan_chunk].
  - now rewrite app_nil_r.
  - unfold slurp_step at 1. rewrite IH, <- app_assoc. reflexivity.
Qed.

Lemma slurp_all_flat (d : dev) :
  exists d', slurp_all d = (concat d, d', nlen (concat d)) /\ concat d' = [].
Proof.
  unfold slurp_all. pose proof (scan_flat slurp_step [] d) as H.
  rewrite slurp_flat in H. cbn [app] in H. destruct H as [d' [-> Hc]].
  exists d'. split; [reflexivity | exact Hc].
Qed.

(* ------------------------------------------------------------------ *)
(* The byte-level operations refine the line-level ones.               *)

Definition RI (d : dev) (ls : list line) : Prop := ls = split_lines (concat d).

Inductive RS : source -> lsource -> Prop :=
| RS_stdin : RS SrcStdin LShared
| RS_own d : RS (SrcOwn d) (LLines (split_lines (concat d)))
| RS_mem ls : RS (SrcMem ls) (LLines ls)
| RS_input d : RS (SrcInput d) (LLines (split_lines (concat d))).

Lemma RS_abs (s : source) : RS s (abs_src s).
Proof. destruct s; constructor. Qed.

Lemma pull_refines (s : source) (s' : lsource) (d : dev) (ls : list line) :
  RS s s' -> RI d ls ->
  let '(l1, s1, d1, n1) := byte_pull s d in
  let '(l2, s2, ls2, n2) := line_pull s' ls in
  l1 = l2 /\ n1 = n2 /\ RS s1 s2 /\ RI d1 ls2.
Proof.
  intros HS HI. unfold RI in HI. subst ls. destruct HS as [|d0|ls0|d0]; cbn [byte_pull line_pull].
  - pose proof (next_line_lines d) as H.
    destruct (split_lines (concat d)) as [|l ls]; destruct H as [d' [-> Hd]].
    + repeat split; [constructor | unfold RI; now rewrite Hd].
    + repeat split; [constructor | unfold RI; now rewrite Hd].
  - pose proof (next_line_lines d0) as H.
    destruct (split_lines (concat d0)) as [|l ls]; destruct H as [d' [-> Hd]].
    + repeat split. rewrite <- Hd. constructor.
    + repeat split. rewrite <- Hd. constructor.
  - destruct ls0 as [|l ls0]; repeat split; constructor.
  - pose proof (next_line_lines d0) as H.
    destruct (split_lines (concat d0)) as [|l ls]; destruct H as [d' [-> Hd]].
    + repeat split. rewrite <- Hd. constructor.
    + repeat split. rewrite <- Hd. constructor.
Qed.

Lemma read_refines (raw : bool) (dl : N) (d : dev) (ls : list line) :
  RI d ls ->
  let '(c1, f1, d1, n1) := read_text raw dl d in
  let '(c2, f2, ls2, n2) := line_read raw dl ls in
  c1 = c2 /\ f1 = f2 /\ n1 = n2 /\ RI d1 ls2.
Proof.
  intros HI. unfold RI in HI. subst ls. pose proof (read_text_lines raw dl d) as H.
  destruct (line_read raw dl (split_lines (concat d))) as [[[cs f] ls] m].
  destruct H as [d' [-> Hd]]. repeat split. unfold RI. now rewrite Hd.
Qed.

Lemma slurp_refines (d : dev) (ls : list line) :
  RI d ls ->
  let '(c1, d1, n1) := slurp_all d in
  let '(c2, ls2, n2) := line_slurp ls in
  c1 = c2 /\ n1 = n2 /\ RI d1 ls2.
Proof.
  intros HI. unfold RI in HI. subst ls. destruct (slurp_all_flat d) as [d' [-> Hd]].
  unfold line_slurp. rewrite concat_split_lines. repeat split. unfold RI. now rewrite Hd.
Qed.
