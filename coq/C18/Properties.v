(* C18 — property theorems only.  Each is closed by [exact] of a lemma from
   Proofs.v; the driver pins the statements with [Check] and prints the
   assumptions on every run.  Non-vacuity examples are in Examples.v. *)
From Yv Require Import Common.Base C18.Model C18.Spec C18.Run C18.Proofs C18.ProofsNested C18.Examples.

(* the byte-level machine (chunked descriptor, one byte per read, lexer line buffer with its pending text) does exactly what the line-level reference semantics says, for every parser, script source, chunking and fuel *)
Theorem model_refines_spec :
  forall parser fuel pf src d, model_run parser fuel pf src d = spec_run parser fuel pf (abs_src src) (abs_dev d).
Proof. exact model_refines_spec_lemma. Qed.

(* the property as a relation: every run of the model on a script on standard input, in any chunking, is a sequence of steps each taking exactly the lines the parser needs for one command (none when the command comes out of text pending in the line buffer and that suffices) and then running it on what follows, before anything of the next command is read; the parser of the next step gets the state the command left *)
Theorem run_is_line_by_line :
  forall parser fuel pf (d : dev), f_tag (model_run parser fuel pf SrcStdin d) <> FOutOfFuel -> f_tag (model_run parser fuel pf SrcStdin d) <> FStuck -> line_by_line parser (mkX (mkSh (mkP [] false) [] 0) (split_lines (concat d)) 0 []) false false [] [] (model_run parser fuel pf SrcStdin d).
Proof. exact run_is_line_by_line_lemma. Qed.

(* two deliveries of the same bytes (any bytes, not only UTF-8) on standard input, cut into chunks in any two ways, give the same run *)
Theorem chunking_irrelevant :
  forall parser fuel pf (d1 d2 : dev), concat d1 = concat d2 -> model_run parser fuel pf SrcStdin d1 = model_run parser fuel pf SrcStdin d2.
Proof. exact chunking_irrelevant_lemma. Qed.

(* the same when the script has a descriptor of its own *)
Theorem chunking_irrelevant_script_file :
  forall parser fuel pf (s1 s2 d1 d2 : dev), concat s1 = concat s2 -> concat d1 = concat d2 -> model_run parser fuel pf (SrcOwn s1) d1 = model_run parser fuel pf (SrcOwn s2) d2.
Proof. exact chunking_irrelevant_own_lemma. Qed.

(* a script file and a -c string with the same text run alike *)
Theorem script_file_equals_command_string :
  forall parser fuel pf (s d : dev), model_run parser fuel pf (SrcOwn s) d = model_run parser fuel pf (SrcMem (split_lines (concat s))) d.
Proof. exact file_equals_string_lemma. Qed.

(* the chunked descriptor the check builds from the harness' chunk sizes holds exactly the script *)
Theorem chunks_hold_the_script :
  forall sizes x, concat (chunk sizes x) = x.
Proof. exact concat_chunk. Qed.

(* parsing one command takes from the descriptor exactly the first k lines, k the least number after which the parser stops asking (k may be 0 when text is pending in the line buffer); the position advances by their length and everything after them is still in the descriptor; a line ends at the first newline byte whatever the other bytes are *)
Theorem consumes_minimal_lines :
  forall parser pf sts pend fed0 (d : dev) off r fed' src' d' off' eof', parse_phase byte_ops parser pf sts pend fed0 SrcStdin d off false = (PhDone r, (fed', src', d', off', eof')) -> exists k, decides parser sts (if pend then fed0 else []) (if pend then 0 else 1)%nat (split_lines (concat d)) k r /\ concat d = concat (firstn k (split_lines (concat d))) ++ concat d' /\ off' = (off + nlen (concat (firstn k (split_lines (concat d)))))%N /\ concat d' = concat (skipn k (split_lines (concat d))) /\ fed' = (if pend then fed0 else []) ++ firstn k (feedable (split_lines (concat d))).
Proof. exact consumes_minimal_lines_lemma. Qed.

(* when a command starts, the descriptor holds exactly the lines that follow the command: a command reading everything gets exactly them, `read -r` gets exactly the next line and leaves the rest *)
Theorem fd_position_after_command :
  forall parser pf sts pend fed0 (d : dev) off c p fed' src' d' off' eof', parse_phase byte_ops parser pf sts pend fed0 SrcStdin d off false = (PhDone (PComplete c p), (fed', src', d', off', eof')) -> exists k, decides parser sts (if pend then fed0 else []) (if pend then 0 else 1)%nat (split_lines (concat d)) k (PComplete c p) /\ let following := skipn k (split_lines (concat d)) in concat d' = concat following /\ (forall sh evs, x_evs (fst (exec byte_ops CSlurp (mkX sh d' off' evs))) = evs ++ [Ev 2 [concat following] (s_status sh) off']) /\ (forall sh evs v, let y := fst (exec byte_ops (CRead true NL v) (mkX sh d' off' evs)) in (existsb (fun c => N.eqb (fst c) 0) (fst (scan_line true (hd [] following))) = false -> get_var v (s_vars (x_sh y)) = read_value (fst (scan_line true (hd [] following)))) /\ concat (x_in y) = concat (tl following) /\ x_off y = (off' + nlen (hd [] following))%N).
Proof. exact fd_position_after_command_lemma. Qed.

(* if k commands of the input A++B leave exactly B unread, the same k commands do the same (records, variables, aliases, options, position, pending buffer) whatever replaces B — a syntax error, nothing, anything — in any chunking (for scripts whose reads take whole lines, i.e. without `read -d`) *)
Theorem earlier_lines_take_effect :
  forall parser (pf k : nat) (A B B' : list N) (d d' : dev) (m : mstate (I:=dev) (SRC:=source)), reads_lines parser -> concat d = A ++ B -> concat d' = A ++ B' -> nl_terminated A -> B <> [] -> iter_n byte_ops parser k pf (init SrcStdin d) = inl m -> concat (x_in (m_x m)) = B -> exists m', iter_n byte_ops parser k pf (init SrcStdin d') = inl m' /\ concat (x_in (m_x m')) = B' /\ x_sh (m_x m') = x_sh (m_x m) /\ x_off (m_x m') = x_off (m_x m) /\ x_evs (m_x m') = x_evs (m_x m) /\ m_eof m' = m_eof m /\ m_src m' = SrcStdin /\ m_pend m' = m_pend m /\ m_fed m' = m_fed m /\ m_hist m' = m_hist m.
Proof. exact earlier_lines_take_effect_lemma. Qed.

(* the same for a -c string or a script file (any commands, `read -d` included): if k commands leave exactly the lines LB of the script unread, they do the same whatever replaces LB *)
Theorem earlier_lines_take_effect_separate :
  forall parser (pf k : nat) (s s' : source) (LA LB LB' : list line) (d : dev) (m : mstate (I:=dev) (SRC:=source)), abs_src s = LLines (LA ++ LB) -> abs_src s' = LLines (LA ++ LB') -> LB <> [] -> iter_n byte_ops parser k pf (init s d) = inl m -> abs_src (m_src m) = LLines LB -> exists m', iter_n byte_ops parser k pf (init s' d) = inl m' /\ abs_src (m_src m') = LLines LB' /\ x_sh (m_x m') = x_sh (m_x m) /\ x_off (m_x m') = x_off (m_x m) /\ x_evs (m_x m') = x_evs (m_x m) /\ concat (x_in (m_x m')) = concat (x_in (m_x m)) /\ m_eof m' = m_eof m /\ m_pend m' = m_pend m /\ m_fed m' = m_fed m /\ m_hist m' = m_hist m.
Proof. exact earlier_lines_take_effect_separate_lemma. Qed.

(* if the command starting at B is a syntax error, what was executed before it is exactly what the script truncated before that command executes (which then ends normally) *)
Theorem executed_prefix_equals_truncated_script :
  forall parser (pf k : nat) (A B : list N) (d dA : dev) (m : mstate (I:=dev) (SRC:=source)) r, reads_lines parser -> (1 <= pf)%nat -> concat d = A ++ B -> concat dA = A -> nl_terminated A -> B <> [] -> iter_n byte_ops parser k pf (init SrcStdin d) = inl m -> concat (x_in (m_x m)) = B -> iter byte_ops parser pf m = inr r -> f_tag r = FSyntax -> m_eof m = false -> m_pend m = false -> parser [s_ps (x_sh (m_x m))] [[]] = PEnd -> exists mA rA, iter_n byte_ops parser k pf (init SrcStdin dA) = inl mA /\ iter byte_ops parser pf mA = inr rA /\ f_tag rA = FEnd /\ f_evs rA = f_evs r /\ f_off rA = x_off (m_x m) /\ f_status rA = x_status (m_x m).
Proof. exact executed_prefix_lemma. Qed.

(* every position of standard input recorded during a run, and the final one, is a line boundary (when no command reads with a delimiter other than newline) *)
Theorem positions_are_line_boundaries :
  forall parser fuel pf src (d : dev), reads_lines parser -> line_aligned (concat d) (obs_of_final (model_run parser fuel pf src d)) = true.
Proof. exact positions_are_line_boundaries_lemma. Qed.

(* the oracle of the check accepts everything the model can produce *)
Theorem oracle_sound :
  forall parser fuel pf script data f1 f2, let o := obs_of_final (model_of parser fuel pf script data f1) in (shared f1 = true -> shared f2 = true -> obs_eqb (obs_of_final (model_of parser fuel pf script data f2)) o = true) /\ (reads_lines parser -> line_aligned (if shared f1 then script else data) o = true) /\ obs_eqb (obs_of_final (spec_of parser fuel pf script data f1)) o = true.
Proof. exact oracle_sound_lemma. Qed.

(* the check applies the line-boundary clause exactly when the recorded parser satisfies the hypothesis of positions_are_line_boundaries *)
Theorem table_parser_reads_lines :
  forall t, table_reads_lines t = true -> reads_lines (tab_parser t).
Proof. exact tab_parser_reads_lines. Qed.

(* the recorded parser satisfies the bound on pending chains that the fuel of the check is computed from *)
Theorem table_parser_depth :
  forall t, pend_depth (tab_parser t) (table_depth t).
Proof. exact tab_parser_depth. Qed.

(* with the fuel the check computes from the input size and the depth of pending chains the model never stops for lack of fuel *)
Theorem fuel_never_runs_out :
  forall parser (K fuel pf : nat) src (d : dev), ends_at_eof parser -> pend_depth parser K -> (1 <= K)%nat -> (src_bytes src d + 2 <= pf)%nat -> (pf * K + 1 <= fuel)%nat -> f_tag (model_run parser fuel pf src d) <> FOutOfFuel.
Proof. exact fuel_never_runs_out_lemma. Qed.

(* the `set -v` oracle clause accepts every observation without echoed lines and without the `probe vmark` record: it raises no alarm on scripts that do not use `set -v` *)
Theorem echo_clause_quiet :
  forall script t s off evs, forallb quiet_event evs = true -> echo_ok script (t, s, off, evs) = true.
Proof. exact echo_clause_quiet_lemma. Qed.

(* chunking irrelevance at the Input level: an input function that returns the same text in any two sequences of pieces (pieces may end in the middle of a line; only an empty piece is the end of input) gives the same run *)
Theorem input_pieces_irrelevant :
  forall parser fuel pf (p1 p2 d : dev), concat p1 = concat p2 -> model_run parser fuel pf (SrcInput p1) d = model_run parser fuel pf (SrcInput p2) d.
Proof. exact input_pieces_irrelevant_lemma. Qed.

(* and the same run as the input function that returns the text line by line (Memory) *)
Theorem input_pieces_equal_lines :
  forall parser fuel pf (p d : dev), model_run parser fuel pf (SrcInput p) d = model_run parser fuel pf (SrcMem (split_lines (concat p))) d.
Proof. exact input_pieces_equal_lines_lemma. Qed.

(* model_refines_spec extended to programs with nested read-eval loops: at every nesting level (eval / dot run a new loop on a Memory source / on a descriptor of their own, on the same shell state and standard input), the byte-level machine equals the line-level reference semantics, for every parser, source, chunking and fuel *)
Theorem nested_refines_spec :
  forall parser lvl fuel pf src d, nmodel_run parser lvl fuel pf src d = nspec_run parser lvl fuel pf (abs_src src) (abs_dev d).
Proof. exact nested_refines_spec_lemma. Qed.

(* chunking_irrelevant extended to nested loops: with eval / dot commands (whose inner commands read the same standard input) two deliveries of the same bytes give the same run *)
Theorem nested_chunking_irrelevant :
  forall parser lvl fuel pf (d1 d2 : dev), concat d1 = concat d2 -> nmodel_run parser lvl fuel pf SrcStdin d1 = nmodel_run parser lvl fuel pf SrcStdin d2.
Proof. exact nested_chunking_irrelevant_lemma. Qed.

(* the same when the script has a descriptor of its own *)
Theorem nested_chunking_irrelevant_script_file :
  forall parser lvl fuel pf (s1 s2 d1 d2 : dev), concat s1 = concat s2 -> concat d1 = concat d2 -> nmodel_run parser lvl fuel pf (SrcOwn s1) d1 = nmodel_run parser lvl fuel pf (SrcOwn s2) d2.
Proof. exact nested_chunking_irrelevant_own_lemma. Qed.

(* at nesting level 0 (what the check uses for scripts without eval / dot) the nested model is the model all other theorems are about *)
Theorem level0_is_model :
  forall parser fuel pf src d, nmodel_run parser 0 fuel pf src d = model_run parser fuel pf src d.
Proof. exact level0_is_model_lemma. Qed.

(* parsing a command of a nested text (source = Memory string of eval or the descriptor dot opened) takes nothing from standard input and does not move its position, however many lines the command needs *)
Theorem nested_parse_leaves_stdin :
  forall parser fuel0 pf0 lvl pf sts pend fed s (d : dev) off eof ph fed' s' d' off' eof', s <> SrcStdin -> parse_phase (byte_ops_at parser fuel0 pf0 lvl) parser pf sts pend fed s d off eof = (ph, (fed', s', d', off', eof')) -> d' = d /\ off' = off /\ s' <> SrcStdin.
Proof. exact nested_parse_leaves_stdin_lemma. Qed.

(* one iteration of a nested loop: the command is parsed in the parser state (aliases, options) that the inner commands before it left, parsing leaves standard input and its position as they were, and the state after the iteration is exactly that of executing this one command on the state before it — so the position of the outer descriptor after eval / dot is the position after the command line containing it plus what the commands executed inside took *)
Theorem nested_iteration_runs_one_command :
  forall parser fuel0 pf0 lvl pf (m m' : mstate (I:=dev) (SRC:=source)), m_src m <> SrcStdin -> iterx (byte_ops_at parser fuel0 pf0 lvl) parser pf m = inl m' -> exists c p fed' src' eof', parse_phase (byte_ops_at parser fuel0 pf0 lvl) parser pf ((if m_pend m then m_hist m else []) ++ [s_ps (x_sh (m_x m))]) (m_pend m) (m_fed m) (m_src m) (x_in (m_x m)) (x_off (m_x m)) (m_eof m) = (PhDone (PComplete c p), (fed', src', x_in (m_x m), x_off (m_x m), eof')) /\ exec (byte_ops_at parser fuel0 pf0 lvl) c (m_x m) = (m_x m', false) /\ m_src m' = src' /\ src' <> SrcStdin.
Proof. exact nested_iteration_lemma. Qed.

(* a syntax error at the (k+1)-th command of a nested text stops the nested loop there: eval / dot hands back exactly the state the k inner commands before it left (records, variables, aliases, options, position of standard input) and interrupts the enclosing command with exit status 2 (the non-interactive shell then stops like for a syntax error in the script) *)
Theorem nested_syntax_error_keeps_earlier_effects :
  forall parser lvl fuel pf s (x : xstate (I:=dev)) (k : nat) m, nsrc_empty s = false -> (k < fuel)%nat -> iterx_n (byte_ops_at parser fuel pf lvl) parser k pf (mkM x (byte_src s) false false [] []) = inl m -> (exists y, iterx (byte_ops_at parser fuel pf lvl) parser pf m = inr (FSyntax, y)) -> op_nest (byte_ops_at parser fuel pf (S lvl)) s x = (with_status (ST_INTR + 2) (m_x m), true).
Proof. exact nested_syntax_error_lemma. Qed.

(* the delivery-independence clause and the reference-semantics clause of the oracle accept everything the nested model can produce, at every level *)
Theorem nested_oracle_sound :
  forall parser lvl fuel pf script data f1 f2, let o := obs_of_final (nmodel_of parser lvl fuel pf script data f1) in (shared f1 = true -> shared f2 = true -> obs_eqb (obs_of_final (nmodel_of parser lvl fuel pf script data f2)) o = true) /\ obs_eqb (obs_of_final (nspec_of parser lvl fuel pf script data f1)) o = true.
Proof. exact nested_oracle_sound_lemma. Qed.

(* for a parser that never yields a command containing eval / dot, the nested model at every level is the model the other theorems are about: all of them hold for it unchanged *)
Theorem nested_conservative :
  forall parser lvl fuel pf src d, parser_nest_free parser -> nmodel_run parser lvl fuel pf src d = model_run parser fuel pf src d.
Proof. exact nested_conservative_lemma. Qed.

Print Assumptions model_refines_spec.
Print Assumptions run_is_line_by_line.
Print Assumptions chunking_irrelevant.
Print Assumptions chunking_irrelevant_script_file.
Print Assumptions script_file_equals_command_string.
Print Assumptions chunks_hold_the_script.
Print Assumptions consumes_minimal_lines.
Print Assumptions fd_position_after_command.
Print Assumptions earlier_lines_take_effect.
Print Assumptions earlier_lines_take_effect_separate.
Print Assumptions executed_prefix_equals_truncated_script.
Print Assumptions positions_are_line_boundaries.
Print Assumptions oracle_sound.
Print Assumptions table_parser_reads_lines.
Print Assumptions table_parser_depth.
Print Assumptions fuel_never_runs_out.
Print Assumptions echo_clause_quiet.
Print Assumptions input_pieces_irrelevant.
Print Assumptions input_pieces_equal_lines.
Print Assumptions nested_refines_spec.
Print Assumptions nested_chunking_irrelevant.
Print Assumptions nested_chunking_irrelevant_script_file.
Print Assumptions level0_is_model.
Print Assumptions nested_parse_leaves_stdin.
Print Assumptions nested_iteration_runs_one_command.
Print Assumptions nested_syntax_error_keeps_earlier_effects.
Print Assumptions nested_oracle_sound.
Print Assumptions nested_conservative.
