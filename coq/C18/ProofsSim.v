(* C18 — two instances of the read-eval machine whose input operations are
   related behave identically (simulation). *)
From Yv Require Import Common.Base C18.Model C18.Spec.
Local Open Scope N_scope.

Section Sim.
  Context {I1 S1 I2 S2 : Type}
          (ops1 : input_ops I1 S1) (ops2 : input_ops I2 S2)
          (RI : I1 -> I2 -> Prop) (RS : S1 -> S2 -> Prop)
          (parser : list pstate -> list line -> pres).

  Hypothesis pull_sim : forall s1 s2 i1 i2, RS s1 s2 -> RI i1 i2 ->
    let '(l1, t1, j1, n1) := op_pull ops1 s1 i1 in
    let '(l2, t2, j2, n2) := op_pull ops2 s2 i2 in
    l1 = l2 /\ n1 = n2 /\ RS t1 t2 /\ RI j1 j2.
  Hypothesis read_sim : forall raw d i1 i2, RI i1 i2 ->
    let '(c1, f1, j1, n1) := op_read ops1 raw d i1 in
    let '(c2, f2, j2, n2) := op_read ops2 raw d i2 in
    c1 = c2 /\ f1 = f2 /\ n1 = n2 /\ RI j1 j2.
  Hypothesis slurp_sim : forall i1 i2, RI i1 i2 ->
    let '(c1, j1, n1) := op_slurp ops1 i1 in
    let '(c2, j2, n2) := op_slurp ops2 i2 in
    c1 = c2 /\ n1 = n2 /\ RI j1 j2.

  Definition RX (x1 : xstate (I:=I1)) (x2 : xstate (I:=I2)) : Prop :=
    x_sh x1 = x_sh x2 /\ x_off x1 = x_off x2 /\ x_evs x1 = x_evs x2 /\ RI (x_in x1) (x_in x2).

  (* nested loops of the two instances are related (closed by induction on
     the nesting level in Proofs.v) *)
  Hypothesis nest_sim : forall s x1 x2, RX x1 x2 ->
    RX (fst (op_nest ops1 s x1)) (fst (op_nest ops2 s x2)) /\
    snd (op_nest ops1 s x1) = snd (op_nest ops2 s x2).

  Lemma RX_intro sh off evs i1 i2 : RI i1 i2 -> RX (mkX sh i1 off evs) (mkX sh i2 off evs).
  Proof. intros H. repeat split; assumption. Qed.

  Lemma RX_status x1 x2 : RX x1 x2 -> x_status x1 = x_status x2.
  Proof. intros [H _]. unfold x_status. now rewrite H. Qed.

  Lemma RX_with_status n x1 x2 : RX x1 x2 -> RX (with_status n x1) (with_status n x2).
  Proof.
    intros [H1 [H2 [H3 H4]]]. unfold with_status. repeat split; cbn; try assumption.
    now rewrite H1.
  Qed.

  Lemma RX_emit k a o x1 x2 : RX x1 x2 -> RX (emit k a o x1) (emit k a o x2).
  Proof.
    intros H. pose proof (RX_status _ _ H) as Hs. destruct H as [H1 [H2 [H3 H4]]].
    unfold emit. repeat split; cbn; try assumption. now rewrite H3, Hs.
  Qed.

  Lemma exec_sim (c : cmd) : forall x1 x2, RX x1 x2 ->
    let (y1, e1) := exec ops1 c x1 in
    let (y2, e2) := exec ops2 c x2 in
    RX y1 y2 /\ e1 = e2.
  Proof.
    induction c; intros x1 x2 HR; cbn [exec].
    - split; [assumption | reflexivity].
    - split; [now apply RX_with_status | reflexivity].
    - destruct HR as [H1 [H2 [H3 H4]]] eqn:E. clear E.
      split; [|reflexivity]. apply RX_with_status. rewrite H2. apply RX_emit.
      repeat split; assumption.
    - destruct HR as [H1 [H2 [H3 H4]]] eqn:E. clear E.
      split; [|reflexivity]. apply RX_with_status. rewrite H1, H2. apply RX_emit.
      repeat split; assumption.
    - destruct HR as [H1 [H2 [H3 H4]]].
      pose proof (read_sim raw d _ _ H4) as Hr.
      destruct (op_read ops1 raw d (x_in x1)) as [[[c1 f1] j1] n1].
      destruct (op_read ops2 raw d (x_in x2)) as [[[c2 f2] j2] n2].
      destruct Hr as [-> [-> [-> Hj]]]. rewrite H1, H2, H3.
      destruct (existsb (fun c => N.eqb (fst c) 0) c2);
        (split; [|reflexivity]); repeat split; assumption.
    - pose proof HR as [H1 [H2 [H3 H4]]].
      pose proof (slurp_sim _ _ H4) as Hr.
      destruct (op_slurp ops1 (x_in x1)) as [[c1 j1] n1].
      destruct (op_slurp ops2 (x_in x2)) as [[c2 j2] n2].
      destruct Hr as [-> [-> Hj]].
      split; [|reflexivity]. apply RX_with_status. rewrite H2.
      pose proof (RX_emit 2 [c2] (x_off x2) _ _ HR) as [E1 [E2 [E3 E4]]].
      repeat split; cbn; assumption.
    - split; [|reflexivity]. apply RX_with_status. now apply RX_emit.
    - destruct HR as [H1 [H2 [H3 H4]]]. rewrite H1, H2, H3.
      split; [|reflexivity]. repeat split; assumption.
    - destruct HR as [H1 [H2 [H3 H4]]]. rewrite H1, H2, H3.
      split; [|reflexivity]. repeat split; assumption.
    - destruct HR as [H1 [H2 [H3 H4]]]. rewrite H1, H2, H3.
      split; [|reflexivity]. repeat split; assumption.
    - destruct n; (split; [|reflexivity]); [now apply RX_with_status | assumption].
    - specialize (IHc1 _ _ HR).
      destruct (exec ops1 c1 x1) as [y1 e1]. destruct (exec ops2 c1 x2) as [y2 e2].
      destruct IHc1 as [Hy ->]. destruct e2; [split; [assumption|reflexivity]|].
      apply IHc2; assumption.
    - specialize (IHc1 _ _ HR).
      destruct (exec ops1 c1 x1) as [y1 e1]. destruct (exec ops2 c1 x2) as [y2 e2].
      destruct IHc1 as [Hy ->]. destruct e2; [split; [assumption|reflexivity]|].
      rewrite (RX_status _ _ Hy). destruct (N.eqb (x_status y2) 0).
      + apply IHc2; assumption.
      + split; [assumption|reflexivity].
    - specialize (IHc1 _ _ HR).
      destruct (exec ops1 c1 x1) as [y1 e1]. destruct (exec ops2 c1 x2) as [y2 e2].
      destruct IHc1 as [Hy ->]. destruct e2; [split; [assumption|reflexivity]|].
      rewrite (RX_status _ _ Hy). destruct (N.eqb (x_status y2) 0).
      + split; [assumption|reflexivity].
      + apply IHc2; assumption.
    - specialize (IHc _ _ HR).
      destruct (exec ops1 c x1) as [y1 e1]. destruct (exec ops2 c x2) as [y2 e2].
      destruct IHc as [Hy ->]. destruct e2; [split; [assumption|reflexivity]|].
      rewrite (RX_status _ _ Hy). split; [now apply RX_with_status | reflexivity].
    - specialize (IHc1 _ _ HR).
      destruct (exec ops1 c1 x1) as [y1 e1]. destruct (exec ops2 c1 x2) as [y2 e2].
      destruct IHc1 as [Hy ->]. destruct e2; [split; [assumption|reflexivity]|].
      rewrite (RX_status _ _ Hy). destruct (N.eqb (x_status y2) 0).
      + apply IHc2; assumption.
      + apply IHc3; assumption.
    - specialize (IHc _ _ HR).
      destruct (exec ops1 c x1) as [y1 e1]. destruct (exec ops2 c x2) as [y2 e2].
      destruct IHc as [Hy _]. pose proof (RX_status _ _ Hy) as Hs.
      destruct HR as [H1 _]. destruct Hy as [_ [G2 [G3 G4]]].
      rewrite H1, Hs. split; [|reflexivity]. repeat split; cbn; assumption.
    - pose proof (nest_sim s _ _ HR) as Hn.
      destruct (op_nest ops1 s x1) as [y1 e1]. destruct (op_nest ops2 s x2) as [y2 e2].
      exact Hn.
  Qed.

  Lemma pull_loop_sim (fuel : nat) : forall sts fed s1 s2 i1 i2 off eof,
    RS s1 s2 -> RI i1 i2 ->
    let '(ph1, (g1, t1, j1, o1, e1)) := pull_loop ops1 parser fuel sts fed s1 i1 off eof in
    let '(ph2, (g2, t2, j2, o2, e2)) := pull_loop ops2 parser fuel sts fed s2 i2 off eof in
    ph1 = ph2 /\ g1 = g2 /\ o1 = o2 /\ e1 = e2 /\ RS t1 t2 /\ RI j1 j2.
  Proof.
    induction fuel as [|f IH]; intros sts fed s1 s2 i1 i2 off eof HS HI; cbn [pull_loop].
    - repeat split; assumption.
    - destruct eof.
      + cbn [orb]. destruct (parser sts (fed ++ [[]])); repeat split; assumption.
      + pose proof (pull_sim _ _ _ _ HS HI) as Hp.
        destruct (op_pull ops1 s1 i1) as [[[l1 t1] j1] n1].
        destruct (op_pull ops2 s2 i2) as [[[l2 t2] j2] n2].
        destruct Hp as [-> [-> [HS' HI']]]. cbn [orb].
        destruct l2 as [|b l2].
        * destruct (parser sts (fed ++ [[]])); repeat split; assumption.
        * destruct (parser sts (fed ++ [b :: l2])); try (repeat split; assumption).
          apply IH; assumption.
  Qed.

  Lemma parse_phase_sim (pf : nat) sts pend fed s1 s2 i1 i2 off eof :
    RS s1 s2 -> RI i1 i2 ->
    let '(ph1, (g1, t1, j1, o1, e1)) := parse_phase ops1 parser pf sts pend fed s1 i1 off eof in
    let '(ph2, (g2, t2, j2, o2, e2)) := parse_phase ops2 parser pf sts pend fed s2 i2 off eof in
    ph1 = ph2 /\ g1 = g2 /\ o1 = o2 /\ e1 = e2 /\ RS t1 t2 /\ RI j1 j2.
  Proof.
    intros HS HI. unfold parse_phase. destruct pend.
    - destruct (parser sts fed); try (repeat split; assumption).
      apply pull_loop_sim; assumption.
    - apply pull_loop_sim; assumption.
  Qed.

  Definition RM (m1 : mstate (I:=I1) (SRC:=S1)) (m2 : mstate (I:=I2) (SRC:=S2)) : Prop :=
    RX (m_x m1) (m_x m2) /\ RS (m_src m1) (m_src m2) /\ m_eof m1 = m_eof m2 /\
    m_pend m1 = m_pend m2 /\ m_fed m1 = m_fed m2 /\ m_hist m1 = m_hist m2.

  Definition Rres (r1 : mstate (I:=I1) (SRC:=S1) + final)
                  (r2 : mstate (I:=I2) (SRC:=S2) + final) : Prop :=
    match r1, r2 with
    | inl m1, inl m2 => RM m1 m2
    | inr f1, inr f2 => f1 = f2
    | _, _ => False
    end.

  Lemma finish_sim t n x1 x2 : RX x1 x2 -> finish t n x1 = finish t n x2.
  Proof. intros [_ [H2 [H3 _]]]. unfold finish. now rewrite H2, H3. Qed.

  Lemma iter_sim (pf : nat) (m1 : mstate) (m2 : mstate) :
    RM m1 m2 -> Rres (iter ops1 parser pf m1) (iter ops2 parser pf m2).
  Proof.
    intros [HX [HS [He [Hpe [Hfe Hhi]]]]]. unfold iter. pose proof HX as [H1 [H2 [H3 H4]]].
    rewrite H1, H2, H3, He, Hpe, Hfe, Hhi.
    set (sts := (if m_pend m2 then m_hist m2 else []) ++ [s_ps (x_sh (m_x m2))]).
    pose proof (parse_phase_sim pf sts (m_pend m2) (m_fed m2) _ _ _ _ (x_off (m_x m2)) (m_eof m2) HS H4) as Hp.
    destruct (parse_phase ops1 parser pf sts (m_pend m2) (m_fed m2) (m_src m1) (x_in (m_x m1))
                (x_off (m_x m2)) (m_eof m2)) as [ph1 [[[[g1 t1] j1] o1] e1]].
    destruct (parse_phase ops2 parser pf sts (m_pend m2) (m_fed m2) (m_src m2) (x_in (m_x m2))
                (x_off (m_x m2)) (m_eof m2)) as [ph2 [[[[g2 t2] j2] o2] e2]].
    destruct Hp as [-> [-> [-> [-> [HS' HI']]]]].
    assert (HX' : RX (mkX (x_sh (m_x m2)) j1 o2 (x_evs (m_x m2)))
                     (mkX (x_sh (m_x m2)) j2 o2 (x_evs (m_x m2)))) by now apply RX_intro.
    destruct ph2 as [r| |]; try (cbn; now apply finish_sim).
    destruct r; try (cbn; (rewrite (RX_status _ _ HX') || idtac); now apply finish_sim).
    pose proof (exec_sim c _ _ HX') as Hc.
    destruct (exec ops1 c _) as [y1 x1e]. destruct (exec ops2 c _) as [y2 x2e].
    destruct Hc as [Hy ->]. destruct x2e; cbn.
    - rewrite (RX_status _ _ Hy). now apply finish_sim.
    - repeat split; try assumption; apply Hy.
  Qed.

  Lemma loop_sim (fuel pf : nat) : forall m1 m2, RM m1 m2 ->
    loop ops1 parser fuel pf m1 = loop ops2 parser fuel pf m2.
  Proof.
    induction fuel as [|f IH]; intros m1 m2 HR; cbn [loop].
    - apply finish_sim. apply HR.
    - pose proof (iter_sim pf _ _ HR) as Hi.
      destruct (iter ops1 parser pf m1) as [n1|f1], (iter ops2 parser pf m2) as [n2|f2];
        cbn in Hi; try contradiction; [now apply IH | assumption].
  Qed.

  Definition Rresx (r1 : mstate (I:=I1) (SRC:=S1) + (ftag * xstate (I:=I1)))
                   (r2 : mstate (I:=I2) (SRC:=S2) + (ftag * xstate (I:=I2))) : Prop :=
    match r1, r2 with
    | inl m1, inl m2 => RM m1 m2
    | inr (t1, x1), inr (t2, x2) => t1 = t2 /\ RX x1 x2
    | _, _ => False
    end.

  Lemma iterx_sim (pf : nat) (m1 : mstate) (m2 : mstate) :
    RM m1 m2 -> Rresx (iterx ops1 parser pf m1) (iterx ops2 parser pf m2).
  Proof.
    intros [HX [HS [He [Hpe [Hfe Hhi]]]]]. unfold iterx. pose proof HX as [H1 [H2 [H3 H4]]].
    rewrite H1, H2, H3, He, Hpe, Hfe, Hhi.
    set (sts := (if m_pend m2 then m_hist m2 else []) ++ [s_ps (x_sh (m_x m2))]).
    pose proof (parse_phase_sim pf sts (m_pend m2) (m_fed m2) _ _ _ _ (x_off (m_x m2)) (m_eof m2) HS H4) as Hp.
    destruct (parse_phase ops1 parser pf sts (m_pend m2) (m_fed m2) (m_src m1) (x_in (m_x m1))
                (x_off (m_x m2)) (m_eof m2)) as [ph1 [[[[g1 t1] j1] o1] e1]].
    destruct (parse_phase ops2 parser pf sts (m_pend m2) (m_fed m2) (m_src m2) (x_in (m_x m2))
                (x_off (m_x m2)) (m_eof m2)) as [ph2 [[[[g2 t2] j2] o2] e2]].
    destruct Hp as [-> [-> [-> [-> [HS' HI']]]]].
    assert (HX' : RX (mkX (x_sh (m_x m2)) j1 o2 (x_evs (m_x m2)))
                     (mkX (x_sh (m_x m2)) j2 o2 (x_evs (m_x m2)))) by now apply RX_intro.
    destruct ph2 as [r| |]; try (cbn; split; [reflexivity | now apply RX_with_status]).
    destruct r; try (cbn; split; [reflexivity | (now apply RX_with_status) || assumption]).
    pose proof (exec_sim c _ _ HX') as Hc.
    destruct (exec ops1 c _) as [y1 x1e]. destruct (exec ops2 c _) as [y2 x2e].
    destruct Hc as [Hy ->]. destruct x2e; cbn.
    - split; [reflexivity | assumption].
    - repeat split; try assumption; apply Hy.
  Qed.

  Lemma loopx_sim (fuel pf : nat) : forall m1 m2, RM m1 m2 ->
    fst (loopx ops1 parser fuel pf m1) = fst (loopx ops2 parser fuel pf m2) /\
    RX (snd (loopx ops1 parser fuel pf m1)) (snd (loopx ops2 parser fuel pf m2)).
  Proof.
    induction fuel as [|f IH]; intros m1 m2 HR; cbn [loopx].
    - cbn [fst snd]. split; [reflexivity | apply RX_with_status; apply HR].
    - pose proof (iterx_sim pf _ _ HR) as Hi.
      destruct (iterx ops1 parser pf m1) as [n1|[t1 y1]], (iterx ops2 parser pf m2) as [n2|[t2 y2]];
        cbn in Hi; try contradiction; [now apply IH | exact Hi].
  Qed.

  Lemma nest_result_sim t x1 x2 : RX x1 x2 ->
    RX (fst (nest_result (t, x1))) (fst (nest_result (t, x2))) /\
    snd (nest_result (t, x1)) = snd (nest_result (t, x2)).
  Proof.
    intros H. pose proof (RX_status _ _ H) as Hs.
    destruct t; cbn [nest_result fst snd]; (split; [|reflexivity]);
      try assumption; try (rewrite Hs); now apply RX_with_status.
  Qed.

  (* the nested loops one level up are related again *)
  Lemma nest_with_sim (mk1 : nsrc -> S1) (mk2 : nsrc -> S2) fuel pf :
    (forall s, RS (mk1 s) (mk2 s)) ->
    forall s x1 x2, RX x1 x2 ->
    RX (fst (nest_with ops1 parser mk1 fuel pf s x1)) (fst (nest_with ops2 parser mk2 fuel pf s x2)) /\
    snd (nest_with ops1 parser mk1 fuel pf s x1) = snd (nest_with ops2 parser mk2 fuel pf s x2).
  Proof.
    intros Hmk s x1 x2 HR. unfold nest_with. destruct (nsrc_empty s).
    - cbn [fst snd]. split; [now apply RX_with_status | reflexivity].
    - assert (HM : RM (mkM x1 (mk1 s) false false [] []) (mkM x2 (mk2 s) false false [] [])).
      { repeat split; try apply HR. apply Hmk. }
      destruct (loopx_sim fuel pf _ _ HM) as [Ht Hx].
      destruct (loopx ops1 parser fuel pf _) as [t1 y1].
      destruct (loopx ops2 parser fuel pf _) as [t2 y2].
      cbn [fst snd] in Ht, Hx. subst t2. now apply nest_result_sim.
  Qed.

  Lemma iter_n_sim (n pf : nat) : forall m1 m2, RM m1 m2 ->
    Rres (iter_n ops1 parser n pf m1) (iter_n ops2 parser n pf m2).
  Proof.
    induction n as [|k IH]; intros m1 m2 HR; cbn [iter_n].
    - exact HR.
    - pose proof (iter_sim pf _ _ HR) as Hi.
      destruct (iter ops1 parser pf m1) as [n1|f1], (iter ops2 parser pf m2) as [n2|f2];
        cbn in Hi; try contradiction; [now apply IH | exact Hi].
  Qed.

  Lemma init_sim s1 s2 i1 i2 : RS s1 s2 -> RI i1 i2 -> RM (init s1 i1) (init s2 i2).
  Proof. intros HS HI. unfold init. repeat split; assumption. Qed.

  Lemma run_sim fuel pf s1 s2 i1 i2 : RS s1 s2 -> RI i1 i2 ->
    run ops1 parser fuel pf s1 i1 = run ops2 parser fuel pf s2 i2.
  Proof. intros HS HI. unfold run. apply loop_sim. now apply init_sim. Qed.
End Sim.
