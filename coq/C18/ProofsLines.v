(* C18 — facts about the line-level machine (the reference semantics). *)
From Yv Require Import Common.Base C18.Model C18.Spec C18.ProofsBytes.
Local Open Scope N_scope.

Definition no_empty (ls : list line) : Prop := Forall (fun l => l <> []) ls.

Lemma split_lines_no_empty (x : list N) : no_empty (split_lines x).
Proof.
  induction x as [|b x IH]; cbn [split_lines]; [constructor|].
  destruct (N.eqb b NL).
  - constructor; [discriminate | exact IH].
  - destruct (split_lines x) as [|l ls].
    + constructor; [discriminate | constructor].
    + inversion IH; subst. constructor; [discriminate | assumption].
Qed.

(* ------------------------------------------------------------------ *)
(* The parse phase takes exactly the lines the parser needs.           *)

Section Decides.
  Context (parser : list pstate -> list line -> pres).

  Lemma pull_loop_decides (fuel : nat) : forall sts fed ls off r fed' s' ls' off' eof',
    no_empty ls ->
    pull_loop line_ops parser fuel sts fed LShared ls off false
      = (PhDone r, (fed', s', ls', off', eof')) ->
    exists k, (1 <= k <= S (length ls))%nat /\
      parser sts (fed ++ firstn k (feedable ls)) = r /\ r <> PNeedMore /\
      (forall j, (1 <= j < k)%nat -> parser sts (fed ++ firstn j (feedable ls)) = PNeedMore) /\
      fed' = fed ++ firstn k (feedable ls) /\
      s' = LShared /\ ls' = skipn k ls /\ off' = off + nlen (concat (firstn k ls)) /\
      eof' = Nat.eqb k (S (length ls)).
  Proof.
    induction fuel as [|f IH]; intros sts fed ls off r fed' s' ls' off' eof' Hne H; cbn [pull_loop] in H.
    - discriminate.
    - destruct ls as [|l rest].
      + cbn in H. destruct (parser sts (fed ++ [[]])) eqn:E; inversion H; subst;
          (exists 1%nat; cbn;
           repeat split; try lia; try discriminate; try exact E; try (intros j Hj; lia)).
      + inversion Hne as [|? ? Hl Hrest]; subst.
        cbn [op_pull line_ops line_pull orb] in H.
        destruct l as [|b l]; [contradiction|].
        destruct (parser sts (fed ++ [b :: l])) eqn:E.
        * (* wants more *)
          apply IH in H; [|assumption].
          destruct H as [k [Hk [Hp [Hr [Hmin [Hfed [Hs [Hls [Hoff Heof]]]]]]]]].
          exists (S k). cbn [feedable app firstn skipn length concat].
          rewrite <- app_assoc in Hp, Hfed. cbn [app] in Hp, Hfed.
          repeat split; try lia; try assumption.
          -- intros j Hj. destruct j as [|j]; [lia|]. cbn [firstn].
             destruct j as [|j].
             ++ cbn [firstn]. exact E.
             ++ specialize (Hmin (S j) ltac:(lia)). rewrite <- app_assoc in Hmin. exact Hmin.
          -- rewrite Hoff. unfold nlen. cbn [length]. rewrite app_length. lia.
        * inversion H; subst. exists 1%nat. cbn [feedable app firstn skipn length concat].
          rewrite app_nil_r. repeat split; try lia; try discriminate; try exact E.
        * inversion H; subst. exists 1%nat. cbn [feedable app firstn skipn length concat].
          rewrite app_nil_r. repeat split; try lia; try discriminate; try exact E.
        * inversion H; subst. exists 1%nat. cbn [feedable app firstn skipn length concat].
          rewrite app_nil_r. repeat split; try lia; try discriminate; try exact E.
        * inversion H; subst. exists 1%nat. cbn [feedable app firstn skipn length concat].
          rewrite app_nil_r. repeat split; try lia; try discriminate; try exact E.
  Qed.
End Decides.

(* ------------------------------------------------------------------ *)
(* Every operation pops whole lines.                                   *)

Definition pops (i rest : list line) (n : N) : Prop :=
  exists j, rest = skipn j i /\ n = nlen (concat (firstn j i)).

Lemma pops_refl i : pops i i 0.
Proof. exists 0%nat. split; reflexivity. Qed.

Lemma skipn_add {A} (j k : nat) (l : list A) : skipn k (skipn j l) = skipn (j + k) l.
Proof.
  revert l; induction j as [|j IH]; intros l; [reflexivity|].
  destruct l as [|a l]; cbn [skipn plus]; [now destruct k | apply IH].
Qed.

Lemma firstn_add {A} (j k : nat) (l : list A) :
  firstn (j + k) l = firstn j l ++ firstn k (skipn j l).
Proof.
  revert l; induction j as [|j IH]; intros l; [reflexivity|].
  destruct l as [|a l]; cbn [skipn firstn plus app]; [now destruct k | now rewrite IH].
Qed.

Lemma pops_trans i r1 n1 r2 n2 : pops i r1 n1 -> pops r1 r2 n2 -> pops i r2 (n1 + n2).
Proof.
  intros [j [-> ->]] [k [-> ->]]. exists (j + k)%nat. split.
  - apply skipn_add.
  - rewrite firstn_add, concat_app, nlen_app. reflexivity.
Qed.

Lemma pops_cons l i : pops (l :: i) i (nlen l).
Proof. exists 1%nat. split; [reflexivity|]. cbn. now rewrite app_nil_r. Qed.

Lemma pops_length i rest n : pops i rest n -> (length rest <= length i)%nat.
Proof. intros [j [-> _]]. rewrite skipn_length. lia. Qed.

Lemma line_pull_pops (s : lsource) (i : list line) :
  let '(_, _, rest, n) := line_pull s i in pops i rest n.
Proof.
  destruct s as [|ls]; cbn [line_pull].
  - destruct i as [|l i]; [apply pops_refl | apply pops_cons].
  - destruct ls; apply pops_refl.
Qed.

Lemma line_read_pops (raw : bool) (i : list line) :
  let '(_, _, rest, n) := line_read_nl raw i in pops i rest n.
Proof.
  induction i as [|l i IH]; cbn [line_read_nl]; [apply pops_refl|].
  destruct (scan_line raw l) as [cs e]. destruct e; try apply pops_cons.
  destruct (line_read_nl raw i) as [[[cs' f] r] n].
  eapply pops_trans; [apply pops_cons | exact IH].
Qed.

Lemma line_slurp_pops (i : list line) :
  let '(_, rest, n) := line_slurp i in pops i rest n.
Proof.
  unfold line_slurp. exists (length i). rewrite skipn_all, firstn_all. split; reflexivity.
Qed.

(* ------------------------------------------------------------------ *)
(* Positions are line boundaries.                                      *)

Section Aligned.
  Context (parser : list pstate -> list line -> pres) (L0 : list line).
  Hypothesis parser_reads_lines : reads_lines parser.

  (* the input is a suffix of the original lines and the position is the
     length of what was taken *)
  Definition at_boundary (i : list line) (off : N) : Prop := pops L0 i off.

  Definition is_boundary (off : N) : Prop := exists j, off = nlen (concat (firstn j L0)).

  Definition ev_ok (e : event) : Prop := event_kind e = 3 \/ is_boundary (event_off e).

  Definition x_ok (x : xstate (I:=list line)) : Prop :=
    at_boundary (x_in x) (x_off x) /\ Forall ev_ok (x_evs x).

  Lemma at_boundary_is i off : at_boundary i off -> is_boundary off.
  Proof. intros [j [_ ->]]. now exists j. Qed.

  Lemma x_ok_with_status n x : x_ok x -> x_ok (with_status n x).
  Proof. intros H. exact H. Qed.

  Lemma x_ok_emit k a x : x_ok x -> x_ok (emit k a (x_off x) x).
  Proof.
    intros [H1 H2]. split; [exact H1|]. cbn. apply Forall_app. split; [exact H2|].
    constructor; [|constructor]. right. cbn. eapply at_boundary_is; exact H1.
  Qed.

  Lemma x_ok_emit_here a x : x_ok x -> x_ok (emit 3 a 0 x).
  Proof.
    intros [H1 H2]. split; [exact H1|]. cbn. apply Forall_app. split; [exact H2|].
    constructor; [|constructor]. left. reflexivity.
  Qed.

  Lemma exec_ok (c : cmd) : forall x, nl_cmd c = true -> x_ok x -> x_ok (fst (exec line_ops c x)).
  Proof.
    induction c; intros x Hnl Hx; cbn [exec]; cbn [nl_cmd] in Hnl;
      repeat match goal with H : _ && _ = true |- _ => apply andb_true_iff in H; destruct H end.
    - exact Hx.
    - exact Hx.
    - apply x_ok_with_status. now apply x_ok_emit.
    - apply x_ok_with_status. now apply x_ok_emit.
    - cbn [op_read line_ops]. unfold line_read. rewrite Hnl.
      pose proof (line_read_pops raw (x_in x)) as Hp.
      destruct (line_read_nl raw (x_in x)) as [[[cs f] r] n].
      destruct Hx as [H1 H2].
      destruct (existsb (fun c => N.eqb (fst c) 0) cs); cbn [fst];
        (split; [|exact H2]); cbn; eapply pops_trans; eassumption.
    - cbn [op_slurp line_ops]. pose proof (line_slurp_pops (x_in x)) as Hp.
      destruct (line_slurp (x_in x)) as [[ct r] n]. cbn [fst].
      pose proof (x_ok_emit 2 [ct] x Hx) as [H1 H2]. destruct Hx as [G1 G2].
      split; [|exact H2]. cbn. eapply pops_trans; eassumption.
    - apply x_ok_with_status. now apply x_ok_emit_here.
    - exact Hx.
    - exact Hx.
    - exact Hx.
    - destruct n; exact Hx.
    - specialize (IHc1 x ltac:(assumption) Hx). destruct (exec line_ops c1 x) as [x1 e]. cbn [fst] in IHc1.
      destruct e; [exact IHc1 | now apply IHc2].
    - specialize (IHc1 x ltac:(assumption) Hx). destruct (exec line_ops c1 x) as [x1 e]. cbn [fst] in IHc1.
      destruct e; [exact IHc1|]. destruct (N.eqb (x_status x1) 0); [now apply IHc2 | exact IHc1].
    - specialize (IHc1 x ltac:(assumption) Hx). destruct (exec line_ops c1 x) as [x1 e]. cbn [fst] in IHc1.
      destruct e; [exact IHc1|]. destruct (N.eqb (x_status x1) 0); [exact IHc1 | now apply IHc2].
    - specialize (IHc x Hnl Hx). destruct (exec line_ops c x) as [x1 e]. cbn [fst] in IHc.
      destruct e; exact IHc.
    - specialize (IHc1 x ltac:(assumption) Hx). destruct (exec line_ops c1 x) as [x1 e]. cbn [fst] in IHc1.
      destruct e; [exact IHc1|]. destruct (N.eqb (x_status x1) 0); [now apply IHc2 | now apply IHc3].
    - specialize (IHc x Hnl Hx). destruct (exec line_ops c x) as [x1 e]. cbn [fst] in IHc.
      exact IHc.
    - change (op_nest line_ops s x) with (nest_stub s x). unfold nest_stub. cbn [fst].
      apply x_ok_with_status. exact Hx.
  Qed.

  (* a command returned by the parse phase is one the parser produced *)
  Lemma pull_loop_result (fuel : nat) : forall sts fed src i off eof c p rest,
    pull_loop line_ops parser fuel sts fed src i off eof = (PhDone (PComplete c p), rest) ->
    nl_cmd c = true.
  Proof.
    induction fuel as [|f IH]; intros sts fed src i off eof c p rest H; cbn [pull_loop] in H; [discriminate|].
    destruct (if eof then ([], src, i, 0) else op_pull line_ops src i) as [[[l s'] i'] n].
    destruct (parser sts (fed ++ [l])) eqn:Ep.
    - destruct (eof || match l with [] => true | _ :: _ => false end); [discriminate|].
      eapply IH; exact H.
    - inversion H; subst. eapply parser_reads_lines; exact Ep.
    - discriminate.
    - discriminate.
    - discriminate.
  Qed.

  Lemma pull_loop_ok (fuel : nat) : forall sts fed src i off eof,
    at_boundary i off ->
    let '(_, (_, _, i', off', _)) := pull_loop line_ops parser fuel sts fed src i off eof in
    at_boundary i' off'.
  Proof.
    induction fuel as [|f IH]; intros sts fed src i off eof H; cbn [pull_loop]; [exact H|].
    destruct eof.
    - cbn [orb]. rewrite N.add_0_r. destruct (parser sts (fed ++ [[]])); exact H.
    - cbn [op_pull line_ops]. pose proof (line_pull_pops src i) as Hp.
      destruct (line_pull src i) as [[[l s'] i'] n].
      assert (H' : at_boundary i' (off + n)) by (eapply pops_trans; eassumption).
      cbn [orb]. destruct l as [|b l].
      + destruct (parser sts (fed ++ [[]])); exact H'.
      + destruct (parser sts (fed ++ [b :: l])); try exact H'. apply IH. exact H'.
  Qed.

  Lemma parse_phase_ok (pf : nat) sts pend fed src i off eof :
    at_boundary i off ->
    let '(_, (_, _, i', off', _)) := parse_phase line_ops parser pf sts pend fed src i off eof in
    at_boundary i' off'.
  Proof.
    intros H. unfold parse_phase. destruct pend; [|now apply pull_loop_ok].
    destruct (parser sts fed); try exact H. now apply pull_loop_ok.
  Qed.

  Definition f_ok (r : final) : Prop := is_boundary (f_off r) /\ Forall ev_ok (f_evs r).

  Lemma finish_ok t n x : x_ok x -> f_ok (finish t n x).
  Proof. intros [H1 H2]. split; [eapply at_boundary_is; exact H1 | exact H2]. Qed.

  Lemma iter_ok (pf : nat) (m : mstate) :
    x_ok (m_x m) ->
    match iter line_ops parser pf m with
    | inl m' => x_ok (m_x m')
    | inr r => f_ok r
    end.
  Proof.
    intros [H1 H2]. unfold iter.
    set (sts := (if m_pend m then m_hist m else []) ++ [s_ps (x_sh (m_x m))]).
    pose proof (parse_phase_ok pf sts (m_pend m) (m_fed m) (m_src m) _ _ (m_eof m) H1) as Hp.
    destruct (parse_phase line_ops parser pf sts (m_pend m) (m_fed m) (m_src m) (x_in (m_x m))
                (x_off (m_x m)) (m_eof m)) as [ph [[[[g' s'] i'] off'] eof']] eqn:Eph.
    assert (Hx : x_ok (mkX (x_sh (m_x m)) i' off' (x_evs (m_x m)))) by (split; assumption).
    destruct ph as [r| |]; try (now apply finish_ok).
    destruct r; try (now apply finish_ok).
    assert (Hnl : nl_cmd c = true).
    { unfold parse_phase in Eph. destruct (m_pend m).
      - destruct (parser sts (m_fed m)) eqn:Ep;
          try (inversion Eph; subst; eapply parser_reads_lines; exact Ep).
        eapply pull_loop_result; exact Eph.
      - eapply pull_loop_result; exact Eph. }
    pose proof (exec_ok c _ Hnl Hx) as Hc.
    destruct (exec line_ops c _) as [x2 ex]. cbn [fst] in Hc.
    destruct ex; [now apply finish_ok | exact Hc].
  Qed.

  Lemma loop_ok (fuel pf : nat) : forall m, x_ok (m_x m) -> f_ok (loop line_ops parser fuel pf m).
  Proof.
    induction fuel as [|f IH]; intros m H; cbn [loop]; [now apply finish_ok|].
    pose proof (iter_ok pf m H) as Hi.
    destruct (iter line_ops parser pf m) as [m'|r]; [now apply IH | exact Hi].
  Qed.
End Aligned.

Lemma run_ok parser fuel pf src (L0 : list line) :
  reads_lines parser ->
  f_ok L0 (run line_ops parser fuel pf src L0).
Proof.
  intros Hrl. unfold run. apply loop_ok; [exact Hrl|]. split; [apply pops_refl | constructor].
Qed.

Lemma mem_boundaries_from (ls : list line) : forall p j,
  mem_N (p + nlen (concat (firstn j ls))) (boundaries_from p ls) = true.
Proof.
  induction ls as [|l ls IH]; intros p j; cbn [boundaries_from].
  - rewrite firstn_nil. cbn [concat]. unfold mem_N. cbn. rewrite N.add_0_r, N.eqb_refl. reflexivity.
  - destruct j as [|j].
    + cbn [firstn concat]. unfold mem_N. cbn [existsb]. rewrite N.add_0_r, N.eqb_refl. reflexivity.
    + cbn [firstn concat]. rewrite nlen_app, N.add_assoc. unfold mem_N in *. cbn [existsb].
      rewrite IH. apply orb_true_r.
Qed.

Lemma is_boundary_mem (x : list N) (off : N) :
  is_boundary (split_lines x) off -> mem_N off (boundaries x) = true.
Proof. intros [j ->]. unfold boundaries. apply (mem_boundaries_from _ 0 j). Qed.

Lemma line_aligned_sound (x : list N) (r : final) :
  f_ok (split_lines x) r -> line_aligned x (obs_of_final r) = true.
Proof.
  intros [H1 H2]. unfold line_aligned, obs_of_final. apply andb_true_iff. split.
  - now apply is_boundary_mem.
  - apply forallb_forall. intros e He. rewrite Forall_forall in H2. specialize (H2 e He).
    destruct H2 as [H|H].
    + rewrite H. reflexivity.
    + apply orb_true_iff. right. now apply is_boundary_mem.
Qed.

(* ------------------------------------------------------------------ *)
(* Well-formed inputs: exactly the lists of lines of some byte string. *)

Definition wf (i : list line) : Prop := split_lines (concat i) = i.

Lemma wf_split (x : list N) : wf (split_lines x).
Proof. unfold wf. now rewrite concat_split_lines. Qed.

Lemma wf_nil : wf [].
Proof. reflexivity. Qed.

Lemma wf_no_empty (i : list line) : wf i -> no_empty i.
Proof. intros H. rewrite <- H. apply split_lines_no_empty. Qed.

(* a suffix of the lines of x is the list of lines of its concatenation *)
Lemma split_lines_skipn (j : nat) : forall x,
  split_lines (concat (skipn j (split_lines x))) = skipn j (split_lines x).
Proof.
  induction j as [|j IH]; intros x.
  - cbn [skipn]. now rewrite concat_split_lines.
  - destruct x as [|b x]; [reflexivity|].
    rewrite (split_lines_first (b :: x)).
    destruct (first_line (b :: x)) as [[l r] f]. cbn [skipn]. apply IH.
Qed.

Lemma wf_skipn (j : nat) (i : list line) : wf i -> wf (skipn j i).
Proof. intros H. unfold wf. rewrite <- H. apply split_lines_skipn. Qed.

Lemma split_lines_cons_len (b : N) (y : list N) :
  (length (split_lines y) <= length (split_lines (b :: y)))%nat.
Proof.
  cbn [split_lines]. destruct (N.eqb b NL); cbn [length]; [lia|].
  destruct (split_lines y); cbn [length]; lia.
Qed.

Lemma split_lines_suffix_len (p r : list N) :
  (length (split_lines r) <= length (split_lines (p ++ r)))%nat.
Proof.
  induction p as [|b p IH]; cbn [app]; [lia|].
  pose proof (split_lines_cons_len b (p ++ r)). lia.
Qed.

Lemma flat_read_suffix (raw : bool) (d : N) : forall x esc,
  let '(_, _, rest, _) := flat_read raw d esc x in exists p, x = p ++ rest.
Proof.
  induction x as [|b r IH]; intros esc; cbn [flat_read]; [exists []; reflexivity|].
  destruct esc.
  - specialize (IH false). destruct (flat_read raw d false r) as [[[cs f] rest] m].
    destruct IH as [p ->]. destruct (N.eqb b NL); exists (b :: p); reflexivity.
  - destruct (N.eqb b d); [exists [b]; reflexivity|]. destruct (negb raw && N.eqb b BSL).
    + specialize (IH true). destruct (flat_read raw d true r) as [[[cs f] rest] m].
      destruct IH as [p ->]. exists (b :: p); reflexivity.
    + specialize (IH false). destruct (flat_read raw d false r) as [[[cs f] rest] m].
      destruct IH as [p ->]. exists (b :: p); reflexivity.
Qed.

Lemma Forall_skipn {A} (P : A -> Prop) (j : nat) : forall l, Forall P l -> Forall P (skipn j l).
Proof.
  induction j as [|j IH]; intros l H; [exact H|]. destruct l; [constructor|].
  inversion H; subst. cbn [skipn]. now apply IH.
Qed.

Lemma pops_wf i rest n : pops i rest n -> wf i -> wf rest.
Proof. intros [j [-> _]]. apply wf_skipn. Qed.

Lemma line_read_wf (raw : bool) (d : N) (i : list line) :
  wf i ->
  let '(_, _, rest, _) := line_read raw d i in
  wf rest /\ (length rest <= length i)%nat.
Proof.
  intros Hwf. unfold line_read. destruct (N.eqb d NL).
  - pose proof (line_read_pops raw i) as Hp.
    destruct (line_read_nl raw i) as [[[cs f] r] n].
    split; [eapply pops_wf; eassumption | eapply pops_length; eassumption].
  - pose proof (flat_read_suffix raw d (concat i) false) as Hs.
    destruct (flat_read raw d false (concat i)) as [[[cs f] rest] m].
    destruct Hs as [p Hp]. split; [apply wf_split|].
    assert (E : length i = length (split_lines (concat i))) by (unfold wf in Hwf; now rewrite Hwf).
    rewrite E, Hp. apply split_lines_suffix_len.
Qed.

(* ------------------------------------------------------------------ *)
(* The input never grows.                                              *)

Section Lengths.
  Context (parser : list pstate -> list line -> pres).

  (* whatever the delimiters: well-formedness is kept, the number of lines
     does not grow *)
  Lemma exec_wf (c : cmd) : forall x, wf (x_in x) ->
    wf (x_in (fst (exec line_ops c x))) /\
    (length (x_in (fst (exec line_ops c x))) <= length (x_in x))%nat.
  Proof.
    induction c; intros x Hwf; cbn [exec]; try (cbn; split; [exact Hwf | lia]).
    - cbn [op_read line_ops]. pose proof (line_read_wf raw d (x_in x) Hwf) as Hp.
      destruct (line_read raw d (x_in x)) as [[[cs f] r] n].
      destruct (existsb (fun c => N.eqb (fst c) 0) cs); exact Hp.
    - cbn [op_slurp line_ops]. unfold line_slurp. cbn. split; [apply wf_nil | lia].
    - destruct n; cbn; (split; [exact Hwf | lia]).
    - destruct (IHc1 x Hwf) as [H1 L1]. destruct (exec line_ops c1 x) as [x1 e]. cbn [fst] in *.
      destruct e; [split; assumption|]. destruct (IHc2 x1 H1) as [H2 L2]. split; [assumption | lia].
    - destruct (IHc1 x Hwf) as [H1 L1]. destruct (exec line_ops c1 x) as [x1 e]. cbn [fst] in *.
      destruct e; [split; assumption|]. destruct (N.eqb (x_status x1) 0); [|split; assumption].
      destruct (IHc2 x1 H1) as [H2 L2]. split; [assumption | lia].
    - destruct (IHc1 x Hwf) as [H1 L1]. destruct (exec line_ops c1 x) as [x1 e]. cbn [fst] in *.
      destruct e; [split; assumption|]. destruct (N.eqb (x_status x1) 0); [split; assumption|].
      destruct (IHc2 x1 H1) as [H2 L2]. split; [assumption | lia].
    - destruct (IHc x Hwf) as [H1 L1]. destruct (exec line_ops c x) as [x1 e]. cbn [fst] in *.
      destruct e; split; assumption.
    - destruct (IHc1 x Hwf) as [H1 L1]. destruct (exec line_ops c1 x) as [x1 e]. cbn [fst] in *.
      destruct e; [split; assumption|]. destruct (N.eqb (x_status x1) 0).
      + destruct (IHc2 x1 H1) as [H2 L2]. split; [assumption | lia].
      + destruct (IHc3 x1 H1) as [H2 L2]. split; [assumption | lia].
    - destruct (IHc x Hwf) as [H1 L1]. destruct (exec line_ops c x) as [x1 e]. cbn [fst] in *.
      split; assumption.
  Qed.

  (* reads of whole lines only: the input is a suffix (in lines) of what it was *)
  Lemma exec_pops (c : cmd) : forall x, nl_cmd c = true ->
    exists n, pops (x_in x) (x_in (fst (exec line_ops c x))) n.
  Proof.
    induction c; intros x Hnl; cbn [exec]; cbn [nl_cmd] in Hnl;
      repeat match goal with H : _ && _ = true |- _ => apply andb_true_iff in H; destruct H end;
      try (exists 0; apply pops_refl).
    - cbn [op_read line_ops]. unfold line_read. rewrite Hnl.
      pose proof (line_read_pops raw (x_in x)) as Hp.
      destruct (line_read_nl raw (x_in x)) as [[[cs f] r] n]. exists n.
      destruct (existsb (fun c => N.eqb (fst c) 0) cs); exact Hp.
    - cbn [op_slurp line_ops]. pose proof (line_slurp_pops (x_in x)) as Hp.
      destruct (line_slurp (x_in x)) as [[ct r] n]. exists n. exact Hp.
    - destruct n; exists 0; apply pops_refl.
    - destruct (IHc1 x ltac:(assumption)) as [n1 P1]. destruct (exec line_ops c1 x) as [x1 e]. cbn [fst] in P1.
      destruct e; [exists n1; exact P1|]. destruct (IHc2 x1 ltac:(assumption)) as [n2 P2].
      exists (n1 + n2). eapply pops_trans; eassumption.
    - destruct (IHc1 x ltac:(assumption)) as [n1 P1]. destruct (exec line_ops c1 x) as [x1 e]. cbn [fst] in P1.
      destruct e; [exists n1; exact P1|]. destruct (N.eqb (x_status x1) 0); [|exists n1; exact P1].
      destruct (IHc2 x1 ltac:(assumption)) as [n2 P2]. exists (n1 + n2). eapply pops_trans; eassumption.
    - destruct (IHc1 x ltac:(assumption)) as [n1 P1]. destruct (exec line_ops c1 x) as [x1 e]. cbn [fst] in P1.
      destruct e; [exists n1; exact P1|]. destruct (N.eqb (x_status x1) 0); [exists n1; exact P1|].
      destruct (IHc2 x1 ltac:(assumption)) as [n2 P2]. exists (n1 + n2). eapply pops_trans; eassumption.
    - destruct (IHc x Hnl) as [n1 P1]. destruct (exec line_ops c x) as [x1 e]. cbn [fst] in P1.
      destruct e; exists n1; exact P1.
    - destruct (IHc1 x ltac:(assumption)) as [n1 P1]. destruct (exec line_ops c1 x) as [x1 e]. cbn [fst] in P1.
      destruct e; [exists n1; exact P1|]. destruct (N.eqb (x_status x1) 0).
      + destruct (IHc2 x1 ltac:(assumption)) as [n2 P2]. exists (n1 + n2). eapply pops_trans; eassumption.
      + destruct (IHc3 x1 ltac:(assumption)) as [n2 P2]. exists (n1 + n2). eapply pops_trans; eassumption.
    - destruct (IHc x Hnl) as [n1 P1]. destruct (exec line_ops c x) as [x1 e]. cbn [fst] in P1.
      exists n1. exact P1.
  Qed.

  Lemma exec_len (c : cmd) (x : xstate) : nl_cmd c = true ->
    (length (x_in (fst (exec line_ops c x))) <= length (x_in x))%nat.
  Proof. intros Hnl. destruct (exec_pops c x Hnl) as [n H]. eapply pops_length; exact H. Qed.

  Lemma pull_loop_pops (fuel : nat) : forall sts fed src i off eof,
    let '(_, (_, _, i', _, _)) := pull_loop line_ops parser fuel sts fed src i off eof in
    exists j, i' = skipn j i.
  Proof.
    induction fuel as [|f IH]; intros sts fed src i off eof; cbn [pull_loop]; [exists 0%nat; reflexivity|].
    destruct eof.
    - cbn [orb]. destruct (parser sts (fed ++ [[]])); exists 0%nat; reflexivity.
    - cbn [op_pull line_ops]. pose proof (line_pull_pops src i) as Hp.
      destruct (line_pull src i) as [[[l s'] i'] n]. destruct Hp as [j [Hj _]].
      cbn [orb]. destruct l as [|b l].
      + destruct (parser sts (fed ++ [[]])); exists j; exact Hj.
      + destruct (parser sts (fed ++ [b :: l])); try (exists j; exact Hj).
        specialize (IH sts (fed ++ [b :: l]) s' i' (off + n) false).
        destruct (pull_loop line_ops parser f sts (fed ++ [b :: l]) s' i' (off + n) false)
          as [ph [[[[g2 s2] i2] o2] e2]]. destruct IH as [k Hk]. exists (j + k)%nat.
        rewrite Hk, Hj. apply skipn_add.
  Qed.

  Lemma parse_phase_pops (pf : nat) sts pend fed src i off eof :
    let '(_, (_, _, i', _, _)) := parse_phase line_ops parser pf sts pend fed src i off eof in
    exists j, i' = skipn j i.
  Proof.
    unfold parse_phase. destruct pend; [|apply pull_loop_pops].
    destruct (parser sts fed); try (exists 0%nat; reflexivity). apply pull_loop_pops.
  Qed.

  Lemma skipn_len {A} (j : nat) (l : list A) : (length (skipn j l) <= length l)%nat.
  Proof. rewrite skipn_length. lia. Qed.
End Lengths.

(* a command returned by the parse phase is one the parser produced *)
Section FromParser.
  Context {I SRC : Type} (ops : input_ops I SRC) (parser : list pstate -> list line -> pres).

  Lemma pull_loop_from_parser (fuel : nat) : forall sts fed src i off eof c p rest,
    pull_loop ops parser fuel sts fed src i off eof = (PhDone (PComplete c p), rest) ->
    exists fed', parser sts fed' = PComplete c p.
  Proof.
    induction fuel as [|f IH]; intros sts fed src i off eof c p rest H; cbn [pull_loop] in H; [discriminate|].
    destruct (if eof then ([], src, i, 0) else op_pull ops src i) as [[[l s'] i'] n].
    destruct (parser sts (fed ++ [l])) eqn:Ep; try discriminate.
    - destruct (eof || match l with [] => true | _ :: _ => false end); [discriminate|].
      eapply IH; exact H.
    - inversion H; subst. eexists; exact Ep.
  Qed.

  Lemma parse_phase_from_parser pf sts pend fed src i off eof c p rest :
    parse_phase ops parser pf sts pend fed src i off eof = (PhDone (PComplete c p), rest) ->
    exists fed', parser sts fed' = PComplete c p.
  Proof.
    unfold parse_phase. destruct pend; [|apply pull_loop_from_parser].
    destruct (parser sts fed) eqn:Ep; try discriminate.
    - apply pull_loop_from_parser.
    - intros H; inversion H; subst. eexists; exact Ep.
  Qed.
End FromParser.

(* ------------------------------------------------------------------ *)
(* Prefix independence: what is done while the input still ends with LB
   does not depend on LB.                                              *)

Section Swap.
  Context (parser : list pstate -> list line -> pres) (LB LB' : list line).
  Hypothesis parser_reads_lines : reads_lines parser.
  Hypothesis LB_nonempty : LB <> [].

  Definition swap (X X' : list line) : Prop := exists Y, X = Y ++ LB /\ X' = Y ++ LB'.

  Definition keeps (X : list line) : Prop := (length LB <= length X)%nat.

  Lemma LB_pos : (1 <= length LB)%nat.
  Proof. destruct LB; [contradiction | cbn; lia]. Qed.

  Lemma line_read_shrinks (raw : bool) (l : line) (i : list line) :
    let '(_, _, r, _) := line_read_nl raw (l :: i) in (length r <= length i)%nat.
  Proof.
    pose proof (line_read_pops raw i) as Hp.
    cbn [line_read_nl]. destruct (scan_line raw l) as [cs e]. destruct e; try lia.
    destruct (line_read_nl raw i) as [[[cs' f] r] n]. eapply pops_length; exact Hp.
  Qed.

  Lemma read_swap (raw : bool) : forall X X', swap X X' ->
    let '(c, f, r, n) := line_read_nl raw X in
    let '(c', f', r', n') := line_read_nl raw X' in
    keeps r -> c = c' /\ f = f' /\ n = n' /\ swap r r'.
  Proof.
    intros X X' [Y [-> ->]]. induction Y as [|y Y IH]; cbn [app].
    - pose proof LB_pos as Hpos. destruct LB as [|l rest] eqn:ELB; [contradiction|].
      pose proof (line_read_shrinks raw l rest) as Hs.
      destruct (line_read_nl raw (l :: rest)) as [[[c f] r] n].
      destruct (line_read_nl raw LB') as [[[c' f'] r'] n'].
      unfold keeps. rewrite ELB. cbn [length]. lia.
    - cbn [line_read_nl]. destruct (scan_line raw y) as [cs e]. destruct e.
      + intros _. repeat split. now exists Y.
      + intros _. repeat split. now exists Y.
      + destruct (line_read_nl raw (Y ++ LB)) as [[[c f] r] n].
        destruct (line_read_nl raw (Y ++ LB')) as [[[c' f'] r'] n'].
        intros Hk. destruct (IH Hk) as [-> [-> [-> Hsw]]]. repeat split. exact Hsw.
  Qed.

  Definition SX (x x' : xstate (I:=list line)) : Prop :=
    x_sh x = x_sh x' /\ x_off x = x_off x' /\ x_evs x = x_evs x' /\ swap (x_in x) (x_in x').

  Lemma SX_status x x' : SX x x' -> x_status x = x_status x'.
  Proof. intros [H _]. unfold x_status. now rewrite H. Qed.

  Lemma SX_with_status n x x' : SX x x' -> SX (with_status n x) (with_status n x').
  Proof.
    intros [H1 [H2 [H3 H4]]]. unfold with_status. repeat split; cbn; try assumption.
    now rewrite H1.
  Qed.

  Lemma SX_emit k a o x x' : SX x x' -> SX (emit k a o x) (emit k a o x').
  Proof.
    intros H. pose proof (SX_status _ _ H) as Hs. destruct H as [H1 [H2 [H3 H4]]].
    unfold emit. repeat split; cbn; try assumption. now rewrite H3, Hs.
  Qed.

  Lemma exec_swap (c : cmd) : forall x x', nl_cmd c = true -> SX x x' ->
    keeps (x_in (fst (exec line_ops c x))) ->
    SX (fst (exec line_ops c x)) (fst (exec line_ops c x')) /\
    snd (exec line_ops c x) = snd (exec line_ops c x').
  Proof.
    induction c; intros x x' Hnl HS; cbn [exec]; cbn [nl_cmd] in Hnl;
      repeat match goal with H : _ && _ = true |- _ => apply andb_true_iff in H; destruct H as [? ?] end.
    - intros _. split; [assumption | reflexivity].
    - intros _. split; [now apply SX_with_status | reflexivity].
    - intros _. destruct HS as [H1 [H2 [H3 H4]]] eqn:E. clear E.
      split; [|reflexivity]. apply SX_with_status. rewrite H2. apply SX_emit.
      repeat split; assumption.
    - intros _. destruct HS as [H1 [H2 [H3 H4]]] eqn:E. clear E.
      split; [|reflexivity]. apply SX_with_status. rewrite H1, H2. apply SX_emit.
      repeat split; assumption.
    - destruct HS as [H1 [H2 [H3 H4]]]. cbn [op_read line_ops]. unfold line_read. rewrite Hnl.
      pose proof (read_swap raw _ _ H4) as Hr.
      destruct (line_read_nl raw (x_in x)) as [[[c1 f1] j1] n1].
      destruct (line_read_nl raw (x_in x')) as [[[c2 f2] j2] n2].
      assert (Hin : forall b : bool, x_in (fst (if b then
                 (mkX (mkSh (s_ps (x_sh x)) (s_vars (x_sh x)) 3) j1 (x_off x + n1) (x_evs x), false)
               else (mkX (mkSh (s_ps (x_sh x)) (set_var v (read_value c1) (s_vars (x_sh x)))
                               (if f1 then 0 else 1)) j1 (x_off x + n1) (x_evs x), false))) = j1)
        by (intros []; reflexivity).
      rewrite Hin. intros Hk. destruct (Hr Hk) as [-> [-> [-> Hj]]]. rewrite H1, H2, H3.
      destruct (existsb (fun c => N.eqb (fst c) 0) c2);
        (split; [|reflexivity]); repeat split; assumption.
    - cbn [op_slurp line_ops]. unfold line_slurp. cbn [x_in with_status fst].
      intros Hk. exfalso. unfold keeps in Hk. cbn in Hk. pose proof LB_pos. lia.
    - intros _. split; [|reflexivity]. apply SX_with_status. now apply SX_emit.
    - intros _. destruct HS as [H1 [H2 [H3 H4]]]. rewrite H1, H2, H3.
      split; [|reflexivity]. repeat split; assumption.
    - intros _. destruct HS as [H1 [H2 [H3 H4]]]. rewrite H1, H2, H3.
      split; [|reflexivity]. repeat split; assumption.
    - intros _. destruct HS as [H1 [H2 [H3 H4]]]. rewrite H1, H2, H3.
      split; [|reflexivity]. repeat split; assumption.
    - destruct n; intros _; (split; [|reflexivity]); [now apply SX_with_status | assumption].
    - (* CSeq *)
      specialize (IHc1 _ _ ltac:(assumption) HS).
      pose proof (exec_len c2 (fst (exec line_ops c1 x)) ltac:(assumption)) as Hl.
      destruct (exec line_ops c1 x) as [y1 e1]. destruct (exec line_ops c1 x') as [y2 e2].
      cbn [fst snd] in *. destruct e1.
      + cbn [fst snd]. intros Hk. destruct (IHc1 Hk) as [Hy <-]. split; [assumption|reflexivity].
      + intros Hk. assert (Hk1 : keeps (x_in y1)) by (unfold keeps in *; lia).
        destruct (IHc1 Hk1) as [Hy <-]. now apply IHc2.
    - (* CAnd *)
      specialize (IHc1 _ _ ltac:(assumption) HS).
      pose proof (exec_len c2 (fst (exec line_ops c1 x)) ltac:(assumption)) as Hl.
      destruct (exec line_ops c1 x) as [y1 e1]. destruct (exec line_ops c1 x') as [y2 e2].
      cbn [fst snd] in *. destruct e1.
      + cbn [fst snd]. intros Hk. destruct (IHc1 Hk) as [Hy <-]. split; [assumption|reflexivity].
      + destruct (N.eqb (x_status y1) 0) eqn:Est.
        * intros Hk. assert (Hk1 : keeps (x_in y1)) by (unfold keeps in *; lia).
          destruct (IHc1 Hk1) as [Hy <-]. rewrite <- (SX_status _ _ Hy), Est. now apply IHc2.
        * cbn [fst snd]. intros Hk. destruct (IHc1 Hk) as [Hy <-].
          rewrite <- (SX_status _ _ Hy), Est. split; [assumption|reflexivity].
    - (* COr *)
      specialize (IHc1 _ _ ltac:(assumption) HS).
      pose proof (exec_len c2 (fst (exec line_ops c1 x)) ltac:(assumption)) as Hl.
      destruct (exec line_ops c1 x) as [y1 e1]. destruct (exec line_ops c1 x') as [y2 e2].
      cbn [fst snd] in *. destruct e1.
      + cbn [fst snd]. intros Hk. destruct (IHc1 Hk) as [Hy <-]. split; [assumption|reflexivity].
      + destruct (N.eqb (x_status y1) 0) eqn:Est.
        * cbn [fst snd]. intros Hk. destruct (IHc1 Hk) as [Hy <-].
          rewrite <- (SX_status _ _ Hy), Est. split; [assumption|reflexivity].
        * intros Hk. assert (Hk1 : keeps (x_in y1)) by (unfold keeps in *; lia).
          destruct (IHc1 Hk1) as [Hy <-]. rewrite <- (SX_status _ _ Hy), Est. now apply IHc2.
    - (* CNot *)
      specialize (IHc _ _ Hnl HS).
      destruct (exec line_ops c x) as [y1 e1]. destruct (exec line_ops c x') as [y2 e2].
      cbn [fst snd] in *. destruct e1.
      + cbn [fst snd]. intros Hk. destruct (IHc Hk) as [Hy <-]. split; [assumption|reflexivity].
      + cbn [x_in with_status fst snd]. intros Hk. destruct (IHc Hk) as [Hy <-].
        rewrite (SX_status _ _ Hy). split; [now apply SX_with_status | reflexivity].
    - (* CIf *)
      specialize (IHc1 _ _ ltac:(assumption) HS).
      pose proof (exec_len c2 (fst (exec line_ops c1 x)) ltac:(assumption)) as Hl2.
      pose proof (exec_len c3 (fst (exec line_ops c1 x)) ltac:(assumption)) as Hl3.
      destruct (exec line_ops c1 x) as [y1 e1]. destruct (exec line_ops c1 x') as [y2 e2].
      cbn [fst snd] in *. destruct e1.
      + cbn [fst snd]. intros Hk. destruct (IHc1 Hk) as [Hy <-]. split; [assumption|reflexivity].
      + destruct (N.eqb (x_status y1) 0) eqn:Est.
        * intros Hk. assert (Hk1 : keeps (x_in y1)) by (unfold keeps in *; lia).
          destruct (IHc1 Hk1) as [Hy <-]. rewrite <- (SX_status _ _ Hy), Est. now apply IHc2.
        * intros Hk. assert (Hk1 : keeps (x_in y1)) by (unfold keeps in *; lia).
          destruct (IHc1 Hk1) as [Hy <-]. rewrite <- (SX_status _ _ Hy), Est. now apply IHc3.
    - (* CSub *)
      specialize (IHc _ _ Hnl HS).
      destruct (exec line_ops c x) as [y1 e1]. destruct (exec line_ops c x') as [y2 e2].
      cbn [x_in fst snd] in *. intros Hk. destruct (IHc Hk) as [Hy _].
      pose proof (SX_status _ _ Hy) as Hs.
      destruct HS as [H1 _]. destruct Hy as [_ [G2 [G3 G4]]].
      rewrite H1, Hs. split; [|reflexivity]. repeat split; cbn; assumption.
    - (* CNest: not entered at level 0 *)
      change (op_nest line_ops s x) with (nest_stub s x).
      change (op_nest line_ops s x') with (nest_stub s x'). unfold nest_stub. cbn [fst snd].
      intros _. split; [now apply SX_with_status | reflexivity].
  Qed.

  Lemma pull_loop_len (fuel : nat) sts fed src i off eof :
    let '(_, (_, _, i', _, _)) := pull_loop line_ops parser fuel sts fed src i off eof in
    (length i' <= length i)%nat.
  Proof.
    pose proof (pull_loop_pops parser fuel sts fed src i off eof) as H.
    destruct (pull_loop line_ops parser fuel sts fed src i off eof) as [ph [[[[g s] r] o] e]].
    destruct H as [j ->]. apply skipn_len.
  Qed.

  Lemma pull_loop_shrinks (f : nat) sts fed l rest off :
    let '(_, (_, _, i', _, _)) := pull_loop line_ops parser (S f) sts fed LShared (l :: rest) off false in
    (length i' <= length rest)%nat.
  Proof.
    cbn [pull_loop op_pull line_ops line_pull orb]. destruct l as [|b l].
    - destruct (parser sts (fed ++ [[]])); lia.
    - pose proof (pull_loop_len f sts (fed ++ [b :: l]) LShared rest (off + nlen (b :: l)) false) as Hlen.
      destruct (parser sts (fed ++ [b :: l])); try lia.
      destruct (pull_loop line_ops parser f sts (fed ++ [b :: l]) LShared rest (off + nlen (b :: l)) false)
        as [ph [[[[g s] r] o] e]]. exact Hlen.
  Qed.

  Lemma pull_loop_swap (fuel : nat) : forall sts fed X X' off eof, swap X X' ->
    let '(ph, (g, s, r, o, e)) := pull_loop line_ops parser fuel sts fed LShared X off eof in
    let '(ph', (g', s', r', o', e')) := pull_loop line_ops parser fuel sts fed LShared X' off eof in
    keeps r -> ph = ph' /\ g = g' /\ s = s' /\ o = o' /\ e = e' /\ swap r r'.
  Proof.
    induction fuel as [|f IH]; intros sts fed X X' off eof HS.
    - cbn [pull_loop]. intros _. repeat split. exact HS.
    - destruct eof.
      + cbn [pull_loop orb]. destruct (parser sts (fed ++ [[]])); intros _; repeat split; exact HS.
      + destruct HS as [Y [-> ->]]. destruct Y as [|y Y]; cbn [app].
        * (* the next line comes out of LB: the input becomes shorter than LB *)
          pose proof LB_pos as Hpos. destruct LB as [|l rest] eqn:ELB; [contradiction|].
          pose proof (pull_loop_shrinks f sts fed l rest off) as Hsh.
          destruct (pull_loop line_ops parser (S f) sts fed LShared (l :: rest) off false)
            as [ph [[[[g s] r] o] e]].
          destruct (pull_loop line_ops parser (S f) sts fed LShared LB' off false)
            as [ph' [[[[g' s'] r'] o'] e']].
          intros Hk. exfalso. unfold keeps in Hk. rewrite ELB in Hk. cbn [length] in Hk. lia.
        * cbn [pull_loop op_pull line_ops line_pull orb]. destruct y as [|b l].
          -- destruct (parser sts (fed ++ [[]])); intros _; repeat split; now exists Y.
          -- destruct (parser sts (fed ++ [b :: l])); try (intros _; repeat split; now exists Y).
             apply IH. now exists Y.
  Qed.

  Lemma parse_phase_swap (pf : nat) sts pend fed X X' off eof : swap X X' ->
    let '(ph, (g, s, r, o, e)) := parse_phase line_ops parser pf sts pend fed LShared X off eof in
    let '(ph', (g', s', r', o', e')) := parse_phase line_ops parser pf sts pend fed LShared X' off eof in
    keeps r -> ph = ph' /\ g = g' /\ s = s' /\ o = o' /\ e = e' /\ swap r r'.
  Proof.
    intros HS. unfold parse_phase. destruct pend; [|now apply pull_loop_swap].
    destruct (parser sts fed); try (intros _; repeat split; exact HS).
    now apply pull_loop_swap.
  Qed.

  Lemma pull_loop_shared (fuel : nat) : forall sts fed i off eof,
    let '(_, (_, s, _, _, _)) := pull_loop line_ops parser fuel sts fed LShared i off eof in
    s = LShared.
  Proof.
    induction fuel as [|f IH]; intros sts fed i off eof; cbn [pull_loop]; [reflexivity|].
    destruct eof.
    - cbn [orb]. destruct (parser sts (fed ++ [[]])); reflexivity.
    - cbn [op_pull line_ops line_pull orb]. destruct i as [|l i].
      + destruct (parser sts (fed ++ [[]])); reflexivity.
      + destruct l as [|b l].
        * destruct (parser sts (fed ++ [[]])); reflexivity.
        * destruct (parser sts (fed ++ [b :: l])); try reflexivity. apply IH.
  Qed.

  Lemma parse_phase_shared pf sts pend fed i off eof :
    let '(_, (_, s, _, _, _)) := parse_phase line_ops parser pf sts pend fed LShared i off eof in
    s = LShared.
  Proof.
    unfold parse_phase. destruct pend; [|apply pull_loop_shared].
    destruct (parser sts fed); try reflexivity. apply pull_loop_shared.
  Qed.

  Definition SM (m m' : mstate (I:=list line) (SRC:=lsource)) : Prop :=
    SX (m_x m) (m_x m') /\ m_src m = LShared /\ m_src m' = LShared /\ m_eof m = m_eof m' /\
    m_pend m = m_pend m' /\ m_fed m = m_fed m' /\ m_hist m = m_hist m'.

  Lemma iter_len (pf : nat) (m m' : mstate) :
    iter line_ops parser pf m = inl m' ->
    (length (x_in (m_x m')) <= length (x_in (m_x m)))%nat.
  Proof.
    unfold iter.
    set (sts := (if m_pend m then m_hist m else []) ++ [s_ps (x_sh (m_x m))]).
    pose proof (parse_phase_pops parser pf sts (m_pend m) (m_fed m) (m_src m) (x_in (m_x m))
                  (x_off (m_x m)) (m_eof m)) as Hp.
    destruct (parse_phase line_ops parser pf sts (m_pend m) (m_fed m) (m_src m) (x_in (m_x m))
                (x_off (m_x m)) (m_eof m)) as [ph [[[[g' s'] i'] off'] eof']] eqn:Eph.
    destruct ph as [r| |]; try discriminate. destruct r; try discriminate.
    destruct (parse_phase_from_parser _ _ _ _ _ _ _ _ _ _ _ _ _ Eph) as [fd Hfd].
    pose proof (exec_len c (mkX (x_sh (m_x m)) i' off' (x_evs (m_x m)))
                  (parser_reads_lines _ _ _ _ Hfd)) as Hc.
    destruct (exec line_ops c _) as [x2 ex]. cbn [fst x_in] in Hc.
    destruct ex; [discriminate|]. intros H. inversion H; subst. cbn.
    destruct Hp as [j ->]. pose proof (skipn_len j (x_in (m_x m))). lia.
  Qed.

  Lemma iter_n_len (n pf : nat) : forall m m',
    iter_n line_ops parser n pf m = inl m' ->
    (length (x_in (m_x m')) <= length (x_in (m_x m)))%nat.
  Proof.
    induction n as [|k IH]; intros m m' H; cbn [iter_n] in H.
    - inversion H; subst. lia.
    - destruct (iter line_ops parser pf m) as [m1|r] eqn:E; [|discriminate].
      apply iter_len in E. apply IH in H. lia.
  Qed.

  Lemma iter_swap (pf : nat) (m m' n : mstate) :
    SM m m' -> iter line_ops parser pf m = inl n -> keeps (x_in (m_x n)) ->
    exists n', iter line_ops parser pf m' = inl n' /\ SM n n'.
  Proof.
    intros [HX [Hs [Hs' [He [Hpe [Hfe Hhi]]]]]]. unfold iter. pose proof HX as [H1 [H2 [H3 H4]]].
    rewrite Hs, Hs', H1, H2, H3, He, Hpe, Hfe, Hhi.
    set (sts := (if m_pend m' then m_hist m' else []) ++ [s_ps (x_sh (m_x m'))]).
    pose proof (parse_phase_swap pf sts (m_pend m') (m_fed m') _ _ (x_off (m_x m')) (m_eof m') H4) as Hp.
    pose proof (parse_phase_shared pf sts (m_pend m') (m_fed m') (x_in (m_x m)) (x_off (m_x m')) (m_eof m')) as Hsh.
    pose proof (parse_phase_pops parser pf sts (m_pend m') (m_fed m') LShared (x_in (m_x m))
                  (x_off (m_x m')) (m_eof m')) as Hpp.
    destruct (parse_phase line_ops parser pf sts (m_pend m') (m_fed m') LShared (x_in (m_x m))
                (x_off (m_x m')) (m_eof m')) as [ph [[[[g s] r] o] e]] eqn:Eph.
    destruct (parse_phase line_ops parser pf sts (m_pend m') (m_fed m') LShared (x_in (m_x m'))
                (x_off (m_x m')) (m_eof m')) as [ph' [[[[g' s'] r'] o'] e']].
    destruct ph as [pr| |]; try discriminate. destruct pr; try discriminate.
    destruct (parse_phase_from_parser _ _ _ _ _ _ _ _ _ _ _ _ _ Eph) as [fd Hfd].
    pose proof (parser_reads_lines _ _ _ _ Hfd) as Hnl.
    pose proof (exec_len c (mkX (x_sh (m_x m')) r o (x_evs (m_x m'))) Hnl) as Hl.
    destruct (exec line_ops c (mkX (x_sh (m_x m')) r o (x_evs (m_x m')))) as [y ex] eqn:Ex.
    cbn [fst x_in] in Hl. destruct ex; [discriminate|].
    intros Hn Hk. inversion Hn; subst n. cbn [m_x] in Hk.
    assert (Hkr : keeps r) by (unfold keeps in *; lia).
    destruct (Hp Hkr) as [<- [<- [<- [<- [<- Hsw]]]]].
    assert (HX' : SX (mkX (x_sh (m_x m')) r o (x_evs (m_x m')))
                     (mkX (x_sh (m_x m')) r' o (x_evs (m_x m')))) by (repeat split; assumption).
    pose proof (exec_swap c _ _ Hnl HX') as Hc. rewrite Ex in Hc. cbn [fst snd] in Hc.
    destruct (Hc Hk) as [Hy Hex].
    destruct (exec line_ops c (mkX (x_sh (m_x m')) r' o (x_evs (m_x m')))) as [y' ex'].
    cbn [fst snd] in *. subst ex' s. eexists. split; [reflexivity|].
    repeat split; try apply Hy; reflexivity.
  Qed.

  Lemma iter_n_swap (k pf : nat) : forall m m' n,
    SM m m' -> iter_n line_ops parser k pf m = inl n -> keeps (x_in (m_x n)) ->
    exists n', iter_n line_ops parser k pf m' = inl n' /\ SM n n'.
  Proof.
    induction k as [|k IH]; intros m m' n HS H Hk; cbn [iter_n] in *.
    - inversion H; subst. exists m'. split; [reflexivity | exact HS].
    - destruct (iter line_ops parser pf m) as [m1|r] eqn:E; [|discriminate].
      pose proof (iter_n_len k pf m1 n H) as Hl.
      assert (Hk1 : keeps (x_in (m_x m1))) by (unfold keeps in *; lia).
      destruct (iter_swap pf m m' m1 HS E Hk1) as [m1' [E' HS1]]. rewrite E'.
      eapply IH; eassumption.
  Qed.
End Swap.

(* after [k] iterations on LA ++ LB the input is exactly LB: then the same
   [k] iterations on LA ++ LB' do the same and leave LB' *)
Theorem prefix_independence_lines parser (LA LB LB' : list line) (k pf : nat) (n : mstate) :
  reads_lines parser ->
  LB <> [] ->
  iter_n line_ops parser k pf (init LShared (LA ++ LB)) = inl n ->
  x_in (m_x n) = LB ->
  exists n', iter_n line_ops parser k pf (init LShared (LA ++ LB')) = inl n' /\
    x_in (m_x n') = LB' /\ x_sh (m_x n') = x_sh (m_x n) /\ x_off (m_x n') = x_off (m_x n) /\
    x_evs (m_x n') = x_evs (m_x n) /\ m_eof n' = m_eof n /\ m_src n' = LShared /\
    m_pend n' = m_pend n /\ m_fed n' = m_fed n /\ m_hist n' = m_hist n.
Proof.
  intros Hrl Hne H Hin.
  assert (HS : SM LB LB' (init LShared (LA ++ LB)) (init LShared (LA ++ LB'))).
  { unfold init. repeat split. now exists LA. }
  assert (Hk : keeps LB (x_in (m_x n))) by (unfold keeps; rewrite Hin; lia).
  destruct (iter_n_swap parser LB LB' Hrl Hne k pf _ _ n HS H Hk)
    as [n' [H' [[H1 [H2 [H3 H4]]] [H5 [H6 [H7 [H8 [H9 H10]]]]]]]].
  exists n'. split; [exact H'|]. destruct H4 as [Y [HY HY']]. rewrite Hin in HY.
  assert (Y = []).
  { apply (f_equal (@length line)) in HY. rewrite app_length in HY. destruct Y; [reflexivity|]. cbn in HY. lia. }
  subst Y. cbn [app] in HY'. repeat split; congruence.
Qed.

(* ------------------------------------------------------------------ *)
(* The same when the script has a source of its own (-c string, script
   file): only the parse phase touches the script lines.               *)

Section SwapSep.
  Context (parser : list pstate -> list line -> pres) (LB LB' : list line).
  Hypothesis LB_nonempty : LB <> [].

  Definition src_lines (s : lsource) : list line :=
    match s with LShared => [] | LLines l => l end.

  Definition keeps_s (s : lsource) : Prop := (length LB <= length (src_lines s))%nat.

  Definition swap_s (s s' : lsource) : Prop :=
    exists Y, s = LLines (Y ++ LB) /\ s' = LLines (Y ++ LB').

  Lemma pull_loop_sep_len (fuel : nat) : forall st fed X i off eof,
    let '(_, (_, s, _, _, _)) := pull_loop line_ops parser fuel st fed (LLines X) i off eof in
    exists X', s = LLines X' /\ (length X' <= length X)%nat.
  Proof.
    induction fuel as [|f IH]; intros st fed X i off eof; cbn [pull_loop].
    - exists X. split; [reflexivity | lia].
    - destruct eof.
      + cbn [orb]. destruct (parser st (fed ++ [[]])); exists X; (split; [reflexivity | lia]).
      + cbn [op_pull line_ops line_pull orb]. destruct X as [|l X].
        * destruct (parser st (fed ++ [[]])); exists []; (split; [reflexivity | lia]).
        * destruct l as [|b l].
          -- destruct (parser st (fed ++ [[]])); exists X; (split; [reflexivity | cbn; lia]).
          -- destruct (parser st (fed ++ [b :: l])); try (exists X; split; [reflexivity | cbn; lia]).
             specialize (IH st (fed ++ [b :: l]) X i (off + 0) false).
             destruct (pull_loop line_ops parser f st (fed ++ [b :: l]) (LLines X) i (off + 0) false)
               as [ph [[[[g s] r] o] e]].
             destruct IH as [X' [-> Hl]]. exists X'. split; [reflexivity | cbn; lia].
  Qed.

  Lemma pull_loop_sep_shrinks (f : nat) st fed l X i off :
    let '(_, (_, s, _, _, _)) := pull_loop line_ops parser (S f) st fed (LLines (l :: X)) i off false in
    (length (src_lines s) <= length X)%nat.
  Proof.
    cbn [pull_loop op_pull line_ops line_pull orb]. destruct l as [|b l].
    - destruct (parser st (fed ++ [[]])); cbn; lia.
    - pose proof (pull_loop_sep_len f st (fed ++ [b :: l]) X i (off + 0) false) as Hlen.
      destruct (parser st (fed ++ [b :: l])); try (cbn; lia).
      destruct (pull_loop line_ops parser f st (fed ++ [b :: l]) (LLines X) i (off + 0) false)
        as [ph [[[[g s] r] o] e]]. destruct Hlen as [X' [-> Hl]]. exact Hl.
  Qed.

  Lemma pull_loop_swap_sep (fuel : nat) : forall st fed s s' i off eof, swap_s s s' ->
    let '(ph, (g, t, r, o, e)) := pull_loop line_ops parser fuel st fed s i off eof in
    let '(ph', (g', t', r', o', e')) := pull_loop line_ops parser fuel st fed s' i off eof in
    keeps_s t -> ph = ph' /\ g = g' /\ r = r' /\ o = o' /\ e = e' /\ swap_s t t'.
  Proof.
    induction fuel as [|f IH]; intros st fed s s' i off eof HS.
    - cbn [pull_loop]. intros _. repeat split. exact HS.
    - destruct eof.
      + cbn [pull_loop orb]. destruct (parser st (fed ++ [[]])); intros _; repeat split; exact HS.
      + destruct HS as [Y [-> ->]]. destruct Y as [|y Y]; cbn [app].
        * pose proof LB_pos LB LB_nonempty as Hpos. destruct LB as [|l rest] eqn:ELB; [contradiction|].
          pose proof (pull_loop_sep_shrinks f st fed l rest i off) as Hsh.
          destruct (pull_loop line_ops parser (S f) st fed (LLines (l :: rest)) i off false)
            as [ph [[[[g t] r] o] e]].
          destruct (pull_loop line_ops parser (S f) st fed (LLines LB') i off false)
            as [ph' [[[[g' t'] r'] o'] e']].
          intros Hk. exfalso. unfold keeps_s in Hk. rewrite ELB in Hk. cbn [length] in Hk. lia.
        * cbn [pull_loop op_pull line_ops line_pull orb]. destruct y as [|b l].
          -- destruct (parser st (fed ++ [[]])); intros _; repeat split; now exists Y.
          -- destruct (parser st (fed ++ [b :: l])); try (intros _; repeat split; now exists Y).
             apply IH. now exists Y.
  Qed.

  Lemma parse_phase_sep_len pf st pend fed X i off eof :
    let '(_, (_, s, _, _, _)) := parse_phase line_ops parser pf st pend fed (LLines X) i off eof in
    exists X', s = LLines X' /\ (length X' <= length X)%nat.
  Proof.
    unfold parse_phase. destruct pend; [|apply pull_loop_sep_len].
    destruct (parser st fed); try (exists X; split; [reflexivity | lia]). apply pull_loop_sep_len.
  Qed.

  Lemma parse_phase_swap_sep pf st pend fed s s' i off eof : swap_s s s' ->
    let '(ph, (g, t, r, o, e)) := parse_phase line_ops parser pf st pend fed s i off eof in
    let '(ph', (g', t', r', o', e')) := parse_phase line_ops parser pf st pend fed s' i off eof in
    keeps_s t -> ph = ph' /\ g = g' /\ r = r' /\ o = o' /\ e = e' /\ swap_s t t'.
  Proof.
    intros HS. unfold parse_phase. destruct pend; [|now apply pull_loop_swap_sep].
    destruct (parser st fed); try (intros _; repeat split; exact HS). now apply pull_loop_swap_sep.
  Qed.

  Definition SMs (m m' : mstate (I:=list line) (SRC:=lsource)) : Prop :=
    m_x m = m_x m' /\ m_eof m = m_eof m' /\ m_pend m = m_pend m' /\ m_fed m = m_fed m' /\
    m_hist m = m_hist m' /\ swap_s (m_src m) (m_src m').

  Lemma iter_sep_len (pf : nat) (m n : mstate) X :
    m_src m = LLines X -> iter line_ops parser pf m = inl n ->
    exists X', m_src n = LLines X' /\ (length X' <= length X)%nat.
  Proof.
    intros Hs. unfold iter. rewrite Hs.
    set (sts := (if m_pend m then m_hist m else []) ++ [s_ps (x_sh (m_x m))]).
    pose proof (parse_phase_sep_len pf sts (m_pend m) (m_fed m) X (x_in (m_x m)) (x_off (m_x m)) (m_eof m)) as Hp.
    destruct (parse_phase line_ops parser pf sts (m_pend m) (m_fed m) (LLines X) (x_in (m_x m))
                (x_off (m_x m)) (m_eof m)) as [ph [[[[g' s'] i'] off'] eof']].
    destruct ph as [r| |]; try discriminate. destruct r; try discriminate.
    destruct (exec line_ops c _) as [x2 ex]. destruct ex; [discriminate|].
    intros H. inversion H; subst. exact Hp.
  Qed.

  Lemma iter_n_sep_len (k pf : nat) : forall (m n : mstate) X,
    m_src m = LLines X -> iter_n line_ops parser k pf m = inl n ->
    exists X', m_src n = LLines X' /\ (length X' <= length X)%nat.
  Proof.
    induction k as [|k IH]; intros m n X Hs H; cbn [iter_n] in H.
    - inversion H; subst. exists X. split; [assumption | lia].
    - destruct (iter line_ops parser pf m) as [m1|r] eqn:E; [|discriminate].
      destruct (iter_sep_len pf m m1 X Hs E) as [X1 [Hs1 Hl1]].
      destruct (IH m1 n X1 Hs1 H) as [X' [Hs' Hl']]. exists X'. split; [assumption | lia].
  Qed.

  Lemma iter_swap_sep (pf : nat) (m m' n : mstate) :
    SMs m m' -> iter line_ops parser pf m = inl n -> keeps_s (m_src n) ->
    exists n', iter line_ops parser pf m' = inl n' /\ SMs n n'.
  Proof.
    intros [HX [He [Hpe [Hfe [Hhi HS]]]]]. unfold iter. rewrite <- HX, <- He, <- Hpe, <- Hfe, <- Hhi.
    set (sts := (if m_pend m then m_hist m else []) ++ [s_ps (x_sh (m_x m))]).
    pose proof (parse_phase_swap_sep pf sts (m_pend m) (m_fed m) _ _ (x_in (m_x m)) (x_off (m_x m)) (m_eof m) HS) as Hp.
    destruct (parse_phase line_ops parser pf sts (m_pend m) (m_fed m) (m_src m) (x_in (m_x m))
                (x_off (m_x m)) (m_eof m)) as [ph [[[[g t] r] o] e]].
    destruct (parse_phase line_ops parser pf sts (m_pend m) (m_fed m) (m_src m') (x_in (m_x m))
                (x_off (m_x m)) (m_eof m)) as [ph' [[[[g' t'] r'] o'] e']].
    destruct ph as [pr| |]; try discriminate. destruct pr; try discriminate.
    destruct (exec line_ops c (mkX (x_sh (m_x m)) r o (x_evs (m_x m)))) as [y ex] eqn:Ex.
    destruct ex; [discriminate|]. intros Hn Hk. inversion Hn; subst n. cbn [m_src] in Hk.
    destruct (Hp Hk) as [<- [<- [<- [<- [<- Hsw]]]]]. rewrite Ex.
    eexists. split; [reflexivity|]. repeat split. exact Hsw.
  Qed.

  Lemma iter_n_swap_sep (k pf : nat) : forall m m' n,
    SMs m m' -> iter_n line_ops parser k pf m = inl n -> keeps_s (m_src n) ->
    exists n', iter_n line_ops parser k pf m' = inl n' /\ SMs n n'.
  Proof.
    induction k as [|k IH]; intros m m' n HS H Hk; cbn [iter_n] in *.
    - inversion H; subst. exists m'. split; [reflexivity | exact HS].
    - destruct (iter line_ops parser pf m) as [m1|r] eqn:E; [|discriminate].
      assert (Hk1 : keeps_s (m_src m1)).
      { destruct HS as [_ [_ [_ [_ [_ [Y [Hs _]]]]]]].
        destruct (iter_sep_len pf m m1 _ Hs E) as [X1 [Hs1 _]].
        destruct (iter_n_sep_len k pf m1 n X1 Hs1 H) as [X' [Hs' Hl']].
        unfold keeps_s in *. rewrite Hs' in Hk. rewrite Hs1. cbn [src_lines] in *. lia. }
      destruct (iter_swap_sep pf m m' m1 HS E Hk1) as [m1' [E' HS1]]. rewrite E'.
      eapply IH; eassumption.
  Qed.
End SwapSep.

Theorem prefix_independence_lines_sep parser (LA LB LB' i : list line) (k pf : nat) (n : mstate) :
  LB <> [] ->
  iter_n line_ops parser k pf (init (LLines (LA ++ LB)) i) = inl n ->
  m_src n = LLines LB ->
  exists n', iter_n line_ops parser k pf (init (LLines (LA ++ LB')) i) = inl n' /\
    m_src n' = LLines LB' /\ m_x n' = m_x n /\ m_eof n' = m_eof n /\
    m_pend n' = m_pend n /\ m_fed n' = m_fed n /\ m_hist n' = m_hist n.
Proof.
  intros Hne H Hsrc.
  assert (HS : SMs LB LB' (init (LLines (LA ++ LB)) i) (init (LLines (LA ++ LB')) i)).
  { unfold init. repeat split. now exists LA. }
  assert (Hk : keeps_s LB (m_src n)) by (unfold keeps_s; rewrite Hsrc; cbn; lia).
  destruct (iter_n_swap_sep parser LB LB' Hne k pf _ _ n HS H Hk) as [n' [H' [H1 [H2 [H3 [H4 [H5 [Y [HY HY']]]]]]]]].
  exists n'. split; [exact H'|]. rewrite Hsrc in HY. inversion HY as [HY1].
  assert (Y = []).
  { apply (f_equal (@length line)) in HY1. rewrite app_length in HY1. destruct Y; [reflexivity|]. cbn in HY1. lia. }
  subst Y. cbn [app] in HY'. repeat split; congruence.
Qed.


(* ------------------------------------------------------------------ *)
(* The fuel computed from the size of the input never runs out.        *)

Section Fuel.
  Context (parser : list pstate -> list line -> pres) (K : nat).
  Hypothesis parser_ends : ends_at_eof parser.
  Hypothesis parser_depth : pend_depth parser K.
  Hypothesis K_pos : (1 <= K)%nat.

  (* lines the script source can still deliver *)
  Definition src_size (s : lsource) (i : list line) : nat :=
    match s with LShared => length i | LLines ls => length ls end.

  Definition measure (s : lsource) (i : list line) (eof : bool) : nat :=
    (src_size s i + if eof then 0 else 1)%nat.

  Lemma pull_measure (s : lsource) (i : list line) :
    let '(l, s', i', _) := line_pull s i in
    (measure s' i' (match l with [] => true | _ => false end) < measure s i false)%nat.
  Proof.
    unfold measure. destruct s as [|ls]; cbn [line_pull].
    - destruct i as [|l i]; cbn [src_size length]; [lia|]. destruct l; lia.
    - destruct ls as [|l ls]; cbn [src_size length]; [lia|]. destruct l; lia.
  Qed.

  Lemma pull_loop_measure (fuel : nat) : forall st fed s i off eof,
    let '(_, (_, s', i', _, eof')) := pull_loop line_ops parser fuel st fed s i off eof in
    (measure s' i' eof' <= measure s i eof)%nat.
  Proof.
    induction fuel as [|f IH]; intros st fed s i off eof; cbn [pull_loop]; [lia|].
    destruct eof.
    - cbn [orb]. destruct (parser st (fed ++ [[]])); lia.
    - cbn [op_pull line_ops orb]. pose proof (pull_measure s i) as Hm.
      destruct (line_pull s i) as [[[l s'] i'] n]. destruct l as [|b l].
      + destruct (parser st (fed ++ [[]])); lia.
      + destruct (parser st (fed ++ [b :: l])); try lia.
        specialize (IH st (fed ++ [b :: l]) s' i' (off + n) false).
        destruct (pull_loop line_ops parser f st (fed ++ [b :: l]) s' i' (off + n) false)
          as [ph [[[[g2 s2] i2] o2] e2]]. lia.
  Qed.

  Lemma pull_loop_measure_strict (f : nat) st fed s i off :
    let '(_, (_, s', i', _, eof')) := pull_loop line_ops parser (S f) st fed s i off false in
    (measure s' i' eof' < measure s i false)%nat.
  Proof.
    cbn [pull_loop op_pull line_ops orb]. pose proof (pull_measure s i) as Hm.
    destruct (line_pull s i) as [[[l s'] i'] n]. destruct l as [|b l].
    - destruct (parser st (fed ++ [[]])); lia.
    - destruct (parser st (fed ++ [b :: l])); try lia.
      pose proof (pull_loop_measure f st (fed ++ [b :: l]) s' i' (off + n) false) as Hle.
      destruct (pull_loop line_ops parser f st (fed ++ [b :: l]) s' i' (off + n) false)
        as [ph [[[[g2 s2] i2] o2] e2]]. lia.
  Qed.

  Lemma pull_loop_fuel (fuel : nat) : forall st fed s i off eof,
    (measure s i eof < fuel + (if eof then 0 else 1))%nat -> (1 <= fuel)%nat ->
    fst (pull_loop line_ops parser fuel st fed s i off eof) <> PhOutOfFuel.
  Proof.
    induction fuel as [|f IH]; intros st fed s i off eof Hm Hf; [lia|]. cbn [pull_loop].
    destruct eof.
    - cbn [orb]. destruct (parser st (fed ++ [[]])); discriminate.
    - cbn [op_pull line_ops orb]. pose proof (pull_measure s i) as Hp.
      destruct (line_pull s i) as [[[l s'] i'] n]. destruct l as [|b l].
      + destruct (parser st (fed ++ [[]])); discriminate.
      + destruct (parser st (fed ++ [b :: l])); try discriminate.
        apply IH; unfold measure in *; lia.
  Qed.

  Lemma measure_in_le (s : lsource) (i i' : list line) (eof : bool) :
    (length i' <= length i)%nat -> (measure s i' eof <= measure s i eof)%nat.
  Proof. intros H. unfold measure. destruct s; cbn [src_size]; lia. Qed.

  Definition m_measure (m : mstate (I:=list line) (SRC:=lsource)) : nat :=
    measure (m_src m) (x_in (m_x m)) (m_eof m).

  (* while text is pending, the number of commands parsed out of it grows and
     is bounded *)
  Definition potential (m : mstate (I:=list line) (SRC:=lsource)) : nat :=
    (m_measure m * K + if m_pend m then K - length (m_hist m) else 0)%nat.

  Definition m_inv (m : mstate (I:=list line) (SRC:=lsource)) : Prop :=
    wf (x_in (m_x m)) /\ (m_pend m = true -> (1 <= length (m_hist m) < K)%nat).

  Lemma iter_progress (pf : nat) (m : mstate) :
    m_inv m -> (m_measure m < pf)%nat ->
    match iter line_ops parser pf m with
    | inl m' => (potential m' < potential m)%nat /\ (m_measure m' <= m_measure m)%nat /\ m_inv m'
    | inr r => f_tag r <> FOutOfFuel
    end.
  Proof.
    intros [Hwf Hinv] Hpf. unfold iter.
    set (sts := (if m_pend m then m_hist m else []) ++ [s_ps (x_sh (m_x m))]).
    destruct pf as [|pf]; [lia|].
    pose proof (parse_phase_pops parser (S pf) sts (m_pend m) (m_fed m) (m_src m) (x_in (m_x m))
                  (x_off (m_x m)) (m_eof m)) as Hpops.
    destruct (parse_phase line_ops parser (S pf) sts (m_pend m) (m_fed m) (m_src m) (x_in (m_x m))
                (x_off (m_x m)) (m_eof m)) as [ph [[[[g' s'] i'] off'] eof']] eqn:Eph.
    (* what the parse phase does to the measure, and that it does not run out of fuel *)
    assert (Hph : (measure s' i' eof' <= m_measure m)%nat /\
                  (m_pend m = false -> m_eof m = false -> (measure s' i' eof' < m_measure m)%nat) /\
                  ph <> PhOutOfFuel /\
                  (m_pend m = false -> m_eof m = true -> forall c p, ph <> PhDone (PComplete c p))).
    { unfold parse_phase in Eph. unfold m_measure in *.
      pose proof (pull_loop_measure (S pf) sts (if m_pend m then m_fed m else []) (m_src m)
                    (x_in (m_x m)) (x_off (m_x m)) (m_eof m)) as Hle.
      pose proof (pull_loop_fuel (S pf) sts (if m_pend m then m_fed m else []) (m_src m)
                    (x_in (m_x m)) (x_off (m_x m)) (m_eof m)) as Hfu.
      destruct (m_pend m) eqn:Epe.
      - destruct (parser sts (m_fed m)) eqn:Ep;
          [| inversion Eph; subst; repeat split; try lia; try discriminate ..].
        rewrite Eph in Hle, Hfu. cbn [fst] in Hfu. repeat split; try lia; try discriminate.
        apply Hfu; destruct (m_eof m); lia.
      - rewrite Eph in Hle, Hfu. cbn [fst] in Hfu. repeat split; try lia.
        + intros _ He. rewrite He in *.
          pose proof (pull_loop_measure_strict pf sts [] (m_src m) (x_in (m_x m)) (x_off (m_x m))) as Hst.
          rewrite Eph in Hst. exact Hst.
        + apply Hfu; destruct (m_eof m); lia.
        + intros _ He c p Hc. rewrite He in Eph. cbn [pull_loop orb app] in Eph.
          subst sts. cbn [app] in Eph. specialize (parser_ends (s_ps (x_sh (m_x m)))).
          destruct (parser [s_ps (x_sh (m_x m))] [[]]); inversion Eph; subst; try discriminate.
          contradiction. }
    destruct Hph as [Hle [Hlt [Hoof Hend]]].
    destruct ph as [r| |]; try discriminate; [|contradiction].
    destruct r; try discriminate.
    destruct (parse_phase_from_parser _ _ _ _ _ _ _ _ _ _ _ _ _ Eph) as [fd Hfd].
    destruct Hpops as [j Hj].
    assert (Hwf' : wf i') by (rewrite Hj; now apply wf_skipn).
    pose proof (exec_wf c (mkX (x_sh (m_x m)) i' off' (x_evs (m_x m))) Hwf') as [Hwf2 Hl2].
    destruct (exec line_ops c (mkX (x_sh (m_x m)) i' off' (x_evs (m_x m)))) as [x2 ex].
    cbn [fst x_in] in *. destruct ex; [discriminate|].
    pose proof (measure_in_le s' _ _ eof' Hl2) as Hm2.
    assert (Hsts : (length sts = (if m_pend m then length (m_hist m) else 0) + 1)%nat).
    { subst sts. rewrite app_length. destruct (m_pend m); cbn; lia. }
    unfold potential, m_measure in *. cbn [m_x m_src m_eof m_pend m_hist].
    assert (Hinv' : m_inv (mkM x2 s' eof' pend (if pend then g' else []) (if pend then sts else []))).
    { split; [exact Hwf2|]. cbn [m_pend m_hist]. intros ->. specialize (parser_depth _ _ _ Hfd). lia. }
    split; [|split; [lia | exact Hinv']].
    set (M := measure (m_src m) (x_in (m_x m)) (m_eof m)) in *.
    set (M2 := measure s' (x_in x2) eof') in *.
    assert (HM : (M2 * K <= M * K)%nat) by (apply Nat.mul_le_mono_r; lia).
    destruct (m_pend m) eqn:Epe.
    - specialize (Hinv eq_refl). destruct pend.
      + specialize (parser_depth _ _ _ Hfd). lia.
      + lia.
    - destruct (m_eof m) eqn:Ee.
      + exfalso. eapply Hend; reflexivity.
      + specialize (Hlt eq_refl eq_refl).
        assert (HM' : (M2 * K + K <= M * K)%nat).
        { replace (M2 * K + K)%nat with ((S M2) * K)%nat by lia. apply Nat.mul_le_mono_r. lia. }
        destruct pend.
        * specialize (parser_depth _ _ _ Hfd). lia.
        * lia.
  Qed.

  Lemma loop_fuel (fuel pf : nat) : forall m,
    m_inv m -> (potential m < fuel)%nat -> (m_measure m < pf)%nat ->
    f_tag (loop line_ops parser fuel pf m) <> FOutOfFuel.
  Proof.
    induction fuel as [|f IH]; intros m Hinv Hf Hpf; [lia|]. cbn [loop].
    pose proof (iter_progress pf m Hinv Hpf) as Hi.
    destruct (iter line_ops parser pf m) as [m'|r]; [|exact Hi].
    destruct Hi as [Hp [Hm Hinv']]. apply IH; [assumption | lia | lia].
  Qed.

  Lemma run_fuel (fuel pf : nat) (s : lsource) (i : list line) :
    wf i -> (src_size s i + 2 <= pf)%nat -> (pf * K + 1 <= fuel)%nat ->
    f_tag (run line_ops parser fuel pf s i) <> FOutOfFuel.
  Proof.
    intros Hwf Hpf Hf. unfold run. apply loop_fuel.
    - split; [exact Hwf | discriminate].
    - unfold potential, m_measure, init, measure. cbn [m_x m_src m_eof m_pend x_in].
      assert ((src_size s i + 1) * K <= pf * K)%nat by (apply Nat.mul_le_mono_r; lia). lia.
    - unfold m_measure, init, measure. cbn. lia.
  Qed.
End Fuel.

Lemma split_lines_length (x : list N) : (length (split_lines x) <= length x)%nat.
Proof.
  induction x as [|b x IH]; cbn [split_lines length]; [lia|].
  destruct (N.eqb b NL); cbn [length]; [lia|].
  destruct (split_lines x); cbn [length] in *; lia.
Qed.

(* ------------------------------------------------------------------ *)
(* A run of the line-level machine is line by line.                    *)

Section LineByLine.
  Context (parser : list pstate -> list line -> pres).

  Ltac case_if := match goal with |- context [if ?e then _ else _] => destruct e end.

  Lemma parse_phase_takes (pf : nat) sts pend fed0 i off eof r fed' s' i' off' eof' :
    no_empty i ->
    parse_phase line_ops parser pf sts pend fed0 LShared i off eof
      = (PhDone r, (fed', s', i', off', eof')) ->
    exists k,
      decides parser sts (if pend then fed0 else []) (if pend then 0 else 1)%nat
              (if eof then [] else i) k r /\
      fed' = (if pend then fed0 else []) ++ firstn k (feedable (if eof then [] else i)) /\
      s' = LShared /\
      i' = (if eof then i else skipn k i) /\
      off' = (if eof then off else off + nlen (concat (firstn k i))) /\
      eof' = eof || Nat.eqb k (S (length i)).
  Proof.
    intros Hne H. unfold parse_phase in H.
    (* the loop proper, from a buffer content [f0] on which the parser asked for more *)
    assert (Hloop : forall f0,
      pull_loop line_ops parser pf sts f0 LShared i off eof = (PhDone r, (fed', s', i', off', eof')) ->
      exists k, (1 <= k <= S (length (if eof then [] else i)))%nat /\
        parser sts (f0 ++ firstn k (feedable (if eof then [] else i))) = r /\ r <> PNeedMore /\
        (forall j, (1 <= j < k)%nat ->
           parser sts (f0 ++ firstn j (feedable (if eof then [] else i))) = PNeedMore) /\
        fed' = f0 ++ firstn k (feedable (if eof then [] else i)) /\ s' = LShared /\
        i' = (if eof then i else skipn k i) /\
        off' = (if eof then off else off + nlen (concat (firstn k i))) /\
        eof' = eof || Nat.eqb k (S (length i))).
    { intros f0 Hl. destruct eof.
      - destruct pf as [|pf]; [discriminate|]. cbn [pull_loop orb] in Hl. rewrite N.add_0_r in Hl.
        exists 1%nat. cbn [feedable app firstn length].
        destruct (parser sts (f0 ++ [[]])) eqn:Ep; inversion Hl; subst;
          repeat split; try lia; try discriminate; try exact Ep.
      - destruct (pull_loop_decides parser pf sts f0 i off r fed' s' i' off' eof' Hne Hl)
          as [k [Hk [Hp [Hr [Hmin [Hfed [Hs [Hi [Ho He]]]]]]]]].
        exists k. repeat split; try assumption; try lia. }
    destruct pend.
    - destruct (parser sts fed0) eqn:Ep.
      + destruct (Hloop fed0 H) as [k [Hk [Hp [Hr [Hmin [Hfed [Hs [Hi [Ho He]]]]]]]]].
        exists k. split; [|repeat split; assumption].
        unfold decides. repeat split; try assumption; try lia.
        intros j Hj. destruct j as [|j]; [cbn [firstn]; rewrite app_nil_r; exact Ep|].
        apply Hmin. lia.
      + inversion H; subst. exists 0%nat. cbn [firstn]. rewrite app_nil_r.
        split; [|split; [reflexivity | split; [reflexivity | split; [case_if; reflexivity |
                 split; [case_if; [reflexivity | cbn; now rewrite N.add_0_r] |
                         cbn [Nat.eqb]; now rewrite orb_false_r]]]]].
        unfold decides. cbn [firstn]. rewrite app_nil_r.
        repeat split; try lia; try discriminate; try exact Ep.
      + inversion H; subst. exists 0%nat. cbn [firstn]. rewrite app_nil_r.
        split; [|split; [reflexivity | split; [reflexivity | split; [case_if; reflexivity |
                 split; [case_if; [reflexivity | cbn; now rewrite N.add_0_r] |
                         cbn [Nat.eqb]; now rewrite orb_false_r]]]]].
        unfold decides. cbn [firstn]. rewrite app_nil_r.
        repeat split; try lia; try discriminate; try exact Ep.
      + inversion H; subst. exists 0%nat. cbn [firstn]. rewrite app_nil_r.
        split; [|split; [reflexivity | split; [reflexivity | split; [case_if; reflexivity |
                 split; [case_if; [reflexivity | cbn; now rewrite N.add_0_r] |
                         cbn [Nat.eqb]; now rewrite orb_false_r]]]]].
        unfold decides. cbn [firstn]. rewrite app_nil_r.
        repeat split; try lia; try discriminate; try exact Ep.
      + inversion H; subst. exists 0%nat. cbn [firstn]. rewrite app_nil_r.
        split; [|split; [reflexivity | split; [reflexivity | split; [case_if; reflexivity |
                 split; [case_if; [reflexivity | cbn; now rewrite N.add_0_r] |
                         cbn [Nat.eqb]; now rewrite orb_false_r]]]]].
        unfold decides. cbn [firstn]. rewrite app_nil_r.
        repeat split; try lia; try discriminate; try exact Ep.
    - destruct (Hloop [] H) as [k [Hk [Hp [Hr [Hmin [Hfed [Hs [Hi [Ho He]]]]]]]]].
      exists k. split; [|repeat split; assumption].
      unfold decides. repeat split; try assumption; lia.
  Qed.

  Lemma loop_line_by_line (fuel pf : nat) : forall m,
    m_src m = LShared -> wf (x_in (m_x m)) ->
    f_tag (loop line_ops parser fuel pf m) <> FOutOfFuel ->
    f_tag (loop line_ops parser fuel pf m) <> FStuck ->
    line_by_line parser (m_x m) (m_eof m) (m_pend m) (m_fed m) (m_hist m)
      (loop line_ops parser fuel pf m).
  Proof.
    induction fuel as [|f IH]; intros m Hsrc Hwf Hof Hst; cbn [loop] in *.
    - exfalso. apply Hof. reflexivity.
    - unfold iter in *. rewrite Hsrc in *. destruct (m_x m) as [sh i off evs] eqn:Ex.
      cbn [x_sh x_in x_off x_evs] in *.
      set (x := mkX sh i off evs) in *.
      change ((if m_pend m then m_hist m else []) ++ [s_ps sh])
        with (step_sts x (m_pend m) (m_hist m)) in *.
      pose proof (parse_phase_takes pf (step_sts x (m_pend m) (m_hist m)) (m_pend m) (m_fed m)
                    i off (m_eof m)) as Ht.
      destruct (parse_phase line_ops parser pf (step_sts x (m_pend m) (m_hist m)) (m_pend m)
                  (m_fed m) LShared i off (m_eof m)) as [ph [[[[g' s'] i'] off'] eof']].
      destruct ph as [r| |]; [| exfalso; apply Hst; reflexivity | exfalso; apply Hof; reflexivity].
      destruct (Ht r g' s' i' off' eof' (wf_no_empty _ Hwf) eq_refl)
        as [k [Hdec [Hg [-> [Hi [Ho He]]]]]].
      assert (Hph : phase_takes parser x (m_eof m) (m_pend m) (m_fed m) (m_hist m) k r) by exact Hdec.
      assert (Hx' : mkX sh i' off' evs = after_phase x (m_eof m) k).
      { unfold after_phase, take_lines, x. cbn [x_sh x_in x_off x_evs]. subst i' off'.
        destruct (m_eof m); reflexivity. }
      assert (Hwf' : wf i').
      { subst i'. destruct (m_eof m); [exact Hwf | now apply wf_skipn]. }
      rewrite Hx' in *.
      destruct r.
      + exfalso. destruct Hdec as [_ [_ [Hr _]]]. now apply Hr.
      + pose proof (exec_wf c (after_phase x (m_eof m) k)) as Hwf2.
        rewrite <- Hx' in Hwf2 at 1. specialize (Hwf2 Hwf'). destruct Hwf2 as [Hwf2 _].
        destruct (exec line_ops c (after_phase x (m_eof m) k)) as [x2 ex] eqn:Ec.
        cbn [fst] in Hwf2. destruct ex.
        * eapply LBL_exit; eassumption.
        * eapply LBL_step; [exact Hph | exact Ec |].
          assert (Hfed : (if pend then g' else []) = (if pend then fed_after x (m_eof m) (m_pend m) (m_fed m) k else []))
            by (unfold fed_after; now rewrite Hg).
          assert (Heof : eof' = eof_after x (m_eof m) k) by (unfold eof_after; exact He).
          rewrite <- Hfed, <- Heof.
          apply (IH (mkM x2 LShared eof' pend (if pend then g' else [])
                         (if pend then step_sts x (m_pend m) (m_hist m) else []))); try assumption.
          reflexivity.
      + exact (LBL_syntax parser x (m_eof m) (m_pend m) (m_fed m) (m_hist m) k Hph).
      + assert (Es : x_status (after_phase x (m_eof m) k) = x_status x)
          by (unfold after_phase; destruct (m_eof m); reflexivity).
        rewrite Es. exact (LBL_end parser x (m_eof m) (m_pend m) (m_fed m) (m_hist m) k Hph).
      + exact (LBL_unknown parser x (m_eof m) (m_pend m) (m_fed m) (m_hist m) k Hph).
  Qed.
End LineByLine.
