(* C18 — what the correspondence check evaluates on every case. *)
From Yv Require Export Common.Base C18.Model C18.Spec.

(* ------------------------------------------------------------------ *)
(* The parser parameter, instantiated from a table recorded by running the
   real `Parser::command_line` on its own (from memory, with a counting input
   function) from every line of the script in every parser state that the
   script's own alias / option commands can produce. *)

(* indices of the parser states of the calls made on the same lines (the
   last is the call the entry describes; more than one: the earlier calls left
   text pending), byte offset in the script where the lines start, number of
   feedable lines taken, result *)
Definition entry := (list nat * nat * nat * pres)%type.

Definition nsrc_eqb (a b : nsrc) : bool :=
  match a, b with
  | NMem x, NMem y => list_eqb str_eqb x y
  | NFile x, NFile y => str_eqb x y
  | _, _ => false
  end.

Fixpoint cmd_eqb (a b : cmd) : bool :=
  match a, b with
  | CNop, CNop => true
  | CStatus n, CStatus m => N.eqb n m
  | CProbe x, CProbe y => list_eqb str_eqb x y
  | CShow x, CShow y => str_eqb x y
  | CRead r d x, CRead s e y => Bool.eqb r s && N.eqb d e && str_eqb x y
  | CSlurp, CSlurp => true
  | CHere x, CHere y => str_eqb x y
  | CAlias n v, CAlias m w => str_eqb n m && str_eqb v w
  | CUnalias n, CUnalias m => str_eqb n m
  | CPortable x, CPortable y => Bool.eqb x y
  | CExit x, CExit y => option_eqb N.eqb x y
  | CSeq a1 a2, CSeq b1 b2 => cmd_eqb a1 b1 && cmd_eqb a2 b2
  | CAnd a1 a2, CAnd b1 b2 => cmd_eqb a1 b1 && cmd_eqb a2 b2
  | COr a1 a2, COr b1 b2 => cmd_eqb a1 b1 && cmd_eqb a2 b2
  | CNot a1, CNot b1 => cmd_eqb a1 b1
  | CIf a1 a2 a3, CIf b1 b2 b3 => cmd_eqb a1 b1 && cmd_eqb a2 b2 && cmd_eqb a3 b3
  | CSub a1, CSub b1 => cmd_eqb a1 b1
  | CNest x, CNest y => nsrc_eqb x y
  | _, _ => false
  end.

Definition pres_eqb (a b : pres) : bool :=
  match a, b with
  | PNeedMore, PNeedMore | PError, PError | PEnd, PEnd | PUnknown, PUnknown => true
  | PComplete x p, PComplete y q => cmd_eqb x y && Bool.eqb p q
  | _, _ => false
  end.

Definition pstate_eqb (a b : pstate) : bool :=
  list_eqb (pair_eqb str_eqb str_eqb) (p_aliases a) (p_aliases b)
  && Bool.eqb (p_portable a) (p_portable b).

Definition lines_eqb : list line -> list line -> bool := list_eqb str_eqb.

Fixpoint strict_prefix (a b : list line) : bool :=
  match a, b with
  | [], _ :: _ => true
  | x :: a', y :: b' => str_eqb x y && strict_prefix a' b'
  | _, _ => false
  end.

(* expanded entry: parser states, lines fed, result *)
Definition xentry := (list pstate * list line * pres)%type.

Definition expand (states : list pstate) (script : list N) (e : entry) : xentry :=
  let '(sis, start, count, r) := e in
  (map (fun si => nth si states (mkP [] false)) sis,
   firstn count (feedable (split_lines (skipn start script))), r).

Definition sts_eqb : list pstate -> list pstate -> bool := list_eqb pstate_eqb.

Definition tab_parser (t : list xentry) (sts : list pstate) (fed : list line) : pres :=
  match find (fun e : xentry => let '(s, f, _) := e in sts_eqb sts s && lines_eqb fed f) t with
  | Some (_, _, r) => r
  | None =>
      if existsb (fun e : xentry => let '(s, f, _) := e in sts_eqb sts s && strict_prefix fed f) t
      then PNeedMore else PUnknown
  end.

(* What the theorems assume of the parser, checked on the table: a function of
   (state, lines given); once it has decided it never wants more (the lists of
   lines taken are prefix-free); the end-of-input marker can only be the last
   thing it is given; at the end of input with nothing else it yields no command. *)
Definition marker_last (f : list line) : bool :=
  match rev f with
  | [] => false
  | _ :: r => forallb (fun l => match l with [] => false | _ => true end) r
  end.

(* an alias whose value contains a newline: the only legitimate reason for
   text to stay pending in the line buffer after a command line *)
Definition multiline_alias (st : pstate) : bool :=
  existsb (fun p => existsb (N.eqb NL) (snd p)) (p_aliases st).

Definition entry_ok (t : list xentry) (e : xentry) : bool :=
  let '(s, f, r) := e in
  marker_last f
  && match r with PNeedMore | PUnknown => false | _ => true end
  && match s, f, r with [_], [[]], PComplete _ _ => false | _, _, _ => true end
  && match r with
     | PComplete _ true => existsb multiline_alias s
     | _ => true
     end
  && forallb (fun e' : xentry =>
       let '(s', f', r') := e' in
       negb (sts_eqb s s') ||
       (negb (strict_prefix f f') && (negb (lines_eqb f f') || pres_eqb r r'))) t.

Definition table_ok (t : list xentry) : bool := forallb (entry_ok t) t.

(* no `read -d`: positions are then line boundaries *)
Definition table_reads_lines (t : list xentry) : bool :=
  forallb (fun e : xentry => match e with (_, _, PComplete c _) => nl_cmd c | _ => true end) t.

(* bound on how many commands in a row can come out of pending text *)
Definition table_depth (t : list xentry) : nat :=
  S (fold_right (fun e : xentry => Nat.max (length (fst (fst e)))) 0%nat t).

(* ------------------------------------------------------------------ *)
(* Cases.                                                              *)

Inductive feed :=
| FdFile                      (* script = regular file on descriptor 0 *)
| FdFifo (sizes : list nat)   (* script written into a pipe on descriptor 0 in these chunks *)
| FdString                    (* yash -c script; descriptor 0 = data *)
| FdScript                    (* yash /script; descriptor 0 = data *)
| FdPieces (sizes : list nat). (* read_eval_loop over a custom Input returning the script in
                                 these pieces (any piece may end in the middle of a line);
                                 descriptor 0 = data *)

Inductive iout :=
| IObs (o : obs)
| IPanic
| IHang.

Record case := mkCase {
  c_script : list N;
  c_data : list N;
  c_states : list pstate;
  c_table : list entry;
  c_runs : list (feed * iout);
  (* nested read-eval loops: the nesting level the model is run at (0: the
     script has no `eval` / `.`), the texts of the nested loops (operands of
     `eval`, contents of the files of `.`) and the parser's decisions on them
     (text index, entry relative to that text) *)
  c_level : nat;
  c_texts : list (list N);
  c_ntable : list (nat * entry)
}.

Fixpoint chunk (sizes : list nat) (x : list N) : dev :=
  match sizes with
  | [] => [x]
  | n :: s => firstn n x :: chunk s (skipn n x)
  end.

(* byte-by-byte delivery *)
Definition ones (n : nat) : list nat := repeat 1%nat n.

Definition shared (f : feed) : bool :=
  match f with FdFile | FdFifo _ => true | _ => false end.

Definition model_of (parser : list pstate -> list line -> pres) (fuel pf : nat)
    (script data : list N) (f : feed) : final :=
  match f with
  | FdFile => model_run parser fuel pf SrcStdin [script]
  | FdFifo sizes => model_run parser fuel pf SrcStdin (chunk sizes script)
  | FdString => model_run parser fuel pf (SrcMem (split_lines script)) [data]
  | FdScript => model_run parser fuel pf (SrcOwn [script]) [data]
  | FdPieces sizes => model_run parser fuel pf (SrcInput (chunk sizes script)) [data]
  end.

Definition spec_of (parser : list pstate -> list line -> pres) (fuel pf : nat)
    (script data : list N) (f : feed) : final :=
  if shared f then spec_run parser fuel pf LShared (split_lines script)
  else spec_run parser fuel pf (LLines (split_lines script)) (split_lines data).

(* How a nested loop that did not end normally shows in the final state of
   the model (Model.v ST_INTR, ST_ABN): decoded here.  A syntax error in a
   nested text interrupts the shell like one in the script. *)
Definition decode_final (f : final) : final :=
  match f_tag f with
  | FExit =>
      if N.leb ST_ABN (f_status f) then
        mkFinal (if N.eqb (f_status f) (ST_ABN + 3) then FStuck
                 else if N.eqb (f_status f) (ST_ABN + 4) then FUnknown else FOutOfFuel)
                0 (f_off f) (f_evs f)
      else if N.leb ST_INTR (f_status f) then
        mkFinal FSyntax (f_status f - ST_INTR) (f_off f) (f_evs f)
      else f
  | _ => f
  end.

Definition nmodel_of (parser : list pstate -> list line -> pres) (lvl fuel pf : nat)
    (script data : list N) (f : feed) : final :=
  decode_final
  match f with
  | FdFile => nmodel_run parser lvl fuel pf SrcStdin [script]
  | FdFifo sizes => nmodel_run parser lvl fuel pf SrcStdin (chunk sizes script)
  | FdString => nmodel_run parser lvl fuel pf (SrcMem (split_lines script)) [data]
  | FdScript => nmodel_run parser lvl fuel pf (SrcOwn [script]) [data]
  | FdPieces sizes => nmodel_run parser lvl fuel pf (SrcInput (chunk sizes script)) [data]
  end.

Definition nspec_of (parser : list pstate -> list line -> pres) (lvl fuel pf : nat)
    (script data : list N) (f : feed) : final :=
  decode_final
  (if shared f then nspec_run parser lvl fuel pf LShared (split_lines script)
   else nspec_run parser lvl fuel pf (LLines (split_lines script)) (split_lines data)).

(* bytes, any value (the script need not be valid UTF-8) *)
Definition in_domain (x : list N) : bool :=
  forallb (fun b => N.ltb b 256) x.

Definition modelled_tag (t : ftag) : bool :=
  match t with FEnd | FSyntax | FExit => true | _ => false end.

(* ------------------------------------------------------------------ *)
(* `set -v` (yash-env/src/input/echo.rs): an implementation-only clause.
   The harness records every line the shell echoes to standard error as a
   record of kind 4, in order with the other records.  The scripts of this
   stream switch the option on with `set -v; probe vmark`.  Clause: nothing is
   echoed before that command; from then on, whenever a record with a position
   is made (and at the end), the text echoed so far is exactly the script from
   the end of the `set -v` line up to that position — every line once, in
   order, before the commands of that line run.  A -c string is not echoed. *)
Definition vmark : list str := [[118; 109; 97; 114; 107]%N].

Definition slice_ok (script : list N) (s : N) (E : list N) (off : N) : bool :=
  N.eqb (s + nlen E) off && str_eqb E (firstn (length E) (skipn (N.to_nat s) script)).

Fixpoint echo_walk (script : list N) (s : option N) (E : list N) (evs : list event)
  : bool * option N * list N :=
  match evs with
  | [] => (true, s, E)
  | Ev k args _ off :: r =>
      if N.eqb k 4 then echo_walk script s (E ++ concat args) r
      else if N.eqb k 3 then echo_walk script s E r
      else
        match s with
        | None =>
            let ok := match E with [] => true | _ => false end in
            let s' := if list_eqb str_eqb args vmark then Some off else None in
            let '(b, s2, E2) := echo_walk script s' [] r in (ok && b, s2, E2)
        | Some s0 =>
            let '(b, s2, E2) := echo_walk script s E r in (slice_ok script s0 E off && b, s2, E2)
        end
  end.

Definition echo_ok (script : list N) (o : obs) : bool :=
  let '(_, _, off, evs) := o in
  let '(b, s, E) := echo_walk script None [] evs in
  b && match s with
       | None => match E with [] => true | _ => false end
       | Some s0 => slice_ok script s0 E off
       end.

Definition no_echo (o : obs) : bool :=
  let '(_, _, _, evs) := o in forallb (fun e => negb (N.eqb (event_kind e) 4)) evs.

Definition strip_echo (o : obs) : obs :=
  let '(t, s, off, evs) := o in (t, s, off, filter (fun e => negb (N.eqb (event_kind e) 4)) evs).

(* the first observation made with the script on descriptor 0 *)
Fixpoint first_shared (runs : list (feed * iout)) : option obs :=
  match runs with
  | [] => None
  | (f, IObs o) :: r => if shared f then Some (strip_echo o) else first_shared r
  | _ :: r => first_shared r
  end.

Definition rank (v : verdict) : N :=
  if N.eqb v 0 then 0 else if N.eqb v 1 then 1 else if N.eqb v 99 then 2 else 3.

(* keep the first oracle failure; otherwise out-of-domain, then a mismatch *)
Definition worse (a b : verdict) : verdict :=
  if N.ltb (rank a) (rank b) then b else a.

Definition run_one (parser : list pstate -> list line -> pres) (lvl fuel pf : nat) (aligned : bool)
    (script data : list N) (ref : option obs) (fo : feed * iout) : verdict :=
  let (f, io) := fo in
  match io with
  | IPanic | IHang => 8%N
  | IObs o0 =>
      let o := strip_echo o0 in
      (* ORACLE, on the implementation's observation only *)
      if (if shared f then negb (echo_ok script o0)
          else match f with FdString => negb (no_echo o0) | _ => false end) then 5%N
      else if shared f && negb (match ref with Some o0 => obs_eqb o0 o | None => true end) then 2%N
      else if aligned && negb (line_aligned (if shared f then script else data) o) then 3%N
      else
        let sp := nspec_of parser lvl fuel pf script data f in
        if negb (modelled_tag (f_tag sp)) then 99%N
        else if negb (obs_eqb (obs_of_final sp) o) then 4%N
        else
          (* MODEL *)
          if obs_eqb (obs_of_final (nmodel_of parser lvl fuel pf script data f)) o then 0%N else 1%N
  end.

Definition run_case (c : case) : verdict :=
  let script := c_script c in
  let data := c_data c in
  if negb (in_domain script && in_domain data && forallb in_domain (c_texts c)) then 99%N
  else
    let t := map (expand (c_states c) script) (c_table c)
             ++ map (fun ie : nat * entry => expand (c_states c) (nth (fst ie) (c_texts c) []) (snd ie))
                    (c_ntable c) in
    if negb (table_ok t) then 9%N
    else
      let parser := tab_parser t in
      let pf := (length script + length data + length (concat (c_texts c)) + 2)%nat in
      let fuel := (pf * table_depth t + 1)%nat in
      let ref := first_shared (c_runs c) in
      fold_left (fun v fo => worse v (run_one parser (c_level c) fuel pf (table_reads_lines t) script data ref fo))
                (c_runs c) 0%N.

Definition run_cases := run_cases_with run_case.
