(* C18 — the property, stated on LINES.

   The input is a list of lines (a pure function of the bytes, [split_lines]);
   the shell takes whole lines off the front of that list:

     * to parse a command it takes the least number of lines after which the
       parser no longer asks for more ([decides]);
     * a command that reads standard input takes the lines that follow;
     * nothing else moves the position.

   [spec_run] is that reference semantics (the generic read-eval machine of
   Model.v instantiated with line-popping operations, no bytes, no chunks, no
   reads).  The ORACLE compares what the implementation did with it, and
   checks directly on the implementation's observations that every recorded
   descriptor position is a line boundary and that all ways of delivering the
   same bytes gave the same observations. *)
From Yv Require Import Common.Base C18.Model.
Local Open Scope N_scope.

(* ------------------------------------------------------------------ *)
(* Lines of a byte string: every line but possibly the last ends with a
   newline; no line is empty. *)
Fixpoint split_lines (x : list N) : list line :=
  match x with
  | [] => []
  | b :: r =>
      if N.eqb b NL then [b] :: split_lines r
      else match split_lines r with
           | [] => [[b]]
           | l :: ls => (b :: l) :: ls
           end
  end.

(* ------------------------------------------------------------------ *)
(* Line-level operations.                                              *)

Inductive lsource := LShared | LLines (ls : list line).

Definition line_pull (s : lsource) (i : list line) : line * lsource * list line * N :=
  match s, i with
  | LShared, [] => ([], LShared, [], 0%N)
  | LShared, l :: i' => (l, LShared, i', nlen l)
  | LLines [], _ => ([], LLines [], i, 0%N)
  | LLines (l :: ls), _ => (l, LLines ls, i, 0%N)
  end.

Inductive lend := LNl | LEof | LCont.

(* the characters `read` gets from one line, and how the line ends for it *)
Fixpoint scan_line (raw : bool) (l : line) : list (N * bool) * lend :=
  match l with
  | [] => ([], LEof)
  | c :: l' =>
      if N.eqb c NL then ([], LNl)
      else if negb raw && N.eqb c BSL then
        match l' with
        | [] => ([], LEof)
        | c2 :: l'' =>
            if N.eqb c2 NL then ([], LCont)
            else let (cs, e) := scan_line raw l'' in ((c2, true) :: cs, e)
        end
      else let (cs, e) := scan_line raw l' in ((c, false) :: cs, e)
  end.

Fixpoint line_read_nl (raw : bool) (i : list line) : list (N * bool) * bool * list line * N :=
  match i with
  | [] => ([], false, [], 0%N)
  | l :: rest =>
      match scan_line raw l with
      | (cs, LNl) => (cs, true, rest, nlen l)
      | (cs, LEof) => (cs, false, rest, nlen l)
      | (cs, LCont) =>
          let '(cs', found, r, n) := line_read_nl raw rest in
          (cs ++ cs', found, r, (nlen l + n)%N)
      end
  end.

(* `read -d D` with D other than newline does not take whole lines: it takes
   the bytes up to the first delimiter that is not escaped (every delimiter
   with -r, or when the delimiter is the backslash itself). *)
Fixpoint flat_read (raw : bool) (d : N) (esc : bool) (x : list N)
  : list (N * bool) * bool * list N * N :=
  match x with
  | [] => ([], false, [], 0)
  | b :: r =>
      if esc then
        let '(cs, f, rest, n) := flat_read raw d false r in
        if N.eqb b NL then (cs, f, rest, 1 + n) else ((b, true) :: cs, f, rest, 1 + n)
      else if N.eqb b d then ([], true, r, 1)
      else if negb raw && N.eqb b BSL then
        let '(cs, f, rest, n) := flat_read raw d true r in (cs, f, rest, 1 + n)
      else
        let '(cs, f, rest, n) := flat_read raw d false r in ((b, false) :: cs, f, rest, 1 + n)
  end.

Definition line_read (raw : bool) (d : N) (i : list line)
  : list (N * bool) * bool * list line * N :=
  if N.eqb d NL then line_read_nl raw i
  else let '(cs, f, rest, n) := flat_read raw d false (concat i) in (cs, f, split_lines rest, n).

Definition line_slurp (i : list line) : str * list line * N :=
  (concat i, [], nlen (concat i)).

Definition line_ops : input_ops (list line) lsource :=
  mkOps (list line) lsource line_pull line_read line_slurp nest_stub.

(* how the model's sources and descriptors look at line level *)
Definition abs_src (s : source) : lsource :=
  match s with
  | SrcStdin => LShared
  | SrcOwn d => LLines (split_lines (concat d))
  | SrcMem ls => LLines ls
  | SrcInput d => LLines (split_lines (concat d))
  end.

Definition abs_dev (d : dev) : list line := split_lines (concat d).

(* Nested loops at line level: the text of `eval` is a list of lines already;
   the file of `.` is its lines.  The nested loop runs on a source of its own,
   so parsing the nested text takes nothing from standard input. *)
Definition line_src (s : nsrc) : lsource :=
  match s with NMem ls => LLines ls | NFile b => LLines (split_lines b) end.

Fixpoint line_ops_at (parser : list pstate -> list line -> pres) (fuel pf lvl : nat)
  : input_ops (list line) lsource :=
  mkOps (list line) lsource line_pull line_read line_slurp
    (match lvl with
     | O => nest_stub
     | S k => nest_with (line_ops_at parser fuel pf k) parser line_src fuel pf
     end).

Definition nspec_run (parser : list pstate -> list line -> pres) (lvl fuel pf : nat)
    (src : lsource) (stdin : list line) : final :=
  run (line_ops_at parser fuel pf lvl) parser fuel pf src stdin.

(* The reference semantics. *)
Definition spec_run (parser : list pstate -> list line -> pres) (fuel pf : nat)
    (src : lsource) (stdin : list line) : final :=
  run line_ops parser fuel pf src stdin.

(* ------------------------------------------------------------------ *)
(* Declarative notions used in the theorem statements.                 *)

(* what the parser can be given, in order: the lines, then the end of input *)
Definition feedable (ls : list line) : list line := ls ++ [[]].

(* The parser, called in the states [sts] with [fed0] already in the line
   buffer, takes exactly the first [k] feedable lines ([k] >= [start]: 1 when
   the buffer was flushed, 0 when text was pending in it): it decides on them
   and asks for more on every shorter prefix. *)
Definition decides (parser : list pstate -> list line -> pres) (sts : list pstate)
    (fed0 : list line) (start : nat) (ls : list line) (k : nat) (r : pres) : Prop :=
  (start <= k <= S (length ls))%nat /\
  parser sts (fed0 ++ firstn k (feedable ls)) = r /\ r <> PNeedMore /\
  forall j, (start <= j < k)%nat -> parser sts (fed0 ++ firstn j (feedable ls)) = PNeedMore.

(* The property as a relation: a run is LINE BY LINE if it is a sequence of
   steps, each of which takes from the front of the input exactly the lines
   the parser needs for one command ([decides]; nothing once the end of input
   has been seen), then runs that command on what follows — and only then
   goes on to the next command, with the parser state the command left, also
   when the next command comes out of text pending in the line buffer. *)
Definition take_lines (k : nat) (x : xstate (I:=list line)) : xstate (I:=list line) :=
  mkX (x_sh x) (skipn k (x_in x)) (x_off x + nlen (concat (firstn k (x_in x)))) (x_evs x).

Definition step_sts (x : xstate (I:=list line)) (pend : bool) (hist : list pstate) : list pstate :=
  (if pend then hist else []) ++ [s_ps (x_sh x)].

Definition phase_takes (parser : list pstate -> list line -> pres) (x : xstate (I:=list line))
    (eof pend : bool) (fed0 : list line) (hist : list pstate) (k : nat) (r : pres) : Prop :=
  decides parser (step_sts x pend hist) (if pend then fed0 else []) (if pend then 0 else 1)%nat
          (if eof then [] else x_in x) k r.

Definition after_phase (x : xstate (I:=list line)) (eof : bool) (k : nat) : xstate (I:=list line) :=
  if eof then x else take_lines k x.

Definition fed_after (x : xstate (I:=list line)) (eof pend : bool) (fed0 : list line) (k : nat)
  : list line :=
  (if pend then fed0 else []) ++ firstn k (feedable (if eof then [] else x_in x)).

Definition eof_after (x : xstate (I:=list line)) (eof : bool) (k : nat) : bool :=
  eof || Nat.eqb k (S (length (x_in x))).

Inductive line_by_line (parser : list pstate -> list line -> pres)
  : xstate (I:=list line) -> bool -> bool -> list line -> list pstate -> final -> Prop :=
| LBL_end x eof pend fed0 hist k :
    phase_takes parser x eof pend fed0 hist k PEnd ->
    line_by_line parser x eof pend fed0 hist
      (finish FEnd (x_status x) (after_phase x eof k))
| LBL_syntax x eof pend fed0 hist k :
    phase_takes parser x eof pend fed0 hist k PError ->
    line_by_line parser x eof pend fed0 hist (finish FSyntax 2 (after_phase x eof k))
| LBL_unknown x eof pend fed0 hist k :
    phase_takes parser x eof pend fed0 hist k PUnknown ->
    line_by_line parser x eof pend fed0 hist (finish FUnknown 0 (after_phase x eof k))
| LBL_exit x eof pend fed0 hist k c p x2 :
    phase_takes parser x eof pend fed0 hist k (PComplete c p) ->
    exec line_ops c (after_phase x eof k) = (x2, true) ->
    line_by_line parser x eof pend fed0 hist (finish FExit (x_status x2) x2)
| LBL_step x eof pend fed0 hist k c p x2 r :
    phase_takes parser x eof pend fed0 hist k (PComplete c p) ->
    exec line_ops c (after_phase x eof k) = (x2, false) ->
    line_by_line parser x2 (eof_after x eof k) p
      (if p then fed_after x eof pend fed0 k else [])
      (if p then step_sts x pend hist else []) r ->
    line_by_line parser x eof pend fed0 hist r.

(* commands whose reads take whole lines (no `read -d`) *)
Fixpoint nl_cmd (c : cmd) : bool :=
  match c with
  | CRead _ d _ => N.eqb d NL
  | CSeq a b | CAnd a b | COr a b => nl_cmd a && nl_cmd b
  | CNot a | CSub a => nl_cmd a
  | CIf a b c => nl_cmd a && nl_cmd b && nl_cmd c
  | _ => true
  end.

Definition reads_lines (parser : list pstate -> list line -> pres) : Prop :=
  forall sts fed c p, parser sts fed = PComplete c p -> nl_cmd c = true.

(* text can stay pending in the line buffer for fewer than K commands in a row *)
Definition pend_depth (parser : list pstate -> list line -> pres) (K : nat) : Prop :=
  forall sts fed c, parser sts fed = PComplete c true -> (length sts < K)%nat.

(* At the end of input with nothing pending, `command_line` returns Ok(None)
   or an error; it never produces a command out of nothing. *)
Definition ends_at_eof (parser : list pstate -> list line -> pres) : Prop :=
  forall st, match parser [st] [[]] with PComplete _ _ => False | _ => True end.

(* bytes (lines for a command string) the script source can still deliver *)
Definition src_bytes (s : source) (stdin : dev) : nat :=
  match s with
  | SrcStdin => length (concat stdin)
  | SrcOwn d => length (concat d)
  | SrcMem ls => length ls
  | SrcInput d => length (concat d)
  end.

(* x = "" or x ends with a newline *)
Definition nl_terminated (x : list N) : Prop := x = [] \/ exists y, x = y ++ [NL].

(* ------------------------------------------------------------------ *)
(* ORACLE pieces (boolean), evaluated on observations of the implementation. *)

Definition ftag_code (t : ftag) : N :=
  match t with
  | FEnd => 0 | FSyntax => 1 | FExit => 2 | FStuck => 3 | FUnknown => 4 | FOutOfFuel => 5
  end%N.

Definition event_eqb (a b : event) : bool :=
  match a, b with
  | Ev k1 a1 s1 o1, Ev k2 a2 s2 o2 =>
      N.eqb k1 k2 && list_eqb str_eqb a1 a2 && N.eqb s1 s2 && N.eqb o1 o2
  end.

(* an observation: how the run ended (0 end of input, 1 syntax error, 2 exit),
   exit status, final position, records *)
Definition obs := (N * N * N * list event)%type.

Definition obs_of_final (f : final) : obs :=
  (ftag_code (f_tag f), f_status f, f_off f, f_evs f).

Definition obs_eqb (a b : obs) : bool :=
  let '(t1, s1, o1, e1) := a in
  let '(t2, s2, o2, e2) := b in
  N.eqb t1 t2 && N.eqb s1 s2 && N.eqb o1 o2 && list_eqb event_eqb e1 e2.

(* positions that are line boundaries of a byte string *)
Fixpoint boundaries_from (p : N) (ls : list line) : list N :=
  match ls with
  | [] => [p]
  | l :: ls' => p :: boundaries_from (p + nlen l) ls'
  end.

Definition boundaries (x : list N) : list N := boundaries_from 0 (split_lines x).

Definition mem_N (p : N) (l : list N) : bool := existsb (N.eqb p) l.

Definition event_off (e : event) : N := match e with Ev _ _ _ o => o end.
Definition event_kind (e : event) : N := match e with Ev k _ _ _ => k end.

(* every position recorded (hdoc records none) and the final position are
   line boundaries of the bytes on standard input *)
Definition line_aligned (x : list N) (o : obs) : bool :=
  let '(_, _, off, evs) := o in
  let bs := boundaries x in
  mem_N off bs &&
  forallb (fun e => N.eqb (event_kind e) 3 || mem_N (event_off e) bs) evs.
