(* C18 — nested read-eval loops (`eval`, `.`): the theorems about the model
   at every nesting level. *)
From Yv Require Import Common.Base C18.Model C18.Spec C18.Run.
From Yv Require Import C18.ProofsBytes C18.ProofsSim C18.ProofsLines C18.Proofs.
Local Open Scope N_scope.

(* ------------------------------------------------------------------ *)
(* Refinement at every level.                                          *)

Lemma at_pull_sim parser fuel pf lvl : forall s1 s2 i1 i2, RS s1 s2 -> RI i1 i2 ->
  let '(l1, t1, j1, n1) := op_pull (byte_ops_at parser fuel pf lvl) s1 i1 in
  let '(l2, t2, j2, n2) := op_pull (line_ops_at parser fuel pf lvl) s2 i2 in
  l1 = l2 /\ n1 = n2 /\ RS t1 t2 /\ RI j1 j2.
Proof. destruct lvl; exact pull_refines. Qed.

Lemma at_read_sim parser fuel pf lvl : forall raw d i1 i2, RI i1 i2 ->
  let '(c1, f1, j1, n1) := op_read (byte_ops_at parser fuel pf lvl) raw d i1 in
  let '(c2, f2, j2, n2) := op_read (line_ops_at parser fuel pf lvl) raw d i2 in
  c1 = c2 /\ f1 = f2 /\ n1 = n2 /\ RI j1 j2.
Proof. destruct lvl; exact read_refines. Qed.

Lemma at_slurp_sim parser fuel pf lvl : forall i1 i2, RI i1 i2 ->
  let '(c1, j1, n1) := op_slurp (byte_ops_at parser fuel pf lvl) i1 in
  let '(c2, j2, n2) := op_slurp (line_ops_at parser fuel pf lvl) i2 in
  c1 = c2 /\ n1 = n2 /\ RI j1 j2.
Proof. destruct lvl; exact slurp_refines. Qed.

Lemma src_sim (s : nsrc) : RS (byte_src s) (line_src s).
Proof.
  destruct s as [ls|b]; cbn [byte_src line_src]; [constructor|].
  pose proof (RS_own [b]) as H. cbn [concat] in H. now rewrite app_nil_r in H.
Qed.

Lemma at_nest_sim parser fuel pf lvl : forall s x1 x2, RX RI x1 x2 ->
  RX RI (fst (op_nest (byte_ops_at parser fuel pf lvl) s x1))
        (fst (op_nest (line_ops_at parser fuel pf lvl) s x2)) /\
  snd (op_nest (byte_ops_at parser fuel pf lvl) s x1)
  = snd (op_nest (line_ops_at parser fuel pf lvl) s x2).
Proof.
  induction lvl as [|k IH].
  - exact byte_nest_sim.
  - intros s x1 x2 H. cbn [byte_ops_at line_ops_at op_nest].
    apply (nest_with_sim (byte_ops_at parser fuel pf k) (line_ops_at parser fuel pf k) RI RS parser
             (at_pull_sim parser fuel pf k) (at_read_sim parser fuel pf k)
             (at_slurp_sim parser fuel pf k) IH byte_src line_src fuel pf src_sim); exact H.
Qed.

Lemma nested_refines_spec_lemma parser lvl fuel pf src d :
  nmodel_run parser lvl fuel pf src d = nspec_run parser lvl fuel pf (abs_src src) (abs_dev d).
Proof.
  unfold nmodel_run, nspec_run.
  apply (run_sim (byte_ops_at parser fuel pf lvl) (line_ops_at parser fuel pf lvl) RI RS parser
           (at_pull_sim parser fuel pf lvl) (at_read_sim parser fuel pf lvl)
           (at_slurp_sim parser fuel pf lvl) (at_nest_sim parser fuel pf lvl)).
  - apply RS_abs.
  - reflexivity.
Qed.

Lemma nested_chunking_irrelevant_lemma parser lvl fuel pf (d1 d2 : dev) :
  concat d1 = concat d2 ->
  nmodel_run parser lvl fuel pf SrcStdin d1 = nmodel_run parser lvl fuel pf SrcStdin d2.
Proof. intros H. rewrite !nested_refines_spec_lemma. unfold abs_dev. now rewrite H. Qed.

Lemma nested_chunking_irrelevant_own_lemma parser lvl fuel pf (s1 s2 d1 d2 : dev) :
  concat s1 = concat s2 -> concat d1 = concat d2 ->
  nmodel_run parser lvl fuel pf (SrcOwn s1) d1 = nmodel_run parser lvl fuel pf (SrcOwn s2) d2.
Proof.
  intros Hs H. rewrite !nested_refines_spec_lemma. unfold abs_dev, abs_src. now rewrite H, Hs.
Qed.

Lemma level0_is_model_lemma parser fuel pf src d :
  nmodel_run parser 0 fuel pf src d = model_run parser fuel pf src d.
Proof. reflexivity. Qed.

Lemma level0_is_spec_lemma parser fuel pf src d :
  nspec_run parser 0 fuel pf src d = spec_run parser fuel pf src d.
Proof. reflexivity. Qed.

(* ------------------------------------------------------------------ *)
(* The oracle accepts what the model produces, at every level.          *)

Lemma nmodel_of_nspec_of parser lvl fuel pf script data f :
  nmodel_of parser lvl fuel pf script data f = nspec_of parser lvl fuel pf script data f.
Proof.
  unfold nmodel_of, nspec_of. destruct f; cbn [shared]; rewrite nested_refines_spec_lemma;
    unfold abs_dev, abs_src; cbn [concat]; rewrite ?app_nil_r, ?concat_chunk; reflexivity.
Qed.

Lemma nested_oracle_sound_lemma parser lvl fuel pf script data f1 f2 :
  let o := obs_of_final (nmodel_of parser lvl fuel pf script data f1) in
  (shared f1 = true -> shared f2 = true ->
   obs_eqb (obs_of_final (nmodel_of parser lvl fuel pf script data f2)) o = true) /\
  obs_eqb (obs_of_final (nspec_of parser lvl fuel pf script data f1)) o = true.
Proof.
  cbn zeta. split.
  - intros H1 H2. rewrite !nmodel_of_nspec_of. unfold nspec_of. rewrite H1, H2. apply obs_eqb_refl.
  - rewrite nmodel_of_nspec_of. apply obs_eqb_refl.
Qed.

(* ------------------------------------------------------------------ *)
(* A loop on a source of its own never touches standard input while it
   parses.                                                             *)

Definition own (s : source) : Prop := s <> SrcStdin.

Lemma byte_pull_own s (d : dev) : own s ->
  let '(l, s', d', n) := byte_pull s d in d' = d /\ n = 0 /\ own s'.
Proof.
  unfold own. intros H. destruct s as [|o|ls|p]; cbn [byte_pull].
  - now destruct H.
  - destruct (next_line o) as [l o']. repeat split; try reflexivity; discriminate.
  - destruct ls; repeat split; try reflexivity; discriminate.
  - destruct (next_line p) as [l p']. repeat split; try reflexivity; discriminate.
Qed.

Lemma at_pull parser fuel pf lvl : op_pull (byte_ops_at parser fuel pf lvl) = byte_pull.
Proof. destruct lvl; reflexivity. Qed.

Lemma pull_loop_own parser fuel0 pf0 lvl (fuel : nat) : forall sts fed s (d : dev) off eof ph fed' s' d' off' eof',
  own s ->
  pull_loop (byte_ops_at parser fuel0 pf0 lvl) parser fuel sts fed s d off eof = (ph, (fed', s', d', off', eof')) ->
  d' = d /\ off' = off /\ own s'.
Proof.
  induction fuel as [|f IH]; intros sts fed s d off eof ph fed' s' d' off' eof' Ho; cbn [pull_loop].
  - intros E. inversion E; subst. repeat split; first [reflexivity | assumption].
  - rewrite at_pull. pose proof (byte_pull_own s d Ho) as Hp.
    destruct eof.
    + cbn [orb]. rewrite N.add_0_r.
      destruct (parser sts (fed ++ [[]])); intros E; inversion E; subst; repeat split; first [reflexivity | assumption].
    + destruct (byte_pull s d) as [[[l s1] d1] n]. destruct Hp as [-> [-> Ho1]]. rewrite N.add_0_r.
      cbn [orb].
      destruct l as [|b l].
      * destruct (parser sts (fed ++ [[]]));
          intros E; inversion E; subst; repeat split; first [reflexivity | assumption].
      * destruct (parser sts (fed ++ [b :: l])) eqn:Ep;
          try (intros E; inversion E; subst; repeat split; first [reflexivity | assumption]).
        intros E. eapply IH; eassumption.
Qed.

Lemma nested_parse_leaves_stdin_lemma parser fuel0 pf0 lvl pf sts pend fed s (d : dev) off eof ph fed' s' d' off' eof' :
  s <> SrcStdin ->
  parse_phase (byte_ops_at parser fuel0 pf0 lvl) parser pf sts pend fed s d off eof
    = (ph, (fed', s', d', off', eof')) ->
  d' = d /\ off' = off /\ s' <> SrcStdin.
Proof.
  intros Ho. unfold parse_phase. destruct pend.
  - destruct (parser sts fed) eqn:Ep;
      try (intros E; inversion E; subst; repeat split; first [reflexivity | assumption]).
    intros E. eapply pull_loop_own; eassumption.
  - intros E. eapply pull_loop_own; eassumption.
Qed.

Lemma mkX_eta {I} (x : xstate (I:=I)) : mkX (x_sh x) (x_in x) (x_off x) (x_evs x) = x.
Proof. destruct x; reflexivity. Qed.

(* One iteration of a nested loop: the command is parsed in the parser state
   (aliases, options) the commands before it left, parsing takes nothing from
   standard input, and the command then runs on the state as it was. *)
Lemma nested_iteration_lemma parser fuel0 pf0 lvl pf (m m' : mstate (I:=dev) (SRC:=source)) :
  m_src m <> SrcStdin ->
  iterx (byte_ops_at parser fuel0 pf0 lvl) parser pf m = inl m' ->
  exists c p fed' src' eof',
    parse_phase (byte_ops_at parser fuel0 pf0 lvl) parser pf
      ((if m_pend m then m_hist m else []) ++ [s_ps (x_sh (m_x m))]) (m_pend m) (m_fed m)
      (m_src m) (x_in (m_x m)) (x_off (m_x m)) (m_eof m)
    = (PhDone (PComplete c p), (fed', src', x_in (m_x m), x_off (m_x m), eof')) /\
    exec (byte_ops_at parser fuel0 pf0 lvl) c (m_x m) = (m_x m', false) /\
    m_src m' = src' /\ src' <> SrcStdin.
Proof.
  intros Ho. unfold iterx.
  destruct (parse_phase _ parser pf _ (m_pend m) (m_fed m) (m_src m) (x_in (m_x m)) (x_off (m_x m)) (m_eof m))
    as [ph [[[[fed' src'] d'] off'] eof']] eqn:Ep.
  destruct (nested_parse_leaves_stdin_lemma _ _ _ _ _ _ _ _ _ _ _ _ _ _ _ _ _ _ Ho Ep) as [-> [-> Ho']].
  rewrite mkX_eta.
  destruct ph as [r| |]; try discriminate. destruct r as [|c p| | |]; try discriminate.
  destruct (exec _ c (m_x m)) as [x2 ex] eqn:Ex. destruct ex; [discriminate|].
  intros E. inversion E; subst m'. cbn [m_x m_src].
  exists c, p, fed', src', eof'. repeat split; first [reflexivity | assumption].
Qed.

Lemma iterx_n_own parser fuel0 pf0 lvl pf (k : nat) : forall (m m' : mstate (I:=dev) (SRC:=source)),
  m_src m <> SrcStdin ->
  iterx_n (byte_ops_at parser fuel0 pf0 lvl) parser k pf m = inl m' -> m_src m' <> SrcStdin.
Proof.
  induction k as [|k IH]; intros m m' Ho; cbn [iterx_n].
  - intros E. inversion E; subst. exact Ho.
  - destruct (iterx _ parser pf m) as [m1|r] eqn:Ei; [|discriminate].
    destruct (nested_iteration_lemma _ _ _ _ _ _ _ Ho Ei) as [c [p [fed' [src' [eof' [_ [_ [Hs Ho']]]]]]]].
    intros E. eapply IH; [|exact E]. rewrite Hs. exact Ho'.
Qed.

Lemma loopx_iterx_n {I SRC} (ops : input_ops I SRC) parser (k : nat) : forall fuel pf m mk r,
  iterx_n ops parser k pf m = inl mk -> iterx ops parser pf mk = inr r -> (k < fuel)%nat ->
  loopx ops parser fuel pf m = r.
Proof.
  induction k as [|k IH]; intros fuel pf m mk r; cbn [iterx_n].
  - intros E Hr Hf. inversion E; subst. destruct fuel; [lia|]. cbn [loopx]. now rewrite Hr.
  - destruct (iterx ops parser pf m) as [m1|r1] eqn:Ei; [|discriminate].
    intros E Hr Hf. destruct fuel; [lia|]. cbn [loopx]. rewrite Ei. eapply IH; try eassumption. lia.
Qed.

Lemma byte_src_own s : byte_src s <> SrcStdin.
Proof. destruct s; discriminate. Qed.

(* A syntax error at the (k+1)-th command of a nested text: the nested loop
   stops there; the built-in hands back exactly the state the k commands
   before it left (all their effects, the position of standard input
   included), as an interrupt with exit status 2. *)
Lemma nested_syntax_error_lemma parser lvl fuel pf s (x : xstate (I:=dev)) (k : nat) m :
  nsrc_empty s = false -> (k < fuel)%nat ->
  iterx_n (byte_ops_at parser fuel pf lvl) parser k pf (mkM x (byte_src s) false false [] []) = inl m ->
  (exists y, iterx (byte_ops_at parser fuel pf lvl) parser pf m = inr (FSyntax, y)) ->
  op_nest (byte_ops_at parser fuel pf (S lvl)) s x = (with_status (ST_INTR + 2) (m_x m), true).
Proof.
  intros He Hk Hn [y Hy]. cbn [byte_ops_at op_nest]. unfold nest_with. rewrite He.
  rewrite (loopx_iterx_n _ parser k fuel pf _ m _ Hn Hy Hk).
  assert (Ho : m_src m <> SrcStdin).
  { eapply iterx_n_own; [|exact Hn]. cbn [m_src]. apply byte_src_own. }
  revert Hy. unfold iterx.
  destruct (parse_phase _ parser pf _ (m_pend m) (m_fed m) (m_src m) (x_in (m_x m)) (x_off (m_x m)) (m_eof m))
    as [ph [[[[fed' src'] d'] off'] eof']] eqn:Ep.
  destruct (nested_parse_leaves_stdin_lemma _ _ _ _ _ _ _ _ _ _ _ _ _ _ _ _ _ _ Ho Ep) as [-> [-> Ho']].
  rewrite mkX_eta.
  destruct ph as [r| |]; try discriminate. destruct r as [|c p| | |]; try discriminate.
  - destruct (exec _ c (m_x m)) as [x2 ex]. destruct ex; discriminate.
  - intros E. inversion E; subst y. cbn [nest_result]. reflexivity.
Qed.

(* ------------------------------------------------------------------ *)
(* Scripts without eval / dot run alike at every level: everything proved
   about [model_run] holds for the nested model on them.                *)

Fixpoint nest_free (c : cmd) : bool :=
  match c with
  | CNest _ => false
  | CSeq a b | CAnd a b | COr a b => nest_free a && nest_free b
  | CNot a | CSub a => nest_free a
  | CIf a b c => nest_free a && nest_free b && nest_free c
  | _ => true
  end.

Definition parser_nest_free (parser : list pstate -> list line -> pres) : Prop :=
  forall sts fed c p, parser sts fed = PComplete c p -> nest_free c = true.

Lemma exec_nest_free parser fuel pf lvl (c : cmd) : forall x, nest_free c = true ->
  exec (byte_ops_at parser fuel pf lvl) c x = exec byte_ops c x.
Proof.
  induction c; intros x Hf; cbn [nest_free] in Hf;
    repeat match goal with H : _ && _ = true |- _ => apply andb_true_iff in H; destruct H end;
    try discriminate; try (destruct lvl; reflexivity); cbn [exec].
  - rewrite IHc1 by assumption. destruct (exec byte_ops c1 x) as [x1 e]. destruct e; [reflexivity|].
    now apply IHc2.
  - rewrite IHc1 by assumption. destruct (exec byte_ops c1 x) as [x1 e]. destruct e; [reflexivity|].
    destruct (N.eqb (x_status x1) 0); [now apply IHc2 | reflexivity].
  - rewrite IHc1 by assumption. destruct (exec byte_ops c1 x) as [x1 e]. destruct e; [reflexivity|].
    destruct (N.eqb (x_status x1) 0); [reflexivity | now apply IHc2].
  - rewrite IHc by assumption. reflexivity.
  - rewrite IHc1 by assumption. destruct (exec byte_ops c1 x) as [x1 e]. destruct e; [reflexivity|].
    destruct (N.eqb (x_status x1) 0); [now apply IHc2 | now apply IHc3].
  - rewrite IHc by assumption. reflexivity.
Qed.

Lemma at_parse_phase parser fuel0 pf0 lvl pf sts pend fed s (d : dev) off eof :
  parse_phase (byte_ops_at parser fuel0 pf0 lvl) parser pf sts pend fed s d off eof
  = parse_phase byte_ops parser pf sts pend fed s d off eof.
Proof. destruct lvl; reflexivity. Qed.

Lemma pull_loop_result {I SRC} (ops : input_ops I SRC) parser (fuel : nat) :
  forall sts fed s i off eof r st,
  pull_loop ops parser fuel sts fed s i off eof = (PhDone r, st) -> exists fed', parser sts fed' = r.
Proof.
  induction fuel as [|f IH]; intros sts fed s i off eof r st; cbn [pull_loop]; [discriminate|].
  destruct (if eof then ([], s, i, 0) else op_pull ops s i) as [[[ln s'] i'] n].
  destruct (parser sts (fed ++ [ln])) eqn:Ep;
    try (intros E; inversion E; subst; eexists; exact Ep).
  destruct (eof || match ln with [] => true | _ :: _ => false end); [discriminate|].
  apply IH.
Qed.

Lemma parse_phase_result {I SRC} (ops : input_ops I SRC) parser pf sts pend fed s i off eof r st :
  parse_phase ops parser pf sts pend fed s i off eof = (PhDone r, st) -> exists fed', parser sts fed' = r.
Proof.
  unfold parse_phase. destruct pend; [|apply pull_loop_result].
  destruct (parser sts fed) eqn:Ep; try (intros E; inversion E; subst; eexists; exact Ep).
  apply pull_loop_result.
Qed.

Lemma iter_nest_free parser fuel0 pf0 lvl pf m : parser_nest_free parser ->
  iter (byte_ops_at parser fuel0 pf0 lvl) parser pf m = iter byte_ops parser pf m.
Proof.
  intros Hp. unfold iter. rewrite at_parse_phase.
  destruct (parse_phase byte_ops parser pf _ (m_pend m) (m_fed m) (m_src m) (x_in (m_x m))
              (x_off (m_x m)) (m_eof m)) as [ph [[[[fed' src'] d'] off'] eof']] eqn:Ep.
  destruct ph as [r| |]; try reflexivity. destruct r as [|c p| | |]; try reflexivity.
  destruct (parse_phase_result _ _ _ _ _ _ _ _ _ _ _ _ Ep) as [fd Hr].
  rewrite (exec_nest_free parser fuel0 pf0 lvl c _ (Hp _ _ _ _ Hr)). reflexivity.
Qed.

Lemma loop_nest_free parser fuel0 pf0 lvl pf (n : nat) : parser_nest_free parser -> forall m,
  loop (byte_ops_at parser fuel0 pf0 lvl) parser n pf m = loop byte_ops parser n pf m.
Proof.
  intros Hp. induction n as [|n IH]; intros m; cbn [loop]; [reflexivity|].
  rewrite (iter_nest_free parser fuel0 pf0 lvl pf m Hp).
  destruct (iter byte_ops parser pf m) as [m'|r]; [apply IH | reflexivity].
Qed.

Lemma nested_conservative_lemma parser lvl fuel pf src d : parser_nest_free parser ->
  nmodel_run parser lvl fuel pf src d = model_run parser fuel pf src d.
Proof. intros Hp. unfold nmodel_run, model_run, run. now apply loop_nest_free. Qed.
