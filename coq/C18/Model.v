(* C18 — executable model of how the shell consumes its input.

   Anchors (yash-rs):
     yash-env/src/input/fd_reader_2.rs   FdReader2::next_line   -> [next_line]
     yash-syntax/src/input.rs            Memory::next_line      -> [SrcMem] in [byte_pull]
     yash-builtin/src/read/input.rs      read / read_char       -> [read_text]
     yash-syntax/src/parser/lex/core.rs  LexerCore::peek_char / pending / flush
                                                                -> [pull_loop] (fed, eof)
     yash-semantics/src/runner.rs        read_eval_loop_impl    -> [iter], [loop]
     yash-cli/src/startup/input.rs       prepare_input          -> [source]
     yash-builtin/src/eval.rs            main (Memory input, RunReadEvalLoop)
     yash-builtin/src/source/semantics.rs  Command::execute (FdReader2 on a new descriptor)
                                                                -> [CNest], [op_nest], [nest_with],
                                                                   [loopx], [byte_ops_at]

   The kernel side is a descriptor whose remaining data is a list of chunks
   ([dev]); one [read] of one byte returns the first byte of the first
   non-empty chunk, and 0 bytes only at the very end.  Every reader of the
   implementation asks for exactly one byte per [read] call, so each reader is
   a byte-at-a-time state machine ([scan]).

   The parser is a parameter: [parser sts fed] says what `Parser::command_line`
   does when the lines [fed] (in order; [[]] stands for the end of input) are
   all the lexer has been given since it was last flushed, and [sts] are the
   parser-relevant shell states of the calls made on them (the last one is
   the current call's). *)
From Yv Require Import Common.Base.
Local Open Scope N_scope.

Definition line := list N.
Definition NL : N := 10.
Definition BSL : N := 92.

(* ------------------------------------------------------------------ *)
(* Commands (the part of the language the scripts of the check use).   *)

(* The input of a nested read-eval loop: `eval` runs the loop over a Memory
   input holding the joined operands (lines as Memory::next_line cuts them);
   `.` runs it over FdReader2 on a descriptor the built-in opens on the file
   (yash-builtin/src/source/semantics.rs), whose bytes are given here. *)
Inductive nsrc := NMem (ls : list line) | NFile (b : list N).

Inductive cmd :=
| CNop                                  (* empty line / comment *)
| CStatus (n : N)                       (* true, false, unknown utility (127) *)
| CProbe (args : list str)              (* probe ARGS: records args, $?, offset *)
| CShow (v : str)                       (* show V: records the value of $V *)
| CRead (raw : bool) (d : N) (v : str)  (* read [-r] [-d D] V; d = delimiter byte *)
| CSlurp                                (* slurp: reads standard input to its end *)
| CHere (content : str)                 (* hdoc <<E ... : records the here-document *)
| CAlias (name value : str)             (* alias name=value *)
| CUnalias (name : str)                 (* unalias name *)
| CPortable (on : bool)                 (* set -o/+o portable *)
| CExit (n : option N)                  (* exit [n] *)
| CSeq (a b : cmd)
| CAnd (a b : cmd)
| COr (a b : cmd)
| CNot (a : cmd)
| CIf (c t e : cmd)
| CSub (a : cmd)                        (* ( a ) *)
| CNest (s : nsrc).                     (* eval TEXT / . FILE: a nested read-eval loop *)

(* The part of the shell state the parser reads, re-read at every iteration
   of the read-eval loop. *)
Record pstate := mkP { p_aliases : list (str * str); p_portable : bool }.

Inductive pres :=
| PNeedMore                 (* wants another line *)
| PComplete (c : cmd) (pend : bool)
                            (* Ok(Some(list)); pend = Lexer::pending() afterwards:
                               text is left in the line buffer (an alias whose
                               value contains a newline was substituted) *)
| PError                    (* Err(syntax error) *)
| PEnd                      (* Ok(None) *)
| PUnknown.                 (* not in the table (run-time instantiation only) *)

Record sh := mkSh { s_ps : pstate; s_vars : list (str * str); s_status : N }.

(* kind: 0 probe, 1 show, 2 slurp, 3 hdoc; status = $? on entry;
   off = bytes consumed from standard input so far (0 for hdoc). *)
Inductive event := Ev (kind : N) (args : list str) (status : N) (off : N).

(* ------------------------------------------------------------------ *)
(* Small helpers.                                                      *)

Fixpoint str_ltb (a b : str) : bool :=
  match a, b with
  | [], [] => false
  | [], _ :: _ => true
  | _ :: _, [] => false
  | x :: a', y :: b' => if N.ltb x y then true else if N.eqb x y then str_ltb a' b' else false
  end.

(* alias table kept sorted by name, one entry per name *)
Fixpoint set_alias (n v : str) (l : list (str * str)) : list (str * str) :=
  match l with
  | [] => [(n, v)]
  | (n', v') :: l' =>
      if str_eqb n n' then (n, v) :: l'
      else if str_ltb n n' then (n, v) :: l
      else (n', v') :: set_alias n v l'
  end.

Fixpoint set_var (n v : str) (l : list (str * str)) : list (str * str) :=
  match l with
  | [] => [(n, v)]
  | (n', v') :: l' => if str_eqb n n' then (n, v) :: l' else (n', v') :: set_var n v l'
  end.

Fixpoint get_var (n : str) (l : list (str * str)) : str :=
  match l with
  | [] => []
  | (n', v') :: l' => if str_eqb n n' then v' else get_var n l'
  end.

Fixpoint del_alias (n : str) (l : list (str * str)) : list (str * str) :=
  match l with
  | [] => []
  | (n', v') :: l' => if str_eqb n n' then l' else (n', v') :: del_alias n l'
  end.

Definition has_alias (n : str) (l : list (str * str)) : bool :=
  existsb (fun p => str_eqb n (fst p)) l.

(* default IFS white space *)
Definition is_blank (c : N) : bool := N.eqb c 32 || N.eqb c 9 || N.eqb c 10.

(* what `read` assigns to a single variable: unquoted leading and trailing
   blanks removed (default IFS), quoting removed *)
Fixpoint drop_blanks (l : list (N * bool)) : list (N * bool) :=
  match l with
  | (c, false) :: l' => if is_blank c then drop_blanks l' else l
  | _ => l
  end.

Definition read_value (cs : list (N * bool)) : str :=
  map fst (rev (drop_blanks (rev (drop_blanks cs)))).

Definition nlen {A} (l : list A) : N := N.of_nat (length l).

(* ------------------------------------------------------------------ *)
(* Kernel side: a descriptor and byte-at-a-time readers.               *)

Definition dev := list (list N).

(* one read(fd, buf, 1): *)
Fixpoint read_byte (d : dev) : option N * dev :=
  match d with
  | [] => (None, [])
  | [] :: d' => read_byte d'
  | (b :: c) :: d' => (Some b, c :: d')
  end.

Section Scan.
  (* A reader: a state machine fed one byte per read call; [step s b] gives
     the next state and whether the reader stops after this byte. *)
  Context {S : Type} (step : S -> N -> S * bool).

  Fixpoint scan_chunk (s : S) (c : list N) : S * option (list N) :=
    match c with
    | [] => (s, None)
    | b :: c' => let (s', stop) := step s b in
                 if stop then (s', Some c') else scan_chunk s' c'
    end.

  (* result: final state, whether it stopped by itself (false: end of data),
     what is left in the descriptor *)
  Fixpoint scan (s : S) (d : dev) : S * bool * dev :=
    match d with
    | [] => (s, false, [])
    | c :: d' =>
        match scan_chunk s c with
        | (s', Some rest) => (s', true, rest :: d')
        | (s', None) => scan s' d'
        end
    end.
End Scan.

(* FdReader2::next_line: push the byte; stop after a newline. *)
Definition nl_step (acc : list N) (b : N) : list N * bool := (acc ++ [b], N.eqb b NL).

Definition next_line (d : dev) : line * dev :=
  let '(l, _, d') := scan nl_step [] d in (l, d').

(* read built-in, yash-builtin/src/read/input.rs [read] with delimiter [d];
   state: characters so far (value, quoted), "after a backslash", bytes
   consumed.  The arms are in the order of the Rust match: the delimiter is
   tested before the backslash (so with delimiter = backslash no escape is
   recognised); after a backslash the next character is taken literally, even
   the delimiter, except that backslash-newline is a line continuation. *)
Definition read_step (raw : bool) (d : N) (s : list (N * bool) * bool * N) (b : N)
  : (list (N * bool) * bool * N) * bool :=
  let '(acc, esc, n) := s in
  if esc then
    if N.eqb b NL then ((acc, false, n + 1), false)           (* line continuation *)
    else ((acc ++ [(b, true)], false, n + 1), false)
  else if N.eqb b d then ((acc, false, n + 1), true)
  else if negb raw && N.eqb b BSL then ((acc, true, n + 1), false)
  else ((acc ++ [(b, false)], false, n + 1), false).

(* characters, delimiter found, rest of the descriptor, bytes consumed *)
Definition read_text (raw : bool) (d : N) (dv : dev) : list (N * bool) * bool * dev * N :=
  let '((acc, _, n), found, d') := scan (read_step raw d) ([], false, 0) dv in
  (acc, found, d', n).

Definition slurp_step (acc : list N) (b : N) : list N * bool := (acc ++ [b], false).

Definition slurp_all (d : dev) : str * dev * N :=
  let '(acc, _, d') := scan slurp_step [] d in (acc, d', nlen acc).

(* ------------------------------------------------------------------ *)
(* The machine, generic in how input is represented.                   *)

Record xstate {I : Type} := mkX { x_sh : sh; x_in : I; x_off : N; x_evs : list event }.

Arguments mkX {I}.
Arguments x_sh {I}.
Arguments x_in {I}.
Arguments x_off {I}.
Arguments x_evs {I}.

Section XState.
  Context {I : Type}.
  Local Notation xstate := (@xstate I).
  Definition x_status (x : xstate) : N := s_status (x_sh x).
  Definition with_status (n : N) (x : xstate) : xstate :=
    mkX (mkSh (s_ps (x_sh x)) (s_vars (x_sh x)) n) (x_in x) (x_off x) (x_evs x).
  Definition emit (kind : N) (args : list str) (off : N) (x : xstate) : xstate :=
    mkX (x_sh x) (x_in x) (x_off x) (x_evs x ++ [Ev kind args (x_status x) off]).
End XState.

(* How a command that ran a nested loop ends is carried by the exit flag and
   the exit status: statuses of real commands are below 256;
   256 + s: the nested loop was interrupted with status s (syntax error in the
            nested text: Divert::Interrupt(Some(ExitStatus::ERROR)), s = 2);
   512 + t: the model cannot say (t = 3 stuck, 4 parser table has no entry,
            5 out of fuel / nesting deeper than the level of the model). *)
Definition ST_INTR : N := 256.
Definition ST_ABN : N := 512.

(* nesting level exhausted: the distinct out-of-fuel value of [exec] *)
Definition nest_stub {I : Type} (s : nsrc) (x : @xstate I) : @xstate I * bool :=
  (with_status (ST_ABN + 5) x, true).

Record input_ops (I SRC : Type) := mkOps {
  (* script source, standard input -> line ([] = end), new source, new
     standard input, bytes taken from standard input *)
  op_pull : SRC -> I -> line * SRC * I * N;
  op_read : bool -> N -> I -> list (N * bool) * bool * I * N;
  op_slurp : I -> str * I * N;
  (* eval / dot: runs the nested read-eval loop on the given input *)
  op_nest : nsrc -> @xstate I -> @xstate I * bool
}.
Arguments op_pull {I SRC}.
Arguments op_read {I SRC}.
Arguments op_slurp {I SRC}.
Arguments op_nest {I SRC}.

(* Where the script comes from (yash-cli/src/startup/input.rs). *)
Inductive source :=
| SrcStdin                  (* Source::Stdin: FdReader2 on descriptor 0 *)
| SrcOwn (d : dev)          (* Source::File: FdReader2 on a descriptor of its own *)
| SrcMem (ls : list line)   (* Source::String: Memory (split_inclusive '\n') *)
| SrcInput (ps : dev).      (* any other Input: next_line returns the pieces [ps] in turn, which
                               need not end at a newline, then "" for the end of input.  The
                               lexer's line buffer (LexerCore::peek_char) appends every piece and
                               asks again as long as the parser needs a character, so what the
                               parser sees is the concatenation: the pieces are assembled into
                               lines exactly like the chunks of a descriptor. *)

Definition byte_pull (s : source) (i : dev) : line * source * dev * N :=
  match s with
  | SrcStdin => let (l, i') := next_line i in (l, SrcStdin, i', nlen l)
  | SrcOwn d => let (l, d') := next_line d in (l, SrcOwn d', i, 0%N)
  | SrcInput d => let (l, d') := next_line d in (l, SrcInput d', i, 0%N)
  | SrcMem [] => ([], SrcMem [], i, 0%N)
  | SrcMem (l :: ls) => (l, SrcMem ls, i, 0%N)
  end.

Definition byte_ops : input_ops dev source := mkOps dev source byte_pull read_text slurp_all nest_stub.

Inductive ftag := FEnd | FSyntax | FExit | FStuck | FUnknown | FOutOfFuel.

Record final := mkFinal { f_tag : ftag; f_status : N; f_off : N; f_evs : list event }.

Section Machine.
  (* [parser sts fed]: sts = the parser states (aliases, options) of the
     command_line calls made since the lexer was last flushed, the current
     one last; fed = the lines pulled since then. *)
  Context {I SRC : Type} (ops : input_ops I SRC) (parser : list pstate -> list line -> pres).

  Local Notation xstate := (@xstate I).

  (* result: new state, true if the shell exits *)
  Fixpoint exec (c : cmd) (x : xstate) : xstate * bool :=
    match c with
    | CNop => (x, false)
    | CStatus n => (with_status n x, false)
    | CProbe args => (with_status 0 (emit 0 args (x_off x) x), false)
    | CShow v => (with_status 0 (emit 1 [get_var v (s_vars (x_sh x))] (x_off x) x), false)
    | CRead raw d v =>
        let '(cs, found, i', n) := op_read ops raw d (x_in x) in
        let s := x_sh x in
        (* "input contains a nul byte": nothing is assigned, exit status 3 *)
        if existsb (fun c => N.eqb (fst c) 0) cs then
          (mkX (mkSh (s_ps s) (s_vars s) 3) i' (x_off x + n) (x_evs x), false)
        else
        (mkX (mkSh (s_ps s) (set_var v (read_value cs) (s_vars s)) (if found then 0 else 1))
             i' (x_off x + n) (x_evs x), false)
    | CSlurp =>
        let '(content, i', n) := op_slurp ops (x_in x) in
        let x1 := emit 2 [content] (x_off x) x in
        (with_status 0 (mkX (x_sh x1) i' (x_off x + n) (x_evs x1)), false)
    | CHere content => (with_status 0 (emit 3 [content] 0 x), false)
    | CAlias n v =>
        let s := x_sh x in
        (mkX (mkSh (mkP (set_alias n v (p_aliases (s_ps s))) (p_portable (s_ps s))) (s_vars s) 0)
             (x_in x) (x_off x) (x_evs x), false)
    | CUnalias n =>
        let s := x_sh x in
        (mkX (mkSh (mkP (del_alias n (p_aliases (s_ps s))) (p_portable (s_ps s))) (s_vars s)
                   (if has_alias n (p_aliases (s_ps s)) then 0 else 1))
             (x_in x) (x_off x) (x_evs x), false)
    | CPortable b =>
        let s := x_sh x in
        (mkX (mkSh (mkP (p_aliases (s_ps s)) b) (s_vars s) 0) (x_in x) (x_off x) (x_evs x), false)
    | CExit None => (x, true)
    | CExit (Some n) => (with_status n x, true)
    | CSeq a b => let (x1, e) := exec a x in if e then (x1, true) else exec b x1
    | CAnd a b =>
        let (x1, e) := exec a x in
        if e then (x1, true) else if N.eqb (x_status x1) 0 then exec b x1 else (x1, false)
    | COr a b =>
        let (x1, e) := exec a x in
        if e then (x1, true) else if N.eqb (x_status x1) 0 then (x1, false) else exec b x1
    | CNot a =>
        let (x1, e) := exec a x in
        if e then (x1, true)
        else (with_status (if N.eqb (x_status x1) 0 then 1 else 0) x1, false)
    | CIf c t e =>
        let (x1, ex) := exec c x in
        if ex then (x1, true) else if N.eqb (x_status x1) 0 then exec t x1 else exec e x1
    | CSub a =>
        (* a forked copy of the shell state; descriptor and records are shared *)
        let (x1, _) := exec a x in
        (mkX (mkSh (s_ps (x_sh x)) (s_vars (x_sh x)) (x_status x1)) (x_in x1) (x_off x1) (x_evs x1),
         false)
    | CNest s => op_nest ops s x
    end.

  (* The state of the read-eval loop between two iterations.  [m_eof] is
     LexerCore's InputState::EndOfInput.  [m_pend] is Lexer::pending(): when
     true the loop does not flush the line buffer, [m_fed] are the lines
     pulled since the last flush and [m_hist] the parser states of the
     command_line calls made on them; otherwise both are empty. *)
  Record mstate := mkM { m_x : xstate; m_src : SRC; m_eof : bool;
                         m_pend : bool; m_fed : list line; m_hist : list pstate }.

  Inductive phase := PhDone (r : pres) | PhStuck | PhOutOfFuel.

  (* Parser::command_line seen from the line buffer: whenever the parser needs
     a character and the buffer is exhausted, LexerCore::peek_char pulls one
     line (or reports the end of input again, without reading, once it has
     been seen).  Returns the lines in the buffer afterwards as well. *)
  Fixpoint pull_loop (fuel : nat) (sts : list pstate) (fed : list line)
      (src : SRC) (inp : I) (off : N) (eof : bool)
      : phase * (list line * SRC * I * N * bool) :=
    match fuel with
    | O => (PhOutOfFuel, (fed, src, inp, off, eof))
    | S f =>
        let '(ln, src', inp', n) :=
          if eof then ([], src, inp, 0%N) else op_pull ops src inp in
        let eof' := eof || match ln with [] => true | _ => false end in
        let fed' := fed ++ [ln] in
        match parser sts fed' with
        | PNeedMore =>
            if eof' then (PhStuck, (fed', src', inp', off + n, eof'))
            else pull_loop f sts fed' src' inp' (off + n) eof'
        | r => (PhDone r, (fed', src', inp', off + n, eof'))
        end
    end.

  (* With text pending in the buffer the parser is first run on what is
     there; it pulls only if that is not enough. *)
  Definition parse_phase (pf : nat) (sts : list pstate) (pend : bool) (fed : list line)
      (src : SRC) (inp : I) (off : N) (eof : bool)
      : phase * (list line * SRC * I * N * bool) :=
    if pend then
      match parser sts fed with
      | PNeedMore => pull_loop pf sts fed src inp off eof
      | r => (PhDone r, (fed, src, inp, off, eof))
      end
    else pull_loop pf sts [] src inp off eof.

  Definition finish (t : ftag) (status : N) (x : xstate) : final :=
    mkFinal t status (x_off x) (x_evs x).

  (* one iteration of read_eval_loop_impl *)
  Definition iter (pf : nat) (m : mstate) : mstate + final :=
    let x := m_x m in
    (* if !lexer.pending() { lexer.flush() }; lexer.set_mode(options); aliases(env) *)
    let sts := (if m_pend m then m_hist m else []) ++ [s_ps (x_sh x)] in
    let '(ph, (fed', src', inp', off', eof')) :=
      parse_phase pf sts (m_pend m) (m_fed m) (m_src m) (x_in x) (x_off x) (m_eof m) in
    let x' := mkX (x_sh x) inp' off' (x_evs x) in
    match ph with
    | PhDone (PComplete c pend) =>
        let (x2, exited) := exec c x' in
        if exited then inr (finish FExit (x_status x2) x2)
        else inl (mkM x2 src' eof' pend (if pend then fed' else []) (if pend then sts else []))
    | PhDone PEnd => inr (finish FEnd (x_status x') x')
    | PhDone PError => inr (finish FSyntax 2 x')
    | PhDone PUnknown => inr (finish FUnknown 0 x')
    | PhDone PNeedMore => inr (finish FStuck 0 x')
    | PhStuck => inr (finish FStuck 0 x')
    | PhOutOfFuel => inr (finish FOutOfFuel 0 x')
    end.

  Fixpoint loop (fuel pf : nat) (m : mstate) : final :=
    match fuel with
    | O => finish FOutOfFuel 0 (m_x m)
    | S f => match iter pf m with
             | inl m' => loop f pf m'
             | inr r => r
             end
    end.

  (* The same loop, returning the whole state it ends in (what a nested loop
     hands back to the command that ran it). *)
  Definition iterx (pf : nat) (m : mstate) : mstate + (ftag * xstate) :=
    let x := m_x m in
    let sts := (if m_pend m then m_hist m else []) ++ [s_ps (x_sh x)] in
    let '(ph, (fed', src', inp', off', eof')) :=
      parse_phase pf sts (m_pend m) (m_fed m) (m_src m) (x_in x) (x_off x) (m_eof m) in
    let x' := mkX (x_sh x) inp' off' (x_evs x) in
    match ph with
    | PhDone (PComplete c pend) =>
        let (x2, exited) := exec c x' in
        if exited then inr (FExit, x2)
        else inl (mkM x2 src' eof' pend (if pend then fed' else []) (if pend then sts else []))
    | PhDone PEnd => inr (FEnd, x')
    | PhDone PError => inr (FSyntax, with_status 2 x')
    | PhDone PUnknown => inr (FUnknown, with_status 0 x')
    | PhDone PNeedMore => inr (FStuck, with_status 0 x')
    | PhStuck => inr (FStuck, with_status 0 x')
    | PhOutOfFuel => inr (FOutOfFuel, with_status 0 x')
    end.

  Fixpoint loopx (fuel pf : nat) (m : mstate) : ftag * xstate :=
    match fuel with
    | O => (FOutOfFuel, with_status 0 (m_x m))
    | S f => match iterx pf m with
             | inl m' => loopx f pf m'
             | inr r => r
             end
    end.

  Fixpoint iterx_n (n pf : nat) (m : mstate) : mstate + (ftag * xstate) :=
    match n with
    | O => inl m
    | S k => match iterx pf m with
             | inl m' => iterx_n k pf m'
             | inr r => inr r
             end
    end.

  (* the state after [n] complete iterations, if the loop gets that far *)
  Fixpoint iter_n (n pf : nat) (m : mstate) : mstate + final :=
    match n with
    | O => inl m
    | S k => match iter pf m with
             | inl m' => iter_n k pf m'
             | inr r => inr r
             end
    end.

  Definition init (src : SRC) (inp : I) : mstate :=
    mkM (mkX (mkSh (mkP [] false) [] 0) inp 0 []) src false false [] [].

  Definition run (fuel pf : nat) (src : SRC) (inp : I) : final :=
    loop fuel pf (init src inp).
End Machine.

Arguments mkM {I SRC}.
Arguments m_x {I SRC}.
Arguments m_src {I SRC}.
Arguments m_eof {I SRC}.
Arguments m_pend {I SRC}.
Arguments m_fed {I SRC}.
Arguments m_hist {I SRC}.

(* ------------------------------------------------------------------ *)
(* Nested read-eval loops (yash-builtin/src/eval.rs, source/semantics.rs):
   the built-in builds a NEW lexer on its own input and runs the same
   read_eval_loop on the same environment; standard input is not touched by
   the nested lexer, only by the commands it runs.  What the loop returns
   becomes the built-in's result: Continue -> the exit status the loop left
   (0 if the input was empty: `executed` is false), Break(divert) -> passed on. *)
Definition nest_result {I : Type} (r : ftag * @xstate I) : @xstate I * bool :=
  let (t, x) := r in
  match t with
  | FEnd => (x, false)
  | FExit => (x, true)
  | FSyntax => (with_status (ST_INTR + x_status x) x, true)
  | FStuck => (with_status (ST_ABN + 3) x, true)
  | FUnknown => (with_status (ST_ABN + 4) x, true)
  | FOutOfFuel => (with_status (ST_ABN + 5) x, true)
  end.

Definition nsrc_empty (s : nsrc) : bool :=
  match s with NMem [] | NFile [] => true | _ => false end.

Definition nest_with {I SRC : Type} (ops : input_ops I SRC)
    (parser : list pstate -> list line -> pres) (mksrc : nsrc -> SRC) (fuel pf : nat)
    (s : nsrc) (x : @xstate I) : @xstate I * bool :=
  if nsrc_empty s then (with_status 0 x, false)
  else nest_result (loopx ops parser fuel pf (mkM x (mksrc s) false false [] [])).

Definition byte_src (s : nsrc) : source :=
  match s with NMem ls => SrcMem ls | NFile b => SrcOwn [b] end.

(* level 0 = [byte_ops]: nested loops are not entered; level S k runs them
   with the operations of level k *)
Fixpoint byte_ops_at (parser : list pstate -> list line -> pres) (fuel pf lvl : nat)
  : input_ops dev source :=
  mkOps dev source byte_pull read_text slurp_all
    (match lvl with
     | O => nest_stub
     | S k => nest_with (byte_ops_at parser fuel pf k) parser byte_src fuel pf
     end).

Definition nmodel_run (parser : list pstate -> list line -> pres) (lvl fuel pf : nat)
    (src : source) (stdin : dev) : final :=
  run (byte_ops_at parser fuel pf lvl) parser fuel pf src stdin.

(* The MODEL: the machine over chunked descriptors read byte by byte. *)
Definition model_run (parser : list pstate -> list line -> pres) (fuel pf : nat)
    (src : source) (stdin : dev) : final :=
  run byte_ops parser fuel pf src stdin.
