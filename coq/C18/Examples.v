(* C18 — concrete instances showing that the hypotheses of the theorems are
   satisfiable by non-trivial scripts (non-vacuity), with a toy parser:
     p...   probe        r...  read -r v      s...  slurp      )...  syntax error
     {      opens a group that extends to the line starting with }          *)
From Yv Require Import Common.Base C18.Model C18.Spec C18.Run.
Local Open Scope N_scope.

Definition toy_simple (l : line) : option cmd :=
  match l with
  | [] => Some CNop
  | b :: _ =>
      if N.eqb b 112 then Some (CProbe [[112]])
      else if N.eqb b 114 then Some (CRead true NL [118])
      else if N.eqb b 115 then Some CSlurp
      else if N.eqb b 41 then None
      else Some CNop
  end.

Fixpoint toy_group (ls : list line) (acc : cmd) : pres :=
  match ls with
  | [] => PNeedMore
  | [] :: _ => PError                          (* end of input inside a group *)
  | (b :: l) :: ls' =>
      if N.eqb b 125 then PComplete acc false
      else match toy_simple (b :: l) with
           | Some c => toy_group ls' (CSeq acc c)
           | None => PError
           end
  end.

Definition toy (sts : list pstate) (fed : list line) : pres :=
  match fed with
  | [] => PUnknown
  | [[]] => PEnd
  | [] :: _ => PUnknown
  | (b :: l) :: rest =>
      if N.eqb b 123 then toy_group rest CNop
      else match rest with
           | [] => match toy_simple (b :: l) with Some c => PComplete c false | None => PError end
           | _ => PUnknown
           end
  end.

Example toy_ends_at_eof : ends_at_eof toy.
Proof. intros st. exact I. Qed.

(* "{\np\nr\n}\nxy\ns\nrest" : a three-line group whose read takes the line
   after the group, then slurp takes the rest *)
Definition ex_script : list N :=
  [123;10; 112;10; 114;10; 125;10; 120;121;10; 115;10; 114;101;115;116].

Example ex_run :
  obs_of_final (model_run toy 30 30 SrcStdin (chunk [1;2;3;1;5]%nat ex_script)) =
  (0, 0, 17, [Ev 0 [[112]] 0 8; Ev 2 [[114;101;115;116]] 0 13]).
Proof. vm_compute. reflexivity. Qed.

(* hypotheses of run_is_line_by_line *)
Example ex_run_tag :
  f_tag (model_run toy 30 30 SrcStdin (chunk [1;2;3;1;5]%nat ex_script)) = FEnd.
Proof. vm_compute. reflexivity. Qed.

(* hypotheses of consumes_minimal_lines / fd_position_after_command *)
Example ex_parse_phase :
  exists c fed' d' off',
    parse_phase byte_ops toy 10 [mkP [] false] false [] SrcStdin (chunk [1;2;3]%nat ex_script) 0 false
    = (PhDone (PComplete c false), (fed', SrcStdin, d', off', false)) /\ off' = 8 /\
    concat d' = [120;121;10; 115;10; 114;101;115;116].
Proof. eexists. eexists. eexists. eexists. split; [vm_compute; reflexivity | split; reflexivity]. Qed.

(* hypotheses of earlier_lines_take_effect and
   executed_prefix_equals_truncated_script: "p\nr\nab\n" ++ ")\np\n" *)
Definition ex_A : list N := [112;10; 114;10; 97;98;10].
Definition ex_B : list N := [41;10; 112;10].

Example ex_prefix :
  nl_terminated ex_A /\ ex_B <> [] /\
  exists m r,
    iter_n byte_ops toy 2 9 (init SrcStdin (chunk [3;3]%nat (ex_A ++ ex_B))) = inl m /\
    concat (x_in (m_x m)) = ex_B /\
    iter byte_ops toy 9 m = inr r /\ f_tag r = FSyntax /\ m_eof m = false /\ m_pend m = false /\
    toy [s_ps (x_sh (m_x m))] [[]] = PEnd /\
    x_evs (m_x m) = [Ev 0 [[112]] 0 2].
Proof.
  split; [right; exists [112;10; 114;10; 97;98]; reflexivity|].
  split; [discriminate|].
  eexists. eexists. split; [vm_compute; reflexivity|].
  repeat split; vm_compute; reflexivity.
Qed.

(* ------------------------------------------------------------------ *)
(* Why one byte per read matters: a reader that asks for two bytes at a
   time (a natural "optimisation" of FdReader2) makes both the position
   after a command and the data a later `read` gets depend on where the
   chunk boundaries fall — the reference semantics and the oracle's
   line-boundary clause tell such a reader apart. *)

Fixpoint kread (n : nat) (d : dev) : list N * dev :=
  match d with
  | [] => ([], [])
  | [] :: d' => kread n d'
  | c :: d' => (firstn n c, skipn n c :: d')
  end.

Fixpoint next_line2 (fuel : nat) (d : dev) : line * dev :=
  match fuel with
  | O => ([], d)
  | S f =>
      match kread 2 d with
      | ([], d') => ([], d')
      | (bs, d') =>
          if existsb (N.eqb NL) bs then (bs, d')
          else let (l, d'') := next_line2 f d' in (bs ++ l, d'')
      end
  end.

Definition bulk_pull (s : source) (i : dev) : line * source * dev * N :=
  match s with
  | SrcStdin => let (l, i') := next_line2 100 i in (l, SrcStdin, i', nlen l)
  | _ => byte_pull s i
  end.

Definition bulk_ops : input_ops dev source := mkOps dev source bulk_pull read_text slurp_all nest_stub.

(* a parser that, like the real lexer, is only interested in the text up to
   the first newline of what it is given *)
Fixpoint upto_nl (l : line) : line :=
  match l with
  | [] => []
  | c :: l' => if N.eqb c NL then [c] else c :: upto_nl l'
  end.
Definition toy1 (st : list pstate) (fed : list line) : pres :=
  match fed with
  | [l] => toy st [upto_nl l]
  | _ => toy st fed
  end.

(* "pp\nq\n": a probe, then a line that is no command *)
Definition ex_bulk : list N := [112;112;10; 113;10].

Example bulk_reader_breaks_property :
  (* delivered byte by byte the bulk reader happens to behave ... *)
  obs_of_final (run bulk_ops toy1 20 20 SrcStdin (chunk [1;1;1;1]%nat ex_bulk))
    = obs_of_final (spec_run toy1 20 20 LShared (split_lines ex_bulk)) /\
  (* ... delivered in one piece it reads past the newline: the position when
     the first command runs is not a line boundary *)
  obs_of_final (run bulk_ops toy1 20 20 SrcStdin [ex_bulk])
    <> obs_of_final (spec_run toy1 20 20 LShared (split_lines ex_bulk)) /\
  line_aligned ex_bulk (obs_of_final (run bulk_ops toy1 20 20 SrcStdin [ex_bulk])) = false /\
  (* whereas the model is unaffected *)
  obs_of_final (model_run toy1 20 20 SrcStdin [ex_bulk])
    = obs_of_final (spec_run toy1 20 20 LShared (split_lines ex_bulk)).
Proof. repeat split; vm_compute; (reflexivity || discriminate). Qed.

(* hypotheses on the parser used by the theorems *)
Lemma toy_simple_nl l c : toy_simple l = Some c -> nl_cmd c = true.
Proof.
  destruct l as [|b l]; cbn; [intros H; inversion H; reflexivity|].
  destruct (N.eqb b 112); [intros H; inversion H; reflexivity|].
  destruct (N.eqb b 114); [intros H; inversion H; reflexivity|].
  destruct (N.eqb b 115); [intros H; inversion H; reflexivity|].
  destruct (N.eqb b 41); intros H; inversion H; reflexivity.
Qed.

Lemma toy_group_nl ls : forall acc c p,
  nl_cmd acc = true -> toy_group ls acc = PComplete c p -> nl_cmd c = true.
Proof.
  induction ls as [|l ls IH]; intros acc c p Ha H; cbn [toy_group] in H; [discriminate|].
  destruct l as [|b l]; [discriminate|].
  destruct (N.eqb b 125); [inversion H; subst; exact Ha|].
  destruct (toy_simple (b :: l)) eqn:Es; [|discriminate].
  eapply IH; [|exact H]. cbn [nl_cmd]. rewrite Ha. exact (toy_simple_nl _ _ Es).
Qed.

Example toy_reads_lines : reads_lines toy.
Proof.
  intros sts fed c p H. unfold toy in H.
  destruct fed as [|l rest]; [discriminate|].
  destruct l as [|b l].
  - destruct rest; discriminate.
  - destruct (N.eqb b 123).
    + exact (toy_group_nl rest CNop c p eq_refl H).
    + destruct rest; [|discriminate].
      destruct (toy_simple (b :: l)) eqn:Es; [|discriminate].
      inversion H; subst. exact (toy_simple_nl _ _ Es).
Qed.

Lemma toy_group_no_pend ls : forall acc c, toy_group ls acc <> PComplete c true.
Proof.
  induction ls as [|l ls IH]; intros acc c; cbn [toy_group]; [discriminate|].
  destruct l as [|b l]; [discriminate|].
  destruct (N.eqb b 125); [discriminate|].
  destruct (toy_simple (b :: l)); [apply IH | discriminate].
Qed.

Example toy_pend_depth : pend_depth toy 1.
Proof.
  intros sts fed c H. exfalso. unfold toy in H.
  destruct fed as [|l rest]; [discriminate|].
  destruct l as [|b l].
  - destruct rest; discriminate.
  - destruct (N.eqb b 123).
    + exact (toy_group_no_pend _ _ _ H).
    + destruct rest; [|discriminate]. destruct (toy_simple (b :: l)); discriminate.
Qed.

(* ------------------------------------------------------------------ *)
(* Text pending in the line buffer: the line "t" stands for a two-line alias
   whose first line is `set -o portable` and whose second line is accepted
   only when `portable` is off.  The second command comes out of the pending
   buffer (nothing is read for it) and is parsed in the state the first one
   left: a syntax error. *)
Definition toy2 (sts : list pstate) (fed : list line) : pres :=
  match sts, fed with
  | [_], [[116; 10]] => PComplete (CPortable true) true
  | [_; st2], [[116; 10]] =>
      if p_portable st2 then PError else PComplete (CProbe [[120]]) false
  | [_], [[]] => PEnd
  | [_], [_ :: _] => PComplete (CProbe [[112]]) false
  | _, _ => PUnknown
  end.

Example ex_pending :
  obs_of_final (model_run toy2 20 20 SrcStdin (chunk [1]%nat [116;10; 112;10]))
    = (1, 2, 2, []) /\
  (* the same two commands when the first does not change the option *)
  obs_of_final (model_run (fun sts fed => match toy2 sts fed with
                                          | PComplete (CPortable _) p => PComplete CNop p
                                          | r => r end)
                          20 20 SrcStdin [[116;10; 112;10]])
    = (0, 0, 4, [Ev 0 [[120]] 0 2; Ev 0 [[112]] 0 4]).
Proof. split; vm_compute; reflexivity. Qed.

(* ------------------------------------------------------------------ *)
(* Nested read-eval loops.  A line starting with `e` is `eval` of the fixed
   four-line text  p / r / ) / p : probe, read a line of the OUTER standard
   input, syntax error, (never reached) probe. *)
Definition toy_inner : list line := [[112;10]; [114;10]; [41;10]; [112;10]].

Definition toyn (sts : list pstate) (fed : list line) : pres :=
  match fed with
  | [101 :: _] => PComplete (CNest (NMem toy_inner)) false
  | _ => toy sts fed
  end.

(* "e\nxy\np\n": the inner probe sees position 2 (after the eval line), the
   inner read takes "xy\n", the inner syntax error interrupts the script: the
   outer `p` never runs; the earlier inner commands have taken effect. *)
Definition ex_nested : list N := [101;10; 120;121;10; 112;10].

Example ex_nested_run :
  obs_of_final (decode_final (nmodel_run toyn 1 30 30 SrcStdin (chunk [1;1;2]%nat ex_nested))) =
  (1, 2, 5, [Ev 0 [[112]] 0 2]).
Proof. vm_compute. reflexivity. Qed.

(* at level 0 the nested loop is not entered: the distinct out-of-fuel value *)
Example ex_nested_level0 :
  f_tag (decode_final (nmodel_run toyn 0 30 30 SrcStdin [ex_nested])) = FOutOfFuel.
Proof. vm_compute. reflexivity. Qed.

Definition ex_x0 : xstate (I:=dev) := mkX (mkSh (mkP [] false) [] 0) [[120;121;10; 112;10]] 2 [].

(* hypotheses of nested_syntax_error_keeps_earlier_effects (k = 2) *)
Example ex_nested_syntax_hyps :
  nsrc_empty (NMem toy_inner) = false /\ (2 < 30)%nat /\
  exists m, iterx_n (byte_ops_at toyn 30 30 0) toyn 2 30
              (mkM ex_x0 (byte_src (NMem toy_inner)) false false [] []) = inl m /\
            x_off (m_x m) = 5 /\
            exists y, iterx (byte_ops_at toyn 30 30 0) toyn 30 m = inr (FSyntax, y).
Proof.
  split; [reflexivity|]. split; [lia|].
  eexists. split; [vm_compute; reflexivity|]. split; [reflexivity|].
  eexists. vm_compute. reflexivity.
Qed.

(* hypotheses of nested_iteration_runs_one_command / nested_parse_leaves_stdin *)
Example ex_nested_iteration_hyps :
  byte_src (NMem toy_inner) <> SrcStdin /\
  exists m', iterx (byte_ops_at toyn 30 30 0) toyn 30
               (mkM ex_x0 (byte_src (NMem toy_inner)) false false [] []) = inl m'.
Proof. split; [discriminate|]. eexists. vm_compute. reflexivity. Qed.
