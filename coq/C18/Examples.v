(* C18 — concrete instances showing that the hypotheses of the theorems are
   satisfiable by non-trivial scripts (non-vacuity), with a toy parser:
     p...   probe        r...  read -r v      s...  slurp      )...  syntax error
     {      opens a group that extends to the line starting with }          *)
From Yv Require Import Common.Base C18.Model C18.Spec C18.Run.
Local Open Scope N_scope.

Definition toy_simple (l : line) : option cmd :=
  match l with
  | 112 :: _ => Some (CProbe [[112]])
  | 114 :: _ => Some (CRead true [118])
  | 115 :: _ => Some CSlurp
  | 41 :: _ => None
  | _ => Some CNop
  end.

Fixpoint toy_group (ls : list line) (acc : cmd) : pres :=
  match ls with
  | [] => PNeedMore
  | [] :: _ => PError                          (* end of input inside a group *)
  | (125 :: _) :: _ => PComplete acc
  | l :: ls' => match toy_simple l with
                | Some c => toy_group ls' (CSeq acc c)
                | None => PError
                end
  end.

Definition toy (st : pstate) (fed : list line) : pres :=
  match fed with
  | [] => PUnknown
  | [[]] => PEnd
  | (123 :: _) :: rest => toy_group rest CNop
  | [l] => match toy_simple l with Some c => PComplete c | None => PError end
  | _ => PUnknown
  end.

Example toy_ends_at_eof : ends_at_eof toy.
Proof. intros st. exact I. Qed.

(* "{\np\nr\n}\nxy\ns\nrest" : a three-line group whose read takes the line
   after the group, then slurp takes the rest *)
Definition ex_script : list N :=
  [123;10; 112;10; 114;10; 125;10; 120;121;10; 115;10; 114;101;115;116].

Example ex_run :
  obs_of_final (model_run toy 30 SrcStdin (chunk [1;2;3;1;5]%nat ex_script)) =
  (0, 0, 17, [Ev 0 [[112]] 0 8; Ev 2 [[114;101;115;116]] 0 13]).
Proof. vm_compute. reflexivity. Qed.

(* hypotheses of run_is_line_by_line *)
Example ex_run_tag :
  f_tag (model_run toy 30 SrcStdin (chunk [1;2;3;1;5]%nat ex_script)) = FEnd.
Proof. vm_compute. reflexivity. Qed.

(* hypotheses of consumes_minimal_lines / fd_position_after_command *)
Example ex_parse_phase :
  exists c d' off',
    pull_loop byte_ops toy 10 (mkP [] false) [] SrcStdin (chunk [1;2;3]%nat ex_script) 0 false
    = (PhDone (PComplete c), (SrcStdin, d', off', false)) /\ off' = 8 /\
    concat d' = [120;121;10; 115;10; 114;101;115;116].
Proof. eexists. eexists. eexists. split; [vm_compute; reflexivity | split; reflexivity]. Qed.

(* hypotheses of earlier_lines_take_effect and
   executed_prefix_equals_truncated_script: "p\nr\nab\n" ++ ")\np\n" *)
Definition ex_A : list N := [112;10; 114;10; 97;98;10].
Definition ex_B : list N := [41;10; 112;10].

Example ex_prefix :
  nl_terminated ex_A /\ ex_B <> [] /\
  exists m r,
    iter_n byte_ops toy 2 9 (init SrcStdin (chunk [3;3]%nat (ex_A ++ ex_B))) = inl m /\
    concat (x_in (m_x m)) = ex_B /\
    iter byte_ops toy 9 m = inr r /\ f_tag r = FSyntax /\ m_eof m = false /\
    toy (s_ps (x_sh (m_x m))) [[]] = PEnd /\
    x_evs (m_x m) = [Ev 0 [[112]] 0 2].
Proof.
  split; [right; exists [112;10; 114;10; 97;98]; reflexivity|].
  split; [discriminate|].
  eexists. eexists. split; [vm_compute; reflexivity|].
  repeat split; vm_compute; reflexivity.
Qed.

(* ------------------------------------------------------------------ *)
(* Why one byte per read matters: a reader that asks for two bytes at a
   time (a natural "optimisation" of FdReader2) makes both the position
   after a command and the data a later `read` gets depend on where the
   chunk boundaries fall — the reference semantics and the oracle's
   line-boundary clause tell such a reader apart. *)

Fixpoint kread (n : nat) (d : dev) : list N * dev :=
  match d with
  | [] => ([], [])
  | [] :: d' => kread n d'
  | c :: d' => (firstn n c, skipn n c :: d')
  end.

Fixpoint next_line2 (fuel : nat) (d : dev) : line * dev :=
  match fuel with
  | O => ([], d)
  | S f =>
      match kread 2 d with
      | ([], d') => ([], d')
      | (bs, d') =>
          if existsb (N.eqb NL) bs then (bs, d')
          else let (l, d'') := next_line2 f d' in (bs ++ l, d'')
      end
  end.

Definition bulk_pull (s : source) (i : dev) : line * source * dev * N :=
  match s with
  | SrcStdin => let (l, i') := next_line2 100 i in (l, SrcStdin, i', nlen l)
  | _ => byte_pull s i
  end.

Definition bulk_ops : input_ops dev source := mkOps dev source bulk_pull read_text slurp_all.

(* a parser that, like the real lexer, is only interested in the text up to
   the first newline of what it is given *)
Fixpoint upto_nl (l : line) : line :=
  match l with
  | [] => []
  | c :: l' => if N.eqb c NL then [c] else c :: upto_nl l'
  end.
Definition toy1 (st : pstate) (fed : list line) : pres :=
  match fed with
  | [l] => toy st [upto_nl l]
  | _ => toy st fed
  end.

(* "pp\nq\n": a probe, then a line that is no command *)
Definition ex_bulk : list N := [112;112;10; 113;10].

Example bulk_reader_breaks_property :
  (* delivered byte by byte the bulk reader happens to behave ... *)
  obs_of_final (run bulk_ops toy1 20 SrcStdin (chunk [1;1;1;1]%nat ex_bulk))
    = obs_of_final (spec_run toy1 20 LShared (split_lines ex_bulk)) /\
  (* ... delivered in one piece it reads past the newline: the position when
     the first command runs is not a line boundary *)
  obs_of_final (run bulk_ops toy1 20 SrcStdin [ex_bulk])
    <> obs_of_final (spec_run toy1 20 LShared (split_lines ex_bulk)) /\
  line_aligned ex_bulk (obs_of_final (run bulk_ops toy1 20 SrcStdin [ex_bulk])) = false /\
  (* whereas the model is unaffected *)
  obs_of_final (model_run toy1 20 SrcStdin [ex_bulk])
    = obs_of_final (spec_run toy1 20 LShared (split_lines ex_bulk)).
Proof. repeat split; vm_compute; (reflexivity || discriminate). Qed.
