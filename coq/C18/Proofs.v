(* C18 — the theorems about the model (byte level), obtained from the
   refinement to the line-level reference semantics. *)
From Yv Require Import Common.Base C18.Model C18.Spec C18.Run.
From Yv Require Import C18.ProofsBytes C18.ProofsSim C18.ProofsLines.
Local Open Scope N_scope.

(* ------------------------------------------------------------------ *)
(* Refinement.                                                         *)

Lemma byte_pull_sim : forall s1 s2 i1 i2, RS s1 s2 -> RI i1 i2 ->
  let '(l1, t1, j1, n1) := op_pull byte_ops s1 i1 in
  let '(l2, t2, j2, n2) := op_pull line_ops s2 i2 in
  l1 = l2 /\ n1 = n2 /\ RS t1 t2 /\ RI j1 j2.
Proof. exact pull_refines. Qed.

Lemma byte_read_sim : forall raw d i1 i2, RI i1 i2 ->
  let '(c1, f1, j1, n1) := op_read byte_ops raw d i1 in
  let '(c2, f2, j2, n2) := op_read line_ops raw d i2 in
  c1 = c2 /\ f1 = f2 /\ n1 = n2 /\ RI j1 j2.
Proof. exact read_refines. Qed.

Lemma byte_slurp_sim : forall i1 i2, RI i1 i2 ->
  let '(c1, j1, n1) := op_slurp byte_ops i1 in
  let '(c2, j2, n2) := op_slurp line_ops i2 in
  c1 = c2 /\ n1 = n2 /\ RI j1 j2.
Proof. exact slurp_refines. Qed.

(* level 0: nested loops are not entered on either side *)
Lemma byte_nest_sim : forall s x1 x2, RX RI x1 x2 ->
  RX RI (fst (op_nest byte_ops s x1)) (fst (op_nest line_ops s x2)) /\
  snd (op_nest byte_ops s x1) = snd (op_nest line_ops s x2).
Proof.
  intros s x1 x2 H. cbn [op_nest byte_ops line_ops]. unfold nest_stub. cbn [fst snd].
  split; [now apply RX_with_status | reflexivity].
Qed.

Lemma model_refines_spec_lemma parser fuel pf src d :
  model_run parser fuel pf src d = spec_run parser fuel pf (abs_src src) (abs_dev d).
Proof.
  unfold model_run, spec_run.
  apply (run_sim byte_ops line_ops RI RS parser byte_pull_sim byte_read_sim byte_slurp_sim byte_nest_sim).
  - apply RS_abs.
  - reflexivity.
Qed.

Lemma chunking_irrelevant_lemma parser fuel pf (d1 d2 : dev) :
  concat d1 = concat d2 ->
  model_run parser fuel pf SrcStdin d1 = model_run parser fuel pf SrcStdin d2.
Proof.
  intros H. rewrite !model_refines_spec_lemma. unfold abs_dev. now rewrite H.
Qed.

Lemma chunking_irrelevant_own_lemma parser fuel pf (s1 s2 d1 d2 : dev) :
  concat s1 = concat s2 -> concat d1 = concat d2 ->
  model_run parser fuel pf (SrcOwn s1) d1 = model_run parser fuel pf (SrcOwn s2) d2.
Proof.
  intros Hs H. rewrite !model_refines_spec_lemma. unfold abs_dev, abs_src. now rewrite H, Hs.
Qed.

(* a script file and a command string with the same text behave alike *)
Lemma file_equals_string_lemma parser fuel pf (s d : dev) :
  model_run parser fuel pf (SrcOwn s) d = model_run parser fuel pf (SrcMem (split_lines (concat s))) d.
Proof. rewrite !model_refines_spec_lemma. reflexivity. Qed.

(* an Input that returns the text in arbitrary pieces (ending anywhere, also in
   the middle of a line) behaves like one that returns it line by line *)
Lemma input_pieces_irrelevant_lemma parser fuel pf (p1 p2 d : dev) :
  concat p1 = concat p2 ->
  model_run parser fuel pf (SrcInput p1) d = model_run parser fuel pf (SrcInput p2) d.
Proof.
  intros H. rewrite !model_refines_spec_lemma. unfold abs_src. now rewrite H.
Qed.

Lemma input_pieces_equal_lines_lemma parser fuel pf (p d : dev) :
  model_run parser fuel pf (SrcInput p) d
  = model_run parser fuel pf (SrcMem (split_lines (concat p))) d.
Proof. rewrite !model_refines_spec_lemma. reflexivity. Qed.

Lemma concat_chunk (sizes : list nat) (x : list N) : concat (chunk sizes x) = x.
Proof.
  revert x; induction sizes as [|n s IH]; intros x; cbn [chunk concat].
  - apply app_nil_r.
  - rewrite IH. apply firstn_skipn.
Qed.

(* ------------------------------------------------------------------ *)
(* The parse phase at byte level.                                      *)

Lemma parse_phase_bytes parser pf sts pend fed src d off eof :
  let '(ph1, (g1, t1, j1, o1, e1)) := parse_phase byte_ops parser pf sts pend fed src d off eof in
  let '(ph2, (g2, t2, j2, o2, e2)) :=
    parse_phase line_ops parser pf sts pend fed (abs_src src) (abs_dev d) off eof in
  ph1 = ph2 /\ g1 = g2 /\ o1 = o2 /\ e1 = e2 /\ RS t1 t2 /\ RI j1 j2.
Proof.
  apply (parse_phase_sim byte_ops line_ops RI RS parser byte_pull_sim).
  - apply RS_abs.
  - reflexivity.
Qed.

Lemma consumes_minimal_lines_lemma parser pf sts pend fed0 (d : dev) off r fed' src' d' off' eof' :
  parse_phase byte_ops parser pf sts pend fed0 SrcStdin d off false
    = (PhDone r, (fed', src', d', off', eof')) ->
  exists k, decides parser sts (if pend then fed0 else []) (if pend then 0 else 1)%nat
                    (split_lines (concat d)) k r /\
    concat d = concat (firstn k (split_lines (concat d))) ++ concat d' /\
    off' = off + nlen (concat (firstn k (split_lines (concat d)))) /\
    concat d' = concat (skipn k (split_lines (concat d))) /\
    fed' = (if pend then fed0 else []) ++ firstn k (feedable (split_lines (concat d))).
Proof.
  intros H. pose proof (parse_phase_bytes parser pf sts pend fed0 SrcStdin d off false) as Hs.
  rewrite H in Hs. cbn [abs_src] in Hs.
  destruct (parse_phase line_ops parser pf sts pend fed0 LShared (abs_dev d) off false)
    as [ph2 [[[[g2 t2] j2] o2] e2]] eqn:E.
  destruct Hs as [<- [<- [<- [<- [_ HI]]]]].
  apply parse_phase_takes in E; [|apply split_lines_no_empty].
  destruct E as [k [Hdec [Hfed [_ [Hls [Hoff _]]]]]].
  unfold abs_dev in *. unfold RI in HI.
  assert (Hd' : concat d' = concat (skipn k (split_lines (concat d)))).
  { rewrite <- Hls, HI. now rewrite concat_split_lines. }
  exists k. split; [exact Hdec|]. split; [|split; [exact Hoff | split; [exact Hd' | exact Hfed]]].
  rewrite Hd', <- concat_app, firstn_skipn. now rewrite concat_split_lines.
Qed.

(* ------------------------------------------------------------------ *)
(* What a reading command finds on the descriptor.                     *)

Lemma str_eqb_refl (s : str) : str_eqb s s = true.
Proof. now apply str_eqb_eq. Qed.

Lemma get_set_var n v l : get_var n (set_var n v l) = v.
Proof.
  induction l as [|[n' v'] l IH]; cbn [set_var get_var].
  - now rewrite str_eqb_refl.
  - destruct (str_eqb n n') eqn:E; cbn [get_var]; rewrite ?str_eqb_refl, ?E; [reflexivity | exact IH].
Qed.

Lemma scan_line_raw (l : line) : snd (scan_line true l) <> LCont.
Proof.
  induction l as [|c l IH]; cbn [scan_line]; [discriminate|].
  destruct (N.eqb c NL); [discriminate|]. cbn [negb andb].
  destruct (scan_line true l) as [cs e]. exact IH.
Qed.

Lemma line_read_raw (ls : list line) :
  line_read true NL ls =
  (fst (scan_line true (hd [] ls)),
   match ls with [] => false | l :: _ => match snd (scan_line true l) with LNl => true | _ => false end end,
   tl ls, nlen (hd [] ls)).
Proof.
  unfold line_read. change (N.eqb NL NL) with true. cbv iota.
  destruct ls as [|l rest]; [reflexivity|]. cbn [line_read_nl hd tl].
  pose proof (scan_line_raw l) as H. destruct (scan_line true l) as [cs e]. cbn [fst snd] in *.
  destruct e; try reflexivity. contradiction.
Qed.

Lemma slurp_sees_rest (x : xstate (I:=dev)) :
  let y := fst (exec byte_ops CSlurp x) in
  x_evs y = x_evs x ++ [Ev 2 [concat (x_in x)] (x_status x) (x_off x)] /\
  concat (x_in y) = [] /\ x_off y = x_off x + nlen (concat (x_in x)).
Proof.
  cbn [exec op_slurp byte_ops]. destruct (slurp_all_flat (x_in x)) as [d' [-> Hd]].
  cbn. repeat split. exact Hd.
Qed.

Lemma read_sees_next_line (v : str) (x : xstate (I:=dev)) :
  let y := fst (exec byte_ops (CRead true NL v) x) in
  let ls := split_lines (concat (x_in x)) in
  (existsb (fun c => N.eqb (fst c) 0) (fst (scan_line true (hd [] ls))) = false ->
   get_var v (s_vars (x_sh y)) = read_value (fst (scan_line true (hd [] ls)))) /\
  concat (x_in y) = concat (tl ls) /\ x_off y = x_off x + nlen (hd [] ls) /\
  x_evs y = x_evs x.
Proof.
  cbn [exec op_read byte_ops]. pose proof (read_text_lines true NL (x_in x)) as H.
  rewrite line_read_raw in H. destruct H as [d' [-> Hd]].
  destruct (existsb (fun c => N.eqb (fst c) 0)
              (fst (scan_line true (hd [] (split_lines (concat (x_in x))))))) eqn:E; cbn.
  - repeat split; try discriminate. rewrite <- Hd. now rewrite concat_split_lines.
  - rewrite get_set_var. repeat split. rewrite <- Hd. now rewrite concat_split_lines.
Qed.

Lemma fd_position_after_command_lemma parser pf sts pend fed0 (d : dev) off c p fed' src' d' off' eof' :
  parse_phase byte_ops parser pf sts pend fed0 SrcStdin d off false
    = (PhDone (PComplete c p), (fed', src', d', off', eof')) ->
  exists k, decides parser sts (if pend then fed0 else []) (if pend then 0 else 1)%nat
                    (split_lines (concat d)) k (PComplete c p) /\
    let following := skipn k (split_lines (concat d)) in
    concat d' = concat following /\
    (forall sh evs,
        x_evs (fst (exec byte_ops CSlurp (mkX sh d' off' evs)))
        = evs ++ [Ev 2 [concat following] (s_status sh) off']) /\
    (forall sh evs v,
        let y := fst (exec byte_ops (CRead true NL v) (mkX sh d' off' evs)) in
        (existsb (fun c => N.eqb (fst c) 0) (fst (scan_line true (hd [] following))) = false ->
         get_var v (s_vars (x_sh y)) = read_value (fst (scan_line true (hd [] following)))) /\
        concat (x_in y) = concat (tl following) /\
        x_off y = off' + nlen (hd [] following)).
Proof.
  intros H. destruct (consumes_minimal_lines_lemma _ _ _ _ _ _ _ _ _ _ _ _ _ H) as [k [Hd [_ [_ [Hrest _]]]]].
  exists k. split; [exact Hd|]. cbn zeta. split; [exact Hrest|]. split.
  - intros sh evs. destruct (slurp_sees_rest (mkX sh d' off' evs)) as [He _].
    cbn [x_evs x_in x_off] in He. rewrite He, Hrest. reflexivity.
  - intros sh evs v. destruct (read_sees_next_line v (mkX sh d' off' evs)) as [H1 [H2 [H3 _]]].
    cbn [x_in x_off] in *.
    assert (E : split_lines (concat d') = skipn k (split_lines (concat d))).
    { apply (f_equal split_lines) in Hrest. rewrite Hrest. apply split_lines_skipn. }
    rewrite E in *. repeat split; assumption.
Qed.

(* ------------------------------------------------------------------ *)
(* Earlier lines take effect whatever follows.                         *)

Lemma split_lines_snoc_nonempty (y : list N) : split_lines (y ++ [NL]) <> [].
Proof. intros H. apply split_lines_nil in H. destruct y; discriminate. Qed.

Lemma split_lines_app_NL (y B : list N) :
  split_lines ((y ++ [NL]) ++ B) = split_lines (y ++ [NL]) ++ split_lines B.
Proof.
  induction y as [|b y IH]; [reflexivity|].
  cbn [app split_lines]. destruct (N.eqb b NL).
  - cbn [app]. now rewrite IH.
  - rewrite IH. pose proof (split_lines_snoc_nonempty y) as Hne.
    destruct (split_lines (y ++ [NL])) as [|l ls]; [contradiction | reflexivity].
Qed.

Lemma split_lines_app_nl (A B : list N) :
  nl_terminated A -> split_lines (A ++ B) = split_lines A ++ split_lines B.
Proof. intros [->|[y ->]]; [reflexivity | apply split_lines_app_NL]. Qed.

Lemma earlier_lines_take_effect_lemma parser (pf k : nat) (A B B' : list N) (d d' : dev)
    (m : mstate (I:=dev) (SRC:=source)) :
  reads_lines parser ->
  concat d = A ++ B -> concat d' = A ++ B' -> nl_terminated A -> B <> [] ->
  iter_n byte_ops parser k pf (init SrcStdin d) = inl m ->
  concat (x_in (m_x m)) = B ->
  exists m', iter_n byte_ops parser k pf (init SrcStdin d') = inl m' /\
    concat (x_in (m_x m')) = B' /\
    x_sh (m_x m') = x_sh (m_x m) /\ x_off (m_x m') = x_off (m_x m) /\
    x_evs (m_x m') = x_evs (m_x m) /\ m_eof m' = m_eof m /\ m_src m' = SrcStdin /\
    m_pend m' = m_pend m /\ m_fed m' = m_fed m /\ m_hist m' = m_hist m.
Proof.
  intros Hrl Hd Hd' HA HB H Hin.
  assert (Hinit : forall e, RM RI RS (init SrcStdin e) (init LShared (abs_dev e))).
  { intros e. apply init_sim; [constructor | reflexivity]. }
  pose proof (iter_n_sim byte_ops line_ops RI RS parser byte_pull_sim byte_read_sim byte_slurp_sim byte_nest_sim
                k pf _ _ (Hinit d)) as Hs.
  rewrite H in Hs.
  destruct (iter_n line_ops parser k pf (init LShared (abs_dev d))) as [n|] eqn:En; [|contradiction].
  cbn in Hs. destruct Hs as [[Hsh [Hoff [Hevs Hri]]] [Hsrc [Heof [Hpe [Hfe Hhi]]]]].
  unfold abs_dev in En. rewrite Hd, split_lines_app_nl in En by assumption.
  unfold RI in Hri. rewrite Hin in Hri.
  assert (HLB : split_lines B <> []) by (intros E; apply split_lines_nil in E; contradiction).
  destruct (prefix_independence_lines parser (split_lines A) (split_lines B) (split_lines B')
              k pf n Hrl HLB En Hri)
    as [n' [En' [Hin' [Hsh' [Hoff' [Hevs' [Heof' [Hsrc' [Hpe' [Hfe' Hhi']]]]]]]]]].
  pose proof (iter_n_sim byte_ops line_ops RI RS parser byte_pull_sim byte_read_sim byte_slurp_sim byte_nest_sim
                k pf _ _ (Hinit d')) as Hs'.
  unfold abs_dev in Hs'. rewrite Hd', split_lines_app_nl, En' in Hs' by assumption.
  destruct (iter_n byte_ops parser k pf (init SrcStdin d')) as [m'|]; [|contradiction].
  cbn in Hs'. destruct Hs' as [[Gsh [Goff [Gevs Gri]]] [Gsrc [Geof [Gpe [Gfe Ghi]]]]].
  exists m'. split; [reflexivity|]. unfold RI in Gri. rewrite Hin' in Gri.
  apply split_lines_inj in Gri. rewrite Hsrc' in Gsrc. inversion Gsrc.
  repeat split; congruence.
Qed.

Lemma RS_inv (s : source) (t : lsource) : RS s t -> t = abs_src s.
Proof. intros H; destruct H; reflexivity. Qed.

(* the same for a script with a source of its own (-c string, script file) *)
Lemma earlier_lines_take_effect_separate_lemma parser (pf k : nat) (s s' : source)
    (LA LB LB' : list line) (d : dev) (m : mstate (I:=dev) (SRC:=source)) :
  abs_src s = LLines (LA ++ LB) -> abs_src s' = LLines (LA ++ LB') -> LB <> [] ->
  iter_n byte_ops parser k pf (init s d) = inl m ->
  abs_src (m_src m) = LLines LB ->
  exists m', iter_n byte_ops parser k pf (init s' d) = inl m' /\
    abs_src (m_src m') = LLines LB' /\
    x_sh (m_x m') = x_sh (m_x m) /\ x_off (m_x m') = x_off (m_x m) /\
    x_evs (m_x m') = x_evs (m_x m) /\ concat (x_in (m_x m')) = concat (x_in (m_x m)) /\
    m_eof m' = m_eof m /\ m_pend m' = m_pend m /\ m_fed m' = m_fed m /\ m_hist m' = m_hist m.
Proof.
  intros Hs Hs' HB H Hsrc.
  assert (Hinit : forall t, RM RI RS (init t d) (init (abs_src t) (abs_dev d))).
  { intros t. apply init_sim; [apply RS_abs | reflexivity]. }
  pose proof (iter_n_sim byte_ops line_ops RI RS parser byte_pull_sim byte_read_sim byte_slurp_sim byte_nest_sim
                k pf _ _ (Hinit s)) as Hsim.
  rewrite H in Hsim.
  destruct (iter_n line_ops parser k pf (init (abs_src s) (abs_dev d))) as [n|] eqn:En; [|contradiction].
  cbn in Hsim. destruct Hsim as [[Hsh [Hoff [Hevs Hri]]] [Hrs [Heof [Hpe [Hfe Hhi]]]]].
  apply RS_inv in Hrs. rewrite Hsrc in Hrs. rewrite Hs in En.
  destruct (prefix_independence_lines_sep parser LA LB LB' (abs_dev d) k pf n HB En Hrs)
    as [n' [En' [Hsrc' [Hx' [Heof' [Hpe' [Hfe' Hhi']]]]]]].
  pose proof (iter_n_sim byte_ops line_ops RI RS parser byte_pull_sim byte_read_sim byte_slurp_sim byte_nest_sim
                k pf _ _ (Hinit s')) as Hsim'.
  rewrite Hs', En' in Hsim'.
  destruct (iter_n byte_ops parser k pf (init s' d)) as [m'|]; [|contradiction].
  cbn in Hsim'. destruct Hsim' as [[Gsh [Goff [Gevs Gri]]] [Grs [Geof [Gpe [Gfe Ghi]]]]].
  exists m'. split; [reflexivity|]. apply RS_inv in Grs. rewrite Hsrc' in Grs.
  unfold RI in *. rewrite Hx' in *.
  repeat split; try congruence.
  apply split_lines_inj. congruence.
Qed.

(* one failing iteration adds no record; on the truncated script the loop
   ends normally at that point *)
Lemma syntax_error_iteration parser pf (m : mstate (I:=dev) (SRC:=source)) r :
  iter byte_ops parser pf m = inr r -> f_tag r = FSyntax ->
  f_evs r = x_evs (m_x m) /\ f_status r = 2.
Proof.
  unfold iter.
  destruct (parse_phase byte_ops parser pf _ (m_pend m) (m_fed m) (m_src m) (x_in (m_x m))
              (x_off (m_x m)) (m_eof m)) as [ph [[[[g' s'] i'] off'] eof']].
  destruct ph as [pr| |]; try (intros H; inversion H; subst; cbn; discriminate).
  destruct pr; try (intros H; inversion H; subst; cbn; try discriminate; intros _; split; reflexivity).
  destruct (exec byte_ops c _) as [x2 ex]. destruct ex; intros H; inversion H; subst; cbn; discriminate.
Qed.

Lemma end_of_input_iteration parser pf (m : mstate (I:=dev) (SRC:=source)) :
  (1 <= pf)%nat -> m_src m = SrcStdin -> m_eof m = false -> m_pend m = false ->
  concat (x_in (m_x m)) = [] ->
  parser [s_ps (x_sh (m_x m))] [[]] = PEnd ->
  exists r, iter byte_ops parser pf m = inr r /\ f_tag r = FEnd /\
    f_evs r = x_evs (m_x m) /\ f_status r = x_status (m_x m) /\ f_off r = x_off (m_x m).
Proof.
  intros Hpf Hsrc Heof Hpe Hin Hend. unfold iter, parse_phase. rewrite Hsrc, Heof, Hpe.
  destruct pf as [|pf]; [lia|]. cbn [pull_loop op_pull byte_ops byte_pull app].
  pose proof (next_line_lines (x_in (m_x m))) as Hn. rewrite Hin in Hn. cbn in Hn.
  destruct Hn as [d' [-> _]]. cbn [orb app nlen length]. rewrite Hend.
  eexists. split; [reflexivity|]. cbn. rewrite N.add_0_r. repeat split.
Qed.

Lemma executed_prefix_lemma parser (pf k : nat) (A B : list N) (d dA : dev)
    (m : mstate (I:=dev) (SRC:=source)) r :
  reads_lines parser ->
  (1 <= pf)%nat ->
  concat d = A ++ B -> concat dA = A -> nl_terminated A -> B <> [] ->
  iter_n byte_ops parser k pf (init SrcStdin d) = inl m ->
  concat (x_in (m_x m)) = B ->
  iter byte_ops parser pf m = inr r -> f_tag r = FSyntax ->
  m_eof m = false -> m_pend m = false -> parser [s_ps (x_sh (m_x m))] [[]] = PEnd ->
  exists mA rA, iter_n byte_ops parser k pf (init SrcStdin dA) = inl mA /\
    iter byte_ops parser pf mA = inr rA /\ f_tag rA = FEnd /\
    f_evs rA = f_evs r /\ f_off rA = x_off (m_x m) /\ f_status rA = x_status (m_x m).
Proof.
  intros Hrl Hpf Hd HdA HA HB Hk Hin Hit Htag Heof Hpend Hend.
  assert (HdA' : concat dA = A ++ []) by now rewrite app_nil_r.
  destruct (earlier_lines_take_effect_lemma parser pf k A B [] d dA m Hrl Hd HdA' HA HB Hk Hin)
    as [mA [HkA [HinA [Hsh [Hoff [Hevs [HeofA [HsrcA [HpeA _]]]]]]]]].
  destruct (syntax_error_iteration parser pf m r Hit Htag) as [He _].
  assert (HendA : parser [s_ps (x_sh (m_x mA))] [[]] = PEnd) by now rewrite Hsh.
  rewrite Heof in HeofA. rewrite Hpend in HpeA.
  destruct (end_of_input_iteration parser pf mA Hpf HsrcA HeofA HpeA HinA HendA)
    as [rA [HitA [HtagA [HevA [HstA HoffA]]]]].
  exists mA, rA. repeat split; try assumption.
  - now rewrite HevA, He, Hevs.
  - now rewrite HoffA, Hoff.
  - rewrite HstA. unfold x_status. now rewrite Hsh.
Qed.

(* the state after k iterations determines the run *)
Lemma loop_iter_n {I SRC} (ops : input_ops I SRC) parser (k : nat) : forall fuel pf m mk,
  iter_n ops parser k pf m = inl mk ->
  loop ops parser (k + fuel) pf m = loop ops parser fuel pf mk.
Proof.
  induction k as [|k IH]; intros fuel pf m mk H; cbn [iter_n plus loop] in *.
  - now inversion H.
  - destruct (iter ops parser pf m) as [m1|r]; [|discriminate]. now apply IH.
Qed.

(* ------------------------------------------------------------------ *)
(* The whole run is line by line.                                      *)

Lemma run_is_line_by_line_lemma parser fuel pf (d : dev) :
  f_tag (model_run parser fuel pf SrcStdin d) <> FOutOfFuel ->
  f_tag (model_run parser fuel pf SrcStdin d) <> FStuck ->
  line_by_line parser (mkX (mkSh (mkP [] false) [] 0) (split_lines (concat d)) 0 [])
    false false [] [] (model_run parser fuel pf SrcStdin d).
Proof.
  rewrite model_refines_spec_lemma. unfold spec_run, run, abs_src, abs_dev. intros H1 H2.
  apply (loop_line_by_line parser fuel pf (init LShared (split_lines (concat d)))); try assumption.
  - reflexivity.
  - apply wf_split.
Qed.

(* ------------------------------------------------------------------ *)
(* Oracle soundness.                                                   *)

Lemma positions_are_line_boundaries_lemma parser fuel pf src (d : dev) :
  reads_lines parser ->
  line_aligned (concat d) (obs_of_final (model_run parser fuel pf src d)) = true.
Proof.
  intros Hrl. rewrite model_refines_spec_lemma. apply line_aligned_sound. unfold spec_run, abs_dev.
  now apply run_ok.
Qed.

Lemma event_eqb_refl e : event_eqb e e = true.
Proof.
  destruct e as [k a s o]. cbn. rewrite !N.eqb_refl. cbn.
  assert (H : list_eqb str_eqb a a = true) by (apply list_eqb_spec; [apply str_eqb_eq | reflexivity]).
  now rewrite H.
Qed.

Lemma obs_eqb_refl o : obs_eqb o o = true.
Proof.
  destruct o as [[[t s] f] e]. cbn. rewrite !N.eqb_refl. cbn.
  apply list_eqb_spec; [|reflexivity].
  intros x y. split.
  - destruct x as [k1 a1 s1 o1], y as [k2 a2 s2 o2]. cbn. rewrite !andb_true_iff.
    intros [[[H1 H2] H3] H4]. apply N.eqb_eq in H1, H3, H4.
    apply (list_eqb_spec str_eqb str_eqb_eq) in H2. congruence.
  - intros ->. apply event_eqb_refl.
Qed.

Lemma model_of_spec_of parser fuel pf script data f :
  model_of parser fuel pf script data f = spec_of parser fuel pf script data f.
Proof.
  unfold model_of, spec_of. destruct f; cbn [shared]; rewrite model_refines_spec_lemma;
    unfold abs_dev, abs_src; cbn [concat]; rewrite ?app_nil_r, ?concat_chunk; reflexivity.
Qed.

(* on what the model itself produces, every clause of the oracle holds (the
   line-boundary clause is only applied when no command reads with a
   delimiter other than newline) *)
Lemma oracle_sound_lemma parser fuel pf script data f1 f2 :
  let o := obs_of_final (model_of parser fuel pf script data f1) in
  (shared f1 = true -> shared f2 = true ->
   obs_eqb (obs_of_final (model_of parser fuel pf script data f2)) o = true) /\
  (reads_lines parser -> line_aligned (if shared f1 then script else data) o = true) /\
  obs_eqb (obs_of_final (spec_of parser fuel pf script data f1)) o = true.
Proof.
  cbn zeta. split; [|split].
  - intros H1 H2. rewrite !model_of_spec_of. unfold spec_of. rewrite H1, H2. apply obs_eqb_refl.
  - intros Hrl. unfold model_of. destruct f1; cbn [shared].
    + pose proof (positions_are_line_boundaries_lemma parser fuel pf SrcStdin [script] Hrl) as H.
      cbn [concat] in H. now rewrite app_nil_r in H.
    + pose proof (positions_are_line_boundaries_lemma parser fuel pf SrcStdin (chunk sizes script) Hrl) as H.
      now rewrite concat_chunk in H.
    + pose proof (positions_are_line_boundaries_lemma parser fuel pf (SrcMem (split_lines script)) [data] Hrl) as H.
      cbn [concat] in H. now rewrite app_nil_r in H.
    + pose proof (positions_are_line_boundaries_lemma parser fuel pf (SrcOwn [script]) [data] Hrl) as H.
      cbn [concat] in H. now rewrite app_nil_r in H.
    + pose proof (positions_are_line_boundaries_lemma parser fuel pf (SrcInput (chunk sizes script)) [data] Hrl) as H.
      cbn [concat] in H. now rewrite app_nil_r in H.
  - rewrite model_of_spec_of. apply obs_eqb_refl.
Qed.

(* the table-driven parser of the check reads lines only if the table says so *)
Lemma tab_parser_reads_lines (t : list xentry) :
  table_reads_lines t = true -> reads_lines (tab_parser t).
Proof.
  intros Ht sts fed c p H. unfold tab_parser in H.
  destruct (find _ t) as [[[s f] r]|] eqn:Ef.
  - apply find_some in Ef. destruct Ef as [Hin _]. subst r.
    unfold table_reads_lines in Ht. rewrite forallb_forall in Ht. exact (Ht _ Hin).
  - destruct (existsb _ t); discriminate.
Qed.

Lemma tab_parser_depth (t : list xentry) : pend_depth (tab_parser t) (table_depth t).
Proof.
  intros sts fed c H. unfold tab_parser in H.
  destruct (find _ t) as [[[s f] r]|] eqn:Ef.
  - apply find_some in Ef. destruct Ef as [Hin Heq]. subst r.
    apply andb_true_iff in Heq. destruct Heq as [Heq _].
    assert (Hlen : length sts = length s).
    { clear - Heq. unfold sts_eqb in Heq. revert s Heq.
      induction sts as [|a sts IH]; intros [|b s] H; cbn in *; try discriminate; [reflexivity|].
      apply andb_true_iff in H. destruct H as [_ H]. f_equal. now apply IH. }
    rewrite Hlen. unfold table_depth. clear - Hin.
    induction t as [|e t IH]; [contradiction|]. cbn [fold_right]. destruct Hin as [->|Hin].
    + cbn [fst]. lia.
    + specialize (IH Hin). lia.
  - destruct (existsb _ t); discriminate.
Qed.

(* ------------------------------------------------------------------ *)
(* Fuel.                                                               *)

Lemma fuel_never_runs_out_lemma parser (K fuel pf : nat) src (d : dev) :
  ends_at_eof parser -> pend_depth parser K -> (1 <= K)%nat ->
  (src_bytes src d + 2 <= pf)%nat -> (pf * K + 1 <= fuel)%nat ->
  f_tag (model_run parser fuel pf src d) <> FOutOfFuel.
Proof.
  intros He Hd HK Hpf Hf. rewrite model_refines_spec_lemma. unfold spec_run.
  apply (run_fuel parser K He Hd HK); [apply wf_split | | exact Hf].
  unfold src_bytes in Hpf. destruct src as [|d0|ls|d0]; cbn [abs_src src_size] in *; unfold abs_dev.
  - pose proof (split_lines_length (concat d)). lia.
  - pose proof (split_lines_length (concat d0)). lia.
  - lia.
  - pose proof (split_lines_length (concat d0)). lia.
Qed.

(* ------------------------------------------------------------------ *)
(* The `set -v` clause is silent on scripts that do not use it.        *)

Definition quiet_event (e : event) : bool :=
  match e with Ev k args _ _ => negb (N.eqb k 4) && negb (list_eqb str_eqb args vmark) end.

Lemma echo_walk_quiet script evs :
  forallb quiet_event evs = true -> echo_walk script None [] evs = (true, None, []).
Proof.
  induction evs as [|[k args st off] evs IH]; intros H; cbn [echo_walk]; [reflexivity|].
  cbn [forallb quiet_event] in H. apply andb_true_iff in H. destruct H as [H1 H2].
  apply andb_true_iff in H1. destruct H1 as [Hk Hv].
  apply negb_true_iff in Hk, Hv. rewrite Hk, Hv.
  destruct (N.eqb k 3); [now apply IH|]. now rewrite (IH H2).
Qed.

Lemma echo_clause_quiet_lemma script t s off evs :
  forallb quiet_event evs = true -> echo_ok script (t, s, off, evs) = true.
Proof. intros H. unfold echo_ok. now rewrite (echo_walk_quiet script evs H). Qed.
