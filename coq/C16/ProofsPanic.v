(* C16 — the panic sites of variable.rs are unreachable except the two
   documented ones. *)
From Yv Require Import Common.Base C16.Model C16.Spec C16.ProofsBase C16.ProofsAbs C16.ProofsProps C16.ProofsFrame.
From Coq Require Import Lia.

Lemma gon_loop_total cs b ci removed st :
  stack_ok cs b st -> b <= length cs -> exists st', gon_loop cs ci removed st = Some st'.
Proof.
  revert b removed. induction st as [|[v i] rest IH]; intros b removed Hok Hb; cbn [gon_loop]; [eauto|].
  destruct (i <? ci); [eauto|].
  cbn in Hok. destruct Hok as (H1 & H2 & _).
  destruct (nth_error cs i) as [[ps|]|] eqn:En; [eauto| |].
  - apply (IH i); [exact H2|lia].
  - exfalso. apply nth_error_None in En. lia.
Qed.


(* The only operations that panic in a state satisfying the invariant: popping
   the base context (impossible through the guards) and get_or_new with
   Scope::Volatile when the topmost context is not volatile (documented). *)
Lemma panic_lemma s o :
  Inv s -> step s o = None ->
  (o = OPop /\ length (ctxs s) = 1) \/
  (exists n ms, o = OGetOrNew n SVolatile ms /\ top_is_volatile (ctxs s) = false).
Proof.
  intros [Hk (ps0 & cs0 & Ecs) Hs] Hstep.
  destruct (topreg_some _ _ _ Ecs) as [tr Htr].
  destruct o as [c| |n sc ms|n sc|ps]; cbn [step] in Hstep.
  - discriminate.
  - left. split; [reflexivity|]. rewrite Ecs in *. destruct cs0; [reflexivity|discriminate].
  - right. destruct sc.
    + exfalso. cbn [get_or_new_stack] in Hstep.
      destruct (gon_loop_total (ctxs s) _ 0 None _ (Hs n) (le_n _)) as [st' E]. rewrite E in Hstep.
      pose proof (get_or_new_stack_nonempty (ctxs s) SGlobal _ _ E) as Hne.
      destruct st' as [|[v i] rest]; [congruence|]. destruct (mutate_all v ms); cbn in Hstep; discriminate.
    + exfalso. cbn [get_or_new_stack] in Hstep. rewrite Htr in Hstep.
      destruct (gon_loop_total (ctxs s) _ tr None _ (Hs n) (le_n _)) as [st' E]. rewrite E in Hstep.
      assert (Hne : st' <> []).
      { apply (get_or_new_stack_nonempty (ctxs s) SLocal (stack_of s n)). cbn. rewrite Htr. exact E. }
      destruct st' as [|[v i] rest]; [congruence|]. destruct (mutate_all v ms); cbn in Hstep; discriminate.
    + exists n, ms. split; [reflexivity|]. unfold top_is_volatile.
      cbn [get_or_new_stack] in Hstep. unfold gon_volatile in Hstep.
      destruct (ctxs s) as [|k0 ks] eqn:E; [discriminate|]. rewrite <- E in *.
      destruct (nth_error (ctxs s) (length (ctxs s) - 1)) as [[ps|]|]; try reflexivity.
      exfalso. destruct (stack_of s n) as [|[v i] rest].
      * destruct (mutate_all default_var ms) eqn:Em; cbn in Hstep; rewrite ?Em in Hstep; discriminate.
      * destruct (i =? length (ctxs s) - 1); destruct (mutate_all v ms); cbn in Hstep; discriminate.
  - exfalso. destruct (assoc n (vars s)); [|discriminate].
    assert (Hi : exists ci, index_of_context sc (ctxs s) = Some ci).
    { destruct sc; cbn; rewrite ?Htr; cbn; eauto. }
    destruct Hi as [ci Hi]. rewrite Hi in Hstep.
    destruct (span_ge ci l) as [u l']. destruct (first_ro u); discriminate.
  - exfalso. rewrite Htr in Hstep. discriminate.
Qed.

(* the read-only API never panics *)
Lemma reads_total s n sc :
  Inv s ->
  (exists x, get_scoped s n sc = Some x) /\ (exists l, iter s sc = Some l) /\
  (exists ps, positional_params s = Some ps).
Proof.
  intros [Hk (ps0 & cs0 & Ecs) Hs].
  destruct (topreg_some _ _ _ Ecs) as [tr Htr].
  assert (Hi : exists ci, index_of_context sc (ctxs s) = Some ci).
  { destruct sc; cbn; rewrite ?Htr; cbn; eauto. }
  destruct Hi as [ci Hi].
  split; [unfold get_scoped; rewrite Hi; eauto|].
  split; [unfold iter; rewrite Hi; eauto|].
  unfold positional_params. rewrite Htr.
  destruct (topreg_spec _ _ Htr) as (_ & (ps & Hn) & _). rewrite Hn. eauto.
Qed.

(* ==== the caller rules never reach a panic ================================================= *)

Section NoPanic.
Variable ov oe : vset -> pobs.
Notation mrun := (irun vset step ov oe).

Definition panics (l : list instr) (s : vset) : Prop := exists t s', mrun l s = (t, Panicked, s').

Definition shape (s : vset) : list bool := map is_regular (ctxs s).

Lemma panics_nil s : ~ panics [] s.
Proof. intros (t & s' & H). cbn in H. discriminate. Qed.

Lemma panics_obs_vars l s : panics (IObsVars :: l) s -> panics l s.
Proof.
  intros (t & s' & H). cbn [irun] in H. destruct (mrun l s) as [[t0 e0] s0] eqn:E.
  injection H as _ -> ->. exists t0, s'. exact E.
Qed.

Lemma panics_obs_env l s : panics (IObsEnv :: l) s -> panics l s.
Proof.
  intros (t & s' & H). cbn [irun] in H. destruct (mrun l s) as [[t0 e0] s0] eqn:E.
  injection H as _ -> ->. exists t0, s'. exact E.
Qed.

(* an operation that does not panic passes the panic on to what follows *)
Lemma panics_op o m l s s1 r :
  step s o = Some (s1, r) -> panics (IOp o m :: l) s ->
  panics l s1 \/ (m = ESkip /\ exists i l', l = i :: l' /\ panics l' s1).
Proof.
  intros Es (t & s' & H). cbn [irun] in H. rewrite Es in H.
  destruct (is_err r).
  - destruct m.
    + left. exists t, s'. exact H.
    + discriminate.
    + destruct l as [|i l']; [discriminate|].
      right. split; [reflexivity|]. exists i, l'. split; [reflexivity|]. exists t, s'. exact H.
  - left. exists t, s'. exact H.
Qed.

Lemma step_total s o :
  Inv s ->
  match o with
  | OPop => 2 <= length (ctxs s)
  | OGetOrNew _ SVolatile _ => top_is_volatile (ctxs s) = true
  | _ => True
  end ->
  exists s1 r, step s o = Some (s1, r).
Proof.
  intros HI H. destruct (step s o) as [[s1 r]|] eqn:E; [eauto|].
  exfalso. destruct (panic_lemma s o HI E) as [[-> Hl]|(n & ms & -> & Hv)]; [lia|congruence].
Qed.

Lemma shape_same s s1 : ctxs s1 = ctxs s -> shape s1 = shape s.
Proof. unfold shape. intros ->. reflexivity. Qed.

Lemma step_name_ctxs s o s1 r :
  step s o = Some (s1, r) ->
  match o with OGetOrNew _ _ _ | OUnset _ _ => ctxs s1 = ctxs s | _ => True end.
Proof.
  destruct o; try exact (fun _ => I); intros H.
  - cbn [step] in H. destruct (get_or_new_stack _ _ _) as [[|[v j] rest]|]; try discriminate.
    destruct (mutate_all v ms). injection H as <- <-. reflexivity.
  - cbn [step] in H. destruct (assoc n (vars s)) as [st|]; [|injection H as <- <-; reflexivity].
    destruct (index_of_context sc (ctxs s)); [|discriminate].
    destruct (span_ge _ _) as [u0 l0]. destruct (first_ro u0); injection H as <- <-; reflexivity.
Qed.

(* a neutral, non-Volatile-scoped operation on names: passes the panic on *)
Lemma panics_plain o m l s :
  Inv s -> panics (IOp o m :: l) s -> m <> ESkip ->
  match o with
  | OGetOrNew _ SGlobal _ | OGetOrNew _ SLocal _ | OUnset _ _ | OSetParams _ => True
  | _ => False
  end ->
  exists s1, Inv s1 /\ shape s1 = shape s /\ panics l s1.
Proof.
  intros HI Hp Hm Ho.
  assert (Ht : exists s1 r, step s o = Some (s1, r)).
  { apply step_total; [exact HI|]. destruct o as [| |n sc ms| |]; try exact I; try contradiction.
    destruct sc; [exact I|exact I|contradiction]. }
  destruct Ht as (s1 & r & Es).
  destruct (panics_op _ _ _ _ _ _ Es Hp) as [H|[H _]]; [|congruence].
  exists s1. split; [eapply inv_step; eassumption|]. split; [|exact H].
  destruct o as [| |n sc ms|n sc|ps]; try contradiction.
  - apply shape_same. apply (step_name_ctxs _ _ _ _ Es).
  - apply shape_same. apply (step_name_ctxs _ _ _ _ Es).
  - cbn [step] in Es. destruct (topreg (ctxs s)) as [i|] eqn:Et; [|discriminate].
    injection Es as <- <-. unfold shape. cbn [ctxs].
    destruct (topreg_spec _ _ Et) as (Hi & (ps' & Hn) & _).
    clear - Hi Hn. revert i Hi Hn. induction (ctxs s) as [|k cs IH]; intros [|i] Hi Hn; cbn in *; try lia.
    + injection Hn as ->. reflexivity.
    + f_equal. apply IH; [lia|exact Hn].
Qed.

Lemma temp_global_no_panic temps : forall l s,
  Inv s -> panics (temp_global temps ++ l) s ->
  exists s1, Inv s1 /\ shape s1 = shape s /\ panics l s1.
Proof.
  induction temps as [|[n v] temps IH]; intros l s HI Hp; cbn [temp_global map app] in *; [eauto|].
  destruct (panics_plain _ _ _ _ HI Hp ltac:(discriminate) I) as (s1 & HI1 & Hs1 & Hp1).
  destruct (IH l s1 HI1 Hp1) as (s2 & HI2 & Hs2 & Hp2).
  exists s2. split; [exact HI2|]. split; [congruence|exact Hp2].
Qed.

Lemma temp_volatile_no_panic temps : forall l s,
  Inv s -> top_is_volatile (ctxs s) = true -> panics (temp_volatile temps ++ l) s ->
  exists s1, Inv s1 /\ ctxs s1 = ctxs s /\ panics l s1.
Proof.
  induction temps as [|[n v] temps IH]; intros l s HI Hv Hp; cbn [temp_volatile map app] in *; [eauto|].
  destruct (step_total s (OGetOrNew n SVolatile [MAssign v (Some 0%N); MExport true]) HI Hv) as (s1 & r & Es).
  pose proof (step_name_ctxs _ _ _ _ Es) as Hc. cbn in Hc.
  destruct (panics_op _ _ _ _ _ _ Es Hp) as [H|[H _]]; [|discriminate].
  destruct (IH l s1 (inv_step _ _ _ _ HI Es) ltac:(rewrite Hc; exact Hv) H) as (s2 & HI2 & Hc2 & Hp2).
  exists s2. split; [exact HI2|]. split; [congruence|exact Hp2].
Qed.

Lemma top_volatile_push cs : top_is_volatile (cs ++ [CVolatile]) = true.
Proof.
  unfold top_is_volatile. rewrite app_length. cbn [length].
  replace (length cs + 1 - 1) with (length cs) by lia.
  rewrite nth_error_app2 by lia. rewrite Nat.sub_diag. reflexivity.
Qed.

(* push a volatile context, make the temporary assignments, run [mid], pop *)
Lemma bracket_no_panic temps (mid : list instr) l s :
  Inv s ->
  (forall s1, Inv s1 -> ctxs s1 = ctxs s ++ [CVolatile] ->
              panics (mid ++ IOp OPop EIgnore :: l) s1 ->
              exists s2, Inv s2 /\ shape s2 = shape s1 /\ panics (IOp OPop EIgnore :: l) s2) ->
  panics (IOp (OPush CVolatile) EIgnore :: temp_volatile temps ++ mid ++ IOp OPop EIgnore :: l) s ->
  exists s3, Inv s3 /\ shape s3 = shape s /\ panics l s3.
Proof.
  intros HI Hmid Hp.
  set (s0 := mkVS (vars s) (ctxs s ++ [CVolatile])).
  assert (Es0 : step s (OPush CVolatile) = Some (s0, RUnit)) by reflexivity.
  destruct (panics_op _ _ _ _ _ _ Es0 Hp) as [H|[H _]]; [|discriminate].
  destruct (temp_volatile_no_panic temps _ s0 (inv_step _ _ _ _ HI Es0) (top_volatile_push _) H)
    as (s1 & HI1 & Hc1 & Hp1).
  destruct (Hmid s1 HI1 Hc1 Hp1) as (s2 & HI2 & Hs2 & Hp2).
  assert (Hlen2 : length (ctxs s2) = S (length (ctxs s))).
  { assert (E : length (shape s2) = length (shape s1)) by congruence.
    unfold shape in E. rewrite !map_length in E. rewrite E, Hc1. unfold s0. cbn [ctxs].
    rewrite app_length. cbn. lia. }
  assert (Hl1 : 1 <= length (ctxs s)).
  { destruct HI as [_ (ps0 & cs0 & E) _]. rewrite E. cbn. lia. }
  destruct (step_total s2 OPop HI2 ltac:(cbn; lia)) as (s3 & r & Es3).
  destruct (panics_op _ _ _ _ _ _ Es3 Hp2) as [H3|[H3 _]]; [|discriminate].
  exists s3. split; [eapply inv_step; eassumption|]. split; [|exact H3].
  destruct (pop_lemma _ _ _ HI2 Es3) as (Hc3 & _).
  unfold shape in *. rewrite Hc3. rewrite Hc1 in Hs2. unfold s0 in Hs2. cbn [ctxs] in Hs2.
  rewrite map_app in Hs2. cbn in Hs2.
  clear - Hs2. revert Hs2. generalize (ctxs s2) (ctxs s). intros c2 c.
  intros H. assert (E : map is_regular (removelast c2) = removelast (map is_regular c2)).
  { clear. induction c2 as [|x [|y c2] IH]; cbn in *; try reflexivity. f_equal. exact IH. }
  rewrite E, H. apply removelast_last.
Qed.

Definition no_panic_inside (l0 : list instr) : Prop :=
  forall l s, Inv s -> panics (l0 ++ l) s -> exists s1, Inv s1 /\ shape s1 = shape s /\ panics l s1.

Lemma no_panic_app l1 l2 : no_panic_inside l1 -> no_panic_inside l2 -> no_panic_inside (l1 ++ l2).
Proof.
  intros H1 H2 l s HI Hp. rewrite <- app_assoc in Hp.
  destruct (H1 _ _ HI Hp) as (s1 & HI1 & Hs1 & Hp1).
  destruct (H2 _ _ HI1 Hp1) as (s2 & HI2 & Hs2 & Hp2).
  exists s2. split; [exact HI2|]. split; [congruence|exact Hp2].
Qed.

Lemma no_panic_flat_map body :
  Forall (fun c => no_panic_inside (compile c)) body -> no_panic_inside (flat_map compile body).
Proof.
  induction 1 as [|c body Hc _ IH]; cbn [flat_map]; [intros l s HI Hp; eauto|].
  apply no_panic_app; assumption.
Qed.

Lemma compile_no_panic c : no_panic_inside (compile c).
Proof.
  induction c as [a|t|t|t body a IH|t g x r m v|m v|m v|m|ps|t|t m ln|m vals body IH|] using ProofsFrame.cmd_ind';
    intros l s HI Hp; try rewrite compile_call in Hp; cbn [compile] in Hp.
  - apply (temp_global_no_panic a l s HI Hp).
  - (* probe *)
    cbn [app] in Hp. rewrite <- app_assoc in Hp. cbn [app] in Hp.
    apply (bracket_no_panic t [IObsVars] l s HI); [|exact Hp].
    intros s1 HI1 Hc1 H. cbn [app] in H. apply panics_obs_vars in H. eauto.
  - apply (temp_global_no_panic t l s HI Hp).
  - (* call *)
    assert (Hp' : panics (IOp (OPush CVolatile) EIgnore :: temp_volatile t ++
              (IOp (OPush (CRegular a)) EIgnore :: flat_map compile (cut_return body) ++ [IOp OPop EIgnore])
              ++ IOp OPop EIgnore :: l) s).
    { cbn [app] in *. rewrite <- !app_assoc in Hp. cbn [app] in Hp.
      rewrite <- !app_assoc. cbn [app]. rewrite <- !app_assoc in Hp. exact Hp. }
    apply (bracket_no_panic t (IOp (OPush (CRegular a)) EIgnore
             :: flat_map compile (cut_return body) ++ [IOp OPop EIgnore]) l s HI); [|exact Hp'].
    intros s1 HI1 Hc1 H. cbn [app] in H. rewrite <- app_assoc in H. cbn [app] in H.
    set (s2 := mkVS (vars s1) (ctxs s1 ++ [CRegular a])).
    assert (Es2 : step s1 (OPush (CRegular a)) = Some (s2, RUnit)) by reflexivity.
    destruct (panics_op _ _ _ _ _ _ Es2 H) as [H2|[H2 _]]; [|discriminate].
    destruct (no_panic_flat_map (cut_return body) (Forall_cut_return _ _ IH) _ s2 (inv_step _ _ _ _ HI1 Es2) H2) as (s3 & HI3 & Hs3 & Hp3).
    assert (Hlen3 : length (ctxs s3) = S (length (ctxs s1))).
    { assert (E : length (shape s3) = length (shape s2)) by congruence.
      unfold shape in E. rewrite !map_length in E. rewrite E. cbn. rewrite app_length. cbn. lia. }
    destruct (step_total s3 OPop HI3 ltac:(cbn; rewrite Hlen3, Hc1, app_length; cbn; lia)) as (s4 & r4 & Es4).
    destruct (panics_op _ _ _ _ _ _ Es4 Hp3) as [H4|[H4 _]]; [|discriminate].
    exists s4. split; [eapply inv_step; eassumption|]. split; [|exact H4].
    destruct (pop_lemma _ _ _ HI3 Es4) as (Hc4 & _).
    unfold shape in *. rewrite Hc4. cbn [s2 ctxs] in Hs3. rewrite map_app in Hs3. cbn in Hs3.
    clear - Hs3. revert Hs3. generalize (ctxs s3) (ctxs s1). intros c3 c1 H.
    assert (E : map is_regular (removelast c3) = removelast (map is_regular c3)).
    { clear. induction c3 as [|x0 [|y0 c3] IH]; cbn in *; try reflexivity. f_equal. exact IH. }
    rewrite E, H. apply removelast_last.
  - (* typeset *)
    set (sc := if g then SGlobal else SLocal) in Hp.
    assert (Hsc : forall ms, match OGetOrNew m sc ms with
                  | OGetOrNew _ SGlobal _ | OGetOrNew _ SLocal _ | OUnset _ _ | OSetParams _ => True
                  | _ => False end) by (intros ms; subst sc; destruct g; exact I).
    destruct v as [val|]; cbn [app] in Hp; rewrite <- app_assoc in Hp; cbn [app] in Hp.
    + (* assign with ESkip, then attributes *)
      match type of Hp with panics (_ :: _ ++ ?i1 :: ?i2 :: _ :: _) _ =>
        apply (bracket_no_panic t [i1; i2] l s HI); [|exact Hp] end.
      intros s1 HI1 Hc1 H. cbn [app] in H.
      destruct (step_total s1 (OGetOrNew m sc [MAssign val (Some 0%N)]) HI1
                  ltac:(subst sc; destruct g; exact I)) as (s2 & r2 & Es2).
      pose proof (step_name_ctxs _ _ _ _ Es2) as Hc2. cbn in Hc2.
      pose proof (inv_step _ _ _ _ HI1 Es2) as HI2.
      destruct (panics_op _ _ _ _ _ _ Es2 H) as [H2|[_ (i & l' & El & H2)]].
      * match type of H2 with panics (IOp (OGetOrNew _ _ ?ms) _ :: _) _ =>
          destruct (panics_plain _ _ _ _ HI2 H2 ltac:(discriminate) (Hsc ms)) as (s3 & HI3 & Hs3 & Hp3) end.
        exists s3. split; [exact HI3|]. split; [rewrite Hs3; apply shape_same; exact Hc2|exact Hp3].
      * injection El as <- <-. exists s2. split; [exact HI2|]. split; [apply shape_same; exact Hc2|exact H2].
    + match type of Hp with panics (_ :: _ ++ ?i1 :: _ :: _) _ =>
        apply (bracket_no_panic t [i1] l s HI); [|exact Hp] end.
      intros s1 HI1 Hc1 H. cbn [app] in H.
      match type of H with panics (IOp (OGetOrNew _ _ ?ms) _ :: _) _ =>
        destruct (panics_plain _ _ _ _ HI1 H ltac:(discriminate) (Hsc ms)) as (s3 & HI3 & Hs3 & Hp3) end.
      eauto.
  - apply (panics_plain _ _ _ _ HI Hp ltac:(discriminate) I).
  - apply (panics_plain _ _ _ _ HI Hp ltac:(discriminate) I).
  - apply (panics_plain _ _ _ _ HI Hp ltac:(discriminate) I).
  - apply (panics_plain _ _ _ _ HI Hp ltac:(discriminate) I).
  - (* exec *)
    cbn [app] in Hp. rewrite <- app_assoc in Hp. cbn [app] in Hp.
    apply (bracket_no_panic t [IObsEnv] l s HI); [|exact Hp].
    intros s1 HI1 Hc1 H. cbn [app] in H. apply panics_obs_env in H. eauto.
  - (* read *)
    cbn [app] in Hp. rewrite <- app_assoc in Hp. cbn [app] in Hp.
    apply (bracket_no_panic t [IOp (OGetOrNew m SGlobal [MAssign (Scalar ln) (Some 0%N)]) EIgnore] l s HI);
      [|exact Hp].
    intros s1 HI1 Hc1 H. cbn [app] in H.
    apply (panics_plain _ _ _ _ HI1 H ltac:(discriminate) I).
  - (* for *)
    revert s HI Hp. induction vals as [|v vals IHv]; intros s HI Hp; cbn [flat_map app] in Hp; [eauto|].
    rewrite <- app_assoc in Hp. cbn [app] in Hp.
    destruct (panics_plain _ _ _ _ HI Hp ltac:(discriminate) I) as (s1 & HI1 & Hs1 & Hp1).
    destruct (no_panic_flat_map body IH _ s1 HI1 Hp1) as (s2 & HI2 & Hs2 & Hp2).
    destruct (IHv s2 HI2 Hp2) as (s3 & HI3 & Hs3 & Hp3).
    exists s3. split; [exact HI3|]. split; [congruence|exact Hp3].
  - cbn [app] in Hp. eauto.
Qed.

Lemma script_no_panic cs s : Inv s -> ~ panics (compile_script cs) s.
Proof.
  intros HI Hp.
  assert (H : no_panic_inside (compile_script cs)).
  { apply no_panic_flat_map. apply Forall_forall. intros c _. apply compile_no_panic. }
  destruct (H [] s HI ltac:(rewrite app_nil_r; exact Hp)) as (s1 & _ & _ & Hn).
  exact (panics_nil _ Hn).
Qed.

End NoPanic.

Lemma run_script_no_panic names cs :
  match run_script names cs with (_, e, _) => e <> Panicked end.
Proof.
  unfold run_script.
  destruct (irun vset step (m_obs_vars names) (m_obs_env names) (compile_script cs) init)
    as [[t e] s'] eqn:E.
  intros ->. apply (script_no_panic (m_obs_vars names) (m_obs_env names) cs init inv_init).
  exists t, s'. exact E.
Qed.
