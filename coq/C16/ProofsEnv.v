(* C16 — the environment of executed programs at the script level, and array
   values in the environment. *)
From Yv Require Import Common.Base C16.Model C16.Spec C16.ProofsBase C16.ProofsAbs C16.ProofsProps
  C16.ProofsFrame C16.ProofsPanic.
From Coq Require Import Lia.

(* ---- arrays are joined with ':' ----------------------------------------------------- *)

Lemma join_colon_cons2 x y l : join_colon (x :: y :: l) = x ++ COLON :: join_colon (y :: l).
Proof. reflexivity. Qed.


Lemma split_on_app_nocolon c acc (y x : str) :
  ~ In c y -> split_on c acc (y ++ x) = split_on c (rev y ++ acc) x.
Proof.
  revert acc. induction y as [|d y IH]; intros acc H; cbn [app split_on rev]; [reflexivity|].
  destruct (N.eqb d c) eqn:E.
  - apply N.eqb_eq in E. subst d. exfalso. apply H. left; reflexivity.
  - rewrite IH by (intros Hin; apply H; right; exact Hin). rewrite <- app_assoc. reflexivity.
Qed.

(* joining with ':' loses nothing: the items (none containing ':') are recovered *)
Lemma join_colon_split l :
  l <> [] -> Forall (fun x => ~ In COLON x) l -> split_on COLON [] (join_colon l) = l.
Proof.
  induction l as [|x l IH]; [congruence|]. intros _ Hf.
  inversion Hf as [|? ? Hx Hl]; subst.
  destruct l as [|y l].
  - cbn [join_colon]. rewrite <- (app_nil_r x) at 1. rewrite split_on_app_nocolon by exact Hx.
    cbn [split_on]. rewrite app_nil_r, rev_involutive. reflexivity.
  - rewrite join_colon_cons2. rewrite split_on_app_nocolon by exact Hx.
    cbn [split_on]. rewrite N.eqb_refl, app_nil_r, rev_involutive.
    f_equal. apply IH; [discriminate|exact Hl].
Qed.

Lemma notin_existsb_false c (x : str) : ~ In c x -> existsb (N.eqb c) x = false.
Proof.
  intros H. destruct (existsb (N.eqb c) x) eqn:E; [|reflexivity].
  apply existsb_exists in E. destruct E as (d & Hd & Hc). apply N.eqb_eq in Hc. subst d. contradiction.
Qed.

Lemma env_array_lemma s n v l :
  Inv s -> get s n = Some v -> vval v = Some (Array l) -> vexp v = true ->
  ~ In EQ n -> ~ In 0%N (n ++ EQ :: join_colon l) ->
  In (n ++ EQ :: join_colon l) (env_c_strings s).
Proof.
  intros HI Hg Hv He Hn H0. apply (env_lemma s _ HI). exists n, v. split; [exact Hg|].
  apply env_entry_meaning. split; [exact He|]. split; [exact Hn|].
  exists (Array l). split; [exact Hv|]. split; [reflexivity|exact H0].
Qed.

(* ---- what an executed program receives, for every script ------------------------------ *)

Section ScriptEnv.
Variable names : list name.
Notation mrun := (irun vset step (m_obs_vars names) (m_obs_env names)).


Lemma irun_env_ok fuel : forall l, length l <= fuel -> forall s t e s',
  Inv s -> mrun l s = (t, e, s') -> Forall (env_ok names) t.
Proof.
  induction fuel as [|fuel IH]; intros l Hl s t e s' HI H.
  { destruct l; [|cbn in Hl; lia]. cbn in H. injection H as <- _ _. constructor. }
  destruct l as [|i l]; [cbn in H; injection H as <- _ _; constructor|]. cbn [length] in Hl.
  destruct i as [o m| |]; cbn [irun] in H.
  - destruct (step s o) as [[s1 r]|] eqn:Es; [|injection H as <- _ _; constructor].
    pose proof (inv_step _ _ _ _ HI Es) as HI1.
    destruct (is_err r).
    + destruct m.
      * apply (IH l ltac:(lia) s1 t e s' HI1 H).
      * injection H as <- _ _. constructor.
      * destruct l as [|i2 l']; [injection H as <- _ _; constructor|].
        apply (IH l' ltac:(cbn [length] in Hl; lia) s1 t e s' HI1 H).
    + apply (IH l ltac:(lia) s1 t e s' HI1 H).
  - destruct (mrun l s) as [[t0 e0] s0] eqn:E. injection H as <- _ _.
    constructor; [exact I|]. apply (IH l ltac:(lia) s t0 e0 s0 HI E).
  - destruct (mrun l s) as [[t0 e0] s0] eqn:E. injection H as <- _ _.
    constructor; [|apply (IH l ltac:(lia) s t0 e0 s0 HI E)].
    exists s. split; [exact HI|]. split; [reflexivity|]. intros x. apply env_lemma. exact HI.
Qed.

Lemma script_env_lemma cs :
  match run_script names cs with (t, _, _) => Forall (env_ok names) t end.
Proof.
  unfold run_script. destruct (mrun (compile_script cs) init) as [[t e] s'] eqn:E.
  apply (irun_env_ok _ _ (le_n _) init t e s' inv_init E).
Qed.

End ScriptEnv.

(* ---- the temporary assignments of the command are in that environment ------------------ *)


Lemma assoc_app_some {A} n (l1 l2 : list (name * A)) :
  assoc n (l1 ++ l2) = match assoc n l1 with Some x => Some x | None => assoc n l2 end.
Proof.
  induction l1 as [|[m x] l1 IH]; cbn; [reflexivity|]. destruct (str_eqb m n); [reflexivity|exact IH].
Qed.

Lemma temp_step s n v s1 r :
  step s (OGetOrNew n SVolatile [MAssign v (Some 0%N); MExport true]) = Some (s1, r) ->
  is_err r = false ->
  (exists w, get s1 n = Some w /\ vval w = Some v /\ vexp w = true) /\
  (forall m, m <> n -> get s1 m = get s m).
Proof.
  cbn [step]. destruct (get_or_new_stack (ctxs s) SVolatile (stack_of s n)) as [[|[v0 j] rest]|]; try discriminate.
  cbn [mutate_all mutate]. destruct (vro v0) eqn:Ero.
  - intros [= <- <-]. cbn. discriminate.
  - intros [= <- <-] _. split.
    + unfold get. rewrite stack_of_with_same. eexists; repeat split.
    + intros m Hm. unfold get. rewrite stack_of_with_other by exact Hm. reflexivity.
Qed.

Section Temps.
Variable ov oe : vset -> pobs.
Notation mrun := (irun vset step ov oe).

(* after the temporaries have been assigned without error, every one of them
   is visible, exported, with the value assigned last *)
Lemma temps_visible temps : forall l s t e s',
  Inv s -> top_is_volatile (ctxs s) = true ->
  mrun (temp_volatile temps ++ l) s = (t, e, s') ->
  (e = Exited /\ t = []) \/
  exists s1, mrun l s1 = (t, e, s') /\ Inv s1 /\
             (forall n v, last_temp n temps = Some v ->
                          exists w, get s1 n = Some w /\ vval w = Some v /\ vexp w = true) /\
             (forall n, last_temp n temps = None -> get s1 n = get s n).
Proof.
  induction temps as [|[n v] temps IH]; intros l s t e s' HI Hv; cbn [temp_volatile map app fst snd].
  - intros H. right. exists s. split; [exact H|]. split; [exact HI|]. split; [intros n v; discriminate|]. auto.
  - cbn [irun].
    destruct (step_total s (OGetOrNew n SVolatile [MAssign v (Some 0%N); MExport true]) HI Hv) as (s1 & r & Es).
    rewrite Es. cbv beta iota.
    destruct (is_err r) eqn:Er; [intros [= <- <- _]; left; auto|].
    intros H. destruct (temp_step _ _ _ _ _ Es Er) as [(w & Hw1 & Hw2 & Hw3) Hother].
    pose proof (step_name_ctxs _ _ _ _ Es) as Hc. cbn in Hc.
    pose proof (inv_step _ _ _ _ HI Es) as HI1.
    destruct (IH l s1 t e s' HI1 ltac:(rewrite Hc; exact Hv) H) as [A|(s2 & Hrun & HI2 & Hsome & Hnone)]; [left; exact A|].
    right. exists s2. split; [exact Hrun|]. split; [exact HI2|].
    unfold last_temp in *. cbn [rev]. split.
    + intros m x. rewrite assoc_app_some. destruct (assoc m (rev temps)) as [y|] eqn:Ea.
      * intros [= <-]. apply Hsome. exact Ea.
      * cbn [assoc]. destruct (str_eqb n m) eqn:Enm; [|discriminate]. intros [= <-].
        apply str_eqb_eq in Enm. subst m. rewrite (Hnone n Ea). eauto.
    + intros m. rewrite assoc_app_some. destruct (assoc m (rev temps)) eqn:Ea; [discriminate|].
      cbn [assoc]. destruct (str_eqb n m) eqn:Enm; [discriminate|]. intros _.
      rewrite (Hnone m Ea). apply Hother. intros ->. rewrite str_eqb_refl in Enm. discriminate.
Qed.

(* An external utility started with temporary assignments: unless an
   assignment fails (the shell exits), the first observation is the
   environment of a state in which every temporary is visible and exported
   with its value, and every other name is as before the command. *)
Lemma exec_env_lemma temps l s t e s' :
  Inv s -> mrun (compile (CExec temps) ++ l) s = (t, e, s') ->
  (e = Exited /\ t = []) \/
  exists s1 t', t = oe s1 :: t' /\ Inv s1 /\
    (forall n v, last_temp n temps = Some v ->
                 exists w, get s1 n = Some w /\ vval w = Some v /\ vexp w = true) /\
    (forall n, last_temp n temps = None -> get s1 n = get s n).
Proof.
  intros HI. cbn [compile app]. rewrite <- app_assoc. cbn [irun step is_err].
  set (s0 := mkVS (vars s) (ctxs s ++ [CVolatile])).
  assert (Es0 : step s (OPush CVolatile) = Some (s0, RUnit)) by reflexivity.
  pose proof (inv_step _ _ _ _ HI Es0) as HI0.
  intros H.
  destruct (temps_visible temps _ s0 t e s' HI0 (top_volatile_push _) H) as [A|(s1 & Hrun & HI1 & Hsome & Hnone)].
  - left; exact A.
  - right. cbn [app] in Hrun.
    change (mrun (IObsEnv :: IOp OPop EIgnore :: l) s1)
      with (let '(t0, e0, s0') := mrun (IOp OPop EIgnore :: l) s1 in (oe s1 :: t0, e0, s0')) in Hrun.
    destruct (mrun (IOp OPop EIgnore :: l) s1) as [[t0 e0] s0'] eqn:E. injection Hrun as <- <- <-.
    exists s1, t0. split; [reflexivity|]. split; [exact HI1|].
    split; [exact Hsome|]. intros n Hn. rewrite (Hnone n Hn). reflexivity.
Qed.
End Temps.

(* ---- the quirk is only a flag ------------------------------------------------------------ *)

Lemma set_quirk_lemma v q :
  let v' := fst (mutate v (MSetQuirk q)) in
  vval v' = vval v /\ vloc v' = vloc v /\ vexp v' = vexp v /\ vro v' = vro v /\ vquirk v' = q.
Proof. cbn. auto. Qed.

Lemma quirk_env_lemma n v q :
  env_entry n (fst (mutate v (MSetQuirk q))) = env_entry n v.
Proof. reflexivity. Qed.
