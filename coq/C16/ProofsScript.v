(* C16 — scripts: running the compiled instructions on the model and on the
   stack of maps gives the same observations. *)
From Yv Require Import Common.Base C16.Model C16.Spec C16.ProofsBase C16.ProofsAbs C16.ProofsProps.
From Coq Require Import Lia.

Lemma is_prefix_spec (p x : str) : is_prefix p x = true <-> exists r, x = p ++ r.
Proof.
  unfold is_prefix. rewrite str_eqb_eq. split.
  - intros H. exists (skipn (length p) x). rewrite H at 1. symmetry. apply firstn_skipn.
  - intros [r ->]. rewrite firstn_app, Nat.sub_diag, firstn_all. cbn. rewrite app_nil_r. reflexivity.
Qed.

Lemma prefix_name (n n' val r : str) :
  ~ In EQ n -> ~ In EQ n' -> n ++ EQ :: val = (n' ++ [EQ]) ++ r -> n = n'.
Proof.
  intros H1 H2 E. rewrite <- app_assoc in E. cbn in E.
  eapply env_string_name; eassumption.
Qed.

Lemma NoDup_filter' {A} (f : A -> bool) (l : list A) : NoDup l -> NoDup (filter f l).
Proof.
  induction 1 as [|x l Hn Hd IH]; cbn; [constructor|].
  destruct (f x); [|exact IH]. constructor; [|exact IH].
  intros H. apply filter_In in H. tauto.
Qed.

Section ScriptSim.
Variable names : list name.
Hypothesis names_noeq : forall n, In n names -> ~ In EQ n.
Hypothesis names_nodup : NoDup names.

Lemma s_env_in a z :
  In z (s_env names a) <-> exists n v, In n names /\ slookup a n = Some v /\ env_entry n v = Some z.
Proof.
  unfold s_env. rewrite in_flat_map. split.
  - intros (n & Hn & Hz). destruct (slookup a n) as [v|] eqn:E; [|destruct Hz].
    destruct (env_entry n v) as [y|] eqn:Ee; [|destruct Hz]. destruct Hz as [<-|[]]. eauto.
  - intros (n & v & Hn & Hl & He). exists n. split; [exact Hn|]. rewrite Hl, He. left; reflexivity.
Qed.

Lemma s_env_nodup a : NoDup (s_env names a).
Proof.
  unfold s_env. apply nodup_flat_map; [exact names_nodup| |].
  - intros n. destruct (slookup a n) as [v|]; [|constructor].
    destruct (env_entry n v); [|constructor]. constructor; [intros []|constructor].
  - intros n1 n2 x _ _.
    destruct (slookup a n1) as [v1|]; [|intros []]. destruct (slookup a n2) as [v2|]; [|intros _ []].
    destruct (env_entry n1 v1) as [y1|] eqn:E1; [|intros []].
    destruct (env_entry n2 v2) as [y2|] eqn:E2; [|intros _ []].
    intros [<-|[]] [<-|[]].
    apply env_entry_meaning in E1. apply env_entry_meaning in E2.
    destruct E1 as (_ & Hn1 & val1 & _ & Ex1 & _). destruct E2 as (_ & Hn2 & val2 & _ & Ex2 & _).
    apply (env_string_name n1 n2 (value_string val1) (value_string val2) Hn1 Hn2). congruence.
Qed.

Lemma env_sim s a z :
  Inv s -> Abs s a ->
  (In z (env_of_names names (env_c_strings s)) <-> In z (s_env names a)).
Proof.
  intros HI HA. unfold env_of_names. rewrite filter_In, s_env_in, (env_lemma s z HI). split.
  - intros [(n & v & Hg & He) Hp]. apply existsb_exists in Hp. destruct Hp as (n' & Hn' & Hp).
    apply is_prefix_spec in Hp. destruct Hp as [r Hr].
    pose proof He as He'. apply env_entry_meaning in He'.
    destruct He' as (_ & Hnoeq & val & _ & Hz & _).
    assert (n = n') by (eapply (prefix_name n n' (value_string val) r); [exact Hnoeq|apply names_noeq; exact Hn'|congruence]).
    subst n'. exists n, v. split; [exact Hn'|]. split; [|exact He].
    rewrite <- (get_spec_lookup s a n HA). exact Hg.
  - intros (n & v & Hn & Hl & He). split.
    + exists n, v. split; [|exact He]. rewrite (get_spec_lookup s a n HA). exact Hl.
    + apply existsb_exists. exists n. split; [exact Hn|]. apply is_prefix_spec.
      apply env_entry_meaning in He. destruct He as (_ & _ & val & _ & -> & _).
      exists (value_string val). rewrite <- app_assoc. reflexivity.
Qed.


Lemma obs_vars_sim s a : Inv s -> Abs s a -> pobs_equiv (m_obs_vars names s) (s_obs_vars names a).
Proof.
  intros HI HA. unfold m_obs_vars, s_obs_vars, pobs_equiv. split.
  - apply map_ext. intros n. rewrite (get_spec_lookup s a n HA). reflexivity.
  - rewrite (params_sim s a HI HA). reflexivity.
Qed.

Lemma obs_env_sim s a : Inv s -> Abs s a -> pobs_equiv (m_obs_env names s) (s_obs_env names a).
Proof.
  intros HI HA. unfold m_obs_env, s_obs_env, pobs_equiv. split; [|split].
  - intros z. apply env_sim; assumption.
  - apply NoDup_filter'. apply env_nodup_lemma. exact HI.
  - apply s_env_nodup.
Qed.

Lemma irun_sim l : forall s a, Inv s -> Abs s a ->
  match irun vset step (m_obs_vars names) (m_obs_env names) l s,
        irun sstate sstep (s_obs_vars names) (s_obs_env names) l a with
  | (tm, em, s'), (ts, es, a') =>
      em = es /\ Forall2 pobs_equiv tm ts /\ (em <> Panicked -> Inv s' /\ Abs s' a')
  end.
Proof.
  remember (length l) as fuel eqn:Hf. assert (Hle : length l <= fuel) by lia. clear Hf.
  revert l Hle. induction fuel as [|fuel IH]; intros l Hle s a HI HA.
  { destruct l; [|cbn in Hle; lia]. cbn. auto. }
  destruct l as [|i l]; [cbn; auto|]. cbn [length] in Hle.
  destruct i as [o m| |]; cbn [irun].
  - pose proof (sim_step s a o HI HA) as Hsim.
    destruct (step s o) as [[s1 r]|] eqn:Es; destruct (sstep a o) as [[a1 r']|] eqn:Ea; try contradiction.
    + destruct Hsim as [HA1 <-]. pose proof (inv_step _ _ _ _ HI Es) as HI1.
      destruct (is_err r).
      * destruct m.
        -- apply IH; [lia|exact HI1|exact HA1].
        -- split; [reflexivity|]. split; [constructor|]. auto.
        -- destruct l as [|i2 l']; [split; [reflexivity|]; split; [constructor|]; auto|].
           apply IH; [cbn [length] in Hle; lia|exact HI1|exact HA1].
      * apply IH; [lia|exact HI1|exact HA1].
    + split; [reflexivity|]. split; [constructor|]. intros H; congruence.
  - specialize (IH l ltac:(lia) s a HI HA).
    destruct (irun vset step _ _ l s) as [[tm em] s'].
    destruct (irun sstate sstep _ _ l a) as [[ts es] a'].
    destruct IH as (A & B & C). split; [exact A|]. split; [|exact C].
    constructor; [apply obs_vars_sim; assumption|exact B].
  - specialize (IH l ltac:(lia) s a HI HA).
    destruct (irun vset step _ _ l s) as [[tm em] s'].
    destruct (irun sstate sstep _ _ l a) as [[ts es] a'].
    destruct IH as (A & B & C). split; [exact A|]. split; [|exact C].
    constructor; [apply obs_env_sim; assumption|exact B].
Qed.

Lemma script_sim cs :
  match run_script names cs, srun_script names cs with
  | (tm, em, _), (ts, es, _) => em = es /\ Forall2 pobs_equiv tm ts
  end.
Proof.
  unfold run_script, srun_script.
  pose proof (irun_sim (compile_script cs) init sinit inv_init abs_init) as H.
  destruct (irun vset step _ _ _ init) as [[tm em] s'].
  destruct (irun sstate sstep _ _ _ sinit) as [[ts es] a']. tauto.
Qed.

End ScriptSim.
