(* C16 — the scope chosen by the built-ins, seen after the return of a function:
   what readonly / export do inside a function (Scope::Global: the visible
   variable or a new one in the base context) persists after the return,
   what typeset without -g does (Scope::Local) does not; at top level the two
   scopes coincide. *)
From Yv Require Import Common.Base C16.Model C16.Spec C16.ProofsBase C16.ProofsAbs C16.ProofsProps
  C16.ProofsFrame.
From Coq Require Import Lia.

(* `[temps] f args` where the body of f is the single instruction [i] *)
Definition call_one (temps : list (name * value)) (args : list str) (i : instr) : list instr :=
  IOp (OPush CVolatile) EIgnore :: temp_volatile temps
  ++ IOp (OPush (CRegular args)) EIgnore :: i :: [IOp OPop EIgnore; IOp OPop EIgnore].

Lemma call_one_readonly temps n v args :
  compile (CCall temps [CReadonly n v] args)
  = call_one temps args (IOp (OGetOrNew n SGlobal (opt_assign v ++ [MReadOnly 0%N])) EFatal).
Proof. reflexivity. Qed.

Lemma call_one_export temps n v args :
  compile (CCall temps [CExport n v] args)
  = call_one temps args (IOp (OGetOrNew n SGlobal (opt_assign v ++ [MExport true])) EFatal).
Proof. reflexivity. Qed.

Section Scope.
Variable ov oe : vset -> pobs.
Notation mrun := (irun vset step ov oe).

(* get_or_new(n, Global) + mutations inside a function: the variable that was
   mutated lies below the function's contexts and is the visible one after
   the return *)
Lemma global_gon_in_function temps n ms args s t s' :
  Inv s ->
  mrun (call_one temps args (IOp (OGetOrNew n SGlobal ms) EFatal)) s = (t, Finished, s') ->
  exists v0 w rs, get s' n = Some w /\ mutate_all v0 ms = (w, rs) /\ is_err (RMuts rs) = false.
Proof.
  intros HI. unfold call_one. cbn [irun step is_err].
  set (k := length (ctxs s)).
  set (s0 := mkVS (vars s) (ctxs s ++ [CVolatile])).
  assert (Es0 : step s (OPush CVolatile) = Some (s0, RUnit)) by reflexivity.
  pose proof (inv_step _ _ _ _ HI Es0) as HI0.
  assert (Hlen0 : length (ctxs s0) = S k) by (cbn; rewrite app_length; cbn; lia).
  intros H.
  destruct (temps_phase ov oe temps _ s0 t s' k HI0 Hlen0 H) as (s1 & t1 & HI1 & Hc1 & _ & Hrun1).
  cbn [irun] in Hrun1.
  set (s2 := mkVS (vars s1) (ctxs s1 ++ [CRegular args])).
  assert (Es2 : step s1 (OPush (CRegular args)) = Some (s2, RUnit)) by reflexivity.
  rewrite Es2 in Hrun1. cbn [is_err] in Hrun1.
  pose proof (inv_step _ _ _ _ HI1 Es2) as HI2.
  assert (Hcs2 : ctxs s2 = (ctxs s ++ [CVolatile]) ++ [CRegular args]).
  { cbn [s2 ctxs]. rewrite Hc1. reflexivity. }
  assert (Hl2 : length (ctxs s2) = k + 2) by (rewrite Hcs2, !app_length; cbn; fold k; lia).
  destruct (step s2 (OGetOrNew n SGlobal ms)) as [[s3 r3]|] eqn:Es3; [|discriminate].
  destruct (is_err r3) eqn:Er3; [discriminate|].
  pose proof (inv_step _ _ _ _ HI2 Es3) as HI3.
  pose proof (step_gon_ctxs _ _ _ _ _ _ Es3) as Hc3.
  (* where the variable landed *)
  assert (Hhead : exists v0 w rs j rest, stack_of s3 n = (w, j) :: rest /\
                    mutate_all v0 ms = (w, rs) /\ is_err (RMuts rs) = false /\ j < k).
  { cbn [step] in Es3.
    destruct (get_or_new_stack (ctxs s2) SGlobal (stack_of s2 n)) as [[|[v0 j] rest]|] eqn:Eg; try discriminate.
    destruct (mutate_all v0 ms) as [w rs] eqn:Em.
    injection Es3 as <- <-. rewrite stack_of_with_same.
    exists v0, w, rs, j, rest. split; [reflexivity|]. split; [exact Em|]. split; [exact Er3|].
    cbn [get_or_new_stack] in Eg.
    destruct HI as [_ (ps0 & cs0 & Ecs) _].
    assert (H0 : nth_error (ctxs s2) 0 = Some (CRegular ps0)) by (rewrite Hcs2, Ecs; reflexivity).
    destruct (gon_loop_head_regular _ _ _ _ _ _ _ _ H0 Eg) as [[ps Hreg] Hor].
    assert (Hk1 : 1 <= k) by (unfold k; rewrite Ecs; cbn; lia).
    assert (Hjk : j <> k).
    { intros ->. rewrite Hcs2 in Hreg. rewrite nth_error_app1 in Hreg by (rewrite app_length; cbn; fold k; lia).
      rewrite nth_error_app2 in Hreg by (fold k; lia). fold k in Hreg. rewrite Nat.sub_diag in Hreg.
      discriminate. }
    assert (Hjle : j <= k).
    { destruct Hor as [->|Hin]; [lia|].
      apply in_map_iff in Hin. destruct Hin as ([w' j'] & Hj' & Hin). cbn in Hj'. subst j'.
      change (stack_of s2 n) with (stack_of s1 n) in Hin.
      destruct HI1 as [_ _ Hs1]. pose proof (stack_ok_lt _ _ _ _ _ (Hs1 n) Hin) as Hlt.
      rewrite Hc1, Hlen0 in Hlt. lia. }
    lia. }
  destruct Hhead as (v0 & w & rs & j & rest & Hst3 & Hmut & Hnoerr & Hj).
  destruct (step s3 OPop) as [[s4 r4]|] eqn:Ep4; [|discriminate].
  assert (Hrun4 : exists t4, mrun [IOp OPop EIgnore] s4 = (t4, Finished, s'))
    by (destruct (is_err r4); eauto).
  destruct Hrun4 as [t4 Hrun4]. cbn [irun] in Hrun4.
  destruct (step s4 OPop) as [[s5 r5]|] eqn:Ep5; [|discriminate].
  assert (s5 = s') by (destruct (is_err r5); congruence). subst s5.
  pose proof (inv_step _ _ _ _ HI3 Ep4) as HI4.
  destruct (pop_lemma _ _ _ HI3 Ep4) as (Hc4 & _).
  assert (Hl4 : length (ctxs s4) = S k) by (rewrite Hc4, removelast_length, Hc3, Hl2; lia).
  pose proof (pop_keeps_stack _ _ _ n w j rest HI3 Ep4 Hst3 ltac:(rewrite Hc3, Hl2; lia)) as Hst4.
  rewrite Hst3 in Hst4.
  pose proof (pop_keeps_stack _ _ _ n w j rest HI4 Ep5 Hst4 ltac:(rewrite Hl4; lia)) as Hst5.
  exists v0, w, rs. split; [|split; [exact Hmut|exact Hnoerr]].
  unfold get. rewrite Hst5, Hst4. reflexivity.
Qed.

Lemma mutate_readonly_facts v0 v w rs :
  mutate_all v0 (opt_assign v ++ [MReadOnly 0%N]) = (w, rs) -> is_err (RMuts rs) = false ->
  is_ro w = true /\ vexp w = vexp v0 /\
  vval w = match v with Some x => Some x | None => vval v0 end.
Proof.
  destruct v as [x|]; cbn [opt_assign app mutate_all mutate].
  - destruct (vro v0) eqn:Ero; cbn; intros [= <- <-] He; [discriminate|].
    unfold is_ro. cbn. auto.
  - cbn. intros [= <- <-] _. unfold is_ro. cbn. auto.
Qed.

Lemma mutate_export_facts v0 v w rs :
  mutate_all v0 (opt_assign v ++ [MExport true]) = (w, rs) -> is_err (RMuts rs) = false ->
  vexp w = true /\ vro w = vro v0 /\
  vval w = match v with Some x => Some x | None => vval v0 end.
Proof.
  destruct v as [x|]; cbn [opt_assign app mutate_all mutate].
  - destruct (vro v0) eqn:Ero; cbn; intros [= <- <-] He; [discriminate|].
    cbn. auto.
  - cbn. intros [= <- <-] _. cbn. auto.
Qed.

(* readonly NAME[=VALUE] in a function: after the return the variable is
   there, read-only, with the value given *)
Lemma readonly_in_function_lemma temps n v args s t s' :
  Inv s ->
  mrun (compile (CCall temps [CReadonly n v] args)) s = (t, Finished, s') ->
  exists w, get s' n = Some w /\ is_ro w = true /\ forall x, v = Some x -> vval w = Some x.
Proof.
  intros HI H. rewrite call_one_readonly in H.
  destruct (global_gon_in_function _ _ _ _ _ _ _ HI H) as (v0 & w & rs & Hg & Hm & He).
  destruct (mutate_readonly_facts _ _ _ _ Hm He) as (A & _ & C).
  exists w. split; [exact Hg|]. split; [exact A|]. intros x ->. exact C.
Qed.

(* export NAME[=VALUE] in a function *)
Lemma export_in_function_lemma temps n v args s t s' :
  Inv s ->
  mrun (compile (CCall temps [CExport n v] args)) s = (t, Finished, s') ->
  exists w, get s' n = Some w /\ vexp w = true /\ forall x, v = Some x -> vval w = Some x.
Proof.
  intros HI H. rewrite call_one_export in H.
  destruct (global_gon_in_function _ _ _ _ _ _ _ HI H) as (v0 & w & rs & Hg & Hm & He).
  destruct (mutate_export_facts _ _ _ _ Hm He) as (A & _ & C).
  exists w. split; [exact Hg|]. split; [exact A|]. intros x ->. exact C.
Qed.

(* typeset without -g in a function (whatever the other options): after the
   return the name is exactly as before the call *)
Lemma typeset_local_vanishes_lemma temps tt x r n v args s t s' :
  Inv s ->
  mrun (compile (CCall temps [CTypeset tt false x r n v] args)) s = (t, Finished, s') ->
  ctxs s' = ctxs s /\ stack_of s' n = stack_of s n /\ get s' n = get s n.
Proof.
  intros HI H.
  destruct (temp_function_lemma ov oe temps [CTypeset tt false x r n v] args n s t s' HI eq_refl H)
    as [A B].
  split; [exact A|]. split; [exact B|]. unfold get. rewrite B. reflexivity.
Qed.

End Scope.

(* While only the base context is regular (top level, also below the volatile
   context of a regular built-in), Scope::Local and Scope::Global are the same
   operation: a built-in that confuses the two shows no difference there. *)
Lemma local_is_global_at_top_level s n ms :
  topreg (ctxs s) = Some 0 ->
  step s (OGetOrNew n SLocal ms) = step s (OGetOrNew n SGlobal ms).
Proof. intros H. cbn [step get_or_new_stack]. rewrite H. reflexivity. Qed.

(* ... and inside a function they differ: on a name the function has no
   variable for, Local creates it in the function's context (index >= 1),
   Global in the base context or on the visible variable *)
Lemma local_differs_in_function :
  exists s n ms, Inv s /\ topreg (ctxs s) = Some 1 /\
    step s (OGetOrNew n SLocal ms) <> step s (OGetOrNew n SGlobal ms).
Proof.
  exists (mkVS [] [CRegular []; CRegular []]), [97%N], [MReadOnly 0%N].
  split; [|split; [reflexivity|vm_compute; discriminate]].
  assert (E : step init (OPush (CRegular [])) = Some (mkVS [] [CRegular []; CRegular []], RUnit))
    by reflexivity.
  exact (inv_step _ _ _ _ inv_init E).
Qed.

(* ==== unset and for inside a function ========================================================= *)
Lemma call_one_unset temps n args :
  compile (CCall temps [CUnset n] args) = call_one temps args (IOp (OUnset n SGlobal) EFatal).
Proof. reflexivity. Qed.

Lemma unset_global_empties s n s' r :
  step s (OUnset n SGlobal) = Some (s', r) -> is_err r = false -> stack_of s' n = [].
Proof.
  cbn [step index_of_context]. destruct (assoc n (vars s)) as [st|] eqn:Ea.
  - rewrite span_ge_zero. destruct (first_ro st).
    + intros [= <- <-]. cbn. discriminate.
    + intros [= <- <-] _. apply stack_of_with_same.
  - intros [= <- <-] _. unfold stack_of. rewrite Ea. reflexivity.
Qed.

Lemma pop_keeps_empty s s' r n :
  Inv s -> step s OPop = Some (s', r) -> stack_of s n = [] -> stack_of s' n = [].
Proof.
  intros HI Hstep Hst. rewrite step_pop in Hstep.
  destruct (length (ctxs s) <? 2); [discriminate|]. injection Hstep as <- <-.
  rewrite stack_of_pop by (destruct HI; assumption). rewrite Hst. reflexivity.
Qed.

Section Scope2.
Variable ov oe : vset -> pobs.
Notation mrun := (irun vset step ov oe).

(* unset NAME in a function removes the variable from every context: the
   caller's and the global one too, so nothing is revealed, also after the return *)
Lemma unset_in_function_lemma temps n args s t s' :
  Inv s ->
  mrun (compile (CCall temps [CUnset n] args)) s = (t, Finished, s') ->
  get s' n = None.
Proof.
  intros HI. rewrite call_one_unset. unfold call_one. cbn [irun step is_err].
  set (k := length (ctxs s)).
  set (s0 := mkVS (vars s) (ctxs s ++ [CVolatile])).
  assert (Es0 : step s (OPush CVolatile) = Some (s0, RUnit)) by reflexivity.
  pose proof (inv_step _ _ _ _ HI Es0) as HI0.
  assert (Hlen0 : length (ctxs s0) = S k) by (cbn; rewrite app_length; cbn; lia).
  intros H.
  destruct (temps_phase ov oe temps _ s0 t s' k HI0 Hlen0 H) as (s1 & t1 & HI1 & Hc1 & _ & Hrun1).
  cbn [irun] in Hrun1.
  set (s2 := mkVS (vars s1) (ctxs s1 ++ [CRegular args])).
  assert (Es2 : step s1 (OPush (CRegular args)) = Some (s2, RUnit)) by reflexivity.
  rewrite Es2 in Hrun1. cbn [is_err] in Hrun1.
  pose proof (inv_step _ _ _ _ HI1 Es2) as HI2.
  destruct (step s2 (OUnset n SGlobal)) as [[s3 r3]|] eqn:Es3; [|discriminate].
  destruct (is_err r3) eqn:Er3; [discriminate|].
  pose proof (inv_step _ _ _ _ HI2 Es3) as HI3.
  pose proof (unset_global_empties _ _ _ _ Es3 Er3) as Hst3.
  destruct (step s3 OPop) as [[s4 r4]|] eqn:Ep4; [|discriminate].
  assert (Hrun4 : exists t4, mrun [IOp OPop EIgnore] s4 = (t4, Finished, s'))
    by (destruct (is_err r4); eauto).
  destruct Hrun4 as [t4 Hrun4]. cbn [irun] in Hrun4.
  destruct (step s4 OPop) as [[s5 r5]|] eqn:Ep5; [|discriminate].
  assert (s5 = s') by (destruct (is_err r5); congruence). subst s5.
  pose proof (inv_step _ _ _ _ HI3 Ep4) as HI4.
  pose proof (pop_keeps_empty _ _ _ n HI3 Ep4 Hst3) as Hst4.
  pose proof (pop_keeps_empty _ _ _ n HI4 Ep5 Hst4) as Hst5.
  unfold get. rewrite Hst5. reflexivity.
Qed.
End Scope2.

Lemma call_one_for temps n v args :
  compile (CCall temps [CFor n [v] []] args)
  = call_one temps args (IOp (OGetOrNew n SGlobal [MAssign (Scalar v) (Some 0%N)]) EFatal).
Proof. reflexivity. Qed.

Section ScopeFor.
Variable ov oe : vset -> pobs.
Notation mrun := (irun vset step ov oe).

(* the variable of a `for` loop run inside a function is a global (or the
   visible variable): it keeps the last word after the return *)
Lemma for_in_function_lemma temps n v args s t s' :
  Inv s ->
  mrun (compile (CCall temps [CFor n [v] []] args)) s = (t, Finished, s') ->
  exists w, get s' n = Some w /\ vval w = Some (Scalar v).
Proof.
  intros HI H. rewrite call_one_for in H.
  destruct (global_gon_in_function _ _ _ _ _ _ _ _ _ HI H) as (v0 & w & rs & Hg & Hm & He).
  exists w. split; [exact Hg|].
  cbn [mutate_all mutate] in Hm. destruct (vro v0) eqn:Ero.
  - injection Hm as <- <-. cbn in He. discriminate.
  - injection Hm as <- <-. reflexivity.
Qed.
End ScopeFor.

(* ==== typeset -g inside a function ============================================================ *)

Lemma gon_global_lands_below cs st w j rest k ps0 :
  nth_error cs 0 = Some (CRegular ps0) -> 1 <= k ->
  (forall i, In i (map snd st) -> k <= i -> nth_error cs i = Some CVolatile) ->
  gon_loop cs 0 None st = Some ((w, j) :: rest) ->
  j < k /\ exists ps, nth_error cs j = Some (CRegular ps).
Proof.
  intros H0 Hk Hvol Hg.
  destruct (gon_loop_head_regular _ _ _ _ _ _ _ _ H0 Hg) as [[ps Hreg] Hor].
  split; [|eauto].
  destruct Hor as [->|Hin]; [lia|].
  destruct (Nat.lt_ge_cases j k) as [Hlt|Hge]; [exact Hlt|].
  rewrite (Hvol j Hin Hge) in Hreg. discriminate.
Qed.

Lemma gon_global_again cs w j rest ps :
  nth_error cs j = Some (CRegular ps) ->
  gon_loop cs 0 None ((w, j) :: rest) = Some ((w, j) :: rest).
Proof.
  intros H. cbn [gon_loop or_var].
  replace (j <? 0) with false by (symmetry; apply Nat.ltb_ge; lia).
  rewrite H. reflexivity.
Qed.

(* typeset -g [-x] [-r] n[=v], without temporary assignments of its own *)
Definition tg_body (x r : bool) (n : name) (v : option value) : list instr :=
  IOp (OPush CVolatile) EIgnore ::
  match v with
  | Some val => [IOp (OGetOrNew n SGlobal [MAssign val (Some 0%N)]) ESkip]
  | None => []
  end
  ++ [IOp (OGetOrNew n SGlobal ((if r then [MReadOnly 0%N] else []) ++ (if x then [MExport true] else [])))
          EIgnore;
      IOp OPop EIgnore].

Lemma compile_call_typeset_g temps x r n v args :
  compile (CCall temps [CTypeset [] true x r n v] args)
  = IOp (OPush CVolatile) EIgnore :: temp_volatile temps
    ++ IOp (OPush (CRegular args)) EIgnore :: tg_body x r n v ++ [IOp OPop EIgnore; IOp OPop EIgnore].
Proof. destruct v; reflexivity. Qed.

Lemma attrs_facts (x r : bool) w w2 rs :
  mutate_all w ((if r then [MReadOnly 0%N] else []) ++ (if x then [MExport true] else [])) = (w2, rs) ->
  vval w2 = vval w /\ (r = true -> is_ro w2 = true) /\ (x = true -> vexp w2 = true) /\
  (is_ro w = true -> is_ro w2 = true).
Proof.
  destruct r, x; cbn; intros [= <- <-]; unfold is_ro; cbn; repeat split; auto; try discriminate;
    destruct (vro w); auto.
Qed.

Section ScopeTypesetG.
Variable ov oe : vset -> pobs.
Notation mrun := (irun vset step ov oe).

Lemma three_pops s3 k n w j rest t s' :
  Inv s3 -> length (ctxs s3) = k + 3 -> stack_of s3 n = (w, j) :: rest -> j < k ->
  mrun [IOp OPop EIgnore; IOp OPop EIgnore; IOp OPop EIgnore] s3 = (t, Finished, s') ->
  get s' n = Some w.
Proof.
  intros HI3 Hl3 Hst3 Hj. cbn [irun].
  destruct (step s3 OPop) as [[s4 r4]|] eqn:Ep4; [|discriminate].
  intros H.
  assert (H4 : exists t4, mrun [IOp OPop EIgnore; IOp OPop EIgnore] s4 = (t4, Finished, s')).
  { destruct (is_err r4); eauto. }
  clear H. destruct H4 as [t4 H4]. cbn [irun] in H4.
  destruct (step s4 OPop) as [[s5 r5]|] eqn:Ep5; [|discriminate].
  assert (H5 : exists t5, mrun [IOp OPop EIgnore] s5 = (t5, Finished, s')).
  { destruct (is_err r5); eauto. }
  clear H4. destruct H5 as [t5 H5]. cbn [irun] in H5.
  destruct (step s5 OPop) as [[s6 r6]|] eqn:Ep6; [|discriminate].
  assert (s6 = s') by (destruct (is_err r6); congruence). subst s6.
  pose proof (inv_step _ _ _ _ HI3 Ep4) as HI4.
  pose proof (inv_step _ _ _ _ HI4 Ep5) as HI5.
  destruct (pop_lemma _ _ _ HI3 Ep4) as (Hc4 & _).
  destruct (pop_lemma _ _ _ HI4 Ep5) as (Hc5 & _).
  assert (Hl4 : length (ctxs s4) = k + 2) by (rewrite Hc4, removelast_length, Hl3; lia).
  assert (Hl5 : length (ctxs s5) = k + 1) by (rewrite Hc5, removelast_length, Hl4; lia).
  pose proof (pop_keeps_stack _ _ _ n w j rest HI3 Ep4 Hst3 ltac:(rewrite Hl3; lia)) as Hst4.
  rewrite Hst3 in Hst4.
  pose proof (pop_keeps_stack _ _ _ n w j rest HI4 Ep5 Hst4 ltac:(rewrite Hl4; lia)) as Hst5.
  rewrite Hst4 in Hst5.
  pose proof (pop_keeps_stack _ _ _ n w j rest HI5 Ep6 Hst5 ltac:(rewrite Hl5; lia)) as Hst6.
  unfold get. rewrite Hst6, Hst5. reflexivity.
Qed.

(* the attribute operation of typeset -g on a variable that lies below the
   function's contexts, then the three pops *)
Lemma tg_tail s3 k n ms w j rest ps t s' :
  Inv s3 -> length (ctxs s3) = k + 3 -> stack_of s3 n = (w, j) :: rest -> j < k ->
  nth_error (ctxs s3) j = Some (CRegular ps) ->
  mrun [IOp (OGetOrNew n SGlobal ms) EIgnore; IOp OPop EIgnore; IOp OPop EIgnore; IOp OPop EIgnore] s3
    = (t, Finished, s') ->
  exists w2 rs, get s' n = Some w2 /\ mutate_all w ms = (w2, rs).
Proof.
  intros HI3 Hl3 Hst3 Hj Hreg H.
  assert (Es : step s3 (OGetOrNew n SGlobal ms)
               = Some (with_stack s3 n ((fst (mutate_all w ms), j) :: rest), RMuts (snd (mutate_all w ms)))).
  { cbn [step get_or_new_stack]. rewrite Hst3, (gon_global_again _ _ _ _ _ Hreg).
    destruct (mutate_all w ms); reflexivity. }
  set (s4 := with_stack s3 n ((fst (mutate_all w ms), j) :: rest)) in *.
  pose proof (inv_step _ _ _ _ HI3 Es) as HI4.
  pose proof (step_gon_ctxs _ _ _ _ _ _ Es) as Hc4.
  assert (H4 : exists t4, mrun [IOp OPop EIgnore; IOp OPop EIgnore; IOp OPop EIgnore] s4 = (t4, Finished, s')).
  { cbn [irun] in H. rewrite Es in H. cbn [irun]. destruct (is_err _) in H; eauto. }
  destruct H4 as [t4 H4].
  exists (fst (mutate_all w ms)), (snd (mutate_all w ms)). split; [|destruct (mutate_all w ms); reflexivity].
  apply (three_pops s4 k n _ j rest t4 s' HI4); [rewrite Hc4; exact Hl3| |exact Hj|exact H4].
  unfold s4. apply stack_of_with_same.
Qed.

Lemma typeset_g_in_function_lemma temps x r n v args s t s' :
  Inv s ->
  mrun (compile (CCall temps [CTypeset [] true x r n v] args)) s = (t, Finished, s') ->
  exists w, get s' n = Some w /\ (r = true -> is_ro w = true) /\
    (is_ro w = true \/ ((forall val, v = Some val -> vval w = Some val) /\ (x = true -> vexp w = true))).
Proof.
  intros HI. rewrite compile_call_typeset_g. cbn [irun step is_err].
  set (k := length (ctxs s)).
  set (s0 := mkVS (vars s) (ctxs s ++ [CVolatile])).
  assert (Es0 : step s (OPush CVolatile) = Some (s0, RUnit)) by reflexivity.
  pose proof (inv_step _ _ _ _ HI Es0) as HI0.
  assert (Hlen0 : length (ctxs s0) = S k) by (cbn; rewrite app_length; cbn; lia).
  intros H.
  destruct (temps_phase ov oe temps _ s0 t s' k HI0 Hlen0 H) as (s1 & t1 & HI1 & Hc1 & _ & Hrun1).
  clear H.
  set (s2 := mkVS (vars s1) (ctxs s1 ++ [CRegular args])).
  assert (Es2 : step s1 (OPush (CRegular args)) = Some (s2, RUnit)) by reflexivity.
  pose proof (inv_step _ _ _ _ HI1 Es2) as HI2.
  set (s3 := mkVS (vars s2) (ctxs s2 ++ [CVolatile])).
  assert (Es3 : step s2 (OPush CVolatile) = Some (s3, RUnit)) by reflexivity.
  pose proof (inv_step _ _ _ _ HI2 Es3) as HI3.
  assert (Hcs3 : ctxs s3 = ((ctxs s ++ [CVolatile]) ++ [CRegular args]) ++ [CVolatile]).
  { cbn [s3 s2 ctxs]. rewrite Hc1. reflexivity. }
  assert (Hl3 : length (ctxs s3) = k + 3) by (rewrite Hcs3, !app_length; cbn; fold k; lia).
  assert (Hrun3 : mrun (match v with
                        | Some val => [IOp (OGetOrNew n SGlobal [MAssign val (Some 0%N)]) ESkip]
                        | None => []
                        end
                        ++ [IOp (OGetOrNew n SGlobal ((if r then [MReadOnly 0%N] else [])
                                                      ++ (if x then [MExport true] else []))) EIgnore;
                            IOp OPop EIgnore; IOp OPop EIgnore; IOp OPop EIgnore]) s3 = (t1, Finished, s')).
  { unfold tg_body in Hrun1. cbn [irun app] in Hrun1. rewrite Es2 in Hrun1. cbn [is_err] in Hrun1.
    rewrite Es3 in Hrun1. cbn [is_err] in Hrun1. rewrite <- app_assoc in Hrun1. exact Hrun1. }
  clear Hrun1.
  destruct HI as [HIk (ps0 & cs0 & Ecs) HIs].
  assert (Hk1 : 1 <= k) by (unfold k; rewrite Ecs; cbn; lia).
  assert (H0 : nth_error (ctxs s3) 0 = Some (CRegular ps0)) by (rewrite Hcs3, Ecs; reflexivity).
  (* the entries of n at index >= k are in the volatile context of the call *)
  assert (Hvol : forall i, In i (map snd (stack_of s3 n)) -> k <= i -> nth_error (ctxs s3) i = Some CVolatile).
  { intros i Hin Hi. change (stack_of s3 n) with (stack_of s1 n) in Hin.
    apply in_map_iff in Hin. destruct Hin as ([w' j'] & Hj' & Hin). cbn in Hj'. subst j'.
    destruct HI1 as [_ _ Hs1]. pose proof (stack_ok_lt _ _ _ _ _ (Hs1 n) Hin) as Hlt.
    rewrite Hc1, Hlen0 in Hlt. assert (i = k) by lia. subst i.
    rewrite Hcs3. rewrite nth_error_app1 by (rewrite !app_length; cbn; fold k; lia).
    rewrite nth_error_app1 by (rewrite !app_length; cbn; fold k; lia).
    rewrite nth_error_app2 by (fold k; lia). fold k. rewrite Nat.sub_diag. reflexivity. }
  destruct v as [val|]; cbn [app] in Hrun3.
  - (* with a value: the assignment first *)
    cbn [irun] in Hrun3.
    destruct (step s3 (OGetOrNew n SGlobal [MAssign val (Some 0%N)])) as [[s4 r4]|] eqn:Es4; [|discriminate].
    pose proof (inv_step _ _ _ _ HI3 Es4) as HI4.
    pose proof (step_gon_ctxs _ _ _ _ _ _ Es4) as Hc4.
    cbn [step get_or_new_stack] in Es4.
    destruct (gon_loop (ctxs s3) 0 None (stack_of s3 n)) as [[|[v0 j] rest]|] eqn:Eg; try discriminate.
    destruct (gon_global_lands_below _ _ _ _ _ k _ H0 Hk1 Hvol Eg) as [Hj [ps Hreg]].
    cbn [mutate_all mutate] in Es4.
    destruct (vro v0) eqn:Ero.
    + (* read-only: the attributes are skipped *)
      injection Es4 as <- <-. cbn [is_err existsb] in Hrun3. cbn [orb] in Hrun3.
      exists v0. split.
      * apply (three_pops _ k n v0 j rest t1 s' HI4); [rewrite Hc4; exact Hl3|apply stack_of_with_same|exact Hj|exact Hrun3].
      * unfold is_ro. rewrite Ero. split; [reflexivity|left; reflexivity].
    + injection Es4 as <- <-. cbn [is_err existsb] in Hrun3.
      set (w1 := mkVar (Some val) (Some 0%N) (vexp v0) None (vquirk v0)) in *.
      set (s4 := with_stack s3 n ((w1, j) :: rest)) in *.
      destruct (tg_tail s4 k n _ w1 j rest ps t1 s' HI4 ltac:(rewrite Hc4; exact Hl3)
                  ltac:(apply stack_of_with_same) Hj ltac:(rewrite Hc4; exact Hreg) Hrun3)
        as (w2 & rs & Hg & Hm).
      destruct (attrs_facts _ _ _ _ _ Hm) as (A & B & C & _).
      exists w2. split; [exact Hg|]. split; [exact B|]. right. split; [|exact C].
      intros val' [= <-]. rewrite A. reflexivity.
  - (* without a value *)
    cbn [irun] in Hrun3.
    set (ms := (if r then [MReadOnly 0%N] else []) ++ (if x then [MExport true] else [])) in *.
    destruct (step s3 (OGetOrNew n SGlobal ms)) as [[s4 r4]|] eqn:Es4; [|discriminate].
    pose proof (inv_step _ _ _ _ HI3 Es4) as HI4.
    pose proof (step_gon_ctxs _ _ _ _ _ _ Es4) as Hc4.
    cbn [step get_or_new_stack] in Es4.
    destruct (gon_loop (ctxs s3) 0 None (stack_of s3 n)) as [[|[v0 j] rest]|] eqn:Eg; try discriminate.
    destruct (gon_global_lands_below _ _ _ _ _ k _ H0 Hk1 Hvol Eg) as [Hj [ps Hreg]].
    destruct (mutate_all v0 ms) as [w2 rs] eqn:Em. injection Es4 as <- <-.
    assert (H4 : exists t4, mrun [IOp OPop EIgnore; IOp OPop EIgnore; IOp OPop EIgnore]
                              (with_stack s3 n ((w2, j) :: rest)) = (t4, Finished, s')).
    { destruct (is_err _) in Hrun3; eauto. }
    destruct H4 as [t4 H4].
    destruct (attrs_facts _ _ _ _ _ Em) as (A & B & C & _).
    exists w2. split.
    + apply (three_pops _ k n w2 j rest t4 s' HI4); [rewrite Hc4; exact Hl3|apply stack_of_with_same|exact Hj|exact H4].
    + split; [exact B|]. right. split; [intros val [=]|exact C].
Qed.

End ScopeTypesetG.
