(* C16 — basic lemmas: association lists, normalised stacks, the invariant. *)
From Yv Require Import Common.Base C16.Model C16.Spec.
From Coq Require Import Lia.

Lemma str_eqb_refl (a : str) : str_eqb a a = true.
Proof. apply str_eqb_eq; reflexivity. Qed.

Lemma str_eqb_neq (a b : str) : a <> b -> str_eqb a b = false.
Proof.
  intros H. destruct (str_eqb a b) eqn:E; [|reflexivity].
  apply str_eqb_eq in E. contradiction.
Qed.

Lemma str_eqb_sym (a b : str) : str_eqb a b = str_eqb b a.
Proof.
  destruct (str_eqb a b) eqn:E.
  - apply str_eqb_eq in E; subst. symmetry; apply str_eqb_refl.
  - destruct (str_eqb b a) eqn:E'; [|reflexivity].
    apply str_eqb_eq in E'; subst. rewrite str_eqb_refl in E. discriminate.
Qed.

Lemma str_eq_dec (a b : str) : {a = b} + {a <> b}.
Proof.
  destruct (str_eqb a b) eqn:E.
  - left; apply str_eqb_eq; exact E.
  - right; intros ->. rewrite str_eqb_refl in E. discriminate.
Qed.

Ltac str_case a b :=
  let E := fresh "E" in
  destruct (str_eq_dec a b) as [E|E];
  [ try (subst a || subst b); rewrite ?str_eqb_refl in *
  | rewrite ?(str_eqb_neq _ _ E) in *;
    try rewrite ?(str_eqb_neq _ _ (fun H => E (eq_sym H))) in * ].

(* ---- assoc ------------------------------------------------------------- *)

Section Assoc.
Context {A : Type}.
Implicit Types (l : list (name * A)).

Lemma assoc_set_same n x l : assoc n (set_assoc n x l) = Some x.
Proof.
  induction l as [|[m y] l IH]; cbn.
  - rewrite str_eqb_refl; reflexivity.
  - destruct (str_eqb m n) eqn:E; cbn.
    + rewrite str_eqb_refl; reflexivity.
    + rewrite E; exact IH.
Qed.

Lemma assoc_set_other n m x l : m <> n -> assoc m (set_assoc n x l) = assoc m l.
Proof.
  intros H. induction l as [|[k y] l IH]; cbn.
  - rewrite (str_eqb_neq n m) by congruence. reflexivity.
  - destruct (str_eqb k n) eqn:E; cbn.
    + apply str_eqb_eq in E; subst k.
      rewrite (str_eqb_neq n m) by congruence. reflexivity.
    + destruct (str_eqb k m); [reflexivity | exact IH].
Qed.

Lemma assoc_del_same n l : assoc n (del_assoc n l) = None.
Proof.
  unfold del_assoc.
  induction l as [|[m y] l IH]; cbn; [reflexivity|].
  destruct (str_eqb m n) eqn:E; cbn; [exact IH|].
  rewrite E; exact IH.
Qed.

Lemma assoc_del_other n m l : m <> n -> assoc m (del_assoc n l) = assoc m l.
Proof.
  unfold del_assoc.
  intros H. induction l as [|[k y] l IH]; cbn; [reflexivity|].
  destruct (str_eqb k n) eqn:E; cbn.
  - apply str_eqb_eq in E; subst k.
    rewrite (str_eqb_neq n m) by congruence. exact IH.
  - destruct (str_eqb k m); [reflexivity | exact IH].
Qed.

Lemma del_assoc_absent n l : assoc n l = None -> del_assoc n l = l.
Proof.
  unfold del_assoc.
  induction l as [|[m y] l IH]; cbn; [reflexivity|].
  destruct (str_eqb m n) eqn:E; [discriminate|].
  cbn. intros H; rewrite (IH H); reflexivity.
Qed.

Lemma set_assoc_keys_in n x l m :
  In m (map fst (set_assoc n x l)) <-> m = n \/ In m (map fst l).
Proof.
  induction l as [|[k y] l IH]; cbn.
  - intuition.
  - destruct (str_eqb k n) eqn:E; cbn.
    + apply str_eqb_eq in E; subst k. intuition.
    + rewrite IH. intuition.
Qed.

Lemma assoc_none_notin n l : assoc n l = None <-> ~ In n (map fst l).
Proof.
  induction l as [|[k y] l IH]; cbn; [intuition|].
  destruct (str_eqb k n) eqn:E.
  - apply str_eqb_eq in E; subst. split; [discriminate | intros H; exfalso; apply H; left; reflexivity].
  - rewrite IH. split.
    + intros H [H1|H1]; [subst; rewrite str_eqb_refl in E; discriminate | exact (H H1)].
    + intros H H1; apply H; right; exact H1.
Qed.

Lemma set_assoc_nodup n x l : NoDup (map fst l) -> NoDup (map fst (set_assoc n x l)).
Proof.
  induction l as [|[k y] l IH]; cbn; intros H.
  - constructor; [intros []|constructor].
  - inversion H as [|? ? Hn Hd]; subst.
    destruct (str_eqb k n) eqn:E; cbn.
    + apply str_eqb_eq in E; subst k. constructor; assumption.
    + constructor; [|apply IH; exact Hd].
      rewrite set_assoc_keys_in. intros [->|H1]; [rewrite str_eqb_refl in E; discriminate | exact (Hn H1)].
Qed.

Lemma assoc_in n x l : assoc n l = Some x -> In (n, x) l.
Proof.
  induction l as [|[k y] l IH]; cbn; [discriminate|].
  destruct (str_eqb k n) eqn:E.
  - apply str_eqb_eq in E; subst. intros [= ->]; left; reflexivity.
  - intros H; right; exact (IH H).
Qed.

Lemma in_assoc_nodup n x l : NoDup (map fst l) -> In (n, x) l -> assoc n l = Some x.
Proof.
  induction l as [|[k y] l IH]; cbn; intros Hd; [intros []|].
  inversion Hd as [|? ? Hn Hd']; subst.
  intros [[= -> ->]|H].
  - rewrite str_eqb_refl; reflexivity.
  - destruct (str_eqb k n) eqn:E.
    + apply str_eqb_eq in E; subst. exfalso; apply Hn. apply (in_map fst) in H. exact H.
    + exact (IH Hd' H).
Qed.

End Assoc.

(* ---- stack_of / with_stack ---------------------------------------------- *)

Lemma stack_of_with_same s n st : stack_of (with_stack s n st) n = st.
Proof. unfold stack_of, with_stack; cbn. rewrite assoc_set_same. reflexivity. Qed.

Lemma stack_of_with_other s n m st : m <> n -> stack_of (with_stack s n st) m = stack_of s m.
Proof. intros H. unfold stack_of, with_stack; cbn. rewrite assoc_set_other by exact H. reflexivity. Qed.

(* ---- contexts --------------------------------------------------------------- *)

Lemma topreg_app_regular cs ps : topreg (cs ++ [CRegular ps]) = Some (length cs).
Proof. induction cs as [|k cs IH]; cbn; [reflexivity|]. rewrite IH. reflexivity. Qed.

Lemma topreg_app_volatile cs : topreg (cs ++ [CVolatile]) = topreg cs.
Proof.
  induction cs as [|k cs IH]; cbn; [reflexivity|]. rewrite IH. reflexivity.
Qed.

Lemma topreg_spec cs i :
  topreg cs = Some i ->
  i < length cs /\ (exists ps, nth_error cs i = Some (CRegular ps)) /\
  forall j, i < j -> j < length cs -> nth_error cs j = Some CVolatile.
Proof.
  revert i. induction cs as [|k cs IH]; cbn; intros i H; [discriminate|].
  destruct (topreg cs) as [i0|] eqn:E.
  - injection H as <-. destruct (IH i0 eq_refl) as (H1 & H2 & H3).
    split; [lia|]. split; [exact H2|].
    intros j Hj Hl. destruct j; [lia|]. cbn. apply H3; lia.
  - destruct k as [ps|]; cbn in H; [|discriminate]. injection H as <-.
    split; [lia|]. split; [exists ps; reflexivity|].
    intros j Hj Hl. destruct j; [lia|]. cbn.
    clear IH. revert j Hj Hl. induction cs as [|k cs IH']; cbn; intros j Hj Hl; [lia|].
    cbn in E. destruct (topreg cs) eqn:E'; [discriminate|].
    destruct k; cbn in E; [discriminate|].
    destruct j; [reflexivity|]. cbn. apply IH'; [reflexivity|lia|lia].
Qed.

Lemma topreg_some cs ps rest : cs = CRegular ps :: rest -> exists i, topreg cs = Some i.
Proof.
  intros ->. cbn. destruct (topreg rest); eauto.
Qed.

Lemma topreg_none cs : topreg cs = None -> forall j, j < length cs -> nth_error cs j = Some CVolatile.
Proof.
  induction cs as [|k cs IH]; cbn; intros H j Hj; [lia|].
  destruct (topreg cs) eqn:E; [discriminate|].
  destruct k; cbn in H; [discriminate|].
  destruct j; [reflexivity|]. cbn. apply IH; [reflexivity|lia].
Qed.

(* ---- normalised stacks ------------------------------------------------------- *)


Lemma same_attrs_refl v : same_attrs v v.
Proof. repeat split. Qed.

Lemma same_attrs_trans u v w : same_attrs u v -> same_attrs v w -> same_attrs u w.
Proof. unfold same_attrs. intuition congruence. Qed.

Lemma same_attrs_ro v w : same_attrs v w -> is_ro v = is_ro w.
Proof. unfold same_attrs, is_ro. intros (_ & _ & ->). reflexivity. Qed.


Lemma stack_ok_bound cs b b' st :
  stack_ok cs b st ->
  (forall v i rest, st = (v, i) :: rest -> i < b') ->
  stack_ok cs b' st.
Proof.
  destruct st as [|[v i] rest]; cbn; [trivial|].
  intros (H1 & H2 & H3) H. split; [eapply H; reflexivity|]. split; assumption.
Qed.

Lemma stack_ok_weaken cs b b' st : b <= b' -> stack_ok cs b st -> stack_ok cs b' st.
Proof.
  intros Hb H. eapply stack_ok_bound; [exact H|].
  intros v i rest ->. cbn in H. lia.
Qed.

Lemma stack_ok_ctx cs cs' b st :
  (forall i, i < b -> nth_error cs' i = Some CVolatile -> nth_error cs i = Some CVolatile) ->
  stack_ok cs b st -> stack_ok cs' b st.
Proof.
  revert b. induction st as [|[v i] rest IH]; cbn; intros b Hc; [trivial|].
  intros (H1 & H2 & H3). split; [exact H1|]. split.
  - apply IH; [|exact H2]. intros j Hj. apply Hc. lia.
  - destruct rest as [|[w j] rest']; [trivial|]. intros Hv. apply H3. apply Hc; assumption.
Qed.

Lemma stack_ok_tail cs b v i rest : stack_ok cs b ((v, i) :: rest) -> stack_ok cs b rest.
Proof. cbn. intros (H1 & H2 & _). eapply stack_ok_weaken; [|exact H2]. lia. Qed.

(* all indices of a normalised stack are below the bound *)
Lemma stack_ok_lt cs b st v i : stack_ok cs b st -> In (v, i) st -> i < b.
Proof.
  revert b. induction st as [|[w j] rest IH]; cbn; intros b H; [intros []|].
  destruct H as (H1 & H2 & _). intros [[= -> ->]|Hin]; [exact H1|].
  specialize (IH _ H2 Hin). lia.
Qed.

(* ---- mutations --------------------------------------------------------------------- *)

Lemma mutate_ro v m : is_ro v = true -> same_attrs (fst (mutate v m)) v.
Proof.
  unfold is_ro. destruct m; cbn; destruct (vro v) eqn:E; try discriminate; intros _; cbn;
    unfold same_attrs; cbn; rewrite ?E; auto.
Qed.

Lemma mutate_all_ro v ms : is_ro v = true -> same_attrs (fst (mutate_all v ms)) v.
Proof.
  revert v. induction ms as [|m ms IH]; intros v H; cbn; [apply same_attrs_refl|].
  pose proof (mutate_ro v m H) as H1.
  destruct (mutate v m) as [v1 r] eqn:E1. cbn in H1.
  assert (H2 : is_ro v1 = true) by (rewrite (same_attrs_ro _ _ H1); exact H).
  specialize (IH v1 H2).
  destruct (mutate_all v1 ms) as [v2 rs] eqn:E2. cbn in *.
  eapply same_attrs_trans; eassumption.
Qed.

Lemma stack_ok_mutate cs b v i rest ms :
  stack_ok cs b ((v, i) :: rest) ->
  stack_ok cs b ((fst (mutate_all v ms), i) :: rest).
Proof.
  cbn. intros (H1 & H2 & H3). split; [exact H1|]. split; [exact H2|].
  destruct rest as [|[w j] rest']; [trivial|].
  intros Hv Hw. specialize (H3 Hv Hw).
  eapply same_attrs_trans; [|exact H3].
  apply mutate_all_ro. rewrite (same_attrs_ro _ _ H3). exact Hw.
Qed.

(* ---- get_or_new ---------------------------------------------------------------------- *)

(* the variable carried by the loop is a copy of the next read-only entry *)
Definition carry_ok (removed : option var) (st : list vic) : Prop :=
  match removed, st with
  | Some r, (w, _) :: _ => is_ro w = true -> same_attrs r w
  | _, _ => True
  end.

Lemma gon_loop_ok cs b ci removed st st' :
  stack_ok cs b st -> carry_ok removed st -> ci < b ->
  (exists ps, nth_error cs ci = Some (CRegular ps)) ->
  gon_loop cs ci removed st = Some st' ->
  stack_ok cs b st'.
Proof.
  intros Hst Hc Hci [ps Hreg]. revert b removed Hst Hc Hci st'.
  induction st as [|[v i] rest IH]; intros b removed Hst Hc Hci st'; cbn [gon_loop].
  - intros [= <-]. cbn. auto.
  - destruct (i <? ci) eqn:Elt.
    + apply Nat.ltb_lt in Elt. intros [= <-].
      cbn. split; [exact Hci|]. split.
      * cbn in Hst. destruct Hst as (H1 & H2 & H3). split; [exact Elt|]. split; assumption.
      * intros Hv. rewrite Hreg in Hv. discriminate.
    + apply Nat.ltb_ge in Elt.
      destruct (nth_error cs i) as [[ps'|]|] eqn:En; [| |discriminate].
      * intros [= <-]. cbn in Hst |- *. destruct Hst as (H1 & H2 & H3).
        split; [exact H1|]. split; [exact H2|].
        destruct rest as [|[w j] rest']; [trivial|]. intros Hv; rewrite En in Hv; discriminate.
      * intros Hloop. cbn in Hst. destruct Hst as (H1 & H2 & H3).
        assert (Hb : stack_ok cs b rest) by (eapply stack_ok_weaken; [|exact H2]; lia).
        eapply (IH b (Some (or_var removed v))); [exact Hb| |exact Hci|exact Hloop].
        unfold carry_ok. destruct rest as [|[w j] rest']; [trivial|].
        intros Hw. specialize (H3 En Hw).
        destruct removed as [r|]; cbn; [|exact H3].
        cbn in Hc. eapply same_attrs_trans; [|exact H3].
        apply Hc. rewrite (same_attrs_ro _ _ H3). exact Hw.
Qed.

Lemma gon_volatile_ok cs st st' :
  stack_ok cs (length cs) st ->
  gon_volatile cs st = Some st' ->
  stack_ok cs (length cs) st'.
Proof.
  unfold gon_volatile. destruct cs as [|k cs0] eqn:Ecs; [discriminate|]. rewrite <- Ecs.
  assert (Hlen : length cs >= 1) by (subst; cbn; lia).
  destruct (nth_error cs (length cs - 1)) as [[ps|]|] eqn:En; try discriminate.
  destruct st as [|[v i] rest].
  - intros _ [= <-]. cbn. split; [lia|auto].
  - intros Hst. destruct (i =? length cs - 1) eqn:Ei.
    + intros [= <-]. exact Hst.
    + apply Nat.eqb_neq in Ei. intros [= <-].
      assert (Hi : i < length cs) by (cbn in Hst; tauto).
      cbn. split; [lia|]. split.
      * cbn in Hst. destruct Hst as (H1 & H2 & H3). split; [lia|]. split; assumption.
      * intros _ _. apply same_attrs_refl.
Qed.

Lemma get_or_new_stack_ok cs sc st st' ps0 cs0 :
  cs = CRegular ps0 :: cs0 ->
  stack_ok cs (length cs) st ->
  get_or_new_stack cs sc st = Some st' ->
  stack_ok cs (length cs) st'.
Proof.
  intros Ecs Hst. destruct sc; cbn.
  - apply gon_loop_ok; [exact Hst|exact I| |].
    + subst; cbn; lia.
    + subst; cbn; eauto.
  - destruct (topreg cs) as [ci|] eqn:Et; [|discriminate].
    destruct (topreg_spec _ _ Et) as (H1 & H2 & _).
    apply gon_loop_ok; [exact Hst|exact I|exact H1|exact H2].
  - apply gon_volatile_ok; exact Hst.
Qed.

Lemma get_or_new_stack_nonempty cs sc st st' :
  get_or_new_stack cs sc st = Some st' -> st' <> [].
Proof.
  assert (HL : forall ci removed st st', gon_loop cs ci removed st = Some st' -> st' <> []).
  { intros ci removed st0. revert removed. induction st0 as [|[v i] rest IH]; intros removed st0'; cbn [gon_loop].
    - intros [= <-]; discriminate.
    - destruct (i <? ci); [intros [= <-]; discriminate|].
      destruct (nth_error cs i) as [[ps|]|]; [intros [= <-]; discriminate| |discriminate].
      apply IH. }
  destruct sc; cbn.
  - apply HL.
  - destruct (topreg cs); [apply HL|discriminate].
  - unfold gon_volatile. destruct cs; [discriminate|].
    destruct (nth_error _ _) as [[|]|]; try discriminate.
    destruct st as [|[v i] rest]; [intros [= <-]; discriminate|].
    destruct (i =? _); intros [= <-]; discriminate.
Qed.

(* ---- unset ----------------------------------------------------------------------------- *)

Lemma span_ge_app i st : fst (span_ge i st) ++ snd (span_ge i st) = st.
Proof.
  induction st as [|[v j] rest IH]; cbn; [reflexivity|].
  destruct (i <=? j); [|reflexivity].
  destruct (span_ge i rest) as [u l]; cbn in *. rewrite IH. reflexivity.
Qed.

Lemma span_ge_lower_ok cs b i st : stack_ok cs b st -> stack_ok cs b (snd (span_ge i st)).
Proof.
  revert b. induction st as [|[v j] rest IH]; cbn; intros b H; [trivial|].
  destruct (i <=? j); [|exact H].
  destruct H as (H1 & H2 & _).
  specialize (IH j H2). destruct (span_ge i rest) as [u l]; cbn in *.
  eapply stack_ok_weaken; [|exact IH]. lia.
Qed.

(* ---- pop --------------------------------------------------------------------------------- *)

Lemma assoc_pop_vars len l n :
  NoDup (map fst l) ->
  assoc n (pop_vars len l) =
  match assoc n l with
  | Some st => if is_nil (pop_if_ge len st) then None else Some (pop_if_ge len st)
  | None => None
  end.
Proof.
  induction l as [|[m st] l IH]; cbn; intros Hd; [reflexivity|].
  inversion Hd as [|? ? Hn Hd']; subst.
  destruct (str_eqb m n) eqn:E.
  - apply str_eqb_eq in E; subst m.
    destruct (is_nil (pop_if_ge len st)) eqn:En; cbn.
    + rewrite (IH Hd').
      assert (Ha : assoc n l = None) by (apply assoc_none_notin; exact Hn).
      rewrite Ha. reflexivity.
    + rewrite str_eqb_refl. reflexivity.
  - destruct (is_nil (pop_if_ge len st)); cbn; [|rewrite E]; apply IH; exact Hd'.
Qed.

Lemma pop_vars_keys len l m : In m (map fst (pop_vars len l)) -> In m (map fst l).
Proof.
  induction l as [|[k st] l IH]; cbn; [trivial|].
  destruct (is_nil (pop_if_ge len st)); cbn; intuition.
Qed.

Lemma pop_vars_nodup len l : NoDup (map fst l) -> NoDup (map fst (pop_vars len l)).
Proof.
  induction l as [|[k st] l IH]; cbn; intros Hd; [constructor|].
  inversion Hd as [|? ? Hn Hd']; subst.
  destruct (is_nil (pop_if_ge len st)); cbn; [apply IH; exact Hd'|].
  constructor; [|apply IH; exact Hd'].
  intros H; apply Hn. eapply pop_vars_keys; exact H.
Qed.

Lemma stack_of_pop s len cs n :
  NoDup (map fst (vars s)) ->
  stack_of (mkVS (pop_vars len (vars s)) cs) n = pop_if_ge len (stack_of s n).
Proof.
  intros Hd. unfold stack_of; cbn. rewrite (assoc_pop_vars _ _ _ Hd).
  destruct (assoc n (vars s)) as [st|]; [|reflexivity].
  destruct (pop_if_ge len st); reflexivity.
Qed.

Lemma removelast_length {A} (l : list A) : length (removelast l) = length l - 1.
Proof.
  induction l as [|x l IH]; [reflexivity|].
  destruct l as [|y l]; [reflexivity|]. cbn [removelast length] in *. rewrite IH. lia.
Qed.

Lemma nth_error_removelast {A} (l : list A) i :
  i < length l - 1 -> nth_error (removelast l) i = nth_error l i.
Proof.
  revert i. induction l as [|x l IH]; intros i Hi; [reflexivity|].
  destruct l as [|y l]; [cbn in Hi; lia|].
  destruct i; [reflexivity|]. cbn [removelast nth_error].
  apply IH. cbn [length] in *. lia.
Qed.

Lemma pop_if_ge_ok cs len st :
  length cs = S len ->
  stack_ok cs (S len) st ->
  stack_ok (removelast cs) len (pop_if_ge len st).
Proof.
  intros Hl Hst.
  apply stack_ok_ctx with (cs := cs).
  { intros i Hi. rewrite nth_error_removelast by lia. trivial. }
  destruct st as [|[v i] rest]; cbn; [trivial|].
  cbn in Hst. destruct Hst as (H1 & H2 & H3).
  destruct (len <=? i) eqn:E.
  - apply Nat.leb_le in E. assert (i = len) by lia. subst i. exact H2.
  - apply Nat.leb_gt in E. cbn. split; [exact E|]. split; assumption.
Qed.

(* ---- set_nth -------------------------------------------------------------------------------- *)

Lemma set_nth_length {A} i (x : A) l : length (set_nth i x l) = length l.
Proof. revert i; induction l as [|y l IH]; intros [|i]; cbn; auto. Qed.

Lemma nth_error_set_nth_same {A} i (x : A) l : i < length l -> nth_error (set_nth i x l) i = Some x.
Proof.
  revert i; induction l as [|y l IH]; intros [|i]; cbn; intros H; try lia; [reflexivity|].
  apply IH; lia.
Qed.

Lemma nth_error_set_nth_other {A} i j (x : A) l : i <> j -> nth_error (set_nth i x l) j = nth_error l j.
Proof.
  revert i j; induction l as [|y l IH]; intros [|i] [|j]; cbn; intros H; try reflexivity; try lia.
  apply IH; lia.
Qed.

(* ---- the invariant ------------------------------------------------------------------------------ *)


Lemma inv_init : Inv init.
Proof.
  constructor; cbn.
  - constructor.
  - eauto.
  - intros n. exact I.
Qed.

Lemma with_stack_inv s n st :
  Inv s -> stack_ok (ctxs s) (length (ctxs s)) st -> Inv (with_stack s n st).
Proof.
  intros [Hk Hb Hs] Hst. constructor; cbn.
  - apply set_assoc_nodup; exact Hk.
  - exact Hb.
  - intros m. destruct (str_eq_dec m n) as [->|Hne].
    + rewrite stack_of_with_same. exact Hst.
    + rewrite stack_of_with_other by exact Hne. apply Hs.
Qed.

Lemma stack_of_assoc s n st : assoc n (vars s) = Some st -> stack_of s n = st.
Proof. unfold stack_of. intros ->. reflexivity. Qed.

Theorem inv_step s o s' r : Inv s -> step s o = Some (s', r) -> Inv s'.
Proof.
  intros HI. pose proof HI as [Hk Hb Hs]. destruct Hb as (ps0 & cs0 & Ecs).
  destruct o as [c| |n sc ms|n sc|ps]; cbn [step].
  - (* push *)
    intros [= <- <-]. constructor; cbn.
    + exact Hk.
    + rewrite Ecs. cbn. eauto.
    + intros n. change (stack_of (mkVS (vars s) (ctxs s ++ [c])) n) with (stack_of s n).
      rewrite app_length; cbn.
      apply stack_ok_weaken with (b := length (ctxs s)); [lia|].
      apply stack_ok_ctx with (cs := ctxs s); [|apply Hs].
      intros i Hi. rewrite nth_error_app1 by exact Hi. trivial.
  - (* pop *)
    destruct (ctxs s) as [|c1 [|c2 cs']] eqn:E; try discriminate.
    rewrite <- E in Hs |- *.
    intros [= <- <-]. constructor; cbn [vars ctxs].
    + apply pop_vars_nodup; exact Hk.
    + assert (Hc1 : c1 = CRegular ps0) by congruence.
      rewrite E, Hc1. cbn [removelast]. eauto.
    + intros n. rewrite stack_of_pop by exact Hk.
      rewrite removelast_length.
      apply pop_if_ge_ok.
      * rewrite E; cbn; lia.
      * replace (S (length (ctxs s) - 1)) with (length (ctxs s)) by (rewrite E; cbn; lia).
        apply Hs.
  - (* get_or_new *)
    destruct (get_or_new_stack (ctxs s) sc (stack_of s n)) as [[|[v i] rest]|] eqn:Eg; try discriminate.
    pose proof (get_or_new_stack_ok _ _ _ _ _ _ Ecs (Hs n) Eg) as Hok.
    destruct (mutate_all v ms) as [v' rs] eqn:Em. intros [= <- <-].
    apply with_stack_inv; [exact HI|].
    pose proof (stack_ok_mutate _ _ _ _ _ ms Hok) as H. rewrite Em in H. exact H.
  - (* unset *)
    destruct (assoc n (vars s)) as [st|] eqn:Ea; [|intros [= <- <-]; exact HI].
    destruct (index_of_context sc (ctxs s)) as [ci|]; [|discriminate].
    pose proof (span_ge_lower_ok _ _ ci _ (Hs n)) as Hl.
    rewrite (stack_of_assoc _ _ _ Ea) in Hl.
    destruct (span_ge ci st) as [u l] eqn:Es. cbn in Hl.
    destruct (first_ro u); intros [= <- <-]; [exact HI|].
    apply with_stack_inv; assumption.
  - (* set_params *)
    destruct (topreg (ctxs s)) as [i|] eqn:Et; [|discriminate].
    intros [= <- <-].
    destruct (topreg_spec _ _ Et) as (Hi & (ps' & Hn) & _).
    constructor; cbn [vars ctxs].
    + exact Hk.
    + rewrite Ecs. destruct i; cbn; eauto.
    + intros n. change (stack_of (mkVS (vars s) _) n) with (stack_of s n).
      rewrite set_nth_length.
      apply stack_ok_ctx with (cs := ctxs s); [|apply Hs].
      intros j Hj. destruct (Nat.eq_dec i j) as [<-|Hne].
      * rewrite nth_error_set_nth_same by exact Hi. discriminate.
      * rewrite nth_error_set_nth_other by exact Hne. trivial.
Qed.

Lemma inv_run ops : forall s s', Inv s -> run s ops = Some s' -> Inv s'.
Proof.
  induction ops as [|o ops IH]; cbn; intros s s' HI.
  - intros [= <-]; exact HI.
  - destruct (step s o) as [[s1 r]|] eqn:E; [|discriminate].
    apply IH. eapply inv_step; eassumption.
Qed.
