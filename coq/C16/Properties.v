(* C16 — property theorems only.  Each is closed by [exact] of a lemma from
   Proofs*.v; the driver pins the statements with [Check] and prints the
   assumptions on every run. *)
From Yv Require Import Common.Base C16.Model C16.Spec C16.Proofs.

(* The invariant of the variable set (normalised per-name stacks, base context
   regular, volatile copies of read-only variables are copies) holds initially
   and is preserved by every operation that does not panic. *)
Theorem inv_init : Inv init.
Proof. exact ProofsBase.inv_init. Qed.

Theorem inv_preserved : forall s o s' r, Inv s -> step s o = Some (s', r) -> Inv s'.
Proof. exact inv_step. Qed.

(* Every operation commutes with the abstraction to the stack of maps, returns
   what the specification returns, and panics exactly where the specification
   is undefined (pop of the base context, Scope::Volatile without a volatile
   context on top). *)
Theorem abs_commutes : forall s a o, Inv s -> Abs s a ->
  match step s o, sstep a o with
  | Some (s', r), Some (a', r') => Abs s' a' /\ r = r'
  | None, None => True
  | _, _ => False
  end.
Proof. exact sim_step. Qed.

Theorem abs_commutes_run : forall ops,
  match run init ops, srun sinit ops with
  | Some s', Some a' => Inv s' /\ Abs s' a'
  | None, None => True
  | _, _ => False
  end.
Proof. exact sim_run_init. Qed.

Example abs_commutes_nonvacuous : exists a, srun sinit ex_ops = Some a /\ Abs ex_state a.
Proof. exact ex_state_abs. Qed.

(* get(n) is the variable of the innermost context that has n. *)
Theorem lookup_innermost : forall s n v, Inv s ->
  (get s n = Some v <->
   exists i, entry s n i = Some v /\ forall j, i < j -> entry s n j = None).
Proof. exact lookup_innermost_lemma. Qed.

Example lookup_nonvacuous :
  Inv ex_state /\ exists v, get ex_state A = Some v /\ vval v = Some (Scalar [51%N]).
Proof. exact (conj ex_state_inv ex_state_get). Qed.

Theorem lookup_none : forall s n, Inv s -> (get s n = None <-> forall i, entry s n i = None).
Proof. exact get_none_lemma. Qed.

Theorem lookup_is_spec_lookup : forall s a n, Abs s a -> get s n = slookup a n.
Proof. exact get_spec_lookup. Qed.

Theorem scoped_lookup_is_spec : forall s a n sc, Inv s -> Abs s a ->
  get_scoped s n sc = Some (s_get_scoped a n sc).
Proof. exact get_scoped_sim. Qed.

Theorem iter_is_scoped_lookup : forall s sc, Inv s ->
  exists l, iter s sc = Some l /\ NoDup (map fst l) /\
            forall n v, In (n, v) l <-> get_scoped s n sc = Some (Some v).
Proof. exact iter_model_lemma. Qed.

Theorem positional_params_spec : forall s a, Inv s -> Abs s a -> positional_params s = s_params a.
Proof. exact params_sim. Qed.

(* A read-only variable keeps its value, its assignment location and its
   read-only location (only the export flag may change) under every operation,
   until its context is popped; one that lives in a regular context stays in
   that context, a temporary (volatile) copy may migrate to a lower context. *)
Theorem readonly_never_changes : forall s o s' r n i w,
  Inv s -> step s o = Some (s', r) ->
  entry s n i = Some w -> is_ro w = true ->
  (o = OPop /\ S i = length (ctxs s)) \/
  exists i' w', i' <= i /\ entry s' n i' = Some w' /\ same_attrs w' w /\
                (nth_error (ctxs s) i = Some CVolatile \/ i' = i).
Proof. exact readonly_lemma. Qed.

Example readonly_nonvacuous :
  Inv ex_state /\
  (exists w, entry ex_state A 0 = Some w /\ is_ro w = true) /\
  (exists w, entry ex_state A 1 = Some w /\ is_ro w = true /\ vexp w = true).
Proof. exact (conj ex_state_inv (conj (proj1 (proj2 ex_state_facts)) (proj1 (proj2 (proj2 ex_state_facts))))). Qed.

(* A visible read-only variable refuses unset and assignment -- whether or not
   it has a value (`readonly v` without assignment). *)
Theorem readonly_refuses_unset : forall s n w loc,
  get s n = Some w -> vro w = Some loc ->
  step s (OUnset n SGlobal) = Some (s, RUnsetErr loc).
Proof. exact unset_refused_lemma. Qed.

Theorem readonly_refuses_assign : forall s n w loc x l,
  Inv s -> get s n = Some w -> vro w = Some loc ->
  exists s', step s (OGetOrNew n SGlobal [MAssign x l]) = Some (s', RMuts [AErr loc]).
Proof. exact assign_refused_lemma. Qed.

Example readonly_valueless_nonvacuous :
  Inv ex_valueless /\
  exists w, get ex_valueless A = Some w /\ vval w = None /\ vro w = Some 9%N.
Proof. exact ex_valueless_facts. Qed.

(* A read-only variable of the base context keeps its value for ever. *)
Theorem readonly_global_forever : forall ops s s' n w,
  Inv s -> run s ops = Some s' ->
  entry s n 0 = Some w -> is_ro w = true ->
  exists w', entry s' n 0 = Some w' /\ same_attrs w' w.
Proof. exact readonly_global_lemma. Qed.

(* Popping a context discards exactly the variables (and the positional
   parameters) of the topmost context. *)
Theorem pop_discards_exactly_top : forall s s' r,
  Inv s -> step s OPop = Some (s', r) ->
  ctxs s' = removelast (ctxs s) /\
  (forall n i, i < length (ctxs s') -> entry s' n i = entry s n i) /\
  (forall n i, length (ctxs s') <= i -> entry s' n i = None) /\
  positional_params s' = positional_params (mkVS (vars s) (removelast (ctxs s))).
Proof. exact pop_lemma. Qed.

Example pop_nonvacuous : Inv ex_state /\ exists s' r, step ex_state OPop = Some (s', r).
Proof. exact (conj ex_state_inv ex_pop). Qed.

(* The environment of an executed program is exactly the visible exported
   variables with their current values. *)
Theorem env_is_exported_visible : forall s x, Inv s ->
  (In x (env_c_strings s) <-> exists n v, get s n = Some v /\ env_entry n v = Some x).
Proof. exact env_lemma. Qed.

Theorem env_entry_meaning : forall n v x,
  env_entry n v = Some x <->
  vexp v = true /\ ~ In EQ n /\
  exists val, vval v = Some val /\ x = n ++ EQ :: value_string val /\ ~ In 0%N x.
Proof. exact ProofsProps.env_entry_meaning. Qed.

Theorem env_no_duplicates : forall s, Inv s -> NoDup (env_c_strings s).
Proof. exact env_nodup_lemma. Qed.

Example env_nonvacuous : Inv ex_state /\ env_c_strings ex_state = [[97; 61; 51]%N].
Proof. exact (conj ex_state_inv (proj2 (proj2 (proj2 (proj2 ex_state_facts))))). Qed.

(* Array values are passed as their items joined with ':' (and the join loses
   nothing when no item contains ':'). *)
Theorem env_array_joined : forall s n v l,
  Inv s -> get s n = Some v -> vval v = Some (Array l) -> vexp v = true ->
  ~ In EQ n -> ~ In 0%N (n ++ EQ :: join_colon l) ->
  In (n ++ EQ :: join_colon l) (env_c_strings s).
Proof. exact env_array_lemma. Qed.

Theorem join_colon_recovers_items : forall l,
  l <> [] -> Forall (fun x => ~ In COLON x) l -> split_on COLON [] (join_colon l) = l.
Proof. exact join_colon_split. Qed.

Example env_array_nonvacuous :
  Inv ex_array /\ env_c_strings ex_array = [[97; 61; 49; 58; 58; 50]%N].
Proof. exact ex_array_facts. Qed.

(* Script level: in every script of the command language, every environment an
   executed program receives is the environment of a state that satisfies the
   invariant, i.e. exactly the visible exported variables at that point ... *)
Theorem script_env_is_exported_visible : forall names cs,
  match run_script names cs with (t, _, _) => Forall (env_ok names) t end.
Proof. exact script_env_lemma. Qed.

(* ... and that state includes the temporary assignments of the command itself:
   unless one of them fails (the shell exits), each is visible and exported
   with the value assigned last, and every other name is as before. *)
Theorem exec_env_has_temporaries : forall ov oe temps l s t e s',
  Inv s -> irun vset step ov oe (compile (CExec temps) ++ l) s = (t, e, s') ->
  (e = Exited /\ t = []) \/
  exists s1 t', t = oe s1 :: t' /\ Inv s1 /\
    (forall n v, last_temp n temps = Some v ->
                 exists w, get s1 n = Some w /\ vval w = Some v /\ vexp w = true) /\
    (forall n, last_temp n temps = None -> get s1 n = get s n).
Proof. exact exec_env_lemma. Qed.

Example exec_env_nonvacuous :
  Inv ex_pre_state /\
  exists t s', irun vset step (m_obs_vars [A; B]) (m_obs_env [A; B])
                 (compile (CExec [(A, FIVE); (A, Scalar [54%N])]) ++ []) ex_pre_state = (t, Finished, s').
Proof. exact (conj ex_pre_inv ex_exec_runs). Qed.

(* The quirk (LINENO) is only a flag on the variable: setting it changes no
   stored field, so every theorem above holds for quirk variables as well
   ([inv_preserved], [abs_commutes], ... quantify over all mutations including
   set_quirk); a quirk variable has no stored value and therefore never reaches
   the environment. *)
Theorem quirk_is_only_a_flag : forall v q,
  let v' := fst (mutate v (MSetQuirk q)) in
  vval v' = vval v /\ vloc v' = vloc v /\ vexp v' = vexp v /\ vro v' = vro v /\ vquirk v' = q.
Proof. exact set_quirk_lemma. Qed.

Theorem quirk_does_not_change_environment : forall n v q,
  env_entry n (fst (mutate v (MSetQuirk q))) = env_entry n v.
Proof. exact quirk_env_lemma. Qed.

Example quirk_lineno :
  Inv ex_lineno /\
  (exists w, get ex_lineno LINENO = Some w /\ vval w = None /\ vquirk w = true /\ vexp w = true) /\
  env_c_strings ex_lineno = [].
Proof. exact ex_lineno_facts. Qed.

(* ---- the caller rules: lifetimes of temporary assignments, locals, positional
   parameters ([compile] = yash-semantics simple_command*.rs; [irun] runs the
   compiled instructions; the observers [ov], [oe] are arbitrary) ---------------- *)

(* Assignments prefixed to a regular built-in that only looks at the variables,
   or to an external utility, do not outlive it: the whole variable set is as
   before. *)
Theorem temp_assign_lifetime_regular : forall ov oe temps s t s',
  Inv s -> irun vset step ov oe (compile (CProbe temps)) s = (t, Finished, s') ->
  ctxs s' = ctxs s /\ forall n, stack_of s' n = stack_of s n.
Proof. exact temp_regular_lemma. Qed.

Theorem temp_assign_lifetime_external : forall ov oe temps s t s',
  Inv s -> irun vset step ov oe (compile (CExec temps)) s = (t, Finished, s') ->
  ctxs s' = ctxs s /\ forall n, stack_of s' n = stack_of s n.
Proof. exact temp_external_lemma. Qed.

Example temp_assign_lifetime_regular_nonvacuous :
  Inv ex_pre_state /\
  exists t s', irun vset step (m_obs_vars [A; B]) (m_obs_env [A; B])
                 (compile (CProbe [(A, FIVE)])) ex_pre_state = (t, Finished, s').
Proof. exact (conj ex_pre_inv ex_regular_runs). Qed.

(* Assignments prefixed to a special built-in (or to no command) persist. *)
Theorem temp_assign_special_persists : forall ov oe n v s t s',
  irun vset step ov oe (compile (CSpecial [(n, v)])) s = (t, Finished, s') ->
  exists w, get s' n = Some w /\ vval w = Some v.
Proof. exact temp_special_lemma. Qed.

Example temp_assign_special_nonvacuous :
  exists t s', irun vset step (m_obs_vars [A; B]) (m_obs_env [A; B])
                 (compile (CSpecial [(A, FIVE)])) ex_pre_state = (t, Finished, s').
Proof. exact ex_special_runs. Qed.

(* Function call: whatever the body does -- nested calls, typeset, unset,
   set --, temporary assignments -- as long as it does not assign, export,
   make read-only or unset the name [n] with global scope ([cmd_safe n]), after
   the return [n] is exactly as before the call (so temporaries and locals
   vanish), and so are all contexts with their positional parameters. *)
Theorem temp_assign_lifetime_function : forall ov oe temps body args n s t s',
  Inv s -> forallb (cmd_safe n) body = true ->
  irun vset step ov oe (compile (CCall temps body args)) s = (t, Finished, s') ->
  ctxs s' = ctxs s /\ stack_of s' n = stack_of s n.
Proof. exact temp_function_lemma. Qed.

Example temp_assign_lifetime_function_nonvacuous :
  Inv ex_pre_state /\ forallb (cmd_safe B) ex_body = true /\
  exists t s', irun vset step (m_obs_vars [A; B]) (m_obs_env [A; B])
                 (compile (CCall [(A, FIVE)] ex_body [[113%N]])) ex_pre_state = (t, Finished, s').
Proof. exact (conj ex_pre_inv ex_call_runs). Qed.

(* `return`: the rest of the body does not run and the call ends exactly like a
   call whose body stops there -- so all the theorems about calls (contexts,
   temporaries, locals, positional parameters popped at every level of
   nesting) apply to functions left by `return`. *)
Theorem return_ends_the_call : forall t pre post a,
  cut_return pre = pre ->
  compile (CCall t (pre ++ CReturn :: post) a) = compile (CCall t pre a).
Proof. exact return_lemma. Qed.

(* `for`: the variable is assigned in the enclosing scope (no context is
   pushed) and keeps the last value after the loop. *)
Theorem for_variable_persists : forall ov oe n vals v s t s',
  irun vset step ov oe (compile (CFor n (vals ++ [v]) [])) s = (t, Finished, s') ->
  ctxs s' = ctxs s /\ exists w, get s' n = Some w /\ vval w = Some (Scalar v).
Proof. exact for_lemma. Qed.

(* A global assigned inside a function persists after the return. *)
Theorem globals_assigned_inside_persist : forall ov oe temps n v args s t s',
  Inv s ->
  irun vset step ov oe (compile (CCall temps [CAssign [(n, v)]] args)) s = (t, Finished, s') ->
  exists w, get s' n = Some w /\ vval w = Some v.
Proof. exact global_assign_persists_lemma. Qed.

Example globals_assigned_inside_nonvacuous :
  Inv ex_pre_state /\
  exists t s', irun vset step (m_obs_vars [A; B]) (m_obs_env [A; B])
                 (compile (CCall [(A, Scalar [55%N])] [CAssign [(A, FIVE)]] [])) ex_pre_state
               = (t, Finished, s').
Proof. exact (conj ex_pre_inv ex_global_persist_runs). Qed.

(* ---- the scope chosen by the built-ins, seen after the return ------------------------------- *)

(* `readonly NAME[=VALUE]` executed inside a function (at any depth: [s] is any
   reachable state; with or without temporary assignments before the call):
   after the return the name is still a variable, read-only, with the value
   given.  (readonly.rs forces Scope::Global: the visible variable or a new
   one in the base context is marked, never a new local.) *)
Theorem readonly_in_function_persists : forall ov oe temps n v args s t s',
  Inv s ->
  irun vset step ov oe (compile (CCall temps [CReadonly n v] args)) s = (t, Finished, s') ->
  exists w, get s' n = Some w /\ is_ro w = true /\ forall x, v = Some x -> vval w = Some x.
Proof. exact readonly_in_function_lemma. Qed.

(* `export NAME[=VALUE]` inside a function: the same with the export flag. *)
Theorem export_in_function_persists : forall ov oe temps n v args s t s',
  Inv s ->
  irun vset step ov oe (compile (CCall temps [CExport n v] args)) s = (t, Finished, s') ->
  exists w, get s' n = Some w /\ vexp w = true /\ forall x, v = Some x -> vval w = Some x.
Proof. exact export_in_function_lemma. Qed.

(* `typeset [-x] [-r] NAME[=VALUE]` (no -g) inside a function, whatever the
   options, the temporary assignments before the function and before typeset:
   after the return the name is exactly as before the call. *)
Theorem typeset_local_vanishes_at_return : forall ov oe temps tt x r n v args s t s',
  Inv s ->
  irun vset step ov oe (compile (CCall temps [CTypeset tt false x r n v] args)) s = (t, Finished, s') ->
  ctxs s' = ctxs s /\ stack_of s' n = stack_of s n /\ get s' n = get s n.
Proof. exact typeset_local_vanishes_lemma. Qed.

(* `typeset -g [-x] [-r] NAME[=VALUE]` inside a function (no temporary
   assignment before typeset itself): like readonly/export it acts on the
   visible variable or a new one in the base context; after the return the
   variable is there; with -r it is read-only; unless it was read-only already
   (then the assignment is refused and the attributes are skipped) it has the
   value given and, with -x, the export flag. *)
Theorem typeset_global_in_function_persists : forall ov oe temps x r n v args s t s',
  Inv s ->
  irun vset step ov oe (compile (CCall temps [CTypeset [] true x r n v] args)) s = (t, Finished, s') ->
  exists w, get s' n = Some w /\ (r = true -> is_ro w = true) /\
    (is_ro w = true \/ ((forall val, v = Some val -> vval w = Some val) /\ (x = true -> vexp w = true))).
Proof. exact typeset_g_in_function_lemma. Qed.

(* `unset NAME` inside a function (unset/semantics.rs: Scope::Global) removes
   the variable from EVERY context, the caller's locals and the global too:
   nothing is revealed, inside or after the return. *)
Theorem unset_in_function_removes_everywhere : forall ov oe temps n args s t s',
  Inv s ->
  irun vset step ov oe (compile (CCall temps [CUnset n] args)) s = (t, Finished, s') ->
  get s' n = None.
Proof. exact unset_in_function_lemma. Qed.

(* The variable of a `for` loop run inside a function is not local to it. *)
Theorem for_variable_in_function_persists : forall ov oe temps n v args s t s',
  Inv s ->
  irun vset step ov oe (compile (CCall temps [CFor n [v] []] args)) s = (t, Finished, s') ->
  exists w, get s' n = Some w /\ vval w = Some (Scalar v).
Proof. exact for_in_function_lemma. Qed.

Example scope_theorems_nonvacuous :
  Inv ex_pre_state /\
  (exists t s', irun vset step (m_obs_vars [A; B]) (m_obs_env [A; B])
                 (compile (CCall [(A, Scalar [55%N])] [CReadonly A (Some FIVE)] [])) ex_pre_state
               = (t, Finished, s')) /\
  (exists t s', irun vset step (m_obs_vars [A; B]) (m_obs_env [A; B])
                 (compile (CCall [(A, Scalar [55%N])] [CExport A None] [])) ex_pre_state
               = (t, Finished, s')) /\
  (exists t s', irun vset step (m_obs_vars [A; B]) (m_obs_env [A; B])
                 (compile (CCall [(A, Scalar [55%N])] [CTypeset [] false true true A (Some FIVE)] [])) ex_pre_state
               = (t, Finished, s')).
Proof. exact (conj ex_pre_inv ex_scope_runs). Qed.

Example scope_theorems_nonvacuous2 :
  Inv ex_pre_state /\
  (exists t s', irun vset step (m_obs_vars [A; B]) (m_obs_env [A; B])
                 (compile (CCall [(A, Scalar [55%N])] [CTypeset [] true true true A (Some FIVE)] [])) ex_pre_state
               = (t, Finished, s')) /\
  (exists t s', irun vset step (m_obs_vars [A; B]) (m_obs_env [A; B])
                 (compile (CCall [(A, Scalar [55%N])] [CUnset A] [])) ex_pre_state
               = (t, Finished, s')) /\
  (exists t s', irun vset step (m_obs_vars [A; B]) (m_obs_env [A; B])
                 (compile (CCall [(A, Scalar [55%N])] [CFor A [[49%N]] []] [])) ex_pre_state
               = (t, Finished, s')).
Proof. exact (conj ex_pre_inv ex_scope_runs2). Qed.

(* Why a built-in that takes Scope::Local for Scope::Global shows nothing at
   top level: while the base context is the only regular one the two scopes
   are the same operation ... *)
Theorem local_scope_is_global_at_top_level : forall s n ms,
  topreg (ctxs s) = Some 0 ->
  step s (OGetOrNew n SLocal ms) = step s (OGetOrNew n SGlobal ms).
Proof. exact local_is_global_at_top_level. Qed.

(* ... and inside a function they are not. *)
Theorem local_scope_differs_in_function :
  exists s n ms, Inv s /\ topreg (ctxs s) = Some 1 /\
    step s (OGetOrNew n SLocal ms) <> step s (OGetOrNew n SGlobal ms).
Proof. exact local_differs_in_function. Qed.

(* The unconditional statement "an assignment prefixed to a regular built-in
   does not outlive it" is FALSE of the model when the built-in itself declares
   the same variable (typeset; the same mechanism applies to read): the
   temporary variable migrates to the permanent context, exported.
   Full statement that is refuted:
     forall temps g x r n v s t s', Inv s ->
       irun .. (compile (CTypeset temps g x r n v)) s = (t, Finished, s') ->
       forall m, In m (map fst temps) -> get s' m = get s m. *)
Theorem temp_assign_lifetime_typeset_refuted :
  exists temps n t s',
    irun vset step (m_obs_vars [[97%N]]) (m_obs_env [[97%N]])
         (compile (CTypeset temps false false false n None)) init = (t, Finished, s') /\
    In n (map fst temps) /\ get init n = None /\
    exists w, get s' n = Some w /\ vval w = Some (Scalar [53%N]) /\ vexp w = true.
Proof. exact typeset_temp_outlives. Qed.

(* The same for `read` (POSIX regular built-in): after `a=5 read a` the
   variable holds the line read AND is exported although the script never
   exported it. *)
Theorem temp_assign_lifetime_read_refuted :
  exists temps n line t s',
    irun vset step (m_obs_vars [[97%N]]) (m_obs_env [[97%N]]) (compile (CRead temps n line)) init
      = (t, Finished, s') /\
    In n (map fst temps) /\ get init n = None /\
    exists w, get s' n = Some w /\ vval w = Some (Scalar line) /\ vexp w = true.
Proof. exact read_temp_outlives. Qed.

(* Scripts: the model and the stack of maps show the same observations at
   every probe (environments compared as duplicate-free sets). *)
Theorem script_abs_commutes : forall names,
  (forall n, In n names -> ~ In EQ n) -> NoDup names -> forall cs,
  match run_script names cs, srun_script names cs with
  | (tm, em, _), (ts, es, _) => em = es /\ Forall2 (pobs_equiv) tm ts
  end.
Proof. exact script_sim. Qed.

Example script_nonvacuous :
  ((forall n, In n [A; B] -> ~ In EQ n) /\ NoDup [A; B]) /\
  exists tm s', run_script [A; B] ex_script = (tm, Finished, s') /\ length tm = 3.
Proof. exact (conj ex_names_ok ex_script_runs). Qed.

(* ---- panic sites -------------------------------------------------------------------------- *)

(* In a state satisfying the invariant the only operations that panic are the
   pop of the base context (not expressible through the guards) and
   get_or_new with Scope::Volatile when the topmost context is not volatile
   (documented): `self.contexts[..]` is always in bounds, the `expect`s on the
   regular context never fail. *)
Theorem panic_free : forall s o,
  Inv s -> step s o = None ->
  (o = OPop /\ length (ctxs s) = 1) \/
  (exists n ms, o = OGetOrNew n SVolatile ms /\ top_is_volatile (ctxs s) = false).
Proof. exact panic_lemma. Qed.

Theorem reads_never_panic : forall s n sc,
  Inv s ->
  (exists x, get_scoped s n sc = Some x) /\ (exists l, iter s sc = Some l) /\
  (exists ps, positional_params s = Some ps).
Proof. exact reads_total. Qed.

(* The caller rules never reach either panic: every script of the command
   language runs without a panic of the variable set. *)
Theorem callers_never_panic : forall names cs,
  match run_script names cs with (_, e, _) => e <> Panicked end.
Proof. exact run_script_no_panic. Qed.

(* ---- oracle soundness: no false alarms ------------------------------------------------------ *)

(* Stream 1: whatever the model shows after an operation passes every clause of
   the oracle (given that the names in play cover the variables of the set). *)
Theorem oracle_sound : forall names s a r,
  Inv s -> Abs s a -> (forall n, stack_of s n <> [] -> In n names) ->
  oracle names a r (observe names s r) = true.
Proof. exact oracle_sound_lemma. Qed.

Example oracle_sound_nonvacuous :
  Inv ex_state /\ (exists a, srun sinit ex_ops = Some a /\ Abs ex_state a) /\
  (forall n, stack_of ex_state n <> [] -> In n [A]).
Proof. exact (conj ex_state_inv (conj ex_state_abs ex_state_covers)). Qed.

(* Stream 2: a shell that shows what the model shows gets verdict 0. *)
Theorem script_oracle_sound : forall names cs,
  (forall n, In n names -> ~ In EQ n) -> NoDup names ->
  match run_script names cs with
  | (tm, em, _) => em <> Panicked -> run_script_case names cs tm false = 0%N
  end.
Proof. exact script_oracle_sound_lemma. Qed.

Print Assumptions inv_init.
Print Assumptions inv_preserved.
Print Assumptions abs_commutes.
Print Assumptions abs_commutes_run.
Print Assumptions lookup_innermost.
Print Assumptions lookup_none.
Print Assumptions lookup_is_spec_lookup.
Print Assumptions scoped_lookup_is_spec.
Print Assumptions iter_is_scoped_lookup.
Print Assumptions positional_params_spec.
Print Assumptions readonly_never_changes.
Print Assumptions readonly_global_forever.
Print Assumptions pop_discards_exactly_top.
Print Assumptions env_is_exported_visible.
Print Assumptions env_entry_meaning.
Print Assumptions env_no_duplicates.
Print Assumptions temp_assign_lifetime_regular.
Print Assumptions temp_assign_lifetime_external.
Print Assumptions temp_assign_special_persists.
Print Assumptions temp_assign_lifetime_function.
Print Assumptions globals_assigned_inside_persist.
Print Assumptions temp_assign_lifetime_typeset_refuted.
Print Assumptions temp_assign_lifetime_read_refuted.
Print Assumptions script_abs_commutes.
Print Assumptions oracle_sound.
Print Assumptions script_oracle_sound.
Print Assumptions panic_free.
Print Assumptions reads_never_panic.
Print Assumptions callers_never_panic.
Print Assumptions readonly_refuses_unset.
Print Assumptions readonly_refuses_assign.
Print Assumptions env_array_joined.
Print Assumptions join_colon_recovers_items.
Print Assumptions script_env_is_exported_visible.
Print Assumptions exec_env_has_temporaries.
Print Assumptions quirk_is_only_a_flag.
Print Assumptions quirk_does_not_change_environment.
Print Assumptions return_ends_the_call.
Print Assumptions for_variable_persists.
Print Assumptions readonly_in_function_persists.
Print Assumptions export_in_function_persists.
Print Assumptions typeset_local_vanishes_at_return.
Print Assumptions local_scope_is_global_at_top_level.
Print Assumptions local_scope_differs_in_function.
Print Assumptions typeset_global_in_function_persists.
Print Assumptions unset_in_function_removes_everywhere.
Print Assumptions for_variable_in_function_persists.
