(* C16 — the abstraction relation between the per-name stacks of the model and
   the stack of maps of the specification, and the simulation theorem. *)
From Yv Require Import Common.Base C16.Model C16.Spec C16.ProofsBase.
From Coq Require Import Lia.


Lemma abs_init : Abs init sinit.
Proof. split; [reflexivity|]. intros n. reflexivity. Qed.

(* ---- kinds ------------------------------------------------------------------ *)

Lemma kinds_cons c rest : kinds (c :: rest) = kinds rest ++ [sk c].
Proof. reflexivity. Qed.

Lemma kinds_length a : length (kinds a) = length a.
Proof. unfold kinds. rewrite rev_length, map_length. reflexivity. Qed.

Lemma kinds_app pre a : kinds (pre ++ a) = kinds a ++ kinds pre.
Proof. unfold kinds. rewrite map_app, rev_app_distr. reflexivity. Qed.

Lemma kinds_nth pre c rest : nth_error (kinds (pre ++ c :: rest)) (length rest) = Some (sk c).
Proof.
  rewrite kinds_app, kinds_cons, <- app_assoc.
  rewrite nth_error_app2 by (rewrite kinds_length; lia).
  rewrite kinds_length, Nat.sub_diag. reflexivity.
Qed.

Lemma kinds_nth0 c rest : nth_error (kinds (c :: rest)) (length rest) = Some (sk c).
Proof. exact (kinds_nth [] c rest). Qed.

Lemma topreg_kinds_cons c rest :
  topreg (kinds (c :: rest)) = if is_regular (sk c) then Some (length rest) else topreg (kinds rest).
Proof.
  rewrite kinds_cons. destruct (sk c) as [ps|]; cbn [is_regular].
  - rewrite topreg_app_regular, kinds_length. reflexivity.
  - apply topreg_app_volatile.
Qed.

(* ---- proj ---------------------------------------------------------------------- *)

Lemma proj_lt a n v i : In (v, i) (proj a n) -> i < length a.
Proof.
  induction a as [|c rest IH]; cbn; [intros []|].
  destruct (assoc n (sv c)).
  - intros [[= -> <-]|H]; [lia|]. specialize (IH H). lia.
  - intros H. specialize (IH H). lia.
Qed.

Lemma proj_head_lt a n v i st : proj a n = (v, i) :: st -> i < length a.
Proof. intros H. apply (proj_lt a n v i). rewrite H. left; reflexivity. Qed.

Lemma slookup_proj a n :
  slookup a n = match proj a n with (v, _) :: _ => Some v | [] => None end.
Proof.
  induction a as [|c rest IH]; cbn; [reflexivity|].
  destruct (assoc n (sv c)); [reflexivity|exact IH].
Qed.

Definition shift (k : nat) (p : vic) : vic := (fst p, snd p + k).

Lemma proj_app u l n : proj (u ++ l) n = map (shift (length l)) (proj u n) ++ proj l n.
Proof.
  induction u as [|c rest IH]; cbn; [reflexivity|].
  destruct (assoc n (sv c)); cbn.
  - rewrite IH, app_length. reflexivity.
  - exact IH.
Qed.

(* ---- get_or_new: Global and Local ------------------------------------------------- *)

Fixpoint base_reg (a : sstate) : Prop :=
  match a with
  | [] => False
  | c :: rest => match rest with
                 | [] => is_regular (sk c) = true
                 | _ :: _ => base_reg rest
                 end
  end.

Fixpoint first_reg (a : sstate) : option nat :=
  match a with
  | [] => None
  | c :: rest => if is_regular (sk c) then Some (length rest) else first_reg rest
  end.

Lemma topreg_kinds a : topreg (kinds a) = first_reg a.
Proof.
  induction a as [|c rest IH]; [reflexivity|].
  rewrite topreg_kinds_cons. cbn [first_reg]. rewrite IH. reflexivity.
Qed.

Lemma first_reg_lt a ci : first_reg a = Some ci -> ci < length a.
Proof.
  revert ci. induction a as [|c rest IH]; cbn; intros ci; [discriminate|].
  destruct (is_regular (sk c)).
  - intros [= <-]. lia.
  - intros H. specialize (IH _ H). lia.
Qed.

Lemma base_reg_first_reg a : base_reg a -> exists ci, first_reg a = Some ci.
Proof.
  induction a as [|c rest IH]; cbn; [intros []|].
  destruct (is_regular (sk c)) eqn:E; [eauto|].
  destruct rest as [|c2 rest2]; [intros H; rewrite H in E; discriminate|].
  exact IH.
Qed.

Lemma is_regular_inv k : is_regular k = true -> exists ps, k = CRegular ps.
Proof. destruct k; [eauto|discriminate]. Qed.

Lemma is_volatile_inv k : is_regular k = false -> k = CVolatile.
Proof. destruct k; [discriminate|reflexivity]. Qed.

Lemma s_gon_length local carried n a : length (s_gon local carried n a) = length a.
Proof.
  revert carried. induction a as [|c rest IH]; intros carried; cbn; [reflexivity|].
  destruct (is_regular (sk c)); destruct (assoc n (sv c)); cbn; try rewrite IH; try reflexivity.
  destruct (local || is_nil rest); cbn; [|rewrite IH]; reflexivity.
Qed.

Lemma s_gon_sk local carried n a : map sk (s_gon local carried n a) = map sk a.
Proof.
  revert carried. induction a as [|c rest IH]; intros carried; cbn; [reflexivity|].
  destruct (is_regular (sk c)); destruct (assoc n (sv c)); cbn; try rewrite IH; try reflexivity.
  destruct (local || is_nil rest); cbn; [|rewrite IH]; reflexivity.
Qed.

Lemma s_gon_other local carried n m a : m <> n -> proj (s_gon local carried n a) m = proj a m.
Proof.
  intros Hne. revert carried. induction a as [|c rest IH]; intros carried; cbn; [reflexivity|].
  destruct (is_regular (sk c)); destruct (assoc n (sv c)) eqn:Ea; cbn.
  - rewrite assoc_set_other by exact Hne. reflexivity.
  - destruct (local || is_nil rest); cbn.
    + rewrite assoc_set_other by exact Hne. reflexivity.
    + rewrite s_gon_length, IH. reflexivity.
  - rewrite assoc_del_other by exact Hne. rewrite s_gon_length, IH. reflexivity.
  - rewrite s_gon_length, IH. reflexivity.
Qed.

Lemma gon_loop_below cs ci removed st :
  (forall v i rest, st = (v, i) :: rest -> i < ci) ->
  gon_loop cs ci removed st = Some ((or_var removed default_var, ci) :: st).
Proof.
  destruct st as [|[v i] rest]; cbn [gon_loop]; intros H; [reflexivity|].
  specialize (H v i rest eq_refl). apply Nat.ltb_lt in H. rewrite H. reflexivity.
Qed.

Lemma s_gon_global n a : forall pre carried,
  base_reg a ->
  gon_loop (kinds (pre ++ a)) 0 carried (proj a n) = Some (proj (s_gon false carried n a) n).
Proof.
  induction a as [|c rest IH]; intros pre carried Hb; [destruct Hb|].
  cbn [s_gon proj].
  destruct (is_regular (sk c)) eqn:Er; destruct (assoc n (sv c)) as [v|] eqn:Ea.
  - cbn [gon_loop]. rewrite Nat.ltb_irrefl || (replace (length rest <? 0) with false by (symmetry; apply Nat.ltb_ge; lia)).
    rewrite kinds_nth. destruct (is_regular_inv _ Er) as [ps ->].
    cbn [proj sv]. rewrite assoc_set_same. reflexivity.
  - destruct rest as [|c2 rest2].
    + cbn. rewrite assoc_set_same. reflexivity.
    + cbn [orb is_nil]. cbn [proj]. rewrite Ea.
      replace (pre ++ c :: c2 :: rest2) with ((pre ++ [c]) ++ c2 :: rest2) by (rewrite <- app_assoc; reflexivity).
      apply IH. exact Hb.
  - cbn [gon_loop].
    replace (length rest <? 0) with false by (symmetry; apply Nat.ltb_ge; lia).
    rewrite kinds_nth. rewrite (is_volatile_inv _ Er).
    cbn [proj sv]. rewrite assoc_del_same.
    replace (pre ++ c :: rest) with ((pre ++ [c]) ++ rest) by (rewrite <- app_assoc; reflexivity).
    apply IH. destruct rest; [cbn in Hb; rewrite Hb in Er; discriminate|exact Hb].
  - cbn [proj]. rewrite Ea.
    replace (pre ++ c :: rest) with ((pre ++ [c]) ++ rest) by (rewrite <- app_assoc; reflexivity).
    apply IH. destruct rest; [cbn in Hb; rewrite Hb in Er; discriminate|exact Hb].
Qed.

Lemma s_gon_local n a : forall pre carried ci,
  first_reg a = Some ci ->
  gon_loop (kinds (pre ++ a)) ci carried (proj a n) = Some (proj (s_gon true carried n a) n).
Proof.
  induction a as [|c rest IH]; intros pre carried ci Hf; [discriminate|].
  cbn [s_gon proj first_reg] in *.
  destruct (is_regular (sk c)) eqn:Er; destruct (assoc n (sv c)) as [v|] eqn:Ea.
  - injection Hf as <-. cbn [gon_loop]. rewrite Nat.ltb_irrefl.
    rewrite kinds_nth. destruct (is_regular_inv _ Er) as [ps ->].
    cbn [proj sv]. rewrite assoc_set_same. reflexivity.
  - injection Hf as <-. cbn [orb]. cbn [proj sv]. rewrite assoc_set_same.
    apply gon_loop_below. intros v i st H. eapply proj_head_lt; exact H.
  - cbn [gon_loop]. pose proof (first_reg_lt _ _ Hf) as Hlt.
    replace (length rest <? ci) with false by (symmetry; apply Nat.ltb_ge; lia).
    rewrite kinds_nth. rewrite (is_volatile_inv _ Er).
    cbn [proj sv]. rewrite assoc_del_same.
    replace (pre ++ c :: rest) with ((pre ++ [c]) ++ rest) by (rewrite <- app_assoc; reflexivity).
    apply IH. exact Hf.
  - cbn [proj]. rewrite Ea.
    replace (pre ++ c :: rest) with ((pre ++ [c]) ++ rest) by (rewrite <- app_assoc; reflexivity).
    apply IH. exact Hf.
Qed.

(* ---- get_or_new: Volatile -------------------------------------------------------------- *)

Lemma s_gon_volatile_sim n a :
  a <> [] ->
  gon_volatile (kinds a) (proj a n) = option_map (fun a1 => proj a1 n) (s_gon_volatile n a).
Proof.
  destruct a as [|c rest]; [congruence|]. intros _.
  unfold gon_volatile.
  destruct (kinds (c :: rest)) as [|k0 ks] eqn:Ek.
  { apply (f_equal (@length _)) in Ek. rewrite kinds_length in Ek. discriminate. }
  rewrite <- Ek. rewrite kinds_length.
  replace (length (c :: rest) - 1) with (length rest) by (cbn [length]; lia).
  rewrite kinds_nth0. cbn [s_gon_volatile].
  destruct (is_regular (sk c)) eqn:Er.
  - destruct (is_regular_inv _ Er) as [ps ->]. reflexivity.
  - rewrite (is_volatile_inv _ Er). cbn [proj].
    destruct (assoc n (sv c)) as [v|] eqn:Ea.
    + rewrite Nat.eqb_refl. cbn. rewrite Ea. reflexivity.
    + cbn [option_map proj sv]. rewrite assoc_set_same. rewrite slookup_proj.
      destruct (proj rest n) as [|[v i] st] eqn:Ep; [reflexivity|].
      pose proof (proj_head_lt _ _ _ _ _ Ep) as Hlt.
      replace (i =? length rest) with false by (symmetry; apply Nat.eqb_neq; lia).
      reflexivity.
Qed.

Lemma s_gon_volatile_other n m a a1 :
  m <> n -> s_gon_volatile n a = Some a1 -> proj a1 m = proj a m /\ map sk a1 = map sk a.
Proof.
  intros Hne. destruct a as [|c rest]; cbn; [discriminate|].
  destruct (is_regular (sk c)); [discriminate|].
  destruct (assoc n (sv c)); intros [= <-]; [split; reflexivity|].
  cbn. rewrite assoc_set_other by exact Hne. split; reflexivity.
Qed.

(* ---- s_update ---------------------------------------------------------------------------- *)

Lemma s_update_proj n v' a v i st :
  proj a n = (v, i) :: st -> proj (s_update n v' a) n = (v', i) :: st.
Proof.
  induction a as [|c rest IH]; cbn; [discriminate|].
  destruct (assoc n (sv c)) eqn:Ea; cbn.
  - rewrite assoc_set_same. intros [= _ <- <-]. reflexivity.
  - rewrite Ea. exact IH.
Qed.

Lemma s_update_length n v' a : length (s_update n v' a) = length a.
Proof.
  induction a as [|c rest IH]; cbn; [reflexivity|].
  destruct (assoc n (sv c)); cbn; [|rewrite IH]; reflexivity.
Qed.

Lemma s_update_other n m v' a : m <> n -> proj (s_update n v' a) m = proj a m.
Proof.
  intros Hne. induction a as [|c rest IH]; cbn; [reflexivity|].
  destruct (assoc n (sv c)) eqn:Ea; cbn.
  - rewrite assoc_set_other by exact Hne. reflexivity.
  - rewrite s_update_length, IH. reflexivity.
Qed.

Lemma s_update_sk n v' a : map sk (s_update n v' a) = map sk a.
Proof.
  induction a as [|c rest IH]; cbn; [reflexivity|].
  destruct (assoc n (sv c)); cbn; [|rewrite IH]; reflexivity.
Qed.

(* ---- scopes --------------------------------------------------------------------------------- *)

Lemma split_scope_app sc a : fst (split_scope sc a) ++ snd (split_scope sc a) = a.
Proof.
  destruct sc; [destruct a; cbn; [reflexivity|rewrite app_nil_r; reflexivity]| |].
  - induction a as [|c rest IH]; cbn [split_scope]; [reflexivity|].
    destruct (is_regular (sk c)); [reflexivity|].
    destruct (split_scope SLocal rest) as [u l]; cbn in *. rewrite IH. reflexivity.
  - induction a as [|c rest IH]; cbn [split_scope]; [reflexivity|].
    destruct (is_regular (sk c)); [reflexivity|].
    destruct (split_scope SVolatile rest) as [u l]; cbn in *. rewrite IH. reflexivity.
Qed.

Lemma split_scope_index sc a :
  base_reg a -> index_of_context sc (kinds a) = Some (length (snd (split_scope sc a))).
Proof.
  intros Hb. destruct sc; cbn [index_of_context]; [destruct a; reflexivity| |]; rewrite topreg_kinds.
  - induction a as [|c rest IH]; [destruct Hb|]. cbn [first_reg split_scope].
    destruct (is_regular (sk c)) eqn:Er; [reflexivity|].
    assert (Hb' : base_reg rest) by (destruct rest; [cbn in Hb; rewrite Hb in Er; discriminate|exact Hb]).
    rewrite (IH Hb'). destruct (split_scope SLocal rest); reflexivity.
  - induction a as [|c rest IH]; [destruct Hb|]. cbn [first_reg split_scope].
    destruct (is_regular (sk c)) eqn:Er; [reflexivity|].
    assert (Hb' : base_reg rest) by (destruct rest; [cbn in Hb; rewrite Hb in Er; discriminate|exact Hb]).
    specialize (IH Hb'). destruct (first_reg rest); [|discriminate].
    cbn [option_map] in *. rewrite IH. destruct (split_scope SVolatile rest); reflexivity.
Qed.

Lemma span_ge_split i (u l : list vic) :
  (forall p, In p u -> i <= snd p) ->
  (forall p, In p l -> snd p < i) ->
  span_ge i (u ++ l) = (u, l).
Proof.
  intros Hu Hl. induction u as [|[v j] u IH]; cbn [app span_ge].
  - destruct l as [|[v j] l]; [reflexivity|]. cbn [span_ge].
    specialize (Hl (v, j) (or_introl eq_refl)). cbn in Hl.
    replace (i <=? j) with false by (symmetry; apply Nat.leb_gt; lia). reflexivity.
  - pose proof (Hu (v, j) (or_introl eq_refl)) as H. cbn in H.
    apply Nat.leb_le in H. rewrite H. rewrite IH; [reflexivity|].
    intros p Hp. apply Hu. right; exact Hp.
Qed.

Lemma span_ge_proj i u l n :
  i = length l ->
  span_ge i (proj (u ++ l) n) = (map (shift (length l)) (proj u n), proj l n).
Proof.
  intros ->. rewrite proj_app. apply span_ge_split.
  - intros p Hp. apply in_map_iff in Hp. destruct Hp as ([v j] & <- & _). cbn. lia.
  - intros [v j] Hp. cbn. eapply proj_lt; exact Hp.
Qed.

Lemma first_ro_shift k st : first_ro (map (shift k) st) = first_ro st.
Proof.
  induction st as [|[v i] st IH]; cbn; [reflexivity|].
  destruct (vro v); [reflexivity|exact IH].
Qed.

Lemma s_first_ro_proj n u : s_first_ro n u = first_ro (proj u n).
Proof.
  induction u as [|c rest IH]; cbn; [reflexivity|].
  destruct (assoc n (sv c)) as [v|]; cbn; [|exact IH].
  destruct (vro v); [reflexivity|exact IH].
Qed.

Lemma proj_del_same n u : proj (map (s_del n) u) n = [].
Proof.
  induction u as [|c rest IH]; cbn; [reflexivity|].
  rewrite assoc_del_same. exact IH.
Qed.

Lemma proj_del_other n m u : m <> n -> proj (map (s_del n) u) m = proj u m.
Proof.
  intros Hne. induction u as [|c rest IH]; cbn; [reflexivity|].
  rewrite assoc_del_other by exact Hne. rewrite map_length, IH. reflexivity.
Qed.

Lemma map_sk_del n u : map sk (map (s_del n) u) = map sk u.
Proof. induction u as [|c rest IH]; cbn; [|rewrite IH]; reflexivity. Qed.

(* ---- positional parameters --------------------------------------------------------------- *)

Lemma s_set_params_sim ps a i :
  first_reg a = Some i ->
  exists a', s_set_params ps a = Some a' /\
             kinds a' = set_nth i (CRegular ps) (kinds a) /\
             (forall n, proj a' n = proj a n).
Proof.
  revert i. induction a as [|c rest IH]; intros i; cbn [first_reg s_set_params]; [discriminate|].
  destruct (is_regular (sk c)) eqn:Er.
  - intros [= <-]. eexists; split; [reflexivity|]. split.
    + rewrite !kinds_cons. cbn [sk].
      rewrite <- (kinds_length rest).
      clear. induction (kinds rest) as [|k l IH]; cbn; [reflexivity|]. rewrite IH. reflexivity.
    + intros n. reflexivity.
  - intros Hf. destruct (IH _ Hf) as (a' & E1 & E2 & E3). rewrite E1.
    eexists; split; [reflexivity|]. split.
    + rewrite !kinds_cons, E2.
      pose proof (first_reg_lt _ _ Hf) as Hlt. rewrite <- (kinds_length rest) in Hlt.
      clear - Hlt. revert i Hlt. induction (kinds rest) as [|k l IH]; intros i Hlt; cbn in *; [lia|].
      destruct i; cbn; [reflexivity|]. rewrite IH by lia. reflexivity.
    + intros n. cbn [proj]. rewrite E3.
      assert (Hl : length a' = length rest).
      { rewrite <- (kinds_length a'), E2, set_nth_length, kinds_length. reflexivity. }
      rewrite Hl. reflexivity.
Qed.

Lemma s_params_sim a i :
  first_reg a = Some i ->
  match nth_error (kinds a) i with Some (CRegular ps) => Some ps | _ => None end = s_params a.
Proof.
  revert i. induction a as [|c rest IH]; intros i; cbn [first_reg s_params]; [discriminate|].
  destruct (is_regular (sk c)) eqn:Er.
  - intros [= <-]. rewrite kinds_nth0. destruct (sk c); [reflexivity|discriminate].
  - intros Hf. rewrite (is_volatile_inv _ Er). rewrite <- (IH _ Hf).
    rewrite kinds_cons. rewrite nth_error_app1; [reflexivity|].
    rewrite kinds_length. eapply first_reg_lt; exact Hf.
Qed.

(* ---- the base context ------------------------------------------------------------------------ *)

Lemma base_reg_kinds a k ks : kinds a = k :: ks -> is_regular k = true -> base_reg a.
Proof.
  revert k ks. induction a as [|c rest IH]; intros k ks; [discriminate|].
  rewrite kinds_cons. destruct rest as [|c2 rest2].
  - cbn. intros [= <- <-]. trivial.
  - intros E Hk. cbn [base_reg].
    destruct (kinds (c2 :: rest2)) as [|k' ks'] eqn:Ek.
    { apply (f_equal (@length _)) in Ek. rewrite kinds_length in Ek. discriminate. }
    cbn in E. injection E as <- _. eapply IH; [reflexivity|exact Hk].
Qed.

Lemma abs_base_reg s a : Inv s -> Abs s a -> base_reg a.
Proof.
  intros [_ (ps & rest & Hb) _] [Hc _]. rewrite Hc in Hb.
  eapply base_reg_kinds; [exact Hb|reflexivity].
Qed.

Lemma base_reg_nonempty a : base_reg a -> a <> [].
Proof. destruct a; [intros []|discriminate]. Qed.

(* ---- pop ----------------------------------------------------------------------------------------- *)

Lemma step_pop s :
  step s OPop =
  if length (ctxs s) <? 2 then None
  else Some (mkVS (pop_vars (length (ctxs s) - 1) (vars s)) (removelast (ctxs s)), RUnit).
Proof.
  cbn [step]. destruct (ctxs s) as [|c1 [|c2 cs]] eqn:E; try reflexivity.
  rewrite <- E. rewrite removelast_length.
  replace (length (ctxs s) <? 2) with false; [reflexivity|].
  symmetry; apply Nat.ltb_ge. rewrite E; cbn; lia.
Qed.

Lemma pop_if_ge_proj c rest n : pop_if_ge (length rest) (proj (c :: rest) n) = proj rest n.
Proof.
  cbn [proj]. destruct (assoc n (sv c)) as [v|]; cbn [pop_if_ge].
  - rewrite Nat.leb_refl. reflexivity.
  - destruct (proj rest n) as [|[v i] st] eqn:Ep; [reflexivity|].
    pose proof (proj_head_lt _ _ _ _ _ Ep) as Hlt. cbn [pop_if_ge].
    replace (length rest <=? i) with false by (symmetry; apply Nat.leb_gt; lia). reflexivity.
Qed.

(* ---- get_or_new ---------------------------------------------------------------------------------- *)

Lemma gon_sim n sc a :
  base_reg a ->
  get_or_new_stack (kinds a) sc (proj a n) = option_map (fun a1 => proj a1 n) (s_get_or_new n sc a).
Proof.
  intros Hb. destruct sc; cbn [get_or_new_stack s_get_or_new option_map].
  - apply (s_gon_global n a [] None Hb).
  - rewrite topreg_kinds. destruct (base_reg_first_reg _ Hb) as [ci Hf]. rewrite Hf.
    apply (s_gon_local n a [] None ci Hf).
  - apply s_gon_volatile_sim. apply base_reg_nonempty; exact Hb.
Qed.

Lemma gon_frame n sc a a1 :
  s_get_or_new n sc a = Some a1 ->
  map sk a1 = map sk a /\ forall m, m <> n -> proj a1 m = proj a m.
Proof.
  destruct sc; cbn [s_get_or_new].
  - intros [= <-]. split; [apply s_gon_sk|]. intros m Hm. apply s_gon_other; exact Hm.
  - intros [= <-]. split; [apply s_gon_sk|]. intros m Hm. apply s_gon_other; exact Hm.
  - intros H. split.
    + destruct a as [|c rest]; cbn in H; [discriminate|].
      destruct (is_regular (sk c)); [discriminate|].
      destruct (assoc n (sv c)); injection H as <-; reflexivity.
    + intros m Hm. apply (s_gon_volatile_other n m a a1 Hm H).
Qed.

Lemma kinds_of_sk a a' : map sk a' = map sk a -> kinds a' = kinds a.
Proof. unfold kinds. intros ->. reflexivity. Qed.

(* ---- the simulation -------------------------------------------------------------------------------- *)

Theorem sim_step s a o :
  Inv s -> Abs s a ->
  match step s o, sstep a o with
  | Some (s', r), Some (a', r') => Abs s' a' /\ r = r'
  | None, None => True
  | _, _ => False
  end.
Proof.
  intros HI HA. pose proof (abs_base_reg _ _ HI HA) as Hb.
  destruct HA as [Hc Hst].
  destruct o as [c| |n sc ms|n sc|ps].
  - (* push *)
    cbn [step sstep]. split; [|reflexivity]. split; cbn [ctxs].
    + rewrite Hc. reflexivity.
    + intros n. change (stack_of (mkVS (vars s) (ctxs s ++ [c])) n) with (stack_of s n).
      rewrite Hst. reflexivity.
  - (* pop *)
    rewrite step_pop. rewrite Hc, kinds_length. cbn [sstep].
    destruct a as [|c [|c2 rest2]]; [reflexivity|reflexivity|].
    cbn [length]. replace (S (S (length rest2)) <? 2) with false by (symmetry; apply Nat.ltb_ge; lia).
    split; [|reflexivity]. split; cbn [ctxs].
    + rewrite kinds_cons. apply removelast_last.
    + intros n. rewrite stack_of_pop by (destruct HI; assumption).
      rewrite Hst.
      replace (S (S (length rest2)) - 1) with (length (c2 :: rest2)) by (cbn [length]; lia).
      apply pop_if_ge_proj.
  - (* get_or_new *)
    cbn [step sstep]. rewrite Hc, Hst, (gon_sim n sc a Hb).
    destruct (s_get_or_new n sc a) as [a1|] eqn:Eg; cbn [option_map]; [|exact I].
    destruct (gon_frame _ _ _ _ Eg) as [Hsk Hother].
    destruct (proj a1 n) as [|[v i] rest] eqn:Ep.
    { exfalso. pose proof (gon_sim n sc a Hb) as H. rewrite Eg in H. cbn in H.
      apply get_or_new_stack_nonempty in H. apply H. exact Ep. }
    rewrite slookup_proj, Ep.
    destruct (mutate_all v ms) as [v' rs] eqn:Em.
    split; [|reflexivity]. split; cbn [with_stack ctxs].
    + rewrite Hc. symmetry. apply kinds_of_sk. rewrite s_update_sk. exact Hsk.
    + intros m. destruct (str_eq_dec m n) as [->|Hne].
      * rewrite stack_of_with_same. symmetry. eapply s_update_proj. exact Ep.
      * rewrite stack_of_with_other by exact Hne.
        rewrite s_update_other by exact Hne. rewrite Hother by exact Hne. apply Hst.
  - (* unset *)
    cbn [step sstep].
    pose proof (split_scope_app sc a) as Happ.
    pose proof (split_scope_index sc a Hb) as Hidx.
    destruct (split_scope sc a) as [u l] eqn:Es. cbn [fst snd] in *.
    assert (Hspan : span_ge (length l) (proj a n) = (map (shift (length l)) (proj u n), proj l n)).
    { rewrite <- Happ. apply span_ge_proj. reflexivity. }
    assert (Hk' : kinds (map (s_del n) u ++ l) = kinds a).
    { apply kinds_of_sk. rewrite map_app, map_sk_del, <- map_app, Happ. reflexivity. }
    assert (Hn' : proj (map (s_del n) u ++ l) n = proj l n).
    { rewrite proj_app, proj_del_same. reflexivity. }
    assert (Hm' : forall m, m <> n -> proj (map (s_del n) u ++ l) m = proj a m).
    { intros m Hm. rewrite <- Happ, !proj_app, proj_del_other by exact Hm. reflexivity. }
    rewrite s_first_ro_proj.
    destruct (assoc n (vars s)) as [st|] eqn:Ea.
    + rewrite Hc, Hidx.
      rewrite <- (stack_of_assoc _ _ _ Ea), Hst, Hspan.
      rewrite first_ro_shift.
      destruct (first_ro (proj u n)) as [r|].
      * split; [|reflexivity]. split; assumption.
      * split.
        -- split; cbn [with_stack ctxs]; [rewrite Hc, Hk'; reflexivity|].
           intros m. destruct (str_eq_dec m n) as [->|Hne].
           ++ rewrite stack_of_with_same, Hn'. reflexivity.
           ++ rewrite stack_of_with_other by exact Hne. rewrite Hm' by exact Hne. apply Hst.
        -- rewrite slookup_proj. destruct (proj u n) as [|[v i] st']; reflexivity.
    + assert (Hnil : proj a n = []).
      { rewrite <- Hst. unfold stack_of. rewrite Ea. reflexivity. }
      assert (Hu : proj u n = []).
      { rewrite <- Happ, proj_app in Hnil. apply app_eq_nil in Hnil. destruct Hnil as [H _].
        destruct (proj u n); [reflexivity|discriminate]. }
      assert (Hl : proj l n = []).
      { rewrite <- Happ, proj_app in Hnil. apply app_eq_nil in Hnil. tauto. }
      rewrite Hu. cbn [first_ro]. split.
      * split; [rewrite Hc, Hk'; reflexivity|].
        intros m. destruct (str_eq_dec m n) as [->|Hne].
        -- rewrite Hn', Hl, Hst. exact Hnil.
        -- rewrite Hm' by exact Hne. apply Hst.
      * rewrite slookup_proj, Hu. reflexivity.
  - (* set_params *)
    cbn [step sstep]. rewrite Hc, topreg_kinds.
    destruct (base_reg_first_reg _ Hb) as [i Hf]. rewrite Hf.
    destruct (s_set_params_sim ps a i Hf) as (a' & E1 & E2 & E3). rewrite E1.
    split; [|reflexivity]. split; cbn [ctxs].
    + symmetry; exact E2.
    + intros n. change (stack_of (mkVS (vars s) _) n) with (stack_of s n).
      rewrite E3. apply Hst.
Qed.
